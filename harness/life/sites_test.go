//go:build verifvsched

package life

import (
	"os"
	"testing"

	"github.com/hydraide/hydraide/app/verifshim/vsched"
)

// requireSites fails the test (harness error, not a property verdict) when the
// engine was not built with the vsched overlay or when a site name that the
// forced schedules rely on no longer exists in the instrumented sources (the
// names contain statement indices: re-run cmd/instrument and update them).
func requireSites(t *testing.T, rep vsched.Report, sites ...string) {
	t.Helper()
	if os.Getenv("VERIF_LIFE_SKIP_SITECHECK") != "" {
		return // trial runs against patched engine sources whose site numbering differs
	}
	if len(rep.Hits) == 0 {
		t.Fatalf("harness: no vsched site was hit — build with -tags verif,verifvsched and the vsched overlay")
	}
	for _, s := range sites {
		if rep.Hits[s] == 0 {
			t.Fatalf("harness: vsched site %q was not hit in the dry run — the instrumented sources changed; update the site names in this package", s)
		}
	}
}
