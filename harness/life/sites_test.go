//go:build verifvsched

package life

import (
	"os"
	"testing"
	"verifharness/internal/pbt"

	"github.com/hydraide/hydraide/app/verifshim/vsched"
)

// requireSites fails the test (harness error, not a property verdict) when the
// engine was not built with the vsched overlay or when a site name that the
// forced schedules rely on no longer exists in the instrumented sources (the
// names contain statement indices: re-run cmd/instrument and update them).
func requireSites(t *testing.T, rep vsched.Report, sites ...string) {
	t.Helper()
	if os.Getenv("VERIF_LIFE_SKIP_SITECHECK") != "" {
		return // trial runs against patched engine sources whose site numbering differs
	}
	if len(rep.Hits) == 0 {
		t.Fatalf("harness: no vsched site was hit — build with -tags verif,verifvsched and the vsched overlay")
	}
	for _, s := range sites {
		if rep.Hits[s] == 0 {
			// The statement this site name was derived from has been edited (names are hashes of the
			// statement text). Plans that name it are inert from now on; everything else — prefix
			// actions, the other sites, the oracles — keeps working, so this is reported, not fatal.
			pbt.Note("C16", "vsched site %q was not hit in the dry run: the statement it names was changed; plans pausing there are inert", s)
			pbt.Counter("C16", "named_vsched_sites_missing", 1)
			t.Logf("harness: vsched site %q was not hit in the dry run", s)
		}
	}
}
