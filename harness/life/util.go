// Package life holds the lifecycle/concurrency checks C16 (acknowledged writes
// survive eviction, auto-destroy and shutdown) and C18 (at most one live
// in-memory instance per swamp).
package life

import (
	"runtime"
	"strings"
	"sync"
	"sync/atomic"
	"time"
)

// seqClock is a process-wide logical clock. A value taken BEFORE a call and a
// value taken AFTER its return bracket the call: if after(A) < before(B) then A
// returned before B was called (real-time order); nothing else is inferred.
var seqClock int64

func tick() int64 { return atomic.AddInt64(&seqClock, 1) }

var caseCounter int64

func nextCase() int64 { return atomic.AddInt64(&caseCounter, 1) }

// allStacks returns the stacks of all goroutines.
func allStacks() string {
	buf := make([]byte, 1<<20)
	for {
		n := runtime.Stack(buf, true)
		if n < len(buf) {
			return string(buf[:n])
		}
		buf = make([]byte, 2*len(buf))
	}
}

// goroutinesIn returns the headers+top frames of goroutines that have a frame
// containing fn and whose header state contains state ("" = any).
func goroutinesIn(fn, state string) []string {
	var out []string
	for _, g := range strings.Split(allStacks(), "\n\n") {
		if !strings.Contains(g, fn) {
			continue
		}
		hdr := g
		if i := strings.Index(g, "\n"); i >= 0 {
			hdr = g[:i]
		}
		if state == "" || strings.Contains(hdr, "["+state) {
			lines := strings.Split(g, "\n")
			if len(lines) > 9 {
				lines = lines[:9]
			}
			out = append(out, strings.Join(lines, " | "))
		}
	}
	return out
}

// waitTimeout waits for wg; false when the timeout elapsed first.
func waitTimeout(wg *sync.WaitGroup, d time.Duration) bool {
	done := make(chan struct{})
	go func() { wg.Wait(); close(done) }()
	select {
	case <-done:
		return true
	case <-time.After(d):
		return false
	}
}

// hangWitness inspects goroutines that are inside one of the given engine
// functions twice, 300 ms apart; it returns a description when the same
// number (>0) of goroutines is parked (not running/runnable) both times.
func hangWitness(fns ...string) string {
	sample := func() []string {
		var all []string
		for _, fn := range fns {
			for _, g := range goroutinesIn(fn, "") {
				hdr := g
				if i := strings.Index(g, " | "); i >= 0 {
					hdr = g[:i]
				}
				if strings.Contains(hdr, "[running") || strings.Contains(hdr, "[runnable") {
					continue
				}
				all = append(all, g)
			}
		}
		return all
	}
	a := sample()
	if len(a) == 0 {
		return ""
	}
	time.Sleep(300 * time.Millisecond)
	b := sample()
	if len(b) == 0 {
		return ""
	}
	s := b[0]
	if len(s) > 700 {
		s = s[:700]
	}
	return s
}
