//go:build verifvfs && verifvsched

package life

import (
	"fmt"
	"sync/atomic"
	"testing"

	"github.com/hydraide/hydraide/app/verifshim/vfs"
	"pgregory.net/rapid"

	"verifharness/internal/pbt"
	"verifharness/internal/rig"
)

// C18, file-handle facet — "two instances would each append to the same storage file".
//
// The C18 lifecycle programs run on file-backed swamps (write interval 0 or 1 s); every summoner writes one record through
// the instance it was handed (always BEFORE any teardown of that instance begins, see c18Inst.wmu) and the vfs shim counts
// the write handles (O_WRONLY/O_RDWR) that are open on the swamp's .hyd file. Every write handle stays open
// CloseDelayUs longer when it is closed, which widens the window between "hydra dropped the instance" and "the instance
// let go of its file" if the engine orders these two steps wrongly. Oracle: at no time two write handles are open on the
// swamp file (an instance has at most one writer), in addition to the identity oracle of the main facet.

func c18HydPath(r *rig.Rig, c *c18Run, nm int) string {
	n := c.names[nm]
	return n.GetFullHashPath(r.S.GetHydraAbsDataFolderPath(), rig.Island(n.Get()), r.S.GetHashFolderDepth(), r.S.GetMaxFoldersPerLevel()) + ".hyd"
}

var c18fhSeq int64

func genC18FH(t *rapid.T) C18Scenario {
	s := genC18(true)(t)
	s.Persistent, s.Writes = true, true
	// even = write interval 0, odd = write interval 1 s (see runC18)
	s.CloseDelayUs = rapid.SampledFrom([]int{0, 1, 1000, 1001, 4000, 4001, 12000}).Draw(t, "closedelay")
	return s
}

func TestC18FileHandles(t *testing.T) {
	c18Hooks = &c18HookSet{
		begin: func(c *c18Run, s C18Scenario) {
			vfs.WatchWriters(true)
			vfs.SetCloseDelay(s.CloseDelayUs)
		},
		afterSummon: func(c *c18Run, in *c18Inst, gi int) {
			if !c.scn.Writes {
				return
			}
			in.wmu.RLock()
			defer in.wmu.RUnlock()
			c.mu.Lock()
			started := in.closeStart != 0
			c.mu.Unlock()
			if started {
				return // never write through an instance whose teardown has begun
			}
			sw := in.sw
			sw.BeginVigil()
			tr := sw.CreateTreasure(fmt.Sprintf("g%d", gi))
			gid := tr.StartTreasureGuard(true)
			tr.SetContentString(gid, fmt.Sprintf("v%d", atomic.AddInt64(&c18fhSeq, 1)))
			tr.Save(gid)
			tr.ReleaseTreasureGuard(gid)
			sw.CeaseVigil()
		},
		end: func(c *c18Run, s C18Scenario) *pbt.Outcome {
			vfs.SetCloseDelay(0)
			defer vfs.WatchWriters(false)
			for nm := range c.names {
				p := c18HydPath(c18Rig, c, nm)
				if m := vfs.MaxOpenWriters(p); m > 1 {
					o := pbt.Failf("two-writers", "swamp %s: %d write handles were open on its storage file %s at the same time — two instances append to one file (summons: %s; close delay %d µs)",
						c.names[nm].Get(), m, p, c.history(nm), s.CloseDelayUs)
					return &o
				}
			}
			return nil
		},
	}
	defer func() { c18Hooks = nil }()
	c18WithRig(func() {
		c18CheckSites(t)
		// the engine must run on the vfs shim: a probe write has to show up as a write handle
		{
			vfs.WatchWriters(true)
			s := C18Scenario{Persistent: true, Writes: true, Names: 1, Phases: []C18Phase{{G: []C18G{{Name: 0, Reps: 1, End: 0}}}}}
			c18probe := ""
			c18Hooks.end = func(end func(c *c18Run, s C18Scenario) *pbt.Outcome) func(c *c18Run, s C18Scenario) *pbt.Outcome {
				return func(c *c18Run, s C18Scenario) *pbt.Outcome {
					c18probe = c18HydPath(c18Rig, c, 0)
					if vfs.MaxOpenWriters(c18probe) == 0 {
						c18probe = ""
					}
					c18Hooks.end = end
					return nil
				}
			}(c18Hooks.end)
			runC18(s)
			if c18probe == "" {
				t.Fatalf("harness: no write handle was counted for a written swamp — build with -tags verif,verifvfs,verifvsched and the combined overlay (-kind all)")
			}
		}
		pbt.Main(t, pbt.Spec[C18Scenario]{
			ID: "C18", Facet: "file-handles",
			Rule: "the free-mixing C18 programs (incl. the A/B/C slot shape) on file-backed swamps (write interval 0 / 1 s); every summoner writes one record through its instance before any teardown of it begins; " +
				"write handles are kept open 0–12 ms longer on close; oracle: never two write handles open on the swamp's .hyd file, plus the identity oracle of the main facet; non-trivial as in main",
			Quick: 2400, Thorough: 30000,
			Gen: genC18FH, Run: runC18,
		})
	})
}
