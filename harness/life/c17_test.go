//go:build verifvfs

package life

import (
	"context"
	"fmt"
	"sort"
	"strings"
	"testing"
	"time"

	"github.com/hydraide/hydraide/app/core/hydra/swamp"
	"github.com/hydraide/hydraide/app/name"
	"github.com/hydraide/hydraide/app/verifshim/vfs"
	hydrapb "github.com/hydraide/hydraide/sdk/go/hydraidego/v3/hydraidepbgo"
	"pgregory.net/rapid"

	"verifharness/internal/pbt"
	"verifharness/internal/rig"
)

// C17 (swamp/hydra level) — closing, destroying or shutting down a swamp, and
// every request that waits for one of these, finishes once the operations in
// flight have finished — also when file operations of the close path fail.
//
// A persistent swamp is written through the gateway handlers, then a lifecycle
// action runs (Swamp.Close() as the idle listener issues it, a real idle
// close, the Destroy RPC, last-record Delete ⇒ auto-destroy, graceful stop of
// the whole engine) while a generated fault plan makes the k-th … (k+n-1)-th
// file operation after the arming point fail (error, or short write). Then the
// faults are cleared.
//
// Oracle = termination only (what survives a fault is C25's subject):
//   - stuck-close witness: the swamp is still registered in hydra, its instance
//     says IsClosing()==true, and on two samples NO goroutine is inside
//     swamp.Close / swamp.Destroy: nothing is in flight that could ever finish the
//     close, so every waiter (WaitForGracefulClose, SummonSwamp) is stuck;
//   - a Close() that RETURNED must have completed the close (WaitForGracefulClose
//     returns nil, the swamp left hydra's map);
//   - a request issued afterwards (Set = re-summon) answers; it is only judged a
//     violation together with the stuck-close witness or when it reports that the
//     swamp "can not be closed";
//   - graceful stop returns before its force path (10 s of polling + 30 s sleep).

type C17FScenario struct {
	WI       int    `json:"wi"`        // write interval 0 | 1
	Idle     int    `json:"idle"`      // close-after-idle 0 | 1 | 600
	Writes   int    `json:"writes"`    // acknowledged Sets before the action
	SettleMs int    `json:"settle_ms"` // wait before the action (0, or > write interval so that nothing is pending)
	Action   string `json:"action"`    // close | idle | destroy | delall | stop
	FaultAt  int    `json:"fault_at"`  // first failing file operation, counted from the arming point
	FaultLen int    `json:"fault_len"` // how many consecutive operations fail
	Short    int    `json:"short"`     // > 0: a failing write stores this many bytes first
}

func genC17F(t *rapid.T) C17FScenario {
	s := C17FScenario{
		WI:       rapid.IntRange(0, 1).Draw(t, "wi"),
		Writes:   rapid.IntRange(1, 4).Draw(t, "writes"),
		SettleMs: rapid.SampledFrom([]int{0, 0, 1200}).Draw(t, "settle"),
		Action:   rapid.SampledFrom([]string{"close", "close", "close", "close", "close", "destroy", "delall", "idle", "stop"}).Draw(t, "action"),
		FaultAt:  rapid.IntRange(0, 7).Draw(t, "faultat"),
		FaultLen: rapid.SampledFrom([]int{1, 1, 2, 3, 8}).Draw(t, "faultlen"),
		Short:    rapid.SampledFrom([]int{0, 0, 1, 7}).Draw(t, "short"),
	}
	s.Idle = 600
	if s.Action == "idle" {
		s.Idle = rapid.IntRange(0, 1).Draw(t, "idle")
		s.SettleMs = 0
	}
	return s
}

type c17Env struct{ r *rig.Rig }

var c17E *c17Env

func c17Patterns() []rig.Pattern {
	var p []rig.Pattern
	for _, idle := range []int{0, 1, 600} {
		for _, wi := range []int{0, 1} {
			p = append(p, rig.Pattern{Pattern: fmt.Sprintf("c17i%dw%d/*/*", idle, wi), CloseAfterIdleSec: int64(idle), WriteIntervalSec: int64(wi)})
		}
	}
	return p
}

func c17NewRig() *rig.Rig {
	r := rig.New(rig.Options{Patterns: c17Patterns()})
	vfs.Start(r.Root, nil)
	return r
}

// stuckClose is the witness: registered + closing + nobody inside Close/Destroy (two samples).
func stuckClose(r *rig.Rig, n string, sw swamp.Swamp) string {
	sample := func() bool {
		if !r.IsOpen(n) || !sw.IsClosing() {
			return false
		}
		return len(goroutinesIn("swamp.(*swamp).Close", "")) == 0 && len(goroutinesIn("swamp.(*swamp).Destroy", "")) == 0
	}
	if !sample() {
		return ""
	}
	time.Sleep(300 * time.Millisecond)
	if !sample() {
		return ""
	}
	return fmt.Sprintf("swamp %s is still registered in hydra (%d active), its instance reports IsClosing()=true and HasActiveVigils()=%v, and no goroutine is inside swamp.Close/swamp.Destroy (two samples): nothing in flight can finish the close",
		n, r.Z.GetHydra().CountActiveSwamps(), sw.HasActiveVigils())
}

func runC17F(s C17FScenario) pbt.Outcome {
	e := c17E
	cs := nextCase()
	n := fmt.Sprintf("c17i%dw%d/r%d/s", s.Idle, s.WI, cs)
	isl := rig.Island(n)
	h := e.r.Z.GetHydra()
	ctxT := func(d time.Duration) (context.Context, context.CancelFunc) {
		return context.WithTimeout(context.Background(), d)
	}
	set := func(key, val string) (bool, string) {
		ctx, cancel := ctxT(100 * time.Second)
		defer cancel()
		resp, err := e.r.G.Set(ctx, &hydrapb.SetRequest{Swamps: []*hydrapb.SwampRequest{{IslandID: isl, SwampName: n,
			CreateIfNotExist: true, Overwrite: true, KeyValues: []*hydrapb.KeyValuePair{{Key: key, StringVal: &val}}}}})
		if err != nil {
			return false, err.Error()
		}
		return resp != nil, ""
	}
	// fresh op log per case (indices restart at 0)
	vfs.Stop()
	vfs.Start(e.r.Root, nil)

	keys := []string{}
	for i := 0; i < s.Writes; i++ {
		k := fmt.Sprintf("k%d", i)
		if ok, msg := set(k, fmt.Sprintf("v%d", i)); !ok {
			return pbt.Failf("setup", "Set before any fault failed: %s", msg)
		}
		keys = append(keys, k)
	}
	ctx, cancel := ctxT(40 * time.Second)
	sw, err := h.SummonSwamp(ctx, isl, name.Load(n))
	cancel()
	if err != nil || sw == nil {
		return pbt.Failf("setup", "SummonSwamp before any fault failed: %v", err)
	}
	if s.SettleMs > 0 {
		time.Sleep(time.Duration(s.SettleMs) * time.Millisecond)
	}

	// arm the fault plan: operations base+FaultAt … base+FaultAt+FaultLen-1 fail
	base := vfs.Len()
	faults := map[int]vfs.Fault{}
	for i := 0; i < s.FaultLen; i++ {
		faults[base+s.FaultAt+i] = vfs.Fault{Short: s.Short}
	}
	vfs.SetFaults(faults)
	// harvest ends the recording of this case (once) and reports the faults that were injected after the arming point
	harvested := false
	var hc int
	var hkinds []string
	injectedDuring := func() (int, []string) {
		if harvested {
			return hc, hkinds
		}
		harvested = true
		ops, _ := vfs.Stop()
		vfs.Start(c17E.r.Root, nil)
		for i := base; i < len(ops); i++ {
			if ops[i].Failed && ops[i].Kind != "close" { // the shim never fails a close
				hc++
				hkinds = append(hkinds, ops[i].Kind)
			}
		}
		return hc, hkinds
	}

	classes := map[string]bool{"action-" + s.Action: true}
	fail := func(shape, format string, a ...any) pbt.Outcome {
		vfs.SetFaults(nil)
		c, kinds := injectedDuring()
		msg := fmt.Sprintf(format, a...) + fmt.Sprintf(" [scenario: write interval %d s, %d writes, action %s, %d fault(s) injected into %v]", s.WI, s.Writes, s.Action, c, kinds)
		// best effort: let later cases start from a clean engine
		c17Recover(e)
		return pbt.Failf(shape, "%s", msg)
	}
	// runs f in a goroutine; while waiting looks for the stuck-close witness. Returns (finished, witness).
	await := func(f func(), first, max time.Duration) (bool, string) {
		done := make(chan struct{})
		go func() { defer close(done); f() }()
		select {
		case <-done:
			return true, ""
		case <-time.After(first):
		}
		deadline := time.Now().Add(max)
		for time.Now().Before(deadline) {
			if w := stuckClose(e.r, n, sw); w != "" {
				return false, w
			}
			select {
			case <-done:
				return true, ""
			case <-time.After(500 * time.Millisecond):
			}
		}
		return false, ""
	}

	switch s.Action {
	case "close":
		fin, w := await(func() { sw.Close() }, 5*time.Second, 60*time.Second)
		if w != "" {
			return fail("stuck-close", "Swamp.Close() under a file fault: %s", w)
		}
		if !fin {
			return pbt.Outcome{Skip: true}
		}
		vfs.SetFaults(nil)
		// a Close() that returned has completed the close
		wctx, wcancel := ctxT(5 * time.Second)
		werr := sw.WaitForGracefulClose(wctx)
		wcancel()
		if werr != nil || e.r.IsOpen(n) {
			if w := stuckClose(e.r, n, sw); w != "" {
				return fail("stuck-close", "Swamp.Close() returned, but WaitForGracefulClose = %v: %s", werr, w)
			}
		}
	case "idle":
		// the real listener closes it; wait for the eviction
		deadline := time.Now().Add(time.Duration(s.Idle)*time.Second + 4500*time.Millisecond)
		for time.Now().Before(deadline) && e.r.IsOpen(n) {
			time.Sleep(25 * time.Millisecond)
			if time.Until(deadline) < 2*time.Second {
				if w := stuckClose(e.r, n, sw); w != "" {
					return fail("stuck-close", "idle close under a file fault: %s", w)
				}
			}
		}
		vfs.SetFaults(nil)
		if !e.r.IsOpen(n) {
			classes["evicted-by-listener"] = true
		}
	case "destroy":
		fin, w := await(func() {
			ctx, cancel := ctxT(100 * time.Second)
			e.r.G.Destroy(ctx, &hydrapb.DestroyRequest{IslandID: isl, SwampName: n})
			cancel()
		}, 5*time.Second, 60*time.Second)
		if w != "" {
			return fail("stuck-close", "Destroy RPC under a file fault: %s", w)
		}
		if !fin {
			return fail("hang", "Destroy RPC did not return within 65 s: %s", hangWitness("swamp.(*swamp).Destroy", "gateway.Gateway.Destroy"))
		}
	case "delall":
		fin, w := await(func() {
			ctx, cancel := ctxT(100 * time.Second)
			e.r.G.Delete(ctx, &hydrapb.DeleteRequest{Swamps: []*hydrapb.DeleteRequest_SwampKeys{{IslandID: isl, SwampName: n, Keys: keys}}})
			cancel()
		}, 5*time.Second, 60*time.Second)
		if w != "" {
			return fail("stuck-close", "last-record Delete (auto-destroy) under a file fault: %s", w)
		}
		if !fin {
			return fail("hang", "Delete RPC did not return within 65 s: %s", hangWitness("swamp.(*swamp).Destroy", "gateway.Gateway.Delete"))
		}
	case "stop":
		t0 := time.Now()
		old := e.r
		fin, w := await(func() { old.Stop(120 * time.Second) }, 6*time.Second, 100*time.Second)
		took := time.Since(t0)
		if w != "" || took > 35*time.Second {
			vfs.SetFaults(nil)
			c, kinds := injectedDuring()
			// the stop goroutine needs its hard caps to give up; a new rig waits for it
			old.Cleanup()
			vfs.Stop()
			e.r = c17NewRig()
			if w == "" {
				w = fmt.Sprintf("StopHydra took %v (its force path: 10 s of polling + 30 s)", took.Round(time.Second))
			}
			return pbt.Failf("stuck-close", "graceful stop under a file fault: %s [scenario: write interval %d s, %d writes, %d fault(s) injected into %v]", w, s.WI, s.Writes, c, kinds)
		}
		_ = fin
		vfs.SetFaults(nil)
		c, _ := injectedDuring()
		old.Cleanup()
		vfs.Stop()
		e.r = c17NewRig()
		out := pbt.Outcome{NonTrivial: c > 0, Classes: []string{"action-stop"}}
		if c > 0 {
			out.Classes = append(out.Classes, "fault-fired")
		}
		return out
	}
	vfs.SetFaults(nil)
	c, kinds := injectedDuring()

	// a request issued after the action (re-summon) must answer
	var ok bool
	var emsg string
	fin, w := await(func() { ok, emsg = set("after", "x") }, 8*time.Second, 70*time.Second)
	if w != "" {
		return fail("stuck-close", "a Set issued after the %s is waiting: %s", s.Action, w)
	}
	if !fin {
		return pbt.Outcome{Skip: true}
	}
	if !ok && (strings.Contains(emsg, "can not be closed") || strings.Contains(emsg, "context is done") || strings.Contains(emsg, "DeadlineExceeded")) {
		return fail("waiter-failed", "a Set issued after the %s failed: %s", s.Action, emsg)
	}
	if !ok {
		classes["later-set-error-other"] = true
	}
	for _, k := range kinds {
		classes["fault-in-"+k] = true
	}
	// cleanup (bounded)
	fin, w = await(func() {
		ctx, cancel := ctxT(100 * time.Second)
		e.r.G.Destroy(ctx, &hydrapb.DestroyRequest{IslandID: isl, SwampName: n})
		cancel()
	}, 8*time.Second, 60*time.Second)
	if w != "" {
		return fail("stuck-close", "cleanup Destroy: %s", w)
	}
	out := pbt.Outcome{NonTrivial: c > 0}
	if c > 0 {
		classes["fault-fired"] = true
	}
	for k := range classes {
		out.Classes = append(out.Classes, k)
	}
	sort.Strings(out.Classes)
	return out
}

// c17Recover replaces the engine after a violation so that later cases are independent.
func c17Recover(e *c17Env) {
	old := e.r
	go old.Cleanup() // may need the engine's hard caps; the new rig waits for it in rig.New
	vfs.Stop()
	e.r = c17NewRig()
}

const c17FRule = "persistent swamp (write interval {0,1} s) through the in-process gateway: 1–4 acknowledged Sets, optional 1.2 s settle, then Swamp.Close() as the idle listener issues it (5/9), " +
	"Destroy RPC, last-record Delete ⇒ auto-destroy, a real idle close (close-after-idle 0/1 s), or graceful stop of the engine, while file operations k…k+n-1 after the arming point " +
	"(k 0–7, n ∈ {1,2,3,8}; error or short write of 1/7 bytes) fail through the vfs shim; faults are then cleared. Oracle: termination only — stuck-close witness (registered + IsClosing + no goroutine in " +
	"Close/Destroy on two samples), completed close after Close() returned, a later Set answers, graceful stop stays below its force path. Non-trivial = at least one fault was injected during the action"

func TestC17CloseFault(t *testing.T) {
	c17E = &c17Env{r: c17NewRig()}
	defer func() {
		vfs.Stop()
		c17E.r.Cleanup()
	}()
	{
		// the engine must really run on the vfs shim
		v := "1"
		c17E.r.G.Set(context.Background(), &hydrapb.SetRequest{Swamps: []*hydrapb.SwampRequest{{IslandID: rig.Island("c17i600w0/sitecheck/s"), SwampName: "c17i600w0/sitecheck/s",
			CreateIfNotExist: true, Overwrite: true, KeyValues: []*hydrapb.KeyValuePair{{Key: "a", StringVal: &v}}}}})
		if vfs.Len() == 0 {
			t.Fatalf("harness: no file operation was recorded — build with -tags verif,verifvfs and the vfs overlay")
		}
	}
	pbt.Main(t, pbt.Spec[C17FScenario]{
		ID: "C17", Facet: "close-fault", Rule: c17FRule,
		Quick: 400, Thorough: 8000,
		Gen: genC17F, Run: runC17F,
	})
}
