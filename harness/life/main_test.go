package life

import (
	"io"
	"log/slog"
	"os"
	"testing"
)

func TestMain(m *testing.M) {
	slog.SetDefault(slog.New(slog.NewTextHandler(io.Discard, nil)))
	os.Exit(m.Run())
}
