//go:build verifvsched

package life

import (
	"bytes"
	"fmt"
	"os"
	"path/filepath"
	"sync"
	"testing"

	"pgregory.net/rapid"

	"verifharness/internal/hydfmt"
	"verifharness/internal/rig"
)

func dumpKey(root, swampName, key string) string {
	var out string
	filepath.Walk(root, func(p string, info os.FileInfo, err error) error {
		if err != nil || info.IsDir() || filepath.Ext(p) != ".hyd" {
			return nil
		}
		b, _ := os.ReadFile(p)
		if !bytes.Contains(b, []byte(swampName)) {
			return nil
		}
		_, _, blocks, _, _, _ := hydfmt.DecodeFile(b)
		for bi, bl := range blocks {
			for _, e := range bl.Entries {
				if e.Key == key {
					i := bytes.Index(e.Data, []byte("v:"))
					d := ""
					if i >= 0 {
						d = string(e.Data[i:min(len(e.Data), i+12)])
					}
					out += fmt.Sprintf(" b%d:op%d:%q", bi, e.Op, d)
				}
			}
		}
		return nil
	})
	return out
}

func TestDbgStress(t *testing.T) {
	c16WithRig(func() {
		fails := 0
		for it := 0; it < 3000 && fails < 3; it++ {
			sw := &c16Sw{e: c16E, name: fmt.Sprintf("c16i600w0/dbg%d/st", it), idle: 600, wi: 0, classes: map[string]bool{}}
			sw.isl = rig.Island(sw.name)
			sw.set("pin", "v:p", false)
			sw.set("k0", "v:first", false)
			var wg sync.WaitGroup
			for w := 0; w < 3; w++ {
				wg.Add(1)
				go func(w int) {
					defer wg.Done()
					switch w {
					case 0:
						sw.set("k0", fmt.Sprintf("v:a%d", it), false)
						sw.set("k1", "v:x", false)
					case 1:
						sw.del("k0")
						sw.set("k0", fmt.Sprintf("v:b%d", it), false)
					case 2:
						sw.set("k2", "v:y", false)
						sw.set("k0", fmt.Sprintf("v:c%d", it), false)
					}
				}(w)
			}
			wg.Wait()
			sw.set("k0", "v:later", false)
			mem, _ := sw.readAll()
			sw.injectClose()
			f, _ := sw.readAll()
			if f["k0"] != "v:later" {
				fails++
				fmt.Printf("it %d: mem k0=%q reopened k0=%q file:%s\n", it, mem["k0"], f["k0"], dumpKey(c16E.r.Root, sw.name, "k0"))
				for _, r := range sw.recs {
					if r.key == "k0" {
						fmt.Printf("   %s %s [%d,%d] ack=%v\n", r.what, r.val, r.call, r.ret, r.acked)
					}
				}
			}
			sw.destroy()
		}
		fmt.Println("fails", fails)
	})
}

func TestDbgMainW0(t *testing.T) {
	c16DebugDump = func(s *c16Sw, key string) string { return dumpKey(s.e.r.Root, s.name, key) }
	c16WithRig(func() {
		g := rapid.Custom(genC16("fast", false))
		fails := 0
		for i := 0; i < 6000 && fails < 4; i++ {
			sc := g.Example(i)
			sc.Swamps[0].WI = 0
			sc.Plan = nil
			o := runC16(sc)
			if o.Fail != "" {
				fails++
				fmt.Println(i, o.Shape, o.Fail)
			}
		}
		fmt.Println("fails", fails)
	})
}
