//go:build verifvsched

package life

import (
	"context"
	"fmt"
	"reflect"
	"sort"
	"strings"
	"sync"
	"testing"
	"time"

	"github.com/hydraide/hydraide/app/core/hydra"
	"github.com/hydraide/hydraide/app/core/hydra/swamp"
	"github.com/hydraide/hydraide/app/name"
	"github.com/hydraide/hydraide/app/verifshim/vsched"
	"pgregory.net/rapid"

	"verifharness/internal/pbt"
	"verifharness/internal/rig"
)

// C18 — At most one live in-memory instance per swamp.
//
// Goroutines summon 1–2 swamp names through hydra.SummonSwamp (the call every
// RPC handler makes), tear returned instances down with Close() (what the idle
// listener / graceful stop call) or Destroy() (what the Destroy RPC and
// auto-destroy call) and cancel contexts, while a generated vsched plan delays
// them at the summoningSwamps slot sites. Every summon result is logged with
// the identity of the returned instance and logical call/return times.
//
// Oracle (judges the recorded history only):
//   - two-live: an instance is certainly live from the first time a summon
//     returned it until the first time anybody STARTED Close()/Destroy() on it
//     (close-after-idle is 600 s, nothing else closes it). Two different
//     instances of one name whose certain-live intervals intersect = two live
//     instances at once.
//   - served-by-closed: a summon CALLED after a Close()/Destroy() call on X had
//     RETURNED (so closing=1 was visible before the summon began) returns X.
//   - summon-error: a summon with a never-cancelled context fails.
//   - hang: a phase does not finish although the plan was released (witnessed by
//     two goroutine-state samples) — reported under C17's flag by the lead.

const c18Witness = "slot-dropped-while-owned"

type C18Scenario struct {
	// Writes / CloseDelayUs are used by the file-handle facet only (c18fh_test.go): every summoner then writes a record
	// through the instance it got, and every write handle stays open CloseDelayUs longer when it is closed.
	Writes       bool `json:"writes,omitempty"`
	CloseDelayUs int  `json:"close_delay_us,omitempty"`

	Persistent bool            `json:"persistent"`
	Names      int             `json:"names"`
	Phases     []C18Phase      `json:"phases"`
	Plan       []vsched.Action `json:"plan"`
}

type C18Phase struct {
	G []C18G `json:"g"`
}

// C18G is one goroutine of a phase.
type C18G struct {
	Name     int    `json:"name"`
	DelayUs  int    `json:"delay_us,omitempty"`
	After    string `json:"after,omitempty"` // wait (≤300 ms) for this vsched event before starting
	Teardown bool   `json:"teardown,omitempty"`
	// summon goroutine
	Ctx      int `json:"ctx,omitempty"` // 0 never cancelled, 1 cancelled before the call, 2 cancelled CancelUs after the call began
	CancelUs int `json:"cancel_us,omitempty"`
	HoldUs   int `json:"hold_us,omitempty"`
	End      int `json:"end,omitempty"` // 0 keep, 1 Close(), 2 Destroy()
	Reps     int `json:"reps,omitempty"`
	// teardown goroutine: tears down the Pick-th (mod n) instance of Name known at phase start with End (1|2)
	Pick int `json:"pick,omitempty"`
}

var c18Sites = []string{
	"hydra:SummonSwamp:LoadOrStore:5532d7",
	"hydra:SummonSwamp:Lock:ebad88",
	"hydra:SummonSwamp:atomic.AddInt32:b6130e",
	"hydra:SummonSwamp:Wait:ec33be",
	"hydra:SummonSwamp:Unlock:ad0bd9~2",
	"hydra:SummonSwamp:Lock:ebad88~2",
	"hydra:SummonSwamp:Broadcast:b7e22c~2",
	"hydra:SummonSwamp:Unlock:ad0bd9~3",
	"hydra:SummonSwamp:atomic.AddInt32:dce15d",
	"hydra:SummonSwamp:atomic.LoadInt32:bc7d38",
	"hydra:SummonSwamp:Delete:adb849",
	"hydra:SummonSwamp:select:3e8f84~2",
	"hydra:SummonSwamp:Store:93684c",
	"hydra:getSwamp:Load:16ca65",
	"hydra:closeEventCallbackFunction:Delete:d37bbd",
	"swamp:IsClosing:atomic.LoadInt32:302240",
	"swamp:WaitForGracefulClose:select:3e8f84",
	"swamp:Close:atomic.StoreInt32:cf5c57",
	"swamp:Close:atomic.LoadInt32:a437c9",
	"swamp:Destroy:Lock:e3ba16",
	"swamp:Destroy:Lock:aec636",
}

var c18Untils = []string{
	"teardown-done",
	"site:hydra:SummonSwamp:Wait:ec33be",
	"site:hydra:SummonSwamp:Delete:adb849",
	"site:hydra:SummonSwamp:Store:93684c",
	"site:hydra:closeEventCallbackFunction:Delete:d37bbd",
	"site:hydra:getSwamp:Load:16ca65",
}

func genC18Plan(t *rapid.T, max int) []vsched.Action {
	var plan []vsched.Action
	n := rapid.IntRange(0, max).Draw(t, "nactions")
	for i := 0; i < n; i++ {
		a := vsched.Action{Site: rapid.SampledFrom(c18Sites).Draw(t, "site"), Hit: rapid.IntRange(0, 4).Draw(t, "hit")}
		switch rapid.IntRange(0, 3).Draw(t, "kind") {
		case 0:
			a.Kind = "gosched"
		case 1:
			a.Kind = "sleep"
			a.SleepUs = rapid.SampledFrom([]int{20, 200, 1000, 3000}).Draw(t, "us")
		default:
			a.Kind = "pause"
			a.Until = rapid.SampledFrom(c18Untils).Draw(t, "until")
			a.MaxWaitMs = rapid.SampledFrom([]int{1, 5, 30}).Draw(t, "maxwait")
		}
		plan = append(plan, a)
	}
	return plan
}

func genC18Summoner(t *rapid.T, names int, free bool) C18G {
	g := C18G{Name: rapid.IntRange(0, names-1).Draw(t, "name"),
		DelayUs: rapid.SampledFrom([]int{0, 0, 20, 100, 500}).Draw(t, "delay")}
	if free {
		g.Ctx = rapid.SampledFrom([]int{0, 0, 0, 1, 2}).Draw(t, "ctx")
		if g.Ctx == 2 {
			g.CancelUs = rapid.SampledFrom([]int{0, 50, 500}).Draw(t, "cancelus")
		}
		g.End = rapid.SampledFrom([]int{0, 0, 1, 1, 2}).Draw(t, "end")
		g.HoldUs = rapid.SampledFrom([]int{0, 0, 50, 500}).Draw(t, "hold")
		g.Reps = rapid.IntRange(1, 3).Draw(t, "reps")
	} else {
		g.Reps = rapid.IntRange(1, 2).Draw(t, "reps")
	}
	return g
}

// the shape derived by hand (DESIGN.md C18): A owns a fresh slot and creates
// the swamp while B queues on the slot; A leaves (count 0 ⇒ slot deleted) and
// closes/destroys the swamp; B — held after its wake-up until the teardown is
// done — and a newcomer C (fresh slot) both see no swamp and both create one.
func genC18Shape(t *rapid.T) C18Scenario {
	s := C18Scenario{Persistent: rapid.Bool().Draw(t, "persistent"), Names: 1}
	end := rapid.SampledFrom([]int{1, 1, 2}).Draw(t, "end")
	storeSleep := rapid.SampledFrom([]int{1000, 3000, 6000}).Draw(t, "storesleep")
	a := C18G{Name: 0, End: end, Reps: 1}
	b := C18G{Name: 0, DelayUs: rapid.SampledFrom([]int{200, 500, 1000}).Draw(t, "bdelay"), Reps: 1}
	c := C18G{Name: 0, After: "teardown-done", Reps: 1}
	ph := C18Phase{G: []C18G{a, b, c}}
	// optional extra newcomers
	for i := rapid.IntRange(0, 2).Draw(t, "extra"); i > 0; i-- {
		ph.G = append(ph.G, C18G{Name: 0, After: "teardown-done", DelayUs: rapid.SampledFrom([]int{0, 100}).Draw(t, "xdelay"), Reps: 1})
	}
	s.Phases = []C18Phase{ph}
	s.Plan = []vsched.Action{
		// A (first at the Store site) waits until B has queued on the slot
		{Site: c18StoreSite, Hit: 1, Kind: "pause", Until: "site:hydra:SummonSwamp:Wait:ec33be", MaxWaitMs: 100},
		// B (second to take ownership) is held right after its wake-up until the teardown has completed
		{Site: "hydra:SummonSwamp:Unlock:ad0bd9~2", Hit: 2, Kind: "pause", Until: "teardown-done", MaxWaitMs: 300},
		// both creators linger before publishing their instance
		{Site: c18StoreSite, Hit: 0, Kind: "sleep", SleepUs: storeSleep},
	}
	return s
}

func genC18(free bool) func(t *rapid.T) C18Scenario {
	return func(t *rapid.T) C18Scenario {
		if free && rapid.IntRange(0, 2).Draw(t, "shape") == 0 {
			return genC18Shape(t)
		}
		s := C18Scenario{Persistent: rapid.IntRange(0, 3).Draw(t, "persistent") == 0, Names: rapid.IntRange(1, 2).Draw(t, "names")}
		np := rapid.IntRange(2, 5).Draw(t, "nphases")
		var extra []vsched.Action
		for p := 0; p < np; p++ {
			var ph C18Phase
			if free {
				n := rapid.IntRange(3, 12).Draw(t, "ng")
				for i := 0; i < n; i++ {
					if p > 0 && rapid.IntRange(0, 4).Draw(t, "isteardown") == 0 {
						ph.G = append(ph.G, C18G{Name: rapid.IntRange(0, s.Names-1).Draw(t, "name"), Teardown: true,
							DelayUs: rapid.SampledFrom([]int{0, 50, 300}).Draw(t, "delay"),
							End:     rapid.IntRange(1, 2).Draw(t, "end"), Pick: rapid.SampledFrom([]int{0, 0, 0, 1, 2, 5}).Draw(t, "pick")})
						continue
					}
					ph.G = append(ph.G, genC18Summoner(t, s.Names, true))
				}
			} else if p%2 == 0 {
				// S-phase: concurrent summons, nothing is torn down or cancelled meanwhile
				n := rapid.IntRange(3, 12).Draw(t, "ng")
				for i := 0; i < n; i++ {
					ph.G = append(ph.G, genC18Summoner(t, s.Names, false))
				}
			} else {
				// T-phase: per name at most ONE summoner, any number of teardowns of known instances
				for nm := 0; nm < s.Names; nm++ {
					if rapid.Bool().Draw(t, "during") {
						// a summon that begins while a teardown of the live instance is in progress: two goroutines tear the
						// live instance down with the same call (the second returns at once: closing is already set) and the
						// summoner starts when the first teardown call of this phase has returned
						end := rapid.IntRange(1, 2).Draw(t, "end")
						ph.G = append(ph.G, C18G{Name: nm, Teardown: true, End: end},
							C18G{Name: nm, Teardown: true, End: end, DelayUs: rapid.SampledFrom([]int{50, 200}).Draw(t, "delay2")})
						g := genC18Summoner(t, s.Names, true)
						g.Name, g.Reps, g.DelayUs, g.After = nm, 1, 0, fmt.Sprintf("teardown-done:p%d", p)
						ph.G = append(ph.G, g)
						holdSite := "swamp:Close:atomic.LoadInt32:a437c9"
						if end == 2 {
							holdSite = "swamp:Destroy:Lock:aec636"
						}
						extra = append(extra, vsched.Action{Site: holdSite, Hit: 0, Kind: "pause", Until: "site:swamp:WaitForGracefulClose:select:3e8f84",
							MaxWaitMs: rapid.SampledFrom([]int{2, 10}).Draw(t, "holdms")})
						continue
					}
					if rapid.Bool().Draw(t, "tsummon") {
						g := genC18Summoner(t, s.Names, true)
						g.Name, g.Reps = nm, 1
						ph.G = append(ph.G, g)
					}
					for i := rapid.IntRange(1, 4).Draw(t, "nteardown"); i > 0; i-- {
						ph.G = append(ph.G, C18G{Name: nm, Teardown: true, DelayUs: rapid.SampledFrom([]int{0, 50, 300}).Draw(t, "delay"),
							End: rapid.IntRange(1, 2).Draw(t, "end"), Pick: rapid.SampledFrom([]int{0, 0, 0, 1, 2, 5}).Draw(t, "pick")})
					}
				}
			}
			s.Phases = append(s.Phases, ph)
		}
		s.Plan = append(genC18Plan(t, 5), extra...)
		return s
	}
}

// ---------------------------------------------------------------------------
// runtime

type c18Inst struct {
	id         int
	name       int
	sw         swamp.Swamp // strong reference: the address cannot be reused within the case
	firstRet   int64       // clock value taken after the first summon that returned it
	closeStart int64       // clock value taken before the first Close()/Destroy() call on it (0 = never)
	deadRet    int64       // clock value taken after the first Close()/Destroy() call on it returned (0 = never)
	kind       int         // 1 Close, 2 Destroy: the only teardown kind the harness uses on this instance
	// wmu orders harness writes through this instance before the begin of its teardown (a write through an instance whose
	// teardown has begun is C16's recorded trigger write-after-summon-into-dead-instance, not this property's subject)
	wmu sync.RWMutex
}

// c18HookSet lets the file-handle facet (built only with the vfs overlay) extend the run.
type c18HookSet struct {
	begin       func(c *c18Run, s C18Scenario)
	afterSummon func(c *c18Run, in *c18Inst, gi int)
	end         func(c *c18Run, s C18Scenario) *pbt.Outcome
}

var c18Hooks *c18HookSet

type c18Summon struct {
	g, name   int
	call, ret int64
	inst      *c18Inst
	err       string
	ctx       int
	phase     int
}

type c18Run struct {
	mu      sync.Mutex
	byPtr   map[uintptr]*c18Inst
	insts   []*c18Inst
	summons []c18Summon
	skipped int
	names   []name.Name
	h       hydra.Hydra
	scn     C18Scenario
}

func (c *c18Run) instOf(sw swamp.Swamp, nm int, ret int64) *c18Inst {
	p := reflect.ValueOf(sw).Pointer()
	c.mu.Lock()
	defer c.mu.Unlock()
	in, ok := c.byPtr[p]
	if !ok {
		in = &c18Inst{id: len(c.insts), name: nm, sw: sw, firstRet: ret}
		c.byPtr[p] = in
		c.insts = append(c.insts, in)
	}
	return in
}

// teardown calls Close()/Destroy() on an instance. The harness never mixes the
// two kinds on one instance: a Destroy() issued on a handle whose instance was
// (or is being) closed by Close() needs a request that summoned the instance
// before the close decision and uses it afterwards — that is C16's recorded
// trigger, not this property's.
func (c *c18Run) teardown(in *c18Inst, kind int, phase int) {
	in.wmu.Lock() // harness writes through this instance have finished
	c.mu.Lock()
	if in.kind == 0 {
		in.kind = kind
	}
	if in.kind != kind {
		c.skipped++
		c.mu.Unlock()
		in.wmu.Unlock()
		return
	}
	t0 := tick()
	if in.closeStart == 0 {
		in.closeStart = t0
	}
	c.mu.Unlock()
	in.wmu.Unlock()
	if kind == 1 {
		in.sw.Close()
	} else {
		in.sw.Destroy()
	}
	t1 := tick()
	c.mu.Lock()
	if in.deadRet == 0 {
		in.deadRet = t1
	}
	c.mu.Unlock()
	vsched.Signal("teardown-done")
	vsched.Signal(fmt.Sprintf("teardown-done:p%d", phase))
}

func waitEvent(ev string, max time.Duration) {
	deadline := time.Now().Add(max)
	for !vsched.Happened(ev) && time.Now().Before(deadline) {
		time.Sleep(20 * time.Microsecond)
	}
}

func (c *c18Run) summon(gi, phase int, g C18G) {
	ctx := context.Background()
	var cancel context.CancelFunc
	switch g.Ctx {
	case 1:
		ctx, cancel = context.WithCancel(ctx)
		cancel()
	case 2:
		ctx, cancel = context.WithCancel(ctx)
		go func() {
			time.Sleep(time.Duration(g.CancelUs) * time.Microsecond)
			cancel()
		}()
	}
	t0 := tick()
	sw, err := c.h.SummonSwamp(ctx, rig.Island(c.names[g.Name].Get()), c.names[g.Name])
	t1 := tick()
	rec := c18Summon{g: gi, name: g.Name, call: t0, ret: t1, ctx: g.Ctx, phase: phase}
	if err != nil || sw == nil {
		rec.err = fmt.Sprint(err)
		if err == nil {
			rec.err = "nil swamp without error"
		}
	} else {
		rec.inst = c.instOf(sw, g.Name, t1)
	}
	c.mu.Lock()
	c.summons = append(c.summons, rec)
	c.mu.Unlock()
	if rec.inst != nil {
		if c18Hooks != nil && c18Hooks.afterSummon != nil {
			c18Hooks.afterSummon(c, rec.inst, gi)
		}
		if g.HoldUs > 0 {
			time.Sleep(time.Duration(g.HoldUs) * time.Microsecond)
		}
		if g.End != 0 {
			c.teardown(rec.inst, g.End, phase)
		}
	}
}

var c18Rig *rig.Rig

// c18WithRig runs f with one live rig (one rig per test function; every case uses fresh swamp names).
func c18WithRig(f func()) {
	c18Rig = rig.New(rig.Options{Patterns: []rig.Pattern{
		{Pattern: "c18m/*/*", InMemory: true, CloseAfterIdleSec: 600},
		{Pattern: "c18p/*/*", CloseAfterIdleSec: 600, WriteIntervalSec: 1},
		{Pattern: "c18f/*/*", CloseAfterIdleSec: 600, WriteIntervalSec: 0},
		{Pattern: "c18g/*/*", CloseAfterIdleSec: 600, WriteIntervalSec: 1},
	}})
	defer func() {
		c18Rig.Cleanup()
		c18Rig = nil
	}()
	f()
}

func runC18(s C18Scenario) pbt.Outcome {
	r := c18Rig
	cs := nextCase()
	c := &c18Run{byPtr: map[uintptr]*c18Inst{}, h: r.Z.GetHydra()}
	if s.Names < 1 {
		s.Names = 1
	}
	for i := 0; i < s.Names; i++ {
		san := "c18m"
		if s.Persistent {
			san = "c18p"
		}
		if s.Writes {
			san = "c18f"
			if s.CloseDelayUs%2 == 1 {
				san = "c18g" // write interval 1 s
			}
		}
		c.names = append(c.names, name.Load(fmt.Sprintf("%s/r%d/n%d", san, cs, i)))
	}
	vsched.Activate(s.Plan, false)
	active := true
	var rep vsched.Report
	deactivate := func() {
		if active {
			rep = vsched.Deactivate()
			active = false
		}
	}
	defer deactivate()
	defer c.cleanup(r)
	c.scn = s
	if c18Hooks != nil && c18Hooks.begin != nil {
		c18Hooks.begin(c, s)
	}

	for pi, ph := range s.Phases {
		c.mu.Lock()
		known := make([][]*c18Inst, s.Names)
		for _, in := range c.insts {
			if in.closeStart == 0 {
				known[in.name] = append(known[in.name], in)
			}
		}
		for _, in := range c.insts {
			if in.closeStart != 0 {
				known[in.name] = append(known[in.name], in)
			}
		}
		c.mu.Unlock()
		var wg sync.WaitGroup
		for gi, g := range ph.G {
			g.Name %= s.Names
			if g.Name < 0 {
				g.Name = 0
			}
			wg.Add(1)
			go func(gi int, g C18G) {
				defer wg.Done()
				if g.After != "" {
					waitEvent(g.After, 300*time.Millisecond)
				}
				if g.DelayUs > 0 {
					time.Sleep(time.Duration(g.DelayUs) * time.Microsecond)
				}
				if g.Teardown {
					k := known[g.Name]
					if len(k) == 0 {
						return
					}
					p := g.Pick
					if p < 0 {
						p = -p
					}
					end := g.End
					if end != 2 {
						end = 1
					}
					c.teardown(k[p%len(k)], end, pi)
					return
				}
				reps := g.Reps
				if reps < 1 {
					reps = 1
				}
				for i := 0; i < reps; i++ {
					c.summon(gi, pi, g)
				}
			}(gi, g)
		}
		if !waitTimeout(&wg, 50*time.Second) {
			// SummonSwamp waits at most 30 s for a closing swamp; release the plan and look again.
			deactivate()
			if !waitTimeout(&wg, 40*time.Second) {
				w := hangWitness("hydra.(*hydra).SummonSwamp", "swamp.(*swamp).Destroy", "swamp.(*swamp).Close")
				if w != "" {
					return pbt.Failf("hang", "phase %d did not finish within 90 s (plan released after 50 s); parked goroutine on two samples: %s", pi, w)
				}
				return pbt.Outcome{Skip: true}
			}
		}
	}
	// quiescence: one more summon per name must be served by the (only) live instance
	for nm := 0; nm < s.Names; nm++ {
		c.summon(-1, len(s.Phases), C18G{Name: nm})
	}
	deactivate()
	o := c.judge(s, rep)
	if o.Fail == "" && c18Hooks != nil && c18Hooks.end != nil {
		if v := c18Hooks.end(c, s); v != nil {
			return *v
		}
	}
	return o
}

func (c *c18Run) cleanup(r *rig.Rig) {
	c.mu.Lock()
	insts := append([]*c18Inst(nil), c.insts...)
	c.mu.Unlock()
	for _, in := range insts {
		if in.closeStart == 0 {
			in.sw.Close()
		}
	}
	for _, n := range c.names {
		for i := 0; i < 5 && r.IsOpen(n.Get()); i++ {
			r.CloseSwamp(n.Get())
		}
		// remove a persistent file, if any
		if !strings.HasPrefix(n.Get(), "c18m/") {
			ctx, cancel := context.WithTimeout(context.Background(), 40*time.Second)
			if sw, err := c.h.SummonSwamp(ctx, rig.Island(n.Get()), n); err == nil && sw != nil {
				sw.Destroy()
			}
			cancel()
		}
	}
}

func (c *c18Run) judge(s C18Scenario, rep vsched.Report) pbt.Outcome {
	const inf = int64(1) << 62
	classes := map[string]bool{}
	// summon-error / served-by-closed
	for _, su := range c.summons {
		if su.err != "" {
			if su.ctx == 0 {
				return pbt.Failf("summon-error", "SummonSwamp(%s) with a never-cancelled context failed: %s", c.names[su.name].Get(), su.err)
			}
			classes["cancelled-summon-errored"] = true
			continue
		}
		if su.inst.deadRet != 0 && su.call > su.inst.deadRet {
			return pbt.Failf("served-by-closed", "SummonSwamp(%s) called at t=%d returned instance #%d although a Close()/Destroy() call on that instance had already returned at t=%d",
				c.names[su.name].Get(), su.call, su.inst.id, su.inst.deadRet)
		}
	}
	// two-live
	for i, x := range c.insts {
		for _, y := range c.insts[i+1:] {
			if x.name != y.name {
				continue
			}
			xe, ye := x.closeStart, y.closeStart
			if xe == 0 {
				xe = inf
			}
			if ye == 0 {
				ye = inf
			}
			lo, hi := max64(x.firstRet, y.firstRet), min64(xe, ye)
			if lo < hi {
				desc := func(in *c18Inst) string {
					if in.closeStart == 0 {
						return fmt.Sprintf("#%d returned at t=%d, never closed", in.id, in.firstRet)
					}
					return fmt.Sprintf("#%d returned at t=%d, first Close/Destroy began at t=%d", in.id, in.firstRet, in.closeStart)
				}
				return pbt.Failf("two-live", "swamp %s had two live instances at once: %s; %s (summons: %s; plan fired: %v)",
					c.names[x.name].Get(), desc(x), desc(y), c.history(x.name), rep.Fired)
			}
		}
	}
	// classes / non-triviality
	nt := false
	for nm := 0; nm < len(c.names); nm++ {
		torn := false
		created := 0
		for _, in := range c.insts {
			if in.name == nm {
				created++
				if in.closeStart != 0 {
					torn = true
				}
			}
		}
		if created > 1 {
			classes["recreated"] = true
		}
		maxOv := 0
		for p := 0; p <= len(s.Phases); p++ {
			var ev [][2]int64
			for _, su := range c.summons {
				if su.name == nm && su.phase == p {
					ev = append(ev, [2]int64{su.call, 1}, [2]int64{su.ret, -1})
				}
			}
			sort.Slice(ev, func(i, j int) bool { return ev[i][0] < ev[j][0] })
			cur := 0
			for _, e := range ev {
				cur += int(e[1])
				if cur > maxOv {
					maxOv = cur
				}
			}
		}
		if maxOv >= 3 {
			classes["3+-summons-overlap"] = true
			if torn {
				nt = true
			}
		}
		// summons overlapping a teardown of the same name
		for _, in := range c.insts {
			if in.name != nm || in.closeStart == 0 {
				continue
			}
			end := in.deadRet
			if end == 0 {
				end = inf
			}
			n := 0
			for _, su := range c.summons {
				if su.name == nm && su.call < end && su.ret > in.closeStart {
					n++
				}
			}
			if n >= 1 {
				classes["summon-overlaps-teardown"] = true
			}
			if n >= 3 {
				classes["3+-summons-overlap-a-teardown"] = true
			}
		}
	}
	if rep.Hits["hydra:SummonSwamp:Wait:ec33be"] > 0 {
		classes["summoner-queued-on-slot"] = true
	}
	if rep.Hits["hydra:SummonSwamp:Delete:adb849"] > 0 {
		classes["slot-deleted"] = true
	}
	if rep.Hits["swamp:WaitForGracefulClose:select:3e8f84"] > 0 {
		classes["summoner-waited-for-closing-swamp"] = true
	}
	if len(rep.Fired) > 0 {
		classes["plan-fired"] = true
	}
	if s.Persistent {
		classes["persistent"] = true
	}
	if c.skipped > 0 {
		classes["mixed-kind-teardown-skipped"] = true
	}
	out := pbt.Outcome{NonTrivial: nt}
	for k := range classes {
		out.Classes = append(out.Classes, k)
	}
	sort.Strings(out.Classes)
	return out
}

func (c *c18Run) history(nm int) string {
	var sb strings.Builder
	n := 0
	for _, su := range c.summons {
		if su.name != nm {
			continue
		}
		if n > 0 {
			sb.WriteString(", ")
		}
		n++
		if n > 14 {
			sb.WriteString("…")
			break
		}
		if su.inst != nil {
			fmt.Fprintf(&sb, "[%d,%d]->#%d", su.call, su.ret, su.inst.id)
		} else {
			fmt.Fprintf(&sb, "[%d,%d]->err", su.call, su.ret)
		}
	}
	return sb.String()
}

func max64(a, b int64) int64 {
	if a > b {
		return a
	}
	return b
}
func min64(a, b int64) int64 {
	if a < b {
		return a
	}
	return b
}

const c18RuleOpen = "2–5 phases on 1–2 fresh swamp names (in-memory 3/4, persistent 1/4, close-after-idle 600 s): S-phases = 3–12 goroutines × 1–2 SummonSwamp calls, " +
	"T-phases = per name ≤1 summoner (context never/pre-/late-cancelled; keeps, Close()s or Destroy()s the result) + 1–4 goroutines tearing down earlier instances; " +
	"0–5 drawn vsched actions (gosched / sleep 20µs–3ms / pause-until-event ≤30 ms) at 21 slot/close sites of hydra.go and swamp.go; a final summon per name at quiescence. " +
	"While finding " + c18Witness + " is open, teardowns/cancellations never overlap ≥2 summons of the same name (the trigger). " +
	"Non-trivial = some name saw ≥3 summons in flight at once AND at least one instance of it was torn down (so it was created more than once or re-summoned)"

const c18RuleFree = "as main, but every phase freely mixes 3–12 summoners (any context, keep/Close/Destroy, 1–3 repetitions) and teardown goroutines; 1/3 of the cases are the " +
	"hand-derived shape (A creates while B queues; A leaves ⇒ count 0 ⇒ slot deleted; A tears the swamp down; B held after wake-up until then; newcomer C) with jitter"

// the site at which a creating summoner publishes its instance; its statement index depends on the engine sources
var c18StoreSite = "hydra:SummonSwamp:Store:93684c"

func siteIndex(site string) int {
	p := strings.Split(site, ":")
	if len(p) < 4 {
		return -1
	}
	n := 0
	for _, c := range p[2] {
		if c < '0' || c > '9' {
			return -1
		}
		n = n*10 + int(c-'0')
	}
	return n
}

func c18CheckSites(t *testing.T) {
	vsched.Activate(nil, false)
	h := c18Rig.Z.GetHydra()
	n := name.Load("c18m/sitecheck/s")
	if sw, err := h.SummonSwamp(context.Background(), rig.Island(n.Get()), n); err == nil {
		sw.Close()
	}
	rep := vsched.Deactivate()
	// resolve the Store site (last ":Store" site of SummonSwamp) and add every SummonSwamp site that exists to the plan universe
	best := -1
	have := map[string]bool{}
	for _, s := range c18Sites {
		have[s] = true
	}
	for _, s := range vsched.SortedSites(rep) {
		if !strings.HasPrefix(s, "hydra:SummonSwamp:") {
			continue
		}
		if strings.HasSuffix(s, ":Store") && siteIndex(s) > best {
			best, c18StoreSite = siteIndex(s), s
		}
		if !have[s] {
			have[s] = true
			c18Sites = append(c18Sites, s)
		}
	}
	requireSites(t, rep, "hydra:SummonSwamp:Unlock:ad0bd9~2", c18StoreSite, "hydra:getSwamp:Load:16ca65", "swamp:Close:atomic.LoadInt32:a437c9", "hydra:closeEventCallbackFunction:Delete:d37bbd")
}

func TestC18Main(t *testing.T) {
	open := pbt.Open("C18", c18Witness)
	rule := c18RuleOpen
	if open {
		pbt.Excluded("C18", "main", "Close()/Destroy()/context cancellation overlapping two or more in-flight summons of the same name (open finding "+c18Witness+")")
	} else {
		rule = c18RuleFree
	}
	c18WithRig(func() {
		c18CheckSites(t)
		pbt.Main(t, pbt.Spec[C18Scenario]{
			ID: "C18", Facet: "main", Rule: rule,
			Quick: 20000, Thorough: 120000,
			Gen: genC18(!open), Run: runC18,
		})
	})
}

func TestC18WitnessSlotDropped(t *testing.T) {
	c18WithRig(func() {
		c18CheckSites(t)
		pbt.Witness(t, pbt.Spec[C18Scenario]{
			ID: "C18", Facet: "witness-" + c18Witness, Rule: c18RuleFree,
			Quick: 160, Thorough: 4000,
			Gen: genC18(true), Run: runC18,
		}, c18Witness, "two-live")
	})
}
