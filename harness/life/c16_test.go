//go:build verifvsched

package life

import (
	"bytes"
	"context"
	"fmt"
	"os"
	"path/filepath"
	"sort"
	"strconv"
	"strings"
	"sync"
	"testing"
	"time"

	"github.com/hydraide/hydraide/app/name"
	"github.com/hydraide/hydraide/app/verifshim/vsched"
	hydrapb "github.com/hydraide/hydraide/sdk/go/hydraidego/v3/hydraidepbgo"
	"google.golang.org/protobuf/types/known/timestamppb"
	"pgregory.net/rapid"

	"verifharness/internal/pbt"
	"verifharness/internal/rig"
)

// C16 — Acknowledged writes survive eviction, auto-destroy and shutdown.
//
// A scenario drives 1 (fast) or 16–32 (slow, real 1 s listener ticks) persistent
// swamps through the gateway handlers: bursts of concurrent writers (Set on
// shared keys, IncrementInt64 / PatchTreasures(create) on per-writer keys,
// non-emptying deletes, reads) alternate with — or, once the recorded findings
// are repaired, overlap — lifecycle events: Close() as the idle listener issues
// it (injected, or the real listener after a real idle period), last-record
// Delete / ShiftByKeys / ShiftExpired (auto-destroy), the Destroy RPC, and a
// graceful stop modelled as the server does it (MarkShuttingDown, drain the
// in-flight requests, StopHydra). At the end every swamp is re-opened from disk
// (Close + re-summon, or a fresh rig on the same root) and read back.
//
// Oracle, per key, on the recorded history (logical call/return clock only):
//   every ACKNOWLEDGED write w (key k, unique value v) is visible after the re-open
//   (final[k] == v) unless another operation on k — a write of another value, a
//   delete/shift of k, a destroy of the swamp; acknowledged or of unknown outcome —
//   exists that had not returned before w was called (i.e. is later than or
//   overlaps w); otherwise "lost-write".
// Requests that returned an error impose nothing (their effect is optional).
// Nothing is asserted about deletes being durable (not this property).

const (
	c16WDead  = "write-after-summon-into-dead-instance"
	c16WDrain = "auto-destroy-after-drained-insert"
	c16WIdle  = "idle-close-stale-interaction-time"
	c16WMark  = "deletion-mark-survives-concurrent-set"
	c16WOrder = "immediate-write-batches-out-of-order"
)

type C16Scenario struct {
	Mode     string          `json:"mode"` // fast | slow
	Free     bool            `json:"free"` // lifecycle events may overlap writers (generated only when no finding is open, and by witnesses)
	Swamps   []C16Swamp      `json:"swamps"`
	Final    string          `json:"final"`                // close | restart
	MarkAtMs int             `json:"mark_at_ms,omitempty"` // restart: MarkShuttingDown this long after the start (0 = when all timelines ended)
	Plan     []vsched.Action `json:"plan"`
}

type C16Swamp struct {
	Idle  int       `json:"idle"` // close-after-idle seconds: 0 | 1 | 600
	WI    int       `json:"wi"`   // write interval seconds: 0 | 1; -1 = in-memory swamp (lastdel shape only)
	Steps []C16Step `json:"steps"`
}

type C16Step struct {
	Kind string      `json:"kind"` // closeover | burst | gap | idle | close | closeduring | destroy | destroyduring | delall | shiftall | shiftexp | shiftexpsome | delsome | shiftsome
	Ms   int         `json:"ms,omitempty"`
	W    []C16Writer `json:"w,omitempty"`
	Ev   []C16Event  `json:"ev,omitempty"`
}

type C16Writer struct {
	DelayUs int     `json:"delay_us,omitempty"`
	After   string  `json:"after,omitempty"` // vsched event, or "paused" = some goroutine is held by the plan
	Ops     []C16Op `json:"ops"`
}

type C16Op struct {
	Kind string `json:"kind"` // set | inc | patch | del | get | setown (Set of the writer's private key) | delshared (Delete of a shared key)
	Key  int    `json:"key"`
}

type C16Event struct {
	Kind   string `json:"kind"` // close | delall | shiftall | destroy | delkey (Delete of shared key k<Key>) | delname / shiftname (Delete / ShiftByKeys of key Name)
	Name   string `json:"name,omitempty"`
	Key    int    `json:"key,omitempty"`
	AtUs   int    `json:"at_us,omitempty"`
	LateUs int    `json:"late_us,omitempty"` // close: time between the listener-like check "no active vigil" and the Close() call
	After  string `json:"after,omitempty"`
	Signal string `json:"signal,omitempty"`
}

// ---------------------------------------------------------------------------
// environment

var c16Idles = []int{0, 1, 600}

func c16Patterns() []rig.Pattern {
	p := []rig.Pattern{{Pattern: "c16mem/*/*", InMemory: true, CloseAfterIdleSec: 600}}
	for _, idle := range c16Idles {
		for _, wi := range []int{0, 1} {
			p = append(p, rig.Pattern{Pattern: fmt.Sprintf("c16i%dw%d/*/*", idle, wi), CloseAfterIdleSec: int64(idle), WriteIntervalSec: int64(wi)})
		}
	}
	return p
}

type c16Env struct {
	r     *rig.Rig
	roots []string // every data root used by this environment (removed at the end)
}

var c16E *c16Env

func c16WithRig(f func()) {
	c16E = &c16Env{r: rig.New(rig.Options{Patterns: c16Patterns()})}
	c16E.roots = []string{c16E.r.Root}
	defer func() {
		c16E.r.Cleanup()
		for _, d := range c16E.roots {
			os.RemoveAll(d)
		}
		c16E = nil
	}()
	f()
}

func copyTree(src, dst string) error {
	return filepath.Walk(src, func(p string, info os.FileInfo, err error) error {
		if err != nil {
			return nil // a file removed meanwhile
		}
		rel, _ := filepath.Rel(src, p)
		if info.IsDir() {
			return os.MkdirAll(filepath.Join(dst, rel), 0o755)
		}
		b, err := os.ReadFile(p)
		if err != nil {
			return nil
		}
		return os.WriteFile(filepath.Join(dst, rel), b, 0o644)
	})
}

// restart models the rest of the server's stop sequence after MarkShuttingDown + drain: StopHydra returns, the
// process exits, a new process starts on the same data. The process exit is modelled by continuing on a COPY of the
// data root taken when StopHydra returned, so that nothing the old engine might still do reaches the new one.
func (e *c16Env) restart() bool {
	old := e.r
	old.DisownRoot()
	ok := old.Stop(100 * time.Second)
	snap, err := os.MkdirTemp("/dev/shm", "verif-rig-c16snap-")
	if err != nil {
		panic(err)
	}
	if err := copyTree(old.Root, snap); err != nil {
		panic(err)
	}
	e.roots = append(e.roots, snap)
	os.RemoveAll(old.Root)
	e.r = rig.New(rig.Options{Root: snap, Patterns: c16Patterns()})
	return ok
}

// ---------------------------------------------------------------------------
// history

type c16Rec struct {
	del       bool
	all       bool // destroy: covers every key
	key       string
	val       string // "?" = unknown
	call, ret int64
	acked     bool
	what      string
}

type c16Sw struct {
	e        *c16Env
	name     string
	isl      uint64
	idle, wi int
	open     bool // restricted mode (findings open)

	mu          sync.Mutex
	recs        []c16Rec
	lastTouch   time.Time
	unjudgeable string
	classes     map[string]bool
	tornAfter   bool // an acknowledged write was followed by an instance teardown
	ackedWrites int
	seqN        int64
}

func (s *c16Sw) class(c string) {
	s.mu.Lock()
	s.classes[c] = true
	s.mu.Unlock()
}

func (s *c16Sw) ctx() (context.Context, context.CancelFunc) {
	return context.WithTimeout(context.Background(), 120*time.Second)
}

func (s *c16Sw) begin() (int64, time.Time) {
	now := time.Now()
	s.mu.Lock()
	s.lastTouch = now
	s.mu.Unlock()
	return tick(), now
}

func (s *c16Sw) end(t0 time.Time, recs ...c16Rec) {
	t1 := tick()
	now := time.Now()
	s.mu.Lock()
	defer s.mu.Unlock()
	s.lastTouch = now
	if s.open && !s.closeSafe() && s.idle < 600 && now.Sub(t0) > 700*time.Millisecond && s.unjudgeable == "" {
		// a request that took this long may have spanned an idle-close decision (open finding): do not judge
		s.unjudgeable = fmt.Sprintf("a request took %v (stall)", now.Sub(t0))
	}
	for _, r := range recs {
		r.ret = t1
		if r.acked && !r.del {
			s.ackedWrites++
		}
		s.recs = append(s.recs, r)
	}
}

func (s *c16Sw) teardownHappened() {
	s.mu.Lock()
	if s.ackedWrites > 0 {
		s.tornAfter = true
	}
	s.mu.Unlock()
}

func errText(err error) string {
	if err == nil {
		return ""
	}
	return err.Error()
}

// expiry of a written record: none, already in the past, far in the future (fixed instants: input data, not a clock read)
const (
	expNone   = 0
	expPast   = 1
	expFuture = 2
)

func (s *c16Sw) set(key, val string, exp int) {
	kv := &hydrapb.KeyValuePair{Key: key, StringVal: &val}
	switch exp {
	case expPast:
		kv.ExpiredAt = timestamppb.New(time.Unix(1000000000, 0))
	case expFuture:
		kv.ExpiredAt = timestamppb.New(time.Unix(4102444800, 0))
	}
	c, t0 := s.begin()
	ctx, cancel := s.ctx()
	resp, err := s.e.r.G.Set(ctx, &hydrapb.SetRequest{Swamps: []*hydrapb.SwampRequest{{IslandID: s.isl, SwampName: s.name,
		CreateIfNotExist: true, Overwrite: true, KeyValues: []*hydrapb.KeyValuePair{kv}}}})
	cancel()
	rec := c16Rec{key: key, val: val, call: c, what: "Set"}
	if err == nil && resp != nil && len(resp.Swamps) == 1 && resp.Swamps[0].ErrorCode == nil && len(resp.Swamps[0].KeysAndStatuses) == 1 {
		st := resp.Swamps[0].KeysAndStatuses[0].Status
		rec.acked = st == hydrapb.Status_NEW || st == hydrapb.Status_UPDATED
	}
	if resp == nil && err == nil {
		s.class("handler-returned-nil")
	}
	s.end(t0, rec)
}

// mset writes n (<= 37) private keys of writer w in ONE Set request.
func (s *c16Sw) mset(w, n int, tag string) {
	if n > 37 {
		n = 37
	}
	var kvs []*hydrapb.KeyValuePair
	var recs []c16Rec
	for j := 0; j < n; j++ {
		v := s.nextVal(tag)
		kvs = append(kvs, &hydrapb.KeyValuePair{Key: fmt.Sprintf("m%d_%d", w, j), StringVal: &v})
		recs = append(recs, c16Rec{key: fmt.Sprintf("m%d_%d", w, j), val: v, what: "Set(multi-key)"})
	}
	c, t0 := s.begin()
	ctx, cancel := s.ctx()
	resp, err := s.e.r.G.Set(ctx, &hydrapb.SetRequest{Swamps: []*hydrapb.SwampRequest{{IslandID: s.isl, SwampName: s.name,
		CreateIfNotExist: true, Overwrite: true, KeyValues: kvs}}})
	cancel()
	st := map[string]hydrapb.Status_Code{}
	if err == nil && resp != nil && len(resp.Swamps) == 1 && resp.Swamps[0].ErrorCode == nil {
		for _, ks := range resp.Swamps[0].KeysAndStatuses {
			st[ks.Key] = ks.Status
		}
	}
	for i := range recs {
		recs[i].call = c
		x, ok := st[recs[i].key]
		recs[i].acked = ok && (x == hydrapb.Status_NEW || x == hydrapb.Status_UPDATED)
	}
	s.end(t0, recs...)
}

func (s *c16Sw) inc(key string) {
	c, t0 := s.begin()
	ctx, cancel := s.ctx()
	resp, err := s.e.r.G.IncrementInt64(ctx, &hydrapb.IncrementInt64Request{IslandID: s.isl, SwampName: s.name, Key: key, IncrementBy: 1})
	cancel()
	rec := c16Rec{key: key, val: "?", call: c, what: "IncrementInt64"}
	if err == nil && resp != nil && resp.IsIncremented {
		rec.acked = true
		rec.val = strconv.FormatInt(resp.Value, 10)
	}
	s.end(t0, rec)
}

func mpStr(s string) []byte {
	if len(s) < 32 {
		return append([]byte{0xa0 | byte(len(s))}, s...)
	}
	return append([]byte{0xd9, byte(len(s))}, s...)
}

func (s *c16Sw) patch(key, val string) {
	c, t0 := s.begin()
	ctx, cancel := s.ctx()
	resp, err := s.e.r.G.PatchTreasures(ctx, &hydrapb.PatchTreasuresRequest{IslandID: s.isl, SwampName: s.name, CreateIfNotExist: true,
		Patches: []*hydrapb.TreasurePatch{{Key: key, Ops: []*hydrapb.PatchOp{{Op: hydrapb.PatchOp_SET, Path: "v", Value: mpStr(val)}}}}})
	cancel()
	rec := c16Rec{key: key, val: val, call: c, what: "PatchTreasures"}
	if err == nil && resp != nil && len(resp.Results) == 1 {
		st := resp.Results[0].Status
		rec.acked = st == hydrapb.PatchResult_PATCHED || st == hydrapb.PatchResult_CREATED
	}
	s.end(t0, rec)
}

func (s *c16Sw) get(key string) {
	_, t0 := s.begin()
	ctx, cancel := s.ctx()
	_, _ = s.e.r.G.Get(ctx, &hydrapb.GetRequest{Swamps: []*hydrapb.GetSwamp{{IslandID: s.isl, SwampName: s.name, Keys: []string{key}}}})
	cancel()
	s.end(t0)
}

func (s *c16Sw) del(keys ...string) {
	c, t0 := s.begin()
	ctx, cancel := s.ctx()
	resp, err := s.e.r.G.Delete(ctx, &hydrapb.DeleteRequest{Swamps: []*hydrapb.DeleteRequest_SwampKeys{{IslandID: s.isl, SwampName: s.name, Keys: keys}}})
	cancel()
	var recs []c16Rec
	if err == nil && resp != nil {
		for _, r := range resp.Responses {
			for _, ks := range r.KeyStatuses {
				if ks.Status == hydrapb.Status_DELETED {
					recs = append(recs, c16Rec{del: true, key: ks.Key, call: c, acked: true, what: "Delete"})
				}
			}
		}
	} else {
		for _, k := range keys {
			recs = append(recs, c16Rec{del: true, key: k, call: c, what: "Delete(unknown outcome)"})
		}
	}
	s.end(t0, recs...)
}

func (s *c16Sw) shift(keys ...string) {
	c, t0 := s.begin()
	ctx, cancel := s.ctx()
	resp, err := s.e.r.G.ShiftByKeys(ctx, &hydrapb.ShiftByKeysRequest{IslandID: s.isl, SwampName: s.name, Keys: keys})
	cancel()
	var recs []c16Rec
	if err == nil && resp != nil {
		for _, t := range resp.Treasures {
			recs = append(recs, c16Rec{del: true, key: t.Key, call: c, acked: true, what: "ShiftByKeys"})
		}
	} else {
		for _, k := range keys {
			recs = append(recs, c16Rec{del: true, key: k, call: c, what: "ShiftByKeys(unknown outcome)"})
		}
	}
	s.end(t0, recs...)
}

func (s *c16Sw) shiftExpired() { s.shiftExpiredN(0) }

func (s *c16Sw) shiftExpiredN(howMany int32) {
	c, t0 := s.begin()
	ctx, cancel := s.ctx()
	resp, err := s.e.r.G.ShiftExpiredTreasures(ctx, &hydrapb.ShiftExpiredTreasuresRequest{IslandID: s.isl, SwampName: s.name, HowMany: howMany})
	cancel()
	var recs []c16Rec
	if err == nil && resp != nil {
		for _, t := range resp.Treasures {
			recs = append(recs, c16Rec{del: true, key: t.Key, call: c, acked: true, what: "ShiftExpiredTreasures"})
		}
	} else {
		recs = append(recs, c16Rec{del: true, all: true, call: c, what: "ShiftExpiredTreasures(unknown outcome)"})
	}
	s.end(t0, recs...)
}

func (s *c16Sw) destroy() {
	c, t0 := s.begin()
	ctx, cancel := s.ctx()
	resp, err := s.e.r.G.Destroy(ctx, &hydrapb.DestroyRequest{IslandID: s.isl, SwampName: s.name})
	cancel()
	s.end(t0, c16Rec{del: true, all: true, call: c, acked: err == nil && resp != nil, what: "Destroy"})
	s.teardownHappened()
}

func c16AllKeys() []string {
	keys := []string{"pin", "x", "x0", "x1", "f0", "f1", "k0", "k1", "k2", "k3"}
	for w := 0; w < 6; w++ {
		keys = append(keys, fmt.Sprintf("i%d", w), fmt.Sprintf("p%d", w), fmt.Sprintf("s%d", w))
		for j := 0; j < 37; j++ {
			keys = append(keys, fmt.Sprintf("m%d_%d", w, j))
		}
	}
	return keys
}

// injectClose stands for "the idle listener decided to close now": like the listener it only closes an instance
// without active vigils, and it calls the same Swamp.Close().
// closeSafe: reserved for engine versions in which a Close() overlapping ordinary traffic is harmless. On the current tree it
// is not: in immediate-write mode a save that lands in a closing / closed instance is written through by that instance itself
// (SaveFunction -> fileWriterHandler(false); the chronicler re-opens its writer), but as soon as a SUCCESSOR instance of the
// swamp writes too, the two writers clobber each other (probe: every key of the overlapping request lost). The exact exemption
// from the open Close() findings is therefore the "closeover" step below: immediate-write swamp, every request in flight
// summoned the swamp before the Close(), and nobody summons it again until they have all returned.
func (s *c16Sw) closeSafe() bool { return false }

// closeover: all nWriters requests of the step (each writer issues exactly one Set-handler request) are held by the plan
// right after SummonSwamp returned (before BeginVigil). Then the listener-like decision is taken (no vigil is active) and
// either the requests are released first and Close() follows lateUs later (vigils begun before closing=1, saves land during
// and after the close write), or Close() runs to completion first (saves land in the closed instance). No other request
// summons the swamp before all of them have returned, so in immediate-write mode every save is written through.
func (s *c16Sw) closeover(nWriters int, closeFirst bool, lateUs int) {
	const ev = "closeover-go"
	deadline := time.Now().Add(1500 * time.Millisecond)
	for vsched.PausedNow() < nWriters && time.Now().Before(deadline) {
		time.Sleep(50 * time.Microsecond)
	}
	if vsched.PausedNow() < nWriters || !s.e.r.IsOpen(s.name) {
		vsched.Signal(ev)
		s.class("closeover-not-armed")
		return
	}
	ctx, cancel := context.WithTimeout(context.Background(), 40*time.Second)
	sw, err := s.e.r.Z.GetHydra().SummonSwamp(ctx, s.isl, name.Load(s.name))
	cancel()
	if err != nil || sw == nil || sw.HasActiveVigils() {
		vsched.Signal(ev)
		s.class("closeover-not-armed")
		return
	}
	if closeFirst {
		sw.Close()
		vsched.Signal(ev)
		s.class("closeover-close-then-saves")
	} else {
		vsched.Signal(ev)
		if lateUs > 0 {
			time.Sleep(time.Duration(lateUs) * time.Microsecond)
		}
		sw.Close()
		s.class("closeover-saves-straddle-close")
	}
	s.teardownHappened()
}

func (s *c16Sw) injectClose() { s.injectCloseLate(0) }

func (s *c16Sw) injectCloseLate(lateUs int) {
	h := s.e.r.Z.GetHydra()
	if !s.e.r.IsOpen(s.name) {
		return
	}
	ctx, cancel := context.WithTimeout(context.Background(), 40*time.Second)
	defer cancel()
	sw, err := h.SummonSwamp(ctx, s.isl, name.Load(s.name))
	if err != nil || sw == nil {
		return
	}
	// like the listener: decide only when no vigil is active (look for such a moment for a short while) ...
	deadline := time.Now().Add(5 * time.Millisecond)
	for sw.HasActiveVigils() {
		if time.Now().After(deadline) {
			s.class("inject-close-skipped-active-vigil")
			return
		}
		time.Sleep(20 * time.Microsecond)
	}
	// ... and act a little later (the listener's check and its Close() are not atomic either)
	if lateUs > 0 {
		time.Sleep(time.Duration(lateUs) * time.Microsecond)
		s.class("close-decided-then-delayed")
	}
	sw.Close()
	s.teardownHappened()
	s.class("close-injected")
}

// waitEvicted waits until the real idle listener has closed the instance.
func (s *c16Sw) waitEvicted(max time.Duration) bool {
	deadline := time.Now().Add(max)
	for time.Now().Before(deadline) {
		if !s.e.r.IsOpen(s.name) {
			return true
		}
		time.Sleep(15 * time.Millisecond)
	}
	return !s.e.r.IsOpen(s.name)
}

// quiesceIfStale (restricted mode): a burst must not begin on an instance whose idle period may be expiring — wait for the eviction instead.
func (s *c16Sw) quiesceIfStale() {
	if !s.open || s.idle >= 600 || s.closeSafe() {
		return
	}
	s.mu.Lock()
	stale := !s.lastTouch.IsZero() && time.Since(s.lastTouch) > 500*time.Millisecond
	s.mu.Unlock()
	if !stale || !s.e.r.IsOpen(s.name) {
		return
	}
	if s.waitEvicted(time.Duration(s.idle)*time.Second + 4*time.Second) {
		s.teardownHappened()
		s.class("real-idle-eviction")
	} else {
		s.mu.Lock()
		if s.unjudgeable == "" {
			s.unjudgeable = "instance still open long after its idle period"
		}
		s.mu.Unlock()
	}
}

func waitC16Event(ev string, max time.Duration) {
	deadline := time.Now().Add(max)
	for time.Now().Before(deadline) {
		if ev == "paused" {
			if vsched.PausedNow() > 0 {
				return
			}
		} else if vsched.Happened(ev) {
			return
		}
		time.Sleep(50 * time.Microsecond)
	}
}

func (s *c16Sw) event(ev C16Event) {
	if ev.After != "" {
		waitC16Event(ev.After, 3*time.Second)
	}
	if ev.AtUs > 0 {
		time.Sleep(time.Duration(ev.AtUs) * time.Microsecond)
	}
	switch ev.Kind {
	case "close":
		s.injectCloseLate(ev.LateUs)
	case "delall":
		s.del(c16AllKeys()...)
		s.teardownHappened()
	case "shiftall":
		s.shift(c16AllKeys()...)
		s.teardownHappened()
	case "destroy":
		s.destroy()
	case "closeover":
		s.closeover(ev.AtUs>>8, ev.AtUs&1 == 1, ev.LateUs)
	case "delname":
		s.del(ev.Name)
	case "shiftname":
		s.shift(ev.Name)
	case "delkey":
		k := ev.Key
		if k < 0 {
			k = -k
		}
		s.del(fmt.Sprintf("k%d", k%4))
	}
	if ev.Signal != "" {
		vsched.Signal(ev.Signal)
	}
}

func (s *c16Sw) nextVal(tag string) string {
	s.mu.Lock()
	s.seqN++
	n := s.seqN
	s.mu.Unlock()
	return fmt.Sprintf("%s:%d", tag, n)
}

// burst runs the writers (and, in free mode, the lifecycle events) of one step concurrently. Returns a hang description or "".
func (s *c16Sw) burst(bi int, st C16Step) string {
	// raw steps run without the pin Set in front: closeover (every Set is held by the plan until the close decision) and the
	// lastdel shape (the swamp must hold exactly one record)
	raw := st.Kind == "closeover" || st.Kind == "lastdel"
	if !raw {
		s.quiesceIfStale()
	}
	if s.open && !raw {
		// the pin record keeps the swamp non-empty during the burst, so that no delete of the burst auto-destroys it (open finding)
		s.set("pin", s.nextVal(fmt.Sprintf("b%dpin", bi)), expNone)
	}
	var wg sync.WaitGroup
	for wi, w := range st.W {
		wg.Add(1)
		go func(wi int, w C16Writer) {
			defer wg.Done()
			if w.After != "" {
				waitC16Event(w.After, 4*time.Second)
			}
			if w.DelayUs > 0 {
				time.Sleep(time.Duration(w.DelayUs) * time.Microsecond)
			}
			tag := fmt.Sprintf("b%dw%d", bi, wi)
			for _, op := range w.Ops {
				if s.e.r.Z.GetHydra().IsShuttingDown() {
					return
				}
				k := op.Key
				if k < 0 {
					k = -k
				}
				switch op.Kind {
				case "set":
					s.set(fmt.Sprintf("k%d", k%4), s.nextVal(tag), expNone)
				case "setpast": // a record whose expiry is already in the past (ShiftExpired will take it)
					s.set(fmt.Sprintf("x%d", k%2), s.nextVal(tag), expPast)
				case "setfuture": // a record with an expiry far in the future
					s.set(fmt.Sprintf("f%d", k%2), s.nextVal(tag), expFuture)
				case "mset": // one request, one summon, one vigil, many sequential saves
					s.mset(wi%6, 4+k*3, tag)
				case "setown":
					s.set(fmt.Sprintf("s%d", wi%6), s.nextVal(tag), expNone)
				case "delshared":
					s.del(fmt.Sprintf("k%d", k%4))
				case "inc":
					s.inc(fmt.Sprintf("i%d", wi%6))
				case "patch":
					s.patch(fmt.Sprintf("p%d", wi%6), s.nextVal(tag))
				case "del":
					// only keys that this writer alone writes (deletes of shared keys: "delshared")
					switch k % 3 {
					case 0:
						s.del(fmt.Sprintf("s%d", wi%6))
					case 1:
						s.del(fmt.Sprintf("i%d", wi%6))
					default:
						s.shift(fmt.Sprintf("s%d", wi%6), fmt.Sprintf("p%d", wi%6))
					}
				case "get":
					s.get(fmt.Sprintf("k%d", k%4))
				}
			}
		}(wi, w)
	}
	{
		for _, ev := range st.Ev {
			if !s.free() && !(ev.Kind == "close" && s.closeSafe()) && !(raw && ev.Kind == "closeover") && !(st.Kind == "lastdel" && (ev.Kind == "delname" || ev.Kind == "shiftname")) {
				continue // restricted mode: no lifecycle event overlaps requests, except the closeover shape
			}
			if ev.Kind == "closeover" {
				ev.AtUs = len(st.W)<<8 | ev.AtUs&0xff // the event needs the number of writers it waits for
			}
			wg.Add(1)
			go func(ev C16Event) {
				defer wg.Done()
				s.event(ev)
			}(ev)
		}
	}
	if !waitTimeout(&wg, 100*time.Second) {
		vsched.Deactivate()
		if !waitTimeout(&wg, 60*time.Second) {
			w := hangWitness("gateway.Gateway.", "swamp.(*swamp).Destroy", "hydra.(*hydra).SummonSwamp")
			if w == "" {
				w = "(no parked engine goroutine found)"
			}
			return fmt.Sprintf("burst %d of swamp %s did not finish within 160 s (plan released after 100 s); parked: %s", bi, s.name, w)
		}
	}
	return ""
}

func (s *c16Sw) free() bool { return !s.open }

// during runs a burst whose requests all begin after the teardown has set closing=1 on the live instance.
func (s *c16Sw) during(bi int, st C16Step, destroy bool) string {
	h := s.e.r.Z.GetHydra()
	if !s.e.r.IsOpen(s.name) {
		return s.burst(bi, st)
	}
	ctx, cancel := context.WithTimeout(context.Background(), 40*time.Second)
	sw, err := h.SummonSwamp(ctx, s.isl, name.Load(s.name))
	cancel()
	s.begin()
	if err != nil || sw == nil {
		return s.burst(bi, st)
	}
	done := make(chan struct{})
	go func() {
		defer close(done)
		if destroy {
			s.destroy()
		} else {
			sw.Close()
			s.teardownHappened()
		}
	}()
	deadline := time.Now().Add(2 * time.Second)
	for !sw.IsClosing() && time.Now().Before(deadline) {
		time.Sleep(10 * time.Microsecond)
	}
	s.class("requests-arrive-during-teardown")
	hang := s.burst(bi, st)
	select {
	case <-done:
	case <-time.After(100 * time.Second):
		if hang == "" {
			hang = fmt.Sprintf("teardown of swamp %s did not finish within 100 s: %s", s.name, hangWitness("swamp.(*swamp).Destroy", "swamp.(*swamp).Close"))
		}
	}
	return hang
}

func (s *c16Sw) run(sw C16Swamp) string {
	bi := 0
	for _, st := range sw.Steps {
		if s.e.r.Z.GetHydra().IsShuttingDown() {
			return ""
		}
		switch st.Kind {
		case "burst":
			if h := s.burst(bi, st); h != "" {
				return h
			}
			bi++
		case "closeover", "lastdel":
			if h := s.burst(bi, st); h != "" {
				return h
			}
			bi++
		case "closeduring", "destroyduring":
			s.quiesceIfStale()
			if h := s.during(bi, st, st.Kind == "destroyduring"); h != "" {
				return h
			}
			bi++
		case "gap":
			time.Sleep(time.Duration(st.Ms) * time.Millisecond)
		case "idle":
			if s.open && !(s.closeSafe() && st.Ms > 0) {
				if s.idle >= 600 {
					continue
				}
				time.Sleep(time.Duration(s.idle)*time.Second + 900*time.Millisecond)
				s.quiesceIfStale()
			} else {
				time.Sleep(time.Duration(st.Ms) * time.Millisecond)
				if !s.e.r.IsOpen(s.name) {
					s.teardownHappened()
					s.class("real-idle-eviction")
				}
			}
		case "close":
			s.quiesceIfStale()
			s.injectClose()
		case "destroy":
			s.quiesceIfStale()
			s.destroy()
		case "delall":
			s.quiesceIfStale()
			s.del(c16AllKeys()...)
			s.teardownHappened()
			s.class("auto-destroy-by-delete")
		case "shiftall":
			s.quiesceIfStale()
			s.shift(c16AllKeys()...)
			s.teardownHappened()
			s.class("auto-destroy-by-shift")
		case "shiftexpsome":
			// ShiftExpired that removes only the records whose expiry has passed; everything else (no expiry / future expiry)
			// stays, the swamp must survive. Ms bit0: also write a future-expiry record first; bit1: HowMany 1.
			s.quiesceIfStale()
			s.set("x", s.nextVal("x"), expPast)
			if st.Ms&1 != 0 {
				s.set("f0", s.nextVal("f"), expFuture)
			}
			if st.Ms&2 != 0 {
				s.shiftExpiredN(1)
			} else {
				s.shiftExpiredN(0)
			}
			s.class("partial-shift-expired")
		case "delsome", "shiftsome":
			// removes a drawn subset of the keys (Ms = bit mask over the key list); in restricted mode the pin record stays
			s.quiesceIfStale()
			var sub []string
			for i, k := range c16AllKeys() {
				if k != "pin" && st.Ms&(1<<(uint(i)%12)) != 0 {
					sub = append(sub, k)
				}
			}
			if len(sub) == 0 {
				sub = []string{"k0"}
			}
			if st.Kind == "delsome" {
				s.del(sub...)
			} else {
				s.shift(sub...)
			}
			s.class("partial-delete-or-shift")
		case "shiftexp":
			// never concurrent with anything else on the swamp
			s.quiesceIfStale()
			s.set("x", s.nextVal("x"), expPast)
			others := c16AllKeys()
			for i, k := range others {
				if k == "x" {
					others = append(others[:i:i], others[i+1:]...)
					break
				}
			}
			s.shift(others...)
			s.shiftExpired()
			s.teardownHappened()
			s.class("auto-destroy-by-shift-expired")
		}
	}
	return ""
}

func patchVal(body []byte) string {
	i := bytes.Index(body, []byte{0xa1, 'v'})
	if i < 0 || i+2 >= len(body) {
		return fmt.Sprintf("?body=%x", body)
	}
	b := body[i+2]
	rest := body[i+3:]
	n := 0
	switch {
	case b&0xe0 == 0xa0:
		n = int(b & 0x1f)
	case b == 0xd9 && len(rest) > 0:
		n = int(rest[0])
		rest = rest[1:]
	default:
		return fmt.Sprintf("?body=%x", body)
	}
	if n > len(rest) {
		return fmt.Sprintf("?body=%x", body)
	}
	return string(rest[:n])
}

// readAll returns the stored state of the swamp ("" error = ok).
func (s *c16Sw) readAll() (map[string]string, string) {
	out := map[string]string{}
	ex, err := s.e.r.G.IsSwampExist(context.Background(), &hydrapb.IsSwampExistRequest{IslandID: s.isl, SwampName: s.name})
	if err != nil || ex == nil {
		return nil, fmt.Sprintf("IsSwampExist: %v %v", ex, err)
	}
	if !ex.IsExist {
		return out, ""
	}
	ctx, cancel := s.ctx()
	defer cancel()
	resp, err := s.e.r.G.GetAll(ctx, &hydrapb.GetAllRequest{IslandID: s.isl, SwampName: s.name})
	if err != nil {
		if strings.Contains(err.Error(), "Swamp does not exist") {
			return out, ""
		}
		return nil, "GetAll: " + err.Error()
	}
	if resp == nil {
		return nil, "GetAll returned (nil, nil)"
	}
	for _, t := range resp.Treasures {
		switch {
		case t.StringVal != nil:
			out[t.Key] = *t.StringVal
		case t.Int64Val != nil:
			out[t.Key] = strconv.FormatInt(*t.Int64Val, 10)
		case t.BytesVal != nil:
			out[t.Key] = patchVal(t.BytesVal)
		default:
			out[t.Key] = "?unknown-type"
		}
	}
	return out, ""
}

func (s *c16Sw) judge(final map[string]string) pbt.Outcome {
	keys := map[string]bool{}
	for k := range final {
		keys[k] = true
	}
	for _, r := range s.recs {
		if !r.del {
			keys[r.key] = true
		}
	}
	ks := make([]string, 0, len(keys))
	for k := range keys {
		ks = append(ks, k)
	}
	sort.Strings(ks)
	cfg := fmt.Sprintf("close-after-idle %d s, write interval %d s", s.idle, s.wi)
	for _, k := range ks {
		var writes, dels []c16Rec
		for _, r := range s.recs {
			if r.del && (r.all || r.key == k) {
				dels = append(dels, r)
			} else if !r.del && r.key == k {
				writes = append(writes, r)
			}
		}
		v, present := final[k]
		for _, w := range writes {
			if !w.acked || (present && w.val == v) {
				continue
			}
			// the acknowledged write is not visible: some other operation on the key (a write of another value, a delete/shift of
			// the key, a destroy of the swamp — acknowledged or of unknown outcome) must not have returned before w was called
			ok := false
			for _, o := range writes {
				if o.val != w.val && o.ret > w.call {
					ok = true
					break
				}
			}
			for _, d := range dels {
				if ok || d.ret > w.call {
					ok = true
					break
				}
			}
			if ok {
				continue
			}
			now := "the key is absent"
			if present {
				now = fmt.Sprintf("the key holds %q", v)
			}
			return pbt.Failf("lost-write", "swamp %s (%s): acknowledged %s of key %q = %q [%d,%d] is gone after re-open (%s) and no write/delete/shift of the key or destroy of the swamp was running or issued afterwards (history: %s)",
				s.name, cfg, w.what, k, w.val, w.call, w.ret, now, s.hist(k))
		}
		if present {
			// informational only (not this property): a value that an acknowledged later delete should have removed
			for _, w := range writes {
				if w.val != v {
					continue
				}
				for _, d := range dels {
					if d.acked && d.call > w.ret {
						s.classes["note:deleted-value-back-after-reopen"] = true
					}
				}
			}
		}
	}
	return pbt.Outcome{}
}

func (s *c16Sw) hist(k string) string {
	var sb strings.Builder
	n := 0
	for _, r := range s.recs {
		if !(r.key == k || (r.del && r.all)) {
			continue
		}
		n++
		if n > 12 {
			sb.WriteString(" …")
			break
		}
		a := "ack"
		if !r.acked {
			a = "unacked"
		}
		if r.del {
			fmt.Fprintf(&sb, " %s[%d,%d]%s", r.what, r.call, r.ret, a)
		} else {
			fmt.Fprintf(&sb, " %s=%s[%d,%d]%s", r.what, r.val, r.call, r.ret, a)
		}
	}
	return sb.String()
}

// ---------------------------------------------------------------------------
// run

func runC16(s C16Scenario) pbt.Outcome {
	e := c16E
	cs := nextCase()
	start := time.Now()
	vsched.Activate(s.Plan, false)
	active := true
	var rep vsched.Report
	deactivate := func() {
		if active {
			rep = vsched.Deactivate()
			active = false
		}
	}
	defer deactivate()

	var sws []*c16Sw
	for i, sc := range s.Swamps {
		n := fmt.Sprintf("c16i%dw%d/r%d/s%d", sc.Idle, sc.WI, cs, i)
		if sc.WI < 0 { // in-memory swamp (lastdel shape only): judged without any close
			n = fmt.Sprintf("c16mem/r%d/s%d", cs, i)
		}
		sws = append(sws, &c16Sw{e: e, name: n, isl: rig.Island(n), idle: sc.Idle, wi: sc.WI, open: !s.Free, classes: map[string]bool{}})
	}
	defer func() {
		// bound memory/files: remove the swamps of this case
		for _, sw := range sws {
			if !e.r.Z.GetHydra().IsShuttingDown() {
				ctx, cancel := context.WithTimeout(context.Background(), 60*time.Second)
				e.r.G.Destroy(ctx, &hydrapb.DestroyRequest{IslandID: sw.isl, SwampName: sw.name})
				cancel()
			}
		}
	}()

	hangs := make([]string, len(sws))
	var wg sync.WaitGroup
	for i := range sws {
		wg.Add(1)
		go func(i int) {
			defer wg.Done()
			hangs[i] = sws[i].run(s.Swamps[i])
		}(i)
	}
	marked := false
	if s.Final == "restart" && s.MarkAtMs > 0 {
		done := make(chan struct{})
		go func() { wg.Wait(); close(done) }()
		select {
		case <-done:
		case <-time.After(time.Duration(s.MarkAtMs) * time.Millisecond):
			// a shutdown request arrives while requests are in flight: new requests are refused from here on
			e.r.Z.GetHydra().MarkShuttingDown()
			marked = true
		}
	}
	wg.Wait() // = the gRPC server drains its in-flight requests
	deactivate()
	for _, h := range hangs {
		if h != "" {
			return pbt.Failf("hang", "%s", h)
		}
	}

	classes := map[string]bool{}
	if marked {
		classes["shutdown-while-requests-in-flight"] = true
	}
	if s.Final == "restart" {
		e.r.Z.GetHydra().MarkShuttingDown()
		for _, sw := range sws {
			sw.teardownHappened()
		}
		if !e.restart() {
			return pbt.Failf("hang", "graceful stop (StopHydra) did not finish within 100 s: %s", hangWitness("hydra.(*hydra).GracefulStop", "safeops.(*safeops).WaitForUnlock", "swamp.(*swamp).Close"))
		}
		classes["restart"] = true
	} else {
		for _, sw := range sws {
			sw.quiesceIfStale()
			if e.r.IsOpen(sw.name) && sw.wi >= 0 {
				sw.injectClose()
			}
		}
	}
	nt := false
	for _, sw := range sws {
		final, rerr := sw.readAll()
		if rerr != "" {
			return pbt.Failf("read-error", "swamp %s: %s", sw.name, rerr)
		}
		for c := range sw.classes {
			classes[c] = true
		}
		if sw.unjudgeable != "" {
			if strings.HasPrefix(sw.unjudgeable, "a request took") {
				classes["unjudgeable-swamp:request-stalled-over-700ms"] = true
			} else {
				classes["unjudgeable-swamp:"+sw.unjudgeable] = true
			}
			continue
		}
		if o := sw.judge(final); o.Fail != "" {
			o.Fail += fmt.Sprintf(" (plan fired: %v)", trunc(rep.Fired, 12))
			return o
		}
		if sw.tornAfter {
			nt = true
		}
		classes[fmt.Sprintf("idle%d-wi%d", sw.idle, sw.wi)] = true
	}
	if !s.Free && s.Mode == "fast" && time.Since(start) > 5*time.Second {
		classes["slow-fast-case"] = true
	}
	if len(rep.Fired) > 0 {
		classes["plan-fired"] = true
	}
	for _, f := range rep.Fired {
		if f == c16SaveSite+"#2:pause" && len(s.Swamps) == 1 && len(s.Swamps[0].Steps) > 1 && s.Swamps[0].Steps[1].Kind == "lastdel" {
			classes["lastdel-writer-held-with-guard"] = true
		}
	}
	if rep.Hits["swamp:WaitForGracefulClose:select:3e8f84"] > 0 {
		classes["request-waited-for-closing-swamp"] = true
	}
	out := pbt.Outcome{NonTrivial: nt}
	for c := range classes {
		out.Classes = append(out.Classes, c)
	}
	sort.Strings(out.Classes)
	return out
}

func trunc(a []string, n int) []string {
	if len(a) > n {
		return append(append([]string(nil), a[:n]...), "…")
	}
	return a
}

// ---------------------------------------------------------------------------
// generators

// the site between SummonSwamp's return and BeginVigil in Gateway.Set
const c16SetVigilSite = "gateway:Set:BeginVigil:3b19eb"

var c16Sites = []string{
	"swamp:startCloseListener:atomic.LoadInt64:c7ae2e",
	"swamp:startCloseListener:Lock:3e9e87",
	"swamp:startCloseListener:atomic.LoadInt32:4b6da7",
	"swamp:startWriteListener:atomic.LoadInt32:dde9f6",
	"swamp:Close:Lock:e3ba16",
	"swamp:Close:atomic.StoreInt32:cf5c57",
	"swamp:Close:atomic.LoadInt32:a437c9",
	"swamp:Destroy:atomic.StoreInt32:cf5c57",
	"swamp:Destroy:WaitForActiveVigilsClosed:3a63ba",
	"swamp:Destroy:Lock:aec636",
	"swamp:Destroy:atomic.LoadInt32:a437c9",
	"swamp:DeleteTreasure:CeaseVigil:513ed9",
	"swamp:CloneAndDeleteTreasuresByKeys:CeaseVigil:513ed9",
	"swamp:IsClosing:atomic.LoadInt32:302240",
	"swamp:WaitForGracefulClose:select:3e8f84",
	"swamp:fileWriterHandler:Lock:45b511",
	"swamp:SaveFunction:RUnlock:a71ce7",
	"swamp:SaveFunction:RUnlock:a71ce7~2",
	"gateway:Set:BeginVigil:3b19eb",
	"gateway:Set:StartTreasureGuard:490611",
	"gateway:IncrementInt64:BeginVigil:b2973a",
	"gateway_patch:patchTreasuresOneSwamp:BeginVigil:b2973a",
	"gateway:Delete:BeginVigil:3b19eb",
	"gateway:ShiftByKeys:BeginVigil:3b19eb",
	"hydra:SummonSwamp:Store:93684c",
	"hydra:closeEventCallbackFunction:Delete:d37bbd",
	"vigil:BeginVigil:atomic.AddInt64:b99a82",
	"vigil:CeaseVigil:atomic.AddInt64:102c0e",
}

func genC16Plan(t *rapid.T, max int, pauses bool) []vsched.Action {
	var plan []vsched.Action
	n := rapid.IntRange(0, max).Draw(t, "nactions")
	for i := 0; i < n; i++ {
		a := vsched.Action{Site: rapid.SampledFrom(c16Sites).Draw(t, "site"), Hit: rapid.IntRange(0, 4).Draw(t, "hit")}
		k := rapid.IntRange(0, 3).Draw(t, "kind")
		if !pauses && k >= 2 {
			k = 1
		}
		switch k {
		case 0:
			a.Kind = "gosched"
		case 1:
			a.Kind = "sleep"
			a.SleepUs = rapid.SampledFrom([]int{20, 200, 1000, 3000}).Draw(t, "us")
		default:
			a.Kind = "pause"
			a.Until = "site:" + rapid.SampledFrom(c16Sites).Draw(t, "until")
			a.MaxWaitMs = rapid.SampledFrom([]int{1, 5, 20}).Draw(t, "maxwait")
		}
		plan = append(plan, a)
	}
	return plan
}

func genC16Writers(t *rapid.T, maxW, maxOps int, deletes bool) []C16Writer {
	var ws []C16Writer
	n := rapid.IntRange(1, maxW).Draw(t, "nwriters")
	kinds := []string{"set", "set", "set", "setown", "setpast", "setfuture", "inc", "inc", "patch", "patch", "get", "mset"}
	if deletes {
		kinds = append(kinds, "del", "del")
		if !pbt.Open("C16", c16WMark) {
			// a Delete racing a write of the SAME key is the trigger of that finding
			kinds = append(kinds, "delshared")
		}
	}
	for i := 0; i < n; i++ {
		w := C16Writer{DelayUs: rapid.SampledFrom([]int{0, 0, 50, 300, 2000}).Draw(t, "delay")}
		m := rapid.IntRange(1, maxOps).Draw(t, "nops")
		for j := 0; j < m; j++ {
			w.Ops = append(w.Ops, C16Op{Kind: rapid.SampledFrom(kinds).Draw(t, "op"), Key: rapid.IntRange(0, 11).Draw(t, "key")})
		}
		ws = append(ws, w)
	}
	return ws
}

var c16QuietEvents = []string{"close", "close", "closeduring", "closeduring", "destroy", "destroyduring", "delall", "shiftall", "shiftexp", "gap",
	"shiftexpsome", "shiftexpsome", "shiftexpsome", "delsome", "shiftsome"}

// genC16Swamp draws the timeline of one swamp. slow = real listener periods are part of it.
func genC16Swamp(t *rapid.T, free, slow bool) C16Swamp {
	sw := C16Swamp{WI: rapid.IntRange(0, 1).Draw(t, "wi")}
	if slow {
		sw.Idle = rapid.IntRange(0, 1).Draw(t, "idle")
	} else {
		sw.Idle = rapid.SampledFrom([]int{600, 600, 0, 1}).Draw(t, "idle")
	}
	// immediate-write swamps: single-key deletes/shifts inside bursts are the trigger of finding c16WOrder (a pending delete
	// marker that a concurrent handler has snapshotted while the key is re-created)
	dels := !(sw.WI == 0 && pbt.Open("C16", c16WOrder))
	if !slow && sw.WI == 0 && rapid.IntRange(0, 2).Draw(t, "closeover") > 0 {
		// first step: Set requests (one per writer, some of them multi-key) overlapped by a Close() — see closeover()
		st := C16Step{Kind: "closeover"}
		for i := rapid.IntRange(1, 4).Draw(t, "cow"); i > 0; i-- {
			op := C16Op{Kind: rapid.SampledFrom([]string{"mset", "mset", "set", "setown", "setfuture"}).Draw(t, "coop"), Key: rapid.IntRange(1, 11).Draw(t, "cokey")}
			st.W = append(st.W, C16Writer{Ops: []C16Op{op}})
		}
		st.Ev = []C16Event{{Kind: "closeover", AtUs: rapid.IntRange(0, 1).Draw(t, "closefirst"), LateUs: rapid.SampledFrom([]int{0, 50, 300, 1500}).Draw(t, "late")}}
		sw.Steps = append(sw.Steps, st)
	}
	nb := rapid.IntRange(2, 4).Draw(t, "nbursts")
	idles := 0
	for b := 0; b < nb; b++ {
		st := C16Step{Kind: "burst", W: genC16Writers(t, 5, 5, dels)}
		if free {
			for i := rapid.IntRange(0, 2).Draw(t, "nev"); i > 0; i-- {
				st.Ev = append(st.Ev, C16Event{Kind: rapid.SampledFrom([]string{"close", "close", "delall", "shiftall", "destroy"}).Draw(t, "evkind"),
					AtUs: rapid.SampledFrom([]int{0, 50, 300, 1000, 3000}).Draw(t, "evat")})
			}
		}
		sw.Steps = append(sw.Steps, st)
		if b == nb-1 {
			break
		}
		// what happens between two bursts
		if slow && idles < 2 && rapid.IntRange(0, 2).Draw(t, "realidle") > 0 {
			idles++
			ms := 0
			if free {
				// around the moment the listener's condition becomes true (1 s + close-after-idle) and the two ticks after it
				ms = sw.Idle*1000 + rapid.SampledFrom([]int{700, 900, 1000, 1100, 1500, 1900, 2000, 2100}).Draw(t, "idlems") + rapid.IntRange(-40, 40).Draw(t, "jitter")
			}
			sw.Steps = append(sw.Steps, C16Step{Kind: "idle", Ms: ms})
			continue
		}
		k := rapid.SampledFrom(c16QuietEvents).Draw(t, "between")
		switch k {
		case "gap":
			sw.Steps = append(sw.Steps, C16Step{Kind: "gap", Ms: rapid.SampledFrom([]int{0, 1, 20, 200}).Draw(t, "gapms")})
		case "closeduring", "destroyduring":
			sw.Steps = append(sw.Steps, C16Step{Kind: k, W: genC16Writers(t, 4, 3, dels)})
		case "shiftexpsome":
			sw.Steps = append(sw.Steps, C16Step{Kind: k, Ms: rapid.IntRange(0, 3).Draw(t, "flags")})
			if rapid.Bool().Draw(t, "thenclose") {
				sw.Steps = append(sw.Steps, C16Step{Kind: "close"})
			}
		case "delsome", "shiftsome":
			sw.Steps = append(sw.Steps, C16Step{Kind: k, Ms: rapid.IntRange(1, 4095).Draw(t, "mask")})
		default:
			sw.Steps = append(sw.Steps, C16Step{Kind: k})
		}
	}
	return sw
}

const (
	c16SaveSite     = "swamp:SaveFunction:atomic.StoreInt64:1cc3f1" // first statement of SaveFunction: the saver holds the record guard
	c16GetVigilSite = "gateway:Get:BeginVigil:3b19eb"
	c16DelGuardSite = "swamp:deleteHandler:StartTreasureGuard:ac9b2b"                 // a delete is about to queue for the record guard
	c16ShiftGuard   = "swamp:CloneAndDeleteTreasuresByKeys:StartTreasureGuard:fa71ce" // same for ShiftByKeys
)

// genC16LastDel: the swamp holds exactly one record A. A writer of A (Set / IncrementInt64 / PatchTreasures) is held while it
// owns A's guard; Delete(A) / ShiftByKeys([A]) queues behind it; meanwhile 1–3 other keys are created and acknowledged (and one
// is read); only then the writer of A is released. The delete empties nothing: the swamp and the new records must survive.
// (Different from the open finding auto-destroy-after-drained-insert: there the inserting request is still in flight when the
// emptiness is decided; here every insert has RETURNED before the delete even obtains the guard.)
func genC16LastDel(t *rapid.T) C16Scenario {
	sw := C16Swamp{Idle: 600, WI: rapid.SampledFrom([]int{0, 1, 1, -1}).Draw(t, "wi")}
	wkind := rapid.SampledFrom([]string{"set", "inc", "patch"}).Draw(t, "writerofA")
	aKey := rapid.IntRange(0, 3).Draw(t, "akey")
	aName := map[string]string{"set": fmt.Sprintf("k%d", aKey), "inc": "i0", "patch": "p0"}[wkind]
	opA := C16Op{Kind: wkind, Key: aKey}
	del := rapid.SampledFrom([]string{"delname", "delname", "shiftname"}).Draw(t, "delkind")
	guardSite := c16DelGuardSite
	if del == "shiftname" {
		guardSite = c16ShiftGuard
	}
	var others []C16Op
	for i := rapid.IntRange(1, 3).Draw(t, "nother"); i > 0; i-- {
		others = append(others, C16Op{Kind: "set", Key: (aKey + i) % 4})
	}
	others = append(others, C16Op{Kind: "get", Key: (aKey + 1) % 4}) // its passage releases the writer of A
	sw.Steps = []C16Step{
		{Kind: "lastdel", W: []C16Writer{{Ops: []C16Op{opA}}}}, // creates A: first passage of SaveFunction
		{Kind: "lastdel",
			W: []C16Writer{
				{Ops: []C16Op{opA}}, // writer 0 again = same key; second passage of SaveFunction: held with A's guard
				{After: "site:" + guardSite, DelayUs: rapid.SampledFrom([]int{100, 300, 1000}).Draw(t, "parkus"), Ops: others},
			},
			Ev: []C16Event{{Kind: del, Name: aName, After: "paused"}}},
	}
	if rapid.Bool().Draw(t, "more") {
		sw.Steps = append(sw.Steps, C16Step{Kind: "burst", W: genC16Writers(t, 3, 3, false)})
	}
	plan := append([]vsched.Action{{Site: c16SaveSite, Hit: 2, Kind: "pause", Until: "site:" + c16GetVigilSite, MaxWaitMs: 3000}}, genC16Plan(t, 3, false)...)
	return C16Scenario{Mode: "fast", Free: false, Final: "close", Swamps: []C16Swamp{sw}, Plan: plan}
}

func genC16(mode string, free bool) func(t *rapid.T) C16Scenario {
	return func(t *rapid.T) C16Scenario {
		if mode == "fast" && rapid.IntRange(0, 9).Draw(t, "lastdel") == 0 {
			s := genC16LastDel(t)
			s.Free = free
			return s
		}
		s := C16Scenario{Mode: mode, Free: free, Final: "close"}
		if mode == "slow" {
			n := rapid.IntRange(16, 32).Draw(t, "nswamps")
			for i := 0; i < n; i++ {
				s.Swamps = append(s.Swamps, genC16Swamp(t, free, true))
			}
			s.Final = "restart"
			if rapid.Bool().Draw(t, "markduring") {
				s.MarkAtMs = rapid.SampledFrom([]int{5, 50, 1000, 2000, 3000}).Draw(t, "markat")
			}
			s.Plan = genC16Plan(t, 4, false)
		} else {
			s.Swamps = []C16Swamp{genC16Swamp(t, free, false)}
			if len(s.Swamps[0].Steps) > 0 && s.Swamps[0].Steps[0].Kind == "closeover" {
				// hold every Set right after its summon until the close decision of the first step (later Sets pass: the event is
				// sticky); no other pause actions, so that "n goroutines are held" means "all n requests have summoned the swamp"
				s.Plan = append([]vsched.Action{{Site: c16SetVigilSite, Hit: 0, Kind: "pause", Until: "closeover-go", MaxWaitMs: 400}}, genC16Plan(t, 4, false)...)
			} else {
				s.Plan = genC16Plan(t, 5, true)
			}
			if rapid.Bool().Draw(t, "slowteardown") {
				// keep the teardown in progress for a while so that requests really arrive while the instance is closing
				us := rapid.SampledFrom([]int{500, 2000, 5000}).Draw(t, "teardownus")
				s.Plan = append(s.Plan, vsched.Action{Site: "swamp:Close:atomic.LoadInt32:a437c9", Hit: 0, Kind: "sleep", SleepUs: us},
					vsched.Action{Site: "swamp:Destroy:Lock:aec636", Hit: 0, Kind: "sleep", SleepUs: us})
			}
		}
		return s
	}
}

// ---- witnesses (forced schedules) -----------------------------------------

// a request that summoned the swamp before the teardown decision and begins its vigil afterwards
func genC16WitnessDead(t *rapid.T) C16Scenario {
	kind := rapid.SampledFrom([]string{"close", "delall", "shiftall"}).Draw(t, "teardown")
	sw := C16Swamp{Idle: 600, WI: rapid.IntRange(0, 1).Draw(t, "wi")}
	// a first burst creates the swamp with some records (IncrementInt64/Patch only: the Set site must be hit first by the racing writer)
	sw.Steps = append(sw.Steps, C16Step{Kind: "burst", W: []C16Writer{{Ops: []C16Op{{Kind: "inc"}, {Kind: "patch"}}}}})
	if rapid.Bool().Draw(t, "reopen-first") {
		sw.Steps = append(sw.Steps, C16Step{Kind: "close"})
	}
	sw.Steps = append(sw.Steps, C16Step{Kind: "burst",
		W:  []C16Writer{{Ops: []C16Op{{Kind: "set", Key: rapid.IntRange(0, 3).Draw(t, "key")}}}},
		Ev: []C16Event{{Kind: kind, After: "site:gateway:Set:BeginVigil:3b19eb", Signal: "teardown-done"}}})
	return C16Scenario{Mode: "fast", Free: true, Final: "close", Swamps: []C16Swamp{sw},
		Plan: []vsched.Action{{Site: "gateway:Set:BeginVigil:3b19eb", Hit: 1, Kind: "pause", Until: "teardown-done", MaxWaitMs: 2000}}}
}

// a writer that holds its vigil while the last record is deleted: auto-destroy drains it, then removes the file with the writer's record
func genC16WitnessDrain(t *rapid.T) C16Scenario {
	kind := rapid.SampledFrom([]string{"delall", "shiftall"}).Draw(t, "teardown")
	sw := C16Swamp{Idle: 600, WI: rapid.IntRange(0, 1).Draw(t, "wi")}
	sw.Steps = append(sw.Steps, C16Step{Kind: "burst", W: []C16Writer{{Ops: []C16Op{{Kind: "inc"}, {Kind: "patch"}}}}})
	sw.Steps = append(sw.Steps, C16Step{Kind: "burst",
		W:  []C16Writer{{Ops: []C16Op{{Kind: "set", Key: rapid.IntRange(0, 3).Draw(t, "key")}}}},
		Ev: []C16Event{{Kind: kind, After: "site:gateway:Set:StartTreasureGuard:490611"}}})
	return C16Scenario{Mode: "fast", Free: true, Final: "close", Swamps: []C16Swamp{sw},
		Plan: []vsched.Action{{Site: "gateway:Set:StartTreasureGuard:490611", Hit: 1, Kind: "pause", Until: "site:swamp:Destroy:WaitForActiveVigilsClosed:3a63ba", MaxWaitMs: 2000}}}
}

// the REAL idle listener: it loads the last-interaction time, is delayed before taking its lock, a Set summons the swamp
// (refreshing the interaction time) and is delayed before BeginVigil; the listener closes on the stale value
func genC16WitnessIdle(t *rapid.T) C16Scenario {
	sw := C16Swamp{Idle: 0, WI: rapid.SampledFrom([]int{1, 1, 1, 0}).Draw(t, "wi")}
	// the instance is created at t≈0 (listener ticks at 1 s, 2 s, 3 s) and touched at ≈0.45 s and ≈1.45 s: it is certainly
	// not idle for 1 s at ticks 1 and 2 and certainly is at tick 3
	sw.Steps = append(sw.Steps,
		C16Step{Kind: "burst", W: []C16Writer{{Ops: []C16Op{{Kind: "inc"}, {Kind: "patch"}}}}},
		C16Step{Kind: "gap", Ms: 450},
		C16Step{Kind: "burst", W: []C16Writer{{Ops: []C16Op{{Kind: "get"}}}}},
		C16Step{Kind: "gap", Ms: 1000},
		C16Step{Kind: "burst", W: []C16Writer{{Ops: []C16Op{{Kind: "get"}}}}},
		C16Step{Kind: "burst", W: []C16Writer{{After: "paused", Ops: []C16Op{{Kind: "set", Key: rapid.IntRange(0, 3).Draw(t, "key")}}}}})
	return C16Scenario{Mode: "fast", Free: true, Final: "close", Swamps: []C16Swamp{sw},
		Plan: []vsched.Action{
			// third tick of the listener: it has loaded the stale interaction time and is held before taking its lock
			{Site: "swamp:startCloseListener:Lock:3e9e87", Hit: 3, Kind: "pause", Until: "site:gateway:Set:BeginVigil:3b19eb", MaxWaitMs: 1500},
			{Site: "gateway:Set:BeginVigil:3b19eb", Hit: 1, Kind: "pause", Until: "site:hydra:closeEventCallbackFunction:Delete:d37bbd", MaxWaitMs: 1500},
		}}
}

// a Set obtains the record object, a concurrent Delete of that key marks the object deleted, the Set re-inserts it with the
// mark: this and every LATER write of the key is persisted as a delete
func genC16WitnessMark(t *rapid.T) C16Scenario {
	key := rapid.IntRange(0, 3).Draw(t, "key")
	sw := C16Swamp{Idle: 600, WI: rapid.IntRange(0, 1).Draw(t, "wi")}
	sw.Steps = append(sw.Steps,
		C16Step{Kind: "burst", W: []C16Writer{{Ops: []C16Op{{Kind: "inc"}, {Kind: "set", Key: key}}}}},
		C16Step{Kind: "close"}, // the record is on disk now
		C16Step{Kind: "burst", W: []C16Writer{{Ops: []C16Op{{Kind: "set", Key: key}}}},
			Ev: []C16Event{{Kind: "delkey", Key: key, After: "paused", Signal: "deleted"}}},
		C16Step{Kind: "burst", W: []C16Writer{{Ops: []C16Op{{Kind: "set", Key: key}}}}}) // strictly later write
	return C16Scenario{Mode: "fast", Free: true, Final: "close", Swamps: []C16Swamp{sw},
		Plan: []vsched.Action{{Site: "gateway:Set:StartTreasureGuard:490611", Hit: 2, Kind: "pause", Until: "deleted", MaxWaitMs: 2000}}}
}

// immediate-write mode: every save runs its own fileWriterHandler; a handler that has snapshotted the pending delete
// marker of k but not yet written it is overtaken by the handler of a LATER Set that re-creates k
func genC16WitnessOrder(t *rapid.T) C16Scenario {
	key := rapid.IntRange(0, 3).Draw(t, "key")
	other := (key + 1 + rapid.IntRange(0, 2).Draw(t, "other")) % 4
	sw := C16Swamp{Idle: 600, WI: 0}
	sw.Steps = append(sw.Steps,
		C16Step{Kind: "burst", W: []C16Writer{{Ops: []C16Op{{Kind: "inc"}, {Kind: "set", Key: key}}}}}, // handler passages 1 and 2
		C16Step{Kind: "burst", W: []C16Writer{{Ops: []C16Op{{Kind: "delshared", Key: key}}}}},          // marker queued, nothing written
		C16Step{Kind: "burst", W: []C16Writer{
			{Ops: []C16Op{{Kind: "set", Key: other}}},                                         // its handler (passage 3) snapshots the marker and is held
			{After: "paused", Ops: []C16Op{{Kind: "set", Key: key}, {Kind: "get", Key: key}}}, // re-creates the key, acknowledged, then releases the held handler
		}})
	return C16Scenario{Mode: "fast", Free: true, Final: "close", Swamps: []C16Swamp{sw},
		Plan: []vsched.Action{{Site: "swamp:fileWriterHandler:Delete:8d391f", Hit: 3, Kind: "pause", Until: "site:gateway:Get:BeginVigil:3b19eb", MaxWaitMs: 3000}}}
}

// ---------------------------------------------------------------------------

const c16RuleOpen = "timeline per swamp: 2–4 bursts of 1–5 concurrent writer goroutines × 1–5 requests (Set on 4 shared keys with unique values, Set with past / far-future expiry, IncrementInt64 / PatchTreasures(create) on per-writer keys, " +
	"Delete / ShiftByKeys of single keys, Get) separated by a lifecycle step: Close() as the idle listener issues it, the same while the next burst's requests arrive (all begin after closing=1), " +
	"Destroy RPC (quiet / while requests arrive), delete-all / shift-all / ShiftExpired ⇒ auto-destroy, PARTIAL removals (ShiftExpired that takes only the records with a past expiry while records " +
	"without expiry / with a future expiry remain; Delete / ShiftByKeys of a drawn subset) after which the swamp must still exist with every remaining acknowledged write, a real idle period (slow facet: wait until the real listener evicted the instance); " +
	"write interval {0,1} s, close-after-idle {0,1,600} s (fast) / {0,1} s (slow, 16–32 swamps in parallel per case); 0–5 drawn vsched actions at 28 listener/close/destroy/handler sites; " +
	"final: Close + re-summon (fast) or MarkShuttingDown (possibly while requests are in flight) → drain → StopHydra → fresh rig on the same root (slow), then GetAll. " +
	"While the findings are open no teardown decision overlaps a request that began before it, and a pin record keeps bursts from emptying the swamp. " +
	"Non-trivial = an acknowledged write was followed by a teardown of the instance that held it before the final read"

const c16RuleFree = "as main, plus 0–2 lifecycle events (Close, delete-all, shift-all, Destroy) injected at drawn offsets INSIDE each burst, no pin record, and (slow) idle periods drawn around the " +
	"moment the listener's condition becomes true (close-after-idle + 1 s … + 2.1 s)"

func c16AnyOpen() bool {
	if pbt.Open("C16", c16WOrder) {
		pbt.Excluded("C16", "main", "write interval 0: Delete/ShiftByKeys of single keys inside bursts (open finding "+c16WOrder+")")
	}
	if pbt.Open("C16", c16WMark) {
		pbt.Excluded("C16", "main", "Delete of a key concurrent with a write of the same key (open finding "+c16WMark+")")
	}
	return pbt.Open("C16", c16WDead) || pbt.Open("C16", c16WDrain) || pbt.Open("C16", c16WIdle)
}

// c16CheckSites makes sure the build is instrumented and the site names the forced schedules rely on still exist.
func c16CheckSites(t *testing.T) {
	vsched.Activate(nil, false)
	sw := &c16Sw{e: c16E, name: "c16i600w1/sitecheck/s", idle: 600, wi: 1, classes: map[string]bool{}}
	sw.isl = rig.Island(sw.name)
	sw.set("a", "1", expNone)
	sw.del("a") // last record: auto-destroy
	sw.set("b", "2", expNone)
	sw.injectClose()
	sw.destroy()
	rep := vsched.Deactivate()
	requireSites(t, rep, "gateway:Set:BeginVigil:3b19eb", "gateway:Set:StartTreasureGuard:490611", "gateway:Delete:BeginVigil:3b19eb", "swamp:Close:atomic.LoadInt32:a437c9",
		"swamp:Destroy:WaitForActiveVigilsClosed:3a63ba", "swamp:Destroy:Lock:aec636", "hydra:closeEventCallbackFunction:Delete:d37bbd", "swamp:DeleteTreasure:CeaseVigil:513ed9")
}

func TestC16Main(t *testing.T) {
	open := c16AnyOpen()
	rule := c16RuleOpen
	if open {
		pbt.Excluded("C16", "main", "teardown decisions (idle Close, last-record delete/shift, Destroy) overlapping a request that summoned the swamp before the decision (open findings)")
	} else {
		rule = c16RuleFree
	}
	c16WithRig(func() {
		c16CheckSites(t)
		pbt.Main(t, pbt.Spec[C16Scenario]{
			ID: "C16", Facet: "main", Rule: rule,
			Quick: 6000, Thorough: 48000,
			Gen: genC16("fast", !open), Run: runC16,
		})
	})
}

func TestC16Slow(t *testing.T) {
	open := c16AnyOpen()
	rule := c16RuleOpen
	if open {
		pbt.Excluded("C16", "real-listener", "idle periods that end while the listener's close condition may be turning true (open findings)")
	} else {
		rule = c16RuleFree
	}
	c16WithRig(func() {
		c16CheckSites(t)
		pbt.Main(t, pbt.Spec[C16Scenario]{
			ID: "C16", Facet: "real-listener", Rule: rule,
			Quick: 112, Thorough: 1200,
			Gen: genC16("slow", !open), Run: runC16,
		})
	})
}

func TestC16WitnessDeadInstance(t *testing.T) {
	c16WithRig(func() {
		c16CheckSites(t)
		pbt.Witness(t, pbt.Spec[C16Scenario]{
			ID: "C16", Facet: "witness-" + c16WDead, Rule: "forced schedule: a Set is held between SummonSwamp's return and BeginVigil while Close() (idle decision) / last-record Delete / ShiftByKeys (auto-destroy) completes",
			Quick: 48, Thorough: 400,
			Gen: genC16WitnessDead, Run: runC16,
		}, c16WDead, "lost-write")
	})
}

func TestC16WitnessDrainedInsert(t *testing.T) {
	c16WithRig(func() {
		c16CheckSites(t)
		pbt.Witness(t, pbt.Spec[C16Scenario]{
			ID: "C16", Facet: "witness-" + c16WDrain, Rule: "forced schedule: a Set holds its vigil (held before its record guard) while Delete / ShiftByKeys removes the last record; Destroy drains the vigil, the Set inserts, the file is removed",
			Quick: 48, Thorough: 400,
			Gen: genC16WitnessDrain, Run: runC16,
		}, c16WDrain, "lost-write")
	})
}

func TestC16WitnessDeletionMark(t *testing.T) {
	c16WithRig(func() {
		c16CheckSites(t)
		pbt.Witness(t, pbt.Spec[C16Scenario]{
			ID: "C16", Facet: "witness-" + c16WMark, Rule: "forced schedule: Set{k} is held after CreateTreasure returned the existing record object while Delete{k} completes; a second Set{k} follows strictly later; Close + re-summon",
			Quick: 32, Thorough: 300,
			Gen: genC16WitnessMark, Run: runC16,
		}, c16WMark, "lost-write")
	})
}

func TestC16WitnessWriteOrder(t *testing.T) {
	c16WithRig(func() {
		c16CheckSites(t)
		pbt.Witness(t, pbt.Spec[C16Scenario]{
			ID: "C16", Facet: "witness-" + c16WOrder, Rule: "forced schedule, write interval 0: the fileWriterHandler of a Set on another key is held after it snapshotted the pending delete marker of k; a later Set{k} is written and acknowledged; the held handler then writes the delete",
			Quick: 32, Thorough: 300,
			Gen: genC16WitnessOrder, Run: runC16,
		}, c16WOrder, "lost-write")
	})
}

func TestC16WitnessIdleStale(t *testing.T) {
	c16WithRig(func() {
		c16CheckSites(t)
		pbt.Witness(t, pbt.Spec[C16Scenario]{
			ID: "C16", Facet: "witness-" + c16WIdle, Rule: "forced schedule on the REAL idle listener (close-after-idle 0): held between loading lastInteractionTime and taking its lock while a Set summons the swamp; the Set is held before BeginVigil until the close completed",
			Quick: 6, Thorough: 60,
			Gen: genC16WitnessIdle, Run: runC16,
		}, c16WIdle, "lost-write")
	})
}
