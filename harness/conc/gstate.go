package conc

import (
	"runtime"
	"strings"
)

// goroutinesIn returns how many goroutines currently have a frame whose
// function name contains fn and are in the given wait state ("" = any),
// e.g. goroutinesIn("vigil.(*vigil).WaitForActiveVigilsClosed", "sync.Cond.Wait").
func goroutinesIn(fn, state string) int {
	buf := make([]byte, 1<<20)
	for {
		n := runtime.Stack(buf, true)
		if n < len(buf) {
			buf = buf[:n]
			break
		}
		buf = make([]byte, 2*len(buf))
	}
	c := 0
	for _, g := range strings.Split(string(buf), "\n\n") {
		if !strings.Contains(g, fn) {
			continue
		}
		hdr := g
		if i := strings.Index(g, "\n"); i >= 0 {
			hdr = g[:i]
		}
		if state == "" || strings.Contains(hdr, "["+state) {
			c++
		}
	}
	return c
}
