//go:build verifvsched

package conc

import (
	"fmt"
	"strings"
	"sync"
	"testing"
	"time"

	"github.com/hydraide/hydraide/app/core/hydra/swamp/vigil"
	"github.com/hydraide/hydraide/app/verifshim/vsched"
	"pgregory.net/rapid"

	"verifharness/internal/pbt"
)

// C17 — Lifecycle waits always terminate (vigil level).
//
// Operation goroutines do BeginVigil … CeaseVigil, waiter goroutines call
// WaitForActiveVigilsClosed. A generated perturbation plan delays goroutines
// at the instrumented synchronisation sites of vigil.go. Oracle (deadlock
// witness, not a timeout guess): once every operation goroutine has finished
// (so no further CeaseVigil/Broadcast can ever happen) and the plan has been
// deactivated, every waiter must return; a waiter that is still parked in
// sync.Cond.Wait then can never be woken again.

type C17Scenario struct {
	Ops     []C17Op         `json:"ops"`     // operation goroutines
	Waiters []int           `json:"waiters"` // start delay (µs) of each waiter, after the operations have begun
	Plan    []vsched.Action `json:"plan"`
}

type C17Op struct {
	HoldUs int `json:"hold_us"` // time between Begin and Cease
	Rounds int `json:"rounds"`  // Begin/Cease pairs
}

var vigilSites = []string{
	"vigil:BeginVigil:atomic.AddInt64:b99a82",
	"vigil:CeaseVigil:atomic.AddInt64:102c0e",
	"vigil:CeaseVigil:Broadcast:ba67e6",
	"vigil:HasActiveVigils:atomic.LoadInt64:c1a334",
	"vigil:WaitForActiveVigilsClosed:Lock:576818",
	"vigil:WaitForActiveVigilsClosed:HasActiveVigils:a30590",
	"vigil:WaitForActiveVigilsClosed:Wait:a25f48",
}

func genC17(t *rapid.T) C17Scenario {
	var s C17Scenario
	n := rapid.IntRange(1, 6).Draw(t, "nops")
	for i := 0; i < n; i++ {
		s.Ops = append(s.Ops, C17Op{HoldUs: rapid.SampledFrom([]int{0, 10, 100, 500, 2000}).Draw(t, "hold"), Rounds: rapid.IntRange(1, 3).Draw(t, "rounds")})
	}
	m := rapid.IntRange(1, 3).Draw(t, "nwaiters")
	for i := 0; i < m; i++ {
		s.Waiters = append(s.Waiters, rapid.SampledFrom([]int{0, 5, 50, 300, 1000}).Draw(t, "wdelay"))
	}
	na := rapid.IntRange(0, 4).Draw(t, "nactions")
	for i := 0; i < na; i++ {
		a := vsched.Action{Site: rapid.SampledFrom(vigilSites).Draw(t, "site"), Hit: rapid.IntRange(0, 3).Draw(t, "hit")}
		switch rapid.IntRange(0, 2).Draw(t, "kind") {
		case 0:
			a.Kind = "gosched"
		case 1:
			a.Kind = "sleep"
			a.SleepUs = rapid.SampledFrom([]int{50, 500, 2000, 6000}).Draw(t, "us")
		default:
			a.Kind = "pause"
			a.Until = rapid.SampledFrom([]string{"all-ceased", "site:vigil:CeaseVigil:Broadcast:ba67e6", "site:vigil:CeaseVigil:atomic.AddInt64:102c0e", "site:vigil:WaitForActiveVigilsClosed:Wait:a25f48"}).Draw(t, "until")
			a.MaxWaitMs = rapid.SampledFrom([]int{2, 20, 100}).Draw(t, "maxwait")
		}
		s.Plan = append(s.Plan, a)
	}
	return s
}

func runC17(s C17Scenario) pbt.Outcome {
	v := vigil.New()
	vsched.Activate(s.Plan, false)
	active := true
	defer func() {
		if active {
			vsched.Deactivate()
		}
	}()
	var opsWG sync.WaitGroup
	began := make(chan struct{}, len(s.Ops))
	for _, op := range s.Ops {
		opsWG.Add(1)
		go func(op C17Op) {
			defer opsWG.Done()
			for r := 0; r < op.Rounds; r++ {
				v.BeginVigil()
				if r == 0 {
					began <- struct{}{}
				}
				if op.HoldUs > 0 {
					time.Sleep(time.Duration(op.HoldUs) * time.Microsecond)
				}
				v.CeaseVigil()
			}
		}(op)
	}
	// waiters start once at least one operation has begun
	<-began
	returned := make([]chan struct{}, len(s.Waiters))
	for i, d := range s.Waiters {
		returned[i] = make(chan struct{})
		go func(i, d int) {
			if d > 0 {
				time.Sleep(time.Duration(d) * time.Microsecond)
			}
			v.WaitForActiveVigilsClosed()
			close(returned[i])
		}(i, d)
	}
	opsWG.Wait()
	vsched.Signal("all-ceased")
	rep := vsched.Deactivate()
	active = false
	if v.HasActiveVigils() {
		return pbt.Failf("count", "all operations finished but HasActiveVigils() is still true")
	}
	// From here on nobody will ever broadcast again. Every waiter must come back.
	deadline := time.Now().Add(20 * time.Second)
	for i := range returned {
		select {
		case <-returned[i]:
			continue
		case <-time.After(300 * time.Millisecond):
		}
		// not back yet: is it provably parked?
		for {
			select {
			case <-returned[i]:
				goto next
			default:
			}
			parked := goroutinesIn("vigil.(*vigil).WaitForActiveVigilsClosed", "sync.Cond.Wait")
			if parked > 0 {
				time.Sleep(200 * time.Millisecond)
				select {
				case <-returned[i]:
					goto next
				default:
				}
				if goroutinesIn("vigil.(*vigil).WaitForActiveVigilsClosed", "sync.Cond.Wait") > 0 {
					// release the parked goroutine so it does not leak into later cases
					v.BeginVigil()
					v.CeaseVigil()
					return pbt.Failf("lost-wakeup", "waiter %d is parked in sync.Cond.Wait although all %d operations have ceased and the vigil count is 0: nobody can ever wake it (plan fired: %v)", i, len(s.Ops), rep.Fired)
				}
			}
			if time.Now().After(deadline) {
				return pbt.Outcome{Skip: true}
			}
			time.Sleep(10 * time.Millisecond)
		}
	next:
	}
	nt := false
	for _, f := range rep.Fired {
		if strings.HasPrefix(f, "vigil:WaitForActiveVigilsClosed:Wait:a25f48#") {
			nt = true
		}
	}
	out := pbt.Outcome{NonTrivial: nt || len(rep.Fired) > 0}
	if nt {
		out.Classes = append(out.Classes, "waiter-delayed-between-check-and-wait")
	}
	if rep.Hits["vigil:WaitForActiveVigilsClosed:Wait:a25f48"] > 0 {
		out.Classes = append(out.Classes, "waiter-had-to-wait")
	}
	return out
}

const c17Rule = "1–6 operation goroutines (BeginVigil…hold…CeaseVigil, 1–3 rounds) and 1–3 waiters on a real vigil, with 0–4 drawn perturbation actions " +
	"(gosched / sleep 50µs–6ms / pause-until-event with bounded wait) at the 7 instrumented synchronisation sites of vigil.go; oracle: after all operations ended and " +
	"the plan was released every waiter returns — a waiter still parked in sync.Cond.Wait is a lost wake-up; non-trivial = at least one perturbation fired"

func TestC17Main(t *testing.T) {
	pbt.Main(t, pbt.Spec[C17Scenario]{
		ID: "C17", Facet: "vigil", Rule: c17Rule,
		Quick: 2400, Thorough: 120000,
		Gen: genC17, Run: runC17,
	})
}

var _ = fmt.Sprintf
