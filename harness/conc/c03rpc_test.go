package conc

import (
	"context"
	"fmt"
	"sync/atomic"
	"testing"

	hydrapb "github.com/hydraide/hydraide/sdk/go/hydraidego/v3/hydraidepbgo"
	"google.golang.org/protobuf/proto"
	"pgregory.net/rapid"

	"verifharness/internal/pbt"
	"verifharness/internal/rig"
)

// C03 (RPC facet) — the CompactSwamp RPC and compaction triggered by ordinary
// API traffic (inline on write / on close / load self-heal) leave the contents
// a client sees unchanged.

type C03RPCScenario struct {
	NKeys    int      `json:"nkeys"`
	Writes   []C03W   `json:"writes"`
	Compact  []int    `json:"compact_after"` // CompactSwamp RPC after these write indexes
	Close    []int    `json:"close_after"`   // close + re-summon after these write indexes
	ZeroIntv bool     `json:"immediate_write"`
}

type C03W struct {
	Key int    `json:"k"`
	Del bool   `json:"del,omitempty"`
	Val string `json:"v"`
}

func genC03RPC(t *rapid.T) C03RPCScenario {
	var s C03RPCScenario
	s.NKeys = rapid.IntRange(1, 8).Draw(t, "nkeys")
	n := rapid.IntRange(110, 400).Draw(t, "n")
	for i := 0; i < n; i++ {
		w := C03W{Key: rapid.IntRange(0, s.NKeys-1).Draw(t, "k")}
		if rapid.IntRange(0, 5).Draw(t, "del") == 0 {
			w.Del = true
		} else {
			w.Val = fmt.Sprintf("v%d-%s", i, rapid.StringMatching(`[a-z]{0,12}`).Draw(t, "v"))
		}
		s.Writes = append(s.Writes, w)
	}
	s.Compact = rapid.SliceOfN(rapid.IntRange(0, n-1), 0, 3).Draw(t, "compact")
	s.Close = rapid.SliceOfN(rapid.IntRange(0, n-1), 1, 6).Draw(t, "close")
	s.ZeroIntv = rapid.Bool().Draw(t, "zero")
	return s
}

var c03rpcRig *rig.Rig
var c03rpcCase int64

func runC03RPC(s C03RPCScenario) pbt.Outcome {
	r := c03rpcRig
	ctx := context.Background()
	id := atomic.AddInt64(&c03rpcCase, 1)
	realm := "p1"
	if s.ZeroIntv {
		realm = "p0"
	}
	sn := fmt.Sprintf("c03rpc/%s/s%d", realm, id)
	isl := rig.Island(sn)
	model := map[string]string{}
	inSet := func(xs []int, i int) bool {
		for _, x := range xs {
			if x == i {
				return true
			}
		}
		return false
	}
	readAll := func() (map[string]string, error) {
		resp, err := r.G.GetAll(ctx, &hydrapb.GetAllRequest{IslandID: isl, SwampName: sn})
		if err != nil {
			return nil, err
		}
		m := map[string]string{}
		for _, t := range resp.GetTreasures() {
			m[t.GetKey()] = t.GetStringVal()
		}
		return m, nil
	}
	same := func(a, b map[string]string) bool {
		if len(a) != len(b) {
			return false
		}
		for k, v := range a {
			if w, ok := b[k]; !ok || w != v {
				return false
			}
		}
		return true
	}
	compactions := 0
	// Open finding C05/deleted-recreated-deleted-key-resurrects: a persisted key that is deleted, re-created and
	// deleted again within one write interval comes back after a reload. While it is open this facet reloads the
	// swamp before re-creating a key that was deleted since the last reload (the pattern is C05's, not compaction's).
	avoidResurrect := pbt.Open("C05", "deleted-recreated-deleted-key-resurrects")
	deletedSinceReload := map[string]bool{}
	for i, w := range s.Writes {
		key := fmt.Sprintf("k%d", w.Key)
		if !w.Del && avoidResurrect && deletedSinceReload[key] {
			r.CloseSwamp(sn)
			deletedSinceReload = map[string]bool{}
		}
		if w.Del {
			deletedSinceReload[key] = true
			if _, ok := model[key]; ok && len(model) == 1 {
				// deleting the last record auto-destroys the swamp; keep the swamp alive (C16's topic)
				continue
			}
			_, err := r.G.Delete(ctx, &hydrapb.DeleteRequest{Swamps: []*hydrapb.DeleteRequest_SwampKeys{{IslandID: isl, SwampName: sn, Keys: []string{key}}}})
			if err != nil && len(model) > 0 {
				return pbt.Failf("rpc-error", "Delete: %v", err)
			}
			delete(model, key)
		} else {
			v := w.Val
			_, err := r.G.Set(ctx, &hydrapb.SetRequest{Swamps: []*hydrapb.SwampRequest{{IslandID: isl, SwampName: sn, CreateIfNotExist: true, Overwrite: true,
				KeyValues: []*hydrapb.KeyValuePair{{Key: key, StringVal: proto.String(v)}}}}})
			if err != nil {
				return pbt.Failf("rpc-error", "Set: %v", err)
			}
			model[key] = v
		}
		if len(model) == 0 {
			continue
		}
		if inSet(s.Compact, i) {
			before, err := readAll()
			if err != nil {
				return pbt.Failf("rpc-error", "GetAll: %v", err)
			}
			if _, err := r.G.CompactSwamp(ctx, &hydrapb.CompactSwampRequest{IslandID: isl, SwampName: sn}); err != nil {
				return pbt.Failf("rpc-error", "CompactSwamp after write %d: %v", i, err)
			}
			compactions++
			after, err := readAll()
			if err != nil {
				return pbt.Failf("rpc-error", "GetAll: %v", err)
			}
			if !same(before, after) || !same(after, model) {
				return pbt.Failf("mismatch", "CompactSwamp RPC after write %d changed the visible contents: before %d keys, after %d, model %d", i, len(before), len(after), len(model))
			}
			// and it must survive a reload
			deletedSinceReload = map[string]bool{}
			r.CloseSwamp(sn)
			again, err := readAll()
			if err != nil || !same(again, model) {
				return pbt.Failf("mismatch", "after CompactSwamp RPC + reload: %d keys, model %d (err %v)", len(again), len(model), err)
			}
		}
		if inSet(s.Close, i) {
			deletedSinceReload = map[string]bool{}
			r.CloseSwamp(sn) // close may compact; the re-summon may self-heal
			got, err := readAll()
			if err != nil {
				return pbt.Failf("rpc-error", "GetAll after reload: %v", err)
			}
			if !same(got, model) {
				return pbt.Failf("mismatch", "after close+reload at write %d: %d keys, model %d", i, len(got), len(model))
			}
		}
	}
	r.CloseSwamp(sn)
	got, err := readAll()
	if len(model) > 0 && (err != nil || !same(got, model)) {
		return pbt.Failf("mismatch", "final reload: %d keys, model %d (err %v)", len(got), len(model), err)
	}
	r.G.Destroy(ctx, &hydrapb.DestroyRequest{IslandID: isl, SwampName: sn})
	return pbt.Outcome{NonTrivial: compactions > 0 || len(s.Close) > 1, Classes: []string{fmt.Sprintf("rpc-compactions:%d", compactions)}}
}

func TestC03RPC(t *testing.T) {
	if pbt.Open("C05", "deleted-recreated-deleted-key-resurrects") {
		pbt.Excluded("C03", "rpc", "re-creating a key deleted since the last reload without reloading first (open finding C05/deleted-recreated-deleted-key-resurrects)")
	}
	c03rpcRig = rig.New(rig.Options{Patterns: []rig.Pattern{
		{Pattern: "c03rpc/p1/*", CloseAfterIdleSec: 600, WriteIntervalSec: 1},
		{Pattern: "c03rpc/p0/*", CloseAfterIdleSec: 600, WriteIntervalSec: 0},
	}})
	defer c03rpcRig.Cleanup()
	pbt.Main(t, pbt.Spec[C03RPCScenario]{
		ID: "C03", Facet: "rpc",
		Rule: "110..400 Set/Delete requests over ≤ 8 keys through the in-process gateway (write interval 1 s and immediate-write), with CompactSwamp RPCs and close+re-summon at drawn points " +
			"(inline, on-close and load self-heal compaction run as the engine decides); GetAll before == after each CompactSwamp and == map model after every reload; non-trivial = ≥1 CompactSwamp RPC or ≥2 reloads",
		Quick: 150, Thorough: 4000,
		Gen: genC03RPC, Run: runC03RPC,
	})
}
