package codec

import (
	"bufio"
	"fmt"
	"os"
	"os/exec"
	"path/filepath"
	"regexp"
	"strconv"
	"strings"
	"testing"

	"verifharness/internal/pbt"
)

var fuzzExecsRe = regexp.MustCompile(`execs: (\d+)`)

func fuzzScratch() string {
	base := "/dev/shm"
	if _, err := os.Stat(base); err != nil {
		base = os.TempDir()
	}
	d, err := os.MkdirTemp(base, "verif-codec-")
	if err != nil {
		panic(err)
	}
	return d
}

// nativeFuzz runs the native fuzz target `target` of this test binary in a child
// process for a bounded time (thorough tier, shard 0 only; the caller checks
// that) and reports a crasher through the pbt runner. reproduce re-runs a saved
// crasher in-process and returns the outcome plus the scenario to save.
func nativeFuzz(t *testing.T, id, facet, target string, maxSecs int, reproduce func(args [][]byte) (pbt.Outcome, any)) {
	e := pbt.GetEnv()
	bin := os.Getenv("VERIF_BIN")
	if bin == "" {
		bin = os.Args[0]
	}
	if p, err := filepath.Abs(bin); err == nil {
		bin = p
	}
	secs := int(float64(maxSecs) * e.Scale)
	if secs < 10 {
		secs = 10
	}
	if secs > maxSecs {
		secs = maxSecs
	}
	dir := fuzzScratch()
	defer os.RemoveAll(dir)
	cmd := exec.Command(bin, "-test.run=^$", "-test.fuzz=^"+target+"$", fmt.Sprintf("-test.fuzztime=%ds", secs),
		"-test.fuzzcachedir="+filepath.Join(dir, "cache"), "-test.parallel=8", fmt.Sprintf("-test.timeout=%ds", secs+300))
	cmd.Dir = dir
	cmd.Env = append(os.Environ(), "VERIF_STATS_OUT=", "VERIF_REPLAY=")
	out, err := cmd.CombinedOutput()
	execs := 0
	for _, m := range fuzzExecsRe.FindAllSubmatch(out, -1) {
		if n, _ := strconv.Atoi(string(m[1])); n > execs {
			execs = n
		}
	}
	pbt.Extra(id, "native_fuzz_execs", execs)
	pbt.Extra(id, "native_fuzz_seconds", secs)
	pbt.RecordCase(id, "native-fuzz", "go native fuzzing of "+target+" for a bounded time (evaluations counted in extra.native_fuzz_execs); same oracle as facet "+facet,
		fmt.Sprintf("fuzz-%d", execs), execs > 0, map[string]any{"execs": execs, "seconds": secs}, "native-fuzz-run")
	if err == nil {
		return
	}
	files, _ := filepath.Glob(filepath.Join(dir, "testdata", "fuzz", target, "*"))
	tail := string(out)
	if len(tail) > 1500 {
		tail = tail[len(tail)-1500:]
	}
	if len(files) == 0 {
		// the fuzz child failed without leaving an input (killed, out of time, worker crash under load):
		// nothing can be replayed, so this is inconclusive for the campaign, never a violation
		pbt.Counter(id, "native_fuzz_child_failed_without_input", 1)
		pbt.Note(id, "native fuzzing child failed without a saved input (inconclusive): %s", tail)
		return
	}
	for _, fp := range files {
		args, perr := parseGoFuzzCorpus(fp)
		if perr != nil {
			continue
		}
		// the saved input is the reproducible unit: it only counts if it fails again in-process
		o, scen := reproduce(args)
		if o.Fail == "" {
			o, scen = reproduce(args)
		}
		if o.Fail == "" {
			pbt.Counter(id, "native_fuzz_failure_not_reproduced", 1)
			pbt.Note(id, "native fuzzing reported a failure that did not reproduce in-process (ignored): %s", tail)
			continue
		}
		rp := pbt.WriteReplayJSON(id, facet, scen)
		pbt.ReportViolation(id, facet, rp, o.Shape, o.Fail)
		t.Errorf("native fuzzing found a failing input (%s): %s", rp, o.Fail)
		return
	}
}

// parseGoFuzzCorpus reads a "go test fuzz v1" corpus file and returns its
// []byte arguments in order.
func parseGoFuzzCorpus(path string) ([][]byte, error) {
	f, err := os.Open(path)
	if err != nil {
		return nil, err
	}
	defer f.Close()
	sc := bufio.NewScanner(f)
	sc.Buffer(make([]byte, 1<<20), 64<<20)
	var out [][]byte
	for sc.Scan() {
		ln := strings.TrimSpace(sc.Text())
		if strings.HasPrefix(ln, "[]byte(") && strings.HasSuffix(ln, ")") {
			s, err := strconv.Unquote(ln[len("[]byte(") : len(ln)-1])
			if err != nil {
				return nil, err
			}
			out = append(out, []byte(s))
		}
	}
	if len(out) == 0 {
		return nil, fmt.Errorf("no []byte value in %s", path)
	}
	return out, nil
}
