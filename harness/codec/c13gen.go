package codec

import (
	"bytes"
	"fmt"
	"math"
	"strings"

	"pgregory.net/rapid"
)

// Byte-level generators for C13: msgpack map bodies reaching every leaf code,
// op lists whose paths are derived from the generated body, values, conditions.
// NB rapid's integer generators are biased towards small values, so the common
// classes come first in every switch.

type c13Cfg struct {
	malformedValues  bool // non-empty op values that are not exactly one msgpack value
	nanCompare       bool // comparator conditions with a NaN target or threshold
	containerRemoveV bool // REMOVE_VAL whose value is a container
	forceMalformed   bool
	forceNaN         bool
	forceContainerRV bool
	maxOps           int
}

var c13KeyPool = []string{"a", "b", "c", "n", "x", "id", "tags", "meta", "Count", "v_1", "k2", "items", "f", "u8", "ts", "list", "m"}
var c13WeirdKeys = []string{"", "a.b", "a[0]", "#len", "sp ace", "é", "a]b", "x-y", "[", "*", "#", "k[]"}
var c13FreshNames = []string{"zz", "new1", "q", "fresh_k", "Z9", "a", "n"}
var c13BadPaths = []string{"", ".", "a..b", ".a", "a.", "[0]", "a[", "a[x]", "a[*]", "a]b", "a[0]b", "#len", "a.#len", "a[0", "a[1.5]", "a[-]", "a[ 1]", "a[0][", "a.[0]", "a[]]", "tags[*].x", "a[0x1]"}
var c13UnspecPaths = []string{"x-y", "sp ace", "é", "a[+1]", "a[12345678901]", "tags[+0]", "a.b-c", "a#b"}

func genKey(t *rapid.T, used map[string]bool) string {
	var k string
	c := rapid.IntRange(0, 15).Draw(t, "keyclass")
	switch {
	case c <= 10:
		k = rapid.SampledFrom(c13KeyPool).Draw(t, "poolkey")
	case c <= 12:
		k = rapid.StringMatching(`[A-Za-z_][A-Za-z0-9_]{0,9}`).Draw(t, "identkey")
	case c == 13:
		k = rapid.SampledFrom(c13WeirdKeys).Draw(t, "weirdkey")
	case c == 14:
		k = "L" + strings.Repeat("k", rapid.SampledFrom([]int{31, 32, 40, 255}).Draw(t, "longkey"))
	default:
		k = "H" + strings.Repeat("h", rapid.SampledFrom([]int{255, 256, 300}).Draw(t, "hugekey"))
	}
	for i := 0; used[k]; i++ {
		k = fmt.Sprintf("%s%d", k, i)
	}
	used[k] = true
	return k
}

func headerForm(t *rapid.T, label string) int {
	// 0 minimal (most of the time), 1/2 wider than necessary
	c := rapid.IntRange(0, 11).Draw(t, label)
	switch {
	case c <= 9:
		return 0
	case c == 10:
		return 1
	}
	return 2
}

func genIntBits(t *rapid.T, bits int, signed bool) uint64 {
	var v uint64
	switch rapid.IntRange(0, 7).Draw(t, "intclass") {
	case 0, 1, 2:
		v = uint64(rapid.IntRange(0, 100).Draw(t, "smallint"))
	case 3:
		v = uint64(int64(rapid.IntRange(-100, -1).Draw(t, "negint")))
	case 4:
		v = (uint64(1) << (bits - 1)) - 1 // max signed
	case 5:
		v = uint64(1) << (bits - 1) // min signed / mid unsigned
	case 6:
		v = ^uint64(0) // -1 / max unsigned
	default:
		v = rapid.Uint64().Draw(t, "anyint")
	}
	_ = signed
	if bits < 64 {
		v &= (uint64(1) << bits) - 1
	}
	return v
}

var c13Floats = []float64{0, 1.5, -2.25, 1e10, 0.1, math.Copysign(0, -1), math.Inf(1), math.Inf(-1), math.NaN(), math.MaxFloat64, math.SmallestNonzeroFloat64, 3.4e38, 16777217, -1}

func genFloatLeaf(t *rapid.T, nan bool) []byte {
	f := rapid.SampledFrom(c13Floats).Draw(t, "float")
	if rapid.IntRange(0, 5).Draw(t, "anyfloat") == 5 {
		f = math.Float64frombits(rapid.Uint64().Draw(t, "floatbits"))
	}
	if !nan && math.IsNaN(f) {
		f = 7.5
	}
	if rapid.IntRange(0, 2).Draw(t, "f32") == 2 {
		return encF32(float32(f))
	}
	return encF64(f)
}

// genLeaf emits one leaf; every leaf code of the spec is reachable.
func genLeaf(t *rapid.T) []byte {
	c := rapid.IntRange(0, 37).Draw(t, "leafclass")
	switch c {
	case 0, 1:
		return encSized(0xd2, genIntBits(t, 32, true)) // int32
	case 2:
		return encSized(0xd0, genIntBits(t, 8, true))
	case 3:
		return encSized(0xd3, genIntBits(t, 64, true))
	case 4:
		return encSized(0xcc, genIntBits(t, 8, false))
	case 5:
		return encSized(0xce, genIntBits(t, 32, false))
	case 6, 7:
		return encStrForm(rapid.StringMatching(`[a-z0-9 ]{0,12}`).Draw(t, "str"), 0)
	case 8, 9:
		return genFloatLeaf(t, true)
	case 10:
		return []byte{0xc3}
	case 11:
		return []byte{0xc2}
	case 12:
		return []byte{byte(rapid.IntRange(0, 0x7f).Draw(t, "posfix"))}
	case 13:
		return []byte{byte(rapid.IntRange(0xe0, 0xff).Draw(t, "negfix"))}
	case 14:
		return encSized(0xd1, genIntBits(t, 16, true))
	case 15:
		return encSized(0xcd, genIntBits(t, 16, false))
	case 16:
		return encSized(0xcf, genIntBits(t, 64, false))
	case 17:
		return []byte{0xc0}
	case 18: // timestamp 32 (fixext4, type -1)
		return append([]byte{0xd6, 0xff}, rapid.SliceOfN(rapid.Byte(), 4, 4).Draw(t, "ts32")...)
	case 19: // timestamp 64
		return append([]byte{0xd7, 0xff}, rapid.SliceOfN(rapid.Byte(), 8, 8).Draw(t, "ts64")...)
	case 20: // timestamp 96 (ext8, 12 bytes, type -1): the canonical time.Time form of the Go encoder
		return append([]byte{0xc7, 12, 0xff}, rapid.SliceOfN(rapid.Byte(), 12, 12).Draw(t, "ts96")...)
	case 21:
		return encBinForm(rapid.SliceOfN(rapid.Byte(), 0, 10).Draw(t, "bin"), 0)
	case 22: // str8 (also non-minimal)
		n := rapid.SampledFrom([]int{0, 5, 31, 32, 33, 255}).Draw(t, "str8len")
		return encStrForm(strings.Repeat("s", n), 1)
	case 23: // str16
		n := rapid.SampledFrom([]int{3, 255, 256, 700}).Draw(t, "str16len")
		return encStrForm(strings.Repeat("S", n), 2)
	case 24: // bin16
		return encBinForm(bytes.Repeat([]byte{0xb1}, rapid.SampledFrom([]int{0, 4, 256, 300}).Draw(t, "bin16len")), 1)
	case 25: // fixext 1/2/4/8/16 with arbitrary type
		code := rapid.SampledFrom([]byte{0xd4, 0xd5, 0xd6, 0xd7, 0xd8}).Draw(t, "fixext")
		n := 1 << (code - 0xd4)
		return append([]byte{code, rapid.Byte().Draw(t, "exttype")}, rapid.SliceOfN(rapid.Byte(), n, n).Draw(t, "fixextdata")...)
	case 26: // ext8 arbitrary (also length 0)
		p := rapid.SliceOfN(rapid.Byte(), 0, 9).Draw(t, "ext8data")
		return append([]byte{0xc7, byte(len(p)), rapid.Byte().Draw(t, "exttype")}, p...)
	case 27: // ext16
		p := bytes.Repeat([]byte{0xee}, rapid.SampledFrom([]int{0, 3, 256}).Draw(t, "ext16len"))
		return append([]byte{0xc8, byte(len(p) >> 8), byte(len(p)), rapid.Byte().Draw(t, "exttype")}, p...)
	case 28: // str with arbitrary bytes (not necessarily UTF-8)
		return encStrForm(string(rapid.SliceOfN(rapid.Byte(), 0, 8).Draw(t, "rawstr")), 0)
	case 29: // str32 / bin32 / ext32 with short payloads
		switch rapid.IntRange(0, 2).Draw(t, "w32") {
		case 0:
			return encStrForm("w32", 3)
		case 1:
			return encBinForm([]byte{1, 2}, 2)
		}
		return []byte{0xc9, 0, 0, 0, 2, 7, 0xaa, 0xbb}
	case 30, 31:
		return encSized(0xd2, uint64(uint32(int32(rapid.IntRange(-5, 5).Draw(t, "tinyint32")))))
	case 32:
		return encSized(0xd0, uint64(uint8(int8(rapid.IntRange(-3, 3).Draw(t, "tinyint8")))))
	case 33:
		return encSized(0xcd, uint64(rapid.IntRange(0, 9).Draw(t, "tinyu16")))
	case 34:
		return encF64(float64(rapid.IntRange(-4, 4).Draw(t, "tinyf64")) / 2)
	case 35:
		return encF32(float32(rapid.IntRange(-4, 4).Draw(t, "tinyf32")) / 4)
	case 36:
		return encStrForm(rapid.SampledFrom([]string{"", "alice", "bob", "x"}).Draw(t, "name"), 0)
	default:
		return encSized(0xcf, uint64(rapid.IntRange(0, 3).Draw(t, "tinyu64")))
	}
}

// genValue emits one well-formed value (leaf or container) of nesting ≤ depthLeft.
func genValue(t *rapid.T, depthLeft int) []byte {
	if depthLeft > 0 {
		switch rapid.IntRange(0, 9).Draw(t, "vclass") {
		case 6, 7:
			return genMap(t, depthLeft-1, rapid.IntRange(0, 4).Draw(t, "mapn"))
		case 8, 9:
			return genArray(t, depthLeft-1, rapid.IntRange(0, 4).Draw(t, "arrn"))
		}
	}
	return genLeaf(t)
}

func genMap(t *rapid.T, depthLeft, n int) []byte {
	used := map[string]bool{}
	out := encMapHeader(n, headerForm(t, "maphdr"))
	for i := 0; i < n; i++ {
		k := genKey(t, used)
		out = append(out, encStrForm(k, headerForm(t, "keyform"))...)
		out = append(out, genValue(t, depthLeft)...)
	}
	return out
}

func genArray(t *rapid.T, depthLeft, n int) []byte {
	out := encArrayHeader(n, headerForm(t, "arrhdr"))
	homog := rapid.IntRange(0, 2).Draw(t, "homog") == 0
	var first []byte
	for i := 0; i < n; i++ {
		var v []byte
		if homog && first != nil && rapid.IntRange(0, 2).Draw(t, "dupitem") == 0 {
			v = first // duplicates make "first match" observable
		} else {
			v = genValue(t, depthLeft)
		}
		if first == nil {
			first = v
		}
		out = append(out, v...)
	}
	return out
}

func genBody(t *rapid.T) []byte {
	n := 0
	c := rapid.IntRange(0, 19).Draw(t, "bodysize")
	switch {
	case c <= 15:
		n = rapid.IntRange(1, 7).Draw(t, "bodyn")
	case c <= 17:
		n = rapid.SampledFrom([]int{15, 16, 14, 17}).Draw(t, "bodyn16") // fixmap/map16 boundary
	case c == 18:
		n = 0
	default:
		n = rapid.IntRange(8, 13).Draw(t, "bodynmid")
	}
	depth := 3 // body map + 3 further levels = depth 4
	if n >= 8 {
		depth = 1
	}
	return genMap(t, depth, n)
}

// ---------------------------------------------------------------------------
// paths derived from the body

type pathInfo struct {
	path string
	node *Node
}

func collectPaths(n *Node, prefix string, out *[]pathInfo) {
	switch n.Kind {
	case nkMap:
		for _, e := range n.Entries {
			if !e.KeyStr || !isIdent(e.Key) {
				continue
			}
			p := e.Key
			if prefix != "" {
				p = prefix + "." + e.Key
			}
			*out = append(*out, pathInfo{p, e.Val})
			collectPaths(e.Val, p, out)
		}
	case nkArray:
		for i, it := range n.Items {
			p := fmt.Sprintf("%s[%d]", prefix, i)
			*out = append(*out, pathInfo{p, it})
			collectPaths(it, p, out)
		}
	}
}

type bodyView struct {
	root   *Node
	all    []pathInfo
	leaves []pathInfo
	nums   []pathInfo
	maps   []pathInfo // excludes the root (path "")
	arrays []pathInfo
}

func viewOf(body []byte) bodyView {
	var v bodyView
	root, err := mpParseOne(body)
	if err != nil {
		return v
	}
	v.root = root
	collectPaths(root, "", &v.all)
	for _, p := range v.all {
		switch p.node.Kind {
		case nkMap:
			v.maps = append(v.maps, p)
		case nkArray:
			v.arrays = append(v.arrays, p)
		default:
			v.leaves = append(v.leaves, p)
			if mpNumClass(p.node.Raw[0]) != ncNone {
				v.nums = append(v.nums, p)
			}
		}
	}
	return v
}

func pick(t *rapid.T, list []pathInfo, label string) (pathInfo, bool) {
	if len(list) == 0 {
		return pathInfo{}, false
	}
	return list[rapid.IntRange(0, len(list)-1).Draw(t, label)], true
}

func join(prefix, name string) string {
	if prefix == "" {
		return name
	}
	return prefix + "." + name
}

// mapPrefix picks an existing map (possibly the root, prefix "").
func mapPrefix(t *rapid.T, v bodyView) string {
	if len(v.maps) > 0 && rapid.IntRange(0, 2).Draw(t, "nestedmap") != 0 {
		p, _ := pick(t, v.maps, "mapidx")
		return p.path
	}
	return ""
}

// genPath draws a path. pref ∈ any|leaf|num|map|array.
func genPath(t *rapid.T, v bodyView, pref string) string {
	existing := func() string {
		var list []pathInfo
		switch pref {
		case "leaf":
			list = v.leaves
		case "num":
			list = v.nums
		case "map":
			list = v.maps
		case "array":
			list = v.arrays
		}
		if len(list) == 0 {
			list = v.all
		}
		if p, ok := pick(t, list, "existing"); ok {
			return p.path
		}
		return rapid.SampledFrom(c13FreshNames).Draw(t, "fresh0")
	}
	fresh := func(label string) string { return rapid.SampledFrom(c13FreshNames).Draw(t, label) }
	c := rapid.IntRange(0, 39).Draw(t, "pathclass") - 12
	if c < 0 {
		c = 0
	}
	switch {
	case c <= 11:
		return existing()
	case c <= 14: // missing final under an existing map
		return join(mapPrefix(t, v), fresh("fresh1"))
	case c == 15: // missing intermediate(s)
		p := join(mapPrefix(t, v), fresh("fresh2")+"_i")
		for i := rapid.IntRange(1, 2).Draw(t, "extra"); i > 0; i-- {
			p += "." + fresh("fresh3")
		}
		return p
	case c == 16 || c == 17: // array index variants
		a, ok := pick(t, v.arrays, "arr")
		if !ok {
			return existing() + "[0]"
		}
		n := len(a.node.Items)
		idx := rapid.SampledFrom([]int{0, n - 1, n, n + 3, -1, -n, -n - 1, 1}).Draw(t, "idx")
		return fmt.Sprintf("%s[%d]", a.path, idx)
	case c == 18 || c == 19: // append marker on array / missing / map / leaf
		switch rapid.IntRange(0, 5).Draw(t, "appendon") {
		case 0, 1, 2:
			if a, ok := pick(t, v.arrays, "arr"); ok {
				return a.path + "[]"
			}
			return join(mapPrefix(t, v), fresh("fresh4")) + "[]"
		case 3:
			return join(mapPrefix(t, v), fresh("fresh4")) + "[]"
		case 4:
			return join(mapPrefix(t, v), fresh("fresh4")+"_i."+fresh("fresh5")) + "[]"
		}
		return existing() + "[]"
	case c == 20: // through a leaf
		if l, ok := pick(t, v.leaves, "leaf"); ok {
			return l.path + rapid.SampledFrom([]string{".x", "[0]", ".a.b", "[]"}).Draw(t, "thru")
		}
		return existing() + ".x"
	case c == 21: // field on array / index on map
		if rapid.Bool().Draw(t, "fieldonarr") {
			if a, ok := pick(t, v.arrays, "arr"); ok {
				return a.path + ".x"
			}
		}
		if m, ok := pick(t, v.maps, "map"); ok {
			return m.path + rapid.SampledFrom([]string{"[0]", "[-1]", "[0].a"}).Draw(t, "idxonmap")
		}
		return existing() + "[0]"
	case c == 22: // non-final []
		if a, ok := pick(t, v.arrays, "arr"); ok {
			return a.path + rapid.SampledFrom([]string{"[].x", "[][0]", "[][]"}).Draw(t, "nonfinal")
		}
		return fresh("fresh6") + "[].y"
	case c == 23: // missing with index segments
		return join(mapPrefix(t, v), fresh("fresh7")+"_i") + rapid.SampledFrom([]string{"[0]", "[0].x", "[].y", ".k[0]", "[-1]"}).Draw(t, "missidx")
	case c == 24 || c == 25:
		return rapid.SampledFrom(c13BadPaths).Draw(t, "badpath")
	case c == 26:
		return rapid.SampledFrom(c13UnspecPaths).Draw(t, "unspecpath")
	default: // deep element of a nested array: "a[0][1]" arises naturally from existing(); here: any existing node
		if p, ok := pick(t, v.all, "anynode"); ok {
			return p.path
		}
		return fresh("fresh8")
	}
}

// ---------------------------------------------------------------------------
// values

func malformedValue(t *rapid.T, cfg c13Cfg) []byte {
	base := genValue(t, 1)
	k := rapid.IntRange(0, 4).Draw(t, "malkind")
	switch k {
	case 0, 1: // truncated
		if len(base) >= 2 {
			cut := base[:rapid.IntRange(1, len(base)-1).Draw(t, "cut")]
			if _, err := mpParseOne(cut); err != nil {
				return cut
			}
		}
		return []byte{0xd2, 0x00} // int32 cut short
	case 2: // trailing garbage
		return append(append([]byte{}, base...), rapid.SliceOfN(rapid.Byte(), 1, 3).Draw(t, "trail")...)
	case 3: // two values
		return append(append([]byte{}, base...), genLeaf(t)...)
	default:
		return []byte{0xc1} // reserved code
	}
}

func neighbourNumeric(t *rapid.T, raw []byte, small bool) []byte {
	c := raw[0]
	d := rapid.IntRange(-3, 3).Draw(t, "delta")
	switch mpNumClass(c) {
	case ncPosFix:
		v := int(c) + d
		if v < 0 || v > 0x7f {
			v = 1
		}
		return []byte{byte(v)}
	case ncNegFix:
		v := int(int8(c)) + d
		if v < -32 || v > -1 {
			v = -1
		}
		return []byte{byte(int8(v))}
	case ncInt:
		s, _ := mpInt(raw)
		if small {
			s = 0
		}
		return encSized(c, uint64(s+int64(d)))
	case ncUint:
		_, u := mpInt(raw)
		if small {
			u = 0
			if d < 0 {
				d = -d
			}
		}
		return encSized(c, u+uint64(int64(d)))
	case ncFloat:
		f := mpFloat(raw)
		if small || math.IsNaN(f) || math.IsInf(f, 0) {
			f = 0
		}
		f += float64(d) / 2
		if c == 0xca {
			return encF32(float32(f))
		}
		return encF64(f)
	}
	return raw
}

func lookup(v bodyView, path string) *Node {
	for _, p := range v.all {
		if p.path == path {
			return p.node
		}
	}
	return nil
}

func isNaNLeaf(raw []byte) bool {
	return ((len(raw) == 5 && raw[0] == 0xca) || (len(raw) == 9 && raw[0] == 0xcb)) && math.IsNaN(mpFloat(raw))
}

func genGenericValue(t *rapid.T, cfg c13Cfg) []byte {
	c := rapid.IntRange(0, 29).Draw(t, "valclass")
	switch {
	case cfg.forceMalformed && c <= 14:
		return malformedValue(t, cfg)
	case c >= 27 && cfg.malformedValues:
		return malformedValue(t, cfg)
	case c == 26:
		return nil // empty: documented InvalidOp
	}
	return genValue(t, 2)
}

func genOp(t *rapid.T, cfg c13Cfg, v bodyView) OpS {
	kind := rapid.IntRange(0, 7).Draw(t, "opkind")
	if cfg.forceContainerRV && rapid.IntRange(0, 1).Draw(t, "forcerv") == 0 {
		kind = 6
	}
	op := OpS{Kind: kind}
	sensible := rapid.IntRange(0, 19).Draw(t, "sensible") < 17
	switch kind {
	case 0: // SET
		op.Path = genPath(t, v, "any")
		op.Value = genGenericValue(t, cfg)
	case 1: // DELETE
		op.Path = genPath(t, v, "any")
		if rapid.IntRange(0, 9).Draw(t, "delval") == 0 {
			op.Value = []byte{0xc1} // ignored on the wire
		}
	case 2: // INC
		if p, ok := pick(t, v.nums, "numtarget"); ok && sensible {
			op.Path = p.path
			switch rapid.IntRange(0, 9).Draw(t, "deltaclass") {
			case 0, 1, 2, 3, 4, 5:
				op.Value = neighbourNumeric(t, p.node.Raw, true) // same code, small delta
			case 6: // same class, other width
				switch mpNumClass(p.node.Raw[0]) {
				case ncInt, ncNegFix:
					op.Value = encSized(rapid.SampledFrom([]byte{0xd0, 0xd1, 0xd2, 0xd3}).Draw(t, "icode"), uint64(int64(rapid.IntRange(-200, 200).Draw(t, "idelta"))))
				case ncUint, ncPosFix:
					op.Value = encSized(rapid.SampledFrom([]byte{0xcc, 0xcd, 0xce, 0xcf}).Draw(t, "ucode"), uint64(rapid.IntRange(0, 300).Draw(t, "udelta")))
				default:
					op.Value = genFloatLeaf(t, true)
				}
			case 7: // large delta (overflow candidates)
				op.Value = neighbourNumeric(t, p.node.Raw, false)
			default:
				op.Value = genGenericValue(t, cfg)
			}
		} else {
			op.Path = genPath(t, v, "num")
			if rapid.IntRange(0, 3).Draw(t, "numdelta") != 0 {
				op.Value = genLeaf(t)
			} else {
				op.Value = genGenericValue(t, cfg)
			}
		}
	case 3, 4: // APPEND / PREPEND
		if a, ok := pick(t, v.arrays, "arrtarget"); ok && sensible {
			op.Path = a.path + "[]"
		} else {
			op.Path = genPath(t, v, "array")
			if sensible && !strings.HasSuffix(op.Path, "]") {
				op.Path += "[]"
			}
		}
		op.Value = genGenericValue(t, cfg)
	case 5: // REMOVE_AT
		if a, ok := pick(t, v.arrays, "arrtarget"); ok && sensible {
			n := len(a.node.Items)
			op.Path = fmt.Sprintf("%s[%d]", a.path, rapid.SampledFrom([]int{0, n - 1, -1, n, -n, 1, -n - 1}).Draw(t, "rmidx"))
		} else {
			op.Path = genPath(t, v, "array")
		}
	case 6: // REMOVE_VAL
		a, ok := pick(t, v.arrays, "arrtarget")
		if ok && (sensible || cfg.forceContainerRV) {
			op.Path = a.path
			var cands [][]byte
			for _, it := range a.node.Items {
				if it.Kind == nkLeaf && !cfg.forceContainerRV {
					cands = append(cands, it.Raw)
				}
				if it.Kind != nkLeaf && cfg.containerRemoveV {
					cands = append(cands, it.Raw)
				}
			}
			if len(cands) > 0 && rapid.IntRange(0, 4).Draw(t, "present") != 0 {
				op.Value = append([]byte{}, cands[rapid.IntRange(0, len(cands)-1).Draw(t, "which")]...)
			}
		} else {
			op.Path = genPath(t, v, "array")
		}
		if op.Value == nil {
			op.Value = genGenericValue(t, cfg)
			if !cfg.containerRemoveV {
				if n, err := mpParseOne(op.Value); err == nil && n.Kind != nkLeaf {
					op.Value = genLeaf(t)
				}
			}
		}
	case 7: // MERGE
		var target *Node
		if m, ok := pick(t, v.maps, "maptarget"); ok && sensible {
			op.Path, target = m.path, m.node
		} else {
			op.Path = genPath(t, v, "map")
			target = lookup(v, op.Path)
		}
		switch c := rapid.IntRange(0, 19).Draw(t, "mergeval"); {
		case c <= 15:
			n := rapid.IntRange(0, 4).Draw(t, "mergen")
			used := map[string]bool{}
			val := encMapHeader(n, headerForm(t, "mergehdr"))
			for i := 0; i < n; i++ {
				var k string
				if target != nil && target.Kind == nkMap && len(target.Entries) > 0 && rapid.Bool().Draw(t, "overlap") {
					k = target.Entries[rapid.IntRange(0, len(target.Entries)-1).Draw(t, "overkey")].Key
					if used[k] {
						k = genKey(t, used)
					}
					used[k] = true
				} else {
					k = genKey(t, used)
				}
				val = append(val, encStrForm(k, headerForm(t, "mkeyform"))...)
				val = append(val, genValue(t, 1)...)
			}
			op.Value = val
		case c == 16: // int-keyed map / duplicate keys (unspecified classes)
			if rapid.Bool().Draw(t, "intkeys") {
				op.Value = []byte{0x81, 0x01, 0x02}
			} else {
				op.Value = []byte{0x82, 0xa1, 'a', 0x01, 0xa1, 'a', 0x02}
			}
		default:
			op.Value = genGenericValue(t, cfg)
		}
	}
	if rapid.IntRange(0, 99).Draw(t, "unknownkind") == 57 {
		op.Kind = rapid.SampledFrom([]int{8, 9, 255}).Draw(t, "badkind")
	}
	return op
}

func genCond(t *rapid.T, cfg c13Cfg, v bodyView) *CondS {
	c := &CondS{}
	c.Path = genPath(t, v, "leaf")
	c.Op = rapid.SampledFrom([]int{0, 3, 5, 1, 6, 4, 2, 7}).Draw(t, "condop")
	target := lookup(v, c.Path)
	if cfg.forceNaN {
		// NaN on one side of a comparator
		var fl []pathInfo
		for _, p := range v.leaves {
			if isNaNLeaf(p.node.Raw) {
				fl = append(fl, p)
			}
		}
		if p, ok := pick(t, fl, "nanleaf"); ok && rapid.Bool().Draw(t, "nantarget") {
			c.Path, target = p.path, p.node
			c.Threshold = genFloatLeaf(t, true)
		} else {
			var ff []pathInfo
			for _, p := range v.leaves {
				if mpNumClass(p.node.Raw[0]) == ncFloat {
					ff = append(ff, p)
				}
			}
			if p, ok := pick(t, ff, "floatleaf"); ok {
				c.Path, target = p.path, p.node
			}
			c.Threshold = encF64(math.NaN())
			if rapid.Bool().Draw(t, "nan32") {
				c.Threshold = encF32(float32(math.NaN()))
			}
		}
		c.Op = rapid.IntRange(0, 5).Draw(t, "nanop")
		return c
	}
	k := rapid.IntRange(0, 29).Draw(t, "thrclass")
	switch {
	case target != nil && target.Kind == nkLeaf && k <= 8:
		c.Threshold = append([]byte{}, target.Raw...) // equal
	case target != nil && target.Kind == nkLeaf && k <= 19:
		switch leafTypeOf(target.Raw) {
		case ltNum:
			c.Threshold = neighbourNumeric(t, target.Raw, false)
		case ltStr:
			s, _ := mpStr(target.Raw)
			c.Threshold = encStrForm(rapid.SampledFrom([]string{s + "a", "", "a", s, strings.ToUpper(s)}).Draw(t, "strthr"), headerForm(t, "thrform"))
		case ltBin:
			b, _ := mpBin(target.Raw)
			c.Threshold = encBinForm(append(append([]byte{}, b...), 1), 0)
		case ltBool:
			c.Threshold = []byte{0xc2 + byte(rapid.IntRange(0, 1).Draw(t, "boolthr"))}
		default:
			c.Threshold = genLeaf(t)
		}
	case k <= 22 && target != nil && target.Kind == nkLeaf && mpNumClass(target.Raw[0]) == ncFloat:
		c.Threshold = encF64(math.NaN()) // excluded below while nan-compares-equal is open
		if k == 22 {
			c.Threshold = encF32(float32(math.NaN()))
		}
	case k <= 24:
		c.Threshold = genLeaf(t)
	case k == 25:
		c.Threshold = genValue(t, 1)
	case k == 26:
		c.Threshold = nil
	case k == 27:
		c.Threshold = malformedValue(t, cfg)
	default:
		c.Threshold = genFloatLeaf(t, true)
	}
	if !cfg.nanCompare && c.Op <= 5 {
		if isNaNLeaf(c.Threshold) {
			c.Threshold = encF64(2.5)
		}
		if target != nil && target.Kind == nkLeaf && isNaNLeaf(target.Raw) {
			c.Op = 6 + c.Op%2
		}
	}
	if rapid.IntRange(0, 99).Draw(t, "unknowncmp") == 61 {
		c.Op = 8
	}
	return c
}

func genC13(cfg c13Cfg) func(t *rapid.T) C13Scenario {
	return func(t *rapid.T) C13Scenario {
		var s C13Scenario
		s.Body = genBody(t)
		v := viewOf(s.Body)
		maxOps := cfg.maxOps
		if maxOps == 0 {
			maxOps = 6
		}
		n := rapid.SampledFrom([]int{2, 3, 1, 4, 2, 5, 6, 0, 3}).Draw(t, "nops")
		if n > maxOps {
			n = maxOps
		}
		for i := 0; i < n; i++ {
			s.Ops = append(s.Ops, genOp(t, cfg, v))
		}
		if cfg.forceNaN || rapid.IntRange(0, 19).Draw(t, "hascond") >= 15 {
			s.Cond = genCond(t, cfg, v)
		}
		return s
	}
}
