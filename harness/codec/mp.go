package codec

import (
	"encoding/binary"
	"errors"
	"fmt"
	"math"
)

// An independent MessagePack walker (no third-party decoder involved): it
// splits a byte string into a tree whose nodes remember the exact bytes they
// were read from. Used by the C13 oracle as document model and as the
// well-formedness judge for produced bodies.

type nodeKind uint8

const (
	nkLeaf nodeKind = iota
	nkMap
	nkArray
)

type mapEntry struct {
	Key    string // valid when KeyStr
	KeyStr bool   // the key is a msgpack str
	KeyRaw []byte
	Val    *Node
	New    bool // model: entry created by the patch (its position in the map is not documented)
}

// Node is one value of a parsed document.
type Node struct {
	Kind    nodeKind
	Raw     []byte // exact encoding of the whole value in its source
	Entries []mapEntry
	Items   []*Node

	// --- model state ---
	// Opaque: the value was taken from an op's Value; it is compared byte for
	// byte and later ops of the same patch are not asserted to see inside it.
	Opaque bool
	// Dirty: a container some descendant of which was changed by the patch.
	Dirty bool
	// floatAlt: acceptable IEEE results of a float INC (compared semantically).
	floatAlt []float64
	// IncResult: leaf written by an integer INC.
	IncResult bool
}

var errMalformed = errors.New("malformed msgpack")

const mpMaxDepth = 200

// mpParse reads exactly one value from b and returns it with the number of
// bytes consumed. Container children are parsed recursively.
func mpParse(b []byte) (*Node, int, error) { return mpParseDepth(b, 0) }

func mpParseDepth(b []byte, depth int) (*Node, int, error) {
	if depth > mpMaxDepth {
		return nil, 0, fmt.Errorf("%w: nesting deeper than %d", errMalformed, mpMaxDepth)
	}
	if len(b) == 0 {
		return nil, 0, fmt.Errorf("%w: empty", errMalformed)
	}
	c := b[0]
	leaf := func(n int) (*Node, int, error) {
		if n > len(b) {
			return nil, 0, fmt.Errorf("%w: truncated (code %#x needs %d bytes, have %d)", errMalformed, c, n, len(b))
		}
		return &Node{Kind: nkLeaf, Raw: b[:n:n]}, n, nil
	}
	need := func(n int) error {
		if len(b) < n {
			return fmt.Errorf("%w: truncated header of code %#x", errMalformed, c)
		}
		return nil
	}
	switch {
	case c <= 0x7f || c >= 0xe0:
		return leaf(1)
	case c >= 0x80 && c <= 0x8f:
		return mpParseMap(b, 1, int(c&0x0f), depth)
	case c >= 0x90 && c <= 0x9f:
		return mpParseArray(b, 1, int(c&0x0f), depth)
	case c >= 0xa0 && c <= 0xbf:
		return leaf(1 + int(c&0x1f))
	}
	switch c {
	case 0xc0, 0xc2, 0xc3:
		return leaf(1)
	case 0xc1:
		return nil, 0, fmt.Errorf("%w: reserved code 0xc1", errMalformed)
	case 0xc4, 0xd9: // bin8, str8
		if err := need(2); err != nil {
			return nil, 0, err
		}
		return leaf(2 + int(b[1]))
	case 0xc5, 0xda: // bin16, str16
		if err := need(3); err != nil {
			return nil, 0, err
		}
		return leaf(3 + int(binary.BigEndian.Uint16(b[1:])))
	case 0xc6, 0xdb: // bin32, str32
		if err := need(5); err != nil {
			return nil, 0, err
		}
		n := uint64(binary.BigEndian.Uint32(b[1:]))
		if n > uint64(len(b)) {
			return nil, 0, fmt.Errorf("%w: truncated", errMalformed)
		}
		return leaf(5 + int(n))
	case 0xc7: // ext8
		if err := need(3); err != nil {
			return nil, 0, err
		}
		return leaf(3 + int(b[1]))
	case 0xc8: // ext16
		if err := need(4); err != nil {
			return nil, 0, err
		}
		return leaf(4 + int(binary.BigEndian.Uint16(b[1:])))
	case 0xc9: // ext32
		if err := need(6); err != nil {
			return nil, 0, err
		}
		n := uint64(binary.BigEndian.Uint32(b[1:]))
		if n > uint64(len(b)) {
			return nil, 0, fmt.Errorf("%w: truncated", errMalformed)
		}
		return leaf(6 + int(n))
	case 0xca:
		return leaf(5)
	case 0xcb:
		return leaf(9)
	case 0xcc, 0xd0:
		return leaf(2)
	case 0xcd, 0xd1:
		return leaf(3)
	case 0xce, 0xd2:
		return leaf(5)
	case 0xcf, 0xd3:
		return leaf(9)
	case 0xd4:
		return leaf(3)
	case 0xd5:
		return leaf(4)
	case 0xd6:
		return leaf(6)
	case 0xd7:
		return leaf(10)
	case 0xd8:
		return leaf(18)
	case 0xdc:
		if err := need(3); err != nil {
			return nil, 0, err
		}
		return mpParseArray(b, 3, int(binary.BigEndian.Uint16(b[1:])), depth)
	case 0xdd:
		if err := need(5); err != nil {
			return nil, 0, err
		}
		n := uint64(binary.BigEndian.Uint32(b[1:]))
		if n > uint64(len(b)) {
			return nil, 0, fmt.Errorf("%w: array32 declares %d items in %d bytes", errMalformed, n, len(b))
		}
		return mpParseArray(b, 5, int(n), depth)
	case 0xde:
		if err := need(3); err != nil {
			return nil, 0, err
		}
		return mpParseMap(b, 3, int(binary.BigEndian.Uint16(b[1:])), depth)
	case 0xdf:
		if err := need(5); err != nil {
			return nil, 0, err
		}
		n := uint64(binary.BigEndian.Uint32(b[1:]))
		if n > uint64(len(b)) {
			return nil, 0, fmt.Errorf("%w: map32 declares %d entries in %d bytes", errMalformed, n, len(b))
		}
		return mpParseMap(b, 5, int(n), depth)
	}
	return nil, 0, fmt.Errorf("%w: unknown code %#x", errMalformed, c)
}

func mpParseMap(b []byte, hdr, n, depth int) (*Node, int, error) {
	if n > len(b) {
		return nil, 0, fmt.Errorf("%w: map declares %d entries in %d bytes", errMalformed, n, len(b))
	}
	nd := &Node{Kind: nkMap}
	off := hdr
	for i := 0; i < n; i++ {
		k, kn, err := mpParseDepth(b[off:], depth+1)
		if err != nil {
			return nil, 0, err
		}
		e := mapEntry{KeyRaw: k.Raw}
		if s, ok := mpStr(k.Raw); ok && k.Kind == nkLeaf {
			e.Key, e.KeyStr = s, true
		}
		off += kn
		v, vn, err := mpParseDepth(b[off:], depth+1)
		if err != nil {
			return nil, 0, err
		}
		off += vn
		e.Val = v
		nd.Entries = append(nd.Entries, e)
	}
	nd.Raw = b[:off:off]
	return nd, off, nil
}

func mpParseArray(b []byte, hdr, n, depth int) (*Node, int, error) {
	if n > len(b) {
		return nil, 0, fmt.Errorf("%w: array declares %d items in %d bytes", errMalformed, n, len(b))
	}
	nd := &Node{Kind: nkArray}
	off := hdr
	for i := 0; i < n; i++ {
		v, vn, err := mpParseDepth(b[off:], depth+1)
		if err != nil {
			return nil, 0, err
		}
		off += vn
		nd.Items = append(nd.Items, v)
	}
	nd.Raw = b[:off:off]
	return nd, off, nil
}

// mpParseOne parses b as exactly one value (no trailing bytes).
func mpParseOne(b []byte) (*Node, error) {
	nd, n, err := mpParse(b)
	if err != nil {
		return nil, err
	}
	if n != len(b) {
		return nil, fmt.Errorf("%w: %d trailing bytes after the first value", errMalformed, len(b)-n)
	}
	return nd, nil
}

// mpStr returns the payload of a str-family leaf.
func mpStr(raw []byte) (string, bool) {
	if len(raw) == 0 {
		return "", false
	}
	c := raw[0]
	switch {
	case c >= 0xa0 && c <= 0xbf:
		return string(raw[1:]), true
	case c == 0xd9 && len(raw) >= 2:
		return string(raw[2:]), true
	case c == 0xda && len(raw) >= 3:
		return string(raw[3:]), true
	case c == 0xdb && len(raw) >= 5:
		return string(raw[5:]), true
	}
	return "", false
}

func mpBin(raw []byte) ([]byte, bool) {
	if len(raw) == 0 {
		return nil, false
	}
	switch raw[0] {
	case 0xc4:
		return raw[2:], true
	case 0xc5:
		return raw[3:], true
	case 0xc6:
		return raw[5:], true
	}
	return nil, false
}

// numeric classes as far as the documentation pins them down
type numClass uint8

const (
	ncNone   numClass = iota
	ncInt             // int8..int64
	ncUint            // uint8..uint64
	ncFloat           // float32 / float64
	ncPosFix          // positive fixint: documented nowhere whether it counts as int or uint
	ncNegFix          // negative fixint: certainly signed
)

func mpNumClass(c byte) numClass {
	switch {
	case c <= 0x7f:
		return ncPosFix
	case c >= 0xe0:
		return ncNegFix
	case c == 0xca || c == 0xcb:
		return ncFloat
	case c >= 0xcc && c <= 0xcf:
		return ncUint
	case c >= 0xd0 && c <= 0xd3:
		return ncInt
	}
	return ncNone
}

// mpInt decodes an integer leaf (any int-family code) into sign + magnitude
// free form: (signed value, unsigned value, isUnsignedCode).
func mpInt(raw []byte) (int64, uint64) {
	c := raw[0]
	switch {
	case c <= 0x7f:
		return int64(c), uint64(c)
	case c >= 0xe0:
		return int64(int8(c)), 0
	}
	switch c {
	case 0xcc:
		return int64(raw[1]), uint64(raw[1])
	case 0xcd:
		v := binary.BigEndian.Uint16(raw[1:])
		return int64(v), uint64(v)
	case 0xce:
		v := binary.BigEndian.Uint32(raw[1:])
		return int64(v), uint64(v)
	case 0xcf:
		v := binary.BigEndian.Uint64(raw[1:])
		return int64(v), v
	case 0xd0:
		return int64(int8(raw[1])), 0
	case 0xd1:
		return int64(int16(binary.BigEndian.Uint16(raw[1:]))), 0
	case 0xd2:
		return int64(int32(binary.BigEndian.Uint32(raw[1:]))), 0
	case 0xd3:
		return int64(binary.BigEndian.Uint64(raw[1:])), 0
	}
	return 0, 0
}

func mpFloat(raw []byte) float64 {
	if raw[0] == 0xca {
		return float64(math.Float32frombits(binary.BigEndian.Uint32(raw[1:])))
	}
	return math.Float64frombits(binary.BigEndian.Uint64(raw[1:]))
}

// --- encoders (generator side and expected INC results) ----------------------

func encStrForm(s string, form int) []byte {
	n := len(s)
	// form 0 = minimal, 1 = str8, 2 = str16, 3 = str32 (falls back to the
	// smallest form that can hold n)
	switch {
	case form <= 0 && n <= 31:
		return append([]byte{0xa0 | byte(n)}, s...)
	case form <= 1 && n <= 255:
		return append([]byte{0xd9, byte(n)}, s...)
	case form <= 2 && n <= 65535:
		return append([]byte{0xda, byte(n >> 8), byte(n)}, s...)
	}
	return append([]byte{0xdb, byte(n >> 24), byte(n >> 16), byte(n >> 8), byte(n)}, s...)
}

func encBinForm(p []byte, form int) []byte {
	n := len(p)
	switch {
	case form <= 0 && n <= 255:
		return append([]byte{0xc4, byte(n)}, p...)
	case form <= 1 && n <= 65535:
		return append([]byte{0xc5, byte(n >> 8), byte(n)}, p...)
	}
	return append([]byte{0xc6, byte(n >> 24), byte(n >> 16), byte(n >> 8), byte(n)}, p...)
}

func encMapHeader(n, form int) []byte {
	switch {
	case form <= 0 && n <= 15:
		return []byte{0x80 | byte(n)}
	case form <= 1 && n <= 65535:
		return []byte{0xde, byte(n >> 8), byte(n)}
	}
	return []byte{0xdf, byte(n >> 24), byte(n >> 16), byte(n >> 8), byte(n)}
}

func encArrayHeader(n, form int) []byte {
	switch {
	case form <= 0 && n <= 15:
		return []byte{0x90 | byte(n)}
	case form <= 1 && n <= 65535:
		return []byte{0xdc, byte(n >> 8), byte(n)}
	}
	return []byte{0xdd, byte(n >> 24), byte(n >> 16), byte(n >> 8), byte(n)}
}

func encSized(code byte, v uint64) []byte {
	switch code {
	case 0xcc, 0xd0:
		return []byte{code, byte(v)}
	case 0xcd, 0xd1:
		return []byte{code, byte(v >> 8), byte(v)}
	case 0xce, 0xd2, 0xca:
		return []byte{code, byte(v >> 24), byte(v >> 16), byte(v >> 8), byte(v)}
	}
	return []byte{code, byte(v >> 56), byte(v >> 48), byte(v >> 40), byte(v >> 32), byte(v >> 24), byte(v >> 16), byte(v >> 8), byte(v)}
}

func encF64(f float64) []byte { return encSized(0xcb, math.Float64bits(f)) }
func encF32(f float32) []byte { return encSized(0xca, uint64(math.Float32bits(f))) }
