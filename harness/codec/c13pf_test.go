package codec

import (
	"bytes"
	"fmt"
	"sync"
	"testing"
	"time"

	"github.com/hydraide/hydraide/app/core/hydra/swamp"
	"github.com/hydraide/hydraide/app/core/hydra/swamp/metadata"
	"github.com/hydraide/hydraide/app/name"
	"pgregory.net/rapid"

	"verifharness/internal/pbt"
)

// C13, facet patchfields: the same scenarios through swamp.PatchFields of an
// in-memory swamp — status code + stored body against the model.

type C13PFScenario struct {
	C13Scenario
	// Mode 0: key exists with the body; 1: key missing, CreateIfNotExist with the
	// body as InitialMsgpackOnCreate; 2: key missing, CreateIfNotExist=false.
	Mode int `json:"mode"`
}

var (
	pfOnce  sync.Once
	pfSwamp swamp.Swamp
	pfSeq   int
)

func pfGet() swamp.Swamp {
	pfOnce.Do(func() {
		n := name.New().Sanctuary("verif").Realm("c13").Swamp("patchfields")
		pfSwamp = swamp.New(n, time.Hour, nil, func(e *swamp.Event) {}, func(i *swamp.Info) {}, func(n name.Name) {}, metadata.NewNoop())
		pfSwamp.BeginVigil()
		// an anchor record: a swamp that becomes empty destroys itself
		tr := pfSwamp.CreateTreasure("anchor")
		g := tr.StartTreasureGuard(true)
		tr.SetContentByteArray(g, wrapBody([]byte{0x80}))
		tr.Save(g)
		tr.ReleaseTreasureGuard(g)
	})
	return pfSwamp
}

func wrapBody(b []byte) []byte { return append([]byte{0xC7, 0x00}, b...) }

func runC13PF(s C13PFScenario) pbt.Outcome {
	var out pbt.Outcome
	v := modelApply(s.C13Scenario)
	if v.skip != "" || scenarioWouldKillProcess(s.C13Scenario) {
		return pbt.Outcome{Skip: true}
	}
	sw := pfGet()
	pfSeq++
	key := fmt.Sprintf("k%d", pfSeq)
	defer sw.DeleteTreasure(key, false)

	stored := wrapBody(s.Body)
	if s.Mode == 0 {
		tr := sw.CreateTreasure(key)
		g := tr.StartTreasureGuard(true)
		tr.SetContentByteArray(g, append([]byte(nil), stored...))
		tr.Save(g)
		tr.ReleaseTreasureGuard(g)
	}
	ops, cond := realOps(s.C13Scenario)
	opts := swamp.PatchFieldsOptions{}
	if s.Mode == 1 {
		opts.CreateIfNotExist = true
		opts.InitialMsgpackOnCreate = append([]byte(nil), s.Body...)
	}
	res, err := sw.PatchFields(key, ops, cond, opts)
	if err != nil {
		return pbt.Failf("internal-error", "PatchFields returned an error: %v", err)
	}
	out.Classes = append(out.Classes, fmt.Sprintf("mode:%d", s.Mode), fmt.Sprintf("status:%d", res.Status))

	readBack := func() ([]byte, bool) {
		tr, gerr := sw.GetTreasure(key)
		if gerr != nil || tr == nil {
			return nil, false
		}
		raw, cerr := tr.GetContentByteArray()
		if cerr != nil {
			return nil, false
		}
		return raw, true
	}
	now, exists := readBack()

	if s.Mode == 2 {
		if res.Status != swamp.PatchStatusKeyNotFound {
			return pbt.Failf("wrong-status", "missing key without CreateIfNotExist: status %d, want KEY_NOT_FOUND", res.Status)
		}
		if exists {
			return pbt.Failf("side-effect", "KEY_NOT_FOUND but the key exists afterwards")
		}
		return out
	}
	success := res.Status == swamp.PatchStatusPatched || res.Status == swamp.PatchStatusCreated
	// --- generic clauses
	if success {
		if !exists || len(now) < 2 || now[0] != 0xC7 || now[1] != 0x00 {
			return pbt.Failf("stored-body", "status %d but the stored value is missing or lacks the msgpack prefix: %x", res.Status, now)
		}
		if !bytes.Equal(now[2:], res.NewMsgpack) {
			return pbt.Failf("stored-body", "stored body %x differs from the reported NewMsgpack %x", now[2:], res.NewMsgpack)
		}
		if _, perr := mpParseOne(now[2:]); perr != nil {
			return pbt.Failf("malformed-output", "status %d but the STORED body is not one well-formed msgpack value (%v): body %x ops %s → %x", res.Status, perr, s.Body, opsString(s.C13Scenario), now[2:])
		}
		want := swamp.PatchStatusPatched
		if s.Mode == 1 {
			want = swamp.PatchStatusCreated
		}
		if res.Status != want {
			return pbt.Failf("wrong-status", "success status %d, want %d (mode %d)", res.Status, want, s.Mode)
		}
	} else {
		if s.Mode == 0 && (!exists || !bytes.Equal(now, stored)) {
			return pbt.Failf("body-changed-on-failure", "status %d (%s) but the stored body changed: before %x after %x", res.Status, res.Error, stored, now)
		}
		if s.Mode == 1 && exists {
			return pbt.Failf("side-effect", "status %d (%s) on a key to be created, but the key exists afterwards with %x", res.Status, res.Error, now)
		}
		if res.NewMsgpack != nil {
			return pbt.Failf("partial-result", "status %d with a NewMsgpack body", res.Status)
		}
	}
	// --- documented semantics
	if v.unspec != "" {
		out.Classes = append(out.Classes, "unspecified")
		return out
	}
	if v.errSet != 0 {
		wantStatus := map[swamp.PatchFieldsStatus]bool{}
		if v.errSet&ecCond != 0 {
			wantStatus[swamp.PatchStatusConditionNotMet] = true
		}
		if v.errSet&ecType != 0 {
			wantStatus[swamp.PatchStatusTypeMismatch] = true
		}
		if v.errSet&(ecPath|ecInvalidOp) != 0 {
			wantStatus[swamp.PatchStatusPathInvalid] = true
		}
		if v.errSet&ecMsgpack != 0 {
			wantStatus[swamp.PatchStatusEncodingNotSupported] = true
		}
		if success {
			return pbt.Failf("unexpected-success", "documented outcome is %s but status is %d: body %x ops %s cond %s", ecString(v.errSet), res.Status, s.Body, opsString(s.C13Scenario), condString(s.C13Scenario))
		}
		if !wantStatus[res.Status] {
			return pbt.Failf("wrong-status", "documented outcome is %s but status is %d (%s): body %x ops %s cond %s", ecString(v.errSet), res.Status, res.Error, s.Body, opsString(s.C13Scenario), condString(s.C13Scenario))
		}
	} else {
		if !success {
			return pbt.Failf("unexpected-error", "documented outcome is success but status is %d (%s): body %x ops %s cond %s", res.Status, res.Error, s.Body, opsString(s.C13Scenario), condString(s.C13Scenario))
		}
		act, _ := mpParseOne(now[2:])
		if d := compareTree(v.doc, act, ""); d != "" {
			return pbt.Failf("mismatch", "stored document differs from the documented result at %s: body %x ops %s cond %s → %x", d, s.Body, opsString(s.C13Scenario), condString(s.C13Scenario), now[2:])
		}
	}
	untouched := 0
	if v.doc != nil {
		untouched = countUntouchedSized(v.doc)
	}
	out.NonTrivial = len(s.Ops) >= 2 && v.nested && (untouched >= 1 || v.errSet != 0)
	return out
}

func genC13PF(cfg c13Cfg) func(t *rapid.T) C13PFScenario {
	g := genC13(cfg)
	return func(t *rapid.T) C13PFScenario {
		s := C13PFScenario{C13Scenario: g(t)}
		s.Mode = rapid.SampledFrom([]int{0, 0, 0, 1, 0, 1, 2}).Draw(t, "mode")
		return s
	}
}

func TestC13PatchFields(t *testing.T) {
	pbt.Main(t, pbt.Spec[C13PFScenario]{
		ID: "C13", Facet: "patchfields",
		Rule: "main generator, each scenario applied through swamp.PatchFields on an in-memory swamp: key holding the body (mode 0), missing key with CreateIfNotExist and the body as " +
			"InitialMsgpackOnCreate (mode 1), missing key without CreateIfNotExist (mode 2); asserted: status = documented class (PATCHED/CREATED, CONDITION_NOT_MET, TYPE_MISMATCH, PATH_INVALID, KEY_NOT_FOUND), " +
			"stored body = NewMsgpack = model document on success, stored body byte-identical / key still absent on every failure; non-trivial as in main",
		Quick: 20000, Thorough: 600000,
		Gen: genC13PF(c13MainCfg(false)), Run: runC13PF,
	})
}

func TestC13WitnessMalformedValueStored(t *testing.T) {
	cfg := c13MainCfg(false)
	cfg.malformedValues, cfg.forceMalformed = true, true
	pbt.Witness(t, pbt.Spec[C13PFScenario]{
		ID: "C13", Facet: "witness-malformed-value-stored", Rule: "patchfields generator with half of the op values malformed",
		Quick: 1500, Thorough: 15000, Gen: genC13PF(cfg), Run: runC13PF,
	}, "malformed-op-value-spliced", "malformed-output")
}
