package codec

import (
	"bytes"
	"fmt"
	"math"
	"math/big"
	"strings"
)

// C13 reference model: the DOCUMENTED semantics of the structural patch
// (docs/features/structural-msgpack-patch.md, the PatchOp / PatchCondition /
// PatchResult comments of proto/hydraide.proto, docs/sdk/go/go-sdk.md and the
// doc comments of package msgpackpatch), written against the independent
// tree of mp.go. Wherever those sources are silent or contradict each other
// the model answers "unspecified" and the check asserts only the generic
// clauses (no panic, input untouched, success ⇒ one well-formed value).

// Scenario types (JSON-serialisable).
type OpS struct {
	Kind  int    `json:"k"` // 0 SET 1 DELETE 2 INC 3 APPEND 4 PREPEND 5 REMOVE_AT 6 REMOVE_VAL 7 MERGE
	Path  string `json:"p"`
	Value []byte `json:"v,omitempty"`
}

type CondS struct {
	Path      string `json:"p"`
	Op        int    `json:"op"` // 0 EQ 1 NE 2 GT 3 GTE 4 LT 5 LTE 6 EXISTS 7 NOT_EXISTS
	Threshold []byte `json:"t,omitempty"`
}

type C13Scenario struct {
	Body []byte `json:"body"`
	Ops  []OpS  `json:"ops"`
	Cond *CondS `json:"cond,omitempty"`
}

var opNames = []string{"SET", "DELETE", "INC", "APPEND", "PREPEND", "REMOVE_AT", "REMOVE_VAL", "MERGE"}
var condNames = []string{"EQ", "NE", "GT", "GTE", "LT", "LTE", "EXISTS", "NOT_EXISTS"}

// error classes (bit set: an op with several independent faults may report any of them)
const (
	ecCond uint8 = 1 << iota
	ecType
	ecPath
	ecInvalidOp
	ecMsgpack
	ecNonStringKey
	ecOther
)

func ecString(m uint8) string {
	var s []string
	for i, n := range []string{"ConditionNotMet", "TypeMismatch", "PathInvalid", "InvalidOp", "InvalidMsgpack", "NonStringKey", "other"} {
		if m&(1<<i) != 0 {
			s = append(s, n)
		}
	}
	if len(s) == 0 {
		return "success"
	}
	return strings.Join(s, "|")
}

// ---------------------------------------------------------------------------
// paths

type pseg struct {
	kind  int // 0 field, 1 index, 2 append marker
	field string
	index int
}

func isIdent(s string) bool {
	for i := 0; i < len(s); i++ {
		c := s[i]
		if !(c >= 'a' && c <= 'z' || c >= 'A' && c <= 'Z' || c >= '0' && c <= '9' || c == '_') {
			return false
		}
	}
	return len(s) > 0
}

func allDigits(s string) bool {
	if s == "" {
		return false
	}
	for i := 0; i < len(s); i++ {
		if s[i] < '0' || s[i] > '9' {
			return false
		}
	}
	return true
}

// parsePathModel follows the grammar in the ParsePath doc comment:
//
//	path := segment ('.' segment)* ; segment := name | name '[' index ']' | name '[]'
//	name := [A-Za-z0-9_]+ ; index := '-'? [0-9]+ ; several bracket suffixes are allowed ("m[0][1]");
//	wildcards and '#'-pseudo-fields are rejected; everything else is ErrPathInvalid.
//
// Names outside [A-Za-z0-9_] (accepted by the implementation, excluded by the
// informal grammar), a '+' sign and indices beyond 9 digits are "unspecified".
func parsePathModel(s string) (segs []pseg, invalid bool, unspec string) {
	if s == "" {
		return nil, true, ""
	}
	for _, part := range strings.Split(s, ".") {
		if part == "" || part[0] == '#' {
			return nil, true, ""
		}
		name, rest := part, ""
		if br := strings.IndexByte(part, '['); br >= 0 {
			name, rest = part[:br], part[br:]
		}
		if name == "" || strings.ContainsAny(name, "[]") {
			return nil, true, ""
		}
		if !isIdent(name) {
			unspec = "path-name-outside-documented-charset"
		}
		segs = append(segs, pseg{kind: 0, field: name})
		for rest != "" {
			if rest[0] != '[' {
				return nil, true, ""
			}
			end := strings.IndexByte(rest, ']')
			if end < 0 {
				return nil, true, ""
			}
			inner := rest[1:end]
			switch {
			case inner == "":
				segs = append(segs, pseg{kind: 2})
			case inner == "*":
				return nil, true, ""
			case allDigits(inner) || (inner[0] == '-' && allDigits(inner[1:])):
				digits := strings.TrimLeft(strings.TrimPrefix(inner, "-"), "0")
				if len(digits) > 9 {
					unspec = "index-beyond-9-digits"
					segs = append(segs, pseg{kind: 1, index: 1 << 40})
					break
				}
				n := 0
				for _, c := range digits {
					n = n*10 + int(c-'0')
				}
				if inner[0] == '-' {
					n = -n
				}
				segs = append(segs, pseg{kind: 1, index: n})
			case inner[0] == '+' && allDigits(inner[1:]):
				unspec = "index-with-plus-sign"
				segs = append(segs, pseg{kind: 1})
			default:
				return nil, true, ""
			}
			rest = rest[end+1:]
		}
	}
	return segs, false, unspec
}

type resolved struct {
	fault      uint8 // fault(s) met while walking: ecType / ecPath
	faultOOR   bool  // … it was an out-of-range index
	opaqueStop bool  // the walk would have to look inside a value spliced in by an earlier op
	parent     *Node
	target     *Node
	targetIdx  int
	missingAt  int  // index of the first missing field segment, -1 otherwise
	appendCur  bool // resolved to the append position of an existing array
	chain      []*Node
}

func findKey(m *Node, k string) int {
	for i := range m.Entries {
		if m.Entries[i].KeyStr && m.Entries[i].Key == k {
			return i
		}
	}
	return -1
}

// resolve walks segs from root as documented on (*Path).Resolve.
func resolve(root *Node, segs []pseg) resolved {
	r := resolved{missingAt: -1, targetIdx: -1}
	cur := root
	r.chain = append(r.chain, root)
	for i, sg := range segs {
		final := i == len(segs)-1
		if cur.Opaque && cur.Kind != nkLeaf {
			r.opaqueStop = true
			return r
		}
		switch sg.kind {
		case 0:
			if cur.Kind != nkMap {
				r.fault |= ecType
				return r
			}
			idx := findKey(cur, sg.field)
			if idx < 0 {
				r.parent, r.missingAt = cur, i
				return r
			}
			if final {
				r.parent, r.target, r.targetIdx = cur, cur.Entries[idx].Val, idx
				return r
			}
			cur = cur.Entries[idx].Val
		case 1:
			if cur.Kind != nkArray {
				r.fault |= ecType
				return r
			}
			idx := sg.index
			if idx < 0 {
				idx += len(cur.Items)
			}
			if idx < 0 || idx >= len(cur.Items) {
				r.fault |= ecPath
				r.faultOOR = true
				return r
			}
			if final {
				r.parent, r.target, r.targetIdx = cur, cur.Items[idx], idx
				return r
			}
			cur = cur.Items[idx]
		case 2:
			if !final {
				r.fault |= ecPath
			}
			if cur.Kind != nkArray {
				r.fault |= ecType
			}
			if r.fault != 0 {
				return r
			}
			r.parent, r.appendCur = cur, true
			return r
		}
		r.chain = append(r.chain, cur)
	}
	return r
}

func markDirty(chain []*Node) {
	for _, n := range chain {
		n.Dirty = true
	}
}

// ---------------------------------------------------------------------------
// values

type valInfo struct {
	empty     bool
	malformed bool
	node      *Node // parsed (well-formed, exactly one value)
}

func judgeValue(v []byte) valInfo {
	if len(v) == 0 {
		return valInfo{empty: true}
	}
	n, err := mpParseOne(v)
	if err != nil {
		return valInfo{malformed: true}
	}
	return valInfo{node: n}
}

// opaqueNode is a value spliced in from an op: compared byte for byte.
func opaqueNode(raw []byte) *Node {
	n := &Node{Kind: nkLeaf, Raw: append([]byte{}, raw...), Opaque: true}
	c := raw[0]
	switch {
	case c >= 0x80 && c <= 0x8f, c == 0xde, c == 0xdf:
		n.Kind = nkMap
	case c >= 0x90 && c <= 0x9f, c == 0xdc, c == 0xdd:
		n.Kind = nkArray
	}
	return n
}

type leafType int

const (
	ltNum leafType = iota
	ltStr
	ltBin
	ltBool
	ltNil
	ltExt
)

func leafTypeOf(raw []byte) leafType {
	c := raw[0]
	if mpNumClass(c) != ncNone {
		return ltNum
	}
	if _, ok := mpStr(raw); ok {
		return ltStr
	}
	if _, ok := mpBin(raw); ok {
		return ltBin
	}
	switch c {
	case 0xc2, 0xc3:
		return ltBool
	case 0xc0:
		return ltNil
	}
	return ltExt
}

// ---------------------------------------------------------------------------
// verdict

type verdict struct {
	skip   string // scenario outside the property's input domain
	unspec string // documentation silent / ambiguous: only generic clauses apply
	errSet uint8  // acceptable error classes; 0 = success expected
	failOp int    // index of the op expected to fail (-1 = condition)
	doc    *Node  // expected document on success
	notes  []string
	nested bool // some op touched a path with ≥ 2 segments
	// valuesMalformed: an op value that is not exactly one msgpack value was seen (any op)
	valuesMalformed bool
}

func (v *verdict) note(s string) { v.notes = append(v.notes, s) }

// checkBodyDomain verifies the body is a map whose maps (at every depth) have
// unique str keys.
func checkBodyDomain(n *Node, top bool) string {
	if top && n.Kind != nkMap {
		return "body-not-a-map"
	}
	switch n.Kind {
	case nkMap:
		seen := map[string]bool{}
		for _, e := range n.Entries {
			if !e.KeyStr {
				return "body-has-non-string-key"
			}
			if seen[e.Key] {
				return "body-has-duplicate-key"
			}
			seen[e.Key] = true
			if s := checkBodyDomain(e.Val, false); s != "" {
				return s
			}
		}
	case nkArray:
		for _, it := range n.Items {
			if s := checkBodyDomain(it, false); s != "" {
				return s
			}
		}
	}
	return ""
}

func modelApply(s C13Scenario) verdict {
	var v verdict
	v.failOp = -2
	root, err := mpParseOne(s.Body)
	if err != nil {
		v.skip = "body-malformed"
		return v
	}
	if d := checkBodyDomain(root, true); d != "" {
		v.skip = d
		return v
	}
	for _, op := range s.Ops {
		if len(op.Value) > 0 && judgeValue(op.Value).malformed && op.Kind != 1 && op.Kind != 5 {
			v.valuesMalformed = true
		}
	}
	if s.Cond != nil {
		f, u := modelCond(root, s.Cond, &v)
		if u != "" {
			v.unspec = "cond:" + u
			return v
		}
		if f != 0 {
			v.errSet, v.failOp = f, -1
			return v
		}
	}
	for i, op := range s.Ops {
		f, u := modelOp(root, op, &v)
		if u != "" {
			v.unspec = fmt.Sprintf("%s:%s", opName(op.Kind), u)
			return v
		}
		if f != 0 {
			v.errSet, v.failOp = f, i
			return v
		}
	}
	v.doc = root
	return v
}

func opName(k int) string {
	if k >= 0 && k < len(opNames) {
		return opNames[k]
	}
	return "UNKNOWN"
}

// ---------------------------------------------------------------------------
// condition

func modelCond(root *Node, c *CondS, v *verdict) (fault uint8, unspec string) {
	if c.Op < 0 || c.Op > 7 {
		return 0, "unknown-comparator"
	}
	segs, invalid, u := parsePathModel(c.Path)
	if invalid {
		return ecPath, "" // PATH_INVALID: malformed path
	}
	if u != "" {
		return 0, u
	}
	if len(segs) >= 2 {
		v.nested = true
	}
	exists := c.Op == 6 || c.Op == 7
	r := resolve(root, segs)
	if r.fault != 0 {
		if r.fault&ecPath != 0 && r.fault&ecType == 0 {
			return ecPath, "" // out-of-range index / misplaced [] : unresolvable structural reference
		}
		if exists {
			return 0, "exists-through-wrong-type"
		}
		return r.fault, "" // TYPE_MISMATCH: "an op or condition crossed a type boundary"
	}
	if r.appendCur {
		return 0, "path-ends-in-append-marker"
	}
	if r.missingAt >= 0 {
		switch c.Op {
		case 6:
			return ecCond, ""
		case 7:
			return 0, ""
		case 1:
			return 0, "not-equal-on-missing-field"
		}
		return ecCond, ""
	}
	if r.target.Kind != nkLeaf {
		// "EXISTS / NOT_EXISTS test for the presence of a leaf field at Path"
		switch c.Op {
		case 6:
			return ecCond, ""
		case 7:
			return 0, ""
		}
		return 0, "comparator-on-container"
	}
	switch c.Op {
	case 6:
		return 0, ""
	case 7:
		return ecCond, ""
	}
	cmp, nan, f, u := compareDocumented(r.target.Raw, c.Threshold)
	if u != "" || f != 0 {
		return f, u
	}
	if nan {
		v.note("cond-nan")
	}
	met := false
	switch c.Op {
	case 0:
		met = !nan && cmp == 0
	case 1:
		met = nan || cmp != 0
	case 2:
		met = !nan && cmp > 0
	case 3:
		met = !nan && cmp >= 0
	case 4:
		met = !nan && cmp < 0
	case 5:
		met = !nan && cmp <= 0
	}
	if !met {
		return ecCond, ""
	}
	return 0, ""
}

func cmpBig(a, b *big.Int) int { return a.Cmp(b) }

func intOf(raw []byte) *big.Int {
	c := raw[0]
	s, u := mpInt(raw)
	if c <= 0x7f || (c >= 0xcc && c <= 0xcf) {
		return new(big.Int).SetUint64(u)
	}
	return big.NewInt(s)
}

// compareDocumented orders a leaf against a threshold as far as the
// documentation defines it.
func compareDocumented(a, thr []byte) (cmp int, nan bool, fault uint8, unspec string) {
	ti := judgeValue(thr)
	if ti.empty {
		return 0, false, 0, "threshold-empty"
	}
	if ti.malformed {
		return 0, false, 0, "threshold-malformed"
	}
	la := leafTypeOf(a)
	if la == ltNil || la == ltExt {
		return 0, false, 0, "comparison-of-nil-or-ext"
	}
	if ti.node.Kind != nkLeaf {
		return 0, false, 0, "threshold-is-a-container"
	}
	b := ti.node.Raw
	lb := leafTypeOf(b)
	if lb == ltNil || lb == ltExt {
		return 0, false, 0, "comparison-of-nil-or-ext"
	}
	if la != lb {
		return 0, false, ecType, ""
	}
	switch la {
	case ltStr:
		x, _ := mpStr(a)
		y, _ := mpStr(b)
		return strings.Compare(x, y), false, 0, ""
	case ltBin:
		x, _ := mpBin(a)
		y, _ := mpBin(b)
		return bytes.Compare(x, y), false, 0, ""
	case ltBool:
		x, y := int(a[0]-0xc2), int(b[0]-0xc2)
		return x - y, false, 0, ""
	}
	ca, cb := mpNumClass(a[0]), mpNumClass(b[0])
	switch {
	case ca == ncFloat && cb == ncFloat:
		x, y := mpFloat(a), mpFloat(b)
		if math.IsNaN(x) || math.IsNaN(y) {
			return 0, true, 0, ""
		}
		switch {
		case x < y:
			return -1, false, 0, ""
		case x > y:
			return 1, false, 0, ""
		}
		return 0, false, 0, ""
	case ca == ncFloat || cb == ncFloat:
		return 0, false, ecType, ""
	}
	signedish := func(c numClass) bool { return c == ncInt || c == ncNegFix }
	switch {
	case ca == ncPosFix && cb == ncPosFix,
		signedish(ca) && signedish(cb),
		ca == ncUint && cb == ncUint:
		return cmpBig(intOf(a), intOf(b)), false, 0, ""
	case ca == ncPosFix || cb == ncPosFix:
		return 0, false, 0, "positive-fixint-class"
	}
	return 0, false, ecType, "" // signed vs unsigned
}

// ---------------------------------------------------------------------------
// ops

func modelOp(root *Node, op OpS, v *verdict) (fault uint8, unspec string) {
	if op.Kind < 0 || op.Kind > 7 {
		// ErrInvalidOp "indicates a structurally invalid op"; a bad path may be reported first
		_, invalid, _ := parsePathModel(op.Path)
		f := ecInvalidOp
		if invalid {
			f |= ecPath
		}
		return f, ""
	}
	needsValue := op.Kind != 1 && op.Kind != 5
	var val valInfo
	if needsValue {
		val = judgeValue(op.Value)
		if val.malformed {
			return 0, "malformed-value"
		}
	}
	segs, invalid, u := parsePathModel(op.Path)
	var faults uint8
	if needsValue && val.empty {
		faults |= ecInvalidOp // "Required for SET / INC / APPEND / PREPEND / REMOVE_VAL / MERGE"
	}
	if invalid {
		return faults | ecPath, ""
	}
	if u != "" {
		return 0, u
	}
	if len(segs) >= 2 {
		v.nested = true
	}
	last := segs[len(segs)-1]
	// (a non-final "[]" is a fault only where the walk reaches it or where it
	// would have to be auto-created; resolve / autoCreatable cover both)
	r := resolve(root, segs)
	if r.opaqueStop {
		return 0, "path-enters-value-spliced-by-earlier-op"
	}

	// remaining segments that would have to be auto-created
	autoCreatable := func(from, to int) bool { // segs[from:to] all field names
		for _, sg := range segs[from:to] {
			if sg.kind != 0 {
				return false
			}
		}
		return true
	}
	createChain := func(parent *Node, from, to int) *Node {
		for _, sg := range segs[from:to] {
			m := &Node{Kind: nkMap, Dirty: true}
			parent.Entries = append(parent.Entries, mapEntry{Key: sg.field, KeyStr: true, Val: m, New: true})
			parent = m
		}
		return parent
	}

	switch op.Kind {
	case 0: // SET
		faults |= r.fault
		if last.kind == 2 {
			faults |= ecPath // "SegAppend belongs to the APPEND op"
		}
		if faults == 0 && r.missingAt >= 0 && !autoCreatable(r.missingAt, len(segs)) {
			faults |= ecPath // "SegIndex on a missing target is invalid (no sparse arrays)"
		}
		if faults != 0 {
			return faults, ""
		}
		nv := opaqueNode(op.Value)
		if r.target != nil {
			setChild(r.parent, r.targetIdx, nv)
			markDirty(r.chain)
			v.note("set-replace")
			return 0, ""
		}
		markDirty(r.chain)
		if r.missingAt < len(segs)-1 {
			v.note("set-autocreate-intermediate")
		} else {
			v.note("set-insert")
		}
		p := createChain(r.parent, r.missingAt, len(segs)-1)
		p.Entries = append(p.Entries, mapEntry{Key: last.field, KeyStr: true, Val: nv, New: true})
		return 0, ""

	case 1: // DELETE — "removes the field/index at Path. Missing target is a no-op."
		if faults != 0 {
			return faults, ""
		}
		if r.fault != 0 {
			return 0, "delete-through-wrong-type-or-out-of-range"
		}
		if r.appendCur {
			return 0, "delete-on-append-marker"
		}
		if r.target == nil {
			v.note("delete-miss")
			return 0, ""
		}
		removeChild(r.parent, r.targetIdx)
		markDirty(r.chain)
		v.note("delete-hit")
		return 0, ""

	case 2: // INC
		var dc numClass
		if !val.empty {
			if val.node.Kind != nkLeaf || mpNumClass(val.node.Raw[0]) == ncNone {
				faults |= ecType | ecInvalidOp // non-numeric delta
			} else {
				dc = mpNumClass(val.node.Raw[0])
			}
		}
		faults |= r.fault
		if last.kind == 2 {
			faults |= ecPath
		}
		if faults == 0 && r.missingAt >= 0 && !autoCreatable(r.missingAt, len(segs)) {
			faults |= ecPath
		}
		if faults != 0 {
			return faults, ""
		}
		if r.target == nil {
			// "Missing field auto-creates with the delta's type."
			markDirty(r.chain)
			p := createChain(r.parent, r.missingAt, len(segs)-1)
			p.Entries = append(p.Entries, mapEntry{Key: last.field, KeyStr: true, Val: opaqueNode(op.Value), New: true})
			v.note("inc-autocreate")
			return 0, ""
		}
		t := r.target
		if t.Kind != nkLeaf || mpNumClass(t.Raw[0]) == ncNone {
			return ecType, "" // "INC on a string field"
		}
		if t.floatAlt != nil {
			return 0, "inc-on-earlier-float-inc-result"
		}
		tc := mpNumClass(t.Raw[0])
		switch {
		case tc == ncFloat && dc == ncFloat:
			nn := &Node{Kind: nkLeaf, Raw: []byte{t.Raw[0]}}
			tf, df := mpFloat(t.Raw), mpFloat(val.node.Raw)
			if t.Raw[0] == 0xcb {
				nn.floatAlt = []float64{tf + df}
			} else {
				nn.floatAlt = []float64{float64(float32(tf + df)), float64(float32(tf) + float32(df))}
			}
			setChild(r.parent, r.targetIdx, nn)
			markDirty(r.chain)
			v.note(fmt.Sprintf("inc-float-%#x", t.Raw[0]))
			return 0, ""
		case tc == ncFloat || dc == ncFloat:
			return ecType, "" // "cross-class deltas … are rejected as TYPE_MISMATCH"
		case tc == ncPosFix || tc == ncNegFix:
			return 0, "inc-fixint-target"
		case dc == ncPosFix:
			return 0, "inc-positive-fixint-delta"
		case tc == ncInt && (dc == ncInt || dc == ncNegFix):
		case tc == ncUint && dc == ncUint:
		default:
			return ecType, "" // signed vs unsigned
		}
		sum := new(big.Int).Add(intOf(t.Raw), intOf(val.node.Raw))
		code := t.Raw[0]
		var lo, hi *big.Int
		switch code {
		case 0xd0:
			lo, hi = big.NewInt(math.MinInt8), big.NewInt(math.MaxInt8)
		case 0xd1:
			lo, hi = big.NewInt(math.MinInt16), big.NewInt(math.MaxInt16)
		case 0xd2:
			lo, hi = big.NewInt(math.MinInt32), big.NewInt(math.MaxInt32)
		case 0xd3:
			lo, hi = big.NewInt(math.MinInt64), big.NewInt(math.MaxInt64)
		case 0xcc:
			lo, hi = big.NewInt(0), big.NewInt(math.MaxUint8)
		case 0xcd:
			lo, hi = big.NewInt(0), big.NewInt(math.MaxUint16)
		case 0xce:
			lo, hi = big.NewInt(0), big.NewInt(math.MaxUint32)
		default:
			lo, hi = big.NewInt(0), new(big.Int).SetUint64(math.MaxUint64)
		}
		if sum.Cmp(lo) < 0 || sum.Cmp(hi) > 0 {
			return 0, "inc-overflow"
		}
		var bits uint64
		if sum.Sign() < 0 {
			bits = uint64(sum.Int64())
		} else {
			bits = sum.Uint64()
		}
		nn := &Node{Kind: nkLeaf, Raw: encSized(code, bits), IncResult: true}
		setChild(r.parent, r.targetIdx, nn)
		markDirty(r.chain)
		v.note("inc-sized-" + fmt.Sprintf("%#x", code))
		return 0, ""

	case 3, 4: // APPEND / PREPEND
		faults |= r.fault
		if last.kind != 2 {
			faults |= ecPath // "Path must end in [] (append marker)"
		}
		if faults == 0 && r.missingAt >= 0 && !autoCreatable(r.missingAt, len(segs)-1) {
			faults |= ecPath
		}
		if faults != 0 {
			return faults, ""
		}
		nv := opaqueNode(op.Value)
		if r.appendCur {
			if op.Kind == 3 {
				r.parent.Items = append(r.parent.Items, nv)
			} else {
				r.parent.Items = append([]*Node{nv}, r.parent.Items...)
			}
			markDirty(r.chain)
			v.note("append-existing")
			return 0, ""
		}
		v.note("append-autocreate")
		// "missing array auto-creates as a single-element array" (+ intermediate maps)
		markDirty(r.chain)
		p := createChain(r.parent, r.missingAt, len(segs)-2)
		arr := &Node{Kind: nkArray, Dirty: true, Items: []*Node{nv}}
		p.Entries = append(p.Entries, mapEntry{Key: segs[len(segs)-2].field, KeyStr: true, Val: arr, New: true})
		return 0, ""

	case 5: // REMOVE_AT
		faults |= r.fault
		if last.kind != 1 {
			faults |= ecPath // "REMOVE_AT requires an [index] in the path"
		}
		if faults != 0 {
			return faults, ""
		}
		if r.target == nil {
			return 0, "remove-at-under-missing-field"
		}
		removeChild(r.parent, r.targetIdx)
		markDirty(r.chain)
		v.note("remove-at-hit")
		return 0, ""

	case 6: // REMOVE_VAL
		faults |= r.fault
		if faults != 0 {
			return faults, ""
		}
		if r.appendCur {
			return 0, "remove-val-on-append-marker"
		}
		if r.target == nil {
			return 0, "" // "Not present is a no-op" / missing field
		}
		t := r.target
		if t.Kind != nkArray {
			return ecType, ""
		}
		if t.Opaque {
			return 0, "path-enters-value-spliced-by-earlier-op"
		}
		vk := val.node.Kind
		for i, it := range t.Items {
			switch {
			case it.floatAlt != nil:
				if val.node.Kind == nkLeaf && val.node.Raw[0] == it.Raw[0] {
					return 0, "remove-val-vs-float-inc-result"
				}
			case it.Kind == nkLeaf || it.Opaque:
				if bytes.Equal(it.Raw, op.Value) {
					removeChild(t, i)
					markDirty(append(r.chain, t))
					v.note("remove-val-hit")
					return 0, ""
				}
			default: // container parsed from the body (or auto-created by an earlier op)
				if it.Kind != vk {
					continue
				}
				// "removes the first array element whose msgpack-encoded bytes equal
				// Value": asserted when the element's bytes in the body AND its
				// minimal re-encoding (what the patch emits) both equal Value; if only
				// one of the two does, the documentation does not decide.
				canon, ok := mpCanon(it)
				if !ok {
					return 0, "remove-val-container-re-encoding"
				}
				rawEq := !it.Dirty && it.Raw != nil && bytes.Equal(it.Raw, op.Value)
				canEq := bytes.Equal(canon, op.Value)
				if rawEq && canEq {
					removeChild(t, i)
					markDirty(append(r.chain, t))
					v.note("remove-val-container-element")
					return 0, ""
				}
				if rawEq || canEq {
					return 0, "remove-val-container-re-encoding"
				}
			}
		}
		v.note("remove-val-miss")
		return 0, ""

	case 7: // MERGE
		var fields []mapEntry
		if !val.empty {
			if val.node.Kind != nkMap {
				faults |= ecType // "Non-map target/value yield TYPE_MISMATCH"
			} else {
				seen := map[string]bool{}
				for _, e := range val.node.Entries {
					if !e.KeyStr {
						return 0, "merge-value-non-string-key"
					}
					if seen[e.Key] {
						return 0, "merge-value-duplicate-key"
					}
					seen[e.Key] = true
					fields = append(fields, e)
				}
			}
		}
		faults |= r.fault
		if last.kind == 2 {
			faults |= ecPath
		}
		if r.fault == 0 && r.target != nil && r.target.Kind != nkMap {
			faults |= ecType // "MERGE on a non-map target"
		}
		if faults == 0 && r.missingAt >= 0 && !autoCreatable(r.missingAt, len(segs)) {
			faults |= ecPath
		}
		if faults != 0 {
			return faults, ""
		}
		var target *Node
		if r.target != nil {
			if r.target.Opaque {
				return 0, "path-enters-value-spliced-by-earlier-op"
			}
			target = r.target
			markDirty(append(r.chain, target))
			v.note("merge-existing")
		} else {
			v.note("merge-autocreate")
			markDirty(r.chain)
			p := createChain(r.parent, r.missingAt, len(segs)-1)
			target = &Node{Kind: nkMap, Dirty: true}
			p.Entries = append(p.Entries, mapEntry{Key: last.field, KeyStr: true, Val: target, New: true})
		}
		for _, f := range fields {
			nv := opaqueNode(f.Val.Raw)
			if idx := findKey(target, f.Key); idx >= 0 {
				target.Entries[idx].Val = nv // "Conflicting keys overwrite"
			} else {
				target.Entries = append(target.Entries, mapEntry{Key: f.Key, KeyStr: true, Val: nv, New: true})
			}
		}
		return 0, ""
	}
	return 0, "unreachable"
}

// mpCanon re-encodes a model node the way the patch emits it: minimal
// container headers and key encodings, leaves and spliced values verbatim.
func mpCanon(n *Node) ([]byte, bool) {
	if n.floatAlt != nil {
		return nil, false
	}
	if n.Opaque || n.Kind == nkLeaf {
		return n.Raw, true
	}
	var out []byte
	if n.Kind == nkMap {
		out = encMapHeader(len(n.Entries), 0)
		for _, e := range n.Entries {
			out = append(out, encStrForm(e.Key, 0)...)
			c, ok := mpCanon(e.Val)
			if !ok {
				return nil, false
			}
			out = append(out, c...)
		}
		return out, true
	}
	out = encArrayHeader(len(n.Items), 0)
	for _, it := range n.Items {
		c, ok := mpCanon(it)
		if !ok {
			return nil, false
		}
		out = append(out, c...)
	}
	return out, true
}

func setChild(parent *Node, idx int, nv *Node) {
	if parent.Kind == nkMap {
		parent.Entries[idx].Val = nv
	} else {
		parent.Items[idx] = nv
	}
}

func removeChild(parent *Node, idx int) {
	if parent.Kind == nkMap {
		parent.Entries = append(parent.Entries[:idx:idx], parent.Entries[idx+1:]...)
	} else {
		parent.Items = append(parent.Items[:idx:idx], parent.Items[idx+1:]...)
	}
}

// ---------------------------------------------------------------------------
// comparison of the expected document with the produced one

func describe(n *Node) string {
	switch n.Kind {
	case nkMap:
		return fmt.Sprintf("map(%d)", len(n.Entries))
	case nkArray:
		return fmt.Sprintf("array(%d)", len(n.Items))
	}
	if len(n.Raw) > 12 {
		return fmt.Sprintf("leaf %x…(%d bytes)", n.Raw[:12], len(n.Raw))
	}
	return fmt.Sprintf("leaf %x", n.Raw)
}

// compareTree returns "" when act (parsed from the produced body) is the
// document exp: leaves and spliced values byte-exact, containers structurally
// (headers / key encodings may be re-emitted), original keys in their original
// relative order.
func compareTree(exp, act *Node, at string) string {
	if at == "" {
		at = "<root>"
	}
	if exp.floatAlt != nil {
		if act.Kind != nkLeaf || act.Raw[0] != exp.Raw[0] {
			return fmt.Sprintf("%s: INC changed the float code: want code %#x, got %s", at, exp.Raw[0], describe(act))
		}
		got := mpFloat(act.Raw)
		for _, w := range exp.floatAlt {
			if (math.IsNaN(w) && math.IsNaN(got)) || math.Float64bits(w) == math.Float64bits(got) {
				return ""
			}
		}
		return fmt.Sprintf("%s: INC result %v (%x), want one of %v", at, got, act.Raw, exp.floatAlt)
	}
	if exp.Opaque || exp.Kind == nkLeaf {
		if !bytes.Equal(exp.Raw, act.Raw) {
			return fmt.Sprintf("%s: want bytes %s, got %s", at, describe(&Node{Raw: exp.Raw}), describe(&Node{Kind: act.Kind, Raw: act.Raw, Entries: act.Entries, Items: act.Items}))
		}
		return ""
	}
	if exp.Kind != act.Kind {
		return fmt.Sprintf("%s: want %s, got %s", at, describe(exp), describe(act))
	}
	if exp.Kind == nkArray {
		if len(exp.Items) != len(act.Items) {
			return fmt.Sprintf("%s: want %s, got %s", at, describe(exp), describe(act))
		}
		for i := range exp.Items {
			if d := compareTree(exp.Items[i], act.Items[i], fmt.Sprintf("%s[%d]", at, i)); d != "" {
				return d
			}
		}
		return ""
	}
	if len(exp.Entries) != len(act.Entries) {
		return fmt.Sprintf("%s: want %s with keys %q, got %s with keys %q", at, describe(exp), keysOf(exp), describe(act), keysOf(act))
	}
	pos := map[string]int{}
	for i, e := range act.Entries {
		if !e.KeyStr {
			return fmt.Sprintf("%s: produced map has a non-string key %x", at, e.KeyRaw)
		}
		if _, dup := pos[e.Key]; dup {
			return fmt.Sprintf("%s: produced map has the key %q twice", at, e.Key)
		}
		pos[e.Key] = i
	}
	lastOrig := -1
	for _, e := range exp.Entries {
		i, ok := pos[e.Key]
		if !ok {
			return fmt.Sprintf("%s: key %q missing; produced keys %q, want %q", at, e.Key, keysOf(act), keysOf(exp))
		}
		if !e.New {
			if i < lastOrig {
				return fmt.Sprintf("%s: original key order changed: produced keys %q, want relative order of %q", at, keysOf(act), keysOf(exp))
			}
			lastOrig = i
		}
		if d := compareTree(e.Val, act.Entries[i].Val, at+"."+e.Key); d != "" {
			return d
		}
	}
	return ""
}

func keysOf(n *Node) []string {
	var k []string
	for _, e := range n.Entries {
		k = append(k, e.Key)
	}
	return k
}

// countUntouchedSized counts leaves of the body that survive untouched in the
// expected document and carry a sized-int or ext code.
func countUntouchedSized(n *Node) int {
	if n == nil || n.Opaque || n.floatAlt != nil || n.IncResult {
		return 0
	}
	switch n.Kind {
	case nkMap:
		c := 0
		for _, e := range n.Entries {
			c += countUntouchedSized(e.Val)
		}
		return c
	case nkArray:
		c := 0
		for _, it := range n.Items {
			c += countUntouchedSized(it)
		}
		return c
	}
	if len(n.Raw) == 0 {
		return 0
	}
	c := n.Raw[0]
	if (c >= 0xcc && c <= 0xd3) || (c >= 0xc7 && c <= 0xc9) || (c >= 0xd4 && c <= 0xd8) {
		return 1
	}
	return 0
}
