package codec

import (
	"bytes"
	"fmt"
	"runtime"
	"sync"
	"time"

	"github.com/hydraide/hydraide/app/core/compressor"
	"pgregory.net/rapid"

	"verifharness/internal/pbt"
)

// C24 — Compression round-trips and never hides corruption.

// PayloadSpec is a compact, JSON-safe description of an uncompressed input.
//
//	raw    : Raw bytes verbatim
//	run    : Len copies of byte Seed
//	repeat : Raw (a short pattern) repeated up to Len bytes
//	prng   : Len incompressible bytes from a xorshift stream seeded by Seed
//	text   : Len bytes of dictionary words chosen by a stream seeded by Seed
//	mixed  : alternating prng / run segments, Len bytes
type PayloadSpec struct {
	Kind string `json:"kind"`
	Len  int    `json:"len,omitempty"`
	Seed uint32 `json:"seed,omitempty"`
	Raw  []byte `json:"raw,omitempty"`
}

var c24Words = []string{"hydra", "swamp", "treasure", "the", "of", "and", "island", "catalog", "profile", "0", "1", "2024",
	"\n", ", ", "key", "value", "expired", "lock", "a", "beacon", "chronicler", "zeus", "sanctuary", "realm", "αβγ", "\t", "{\"id\":", "}"}

func xorshift(x *uint32) uint32 {
	if *x == 0 {
		*x = 0x9e3779b9
	}
	*x ^= *x << 13
	*x ^= *x >> 17
	*x ^= *x << 5
	return *x
}

func (p PayloadSpec) Bytes() []byte {
	switch p.Kind {
	case "raw":
		return append([]byte{}, p.Raw...)
	case "run":
		return bytes.Repeat([]byte{byte(p.Seed)}, p.Len)
	case "repeat":
		if len(p.Raw) == 0 {
			return make([]byte, p.Len)
		}
		b := make([]byte, p.Len)
		for i := range b {
			b[i] = p.Raw[i%len(p.Raw)]
		}
		return b
	case "prng":
		b := make([]byte, p.Len)
		x := p.Seed*2654435761 + 1
		for i := range b {
			b[i] = byte(xorshift(&x) >> 11)
		}
		return b
	case "text":
		var buf bytes.Buffer
		x := p.Seed*2654435761 + 7
		for buf.Len() < p.Len {
			buf.WriteString(c24Words[int(xorshift(&x)>>8)%len(c24Words)])
			buf.WriteByte(' ')
		}
		return buf.Bytes()[:p.Len]
	case "mixed":
		b := make([]byte, 0, p.Len)
		x := p.Seed*2654435761 + 3
		for len(b) < p.Len {
			n := int(xorshift(&x)>>8)%300 + 1
			if xorshift(&x)&1 == 0 {
				for i := 0; i < n; i++ {
					b = append(b, byte(xorshift(&x)>>9))
				}
			} else {
				b = append(b, bytes.Repeat([]byte{byte(xorshift(&x) >> 5)}, n)...)
			}
		}
		return b[:p.Len]
	}
	return nil
}

// Corruption is one damage step applied to the compressed form. Positions are
// resolved against the current length n of the damaged buffer:
// position = Off % n counted from the start (End=false) or from the end.
type Corruption struct {
	Kind  string `json:"k"` // trunc | flip | over | append | swap | del | dup
	End   bool   `json:"end,omitempty"`
	Off   int    `json:"off,omitempty"`
	Off2  int    `json:"off2,omitempty"`
	Len   int    `json:"len,omitempty"`
	Bits  []int  `json:"bits,omitempty"`  // flip: bit offsets relative to position (0..63)
	Bytes []byte `json:"bytes,omitempty"` // over / append payload
	Min   int    `json:"min,omitempty"`   // lowest offset the step may touch (open-finding exclusions)
	Tail  int    `json:"tail,omitempty"`  // number of trailing bytes the step may not touch (open-finding exclusions)
}

func (c Corruption) pos(n int) int {
	if n <= 0 {
		return 0
	}
	lo := c.Min
	if lo >= n {
		lo = n - 1
	}
	if lo < 0 {
		lo = 0
	}
	span := n - lo
	p := c.Off % span
	if c.End {
		return n - 1 - p
	}
	return lo + p
}

// apply returns the damaged copy of b. With Tail > 0 the last Tail bytes are
// protected: the step works on the prefix only (append still goes to the very end).
func (c Corruption) apply(b []byte) []byte {
	if c.Tail > 0 && c.Kind != "append" {
		if len(b)-c.Tail <= c.Min {
			return append([]byte{}, b...)
		}
		cut := len(b) - c.Tail
		c2 := c
		c2.Tail = 0
		return append(c2.apply(b[:cut]), b[cut:]...)
	}
	n := len(b)
	out := append([]byte{}, b...)
	switch c.Kind {
	case "trunc":
		if n == 0 {
			return out
		}
		p := c.pos(n)
		if c.Min > 0 && p < c.Min {
			p = c.Min
			if p > n {
				p = n
			}
		}
		return out[:p]
	case "flip":
		if n == 0 {
			return out
		}
		p := c.pos(n)
		for _, bit := range c.Bits {
			i := p + bit/8
			if i >= n {
				i = n - 1
			}
			if i < c.Min {
				continue
			}
			out[i] ^= 1 << (bit % 8)
		}
		return out
	case "over":
		if n == 0 {
			return out
		}
		p := c.pos(n)
		for i, v := range c.Bytes {
			if p+i < n {
				out[p+i] = v
			}
		}
		return out
	case "append":
		return append(out, c.Bytes...)
	case "swap":
		if n < 2 {
			return out
		}
		l := c.Len
		if l < 1 {
			l = 1
		}
		lo := c.Min
		if lo > n-2 {
			lo = n - 2
		}
		if lo < 0 {
			lo = 0
		}
		span := n - lo
		if l > span/2 {
			l = span / 2
		}
		if l < 1 {
			return out
		}
		a := lo + c.Off%(span-2*l+1)
		rest := span - (a - lo) - 2*l
		bb := a + l + c.Off2%(rest+1)
		tmp := append([]byte{}, out[a:a+l]...)
		copy(out[a:a+l], out[bb:bb+l])
		copy(out[bb:bb+l], tmp)
		return out
	case "del":
		if n < 2 {
			return out
		}
		p := c.pos(n)
		l := c.Len
		if l < 1 {
			l = 1
		}
		// never reaches the end: the tail (≥1 byte) always survives
		if p+l > n-1 {
			l = n - 1 - p
		}
		if l < 1 {
			return out
		}
		return append(out[:p], out[p+l:]...)
	case "dup":
		if n < 2 {
			return out
		}
		p := c.pos(n)
		l := c.Len
		if l < 1 {
			l = 1
		}
		if l > n/2 {
			l = n / 2
		}
		if p+l > n {
			p = n - l
		}
		win := append([]byte{}, out[p:p+l]...)
		q := c.Off2 % (n + 1)
		if q < c.Min {
			q = c.Min
			if q > n {
				q = n
			}
		}
		res := append([]byte{}, out[:q]...)
		res = append(res, win...)
		return append(res, out[q:]...)
	}
	return out
}

type C24Scenario struct {
	Alg     int          `json:"alg"` // 1 gzip, 2 lz4, 3 snappy, 4 zstd
	Payload PayloadSpec  `json:"payload"`
	Damage  []Corruption `json:"damage,omitempty"`
}

var c24AlgNames = map[int]string{1: "gzip", 2: "lz4", 3: "snappy", 4: "zstd"}

// c24Cfg controls what the generator may produce (open findings are excluded
// by construction).
type c24Cfg struct {
	maxLen       int
	damageAlgs   []int // algorithms on which the corruption clause runs
	lz4NoTrunc   bool  // no truncation / tail loss / magic damage on LZ4
	zstdNoEmpty  bool  // never truncate a zstd frame to zero bytes
	zstdKeepFlag bool  // the Content_Checksum flag of the zstd frame header descriptor keeps its value
	forceDamage  bool
	forceAlg     int
	forceKinds   []string
	onlyEmptyCut bool
	headMin      map[int]int // per algorithm: lowest offset any damage step may touch
	headOnly     bool        // offsets always within the first 13 bytes
	headBias     bool        // half of the offsets within the first 13 bytes
	zstdMaxLen   int         // > 0: largest Zstd payload (open finding zstd-stream-decoder-deadlock)
}

func c24MainCfg(report bool) c24Cfg {
	cfg := c24Cfg{maxLen: 1 << 20}
	excluded := func(what string) {
		if report {
			pbt.Excluded("C24", "main", what)
		}
	}
	for _, a := range []int{1, 2, 3, 4} {
		switch {
		case a == 1 && pbt.Open("C24", "gzip-error-swallowed"):
			excluded("damaged input for Gzip (open finding gzip-error-swallowed)")
		case a == 3 && pbt.Open("C24", "snappy-no-integrity"):
			excluded("damaged input for Snappy (open finding snappy-no-integrity)")
		default:
			cfg.damageAlgs = append(cfg.damageAlgs, a)
		}
	}
	if pbt.Open("C24", "lz4-truncation-clean-eof") {
		cfg.lz4NoTrunc = true
		excluded("LZ4: every damage except flips/overwrites/swaps inside the block payload and appended garbage (open finding lz4-truncation-clean-eof)")
	}
	if pbt.Open("C24", "zstd-stream-decoder-deadlock") {
		cfg.zstdMaxLen = 1 << 18
		excluded("Zstd payloads above 256 KiB (≥ 3 blocks), and Zstd calls that do not return are skipped, not failed (open finding zstd-stream-decoder-deadlock, timing dependent)")
	}
	if pbt.Open("C24", "zstd-header-flag-unprotected") {
		cfg.zstdKeepFlag = true
		excluded("Zstd: damage that changes the Content_Checksum flag (bit 2 of the frame header descriptor, byte 4) (open finding zstd-header-flag-unprotected)")
	}
	if pbt.Open("C24", "zstd-empty-input") {
		cfg.zstdNoEmpty = true
		excluded("Zstd: truncation to zero bytes (open finding zstd-empty-input)")
	}
	return cfg
}

// zstdKeepChecksumFlag ends the damage program of a Zstd case while the finding
// zstd-header-flag-unprotected is open: bit 2 (Content_Checksum_flag) of the
// frame header descriptor (byte 4) is put back to its original value. Every
// other damage — including the rest of that byte — stays.
var zstdKeepChecksumFlag = Corruption{Kind: "keepbit", Off: 4, Bits: []int{2}}

func genPayload(t *rapid.T, maxLen int) PayloadSpec {
	// NB rapid's integer generators are biased towards small values: the
	// common classes are listed first, the degenerate ones last.
	big := func(label string) int {
		c := rapid.IntRange(0, 19).Draw(t, label+"sz")
		switch {
		case c <= 11:
			return rapid.IntRange(2, 4096).Draw(t, label+"small")
		case c <= 16:
			return rapid.IntRange(4096, 70000).Draw(t, label+"mid")
		case c <= 18:
			return rapid.SampledFrom([]int{65536, 65535, 65537, 1 << 17}).Draw(t, label+"edge")
		default:
			return rapid.SampledFrom([]int{1 << 20, 1<<18 + 3, 1<<20 - 1}).Draw(t, label+"big")
		}
	}
	clamp := func(n int) int {
		if n > maxLen {
			return maxLen
		}
		return n
	}
	switch rapid.IntRange(0, 13).Draw(t, "pclass") {
	case 0, 1:
		return PayloadSpec{Kind: "raw", Raw: rapid.SliceOfN(rapid.Byte(), 2, 300).Draw(t, "raw")}
	case 2, 3:
		return PayloadSpec{Kind: "repeat", Len: clamp(big("rep")), Raw: rapid.SliceOfN(rapid.Byte(), 1, 40).Draw(t, "pattern")}
	case 4, 5:
		n := big("prng")
		if n > 1<<17 && rapid.IntRange(0, 3).Draw(t, "prngcap") != 3 {
			n = 1 << 17
		}
		return PayloadSpec{Kind: "prng", Len: clamp(n), Seed: rapid.Uint32().Draw(t, "seed")}
	case 6, 7:
		return PayloadSpec{Kind: "mixed", Len: clamp(big("mixed")), Seed: rapid.Uint32().Draw(t, "seed")}
	case 8, 9:
		return PayloadSpec{Kind: "text", Len: clamp(big("text")), Seed: rapid.Uint32().Draw(t, "seed")}
	case 10, 11:
		return PayloadSpec{Kind: "run", Len: clamp(big("run")), Seed: uint32(rapid.Byte().Draw(t, "runbyte"))}
	case 12:
		return PayloadSpec{Kind: "raw", Raw: []byte{rapid.Byte().Draw(t, "one")}}
	default:
		return PayloadSpec{Kind: "raw"} // empty
	}
}

func genOffset(t *rapid.T, label string) (bool, int) {
	switch rapid.IntRange(0, 5).Draw(t, label+"where") {
	case 0, 1:
		return false, rapid.IntRange(0, 40).Draw(t, label+"head")
	case 2, 3:
		return true, rapid.IntRange(0, 24).Draw(t, label+"tail")
	default:
		return false, rapid.IntRange(0, 1<<22).Draw(t, label+"any")
	}
}

func genCorruption(t *rapid.T, cfg c24Cfg, alg int) Corruption {
	kinds := []string{"trunc", "trunc", "flip", "flip", "flip", "over", "over", "append", "swap", "del", "dup"}
	if cfg.forceKinds != nil {
		kinds = cfg.forceKinds
	}
	if alg == 2 && cfg.lz4NoTrunc {
		kinds = []string{"flip", "flip", "flip", "over", "over", "append", "swap"}
	}
	var c Corruption
	c.Kind = rapid.SampledFrom(kinds).Draw(t, "ckind")
	c.End, c.Off = genOffset(t, "c")
	if alg == 2 && cfg.lz4NoTrunc {
		// only the block payload of a single-block frame may be damaged: magic,
		// descriptor, the block length at 7..10, the end mark and the checksum stay intact
		c.Min, c.Tail = 11, 8
	}
	if alg == 4 && cfg.zstdNoEmpty && c.Kind == "trunc" {
		c.Min = 1
	}
	if m := cfg.headMin[alg]; m > c.Min {
		c.Min = m
	}
	if cfg.headOnly || (cfg.headBias && rapid.Bool().Draw(t, "athead")) {
		c.End, c.Off = false, rapid.IntRange(0, 12).Draw(t, "headoff")
	}
	switch c.Kind {
	case "trunc":
		if cfg.onlyEmptyCut {
			c.End, c.Off = false, 0
		}
	case "flip":
		n := rapid.IntRange(1, 8).Draw(t, "nbits")
		for i := 0; i < n; i++ {
			c.Bits = append(c.Bits, rapid.IntRange(0, 63).Draw(t, "bit"))
		}
	case "over":
		switch rapid.IntRange(0, 2).Draw(t, "overkind") {
		case 0:
			c.Bytes = bytes.Repeat([]byte{rapid.SampledFrom([]byte{0, 0xff, 0x80, 1}).Draw(t, "fill")}, rapid.IntRange(1, 64).Draw(t, "filllen"))
		default:
			c.Bytes = rapid.SliceOfN(rapid.Byte(), 1, 64).Draw(t, "over")
		}
	case "append":
		switch rapid.IntRange(0, 2).Draw(t, "appkind") {
		case 0:
			c.Bytes = make([]byte, rapid.IntRange(1, 64).Draw(t, "zeros"))
		default:
			c.Bytes = rapid.SliceOfN(rapid.Byte(), 1, 64).Draw(t, "garbage")
		}
	case "swap":
		c.Len = rapid.IntRange(1, 64).Draw(t, "swaplen")
		c.Off2 = rapid.IntRange(0, 1<<22).Draw(t, "swapoff2")
	case "del":
		c.Len = rapid.IntRange(1, 64).Draw(t, "dellen")
	case "dup":
		c.Len = rapid.IntRange(1, 64).Draw(t, "duplen")
		c.Off2 = rapid.IntRange(0, 1<<22).Draw(t, "dupto")
	}
	return c
}

func genC24(cfg c24Cfg) func(t *rapid.T) C24Scenario {
	return func(t *rapid.T) C24Scenario {
		var s C24Scenario
		s.Alg = rapid.IntRange(1, 4).Draw(t, "alg")
		if cfg.forceAlg != 0 {
			s.Alg = cfg.forceAlg
		}
		s.Payload = genPayload(t, cfg.maxLen)
		if s.Alg == 4 && cfg.zstdMaxLen > 0 && s.Payload.Len > cfg.zstdMaxLen {
			s.Payload.Len = cfg.zstdMaxLen
		}
		damageOK := false
		for _, a := range cfg.damageAlgs {
			if a == s.Alg {
				damageOK = true
			}
		}
		if damageOK && (cfg.forceDamage || rapid.IntRange(0, 9).Draw(t, "damaged") < 8) {
			n := 1
			if !cfg.forceDamage && rapid.IntRange(0, 4).Draw(t, "multi") == 0 {
				n = rapid.IntRange(2, 3).Draw(t, "ndamage")
			}
			var tail []Corruption
			for i := 0; i < n; i++ {
				c := genCorruption(t, cfg, s.Alg)
				if c.Kind == "append" && s.Alg == 2 && cfg.lz4NoTrunc {
					tail = append(tail, c) // appended garbage last, so that the protected tail stays the frame's own
					continue
				}
				s.Damage = append(s.Damage, c)
			}
			s.Damage = append(s.Damage, tail...)
			if s.Alg == 4 && cfg.zstdKeepFlag {
				s.Damage = append(s.Damage, zstdKeepChecksumFlag)
			}
		}
		return s
	}
}

// runC24 judges one scenario against the data clauses (round trip; damaged ⇒
// error or exactly the original).
func runC24(s C24Scenario) pbt.Outcome { return runC24x(s, false) }

// runC24Alloc judges only the allocation clause (and absence of panics) for
// the damaged input.
func runC24Alloc(s C24Scenario) pbt.Outcome { return runC24x(s, true) }

func runC24x(s C24Scenario, allocOnly bool) pbt.Outcome {
	name, ok := c24AlgNames[s.Alg]
	if !ok {
		return pbt.Outcome{Skip: true}
	}
	comp := compressor.New(compressor.Type(s.Alg))
	x := s.Payload.Bytes()
	xCopy := append([]byte{}, x...)
	out := pbt.Outcome{Classes: []string{"alg:" + name}}

	c, err := comp.Compress(x)
	if err != nil {
		return pbt.Failf("compress-error", "%s: Compress(%d bytes) failed: %v", name, len(x), err)
	}
	if !bytes.Equal(x, xCopy) {
		return pbt.Failf("input-mutated", "%s: Compress modified its input", name)
	}
	cCopy := append([]byte{}, c...)
	zstdHangOpen := s.Alg == 4 && pbt.Open("C24", "zstd-stream-decoder-deadlock")
	if !allocOnly && (len(x)*31+s.Alg)%3 == 0 {
		// (one case in three: the clause costs several extra compressions)
		// A compressed form is a value: using the compressor again — the same instance, another
		// instance, another goroutine — must not change a form handed out earlier (the chronicler
		// keeps compressing blocks while earlier blocks are still being written).
		if f := c24ResultsAreValues(name, s.Alg, comp, x, c, cCopy); f != nil {
			return *f
		}
	}
	y, err, hung, pan := decompressWatched(comp, c)
	if pan != nil {
		return pbt.Failf("panic", "%s: Decompress(Compress(x)) panicked for %d-byte x: %v", name, len(x), pan)
	}
	if hung {
		if zstdHangOpen {
			pbt.Note("C24", "a zstd Decompress call did not return (open finding zstd-stream-decoder-deadlock, timing dependent); the case was skipped")
			return pbt.Outcome{Skip: true}
		}
		return pbt.Failf("hang", "%s: Decompress(Compress(x)) did not return within %s for %d-byte x (payload %s), compressed form %d bytes", name, c24HangTimeout, len(x), s.Payload.Kind, len(c))
	}
	if err != nil {
		return pbt.Failf("roundtrip-error", "%s: Decompress(Compress(x)) failed for %d-byte x: %v", name, len(x), err)
	}
	if !bytes.Equal(y, x) {
		return pbt.Failf("roundtrip-mismatch", "%s: Decompress(Compress(x)) != x: got %d bytes %s, want %d bytes %s", name, len(y), hx(y), len(x), hx(x))
	}
	if !bytes.Equal(c, cCopy) {
		return pbt.Failf("input-mutated", "%s: Decompress modified its input", name)
	}
	switch {
	case len(x) == 0:
		out.Classes = append(out.Classes, "payload:empty")
	case len(x) == 1:
		out.Classes = append(out.Classes, "payload:1-byte")
	case len(x) >= 1<<20:
		out.Classes = append(out.Classes, "payload:1MiB")
	case len(x) > 65536:
		out.Classes = append(out.Classes, "payload:>64KiB")
	}
	out.Classes = append(out.Classes, "payload:"+s.Payload.Kind)
	if len(s.Damage) == 0 {
		out.Classes = append(out.Classes, "roundtrip-only")
		return out
	}

	d := c
	for _, step := range s.Damage {
		if step.Kind == "keepbit" {
			// restore the listed bits of byte Off from the ORIGINAL compressed form
			// (exclusion of an open finding, part of the damage program)
			if step.Off < len(d) && step.Off < len(c) {
				d = append([]byte{}, d...)
				for _, bit := range step.Bits {
					m := byte(1) << (bit % 8)
					d[step.Off] = d[step.Off]&^m | c[step.Off]&m
				}
			}
			continue
		}
		d = step.apply(d)
		out.Classes = append(out.Classes, "damage:"+step.Kind)
	}
	if bytes.Equal(d, c) {
		out.Classes = append(out.Classes, "damage-was-identity")
		return out
	}
	dCopy := append([]byte{}, d...)

	measure := allocOnly && len(d) <= 64<<10
	var m0, m1 runtime.MemStats
	if measure {
		runtime.ReadMemStats(&m0)
	}
	z, derr, hung, pan := decompressWatched(comp, d)
	if hung && zstdHangOpen {
		pbt.Note("C24", "a zstd Decompress call did not return (open finding zstd-stream-decoder-deadlock, timing dependent); the case was skipped")
		return pbt.Outcome{Skip: true}
	}
	if pan != nil {
		return pbt.Failf("panic", "%s: Decompress panicked on a %d-byte damaged input %s (damage %s): %v", name, len(d), hx(d), damageString(s.Damage), pan)
	}
	if hung {
		return pbt.Failf("hang", "%s: Decompress of a %d-byte damaged input %x… did not return within %s (original form %d bytes, payload %s/%d, damage %s)",
			name, len(d), d[:min(len(d), 48)], c24HangTimeout, len(c), s.Payload.Kind, len(x), damageString(s.Damage))
	}
	if measure {
		runtime.ReadMemStats(&m1)
		if delta := m1.TotalAlloc - m0.TotalAlloc; delta > 1<<30 {
			// An allocation bound for decompression is NOT part of the property statement (C24 only demands
			// "error or the original data"): counted as a diagnostic, never reported as a violation.
			pbt.Counter("C24", "decompress_allocated_over_1GiB_for_small_damaged_input", 1)
			pbt.Note("C24", "%s: Decompress of a %d-byte damaged input %s (damage %s) allocated %d bytes", name, len(d), hx(d), damageString(s.Damage), delta)
		}
	}
	if allocOnly {
		out.NonTrivial = measure && len(d) >= 8
		if derr != nil {
			out.Classes = append(out.Classes, "damaged→error")
		}
		return out
	}
	if !bytes.Equal(d, dCopy) {
		return pbt.Failf("input-mutated", "%s: Decompress modified its (damaged) input", name)
	}
	out.NonTrivial = len(d) >= 8
	if derr != nil {
		out.Classes = append(out.Classes, "damaged→error")
		return out
	}
	if bytes.Equal(z, x) && (len(x) > 0 || len(z) == 0) {
		out.Classes = append(out.Classes, "damaged→original")
		return out
	}
	if len(z) == 0 {
		return pbt.Failf("empty-nil", "%s: damaged input (%d bytes, original compressed form %d bytes, damage %s) decompressed to EMPTY data with a nil error; original was %d bytes %s",
			name, len(d), len(c), damageString(s.Damage), len(x), hx(x))
	}
	return pbt.Failf("wrong-data", "%s: damaged input (%d bytes, original compressed form %d bytes, damage %s) decompressed to DIFFERENT data with a nil error: got %d bytes %s, original %d bytes %s",
		name, len(d), len(c), damageString(s.Damage), len(z), hx(z), len(x), hx(x))
}

// c24HangTimeout bounds one Decompress call of a damaged input (the largest
// inputs decompress in milliseconds; the bound is generous for loaded machines).
const c24HangTimeout = 120 * time.Second

// decompressWatched runs Decompress in its own goroutine so that a call that
// never returns is reported instead of stalling the whole check. (The blocked
// goroutine is leaked; the run ends with the failure anyway.)
// c24ResultsAreValues compresses other payloads (sequentially with the same and a fresh instance, then
// from three goroutines with instances of their own) while the form c of x is held, and checks that c
// stays what it was and that every form still decompresses to its own payload.
func c24ResultsAreValues(name string, alg int, comp compressor.Compressor, x, c, cCopy []byte) *pbt.Outcome {
	variant := func(k int) []byte {
		v := make([]byte, 0, len(x)+2)
		for i := len(x) - 1; i >= 0; i-- {
			v = append(v, x[i]^byte(k))
		}
		return append(v, 0xA5, byte(k))
	}
	fail := func(shape, format string, a ...any) *pbt.Outcome {
		o := pbt.Failf(shape, format, a...)
		return &o
	}
	type held struct{ x, c, cc []byte }
	hs := []held{{x, c, cCopy}}
	for k, cm := range []compressor.Compressor{comp, compressor.New(compressor.Type(alg))} {
		v := variant(k + 1)
		cv, err := cm.Compress(v)
		if err != nil {
			return fail("compress-error", "%s: Compress(%d bytes) failed: %v", name, len(v), err)
		}
		hs = append(hs, held{v, cv, append([]byte{}, cv...)})
		for i, h := range hs {
			if !bytes.Equal(h.c, h.cc) {
				return fail("result-aliased", "%s: the compressed form returned by Compress call #%d (%d-byte payload) changed when Compress was called again (call #%d, %d-byte payload): was %s, is %s",
					name, i+1, len(h.x), len(hs), len(v), hx(h.cc), hx(h.c))
			}
		}
	}
	if len(x) > 1<<16 {
		return nil
	}
	var wg sync.WaitGroup
	errs := make([]string, 3)
	for g := 0; g < 3; g++ {
		wg.Add(1)
		go func(g int) {
			defer wg.Done()
			defer func() {
				if r := recover(); r != nil {
					errs[g] = fmt.Sprintf("panic: %v", r)
				}
			}()
			cm := compressor.New(compressor.Type(alg))
			for r := 0; r < 2; r++ {
				v := variant(16 + 4*g + r)
				cv, err := cm.Compress(v)
				if err != nil {
					errs[g] = fmt.Sprintf("Compress failed: %v", err)
					return
				}
				runtime.Gosched()
				z, err := cm.Decompress(cv)
				if err != nil || !bytes.Equal(z, v) {
					errs[g] = fmt.Sprintf("Decompress(Compress(v)) of a %d-byte v while two other goroutines do the same with other payloads: err=%v, got %d bytes %s, want %s", len(v), err, len(z), hx(z), hx(v))
					return
				}
			}
		}(g)
	}
	wg.Wait()
	for _, e := range errs {
		if e != "" {
			return fail("concurrent-roundtrip", "%s: %s", name, e)
		}
	}
	if !bytes.Equal(c, cCopy) {
		return fail("result-aliased", "%s: the compressed form of the %d-byte payload changed while other goroutines compressed other payloads: was %s, is %s", name, len(x), hx(cCopy), hx(c))
	}
	return nil
}

func decompressWatched(comp compressor.Compressor, d []byte) (z []byte, err error, hung bool, pan any) {
	type res struct {
		z   []byte
		err error
		pan any
	}
	ch := make(chan res, 1)
	go func() {
		var r res
		defer func() {
			if p := recover(); p != nil {
				r.pan = p
			}
			ch <- r
		}()
		r.z, r.err = comp.Decompress(d)
	}()
	select {
	case r := <-ch:
		return r.z, r.err, false, r.pan
	case <-time.After(pbt.Bound(c24HangTimeout)):
		return nil, nil, true, nil
	}
}

func damageString(ds []Corruption) string {
	var b bytes.Buffer
	for i, d := range ds {
		if i > 0 {
			b.WriteString("+")
		}
		fmt.Fprintf(&b, "%s(end=%v,off=%d,len=%d,bits=%v,%d bytes)", d.Kind, d.End, d.Off, d.Len, d.Bits, len(d.Bytes))
	}
	return b.String()
}

func hx(b []byte) string {
	if len(b) > 12 {
		return fmt.Sprintf("%x…", b[:12])
	}
	return fmt.Sprintf("%x", b)
}
