package codec

import (
	"testing"

	"pgregory.net/rapid"

	"verifharness/internal/pbt"
)

// Native fuzzing of the structural patch (thorough tier only).
//
// opsEnc layout: flags(1) [cond: op(1) pathLen(1) path thrLen(1) thr]
// then up to 6 × { kind(1) pathLen(1) path valLen(1) val }.

func c13EncodeFuzz(s C13Scenario) (blob, opsEnc []byte) {
	clip := func(b []byte) []byte {
		if len(b) > 255 {
			return b[:255]
		}
		return b
	}
	var e []byte
	if s.Cond != nil {
		e = append(e, 1, byte(s.Cond.Op), byte(len(clip([]byte(s.Cond.Path)))))
		e = append(e, clip([]byte(s.Cond.Path))...)
		e = append(e, byte(len(clip(s.Cond.Threshold))))
		e = append(e, clip(s.Cond.Threshold)...)
	} else {
		e = append(e, 0)
	}
	for _, o := range s.Ops {
		e = append(e, byte(o.Kind), byte(len(clip([]byte(o.Path)))))
		e = append(e, clip([]byte(o.Path))...)
		e = append(e, byte(len(clip(o.Value))))
		e = append(e, clip(o.Value)...)
	}
	return s.Body, e
}

func c13DecodeFuzz(blob, e []byte) C13Scenario {
	s := C13Scenario{Body: blob}
	take := func(n int) []byte {
		if n > len(e) {
			n = len(e)
		}
		b := e[:n]
		e = e[n:]
		return b
	}
	one := func() (byte, bool) {
		if len(e) == 0 {
			return 0, false
		}
		b := e[0]
		e = e[1:]
		return b, true
	}
	flags, ok := one()
	if !ok {
		return s
	}
	if flags&1 == 1 {
		op, _ := one()
		pl, _ := one()
		path := string(take(int(pl)))
		tl, _ := one()
		thr := append([]byte(nil), take(int(tl))...)
		s.Cond = &CondS{Path: path, Op: int(op % 9), Threshold: thr}
	}
	for len(s.Ops) < 6 {
		k, ok := one()
		if !ok {
			break
		}
		pl, _ := one()
		path := string(take(int(pl)))
		vl, _ := one()
		val := append([]byte(nil), take(int(vl))...)
		s.Ops = append(s.Ops, OpS{Kind: int(k % 9), Path: path, Value: val})
	}
	return s
}

// c13Excluded reports whether the scenario carries the trigger of an open
// finding (excluded from the fuzz domain exactly like from the main generator).
func c13Excluded(s C13Scenario, cfg c13Cfg) bool {
	for _, o := range s.Ops {
		if o.Kind == 1 || o.Kind == 5 || len(o.Value) == 0 {
			continue
		}
		vi := judgeValue(o.Value)
		if vi.malformed && !cfg.malformedValues {
			return true
		}
		if o.Kind == 6 && !cfg.containerRemoveV && vi.node != nil && vi.node.Kind != nkLeaf {
			return true
		}
	}
	if s.Cond != nil && !cfg.nanCompare && s.Cond.Op <= 5 {
		if hasNaNPrefix(s.Cond.Threshold) {
			return true
		}
		if root, err := mpParseOne(s.Body); err == nil {
			if segs, invalid, _ := parsePathModel(s.Cond.Path); !invalid {
				if r := resolve(root, segs); r.target != nil && r.target.Kind == nkLeaf && isNaNLeaf(r.target.Raw) {
					return true
				}
			}
		}
	}
	return false
}

// hasNaNPrefix: the threshold decodes (leniently, trailing bytes ignored) to a float NaN.
func hasNaNPrefix(b []byte) bool {
	switch {
	case len(b) >= 5 && b[0] == 0xca:
		return isNaNLeaf(b[:5])
	case len(b) >= 9 && b[0] == 0xcb:
		return isNaNLeaf(b[:9])
	}
	return false
}

func FuzzC13Apply(f *testing.F) {
	cfg := c13MainCfg(false)
	gen := rapid.Custom(genC13(cfg))
	for i := 0; i < 60; i++ {
		blob, enc := c13EncodeFuzz(gen.Example(i))
		f.Add(blob, enc)
	}
	f.Add([]byte{0x81, 0xa1, 'a', 0x92, 0x01, 0x02}, []byte{0, 3, 3, 'a', '[', ']', 1, 0x03, 5, 4, 'a', '[', '0', ']', 0})
	f.Fuzz(func(t *testing.T, blob, opsEnc []byte) {
		if len(blob) > 1<<16 {
			return
		}
		s := c13DecodeFuzz(blob, opsEnc)
		if c13Excluded(s, cfg) {
			return
		}
		o := runC13(s) // bodies outside the domain (malformed, non-map, duplicate keys) are skipped before the real code runs
		if o.Fail != "" {
			t.Fatalf("[%s] %s", o.Shape, o.Fail)
		}
	})
}

func TestC13NativeFuzz(t *testing.T) {
	e := pbt.GetEnv()
	if e.Tier != "thorough" || e.Shard != 0 || e.Replay != "" {
		t.Skip("native fuzzing runs in the thorough tier (shard 0) only")
	}
	defer pbt.Flush()
	cfg := c13MainCfg(false)
	nativeFuzz(t, "C13", "main", "FuzzC13Apply", 540, func(args [][]byte) (pbt.Outcome, any) {
		var opsEnc []byte
		if len(args) > 1 {
			opsEnc = args[1]
		}
		s := c13DecodeFuzz(args[0], opsEnc)
		if c13Excluded(s, cfg) {
			return pbt.Outcome{}, s
		}
		return runC13(s), s
	})
}
