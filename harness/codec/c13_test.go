package codec

import (
	"bytes"
	"encoding/json"
	"errors"
	"fmt"
	"os"
	"os/exec"
	"strings"
	"syscall"
	"testing"

	"github.com/hydraide/hydraide/app/core/hydra/swamp/treasure/msgpackpatch"
	"pgregory.net/rapid"

	"verifharness/internal/pbt"
)

// C13 — Structural patch matches its documented semantics.

func classifyErr(err error) uint8 {
	switch {
	case err == nil:
		return 0
	case errors.Is(err, msgpackpatch.ErrConditionNotMet):
		return ecCond
	case errors.Is(err, msgpackpatch.ErrTypeMismatch):
		return ecType
	case errors.Is(err, msgpackpatch.ErrPathInvalid):
		return ecPath
	case errors.Is(err, msgpackpatch.ErrInvalidOp):
		return ecInvalidOp
	case errors.Is(err, msgpackpatch.ErrInvalidMsgpack):
		return ecMsgpack
	case errors.Is(err, msgpackpatch.ErrNonStringKey):
		return ecNonStringKey
	}
	return ecOther
}

func realOps(s C13Scenario) ([]msgpackpatch.Op, *msgpackpatch.Condition) {
	ops := make([]msgpackpatch.Op, len(s.Ops))
	for i, o := range s.Ops {
		ops[i] = msgpackpatch.Op{Kind: msgpackpatch.OpKind(o.Kind), Path: o.Path, Value: append([]byte(nil), o.Value...)}
	}
	var cond *msgpackpatch.Condition
	if s.Cond != nil {
		cond = &msgpackpatch.Condition{Path: s.Cond.Path, Op: msgpackpatch.CondOp(s.Cond.Op), Threshold: append([]byte(nil), s.Cond.Threshold...)}
	}
	return ops, cond
}

// hugeCountValue reports a value whose map32 header declares more entries than
// the value has bytes. As a MERGE value (extractTopLevelFields pre-allocates the
// declared count) or as a condition threshold compared with a str/bin/bool leaf
// (msgpack.Unmarshal → DecodeMap pre-allocates the declared count) it makes the
// process die with an unrecoverable out-of-memory error, so such scenarios are
// only ever executed in a child process (facet hugecount).
func hugeCountValue(v []byte) bool {
	if len(v) >= 5 && v[0] == 0xdf {
		n := uint64(v[1])<<24 | uint64(v[2])<<16 | uint64(v[3])<<8 | uint64(v[4])
		return n > uint64(len(v))
	}
	return false
}

func scenarioWouldKillProcess(s C13Scenario) bool {
	for _, o := range s.Ops {
		if o.Kind == 7 && hugeCountValue(o.Value) {
			return true
		}
	}
	return s.Cond != nil && hugeCountValue(s.Cond.Threshold)
}

// c13InChild is set in the child process of the hugecount facet.
var c13InChild bool

func runC13(s C13Scenario) pbt.Outcome {
	var out pbt.Outcome
	v := modelApply(s)
	if v.skip != "" {
		return pbt.Outcome{Skip: true}
	}
	if scenarioWouldKillProcess(s) && !c13InChild {
		return pbt.Outcome{Skip: true}
	}
	body := append([]byte(nil), s.Body...)
	ops, cond := realOps(s)
	got, err := msgpackpatch.ApplyWithCondition(body, ops, cond)

	for _, o := range s.Ops {
		out.Classes = append(out.Classes, "op:"+opName(o.Kind))
	}
	if s.Cond != nil {
		out.Classes = append(out.Classes, "has-cond")
		if s.Cond.Op >= 0 && s.Cond.Op < 8 {
			out.Classes = append(out.Classes, "cond:"+condNames[s.Cond.Op])
		}
	}
	if v.valuesMalformed {
		out.Classes = append(out.Classes, "has-malformed-value")
	}

	// --- generic clauses (hold whatever the documentation says about the result)
	if !bytes.Equal(body, s.Body) {
		return pbt.Failf("input-mutated", "the caller's body slice was modified (err=%v): before %x after %x", err, s.Body, body)
	}
	for i := range ops {
		if !bytes.Equal(ops[i].Value, s.Ops[i].Value) {
			return pbt.Failf("input-mutated", "op %d: the caller's Value slice was modified", i)
		}
	}
	if err != nil && len(got) != 0 {
		return pbt.Failf("partial-result", "error %v returned together with %d result bytes", err, len(got))
	}
	var act *Node
	if err == nil {
		var perr error
		act, perr = mpParseOne(got)
		if perr != nil {
			return pbt.Failf("malformed-output", "success reported but the produced body is not one well-formed msgpack value (%v): body %x ops %s → %x", perr, s.Body, opsString(s), got)
		}
	}
	if s.Cond == nil {
		got2, err2 := msgpackpatch.Apply(append([]byte(nil), s.Body...), ops)
		if classifyErr(err) != classifyErr(err2) || !bytes.Equal(got, got2) {
			return pbt.Failf("apply-differs", "Apply and ApplyWithCondition(nil) disagree: %x/%v vs %x/%v", got2, err2, got, err)
		}
	}

	// --- documented semantics
	if v.unspec != "" {
		out.Classes = append(out.Classes, "unspecified", "unspec:"+v.unspec)
		return out
	}
	gotClass := classifyErr(err)
	if v.errSet != 0 {
		where := "the condition"
		if v.failOp >= 0 {
			where = fmt.Sprintf("op %d (%s %q)", v.failOp, opName(s.Ops[v.failOp].Kind), s.Ops[v.failOp].Path)
		}
		if err == nil {
			return pbt.Failf("unexpected-success", "documented outcome is %s at %s, but the patch succeeded: body %x ops %s cond %s → %x",
				ecString(v.errSet), where, s.Body, opsString(s), condString(s), got)
		}
		if gotClass&v.errSet == 0 {
			return pbt.Failf("wrong-error-class", "documented outcome is %s at %s, got %q: body %x ops %s cond %s",
				ecString(v.errSet), where, err.Error(), s.Body, opsString(s), condString(s))
		}
		out.Classes = append(out.Classes, "outcome:"+ecString(gotClass))
	} else {
		if err != nil {
			return pbt.Failf("unexpected-error", "documented outcome is success, got %q: body %x ops %s cond %s", err.Error(), s.Body, opsString(s), condString(s))
		}
		if d := compareTree(v.doc, act, ""); d != "" {
			return pbt.Failf("mismatch", "produced document differs from the documented result at %s: body %x ops %s cond %s → %x", d, s.Body, opsString(s), condString(s), got)
		}
		out.Classes = append(out.Classes, "outcome:success")
	}
	for _, n := range v.notes {
		out.Classes = append(out.Classes, n)
	}
	untouched := 0
	if v.doc != nil {
		untouched = countUntouchedSized(v.doc)
	} else if root, perr := mpParseOne(s.Body); perr == nil {
		untouched = countUntouchedSized(root)
	}
	out.NonTrivial = len(s.Ops) >= 2 && v.nested && untouched >= 1
	return out
}

func opsString(s C13Scenario) string {
	var b bytes.Buffer
	b.WriteString("[")
	for i, o := range s.Ops {
		if i > 0 {
			b.WriteString(", ")
		}
		fmt.Fprintf(&b, "%s %q", opName(o.Kind), o.Path)
		if len(o.Value) > 24 {
			fmt.Fprintf(&b, " %x…(%d bytes)", o.Value[:24], len(o.Value))
		} else if o.Value != nil {
			fmt.Fprintf(&b, " %x", o.Value)
		}
	}
	b.WriteString("]")
	return b.String()
}

func condString(s C13Scenario) string {
	if s.Cond == nil {
		return "none"
	}
	op := fmt.Sprint(s.Cond.Op)
	if s.Cond.Op >= 0 && s.Cond.Op < 8 {
		op = condNames[s.Cond.Op]
	}
	return fmt.Sprintf("%s %q %x", op, s.Cond.Path, s.Cond.Threshold)
}

const c13Rule = "byte-level msgpack map bodies (0–17 entries, nesting ≤ 4, unique keys, every leaf code: fixints, (u)int8–64, float32/64 incl. NaN/±Inf/−0, nil, bool, " +
	"fixstr/str8/16/32, bin8/16/32, fixext/ext8/16/32, timestamps; minimal and wider-than-necessary headers) × 0–6 ops of all 8 kinds whose paths are derived from the body " +
	"(existing leaf/container, missing final, missing intermediates, in/out-of-range and negative indices, [] on array/map/leaf/missing, through-leaf, malformed syntax) " +
	"with values well-formed / empty / (10%) malformed × optional condition (8 comparators; thresholds equal, neighbouring, other class, malformed); judged against an independent " +
	"ordered-tree model of the documented semantics (error class ∈ documented set, or tree equality with untouched leaves and spliced values byte-exact); where the documentation is " +
	"silent only the generic clauses are asserted (class unspec:*); non-trivial = ≥2 ops, ≥1 path with ≥2 segments, ≥1 untouched sized-int/ext leaf, outcome specified; distinct = hash of the scenario"

func c13MainCfg(report bool) c13Cfg {
	cfg := c13Cfg{malformedValues: true, nanCompare: true, containerRemoveV: true}
	ex := func(what string) {
		if report {
			pbt.Excluded("C13", "main", what)
		}
	}
	if pbt.Open("C13", "malformed-op-value-spliced") {
		cfg.malformedValues = false
		ex("non-empty op values that are not exactly one msgpack value (open finding malformed-op-value-spliced)")
	}
	if pbt.Open("C13", "nan-compares-equal") {
		cfg.nanCompare = false
		ex("comparator conditions with a NaN target or threshold (open finding nan-compares-equal)")
	}
	if pbt.Open("C13", "remove-val-skips-containers") {
		cfg.containerRemoveV = false
		ex("REMOVE_VAL with a container value (open finding remove-val-skips-containers)")
	}
	if pbt.Open("C13", "merge-value-huge-count-oom") {
		ex("MERGE values / thresholds whose map32 header declares more entries than they have bytes (open finding merge-value-huge-count-oom; only ever run in a child process, facet hugecount)")
	}
	return cfg
}

func TestC13Main(t *testing.T) {
	pbt.Main(t, pbt.Spec[C13Scenario]{
		ID: "C13", Facet: "main", Rule: c13Rule,
		Quick: 100000, Thorough: 6000000,
		Gen: genC13(c13MainCfg(true)), Run: runC13,
	})
}

// --- witnesses ---------------------------------------------------------------

func TestC13WitnessMalformedValue(t *testing.T) {
	cfg := c13MainCfg(false)
	cfg.malformedValues, cfg.forceMalformed = true, true
	pbt.Witness(t, pbt.Spec[C13Scenario]{
		ID: "C13", Facet: "witness-malformed-value", Rule: "main generator with half of the op values malformed (truncated / trailing bytes / two values / reserved code 0xc1)",
		Quick: 3000, Thorough: 30000, Gen: genC13(cfg), Run: runC13,
	}, "malformed-op-value-spliced", "malformed-output")
}

func TestC13WitnessNaN(t *testing.T) {
	cfg := c13MainCfg(false)
	cfg.nanCompare, cfg.forceNaN = true, true
	gen := func(t *rapid.T) C13Scenario {
		s := genC13(cfg)(t)
		s.Ops = nil // the finding shows in the condition's verdict alone
		// make sure a float leaf exists, else fall back to a canned body
		if v := viewOf(s.Body); len(v.leaves) == 0 || !hasFloat(v) {
			s.Body = append([]byte{0x81, 0xa1, 'f'}, encF64(1.5)...)
			s.Cond.Path = "f"
		}
		return s
	}
	pbt.Witness(t, pbt.Spec[C13Scenario]{
		ID: "C13", Facet: "witness-nan", Rule: "main generator with a comparator condition whose target or threshold is a float NaN",
		Quick: 2000, Thorough: 20000, Gen: gen, Run: runC13,
	}, "nan-compares-equal", "unexpected-success", "unexpected-error")
}

func hasFloat(v bodyView) bool {
	for _, p := range v.leaves {
		if mpNumClass(p.node.Raw[0]) == ncFloat {
			return true
		}
	}
	return false
}

func TestC13WitnessRemoveValContainer(t *testing.T) {
	cfg := c13MainCfg(false)
	cfg.containerRemoveV, cfg.forceContainerRV = true, true
	cfg.maxOps = 1 // a missed removal would cascade into later ops of the same patch
	gen := func(t *rapid.T) C13Scenario {
		s := genC13(cfg)(t)
		if rapid.IntRange(0, 3).Draw(t, "canned") == 0 {
			// {"a": [[1,2], 3]} REMOVE_VAL a [1,2]
			s = C13Scenario{Body: []byte{0x81, 0xa1, 'a', 0x92, 0x92, 0x01, 0x02, 0x03}, Ops: []OpS{{Kind: 6, Path: "a", Value: []byte{0x92, 0x01, 0x02}}}}
		}
		return s
	}
	pbt.Witness(t, pbt.Spec[C13Scenario]{
		ID: "C13", Facet: "witness-removeval-container", Rule: "main generator with REMOVE_VAL forced onto arrays, value = exact bytes of a container element",
		Quick: 3000, Thorough: 30000, Gen: gen, Run: runC13,
	}, "remove-val-skips-containers", "mismatch")
}

// --- huge declared counts: executed in a child process only --------------------

type c13ChildResult struct {
	Fail  string `json:"fail"`
	Shape string `json:"shape"`
	Skip  bool   `json:"skip"`
}

// TestC13ChildHugeCount is the child side: it runs one scenario given in
// VERIF_C13_CHILD under a 1 GiB address-space limit and prints the outcome.
func TestC13ChildHugeCount(t *testing.T) {
	js := os.Getenv("VERIF_C13_CHILD")
	if js == "" {
		t.Skip("child side of the hugecount facet")
	}
	lim := syscall.Rlimit{Cur: 1 << 30, Max: 1 << 30}
	_ = syscall.Setrlimit(syscall.RLIMIT_AS, &lim)
	var s C13Scenario
	if err := json.Unmarshal([]byte(js), &s); err != nil {
		fmt.Println("CHILD-ERROR bad scenario")
		return
	}
	c13InChild = true
	o := runC13(s)
	b, _ := json.Marshal(c13ChildResult{Fail: o.Fail, Shape: o.Shape, Skip: o.Skip})
	fmt.Println("CHILD-OUTCOME " + string(b))
}

func runC13InChild(s C13Scenario) pbt.Outcome {
	bin := os.Getenv("VERIF_BIN")
	if bin == "" {
		bin = os.Args[0]
	}
	js, _ := json.Marshal(s)
	// The address-space limit also binds the Go runtime's own mappings (one stack reservation per OS
	// thread, GC workers, …). On a busy machine the runtime spawns more threads and can fail a small
	// runtime mapping ("cannot allocate memory") although the code under test allocated nothing
	// unusual. The child therefore runs with GOMAXPROCS=2, and an out-of-memory death only counts when
	// it happens in three attempts out of three — an allocation sized by the forged count dies every time.
	var text string
	var err error
	for attempt := 0; attempt < 3; attempt++ {
		cmd := exec.Command(bin, "-test.run=^TestC13ChildHugeCount$", "-test.count=1", "-test.v", "-test.timeout=120s")
		cmd.Env = append(os.Environ(), "VERIF_C13_CHILD="+string(js), "VERIF_STATS_OUT=", "VERIF_REPLAY=", "GOMAXPROCS=2")
		var out []byte
		out, err = cmd.CombinedOutput()
		text = string(out)
		if strings.Contains(text, "CHILD-OUTCOME ") || !(strings.Contains(text, "out of memory") || strings.Contains(text, "cannot allocate memory")) {
			break
		}
		if attempt < 2 {
			pbt.Counter("C13", "hugecount_child_oom_deaths_retried", 1)
		}
	}
	if i := strings.Index(text, "CHILD-OUTCOME "); i >= 0 {
		ln := text[i+len("CHILD-OUTCOME "):]
		if j := strings.IndexByte(ln, '\n'); j >= 0 {
			ln = ln[:j]
		}
		var r c13ChildResult
		if json.Unmarshal([]byte(ln), &r) == nil {
			if r.Fail != "" {
				return pbt.Outcome{Fail: r.Fail, Shape: r.Shape}
			}
			return pbt.Outcome{NonTrivial: !r.Skip, Classes: []string{"child-completed"}}
		}
	}
	if strings.Contains(text, "out of memory") || strings.Contains(text, "cannot allocate memory") {
		first := text
		for _, pat := range []string{"runtime: out of memory", "fatal error: runtime: cannot allocate memory"} {
			if i := strings.Index(first, pat); i >= 0 {
				first = first[i:]
				break
			}
		}
		if j := strings.IndexByte(first, '\n'); j >= 0 {
			first = first[:j]
		}
		return pbt.Failf("fatal-oom", "the process died with an unrecoverable out-of-memory error (%s) on body %x ops %s cond %s", first, s.Body, opsString(s), condString(s))
	}
	if len(text) > 600 {
		text = text[len(text)-600:]
	}
	return pbt.Failf("child-crash", "child process failed (%v): %s", err, text)
}

func genC13HugeCount(t *rapid.T) C13Scenario {
	// {"m": {"a": 1}, "s": "x", "n": int32 5}
	s := C13Scenario{Body: []byte{0x83, 0xa1, 'm', 0x81, 0xa1, 'a', 0x01, 0xa1, 's', 0xa1, 'x', 0xa1, 'n', 0xd2, 0, 0, 0, 5}}
	huge := append([]byte{0xdf}, rapid.SampledFrom([][]byte{{0xff, 0xff, 0xff, 0xff}, {0x7f, 0xff, 0xff, 0xff}, {0x40, 0, 0, 0}, {0x04, 0, 0, 0}}).Draw(t, "count")...)
	if rapid.Bool().Draw(t, "withentry") {
		huge = append(huge, 0xa1, 'k', 0x01)
	}
	if rapid.Bool().Draw(t, "viamerge") {
		s.Ops = []OpS{{Kind: 7, Path: rapid.SampledFrom([]string{"m", "fresh", "m.deep"}).Draw(t, "mpath"), Value: huge}}
	} else {
		s.Cond = &CondS{Path: "s", Op: rapid.IntRange(0, 5).Draw(t, "cmp"), Threshold: huge}
		s.Ops = []OpS{{Kind: 0, Path: "n", Value: []byte{0x01}}}
	}
	return s
}

func TestC13HugeCount(t *testing.T) {
	sp := pbt.Spec[C13Scenario]{
		ID: "C13", Facet: "hugecount",
		Rule: "fixed small body; a MERGE value or a comparator threshold (against a str leaf) that is a map32 header declaring 2^26..2^32-1 entries followed by 0–1 entries; " +
			"each case runs in a child process under a 1 GiB address-space limit; the documented outcome is unspecified (malformed value), asserted: the process survives and every generic clause holds",
		Quick: 8, Thorough: 32, Gen: genC13HugeCount, Run: runC13InChild,
	}
	if pbt.Open("C13", "merge-value-huge-count-oom") {
		pbt.Witness(t, sp, "merge-value-huge-count-oom", "fatal-oom")
		return
	}
	pbt.Main(t, sp)
}
