package codec

import (
	"bytes"
	"runtime"
	"testing"
	"time"

	"github.com/hydraide/hydraide/app/core/compressor"

	"pgregory.net/rapid"

	"verifharness/internal/pbt"
)

const c24Rule = "payloads: empty, 1 byte, ≤300 random bytes, byte runs, short pattern repeated, incompressible PRNG stream, dictionary text, " +
	"mixed run/noise — 0..1 MiB biased to 0..4 KiB and to 64 KiB/1 MiB boundaries × {Gzip, LZ4, Snappy, Zstd}; every case checks " +
	"Decompress(Compress(x)) == x with nil error; 80% of the cases on algorithms without an open finding also damage the compressed form by " +
	"1–3 steps of truncate / flip 1–8 bits / overwrite ≤64-byte window / append ≤64 garbage bytes / swap two regions / delete window / " +
	"duplicate window (offsets biased to the first 40 and last 24 bytes) and require (error) or (exactly x), never empty/different data with a nil error; " +
	"non-trivial = damaged form differs from the compressed form and is ≥ 8 bytes; distinct = hash of the scenario"

func TestC24Main(t *testing.T) {
	cfg := c24MainCfg(true)
	pbt.Main(t, pbt.Spec[C24Scenario]{
		ID: "C24", Facet: "main", Rule: c24Rule,
		Quick: 4000, Thorough: 400000,
		Gen: genC24(cfg), Run: runC24,
	})
}

// --- allocation clause (DESIGN.md oracle; not part of the property statement) --

const c24AllocRule = "main generator with ≥1 damage step forced on all four algorithms, payload ≤ 64 KiB; asserts only: no panic (the TotalAlloc delta of Decompress(damaged) is measured and counted as a diagnostic, it is not part of the statement) " +
	"; non-trivial = damaged form ≥ 8 bytes and differs"

func c24AllocCfg() c24Cfg {
	cfg := c24Cfg{maxLen: 1 << 16, damageAlgs: []int{1, 2, 3, 4}, forceDamage: true, headBias: true}
	// damage to the Snappy length varint (bytes 0-4) and the Zstd frame header (bytes 0-8) makes the libraries
	// allocate the declared size (> 1 GiB); that is outside the property statement and only slows the run down
	cfg.headMin = map[int]int{3: 5, 4: 9}
	return cfg
}

func TestC24Alloc(t *testing.T) {
	pbt.Main(t, pbt.Spec[C24Scenario]{
		ID: "C24", Facet: "alloc", Rule: c24AllocRule,
		Quick: 2500, Thorough: 150000,
		Gen: genC24(c24AllocCfg()), Run: runC24Alloc,
	})
}

// --- witnesses of open findings -------------------------------------------

// Gzip: every kind of damage makes decompressGzip return its *outer* (nil)
// err instead of e1/e2, i.e. (nil, nil).
func TestC24WitnessGzip(t *testing.T) {
	cfg := c24Cfg{maxLen: 1 << 16, damageAlgs: []int{1}, forceDamage: true, forceAlg: 1}
	pbt.Witness(t, pbt.Spec[C24Scenario]{
		ID: "C24", Facet: "witness-gzip", Rule: "main generator restricted to Gzip, exactly one damage step forced",
		Quick: 400, Thorough: 4000, Gen: genC24(cfg), Run: runC24,
	}, "gzip-error-swallowed", "empty-nil")
}

// Snappy block format: no checksum, a flipped literal byte decodes silently.
func TestC24WitnessSnappy(t *testing.T) {
	cfg := c24Cfg{maxLen: 1 << 16, damageAlgs: []int{3}, forceDamage: true, forceAlg: 3, forceKinds: []string{"flip", "over", "swap"}}
	pbt.Witness(t, pbt.Spec[C24Scenario]{
		ID: "C24", Facet: "witness-snappy", Rule: "main generator restricted to Snappy, one flip/overwrite/swap step forced",
		Quick: 400, Thorough: 4000, Gen: genC24(cfg), Run: runC24,
	}, "snappy-no-integrity", "wrong-data", "empty-nil")
}

// LZ4 (pierrec/lz4 v2 frame reader + io.ReadAll): input that ends on a frame
// field boundary is reported as a clean EOF.
func TestC24WitnessLZ4(t *testing.T) {
	cfg := c24Cfg{maxLen: 1 << 16, damageAlgs: []int{2}, forceDamage: true, forceAlg: 2, forceKinds: []string{"trunc", "flip"}}
	gen := func(t *rapid.T) C24Scenario {
		s := genC24(cfg)(t)
		if s.Damage[0].Kind == "flip" {
			// the magic 04 22 4d 18 becomes a skippable-frame magic
			s.Damage = []Corruption{{Kind: "flip", Off: 1, Bits: []int{3}}}
		} else {
			s.Damage[0].End = false
			s.Damage[0].Off = rapid.SampledFrom([]int{0, 4, 6, 7, 11}).Draw(t, "cut")
		}
		return s
	}
	pbt.Witness(t, pbt.Spec[C24Scenario]{
		ID: "C24", Facet: "witness-lz4", Rule: "LZ4 only: truncation at offset 0/4/6/7/11 (frame field boundaries) or magic byte 1 bit 3 flipped",
		Quick: 300, Thorough: 3000, Gen: gen, Run: runC24,
	}, "lz4-truncation-clean-eof", "empty-nil", "wrong-data")
}

// LZ4 multi-block input cut at a block boundary: a strict prefix is returned
// with a nil error. One deterministic case (9 MiB incompressible payload).
func TestC24WitnessLZ4Prefix(t *testing.T) {
	gen := func(t *rapid.T) C24Scenario {
		nblocks := rapid.IntRange(1, 2).Draw(t, "blocks")
		return C24Scenario{Alg: 2, Payload: PayloadSpec{Kind: "prng", Len: 9 << 20, Seed: 1},
			Damage: []Corruption{{Kind: "trunc", Off: 7 + nblocks*(4+(4<<20))}}}
	}
	pbt.Witness(t, pbt.Spec[C24Scenario]{
		ID: "C24", Facet: "witness-lz4-prefix", Rule: "LZ4, 9 MiB incompressible payload (3 blocks of 4 MiB), cut after block 1 or 2",
		Quick: 2, Thorough: 4, Gen: gen, Run: runC24,
	}, "lz4-truncation-clean-eof", "wrong-data")
}

// Zstd: DecodeAll of a zero-length input is (nil, nil).
func TestC24WitnessZstdEmpty(t *testing.T) {
	cfg := c24Cfg{maxLen: 1 << 16, damageAlgs: []int{4}, forceDamage: true, forceAlg: 4, forceKinds: []string{"trunc"}, onlyEmptyCut: true}
	pbt.Witness(t, pbt.Spec[C24Scenario]{
		ID: "C24", Facet: "witness-zstd-empty", Rule: "Zstd only: compressed form truncated to zero bytes",
		Quick: 60, Thorough: 600, Gen: genC24(cfg), Run: runC24,
	}, "zstd-empty-input", "empty-nil")
}

// Zstd: the frame header is outside the content checksum and the checksum is
// optional via a header flag: clearing Content_Checksum_flag (byte 4 bit 2)
// makes the decoder stop verifying, and (absent a frame content size, which the
// encoder omits for payloads ≤ 1 KiB) a second flipped bit in a block header
// then changes the data silently — e.g. raw block size 3 → 7 returns the four
// checksum bytes as data.
func TestC24WitnessZstdFlag(t *testing.T) {
	gen := func(t *rapid.T) C24Scenario {
		s := C24Scenario{Alg: 4, Payload: PayloadSpec{Kind: "raw", Raw: rapid.SliceOfN(rapid.Byte(), 1, 40).Draw(t, "raw")}}
		s.Damage = []Corruption{{Kind: "flip", Off: 4, Bits: []int{2}}}
		// second damage: 1–2 bits of the block header's size field (byte 6, bits 3..7) or anywhere
		if rapid.IntRange(0, 3).Draw(t, "where") != 3 {
			n := rapid.IntRange(1, 2).Draw(t, "nbits")
			var bits []int
			for i := 0; i < n; i++ {
				bits = append(bits, rapid.IntRange(3, 7).Draw(t, "sizebit"))
			}
			s.Damage = append(s.Damage, Corruption{Kind: "flip", Off: 6, Bits: bits})
		} else {
			// Min 5: never wraps back onto the descriptor byte (its size-flag bits would
			// declare a multi-GiB content size — another matter, and slow under load)
			s.Damage = append(s.Damage, Corruption{Kind: "flip", Min: 5, Off: rapid.IntRange(0, 60).Draw(t, "off"), Bits: []int{rapid.IntRange(0, 7).Draw(t, "bit")}})
		}
		return s
	}
	pbt.Witness(t, pbt.Spec[C24Scenario]{
		ID: "C24", Facet: "witness-zstd-flag", Rule: "Zstd only, 1–40 byte payloads: Content_Checksum flag (byte 4 bit 2) cleared plus 1–2 flipped bits in the first block header's size field or one flipped bit elsewhere",
		Quick: 400, Thorough: 4000, Gen: gen, Run: runC24,
	}, "zstd-header-flag-unprotected", "wrong-data", "empty-nil")
}

// Zstd: decompressZstd builds a STREAMING decoder over the input (zstd.NewReader(r)),
// never reads or closes it, and then calls DecodeAll on the same Decoder. For
// multi-block input the stream goroutines stay parked forever holding block
// decoders (leak per call); if they grab all of them before DecodeAll takes one,
// Decompress never returns (timing dependent).
type C24Leak struct {
	Len   int `json:"len"`
	Calls int `json:"calls"`
}

func runC24Leak(s C24Leak) pbt.Outcome {
	comp := compressor.New(compressor.Zstd)
	x := PayloadSpec{Kind: "run", Len: s.Len, Seed: 7}.Bytes()
	c, err := comp.Compress(x)
	if err != nil {
		return pbt.Failf("compress-error", "%v", err)
	}
	time.Sleep(50 * time.Millisecond)
	before := runtime.NumGoroutine()
	for i := 0; i < s.Calls; i++ {
		y, derr, hung, pan := decompressWatched(comp, c)
		if pan != nil {
			return pbt.Failf("panic", "%v", pan)
		}
		if hung {
			return pbt.Failf("hang", "zstd: Decompress of the VALID %d-byte compressed form of a %d-byte run payload did not return within %s (call %d)", len(c), s.Len, c24HangTimeout, i)
		}
		if derr != nil || !bytes.Equal(y, x) {
			return pbt.Failf("roundtrip-mismatch", "zstd: round trip failed: %v", derr)
		}
	}
	time.Sleep(300 * time.Millisecond)
	after := runtime.NumGoroutine()
	if after-before >= s.Calls {
		return pbt.Failf("stream-decoder-left-running", "zstd: %d Decompress calls on the %d-byte compressed form of a %d-byte run payload left %d goroutines parked forever in zstd.(*Decoder).startStreamDecoder (they hold the Decoder's block decoders; when they win all of them DecodeAll blocks for good)",
			s.Calls, len(c), s.Len, after-before)
	}
	return pbt.Outcome{NonTrivial: true, Classes: []string{"no-leak"}}
}

func TestC24ZstdStream(t *testing.T) {
	sp := pbt.Spec[C24Leak]{
		ID: "C24", Facet: "zstd-stream",
		Rule:  "Zstd only: 20–60 Decompress calls on the valid compressed form of a 512 KiB–1 MiB run payload (4–8 blocks), each under a watchdog; asserted: every call returns the payload and no goroutine stays parked afterwards",
		Quick: 3, Thorough: 12,
		Gen: func(t *rapid.T) C24Leak {
			return C24Leak{Len: rapid.SampledFrom([]int{1 << 20, 1 << 19, 3 << 18}).Draw(t, "len"), Calls: rapid.SampledFrom([]int{20, 40, 60}).Draw(t, "calls")}
		},
		Run: runC24Leak,
	}
	if pbt.Open("C24", "zstd-stream-decoder-deadlock") {
		pbt.Witness(t, sp, "zstd-stream-decoder-deadlock", "hang", "stream-decoder-left-running")
		return
	}
	pbt.Main(t, sp)
}

// --- native fuzzing (thorough tier only) -----------------------------------

// c24FromFuzz decodes fuzz bytes into a scenario of the main facet's domain:
// data[0] = algorithm, data[1] = number of damage steps (0..3), then 8 bytes
// per step, the rest is the payload. Open findings are excluded exactly as in
// the main generator.
func c24FromFuzz(cfg c24Cfg, data []byte) C24Scenario {
	var s C24Scenario
	if len(data) < 2 {
		return C24Scenario{Alg: 4, Payload: PayloadSpec{Kind: "raw", Raw: data}}
	}
	s.Alg = int(data[0])%4 + 1
	n := int(data[1]) % 4
	rest := data[2:]
	damageOK := false
	for _, a := range cfg.damageAlgs {
		if a == s.Alg {
			damageOK = true
		}
	}
	var tail []Corruption
	for i := 0; i < n && len(rest) >= 8; i++ {
		b := rest[:8]
		rest = rest[8:]
		if !damageOK {
			continue
		}
		kinds := []string{"trunc", "flip", "over", "append", "swap", "del", "dup"}
		if s.Alg == 2 && cfg.lz4NoTrunc {
			kinds = []string{"flip", "over", "append", "swap"}
		}
		c := Corruption{Kind: kinds[int(b[0])%len(kinds)], End: b[1]&1 == 1, Off: int(b[2]) | int(b[3])<<8, Len: int(b[4])%64 + 1, Off2: int(b[5])<<8 | int(b[6])}
		if b[1]&2 == 2 {
			c.Off %= 41
		}
		switch c.Kind {
		case "flip":
			c.Bits = []int{int(b[5]) % 64}
			if b[4]&1 == 1 {
				c.Bits = append(c.Bits, int(b[6])%64)
			}
			if b[4]&2 == 2 {
				c.Bits = append(c.Bits, int(b[7])%64)
			}
		case "over", "append":
			for j := 0; j < c.Len; j++ {
				c.Bytes = append(c.Bytes, b[5+j%3]+byte(j)*(b[1]>>2))
			}
		}
		if s.Alg == 2 && cfg.lz4NoTrunc {
			c.Min, c.Tail = 11, 8
			if c.Kind == "append" {
				tail = append(tail, c)
				continue
			}
		}
		if s.Alg == 4 && cfg.zstdNoEmpty && c.Kind == "trunc" {
			c.Min = 1
		}
		s.Damage = append(s.Damage, c)
	}
	s.Damage = append(s.Damage, tail...)
	if s.Alg == 4 && cfg.zstdKeepFlag && len(s.Damage) > 0 {
		s.Damage = append(s.Damage, zstdKeepChecksumFlag)
	}
	if len(rest) > 1<<20 {
		rest = rest[:1<<20]
	}
	if s.Alg == 4 && cfg.zstdMaxLen > 0 && len(rest) > cfg.zstdMaxLen {
		rest = rest[:cfg.zstdMaxLen]
	}
	s.Payload = PayloadSpec{Kind: "raw", Raw: rest}
	return s
}

func FuzzC24Decompress(f *testing.F) {
	cfg := c24MainCfg(false)
	for alg := byte(0); alg < 4; alg++ {
		f.Add([]byte{alg, 0})
		f.Add(append([]byte{alg, 1, 1, 0, 9, 0, 3, 5, 17, 40}, []byte("hello hello hello hello world, this is some text 0123456789")...))
		f.Add(append([]byte{alg, 2, 2, 2, 4, 0, 7, 255, 0, 128, 0, 1, 3, 0, 1, 0, 0, 0}, make([]byte, 3000)...))
		f.Add(append([]byte{alg, 1, 4, 0, 30, 0, 12, 0, 90, 1}, PayloadSpec{Kind: "text", Len: 5000, Seed: 9}.Bytes()...))
		f.Add(append([]byte{alg, 1, 3, 0, 0, 0, 12, 40, 77, 1}, PayloadSpec{Kind: "prng", Len: 700, Seed: 3}.Bytes()...))
	}
	f.Fuzz(func(t *testing.T, data []byte) {
		o := runC24(c24FromFuzz(cfg, data))
		if o.Fail != "" {
			t.Fatalf("[%s] %s", o.Shape, o.Fail)
		}
	})
}

func TestC24NativeFuzz(t *testing.T) {
	e := pbt.GetEnv()
	if e.Tier != "thorough" || e.Shard != 0 || e.Replay != "" {
		t.Skip("native fuzzing runs in the thorough tier (shard 0) only")
	}
	defer pbt.Flush()
	cfg := c24MainCfg(false)
	nativeFuzz(t, "C24", "main", "FuzzC24Decompress", 420, func(args [][]byte) (pbt.Outcome, any) {
		s := c24FromFuzz(cfg, args[0])
		return runC24(s), s
	})
}
