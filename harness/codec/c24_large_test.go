package codec

import (
	"bytes"
	"fmt"
	"testing"

	"github.com/hydraide/hydraide/app/core/compressor"
	"pgregory.net/rapid"

	"verifharness/internal/pbt"
)

// C24 (large facet) — the round-trip clause for payloads of tens of megabytes.
//
// "For every compression algorithm and every payload, decompress(compress(x)) = x" has no size
// limit in it, and size-dependent code (internal windows, length fields, safety caps) only shows
// above its threshold. The main facet stops at a few MiB, so this facet draws sizes 2^k + d for
// k = 20..27 and d in {-1, 0, +1}; the four fixed inputs under replays/C24/large (128 MiB + 1 per
// algorithm) run first on every check. Payloads are cheap to build and compress well (a 4 KiB
// pseudo-random block repeated, with the block index stamped in, so that a chunk dropped or
// duplicated anywhere changes the content), which keeps a case at about a second.

type C24Large struct {
	Alg  int    `json:"alg"`
	Size int    `json:"size"`
	Salt uint32 `json:"salt"`
}

func c24LargePayload(size int, salt uint32) []byte {
	x := make([]byte, size)
	var block [4096]byte
	s := salt | 1
	for i := range block {
		block[i] = byte(xorshift(&s) >> 24)
	}
	for off, n := 0, 0; off < size; off, n = off+len(block), n+1 {
		c := copy(x[off:], block[:])
		if c >= 8 {
			// stamp the block number: no two blocks are equal
			x[off], x[off+1], x[off+2], x[off+3] = byte(n), byte(n>>8), byte(n>>16), byte(n>>24)
		}
	}
	return x
}

func genC24Large(t *rapid.T) C24Large {
	k := rapid.IntRange(20, 27).Draw(t, "k")
	d := rapid.IntRange(-1, 1).Draw(t, "d")
	return C24Large{Alg: rapid.IntRange(1, 4).Draw(t, "alg"), Size: 1<<k + d, Salt: rapid.Uint32().Draw(t, "salt")}
}

func runC24Large(s C24Large) pbt.Outcome {
	name, ok := c24AlgNames[s.Alg]
	if !ok || s.Size < 0 || s.Size > 1<<28 {
		return pbt.Outcome{Skip: true}
	}
	if pbt.GetEnv().Shard != 0 && pbt.GetEnv().Replay == "" {
		// a case holds about 3x its size in memory: one shard is enough
		return pbt.Outcome{Skip: true}
	}
	comp := compressor.New(compressor.Type(s.Alg))
	x := c24LargePayload(s.Size, s.Salt)
	c, err := comp.Compress(x)
	if err != nil {
		return pbt.Failf("compress-error", "%s: Compress(%d bytes) failed: %v", name, len(x), err)
	}
	y, err, hung, pan := decompressWatched(comp, c)
	if pan != nil {
		return pbt.Failf("panic", "%s: Decompress(Compress(x)) panicked for %d-byte x: %v", name, len(x), pan)
	}
	if hung {
		return pbt.Failf("hang", "%s: Decompress(Compress(x)) did not return within %s for %d-byte x", name, pbt.Bound(c24HangTimeout), len(x))
	}
	if err != nil {
		return pbt.Failf("roundtrip-error", "%s: Decompress(Compress(x)) failed for %d-byte x (compressed form %d bytes): %v", name, len(x), len(c), err)
	}
	if !bytes.Equal(y, x) {
		at := 0
		for at < len(x) && at < len(y) && x[at] == y[at] {
			at++
		}
		return pbt.Failf("roundtrip-mismatch", "%s: Decompress(Compress(x)) != x for %d-byte x: got %d bytes, first difference at offset %d (compressed form %d bytes, no error reported)", name, len(x), len(y), at, len(c))
	}
	cls := "size<=16MiB"
	switch {
	case s.Size > 64<<20:
		cls = "size>64MiB"
	case s.Size > 16<<20:
		cls = "size>16MiB"
	}
	return pbt.Outcome{NonTrivial: s.Size >= 1<<22, Classes: []string{"alg:" + name, cls, fmt.Sprintf("size=2^%d%+d", log2near(s.Size), s.Size-1<<log2near(s.Size))}}
}

func log2near(n int) int {
	k := 0
	for 1<<(k+1) <= n+1 {
		k++
	}
	return k
}

func TestC24Large(t *testing.T) {
	pbt.Main(t, pbt.Spec[C24Large]{
		ID: "C24", Facet: "large",
		Rule: "round-trip only, payload sizes 2^k + d (k = 20..27, d in {-1,0,+1}) of a stamped repeating 4 KiB block, all four algorithms; the fixed inputs replays/C24/large/* " +
			"(128 MiB + 1 per algorithm) run first; runs in shard 0 only (memory); non-trivial = size >= 4 MiB",
		Quick: 32, Thorough: 256, // per shard: /shards; only shard 0 runs them
		Gen: genC24Large, Run: runC24Large,
		Sample: func(s C24Large) any { return s },
	})
}
