//go:build verifvfs

package storage

import (
	"fmt"
	"os"
	"strings"
	"testing"

	"github.com/hydraide/hydraide/app/verifshim/vfs"
	"pgregory.net/rapid"

	"verifharness/internal/pbt"
)

// C25 — Disk write failures never corrupt durable data.
//
// The C02 history generator drives the real chronicler under the vfs shim with
// a fault plan: the n-th file operation fails (ENOSPC/EIO), or a write stores
// only a prefix of its bytes and then fails. Faults are one-shot (the fault
// "clears"), the history continues, is closed and reloaded.

type FaultSpec struct {
	Pos   uint16 `json:"pos"`   // which faultable operation (mod their number in the dry run)
	Short uint16 `json:"short"` // 0 = fail without effect; otherwise short write of (Short mod len) bytes
	// Sticky > 0: the next Sticky operations of the same kind fail as well (the device does not recover
	// between two attempts) — the only way to reach code that retries a failed operation.
	Sticky uint8 `json:"sticky,omitempty"`
}

type C25Scenario struct {
	Hist  C02Scenario   `json:"hist"`
	Plans [][]FaultSpec `json:"plans"` // each plan = 1 or 2 faults
	All   bool          `json:"all"`   // additionally: every single fault at every faultable operation
	Long  bool          `json:"long,omitempty"`
}

func genC25(t *rapid.T) C25Scenario {
	var s C25Scenario
	s.Hist = genC02(t)
	s.Hist.TornAll = false
	if rapid.IntRange(0, 3).Draw(t, "long") == 0 {
		// A long history over few keys with small payloads: the file collects >= 100 entries of which more
		// than half are dead, so the chronicler's INLINE compaction (close writer, Compactor.Compact with
		// its temp file, fsyncs and rename, reopen writer) runs in the middle of the session — the only
		// place where the storage engine renames, and where a fault hits a writer that is re-created
		// behind the caller's back.
		lc := genCfg{maxKeyLen: 8, maxOps: 140, maxData: 40, structural: []string{"batch", "sync"}, minKeys: 1, maxKeys: 3}
		s.Hist.Keys = genKeys(t, lc)
		s.Hist.Ops = append(genOps(t, lc, len(s.Hist.Keys), 64), genOps(t, lc, len(s.Hist.Keys), 64)...)
		s.Long = true
	}
	np := rapid.IntRange(2, 5).Draw(t, "nplans")
	for i := 0; i < np; i++ {
		nf := 1
		if rapid.IntRange(0, 2).Draw(t, "double") == 0 {
			nf = 2
		}
		var p []FaultSpec
		for j := 0; j < nf; j++ {
			f := FaultSpec{Pos: rapid.Uint16().Draw(t, "pos")}
			if rapid.Bool().Draw(t, "short") {
				f.Short = 1 + rapid.Uint16Max(2000).Draw(t, "shortn")
			}
			if rapid.IntRange(0, 2).Draw(t, "sticky") == 0 {
				f.Sticky = uint8(rapid.IntRange(1, 3).Draw(t, "stickyn"))
			}
			p = append(p, f)
		}
		s.Plans = append(s.Plans, p)
	}
	s.All = pbt.GetEnv().Tier == "thorough" && rapid.IntRange(0, 2).Draw(t, "all") == 0
	return s
}

func faultable(o vfs.Op) bool {
	switch o.Kind {
	case "create", "open", "write", "sync", "rename", "remove", "truncate":
		return true
	}
	return false
}

type c25Entry struct {
	entryStep
	startLen, endLen int // op-log length before / after the Write call that handed it over
	seq              int // harness event number of that Write call
}

type c25Run struct {
	entries []c25Entry
	marks   []int // op-log length at each successful Sync/Close
	markSeq []int // harness event number of each successful Sync/Close
	ops     []vfs.Op
}

func driveChronFaulted(dir string, s C02Scenario, faults map[int]vfs.Fault) *c25Run {
	run := &c25Run{}
	vfs.Start(dir, faults)
	keyStr := make([]string, len(s.Keys))
	for i, k := range s.Keys {
		keyStr[i] = k.String()
		if keyStr[i] == "" {
			keyStr[i] = "e"
		}
	}
	// what the swamp would report as its number of live records (drives the inline compaction decision)
	liveKeys := map[string]bool{}
	liveCount := func() int { return len(liveKeys) }
	c := newChron(dir, s.Cfg)
	c.RegisterLiveCountFunction(liveCount)
	ver := 0
	mk := func(o Op) entryStep {
		ver++
		k := keyStr[o.Key%len(keyStr)]
		if o.Kind == "del" {
			return entryStep{key: k, del: true}
		}
		return entryStep{key: k, content: versioned(ver, o.Data.Bytes())}
	}
	seq := 0
	write := func(es []entryStep) {
		seq++
		st := vfs.Len()
		for _, e := range es {
			if e.del {
				delete(liveKeys, e.key)
			} else {
				liveKeys[e.key] = true
			}
		}
		c.Write(toTreasures(es))
		en := vfs.Len()
		for _, e := range es {
			run.entries = append(run.entries, c25Entry{e, st, en, seq})
		}
	}
	mark := func() {
		seq++
		run.marks = append(run.marks, vfs.Len())
		run.markSeq = append(run.markSeq, seq)
	}
	for _, o := range s.Ops {
		switch o.Kind {
		case "put", "del":
			write([]entryStep{mk(o)})
		case "batch":
			var es []entryStep
			for _, so := range o.Sub {
				es = append(es, mk(so))
			}
			write(es)
		case "sync":
			if err := c.Sync(); err == nil {
				mark()
			}
		case "reopen":
			if err := c.Close(); err == nil {
				mark()
			}
			_, c = loadAll(dir, s.Cfg)
			c.RegisterLiveCountFunction(liveCount)
		}
	}
	if err := c.Close(); err == nil {
		mark()
	} else {
		// the engine reported the failure; a second Close must not make things worse
		if err2 := c.Close(); err2 == nil {
			mark()
		}
	}
	run.ops, _ = vfs.Stop()
	return run
}

const absentMark = "\x00<absent>"

func runC25(s C25Scenario) pbt.Outcome {
	base := scratchDir()
	defer os.RemoveAll(base)
	// dry run: learn the operation sequence
	dry := base + "/dry"
	os.MkdirAll(dry, 0o755)
	d := driveChronFaulted(dry, s.Hist, nil)
	var fidx []int
	for i, o := range d.ops {
		if faultable(o) {
			fidx = append(fidx, i)
		}
	}
	if len(fidx) == 0 {
		return pbt.Outcome{Skip: true}
	}
	type plan map[int]vfs.Fault
	var plans []plan
	for _, p := range s.Plans {
		pl := plan{}
		for _, f := range p {
			i := fidx[int(f.Pos)%len(fidx)]
			flt := vfs.Fault{Sticky: int(f.Sticky)}
			if f.Short > 0 && d.ops[i].Kind == "write" && len(d.ops[i].Data) > 1 {
				flt.Short = 1 + int(f.Short)%(len(d.ops[i].Data)-1)
			}
			pl[i] = flt
		}
		plans = append(plans, pl)
	}
	// The inline compaction of a long history is a handful of operations among hundreds: aim single
	// (and, for rename/sync, persistent) faults at every faultable operation from the creation of the
	// temp file to a few operations past the rename (the writer is re-created there).
	for i, o := range d.ops {
		if o.Kind != "rename" {
			continue
		}
		lo := i
		for lo > 0 && !(d.ops[lo].Kind == "create" && strings.HasSuffix(d.ops[lo].Path, ".compact")) && i-lo < 40 {
			lo--
		}
		lo -= 8 // the writer is flushed, its header rewritten and fsynced right before the temp file is created
		if lo < 0 {
			lo = 0
		}
		for j := lo; j <= i+4 && j < len(d.ops); j++ {
			if !faultable(d.ops[j]) {
				continue
			}
			plans = append(plans, plan{j: vfs.Fault{}})
			if d.ops[j].Kind == "rename" || d.ops[j].Kind == "sync" {
				plans = append(plans, plan{j: vfs.Fault{Sticky: 2}})
			}
		}
		break // the first compaction of the history is enough
	}
	if s.All {
		for _, i := range fidx {
			plans = append(plans, plan{i: vfs.Fault{}})
			if d.ops[i].Kind == "write" && len(d.ops[i].Data) > 1 {
				plans = append(plans, plan{i: vfs.Fault{Short: len(d.ops[i].Data) / 2}})
			}
		}
	}
	var out pbt.Outcome
	fired, nontriv := 0, 0
	renameFaulted, stickyFired := false, false
	for pi, pl := range plans {
		dir := fmt.Sprintf("%s/p%d", base, pi)
		os.MkdirAll(dir, 0o755)
		run := driveChronFaulted(dir, s.Hist, pl)
		var failedOps []int
		for i, o := range run.ops {
			if o.Failed {
				failedOps = append(failedOps, i)
			}
		}
		if len(failedOps) == 0 {
			os.RemoveAll(dir)
			continue
		}
		fired++
		if len(failedOps) > len(pl) {
			stickyFired = true
		}
		for _, fo := range failedOps {
			if run.ops[fo].Kind == "rename" {
				renameFaulted = true
			}
		}
		faultBetween := func(a, b int) bool { // a failed op with index in [a, b)
			for _, f := range failedOps {
				if f >= a && f < b {
					return true
				}
			}
			return false
		}
		allowed := map[string]map[string]bool{}
		certainCount, uncertainCount := 0, 0
		for _, e := range run.entries {
			certain := false
			for mi, m := range run.marks {
				if run.markSeq[mi] > e.seq && !faultBetween(e.startLen, m) {
					certain = true
					break
				}
			}
			v := absentMark
			if !e.del {
				v = string(e.content)
			}
			if certain {
				allowed[e.key] = map[string]bool{v: true}
				certainCount++
			} else {
				if allowed[e.key] == nil {
					allowed[e.key] = map[string]bool{absentMark: true}
				}
				allowed[e.key][v] = true
				uncertainCount++
			}
		}
		got, c2 := loadAll(dir, s.Hist.Cfg)
		desc := func() string {
			out := ""
			for n, fo := range failedOps {
				sh := ""
				if run.ops[fo].Kind == "write" {
					sh = fmt.Sprintf(" (%d of the bytes stored)", len(run.ops[fo].Data))
				}
				if n > 0 {
					out += " + "
				}
				out += fmt.Sprintf("fault at op %d/%d: %s%s", fo, len(run.ops), opDesc(run.ops, fo), sh)
			}
			return out
		}
		for k, al := range allowed {
			g, ok := got[k]
			v := absentMark
			if ok {
				v = string(g)
			}
			if !al[v] {
				c2.Close()
				shape := "lost-or-wrong-after-fault"
				if len(got) == 0 {
					shape = "empty-after-fault"
				}
				var ids []uint64
				for a := range al {
					if a == absentMark {
						ids = append(ids, 0)
					} else if len(a) >= 8 {
						ids = append(ids, leU64([]byte(a)))
					}
				}
				gid := uint64(0)
				if ok && len(g) >= 8 {
					gid = leU64(g)
				}
				pbt.Note("C25", "loaded version %d, allowed versions %v (0 = absent)", gid, ids)
				return pbt.Failf(shape, "%s; after the history finished and the swamp was reloaded, key %s is %s, which is neither its durable value nor any attempted write (%d keys loaded, %d acknowledged entries, %d uncertain)",
					desc(), shortKey(k), presence(ok), len(got), certainCount, uncertainCount)
			}
		}
		for k := range got {
			if _, ok := allowed[k]; !ok {
				c2.Close()
				return pbt.Failf("invented-key", "%s; reload returned key %s that was never written", desc(), shortKey(k))
			}
		}
		// the fault has cleared: more writes + close + reload must work
		want := map[string][]byte{}
		for k, v := range got {
			want[k] = v
		}
		var es []entryStep
		for i, o := range s.Hist.Post {
			key := s.Hist.Keys[o.Key%len(s.Hist.Keys)].String()
			if key == "" {
				key = "e"
			}
			if o.Kind == "del" {
				es = append(es, entryStep{key: key, del: true})
				delete(want, key)
			} else if o.Kind == "put" {
				cnt := versioned(2_000_000+i, o.Data.Bytes())
				es = append(es, entryStep{key: key, content: cnt})
				want[key] = cnt
			}
		}
		c2.Write(toTreasures(es))
		if err := c2.Close(); err != nil {
			return pbt.Failf("post-fault-write", "%s; Close after later writes failed: %v", desc(), err)
		}
		got2, c3 := loadAll(dir, s.Hist.Cfg)
		c3.Close()
		if !sameState(got2, want) {
			return pbt.Failf("post-fault-write", "%s; writes made after the fault cleared are not recoverable: reload has %d keys, want %d (%s)", desc(), len(got2), len(want), diffKeys(got2, want))
		}
		if nl := nameLost(dir, s.Hist.Cfg); nl != "" {
			return pbt.Failf("name-lost", "%s; after the fault cleared, later writes and a clean close the records are back but %s", desc(), nl)
		}
		// non-trivial: the fault hit a block write or header rewrite with ≥1 block before and ≥1 after
		fo := failedOps[0]
		if run.ops[fo].Kind == "write" && certainCount > 0 {
			nontriv++
		}
		os.RemoveAll(dir)
	}
	pbt.Counter("C25", "fault_plans_fired", fired)
	pbt.Counter("C25", "fault_plans_total", len(plans))
	out.NonTrivial = nontriv > 0
	if s.All {
		out.Classes = append(out.Classes, "all-single-faults")
	}
	if fired > 0 {
		out.Classes = append(out.Classes, "fault-fired")
	}
	for _, o := range d.ops {
		if o.Kind == "rename" {
			out.Classes = append(out.Classes, "history-with-compaction")
			break
		}
	}
	if renameFaulted {
		out.Classes = append(out.Classes, "fault-on-compaction-rename")
	}
	if stickyFired {
		out.Classes = append(out.Classes, "persistent-fault-hit-a-second-operation")
	}
	return out
}

func presence(ok bool) string {
	if ok {
		return "an unexpected version"
	}
	return "missing"
}

const c25Rule = "C02's history generator through the real chronicler under the vfs shim with a fault plan drawn from the operations of a fault-free dry run: 2–5 plans per history, " +
	"each 1–2 one-shot faults {operation fails without effect | write stores a prefix then fails} on create/open/write/sync (thorough: additionally EVERY single fault at EVERY " +
	"faultable operation for a third of the histories); after the history finishes the swamp is reloaded: every key must hold its acknowledged value (acknowledged = covered by a " +
	"Sync/Close that returned nil with no fault in between) or, for unacknowledged writes, the previous acknowledged value or any attempted one; then more writes + close + reload " +
	"must work; non-trivial = a write operation was faulted while acknowledged data existed"

func TestC25Main(t *testing.T) {
	pbt.Main(t, pbt.Spec[C25Scenario]{
		ID: "C25", Facet: "main", Rule: c25Rule,
		Quick: 1500, Thorough: 40000,
		Gen: genC25, Run: runC25,
	})
}

func leU64(b []byte) uint64 {
	var v uint64
	for i := 7; i >= 0; i-- {
		v = v<<8 | uint64(b[i])
	}
	return v
}
