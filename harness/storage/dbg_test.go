//go:build verifvfs

package storage

import (
	"encoding/json"
	"fmt"
	"os"
	"testing"

	"github.com/hydraide/hydraide/app/verifshim/vfs"
	"verifharness/internal/hydfmt"
	"verifharness/internal/pbt"
)

// Developer aid: DBG_FILE=<replay.json> DBG_FAULTS='{"2":{"Short":5}}' go test -run TestDbgC25 -v
func TestDbgC25(t *testing.T) {
	if os.Getenv("DBG_FILE") == "" {
		t.Skip()
	}
	b, _ := os.ReadFile(os.Getenv("DBG_FILE"))
	var rf pbt.ReplayFile
	json.Unmarshal(b, &rf)
	var s C25Scenario
	json.Unmarshal(rf.Scenario, &s)
	dir := scratchDir()
	defer os.RemoveAll(dir)
	faults := map[int]vfs.Fault{}
	json.Unmarshal([]byte(os.Getenv("DBG_FAULTS")), &faults)
	run := driveChronFaulted(dir, s.Hist, faults)
	for i, o := range run.ops {
		fmt.Printf("%d %s %s off=%d len=%d failed=%v\n", i, o.Kind, o.Path, o.Off, len(o.Data), o.Failed)
	}
	fmt.Println("marks", run.marks, run.markSeq)
	for _, e := range run.entries {
		fmt.Println(e.key, e.del, e.startLen, e.endLen, e.seq)
	}
	fi, _ := os.Stat(hydPath(dir))
	fmt.Println("size", fi.Size())
	fb, _ := os.ReadFile(hydPath(dir))
	_, _, blocks, stop, clean, err := hydfmt.DecodeFile(fb)
	fmt.Println("indep decode: blocks", len(blocks), "stop", stop, "clean", clean, err)
	got, _ := loadAll(dir, s.Hist.Cfg)
	for k, v := range got {
		fmt.Println("loaded", k, leU64(v))
	}
}
