package storage

import (
	"bytes"
	"fmt"

	"pgregory.net/rapid"
)

// KeySpec is a compact, JSON-safe description of a key: Prefix bytes followed
// by Pad copies of 'k'. (Keys may be binary and up to 70 000 bytes long.)
type KeySpec struct {
	Prefix []byte `json:"p"`
	Pad    int    `json:"pad,omitempty"`
}

func (k KeySpec) String() string {
	if k.Pad == 0 {
		return string(k.Prefix)
	}
	return string(k.Prefix) + string(bytes.Repeat([]byte{'k'}, k.Pad))
}

// DataSpec describes a payload: Len bytes derived deterministically from Seed.
// Mode 0 = incompressible pseudo-random, 1 = repetitive, 2 = all zero bytes.
type DataSpec struct {
	Len  int   `json:"len"`
	Seed uint8 `json:"seed"`
	Mode uint8 `json:"mode,omitempty"`
}

func (d DataSpec) Bytes() []byte {
	b := make([]byte, d.Len)
	switch d.Mode % 3 {
	case 0:
		x := uint32(d.Seed)*2654435761 + 12345
		for i := range b {
			x ^= x << 13
			x ^= x >> 17
			x ^= x << 5
			b[i] = byte(x)
		}
	case 1:
		for i := range b {
			b[i] = d.Seed + byte(i%7)
		}
	case 2:
		// zeros
	}
	if d.Len > 0 {
		b[0] = d.Seed // make the value identifiable
	}
	return b
}

// Op is one step of a storage history.
type Op struct {
	Kind string   `json:"k"`           // put | del | flush | sync | reopen | batch
	Ins  bool     `json:"ins,omitempty"` // put: OpInsert instead of OpUpdate
	Key  int      `json:"key"`           // index into Scenario.Keys
	Data DataSpec `json:"d"`
	Sub  []Op     `json:"sub,omitempty"` // batch members (put/del only)
}

func (o Op) String() string {
	switch o.Kind {
	case "put":
		return fmt.Sprintf("put(k%d,len=%d,seed=%d)", o.Key, o.Data.Len, o.Data.Seed)
	case "del":
		return fmt.Sprintf("del(k%d)", o.Key)
	case "batch":
		return fmt.Sprintf("batch%v", o.Sub)
	}
	return o.Kind
}

type genCfg struct {
	maxKeyLen   int  // longest key the generator may draw
	allowEmpty  bool // empty key allowed
	blockSizes  []int
	maxOps      int
	maxData     int
	structural  []string // which structural ops may appear
	minKeys     int
	maxKeys     int
	bigBlockCls bool
}

func genKeys(t *rapid.T, cfg genCfg) []KeySpec {
	n := rapid.IntRange(cfg.minKeys, cfg.maxKeys).Draw(t, "nkeys")
	keys := make([]KeySpec, 0, n)
	seen := map[string]bool{}
	for i := 0; i < n; i++ {
		var k KeySpec
		switch rapid.IntRange(0, 9).Draw(t, "keyclass") {
		case 0, 1, 2, 3, 4: // short printable
			k.Prefix = []byte(rapid.StringMatching(`[a-z0-9/_\-]{1,12}`).Draw(t, "key"))
		case 5, 6: // binary incl. NUL, 0xff, invalid UTF-8
			k.Prefix = rapid.SliceOfN(rapid.Byte(), 1, 24).Draw(t, "bkey")
		case 7: // around one-byte length boundary
			k.Prefix = []byte(fmt.Sprintf("L%d-", i))
			k.Pad = rapid.SampledFrom([]int{250, 251, 252, 253, 300}).Draw(t, "pad")
		default: // long keys biased to the 16-bit boundary
			k.Prefix = []byte(fmt.Sprintf("X%d-", i))
			total := rapid.SampledFrom([]int{1000, 65534, 65535, 65536, 65537, 65535 + 256, 70000}).Draw(t, "longlen")
			if total > cfg.maxKeyLen {
				total = cfg.maxKeyLen
			}
			k.Pad = total - len(k.Prefix)
		}
		if len(k.Prefix)+k.Pad > cfg.maxKeyLen {
			k.Pad = cfg.maxKeyLen - len(k.Prefix)
			if k.Pad < 0 {
				k.Prefix = k.Prefix[:cfg.maxKeyLen]
				k.Pad = 0
			}
		}
		if len(k.Prefix)+k.Pad == 0 {
			if !cfg.allowEmpty {
				k.Prefix = []byte{'e'}
			}
		}
		if seen[k.String()] {
			continue
		}
		seen[k.String()] = true
		keys = append(keys, k)
	}
	if cfg.allowEmpty && rapid.IntRange(0, 7).Draw(t, "emptykey") == 0 && !seen[""] {
		keys = append(keys, KeySpec{})
	}
	if len(keys) == 0 {
		keys = append(keys, KeySpec{Prefix: []byte("a")})
	}
	return keys
}

func genData(t *rapid.T, blockSize, maxData int) DataSpec {
	var n int
	switch rapid.IntRange(0, 9).Draw(t, "dclass") {
	case 0:
		n = 0
	case 1:
		n = 1
	case 2, 3:
		n = blockSize + rapid.IntRange(-9, 9).Draw(t, "around")
	case 4:
		n = blockSize * rapid.IntRange(2, 10).Draw(t, "mult")
	default:
		n = rapid.IntRange(0, 200).Draw(t, "small")
	}
	if n < 0 {
		n = 0
	}
	if n > maxData {
		n = maxData
	}
	return DataSpec{Len: n, Seed: rapid.Byte().Draw(t, "seed"), Mode: uint8(rapid.IntRange(0, 2).Draw(t, "mode"))}
}

func genOps(t *rapid.T, cfg genCfg, nkeys, blockSize int) []Op {
	n := rapid.IntRange(1, cfg.maxOps).Draw(t, "nops")
	ops := make([]Op, 0, n)
	leaf := func(label string) Op {
		if rapid.IntRange(0, 3).Draw(t, label+"isdel") == 0 {
			return Op{Kind: "del", Key: rapid.IntRange(0, nkeys-1).Draw(t, label+"k")}
		}
		return Op{Kind: "put", Ins: rapid.Bool().Draw(t, label+"ins"), Key: rapid.IntRange(0, nkeys-1).Draw(t, label+"k"),
			Data: genData(t, blockSize, cfg.maxData)}
	}
	for i := 0; i < n; i++ {
		c := rapid.IntRange(0, 99).Draw(t, "opclass")
		switch {
		case c < 62:
			ops = append(ops, leaf("o"))
		case c < 72 && contains(cfg.structural, "batch"):
			m := rapid.IntRange(1, 6).Draw(t, "nbatch")
			var sub []Op
			for j := 0; j < m; j++ {
				sub = append(sub, leaf("b"))
			}
			ops = append(ops, Op{Kind: "batch", Sub: sub})
		case c < 80 && contains(cfg.structural, "flush"):
			ops = append(ops, Op{Kind: "flush"})
		case c < 88 && contains(cfg.structural, "sync"):
			ops = append(ops, Op{Kind: "sync"})
		case contains(cfg.structural, "reopen"):
			ops = append(ops, Op{Kind: "reopen"})
		default:
			ops = append(ops, leaf("o"))
		}
	}
	return ops
}

func contains(xs []string, s string) bool {
	for _, x := range xs {
		if x == s {
			return true
		}
	}
	return false
}

func genName(t *rapid.T) string {
	switch rapid.IntRange(0, 5).Draw(t, "nameclass") {
	case 0:
		return ""
	case 1:
		return "sanct/realm/" + string(bytes.Repeat([]byte{'n'}, rapid.SampledFrom([]int{240, 288, 1000}).Draw(t, "namepad")))
	default:
		return rapid.StringMatching(`[a-z]{1,8}/[a-z0-9]{1,8}/[a-zA-Z0-9\-_.]{1,20}`).Draw(t, "name")
	}
}
