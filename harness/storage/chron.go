package storage

import (
	"encoding/binary"
	"fmt"
	"os"
	"path/filepath"

	"github.com/hydraide/hydraide/app/core/hydra/swamp/beacon"
	"github.com/hydraide/hydraide/app/core/hydra/swamp/chronicler"
	v2 "github.com/hydraide/hydraide/app/core/hydra/swamp/chronicler/v2"
	"github.com/hydraide/hydraide/app/core/hydra/swamp/treasure"
	"github.com/hydraide/hydraide/app/core/hydra/swamp/treasure/guard"
)

// Chronicler-level driving helpers shared by C02, C03, C25.

const swampFileBase = "sw" // the chronicler stores <dir>/sw.hyd

// ChronCfg selects how the chronicler is constructed.
type ChronCfg struct {
	BlockSize int    `json:"block_size"` // 0 = server construction (NewV2WithName, 16 KiB blocks)
	Name      string `json:"name"`
	Threshold float64 `json:"threshold,omitempty"`
}

func newChron(dir string, cfg ChronCfg) chronicler.Chronicler {
	p := filepath.Join(dir, swampFileBase)
	var c chronicler.Chronicler
	if cfg.BlockSize == 0 {
		c = chronicler.NewV2WithName(p, 2, cfg.Name)
	} else {
		th := cfg.Threshold
		if th == 0 {
			th = 0.3
		}
		c = chronicler.NewV2WithConfig(p, 2, cfg.BlockSize, th)
	}
	c.CreateDirectoryIfNotExists()
	return c
}

func hydPath(dir string) string { return filepath.Join(dir, swampFileBase+".hyd") }

// nameLost checks, for a swamp file written through the server construction (NewV2WithName), that the
// fast name lookup the explorer uses still returns the swamp's name ("" = fine / not applicable). A
// file that was recovered after a crash or an I/O fault and then written again is a file "written by
// the engine" like any other: its records are back, so its name must be too.
func nameLost(dir string, cfg ChronCfg) string {
	if cfg.BlockSize != 0 || cfg.Name == "" {
		return ""
	}
	if _, err := os.Stat(hydPath(dir)); err != nil {
		return ""
	}
	nm, err := v2.ReadSwampName(hydPath(dir))
	if err != nil {
		return fmt.Sprintf("ReadSwampName fails with %v (the swamp is %q)", err, cfg.Name)
	}
	if nm != cfg.Name {
		return fmt.Sprintf("ReadSwampName returns %q, the swamp that wrote the file is %q", nm, cfg.Name)
	}
	return ""
}

// versioned content: 8-byte version id followed by the payload, so that a
// loaded value identifies the write it came from.
func versioned(ver int, payload []byte) []byte {
	b := make([]byte, 8, 8+len(payload))
	binary.LittleEndian.PutUint64(b, uint64(ver))
	return append(b, payload...)
}

func mkTreasure(key string, content []byte, deleted bool) treasure.Treasure {
	tr := treasure.New(nil)
	g := tr.StartTreasureGuard(false, guard.BodyAuthID)
	tr.BodySetKey(g, key)
	if deleted {
		tr.BodySetForDeletion(g, "verif", false)
	} else {
		tr.SetContentByteArray(g, content)
	}
	tr.ReleaseTreasureGuard(g)
	return tr
}

// loadAll loads the swamp file below dir through the real recovery path and
// returns key -> byte-array content.
func loadAll(dir string, cfg ChronCfg) (map[string][]byte, chronicler.Chronicler) {
	c := newChron(dir, cfg)
	b := beacon.New()
	c.Load(b)
	out := map[string][]byte{}
	for k, t := range b.GetAll() {
		v, err := t.GetContentByteArray()
		if err != nil {
			v = nil
		}
		out[k] = append([]byte(nil), v...)
	}
	return out, c
}

// entryStep is one entry the harness handed to the chronicler, in order.
type entryStep struct {
	key     string
	content []byte
	del     bool
}

// stateAfter folds the first n entries into key -> content.
func stateAfter(entries []entryStep, n int) map[string][]byte {
	m := map[string][]byte{}
	for i := 0; i < n && i < len(entries); i++ {
		e := entries[i]
		if e.del {
			delete(m, e.key)
		} else {
			m[e.key] = e.content
		}
	}
	return m
}

func sameState(a, b map[string][]byte) bool {
	if len(a) != len(b) {
		return false
	}
	for k, v := range a {
		w, ok := b[k]
		if !ok || string(v) != string(w) {
			return false
		}
	}
	return true
}

type treasureT = treasure.Treasure

// encodeTreasure returns the bytes the engine stores for an entry (gob-encoded treasure).
func encodeTreasure(e entryStep) []byte {
	tr := mkTreasure(e.key, e.content, e.del)
	g := tr.StartTreasureGuard(true, guard.BodyAuthID)
	defer tr.ReleaseTreasureGuard(g)
	b, err := tr.ConvertToByte(g)
	if err != nil {
		return nil
	}
	return b
}

// contentOf decodes stored entry bytes back to the byte-array content.
func contentOf(data []byte) []byte {
	if len(data) == 0 {
		return nil
	}
	tr := treasure.New(nil)
	g := tr.StartTreasureGuard(true, guard.BodyAuthID)
	defer tr.ReleaseTreasureGuard(g)
	if err := tr.LoadFromByte(g, data, "x"); err != nil {
		return nil
	}
	v, err := tr.GetContentByteArray()
	if err != nil {
		return nil
	}
	return v
}

const guardBodyAuth = guard.BodyAuthID

// loadAllT is loadAll that also hands back the loaded treasure objects (they carry the file pointer).
func loadAllT(dir string, cfg ChronCfg, into map[string]treasureT) (map[string][]byte, chronicler.Chronicler) {
	c := newChron(dir, cfg)
	b := beacon.New()
	c.Load(b)
	out := map[string][]byte{}
	for k := range into {
		delete(into, k)
	}
	for k, t := range b.GetAll() {
		v, err := t.GetContentByteArray()
		if err != nil {
			v = nil
		}
		out[k] = append([]byte(nil), v...)
		into[k] = t
	}
	return out, c
}

func fileSize(p string) int64 {
	fi, err := os.Stat(p)
	if err != nil {
		return -1
	}
	return fi.Size()
}

func diffKeys(got, want map[string][]byte) string {
	for k := range got {
		if _, ok := want[k]; !ok {
			return fmt.Sprintf("unexpected key %s", shortKey(k))
		}
	}
	for k, v := range want {
		g, ok := got[k]
		if !ok {
			return fmt.Sprintf("missing key %s", shortKey(k))
		}
		if string(g) != string(v) {
			return fmt.Sprintf("key %s has another version", shortKey(k))
		}
	}
	return ""
}

