//go:build verifvfs

package storage

import (
	"fmt"
	"os"
	"path/filepath"
	"testing"

	"github.com/hydraide/hydraide/app/verifshim/vfs"
	"pgregory.net/rapid"

	"verifharness/internal/hydfmt"
	"verifharness/internal/pbt"
)

// C02 — Crash at any point never loses durable data or the swamp.
//
// A generated history is driven through the real chronicler while the vfs
// shim (injected by overlay) logs every file operation. Then every prefix of
// that log — and, for writes, torn variants of the in-flight write — is
// materialised as a crash image and loaded through the real recovery path.

type C02Scenario struct {
	Cfg     ChronCfg  `json:"cfg"`
	Keys    []KeySpec `json:"keys"`
	Ops     []Op      `json:"ops"`  // put | del | batch | sync | reopen
	Post    []Op      `json:"post"` // writes made after the recovery (put | del)
	TornAll bool      `json:"torn_all"`
	Torn    []uint16  `json:"torn"` // sampled torn offsets (mod write length) when !TornAll
}

func genC02(t *rapid.T) C02Scenario {
	var s C02Scenario
	if rapid.IntRange(0, 3).Draw(t, "servercfg") == 0 {
		s.Cfg = ChronCfg{BlockSize: 0, Name: "sanct/realm/swamp" + rapid.StringMatching(`[a-z0-9]{0,8}`).Draw(t, "nm")}
	} else {
		s.Cfg = ChronCfg{BlockSize: rapid.SampledFrom([]int{64, 300, 1024, 4096}).Draw(t, "bs")}
	}
	cfg := genCfg{maxKeyLen: 16, maxOps: 30, maxData: 9000, structural: []string{"batch", "sync", "reopen"}, minKeys: 1, maxKeys: 5}
	s.Keys = genKeys(t, cfg)
	bs := s.Cfg.BlockSize
	if bs == 0 {
		bs = 4096 // payloads of a few KiB so that 16 KiB blocks fill up
	}
	s.Ops = genOps(t, cfg, len(s.Keys), bs)
	pc := cfg
	pc.maxOps = 4
	pc.structural = nil
	pc.maxData = 200
	s.Post = genOps(t, pc, len(s.Keys), 64)
	s.TornAll = pbt.GetEnv().Tier == "thorough" && rapid.IntRange(0, 3).Draw(t, "tornall") == 0
	s.Torn = rapid.SliceOfN(rapid.Uint16(), 3, 3).Draw(t, "torn")
	return s
}

type c02Run struct {
	entries []entryStep // every entry handed to the chronicler, in order
	marks   []int       // op-log lengths at which a Sync/Close had completed successfully
	ops     []vfs.Op
}

// driveChron executes the history; returns nil + failure on harness-visible errors.
func driveChron(dir string, s C02Scenario, faults map[int]vfs.Fault) (*c02Run, *pbt.Outcome) {
	run := &c02Run{}
	vfs.Start(dir, faults)
	stopped := false
	defer func() {
		if !stopped {
			vfs.Stop()
		}
	}()
	if !vfs.Active() {
		o := pbt.Failf("harness", "vfs shim is not active")
		return nil, &o
	}
	keyStr := make([]string, len(s.Keys))
	for i, k := range s.Keys {
		keyStr[i] = k.String()
		if keyStr[i] == "" {
			keyStr[i] = "e"
		}
	}
	c := newChron(dir, s.Cfg)
	ver := 0
	mk := func(o Op) entryStep {
		ver++
		k := keyStr[o.Key%len(keyStr)]
		if o.Kind == "del" {
			return entryStep{key: k, del: true}
		}
		return entryStep{key: k, content: versioned(ver, o.Data.Bytes())}
	}
	for _, o := range s.Ops {
		switch o.Kind {
		case "put", "del":
			e := mk(o)
			run.entries = append(run.entries, e)
			c.Write(toTreasures([]entryStep{e}))
		case "batch":
			var es []entryStep
			for _, so := range o.Sub {
				es = append(es, mk(so))
			}
			run.entries = append(run.entries, es...)
			c.Write(toTreasures(es))
		case "sync":
			if err := c.Sync(); err == nil {
				run.marks = append(run.marks, vfs.Len())
			}
		case "reopen":
			if err := c.Close(); err == nil {
				run.marks = append(run.marks, vfs.Len())
			}
			_, c = loadAll(dir, s.Cfg)
		}
	}
	if err := c.Close(); err == nil {
		run.marks = append(run.marks, vfs.Len())
	}
	run.ops, _ = vfs.Stop()
	stopped = true
	return run, nil
}

func toTreasures(es []entryStep) []treasureT {
	out := make([]treasureT, 0, len(es))
	for _, e := range es {
		out = append(out, mkTreasure(e.key, e.content, e.del))
	}
	return out
}

// completeBlocks decodes an image of the swamp file independently and returns
// the number of complete valid blocks and, per block, its number of data entries.
func completeBlocks(file []byte) (n int, perBlock []int) {
	if file == nil {
		return 0, nil
	}
	_, _, blocks, _, _, err := hydfmt.DecodeFile(file)
	if err != nil {
		return 0, nil
	}
	for _, b := range blocks {
		c := 0
		for _, e := range b.Entries {
			if e.Op != hydfmt.OpMetadata {
				c++
			}
		}
		perBlock = append(perBlock, c)
	}
	return len(blocks), perBlock
}

func runC02(s C02Scenario) pbt.Outcome {
	dir := scratchDir()
	defer os.RemoveAll(dir)
	run, f := driveChron(dir, s, nil)
	if f != nil {
		return *f
	}
	rel := swampFileBase + ".hyd"
	// final image and flush boundaries
	final := vfs.Image{}
	for _, op := range run.ops {
		final.Apply(op, -1)
	}
	nbFinal, perBlock := completeBlocks(final[rel])
	cum := make([]int, nbFinal+1)
	for i, c := range perBlock {
		cum[i+1] = cum[i] + c
	}
	if cum[nbFinal] != len(run.entries) {
		return pbt.Failf("final-mismatch", "after a clean close the file holds %d entries in %d blocks, but %d entries were written", cum[nbFinal], nbFinal, len(run.entries))
	}
	gotFinal, _ := loadAll(dir, s.Cfg)
	if !sameState(gotFinal, stateAfter(run.entries, len(run.entries))) {
		return pbt.Failf("final-mismatch", "clean close + load does not give the written state: got %d keys, want %d", len(gotFinal), len(stateAfter(run.entries, len(run.entries))))
	}

	imgDir := filepath.Join(dir, "img")
	markAt := map[int]bool{}
	for _, m := range run.marks {
		markAt[m] = true
	}
	var out pbt.Outcome
	images, tornImages, nontrivImages, postChecks := 0, 0, 0, 0
	durBlocks := 0
	im := vfs.Image{}

	judge := func(img vfs.Image, k, torn int, doPost bool) *pbt.Outcome {
		images++
		nb, _ := completeBlocks(img[rel])
		if nb > nbFinal {
			nb = nbFinal
		}
		os.RemoveAll(imgDir)
		os.MkdirAll(imgDir, 0o755)
		if err := img.WriteTo(imgDir); err != nil {
			o := pbt.Outcome{Skip: true}
			return &o
		}
		got, c2 := loadAll(imgDir, s.Cfg)
		match := -1
		for i := durBlocks; i <= nb; i++ {
			if sameState(got, stateAfter(run.entries, cum[i])) {
				match = i
				break
			}
		}
		if match < 0 {
			shape := "not-a-flush-boundary"
			if len(got) == 0 && durBlocks > 0 {
				shape = "empty-after-crash"
			}
			o := pbt.Failf(shape, "crash before op %d/%d (%s) torn=%d: recovery loaded %d keys which is not the state at any flush boundary in [%d durable .. %d complete blocks] (file %d bytes)",
				k, len(run.ops), opDesc(run.ops, k), torn, len(got), durBlocks, nb, len(img[rel]))
			return &o
		}
		if doPost && len(s.Post) > 0 {
			postChecks++
			want := map[string][]byte{}
			for kk, v := range got {
				want[kk] = v
			}
			var es []entryStep
			for i, o := range s.Post {
				key := s.Keys[o.Key%len(s.Keys)].String()
				if key == "" {
					key = "e"
				}
				if o.Kind == "del" {
					es = append(es, entryStep{key: key, del: true})
					delete(want, key)
				} else {
					cnt := versioned(1_000_000+i, o.Data.Bytes())
					es = append(es, entryStep{key: key, content: cnt})
					want[key] = cnt
				}
			}
			c2.Write(toTreasures(es))
			if err := c2.Close(); err != nil {
				o := pbt.Failf("post-recovery-write", "crash before op %d torn=%d: Close after post-recovery writes failed: %v", k, torn, err)
				return &o
			}
			got2, c3 := loadAll(imgDir, s.Cfg)
			c3.Close()
			if !sameState(got2, want) {
				o := pbt.Failf("post-recovery-write", "crash before op %d/%d (%s) torn=%d: writes made after recovery are not recoverable: reload has %d keys, want %d",
					k, len(run.ops), opDesc(run.ops, k), torn, len(got2), len(want))
				return &o
			}
			if nl := nameLost(imgDir, s.Cfg); nl != "" {
				o := pbt.Failf("name-lost", "crash before op %d/%d (%s) torn=%d, then recovery, %d more writes and a clean close: the records are back but %s",
					k, len(run.ops), opDesc(run.ops, k), torn, len(es), nl)
				return &o
			}
		} else {
			c2.Close()
		}
		return nil
	}

	// Pass 1: how many complete blocks the file held when each durability
	// acknowledgement (Sync/Close returned nil) was given.
	nbAtMark := map[int]int{}
	{
		p := vfs.Image{}
		for k := 0; k <= len(run.ops); k++ {
			if markAt[k] {
				nb, _ := completeBlocks(p[rel])
				nbAtMark[k] = nb
			}
			if k < len(run.ops) {
				p.Apply(run.ops[k], -1)
			}
		}
	}
	// nextSync[k] = index of the first successful fsync of the swamp file at or
	// after op k (len(ops) if none). A crash image holding exactly the first k
	// operations can be what is left by a crash at any time up to that fsync
	// (everything after the last completed fsync may be lost), so it must honour
	// every acknowledgement given before that time. This is what makes a
	// dropped fsync visible: the acknowledgement is there, the sync op is not.
	nextSync := make([]int, len(run.ops)+1)
	nextSync[len(run.ops)] = len(run.ops)
	for k := len(run.ops) - 1; k >= 0; k-- {
		o := run.ops[k]
		if o.Kind == "sync" && !o.Failed && o.Path == rel {
			nextSync[k] = k
		} else {
			nextSync[k] = nextSync[k+1]
		}
	}
	durFor := func(k int) int {
		d := 0
		for m, nb := range nbAtMark {
			if m <= nextSync[k] && nb > d {
				d = nb
			}
		}
		return d
	}

	for k := 0; k <= len(run.ops); k++ {
		durBlocks = durFor(k)
		// image: exactly the first k operations persisted
		if f := judge(im, k, -1, k%3 == 0); f != nil {
			return *f
		}
		if k == len(run.ops) {
			break
		}
		op := run.ops[k]
		if op.Kind == "write" && len(op.Data) > 1 {
			var offs []int
			if s.TornAll {
				for t := 1; t < len(op.Data); t++ {
					offs = append(offs, t)
				}
			} else {
				seen := map[int]bool{}
				for _, t := range []int{1, len(op.Data) / 2, len(op.Data) - 1} {
					if t > 0 && t < len(op.Data) && !seen[t] {
						seen[t] = true
						offs = append(offs, t)
					}
				}
				for _, r := range s.Torn {
					t := 1 + int(r)%(len(op.Data)-1)
					if !seen[t] {
						seen[t] = true
						offs = append(offs, t)
					}
				}
			}
			for j, t := range offs {
				c := im.Clone()
				c.Apply(op, t)
				tornImages++
				if durBlocks >= 1 {
					nontrivImages++
				}
				if f := judge(c, k, t, j == 0); f != nil {
					return *f
				}
			}
		}
		im.Apply(op, -1)
	}
	pbt.Counter("C02", "crash_images", images)
	pbt.Counter("C02", "torn_write_images", tornImages)
	pbt.Counter("C02", "torn_images_with_durable_data", nontrivImages)
	pbt.Counter("C02", "post_recovery_write_checks", postChecks)
	out.NonTrivial = nontrivImages > 0
	if nbFinal >= 3 {
		out.Classes = append(out.Classes, "3+blocks")
	}
	if len(run.marks) >= 2 {
		out.Classes = append(out.Classes, "2+sync-points")
	}
	if s.TornAll {
		out.Classes = append(out.Classes, "all-torn-offsets")
	}
	if s.Cfg.BlockSize == 0 {
		out.Classes = append(out.Classes, "server-construction")
	}
	return out
}

func opDesc(ops []vfs.Op, k int) string {
	if k >= len(ops) {
		return "end"
	}
	o := ops[k]
	switch o.Kind {
	case "write":
		return fmt.Sprintf("write %s off=%d len=%d", o.Path, o.Off, len(o.Data))
	case "rename":
		return fmt.Sprintf("rename %s -> %s", o.Path, o.Path2)
	}
	return o.Kind + " " + o.Path
}

const c02Rule = "rapid-generated put/del/batch/sync/close+reopen histories driven through the real chronicler (block sizes 64..4096 and the server's " +
	"NewV2WithName construction) under the vfs op-log shim; EVERY prefix of the file-operation log is a crash image, plus torn variants of each " +
	"write (3 fixed + 3 drawn offsets; all offsets for a quarter of the thorough histories); each image is loaded through chronicler.Load and must equal " +
	"the state at a flush boundary between the last completed Sync/Close and the last complete block (blocks located with an independent decoder); " +
	"every third image also gets post-recovery writes + close + reload; non-trivial history = has a torn-write image taken while durable data existed"

func TestC02Main(t *testing.T) {
	pbt.Main(t, pbt.Spec[C02Scenario]{
		ID: "C02", Facet: "main", Rule: c02Rule,
		Quick: 500, Thorough: 12000,
		Gen: genC02, Run: runC02,
	})
}
