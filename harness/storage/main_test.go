package storage

import (
	"io"
	"log/slog"
	"os"
	"testing"
)

func TestMain(m *testing.M) {
	// the engine logs every recovery problem through slog; keep the test output small
	slog.SetDefault(slog.New(slog.NewTextHandler(io.Discard, nil)))
	os.Exit(m.Run())
}
