package storage

import (
	"bytes"
	"fmt"
	"os"
	"path/filepath"
	"testing"

	v2 "github.com/hydraide/hydraide/app/core/hydra/swamp/chronicler/v2"
	"pgregory.net/rapid"

	"verifharness/internal/hydfmt"
	"verifharness/internal/pbt"
)

// C01 — Storage log replays to the last-writer-wins state.

type C01Scenario struct {
	BlockSize int       `json:"block_size"`
	Name      string    `json:"name"`
	Legacy    bool      `json:"legacy,omitempty"` // start from a hand-built V2 file
	LegacyOps []Op      `json:"legacy_ops,omitempty"`
	Keys      []KeySpec `json:"keys"`
	Ops       []Op      `json:"ops"`
}

var c01BlockSizes = []int{1, 16, 64, 300, 4096, 16384, 65536, 1 << 20}

func c01Cfg() genCfg {
	cfg := genCfg{maxKeyLen: 70000, allowEmpty: true, maxOps: 60, maxData: 1 << 18,
		structural: []string{"batch", "flush", "sync", "reopen"}, minKeys: 1, maxKeys: 6}
	if pbt.Open("C01", "key-longer-than-65535") {
		cfg.maxKeyLen = 65535
	}
	if pbt.Open("C01", "empty-key") {
		cfg.allowEmpty = false
	}
	if pbt.GetEnv().Tier == "thorough" {
		cfg.maxData = 2 << 20
	}
	return cfg
}

func genC01(cfg genCfg) func(t *rapid.T) C01Scenario {
	return func(t *rapid.T) C01Scenario {
		var s C01Scenario
		s.BlockSize = rapid.SampledFrom(c01BlockSizes).Draw(t, "blocksize")
		s.Name = genName(t)
		s.Keys = genKeys(t, cfg)
		s.Legacy = rapid.IntRange(0, 4).Draw(t, "legacy") == 0
		if s.Legacy {
			lc := cfg
			lc.maxOps = 8
			lc.structural = nil
			lc.maxData = 300
			s.LegacyOps = genOps(t, lc, len(s.Keys), 64)
		}
		s.Ops = genOps(t, cfg, len(s.Keys), s.BlockSize)
		return s
	}
}

type kvModel struct {
	m         map[string][]byte
	uncertain map[string]bool
}

func newKV() *kvModel { return &kvModel{m: map[string][]byte{}, uncertain: map[string]bool{}} }

func (k *kvModel) put(key string, d []byte) { k.m[key] = d; delete(k.uncertain, key) }
func (k *kvModel) del(key string)           { delete(k.m, key); delete(k.uncertain, key) }

// compare returns "" when got equals the model (both inclusions).
func (k *kvModel) compare(got map[string][]byte) string {
	for key, want := range k.m {
		if k.uncertain[key] {
			continue
		}
		g, ok := got[key]
		if !ok {
			return fmt.Sprintf("key %s (len %d) missing after reload; want %d bytes", shortKey(key), len(key), len(want))
		}
		if !bytes.Equal(g, want) {
			return fmt.Sprintf("key %s: value differs after reload: got %d bytes %s, want %d bytes %s", shortKey(key), len(g), head(g), len(want), head(want))
		}
	}
	for key := range got {
		if k.uncertain[key] {
			continue
		}
		if _, ok := k.m[key]; !ok {
			return fmt.Sprintf("key %s (len %d) present after reload but not in the model (deleted or never written)", shortKey(key), len(key))
		}
	}
	return ""
}

func shortKey(k string) string {
	if len(k) > 24 {
		return fmt.Sprintf("%q…", k[:24])
	}
	return fmt.Sprintf("%q", k)
}
func head(b []byte) string {
	if len(b) > 8 {
		return fmt.Sprintf("%x…", b[:8])
	}
	return fmt.Sprintf("%x", b)
}

func scratchDir() string {
	base := "/dev/shm"
	if _, err := os.Stat(base); err != nil {
		base = os.TempDir()
	}
	d, err := os.MkdirTemp(base, "verif-st-")
	if err != nil {
		panic(err)
	}
	return d
}

func runC01(s C01Scenario) pbt.Outcome {
	dir := scratchDir()
	defer os.RemoveAll(dir)
	path := filepath.Join(dir, "s.hyd")
	model := newKV()
	var out pbt.Outcome
	wantName := s.Name

	keyStr := make([]string, len(s.Keys))
	for i, k := range s.Keys {
		keyStr[i] = k.String()
	}

	if s.Legacy {
		var blocks [][]hydfmt.Entry
		var cur []hydfmt.Entry
		for _, o := range s.LegacyOps {
			k := keyStr[o.Key%len(keyStr)]
			if k == "" || len(k) > 65535 {
				continue // the hand-built legacy file only holds encodable keys
			}
			switch o.Kind {
			case "put":
				d := o.Data.Bytes()
				op := uint8(hydfmt.OpUpdate)
				if o.Ins {
					op = hydfmt.OpInsert
				}
				cur = append(cur, hydfmt.Entry{Op: op, Key: k, Data: d})
				model.put(k, d)
			case "del":
				cur = append(cur, hydfmt.Entry{Op: hydfmt.OpDelete, Key: k})
				model.del(k)
			}
			if len(cur) == 3 {
				blocks = append(blocks, cur)
				cur = nil
			}
		}
		if len(cur) > 0 {
			blocks = append(blocks, cur)
		}
		if len(wantName) > 65535 {
			wantName = wantName[:1000]
		}
		if err := os.WriteFile(path, hydfmt.LegacyV2File(wantName, 16384, blocks), 0o644); err != nil {
			return pbt.Outcome{Skip: true}
		}
		out.Classes = append(out.Classes, "legacy-v2-start")
	}

	open := func(first bool) (*v2.FileWriter, error) {
		if first && !s.Legacy {
			return v2.NewFileWriterWithName(path, s.BlockSize, s.Name)
		}
		if first {
			return v2.NewFileWriter(path, s.BlockSize)
		}
		// appending sessions: the name argument must be ignored for an existing file
		return v2.NewFileWriterWithName(path, s.BlockSize, "other/name/ignored")
	}
	w, err := open(true)
	if err != nil {
		return pbt.Failf("open-error", "cannot create writer: %v", err)
	}
	closed := false
	defer func() {
		if !closed {
			w.Close()
		}
	}()

	verify := func(stage string) *pbt.Outcome {
		r, err := v2.NewFileReader(path)
		if err != nil {
			o := pbt.Failf("load-error", "%s: NewFileReader: %v", stage, err)
			return &o
		}
		defer r.Close()
		idx, name, err := r.LoadIndex()
		if err != nil {
			o := pbt.Failf("load-error", "%s: LoadIndex: %v", stage, err)
			return &o
		}
		if d := model.compare(idx); d != "" {
			o := pbt.Failf("mismatch", "%s: %s", stage, d)
			return &o
		}
		if len(wantName) <= 65535 && name != wantName {
			o := pbt.Failf("name", "%s: swamp name read back as %q (len %d), want len %d", stage, shortKey(name), len(name), len(wantName))
			return &o
		}
		return nil
	}

	var reopens, overwrites, rejected, blocksFlushed int
	apply := func(o Op) (v2.Entry, string, []byte) {
		k := keyStr[o.Key%len(keyStr)]
		if o.Kind == "del" {
			return v2.Entry{Operation: v2.OpDelete, Key: k}, k, nil
		}
		d := o.Data.Bytes()
		op := v2.OpUpdate
		if o.Ins {
			op = v2.OpInsert
		}
		return v2.Entry{Operation: op, Key: k, Data: d}, k, d
	}
	for i, o := range s.Ops {
		switch o.Kind {
		case "put", "del":
			e, k, d := apply(o)
			if _, ok := model.m[k]; ok {
				overwrites++
			}
			if err := w.WriteEntry(e); err != nil {
				rejected++
				continue // rejection is allowed; the model is unchanged
			}
			if o.Kind == "del" {
				model.del(k)
			} else {
				model.put(k, d)
			}
		case "batch":
			var es []v2.Entry
			for _, so := range o.Sub {
				e, _, _ := apply(so)
				es = append(es, e)
			}
			if err := w.WriteEntries(es); err != nil {
				rejected++
				for _, e := range es {
					model.uncertain[e.Key] = true
				}
				continue
			}
			for _, so := range o.Sub {
				_, k, d := apply(so)
				if _, ok := model.m[k]; ok {
					overwrites++
				}
				if so.Kind == "del" {
					model.del(k)
				} else {
					model.put(k, d)
				}
			}
		case "flush":
			if err := w.Flush(); err != nil {
				return pbt.Failf("io-error", "op %d Flush: %v", i, err)
			}
		case "sync":
			if err := w.Sync(); err != nil {
				return pbt.Failf("io-error", "op %d Sync: %v", i, err)
			}
		case "reopen":
			if err := w.Close(); err != nil {
				return pbt.Failf("io-error", "op %d Close: %v", i, err)
			}
			closed = true
			if f := verify(fmt.Sprintf("after close at op %d", i)); f != nil {
				return *f
			}
			w, err = open(false)
			if err != nil {
				return pbt.Failf("open-error", "op %d reopen: %v", i, err)
			}
			closed = false
			reopens++
		}
	}
	if err := w.Close(); err != nil {
		return pbt.Failf("io-error", "final Close: %v", err)
	}
	closed = true
	if bc, _ := w.GetStats(); true {
		blocksFlushed = int(bc)
	}
	if f := verify("final"); f != nil {
		return *f
	}
	out.NonTrivial = overwrites >= 1 && reopens >= 1 && blocksFlushed >= 2
	if reopens > 0 {
		out.Classes = append(out.Classes, "has-reopen")
	}
	if blocksFlushed >= 2 {
		out.Classes = append(out.Classes, "multi-block")
	}
	if rejected > 0 {
		out.Classes = append(out.Classes, "has-rejected-write")
	}
	for _, k := range keyStr {
		if len(k) > 60000 {
			out.Classes = append(out.Classes, "has-key-over-60000-bytes")
			break
		}
	}
	return out
}

const c01Rule = "rapid-generated histories over v2.FileWriter (put/del/batch/flush/sync/close+reopen; block sizes 1..1MiB; " +
	"keys: printable, binary, 250..300 bytes, 1000..70000 bytes; payloads 0..256KiB biased to block-size boundaries; " +
	"V3 start or hand-built legacy V2 start), checked against a map model after every close; " +
	"non-trivial = ≥1 overwrite/delete of an existing key AND ≥1 reopen AND ≥2 blocks; distinct = hash of the scenario"

func TestC01Main(t *testing.T) {
	cfg := c01Cfg()
	if cfg.maxKeyLen < 70000 {
		pbt.Excluded("C01", "main", "keys longer than 65535 bytes (open finding)")
	}
	if !cfg.allowEmpty {
		pbt.Excluded("C01", "main", "empty key (open finding)")
	}
	pbt.Main(t, pbt.Spec[C01Scenario]{
		ID: "C01", Facet: "main", Rule: c01Rule,
		Quick: 2500, Thorough: 120000,
		Gen: genC01(cfg), Run: runC01,
	})
}

// --- per-block entry-count class: > 65535 entries in one block -------------

type C01BigBlock struct {
	N       int `json:"n"`       // entries written before the block is flushed
	KeyMod  int `json:"key_mod"` // key space
	Reopens int `json:"reopens"`
}

func runC01BigBlock(s C01BigBlock) pbt.Outcome {
	dir := scratchDir()
	defer os.RemoveAll(dir)
	path := filepath.Join(dir, "b.hyd")
	w, err := v2.NewFileWriterWithName(path, 1<<20, "a/b/c")
	if err != nil {
		return pbt.Failf("open-error", "%v", err)
	}
	model := newKV()
	for i := 0; i < s.N; i++ {
		k := fmt.Sprintf("%x", i%s.KeyMod)
		d := []byte{byte(i), byte(i >> 8), byte(i >> 16)}
		if err := w.WriteEntry(v2.Entry{Operation: v2.OpInsert, Key: k, Data: d}); err != nil {
			continue
		}
		model.put(k, d)
	}
	if err := w.Close(); err != nil {
		return pbt.Failf("io-error", "%v", err)
	}
	r, err := v2.NewFileReader(path)
	if err != nil {
		return pbt.Failf("load-error", "%v", err)
	}
	defer r.Close()
	idx, _, err := r.LoadIndex()
	if err != nil {
		return pbt.Failf("load-error", "LoadIndex: %v", err)
	}
	if d := model.compare(idx); d != "" {
		return pbt.Failf("mismatch", "%d entries in one 1MiB block: %s", s.N, d)
	}
	return pbt.Outcome{NonTrivial: s.N > 65535, Classes: []string{"bigblock"}}
}

func genC01BigBlock(t *rapid.T) C01BigBlock {
	return C01BigBlock{
		N:      rapid.SampledFrom([]int{65534, 65535, 65536, 65537, 66000, 70000, 131071}).Draw(t, "n"),
		KeyMod: rapid.SampledFrom([]int{7, 4096, 1 << 20}).Draw(t, "keymod"),
	}
}

func TestC01BigBlock(t *testing.T) {
	sp := pbt.Spec[C01BigBlock]{
		ID: "C01", Facet: "bigblock",
		Rule:  "N tiny entries (N around 65536) buffered into a single 1MiB block, then close+reload; non-trivial = N > 65535",
		Quick: 12, Thorough: 60,
		Gen: genC01BigBlock, Run: runC01BigBlock,
	}
	if pbt.Open("C01", "more-than-65535-entries-per-block") {
		pbt.Witness(t, sp, "more-than-65535-entries-per-block", "mismatch", "load-error")
		return
	}
	pbt.Main(t, sp)
}

// --- witnesses of open findings -------------------------------------------

func TestC01WitnessLongKey(t *testing.T) {
	cfg := c01Cfg()
	cfg.maxKeyLen = 70000
	cfg.allowEmpty = false
	gen := func(t *rapid.T) C01Scenario {
		s := genC01(cfg)(t)
		// force one key beyond the 16-bit length field
		s.Keys[0] = KeySpec{Prefix: []byte("W-"), Pad: rapid.SampledFrom([]int{65536, 65537, 70000}).Draw(t, "wpad") - 2}
		s.Ops = append([]Op{{Kind: "put", Key: 0, Data: DataSpec{Len: 5, Seed: 1}}}, s.Ops...)
		return s
	}
	pbt.Witness(t, pbt.Spec[C01Scenario]{
		ID: "C01", Facet: "witness-longkey", Rule: "main generator with one key of 65536..70000 bytes forced in",
		Quick: 40, Thorough: 400, Gen: gen, Run: runC01,
	}, "key-longer-than-65535", "mismatch", "load-error")
}

func TestC01WitnessEmptyKey(t *testing.T) {
	cfg := c01Cfg()
	cfg.allowEmpty = false
	gen := func(t *rapid.T) C01Scenario {
		s := genC01(cfg)(t)
		s.Keys = append(s.Keys, KeySpec{})
		s.Ops = append([]Op{{Kind: "put", Key: len(s.Keys) - 1, Data: DataSpec{Len: 3, Seed: 9}}}, s.Ops...)
		return s
	}
	pbt.Witness(t, pbt.Spec[C01Scenario]{
		ID: "C01", Facet: "witness-emptykey", Rule: "main generator with a write to the empty key forced in",
		Quick: 40, Thorough: 400, Gen: gen, Run: runC01,
	}, "empty-key", "load-error", "mismatch")
}

// --- chronicler facet: INSERT / UPDATE / DELETE choice in chroniclerV2.Write ----------

type C01ChronScenario struct {
	Cfg  ChronCfg  `json:"cfg"`
	Keys []KeySpec `json:"keys"`
	Ops  []Op      `json:"ops"` // put (fresh treasure) | mod (modify the treasure loaded from disk) | del | batch | sync | reopen
}

func genC01Chron(t *rapid.T) C01ChronScenario {
	var s C01ChronScenario
	if rapid.IntRange(0, 2).Draw(t, "servercfg") == 0 {
		s.Cfg = ChronCfg{BlockSize: 0, Name: "sanct/realm/c01" + rapid.StringMatching(`[a-z0-9]{0,6}`).Draw(t, "nm")}
	} else {
		s.Cfg = ChronCfg{BlockSize: rapid.SampledFrom([]int{64, 300, 4096, 65536}).Draw(t, "bs")}
	}
	cfg := genCfg{maxKeyLen: 300, maxOps: 50, maxData: 20000, structural: []string{"batch", "sync", "reopen"}, minKeys: 1, maxKeys: 6}
	s.Keys = genKeys(t, cfg)
	bs := s.Cfg.BlockSize
	if bs == 0 {
		bs = 4096
	}
	s.Ops = genOps(t, cfg, len(s.Keys), bs)
	// turn roughly half of the puts into modifications of the loaded treasure
	for i := range s.Ops {
		if s.Ops[i].Kind == "put" && rapid.Bool().Draw(t, "asmod") {
			s.Ops[i].Kind = "mod"
		}
		for j := range s.Ops[i].Sub {
			if s.Ops[i].Sub[j].Kind == "put" && rapid.Bool().Draw(t, "asmod") {
				s.Ops[i].Sub[j].Kind = "mod"
			}
		}
	}
	return s
}

func runC01Chron(s C01ChronScenario) pbt.Outcome {
	dir := scratchDir()
	defer os.RemoveAll(dir)
	keyStr := make([]string, len(s.Keys))
	for i, k := range s.Keys {
		keyStr[i] = k.String()
		if keyStr[i] == "" {
			keyStr[i] = "e"
		}
	}
	model := map[string][]byte{}
	c := newChron(dir, s.Cfg)
	loaded := map[string]treasureT{} // treasures that came from disk (they carry a file pointer)
	ver := 0
	var reopens, mods, dels int
	mkT := func(o Op) (treasureT, string) {
		ver++
		k := keyStr[o.Key%len(keyStr)]
		content := versioned(ver, o.Data.Bytes())
		switch o.Kind {
		case "del":
			dels++
			delete(model, k)
			if t, ok := loaded[k]; ok {
				g := t.StartTreasureGuard(true, guardBodyAuth)
				t.BodySetForDeletion(g, "verif", false)
				t.ReleaseTreasureGuard(g)
				delete(loaded, k)
				return t, k
			}
			return mkTreasure(k, nil, true), k
		case "mod":
			if t, ok := loaded[k]; ok {
				mods++
				g := t.StartTreasureGuard(true, guardBodyAuth)
				t.SetContentByteArray(g, content)
				t.ReleaseTreasureGuard(g)
				model[k] = content
				return t, k
			}
			fallthrough
		default:
			model[k] = content
			return mkTreasure(k, content, false), k
		}
	}
	verify := func(stage string) *pbt.Outcome {
		got, c2 := loadAllT(dir, s.Cfg, loaded)
		c = c2
		if !sameState(got, model) {
			o := pbt.Failf("mismatch", "%s: chronicler.Load gives %d keys, model has %d: %s", stage, len(got), len(model), diffKeys(got, model))
			return &o
		}
		return nil
	}
	for i, o := range s.Ops {
		switch o.Kind {
		case "put", "mod", "del":
			t, _ := mkT(o)
			c.Write([]treasureT{t})
		case "batch":
			var ts []treasureT
			seen := map[string]bool{}
			for _, so := range o.Sub {
				k := keyStr[so.Key%len(keyStr)]
				if seen[k] {
					continue // one treasure object per key per batch, as the swamp hands them over
				}
				seen[k] = true
				t, _ := mkT(so)
				ts = append(ts, t)
			}
			c.Write(ts)
		case "sync":
			if err := c.Sync(); err != nil {
				return pbt.Failf("io-error", "op %d Sync: %v", i, err)
			}
		case "reopen":
			if err := c.Close(); err != nil {
				return pbt.Failf("io-error", "op %d Close: %v", i, err)
			}
			reopens++
			if f := verify(fmt.Sprintf("after close at op %d", i)); f != nil {
				return *f
			}
		}
	}
	if err := c.Close(); err != nil {
		return pbt.Failf("io-error", "final Close: %v", err)
	}
	if f := verify("final"); f != nil {
		return *f
	}
	c.Close()
	out := pbt.Outcome{NonTrivial: reopens >= 1 && mods >= 1 && dels >= 1}
	if mods > 0 {
		out.Classes = append(out.Classes, "modified-loaded-treasure")
	}
	if reopens > 0 {
		out.Classes = append(out.Classes, "has-reopen")
	}
	return out
}

func TestC01Chronicler(t *testing.T) {
	pbt.Main(t, pbt.Spec[C01ChronScenario]{
		ID: "C01", Facet: "chronicler",
		Rule: "histories through chroniclerV2.Write/Sync/Close/Load with fresh treasures (INSERT), modifications and deletions of treasures loaded from disk (file pointer set ⇒ UPDATE / DELETE), " +
			"block sizes 64..65536 and the server construction; Load must equal a map model after every close; non-trivial = ≥1 reopen AND ≥1 modification of a loaded treasure AND ≥1 delete",
		Quick: 1200, Thorough: 60000,
		Gen: genC01Chron, Run: runC01Chron,
	})
}
