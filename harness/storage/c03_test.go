//go:build verifvfs

package storage

import (
	"bytes"
	"fmt"
	"os"
	"path/filepath"
	"testing"

	v2 "github.com/hydraide/hydraide/app/core/hydra/swamp/chronicler/v2"
	hcmd "github.com/hydraide/hydraide/app/hydraidectl/cmd"
	"github.com/hydraide/hydraide/app/verifshim/vfs"
	"pgregory.net/rapid"

	"verifharness/internal/hydfmt"
	"verifharness/internal/pbt"
)

// C03 — Compaction never changes the stored state.

type C03Scenario struct {
	Cfg    ChronCfg  `json:"cfg"`
	Keys   []KeySpec `json:"keys"`
	Ops    []Op      `json:"ops"`   // put | del | batch (≥ 100 entries so that the engine's thresholds are crossed)
	Entry  string    `json:"entry"` // compaction entry point
	Temp   string    `json:"temp"`  // pre-existing <file>.compact: absent | empty | random | valid-other | torn-valid | short
	Legacy bool      `json:"legacy,omitempty"`
	Post   []Op      `json:"post"`
	Torn   []uint16  `json:"torn"`
	Faults   []FaultSpec `json:"faults"`    // single-fault plans for the fault facet
	FaultAll bool        `json:"fault_all"` // every single fault at every faultable operation
}

var c03Entries = []string{"inline-write", "close", "load-selfheal", "force", "compactor-compact", "compactor-force", "compactor-ifneeded", "from-index", "cli"}

// entry points that do not remove a pre-existing temp file themselves while the finding is open
var c03NoPreclean = map[string]bool{"compactor-compact": true, "compactor-force": true, "compactor-ifneeded": true, "cli": true}

func genC03(forceStale bool) func(t *rapid.T) C03Scenario {
	return func(t *rapid.T) C03Scenario {
		var s C03Scenario
		s.Cfg = ChronCfg{BlockSize: rapid.SampledFrom([]int{64, 1024, 16384}).Draw(t, "bs"), Threshold: rapid.SampledFrom([]float64{0.1, 0.3, 0.5}).Draw(t, "thr")}
		if rapid.IntRange(0, 2).Draw(t, "servercfg") == 0 {
			s.Cfg = ChronCfg{BlockSize: 0, Name: "sanct/realm/c03" + rapid.StringMatching(`[a-z0-9]{0,6}`).Draw(t, "nm")}
		}
		cfg := genCfg{maxKeyLen: 12, maxData: 120, minKeys: 1, maxKeys: 8}
		s.Keys = genKeys(t, cfg)
		n := rapid.IntRange(100, 420).Draw(t, "nwrites")
		if rapid.IntRange(0, 5).Draw(t, "small") == 0 {
			n = rapid.IntRange(3, 90).Draw(t, "nsmall") // below the engine's 100-entry threshold: only forced compaction runs
		}
		delBias := rapid.IntRange(0, 5).Draw(t, "delbias")
		for i := 0; i < n; i++ {
			k := rapid.IntRange(0, len(s.Keys)-1).Draw(t, "k")
			if rapid.IntRange(0, 9).Draw(t, "isdel") < delBias {
				s.Ops = append(s.Ops, Op{Kind: "del", Key: k})
			} else {
				s.Ops = append(s.Ops, Op{Kind: "put", Key: k, Data: DataSpec{Len: rapid.IntRange(0, 60).Draw(t, "dl"), Seed: rapid.Byte().Draw(t, "ds"), Mode: 1}})
			}
		}
		s.Entry = rapid.SampledFrom(c03Entries).Draw(t, "entry")
		s.Temp = rapid.SampledFrom([]string{"absent", "absent", "empty", "random", "valid-other", "torn-valid", "short"}).Draw(t, "temp")
		if forceStale {
			s.Entry = rapid.SampledFrom([]string{"compactor-compact", "compactor-force", "compactor-ifneeded", "cli"}).Draw(t, "entry2")
			s.Temp = rapid.SampledFrom([]string{"valid-other", "torn-valid"}).Draw(t, "temp2")
		} else if pbt.Open("C03", "stale-temp-appended") && c03NoPreclean[s.Entry] && (s.Temp == "valid-other" || s.Temp == "torn-valid") {
			s.Temp = "absent"
		}
		s.Legacy = rapid.IntRange(0, 4).Draw(t, "legacy") == 0
		pc := genCfg{maxOps: 3, maxData: 50}
		s.Post = genOps(t, pc, len(s.Keys), 64)
		s.Torn = rapid.SliceOfN(rapid.Uint16(), 2, 2).Draw(t, "torn")
		nf := rapid.IntRange(1, 3).Draw(t, "nfaults")
		for i := 0; i < nf; i++ {
			f := FaultSpec{Pos: rapid.Uint16().Draw(t, "fpos")}
			if rapid.Bool().Draw(t, "fshort") {
				f.Short = 1 + rapid.Uint16Max(2000).Draw(t, "fshortn")
			}
			if rapid.IntRange(0, 2).Draw(t, "fsticky") == 0 {
				f.Sticky = uint8(rapid.IntRange(1, 3).Draw(t, "fstickyn"))
			}
			s.Faults = append(s.Faults, f)
		}
		s.FaultAll = pbt.GetEnv().Tier == "thorough" && rapid.IntRange(0, 3).Draw(t, "faultall") == 0
		return s
	}
}

func tempContent(kind string) []byte {
	stale := [][]hydfmt.Entry{{
		{Op: hydfmt.OpInsert, Key: "stale-key-1", Data: []byte("stale-1")},
		{Op: hydfmt.OpInsert, Key: "stale-key-2", Data: []byte("stale-2")},
	}}
	switch kind {
	case "empty":
		return []byte{}
	case "short":
		return []byte("HYDR\x03\x00")
	case "random":
		return bytes.Repeat([]byte{0xA7, 0x13, 0x00, 0xFF}, 60)
	case "valid-other":
		return hydfmt.V3File("other/swamp/name", 16384, stale)
	case "torn-valid":
		b := hydfmt.V3File("other/swamp/name", 16384, stale)
		return b[:len(b)-5]
	}
	return nil
}

func runC03(s C03Scenario) pbt.Outcome {
	dir := scratchDir()
	defer os.RemoveAll(dir)
	file := hydPath(dir)
	temp := file + ".compact"
	rel := swampFileBase + ".hyd"
	keyStr := make([]string, len(s.Keys))
	for i, k := range s.Keys {
		keyStr[i] = k.String()
		if keyStr[i] == "" {
			keyStr[i] = "e"
		}
	}
	var entries []entryStep
	ver := 0
	mk := func(o Op) entryStep {
		ver++
		k := keyStr[o.Key%len(keyStr)]
		if o.Kind == "del" {
			return entryStep{key: k, del: true}
		}
		return entryStep{key: k, content: versioned(ver, o.Data.Bytes())}
	}
	live := func() int { return len(stateAfter(entries, len(entries))) }

	wantName := s.Cfg.Name
	if s.Legacy {
		// legacy V2 starting file holding a few entries under the same keys
		var first []hydfmt.Entry
		for i := 0; i < 3 && i < len(keyStr); i++ {
			e := mk(Op{Kind: "put", Key: i, Data: DataSpec{Len: 9, Seed: byte(i), Mode: 1}})
			// legacy entries must be real treasures: write them through the engine into a scratch file and copy the bytes
			entries = append(entries, e)
			first = append(first, hydfmt.Entry{Op: hydfmt.OpInsert, Key: e.key, Data: encodeTreasure(e)})
		}
		if wantName == "" {
			wantName = "legacy/v2/name"
		}
		os.WriteFile(file, hydfmt.LegacyV2File(wantName, 16384, [][]hydfmt.Entry{first}), 0o644)
	}
	placeTemp := func() {
		if s.Temp != "absent" {
			os.WriteFile(temp, tempContent(s.Temp), 0o644)
		}
	}

	inline := s.Entry == "inline-write" || s.Entry == "close"
	if inline {
		placeTemp()
	}
	vfsOn := false
	startVfs := func() {
		vfs.Start(dir, nil)
		vfsOn = true
	}
	var ops []vfs.Op
	stopVfs := func() {
		if vfsOn {
			ops, _ = vfs.Stop()
			vfsOn = false
		}
	}
	defer stopVfs()

	// state of the directory before the compaction entry point runs (for crash images)
	var before vfs.Image
	var expectedAtEntry map[string][]byte

	c := newChron(dir, s.Cfg)
	if inline {
		c.RegisterLiveCountFunction(live)
		// inline entry points: the whole history runs under the recorder, crash images are judged against
		// "state at a flush boundary" as in C02 — here we only check the final identity + temp cleanup,
		// the crash facet is exercised by the explicit entry points.
	}
	for _, o := range s.Ops {
		e := mk(o)
		entries = append(entries, e)
		c.Write(toTreasures([]entryStep{e}))
	}
	expected := stateAfter(entries, len(entries))

	compactedHint := false
	switch s.Entry {
	case "inline-write", "close":
		if err := c.Close(); err != nil {
			return pbt.Failf("io-error", "Close: %v", err)
		}
	default:
		if err := c.Close(); err != nil {
			return pbt.Failf("io-error", "Close: %v", err)
		}
		placeTemp()
		before, _ = vfs.LoadImage(dir)
		expectedAtEntry = expected
		sizeBefore := fileSize(file)
		startVfs()
		if f := runEntry(dir, s, expected, len(entries)); f != nil {
			stopVfs()
			return *f
		}
		stopVfs()
		compactedHint = fileSize(file) < sizeBefore
	}

	// 1. identity on the live state, name preserved
	r, err := v2.NewFileReader(file)
	if err != nil {
		if len(expected) == 0 && os.IsNotExist(err) {
			return pbt.Outcome{Classes: []string{"file-absent-empty-state"}}
		}
		return pbt.Failf("load-error", "after %s: NewFileReader: %v", s.Entry, err)
	}
	idx, nm, err := r.LoadIndex()
	hdr := r.GetHeader()
	r.Close()
	if err != nil {
		return pbt.Failf("load-error", "after %s: LoadIndex: %v", s.Entry, err)
	}
	gotKeys := map[string][]byte{}
	for k, d := range idx {
		gotKeys[k] = contentOf(d)
	}
	if !sameState(gotKeys, expected) {
		return pbt.Failf("mismatch", "after %s (temp=%s): file replays to %d keys, want %d: %s", s.Entry, s.Temp, len(gotKeys), len(expected), diffKeys(gotKeys, expected))
	}
	if wantName != "" && nm != wantName {
		return pbt.Failf("name", "after %s: swamp name %q, want %q", s.Entry, nm, wantName)
	}
	renamed := false
	for _, o := range ops {
		if o.Kind == "rename" && o.Path2 == rel && !o.Failed {
			renamed = true
		}
	}
	if renamed && hdr != nil && hdr.Version != v2.Version3 {
		return pbt.Failf("format", "compacted file has version %d, want 3", hdr.Version)
	}
	// 2. through the chronicler: Load gives the same state and leaves no temp file
	got, c3 := loadAll(dir, s.Cfg)
	if !sameState(got, expected) {
		return pbt.Failf("mismatch", "after %s: chronicler.Load gives %d keys, want %d", s.Entry, len(got), len(expected))
	}
	if _, err := os.Stat(temp); err == nil {
		// not part of the property (a leftover temp is harmless as long as no compaction reuses it): diagnostic only
		pbt.Counter("C03", "temp_file_survived_load", 1)
	}
	// 3. a following write + reload works
	want := map[string][]byte{}
	for k, v := range expected {
		want[k] = v
	}
	var es []entryStep
	for _, o := range s.Post {
		if o.Kind != "put" && o.Kind != "del" {
			continue
		}
		e := mk(o)
		es = append(es, e)
		if e.del {
			delete(want, e.key)
		} else {
			want[e.key] = e.content
		}
	}
	c3.Write(toTreasures(es))
	c3.Close()
	got2, c4 := loadAll(dir, s.Cfg)
	c4.Close()
	if !sameState(got2, want) {
		return pbt.Failf("post-write", "after %s: write+reload gives %d keys, want %d", s.Entry, len(got2), len(want))
	}

	// 4. crash facet over the compaction's own file operations
	images := 0
	if before != nil && len(ops) > 0 {
		imgDir := filepath.Join(dir, "img")
		judge := func(img vfs.Image, k, torn int, what string) *pbt.Outcome {
			images++
			os.RemoveAll(imgDir)
			os.MkdirAll(imgDir, 0o755)
			img.WriteTo(imgDir)
			g, cc := loadAll(imgDir, s.Cfg)
			if !sameState(g, expectedAtEntry) {
				cc.Close()
				o := pbt.Failf("crash-mismatch", "crash during %s before op %d/%d (%s) torn=%d %s: recovery gives %d keys, want %d: %s",
					s.Entry, k, len(ops), opDesc(ops, k), torn, what, len(g), len(expectedAtEntry), diffKeys(g, expectedAtEntry))
				return &o
			}
			// writes after the recovery are recoverable
			if images%4 == 0 && len(es) > 0 {
				cc.Write(toTreasures(es))
				cc.Close()
				g2, c5 := loadAll(imgDir, s.Cfg)
				c5.Close()
				w2 := map[string][]byte{}
				for kk, v := range expectedAtEntry {
					w2[kk] = v
				}
				for _, e := range es {
					if e.del {
						delete(w2, e.key)
					} else {
						w2[e.key] = e.content
					}
				}
				if !sameState(g2, w2) {
					o := pbt.Failf("post-write", "crash during %s before op %d: write+reload after recovery gives %d keys, want %d", s.Entry, k, len(g2), len(w2))
					return &o
				}
			} else {
				cc.Close()
			}
			return nil
		}
		im := before.Clone()
		lastSync := map[string]int{} // path -> index of last sync op
		firstUnsynced := map[string][]int{}
		for k := 0; k <= len(ops); k++ {
			if f := judge(im, k, -1, ""); f != nil {
				return *f
			}
			if k == len(ops) {
				break
			}
			op := ops[k]
			switch op.Kind {
			case "write":
				firstUnsynced[op.Path] = append(firstUnsynced[op.Path], k)
				if len(op.Data) > 1 {
					for _, rr := range s.Torn {
						t := 1 + int(rr)%(len(op.Data)-1)
						c := im.Clone()
						c.Apply(op, t)
						if f := judge(c, k, t, ""); f != nil {
							return *f
						}
					}
				}
			case "sync":
				if !op.Failed {
					lastSync[op.Path] = k
					firstUnsynced[op.Path] = nil
				}
			case "rename":
				// the rename may reach the disk before the source file's unsynced writes:
				// image = rename applied, source's writes since its last fsync dropped
				if un := firstUnsynced[op.Path]; len(un) > 0 && !op.Failed {
					c := before.Clone()
					skip := map[int]bool{}
					for _, i := range un {
						skip[i] = true
					}
					for i := 0; i < k; i++ {
						if !skip[i] {
							c.Apply(ops[i], -1)
						}
					}
					c.Apply(op, -1)
					if f := judge(c, k, -1, fmt.Sprintf("[rename persisted before %d unsynced writes of %s]", len(un), op.Path)); f != nil {
						f.Shape = "rename-before-fsync"
						return *f
					}
				}
			}
			im.Apply(op, -1)
		}
	}
	// 5. fault facet: the same entry point re-run on the pre-compaction image with ONE injected I/O fault
	// (operation fails, or a write stores a prefix and fails). Whatever the entry point reports, the swamp must
	// afterwards hold exactly the pre-compaction state (complete old or complete new file) and accept writes.
	faultRuns := 0
	if before != nil && len(ops) > 0 {
		var fidx []int
		for i, o := range ops {
			if faultable(o) {
				fidx = append(fidx, i)
			}
		}
		var plans []map[int]vfs.Fault
		if s.FaultAll {
			for _, i := range fidx {
				plans = append(plans, map[int]vfs.Fault{i: {}})
				if ops[i].Kind == "write" && len(ops[i].Data) > 1 {
					plans = append(plans, map[int]vfs.Fault{i: {Short: len(ops[i].Data) / 2}})
				}
			}
		} else if len(fidx) > 0 {
			for _, f := range s.Faults {
				i := fidx[int(f.Pos)%len(fidx)]
				flt := vfs.Fault{Sticky: int(f.Sticky)}
				if f.Short > 0 && ops[i].Kind == "write" && len(ops[i].Data) > 1 {
					flt.Short = 1 + int(f.Short)%(len(ops[i].Data)-1)
				}
				plans = append(plans, map[int]vfs.Fault{i: flt})
			}
			// the last write and the last sync before the rename are the interesting ones: always include them
			lastW, lastS := -1, -1
			for i, o := range ops {
				if o.Kind == "rename" {
					// the rename itself, failing once and failing persistently (a retry fails too)
					plans = append(plans, map[int]vfs.Fault{i: {}}, map[int]vfs.Fault{i: {Sticky: 2}})
					break
				}
				if o.Kind == "write" {
					lastW = i
				}
				if o.Kind == "sync" {
					lastS = i
				}
			}
			if lastW >= 0 {
				plans = append(plans, map[int]vfs.Fault{lastW: {}})
			}
			if lastS >= 0 {
				plans = append(plans, map[int]vfs.Fault{lastS: {}})
			}
		}
		for pi, pl := range plans {
			fdir := filepath.Join(dir, fmt.Sprintf("f%d", pi))
			os.MkdirAll(fdir, 0o755)
			before.WriteTo(fdir)
			vfs.Start(fdir, pl)
			runEntry(fdir, s, expectedAtEntry, len(entries)) // its own verdict is ignored: a reported failure is fine
			fops, injected := vfs.Stop()
			if injected == 0 {
				os.RemoveAll(fdir)
				continue
			}
			faultRuns++
			fo := -1
			for i, o := range fops {
				if o.Failed {
					fo = i
					break
				}
			}
			g, cc := loadAll(fdir, s.Cfg)
			if !sameState(g, expectedAtEntry) {
				cc.Close()
				return pbt.Failf("fault-mismatch", "%s with an I/O fault at op %d/%d (%s): afterwards the swamp holds %d keys, want %d: %s",
					s.Entry, fo, len(fops), opDesc(fops, fo), len(g), len(expectedAtEntry), diffKeys(g, expectedAtEntry))
			}
			if len(es) > 0 {
				cc.Write(toTreasures(es))
				cc.Close()
				g2, c5 := loadAll(fdir, s.Cfg)
				c5.Close()
				w2 := map[string][]byte{}
				for kk, v := range expectedAtEntry {
					w2[kk] = v
				}
				for _, e := range es {
					if e.del {
						delete(w2, e.key)
					} else {
						w2[e.key] = e.content
					}
				}
				if !sameState(g2, w2) {
					return pbt.Failf("post-write", "%s with an I/O fault at op %d (%s): write+reload afterwards gives %d keys, want %d", s.Entry, fo, opDesc(fops, fo), len(g2), len(w2))
				}
			} else {
				cc.Close()
			}
			os.RemoveAll(fdir)
		}
	}
	pbt.Counter("C03", "compaction_fault_runs", faultRuns)
	pbt.Counter("C03", "compaction_crash_images", images)
	out := pbt.Outcome{Classes: []string{"entry:" + s.Entry, "temp:" + s.Temp}}
	if renamed || compactedHint {
		out.Classes = append(out.Classes, "compacted")
	}
	hasDel := false
	for _, e := range entries {
		if e.del {
			hasDel = true
		}
	}
	out.NonTrivial = ((renamed || compactedHint) && hasDel) || s.Temp != "absent" || images > 0
	return out
}


// runEntry executes the scenario's compaction entry point on the swamp file below dir.
func runEntry(dir string, s C03Scenario, expected map[string][]byte, nEntries int) *pbt.Outcome {
	file := hydPath(dir)
	switch s.Entry {
	case "load-selfheal":
		got, c2 := loadAll(dir, s.Cfg)
		c2.Close()
		if !sameState(got, expected) {
			o := pbt.Failf("mismatch", "Load (self-heal path) returned %d keys, want %d", len(got), len(expected))
			return &o
		}
	case "force":
		c2 := newChron(dir, s.Cfg)
		if err := c2.ForceCompaction(); err != nil {
			pbt.Counter("C03", "entry_returned_error", 1)
		}
		c2.Close()
	case "compactor-compact":
		v2.NewCompactor(file, s.Cfg.BlockSize, s.Cfg.Threshold).Compact()
	case "compactor-force":
		v2.NewCompactor(file, s.Cfg.BlockSize, s.Cfg.Threshold).ForceCompact()
	case "compactor-ifneeded":
		v2.NewCompactor(file, s.Cfg.BlockSize, s.Cfg.Threshold).CompactIfNeeded()
	case "from-index":
		r, err := v2.NewFileReader(file)
		if err == nil {
			idx, nm, err2 := r.LoadIndex()
			r.Close()
			if err2 == nil {
				v2.CompactFromIndex(file, s.Cfg.BlockSize, nm, idx, nEntries)
			}
		}
	case "cli":
		hcmd.VerifCompactSwamp(file, s.Cfg.Threshold, false)
	}
	return nil
}

const c03Rule = "histories of 100..420 (one in six: 3..90) writes/deletes over ≤ 8 keys through the chronicler (block sizes 64/1024/16384, thresholds 0.1/0.3/0.5, server construction, " +
	"V3 or hand-built legacy V2 start) × compaction entry point {inline on Write, on Close, Load self-heal, ForceCompaction, Compactor.Compact/ForceCompact/CompactIfNeeded, " +
	"CompactFromIndex, CLI compactSwamp} × pre-existing temp file {absent, empty, short, random, valid file with other keys, torn valid}; oracle: live state and name identical " +
	"before/after, V3 afterwards, write+reload works; plus every crash prefix (and torn writes, and rename-before-unsynced-writes) of the compaction's " +
	"own file-operation log reloads to exactly the pre-compaction state; plus the entry point re-run with single injected I/O faults (1-3 drawn + the last write and last fsync before the rename; thorough: all) must leave exactly the pre-compaction state; non-trivial = compaction ran after a delete, or a leftover temp was present, or crash images were judged"

func TestC03Main(t *testing.T) {
	if pbt.Open("C03", "stale-temp-appended") {
		pbt.Excluded("C03", "main", "valid leftover temp file with Compactor.Compact/CLI entry points (open finding)")
	}
	pbt.Main(t, pbt.Spec[C03Scenario]{
		ID: "C03", Facet: "main", Rule: c03Rule,
		Quick: 260, Thorough: 8000,
		Gen: genC03(false), Run: runC03,
	})
}

func TestC03WitnessStaleTemp(t *testing.T) {
	pbt.Witness(t, pbt.Spec[C03Scenario]{
		ID: "C03", Facet: "witness-stale-temp", Rule: "Compactor.Compact / CLI entry points with a valid leftover temp file holding other keys",
		Quick: 12, Thorough: 100, Gen: genC03(true), Run: runC03,
	}, "stale-temp-appended", "mismatch", "crash-mismatch")
}
