// Command instrument rewrites hydraide sources (never in place) and emits a go
// build overlay. Kinds:
//
//	vfs    — storage packages: os.Create/OpenFile/Rename/... and *os.File are
//	         redirected to the pass-through shim package vfs (op log, fault
//	         plan), which is injected into the hydraide module as
//	         app/verifshim/vfs; also exports cmd.compactSwamp for the harness.
//	vsched — concurrency-relevant files: a vsched.Point("<site>") call is
//	         inserted before statements containing lock/cond/atomic/channel
//	         operations; shim injected as app/verifshim/vsched.
//	all    — both.
//
// The rewrite is recomputed from the tree under test on every check run, so
// the observation IS the call: a mutant that drops an fsync drops the
// observation of it.
package main

import (
	"bytes"
	"crypto/sha1"
	"encoding/hex"
	"encoding/json"
	"flag"
	"fmt"
	"go/ast"
	"go/parser"
	"go/printer"
	"go/token"
	"os"
	"path/filepath"
	"sort"
	"strconv"
	"strings"

	"golang.org/x/tools/go/ast/astutil"
)

const modPath = "github.com/hydraide/hydraide"

var vfsDirs = []string{
	"app/core/hydra/swamp/chronicler/v2",
	"app/core/hydra/swamp/chronicler",
	"app/core/hydra/swamp/chronicler/v2/migrator",
}

// selectors of package os that are redirected to vfs
var vfsRewrite = map[string]bool{
	"Create": true, "Open": true, "OpenFile": true, "Rename": true, "Remove": true, "RemoveAll": true,
	"Stat": true, "Lstat": true, "MkdirAll": true, "Mkdir": true, "ReadFile": true, "WriteFile": true,
	"ReadDir": true, "File": true, "Truncate": true,
}

// selectors of package os that are harmless and stay as they are
var osPassthrough = map[string]bool{
	"IsNotExist": true, "IsExist": true, "ModePerm": true, "FileInfo": true, "FileMode": true, "DirEntry": true,
	"ErrNotExist": true, "ErrExist": true, "Getenv": true, "TempDir": true, "PathSeparator": true,
	"O_RDONLY": true, "O_WRONLY": true, "O_RDWR": true, "O_APPEND": true, "O_CREATE": true, "O_EXCL": true,
	"O_SYNC": true, "O_TRUNC": true, "Exit": true, "Stdout": true, "Stderr": true, "Stdin": true, "Args": true,
	"PathError": true, "LinkError": true, "SyscallError": true, "IsPermission": true, "ErrPermission": true,
	"Getpid": true, "Hostname": true, "Getwd": true, "LookupEnv": true, "Environ": true, "UserHomeDir": true,
	"Signal": true, "Interrupt": true, "Kill": true, "Executable": true, "SameFile": true, "ErrClosed": true,
	"ErrInvalid": true, "IsTimeout": true, "ErrDeadlineExceeded": true, "Getuid": true, "Geteuid": true,
}

var vschedFiles = []string{
	"app/core/hydra/hydra.go",
	"app/core/hydra/swamp/swamp.go",
	"app/core/hydra/swamp/swamp_patch.go",
	"app/core/hydra/swamp/swamp_patch_expired.go",
	"app/core/hydra/swamp/swamp_bucket.go",
	"app/core/hydra/swamp/bucket/bucket.go",
	"app/core/hydra/swamp/vigil/vigil.go",
	"app/core/hydra/swamp/treasure/guard/guard.go",
	"app/core/hydra/lock/lock.go",
	"app/core/hydra/swamp/beacon/beacon.go",
	"app/core/hydra/swamp/treasure/treasure.go",
	"app/core/safeops/safeops.go",
	"app/server/gateway/gateway.go",
	"app/server/gateway/gateway_patch.go",
	"app/server/gateway/gateway_patch_expired.go",
	"app/server/gateway/gateway_shift_matching.go",
}

var mutDir string

// srcOf returns the file to read for a repo path: the mutant copy if one exists.
func srcOf(repo, path string) string {
	if mutDir == "" {
		return path
	}
	rel, err := filepath.Rel(repo, path)
	if err != nil {
		return path
	}
	m := filepath.Join(mutDir, rel)
	if _, err := os.Stat(m); err == nil {
		return m
	}
	return path
}

// addMutOnly maps every mutant file that was not instrumented to itself.
func addMutOnly(repo string, ov *overlay) {
	if mutDir == "" {
		return
	}
	filepath.Walk(mutDir, func(p string, info os.FileInfo, err error) error {
		if err != nil || info.IsDir() || !strings.HasSuffix(p, ".go") {
			return nil
		}
		rel, _ := filepath.Rel(mutDir, p)
		dst := filepath.Join(repo, rel)
		if _, ok := ov.Replace[dst]; !ok {
			ov.Replace[dst] = p
		}
		return nil
	})
}

type overlay struct {
	Replace map[string]string
}

func main() {
	repo := flag.String("repo", "/repo", "hydraide tree")
	out := flag.String("out", "", "output directory")
	kind := flag.String("kind", "vfs", "vfs | vsched | all")
	shim := flag.String("shim", "", "directory holding shim/vfs and shim/vsched sources")
	mut := flag.String("mut", "", "optional directory with replacement sources (<mut>/<path relative to repo>) that take precedence over the repo's files — used to test mutants without touching the repo")
	flag.Parse()
	mutDir = *mut
	if *out == "" || *shim == "" {
		fatal("need -out and -shim")
	}
	ov := overlay{Replace: map[string]string{}}
	stats := map[string]int{}
	if *kind == "vfs" || *kind == "all" {
		doVFS(*repo, *out, *shim, &ov, stats)
	}
	if *kind == "vsched" || *kind == "all" {
		doVsched(*repo, *out, *shim, &ov, stats)
	}
	addMutOnly(*repo, &ov)
	b, _ := json.MarshalIndent(ov, "", " ")
	if err := os.WriteFile(filepath.Join(*out, "overlay.json"), b, 0o644); err != nil {
		fatal("%v", err)
	}
	sb, _ := json.MarshalIndent(stats, "", " ")
	os.WriteFile(filepath.Join(*out, "stats.json"), sb, 0o644)
	fmt.Printf("instrumented: %v\n", stats)
}

func fatal(f string, a ...any) {
	fmt.Fprintf(os.Stderr, "instrument: "+f+"\n", a...)
	os.Exit(1)
}

func goFiles(dir string) []string {
	ents, err := os.ReadDir(dir)
	if err != nil {
		fatal("cannot read %s: %v", dir, err)
	}
	var fs []string
	for _, e := range ents {
		n := e.Name()
		if e.IsDir() || !strings.HasSuffix(n, ".go") || strings.HasSuffix(n, "_test.go") {
			continue
		}
		fs = append(fs, filepath.Join(dir, n))
	}
	sort.Strings(fs)
	return fs
}

func writeOut(outDir, repo, src string, fset *token.FileSet, f *ast.File, ov *overlay) {
	var buf bytes.Buffer
	if err := printer.Fprint(&buf, fset, f); err != nil {
		fatal("print %s: %v", src, err)
	}
	rel, _ := filepath.Rel(repo, src)
	dst := filepath.Join(outDir, "src", rel)
	os.MkdirAll(filepath.Dir(dst), 0o755)
	// the file must not be picked up as part of any package of the harness: it lives under .work
	if err := os.WriteFile(dst, buf.Bytes(), 0o644); err != nil {
		fatal("%v", err)
	}
	ov.Replace[src] = dst
}

func addShim(outDir, repo, shimDir, name string, ov *overlay) {
	srcDir := filepath.Join(shimDir, name)
	for _, f := range goFiles(srcDir) {
		virt := filepath.Join(repo, "app", "verifshim", name, filepath.Base(f))
		ov.Replace[virt] = f
	}
}

// ---------------------------------------------------------------------------
// vfs

func doVFS(repo, out, shimDir string, ov *overlay, stats map[string]int) {
	total := 0
	for _, d := range vfsDirs {
		for _, src := range goFiles(filepath.Join(repo, d)) {
			n := rewriteVFS(repo, out, src, ov, true)
			total += n
		}
	}
	// hydraidectl compact: lenient rewrite + export of compactSwamp
	cmdDir := filepath.Join(repo, "app/hydraidectl/cmd")
	compact := filepath.Join(cmdDir, "compact.go")
	if _, err := os.Stat(compact); err != nil {
		fatal("app/hydraidectl/cmd/compact.go not found — the CLI compaction entry point moved; update the instrumenter")
	}
	total += rewriteVFS(repo, out, compact, ov, false)
	src, _ := os.ReadFile(srcOf(repo, compact))
	if !bytes.Contains(src, []byte("func compactSwamp(filePath string, threshold float64) *v2.CompactionResult")) {
		fatal("compactSwamp signature changed; update the instrumenter export")
	}
	exp := filepath.Join(out, "src", "app/hydraidectl/cmd/verif_export.go")
	os.MkdirAll(filepath.Dir(exp), 0o755)
	os.WriteFile(exp, []byte(`package cmd

import v2 "github.com/hydraide/hydraide/app/core/hydra/swamp/chronicler/v2"

// VerifCompactSwamp exposes the CLI's per-file compaction entry point to the verification harness (overlay only).
func VerifCompactSwamp(filePath string, threshold float64, dryRun bool) *v2.CompactionResult {
	old := compactDryRun
	compactDryRun = dryRun
	defer func() { compactDryRun = old }()
	return compactSwamp(filePath, threshold)
}
`), 0o644)
	ov.Replace[filepath.Join(cmdDir, "verif_export.go")] = exp
	addShim(out, repo, shimDir, "vfs", ov)
	if total == 0 {
		fatal("vfs: no file operation was rewritten — the storage packages no longer use package os directly?")
	}
	stats["vfs_sites"] = total
}

func rewriteVFS(repo, out, src string, ov *overlay, strict bool) int {
	fset := token.NewFileSet()
	f, err := parser.ParseFile(fset, srcOf(repo, src), nil, parser.ParseComments)
	if err != nil {
		fatal("parse %s: %v", src, err)
	}
	osName := ""
	for _, im := range f.Imports {
		if im.Path.Value == `"os"` {
			osName = "os"
			if im.Name != nil {
				osName = im.Name.Name
			}
		}
	}
	if osName == "" {
		return 0
	}
	n, left := 0, 0
	astutil.Apply(f, func(c *astutil.Cursor) bool {
		sel, ok := c.Node().(*ast.SelectorExpr)
		if !ok {
			return true
		}
		id, ok := sel.X.(*ast.Ident)
		if !ok || id.Name != osName || id.Obj != nil {
			return true
		}
		switch {
		case vfsRewrite[sel.Sel.Name]:
			c.Replace(&ast.SelectorExpr{X: ast.NewIdent("vfs"), Sel: ast.NewIdent(sel.Sel.Name)})
			n++
		case osPassthrough[sel.Sel.Name]:
			left++
		default:
			if strict {
				fatal("%s: os.%s is neither redirected nor known to be harmless — extend the instrumenter", src, sel.Sel.Name)
			}
			left++
		}
		return true
	}, nil)
	if n == 0 {
		return 0
	}
	astutil.AddNamedImport(fset, f, "vfs", modPath+"/app/verifshim/vfs")
	if left == 0 {
		astutil.DeleteImport(fset, f, "os")
	}
	writeOut(out, repo, src, fset, f, ov)
	return n
}

// ---------------------------------------------------------------------------
// vsched

var syncMethods = map[string]bool{
	"Lock": true, "Unlock": true, "RLock": true, "RUnlock": true, "Wait": true, "Broadcast": true, "Signal": true,
	"LoadOrStore": true, "Load": true, "Store": true, "Delete": true, "Range": true, "LoadAndDelete": true,
	"CompareAndSwap": true, "Swap": true, "Add": true,
	"BeginVigil": true, "CeaseVigil": true, "StartTreasureGuard": true, "ReleaseTreasureGuard": true,
	"WaitForActiveVigilsClosed": true, "HasActiveVigils": true,
}

// interesting reports whether a statement (not descending into nested blocks
// or function literals) contains a synchronisation-relevant operation, and a
// short label for it.
func interesting(s ast.Stmt) (bool, string) {
	label := ""
	found := false
	var visit func(n ast.Node) bool
	visit = func(n ast.Node) bool {
		if found || n == nil {
			return false
		}
		switch x := n.(type) {
		case *ast.BlockStmt, *ast.FuncLit:
			return false
		case *ast.CallExpr:
			if sel, ok := x.Fun.(*ast.SelectorExpr); ok {
				if id, ok := sel.X.(*ast.Ident); ok && id.Name == "atomic" {
					found, label = true, "atomic."+sel.Sel.Name
					return false
				}
				if syncMethods[sel.Sel.Name] {
					found, label = true, sel.Sel.Name
					return false
				}
			}
		case *ast.SendStmt:
			found, label = true, "send"
			return false
		case *ast.UnaryExpr:
			if x.Op == token.ARROW {
				found, label = true, "recv"
				return false
			}
		}
		return true
	}
	switch st := s.(type) {
	case *ast.ExprStmt, *ast.AssignStmt, *ast.SendStmt, *ast.ReturnStmt, *ast.IncDecStmt:
		ast.Inspect(st, visit)
	case *ast.DeferStmt:
		// a deferred unlock executes later; the defer statement itself is not a yield point
		return false, ""
	case *ast.GoStmt:
		return false, ""
	case *ast.IfStmt:
		if st.Init != nil {
			ast.Inspect(st.Init, visit)
		}
		if !found {
			ast.Inspect(st.Cond, visit)
		}
	case *ast.ForStmt:
		if st.Cond != nil {
			ast.Inspect(st.Cond, visit)
		}
	case *ast.SelectStmt:
		found, label = true, "select"
	case *ast.SwitchStmt:
		if st.Tag != nil {
			ast.Inspect(st.Tag, visit)
		}
	}
	return found, label
}

var (
	siteMap  = map[string]string{} // statement-index name (old scheme) -> stable name
	allSites []string
)

func stmtHash(fset *token.FileSet, s ast.Stmt) string {
	var buf bytes.Buffer
	// hash only the head of compound statements (their bodies get their own sites)
	var n ast.Node = s
	switch st := s.(type) {
	case *ast.IfStmt:
		n = &ast.IfStmt{Init: st.Init, Cond: st.Cond, Body: &ast.BlockStmt{}}
	case *ast.ForStmt:
		n = &ast.ForStmt{Init: st.Init, Cond: st.Cond, Post: st.Post, Body: &ast.BlockStmt{}}
	case *ast.SwitchStmt:
		n = &ast.SwitchStmt{Init: st.Init, Tag: st.Tag, Body: &ast.BlockStmt{}}
	case *ast.SelectStmt:
		n = &ast.SelectStmt{Body: &ast.BlockStmt{}}
	}
	printer.Fprint(&buf, token.NewFileSet(), n)
	txt := strings.Join(strings.Fields(buf.String()), " ")
	sum := sha1.Sum([]byte(txt))
	return hex.EncodeToString(sum[:3])
}

func doVsched(repo, out, shimDir string, ov *overlay, stats map[string]int) {
	total := 0
	for _, relp := range vschedFiles {
		src := filepath.Join(repo, relp)
		if _, err := os.Stat(src); err != nil {
			fatal("vsched: %s not found — file moved; update the instrumenter list", relp)
		}
		fset := token.NewFileSet()
		f, err := parser.ParseFile(fset, srcOf(repo, src), nil, parser.ParseComments)
		if err != nil {
			fatal("parse %s: %v", src, err)
		}
		base := strings.TrimSuffix(filepath.Base(relp), ".go")
		n := 0
		for _, decl := range f.Decls {
			fd, ok := decl.(*ast.FuncDecl)
			if !ok || fd.Body == nil {
				continue
			}
			fname := fd.Name.Name
			counter := 0
			seen := map[string]int{}
			var instrBlock func(list []ast.Stmt) []ast.Stmt
			var instrStmt func(s ast.Stmt)
			instrBlock = func(list []ast.Stmt) []ast.Stmt {
				var outl []ast.Stmt
				for _, s := range list {
					if ok, label := interesting(s); ok {
						counter++
						oldSite := base + ":" + fname + ":" + strconv.Itoa(counter) + ":" + label
						// Stable site name: file:func:op:hash-of-the-statement-text (+ ~k for repeats inside the
						// function). It only changes when that very statement is edited, not when code is added
						// or removed elsewhere in the function.
						h := stmtHash(fset, s)
						stem := base + ":" + fname + ":" + label + ":" + h
						seen[stem]++
						site := stem
						if seen[stem] > 1 {
							site = stem + "~" + strconv.Itoa(seen[stem])
						}
						siteMap[oldSite] = site
						allSites = append(allSites, site)
						outl = append(outl, &ast.ExprStmt{X: &ast.CallExpr{
							Fun:  &ast.SelectorExpr{X: ast.NewIdent("vsched"), Sel: ast.NewIdent("Point")},
							Args: []ast.Expr{&ast.BasicLit{Kind: token.STRING, Value: strconv.Quote(site)}},
						}})
						n++
					}
					instrStmt(s)
					outl = append(outl, s)
				}
				return outl
			}
			instrStmt = func(s ast.Stmt) {
				switch st := s.(type) {
				case *ast.BlockStmt:
					st.List = instrBlock(st.List)
				case *ast.IfStmt:
					st.Body.List = instrBlock(st.Body.List)
					if st.Else != nil {
						instrStmt(st.Else)
					}
				case *ast.ForStmt:
					st.Body.List = instrBlock(st.Body.List)
				case *ast.RangeStmt:
					st.Body.List = instrBlock(st.Body.List)
				case *ast.SwitchStmt:
					for _, c := range st.Body.List {
						cc := c.(*ast.CaseClause)
						cc.Body = instrBlock(cc.Body)
					}
				case *ast.TypeSwitchStmt:
					for _, c := range st.Body.List {
						cc := c.(*ast.CaseClause)
						cc.Body = instrBlock(cc.Body)
					}
				case *ast.SelectStmt:
					for _, c := range st.Body.List {
						cc := c.(*ast.CommClause)
						cc.Body = instrBlock(cc.Body)
					}
				case *ast.LabeledStmt:
					instrStmt(st.Stmt)
				case *ast.ExprStmt:
					// function literal called in place: func() { ... }()
					if call, ok := st.X.(*ast.CallExpr); ok {
						if fl, ok := call.Fun.(*ast.FuncLit); ok {
							fl.Body.List = instrBlock(fl.Body.List)
						}
					}
				case *ast.DeferStmt:
					if fl, ok := st.Call.Fun.(*ast.FuncLit); ok {
						fl.Body.List = instrBlock(fl.Body.List)
					}
				case *ast.GoStmt:
					if fl, ok := st.Call.Fun.(*ast.FuncLit); ok {
						fl.Body.List = instrBlock(fl.Body.List)
					}
				}
			}
			fd.Body.List = instrBlock(fd.Body.List)
		}
		if n > 0 {
			astutil.AddNamedImport(fset, f, "vsched", modPath+"/app/verifshim/vsched")
			writeOut(out, repo, src, fset, f, ov)
		}
		stats["vsched:"+base] = n
		total += n
	}
	if total == 0 {
		fatal("vsched: no yield point inserted")
	}
	stats["vsched_sites"] = total
	addShim(out, repo, shimDir, "vsched", ov)
	mb, _ := json.MarshalIndent(siteMap, "", " ")
	os.WriteFile(filepath.Join(out, "sitemap.json"), mb, 0o644)
	sort.Strings(allSites)
	os.WriteFile(filepath.Join(out, "sites.txt"), []byte(strings.Join(allSites, "\n")+"\n"), 0o644)
}
