//go:build verifvsched

package events

import "github.com/hydraide/hydraide/app/verifshim/vsched"

// Instrumented synchronisation sites on the subscription / event path (see cmd/instrument -kind vsched).
var c19Sites = []string{
	"hydra:SubscribeToSwampEvents:Load:5978b3",
	"hydra:SubscribeToSwampEvents:Store:a25ce7",
	"hydra:SubscribeToSwampEvents:Store:56575f",
	"hydra:UnsubscribeFromSwampEvents:Load:5978b3",
	"hydra:UnsubscribeFromSwampEvents:Delete:a116d4",
	"hydra:UnsubscribeFromSwampEvents:Range:26e8ce",
	"hydra:eventCallbackFunction:Load:1a7144",
	"hydra:eventCallbackFunction:Range:4bb3df",
	"hydra:hasEventSubscriber:Load:5978b3",
	"swamp:StartSendingEvents:atomic.StoreInt32:4efc9e",
	"swamp:StopSendingEvents:atomic.StoreInt32:5df9d4",
	"swamp:sendEventToHydra:atomic.LoadInt32:9cc62d",
	"swamp:sendDeletedEventToClient:atomic.LoadInt32:9cc62d",
	"swamp:deleteHandler:StartTreasureGuard:ac9b2b",
	"swamp:deleteHandler:Add:d3b37d",
	"swamp:CreateTreasure:Lock:678d26",
	"swamp:CreateTreasure:Store:98e79a",
	"swamp:SaveFunction:Delete:8d391f",
	"gateway:SubscribeToEvents:select:3e8f84",
}

func activatePlan(p []PlanAction) bool {
	if len(p) == 0 {
		return false
	}
	acts := make([]vsched.Action, 0, len(p))
	for _, a := range p {
		acts = append(acts, vsched.Action{Site: a.Site, Hit: a.Hit, Kind: a.Kind, SleepUs: a.SleepUs, Until: a.Until, MaxWaitMs: a.MaxWaitMs})
	}
	vsched.Activate(acts, false)
	return true
}

func deactivatePlan(on bool) int {
	if !on {
		return 0
	}
	return len(vsched.Deactivate().Fired)
}
