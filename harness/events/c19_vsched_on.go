//go:build verifvsched

package events

import "github.com/hydraide/hydraide/app/verifshim/vsched"

// Instrumented synchronisation sites on the subscription / event path (see cmd/instrument -kind vsched).
var c19Sites = []string{
	"hydra:SubscribeToSwampEvents:3:Load",
	"hydra:SubscribeToSwampEvents:5:Store",
	"hydra:SubscribeToSwampEvents:6:Store",
	"hydra:UnsubscribeFromSwampEvents:2:Load",
	"hydra:UnsubscribeFromSwampEvents:4:Delete",
	"hydra:UnsubscribeFromSwampEvents:5:Range",
	"hydra:eventCallbackFunction:1:Load",
	"hydra:eventCallbackFunction:2:Range",
	"hydra:hasEventSubscriber:1:Load",
	"swamp:StartSendingEvents:2:atomic.StoreInt32",
	"swamp:StopSendingEvents:2:atomic.StoreInt32",
	"swamp:sendEventToHydra:1:atomic.LoadInt32",
	"swamp:sendDeletedEventToClient:1:atomic.LoadInt32",
	"swamp:deleteHandler:1:StartTreasureGuard",
	"swamp:deleteHandler:3:Add",
	"swamp:CreateTreasure:1:Lock",
	"swamp:CreateTreasure:5:Store",
	"swamp:SaveFunction:2:Delete",
	"gateway:SubscribeToEvents:1:select",
}

func activatePlan(p []PlanAction) bool {
	if len(p) == 0 {
		return false
	}
	acts := make([]vsched.Action, 0, len(p))
	for _, a := range p {
		acts = append(acts, vsched.Action{Site: a.Site, Hit: a.Hit, Kind: a.Kind, SleepUs: a.SleepUs, Until: a.Until, MaxWaitMs: a.MaxWaitMs})
	}
	vsched.Activate(acts, false)
	return true
}

func deactivatePlan(on bool) int {
	if !on {
		return 0
	}
	return len(vsched.Deactivate().Fired)
}
