package events

import (
	"encoding/json"
	"fmt"
	"os"
	"os/exec"
	"path/filepath"
	"regexp"
	"strings"
	"testing"

	"verifharness/internal/pbt"
)

// TestC19Race — the -race variant (thorough tier, or VERIF_C19_RACE=1): builds this package with the race detector,
// runs the main facet and the concurrent-send witness in a child process (GORACE halt_on_error=0, reports to files) and
// judges the reports by signature: a report in which one of the two racing accesses happens inside grpc or inside the
// gateway's event callback is a damaged/unsafe event stream (property C19); races between hydraide's own record
// accessors (treasure Set*/Get* …) belong to other properties and are only counted.
func TestC19Race(t *testing.T) {
	if pbt.GetEnv().Tier != "thorough" && os.Getenv("VERIF_C19_RACE") == "" {
		t.Skip("race variant runs in the thorough tier")
	}
	if os.Getenv("VERIF_C19_RACE_CHILD") != "" || pbt.GetEnv().Shard != 0 || pbt.GetEnv().Replay != "" {
		t.Skip("child / other shard / replay")
	}
	defer pbt.Flush()
	dir, err := os.MkdirTemp("/dev/shm", "c19-race-")
	if err != nil {
		t.Skip(err)
	}
	defer os.RemoveAll(dir)
	bin := filepath.Join(dir, "c19race.test")
	args := []string{"test", "-c", "-race", "-vet=off", "-o", bin}
	tags := "verif"
	if w := os.Getenv("VERIF_WORK"); w != "" && len(c19Sites) > 0 {
		ov := filepath.Join(w, "ov", "vsched", "overlay.json")
		if _, err := os.Stat(ov); err == nil {
			args = append(args, "-overlay", ov)
			tags = "verif,verifvsched"
		}
	}
	args = append(args, "-tags", tags, ".")
	if out, err := exec.Command("go", args...).CombinedOutput(); err != nil {
		pbt.Note("C19", "race variant: build failed: %v: %s", err, tail(string(out), 400))
		t.Logf("race build failed (variant skipped): %v\n%s", err, out)
		return
	}
	stats := filepath.Join(dir, "stats.json")
	cmd := exec.Command(bin, "-test.run", "^TestC19(Main|WitnessConcurrentSend)$", "-test.count=1", "-test.timeout=900s")
	scale := "0.015"
	if pbt.GetEnv().Tier != "thorough" {
		scale = "0.5"
	}
	cmd.Env = append(os.Environ(), "VERIF_C19_RACE_CHILD=1", "GORACE=halt_on_error=0 log_path="+filepath.Join(dir, "race"),
		"VERIF_STATS_OUT="+stats, "VERIF_SHARD=0", "VERIF_SHARDS=1", "VERIF_SCALE="+scale, "VERIF_SEED="+fmt.Sprint(pbt.GetEnv().Seed+1000))
	out, _ := cmd.CombinedOutput() // exit status is non-zero whenever any race was reported
	// 1. violations / findings recorded by the child
	cases := 0
	if b, err := os.ReadFile(stats); err == nil {
		var all []pbt.Stats
		if json.Unmarshal(b, &all) == nil {
			for _, s := range all {
				for _, v := range s.Violations {
					if v.Shape == "harness" {
						continue // in a -race binary the sub-test of pbt.Main "fails" as soon as ANY race was reported; the reports are judged below
					}
					pbt.ReportViolation("C19", "race/"+v.Facet, v.Replay, v.Shape, "under -race: "+v.Msg)
					t.Errorf("race child: violation in %s: %s", v.Facet, v.Msg)
				}
				for _, f := range s.Facets {
					cases += f.Evaluations
				}
			}
		}
	} else {
		pbt.Note("C19", "race variant: child wrote no stats: %s", tail(string(out), 600))
		t.Logf("race child produced no stats:\n%s", tail(string(out), 2000))
		return
	}
	// 2. race reports
	files, _ := filepath.Glob(filepath.Join(dir, "race.*"))
	stream, foreign := 0, map[string]int{}
	firstStream := ""
	accessRe := regexp.MustCompile(`(?m)^(?:Read|Write|Previous read|Previous write|Atomic read|Atomic write|Previous atomic read|Previous atomic write) at .*\n  (\S+)\(`)
	for _, f := range files {
		b, _ := os.ReadFile(f)
		for _, rep := range strings.Split(string(b), "==================") {
			if !strings.Contains(rep, "DATA RACE") {
				continue
			}
			tops := accessRe.FindAllStringSubmatch(rep, -1)
			isStream := false
			var sig []string
			for _, m := range tops {
				fn := m[1]
				sig = append(sig, fn[strings.LastIndex(fn, "/")+1:])
				if strings.Contains(fn, "google.golang.org/grpc") || strings.Contains(fn, "gateway.Gateway.SubscribeToEvents") {
					isStream = true
				}
			}
			// an access made from inside the gateway's event callback (anywhere in the stack) races with somebody else
			if strings.Contains(rep, "gateway.Gateway.SubscribeToEvents.func1") {
				isStream = true
			}
			if isStream {
				stream++
				if firstStream == "" {
					firstStream = tail(rep, 1500)
				}
			} else {
				foreign[strings.Join(sig, " × ")]++
			}
		}
	}
	for sig, n := range foreign {
		pbt.Counter("C19", "race-reports-outside-the-event-stream", n)
		pbt.Note("C19", "race variant: %d report(s) %s (record accessors — not judged under C19)", n, sig)
	}
	pbt.Extra("C19", "race_variant_cases", cases)
	pbt.RecordCase("C19", "race", "child process built with -race runs the main facet and the concurrent-send witness; race reports whose racing access is inside grpc or the gateway event callback are failures", fmt.Sprintf("race-%d", cases), cases > 0, map[string]any{"cases": cases, "stream_reports": stream, "other_reports": len(foreign)}, "race-child-ran")
	if stream > 0 {
		if pbt.Open("C19", "concurrent-sendmsg") {
			pbt.ReportFinding("C19", "concurrent-sendmsg", "race detector: "+firstStream, cases, stream)
		} else {
			p := pbt.WriteReplayJSON("C19", "race", map[string]any{"report": firstStream})
			pbt.ReportViolation("C19", "race", p, "stream-race", "race detector reports a data race on the event stream path: "+firstStream)
			t.Errorf("data race on the event stream path:\n%s", firstStream)
		}
	}
}

func tail(s string, n int) string {
	if len(s) > n {
		return "…" + s[len(s)-n:]
	}
	return s
}
