package events

import (
	"fmt"
	"sort"
	"strings"
	"time"
)

// ---------------------------------------------------------------------------
// values
//
// Every record holds either a two-field msgpack document {t: <tag>, u: <tag>}
// (BytesVal with the 0xC7 0x00 msgpack magic prefix, the shape PatchTreasures
// works on) or an int64 (the shape Increment* works on). Tags are unique per
// write ("w<writer>:<n>"), so a committed value identifies the write that
// produced it.

type value struct {
	Int  bool
	N    int64
	T, U string
}

func (v value) String() string {
	if v.Int {
		return fmt.Sprintf("int(%d)", v.N)
	}
	return fmt.Sprintf("doc(t=%s,u=%s)", v.T, v.U)
}

func docBytes(t, u string) []byte {
	b := []byte{0xC7, 0x00, 0x82}
	b = append(b, 0xa1, 't')
	b = append(b, mpStr(t)...)
	b = append(b, 0xa1, 'u')
	b = append(b, mpStr(u)...)
	return b
}

func mpStr(s string) []byte {
	if len(s) < 32 {
		return append([]byte{0xa0 | byte(len(s))}, s...)
	}
	if len(s) < 256 {
		return append([]byte{0xd9, byte(len(s))}, s...)
	}
	return append([]byte{0xda, byte(len(s) >> 8), byte(len(s))}, s...)
}

// parseDoc decodes prefix + msgpack map of string->string (fixmap/map16, fixstr/str8/str16).
func parseDoc(b []byte) (value, error) {
	var v value
	if len(b) < 3 || b[0] != 0xC7 || b[1] != 0x00 {
		return v, fmt.Errorf("no msgpack magic prefix: %x", b)
	}
	p := b[2:]
	n := 0
	switch {
	case p[0]&0xf0 == 0x80:
		n = int(p[0] & 0x0f)
		p = p[1:]
	case p[0] == 0xde && len(p) >= 3:
		n = int(p[1])<<8 | int(p[2])
		p = p[3:]
	default:
		return v, fmt.Errorf("not a msgpack map: %x", b)
	}
	rd := func() (string, error) {
		if len(p) == 0 {
			return "", fmt.Errorf("truncated")
		}
		l := 0
		switch {
		case p[0]&0xe0 == 0xa0:
			l = int(p[0] & 0x1f)
			p = p[1:]
		case p[0] == 0xd9 && len(p) >= 2:
			l = int(p[1])
			p = p[2:]
		case p[0] == 0xda && len(p) >= 3:
			l = int(p[1])<<8 | int(p[2])
			p = p[3:]
		default:
			return "", fmt.Errorf("not a msgpack string at %x", p)
		}
		if len(p) < l {
			return "", fmt.Errorf("truncated string")
		}
		s := string(p[:l])
		p = p[l:]
		return s, nil
	}
	seen := map[string]bool{}
	for i := 0; i < n; i++ {
		k, err := rd()
		if err != nil {
			return v, err
		}
		s, err := rd()
		if err != nil {
			return v, err
		}
		if seen[k] {
			return v, fmt.Errorf("duplicate field %q", k)
		}
		seen[k] = true
		switch k {
		case "t":
			v.T = s
		case "u":
			v.U = s
		default:
			return v, fmt.Errorf("unexpected field %q", k)
		}
	}
	if len(p) != 0 {
		return v, fmt.Errorf("%d trailing bytes", len(p))
	}
	return v, nil
}

// ---------------------------------------------------------------------------
// acknowledged change log

type chKind int

const (
	chCreate chKind = iota // ack says: record was created with Val
	chUpdate               // ack says: existing record now holds Val
	chPatch                // ack says: existing document patched: u := PatchU (t unchanged)
	chUpsert               // ack says: record now holds Val (Increment*: created or updated is not part of the ack)
	chDelete               // ack says: record was removed
)

func (k chKind) String() string {
	return [...]string{"create", "update", "patch", "upsert", "delete"}[k]
}

// change is one acknowledged change of one record.
type change struct {
	Writer    int // writer index; subscriber-owned sentinel writers are 100+j
	Seq       int // position in the writer's program (program order)
	Op        string
	Key       string
	Kind      chKind
	Val       value
	PatchU    string
	Call, Ret time.Time
}

func (c *change) String() string {
	s := fmt.Sprintf("w%d#%d %s %s", c.Writer, c.Seq, c.Op, c.Kind)
	switch c.Kind {
	case chCreate, chUpdate, chUpsert:
		s += " -> " + c.Val.String()
	case chPatch:
		s += " u:=" + c.PatchU
	}
	return s
}

// ---------------------------------------------------------------------------
// received events

type recvEvent struct {
	Key    string
	Status string // NEW | UPDATED | DELETED
	T      string // canonical value strings ("" = empty treasure)
	Old    string
	Del    string
	Time   time.Time // EventTime as sent by the server
	Raw    string
}

func (e *recvEvent) String() string {
	return fmt.Sprintf("%s key=%s T=%s Old=%s Del=%s time=%s", e.Status, e.Key, e.T, e.Old, e.Del, e.Time.UTC().Format(time.RFC3339Nano))
}

// subWindow is what is known about one subscription.
type subWindow struct {
	ID     int
	Lo     time.Time // SubscribeToEvents was called (no event of an earlier change may appear)
	Attach time.Time // a sentinel write whose event was received had returned: every later change must be delivered
	Detach time.Time // the fence write was called: changes that returned before must have been delivered
	Hi     time.Time // the fence write returned; events after the fence event are not looked at
	Events []*recvEvent
}

// ---------------------------------------------------------------------------
// oracle

type oracleMode struct {
	CheckTime bool // EventTime ∈ [call − 1 s, return + 1 s]
	CheckOld  bool // OldTreasure of an UPDATED event = value before the change
	// relaxations, used only to classify a failure (never to accept a case):
	NoopEmits      bool // a save that changes nothing emits an UPDATED event
	AnyOrder       bool // the events of a record may arrive in any order (multiset comparison only)
	DeleteOnAbsent bool // a delete acknowledged for a record that is absent at that point is a no-op without event
}

type need int

const (
	forbidden need = iota
	optional
	required
)

func classify(c *change, w *subWindow) need {
	if c.Ret.Before(w.Lo) || c.Call.After(w.Hi) {
		return forbidden
	}
	if !c.Call.Before(w.Attach) && !c.Ret.After(w.Detach) {
		return required
	}
	return optional
}

type keyCheck struct {
	key     string
	byW     [][]*change // changes of this key per writer, program order
	subs    []*subWindow
	evs     [][]*recvEvent // per subscriber: events of this key, stream order
	used    [][]bool       // AnyOrder mode: consumed events
	mode    oracleMode
	memo    map[string]bool
	best    int // furthest progress (number of linearised changes) — for the failure message
	bestMsg string
	steps   int
	budget  int
	blown   bool
}

const absentState = "\x00absent"

// expected returns the event a change must produce from state pre ("" event = none),
// the post state, and ok=false when the change cannot be applied in that state.
func (kc *keyCheck) expected(c *change, pre string, preVal value, has bool) (status, t, old, del string, post value, postHas bool, emits bool, ok bool) {
	switch c.Kind {
	case chCreate:
		if has {
			return
		}
		return "NEW", c.Val.String(), "", "", c.Val, true, true, true
	case chUpdate:
		if !has {
			return
		}
		if preVal == c.Val {
			return "UPDATED", c.Val.String(), pre, "", c.Val, true, kc.mode.NoopEmits, true
		}
		return "UPDATED", c.Val.String(), pre, "", c.Val, true, true, true
	case chPatch:
		if !has || preVal.Int {
			return
		}
		nv := preVal
		nv.U = c.PatchU
		if nv == preVal {
			return "UPDATED", nv.String(), pre, "", nv, true, kc.mode.NoopEmits, true
		}
		return "UPDATED", nv.String(), pre, "", nv, true, true, true
	case chUpsert:
		if !has {
			return "NEW", c.Val.String(), "", "", c.Val, true, true, true
		}
		return "UPDATED", c.Val.String(), pre, "", c.Val, true, true, true
	case chDelete:
		if !has {
			if kc.mode.DeleteOnAbsent {
				return "DELETED", "", "", "", value{}, false, false, true
			}
			return
		}
		return "DELETED", "", "", pre, value{}, false, true, true
	}
	return
}

func (kc *keyCheck) matches(e *recvEvent, c *change, status, t, old, del string) bool {
	if e.Status != status || e.T != t || e.Del != del {
		return false
	}
	if status != "UPDATED" || kc.mode.CheckOld {
		if e.Old != old {
			return false
		}
	}
	if kc.mode.CheckTime {
		if e.Time.Before(c.Call.Add(-time.Second)) || e.Time.After(c.Ret.Add(time.Second)) {
			return false
		}
	}
	return true
}

// search looks for a commit order of the acknowledged changes of one record
// that is consistent with real time / program order and reproduces, for every
// subscriber at once, the events it received for this record.
func (kc *keyCheck) search(idx []int, has bool, val value, ptr []int) bool {
	kc.steps++
	if kc.steps > kc.budget {
		kc.blown = true
		return true // undecided: never report a failure on an exhausted search
	}
	done := 0
	for _, i := range idx {
		done += i
	}
	// finished?
	all := true
	for w := range kc.byW {
		if idx[w] < len(kc.byW[w]) {
			all = false
			break
		}
	}
	if all {
		for s := range kc.subs {
			if kc.mode.AnyOrder {
				for i, u := range kc.used[s] {
					if !u {
						if done >= kc.best {
							kc.best = done
							kc.bestMsg = fmt.Sprintf("all %d changes placed but subscriber %d has an unexplained event: %s", done, kc.subs[s].ID, kc.evs[s][i])
						}
						return false
					}
				}
				continue
			}
			if ptr[s] != len(kc.evs[s]) {
				if done >= kc.best {
					kc.best = done
					kc.bestMsg = fmt.Sprintf("all %d changes placed but subscriber %d has %d unexplained event(s), first: %s", done, kc.subs[s].ID, len(kc.evs[s])-ptr[s], kc.evs[s][ptr[s]])
				}
				return false
			}
		}
		return true
	}
	var sb strings.Builder
	for _, i := range idx {
		fmt.Fprintf(&sb, "%d,", i)
	}
	if has {
		sb.WriteString(val.String())
	} else {
		sb.WriteString(absentState)
	}
	for _, p := range ptr {
		fmt.Fprintf(&sb, "|%d", p)
	}
	if kc.mode.AnyOrder {
		for _, us := range kc.used {
			sb.WriteByte('|')
			for _, u := range us {
				if u {
					sb.WriteByte('1')
				} else {
					sb.WriteByte('0')
				}
			}
		}
	}
	mk := sb.String()
	if _, seen := kc.memo[mk]; seen {
		return false
	}
	kc.memo[mk] = false
	pre := ""
	if has {
		pre = val.String()
	}
	// candidates: next change of each writer that no other pending change precedes in real time
	for w := range kc.byW {
		if idx[w] >= len(kc.byW[w]) {
			continue
		}
		c := kc.byW[w][idx[w]]
		blocked := false
		for w2 := range kc.byW {
			if w2 == w || idx[w2] >= len(kc.byW[w2]) {
				continue
			}
			if kc.byW[w2][idx[w2]].Ret.Before(c.Call) {
				blocked = true
				break
			}
		}
		if blocked {
			continue
		}
		status, t, old, del, post, postHas, emits, ok := kc.expected(c, pre, val, has)
		if !ok {
			if done >= kc.best {
				kc.best = done
				kc.bestMsg = fmt.Sprintf("after %d changes (state %s) the acknowledged change [%s] is not applicable", done, stateStr(has, val), c)
			}
			continue
		}
		idx[w]++
		if kc.deliver(c, emits, status, t, old, del, 0, idx, postHas, post, ptr, done) {
			idx[w]--
			return true
		}
		idx[w]--
	}
	return false
}

func stateStr(has bool, v value) string {
	if !has {
		return "absent"
	}
	return v.String()
}

// deliver decides, subscriber by subscriber, whether the event of change c is consumed.
func (kc *keyCheck) deliver(c *change, emits bool, status, t, old, del string, s int, idx []int, has bool, val value, ptr []int, done int) bool {
	if s == len(kc.subs) {
		return kc.search(idx, has, val, ptr)
	}
	if !emits {
		return kc.deliver(c, emits, status, t, old, del, s+1, idx, has, val, ptr, done)
	}
	n := classify(c, kc.subs[s])
	if kc.mode.AnyOrder {
		take := -1
		for i, e := range kc.evs[s] {
			if !kc.used[s][i] && kc.matches(e, c, status, t, old, del) {
				take = i
				break
			}
		}
		if n == forbidden || (n == required && take < 0) {
			if n == forbidden {
				return kc.deliver(c, emits, status, t, old, del, s+1, idx, has, val, ptr, done)
			}
			return false
		}
		if take >= 0 {
			kc.used[s][take] = true
			r := kc.deliver(c, emits, status, t, old, del, s+1, idx, has, val, ptr, done)
			kc.used[s][take] = false
			if r || n == required {
				return r
			}
		}
		return kc.deliver(c, emits, status, t, old, del, s+1, idx, has, val, ptr, done)
	}
	canTake := ptr[s] < len(kc.evs[s]) && kc.matches(kc.evs[s][ptr[s]], c, status, t, old, del)
	switch n {
	case forbidden:
		return kc.deliver(c, emits, status, t, old, del, s+1, idx, has, val, ptr, done)
	case required:
		if !canTake {
			if done >= kc.best {
				kc.best = done
				got := "end of its event list"
				if ptr[s] < len(kc.evs[s]) {
					got = kc.evs[s][ptr[s]].String()
				}
				kc.bestMsg = fmt.Sprintf("after %d changes: change [%s] (called %s, returned %s) must be delivered to subscriber %d as %s T=%s Old=%s Del=%s, but its next event is: %s",
					done, c, c.Call.UTC().Format("15:04:05.000000"), c.Ret.UTC().Format("15:04:05.000000"), kc.subs[s].ID, status, t, old, del, got)
			}
			return false
		}
		ptr[s]++
		r := kc.deliver(c, emits, status, t, old, del, s+1, idx, has, val, ptr, done)
		ptr[s]--
		return r
	default: // optional
		if canTake {
			ptr[s]++
			r := kc.deliver(c, emits, status, t, old, del, s+1, idx, has, val, ptr, done)
			ptr[s]--
			if r {
				return true
			}
		}
		return kc.deliver(c, emits, status, t, old, del, s+1, idx, has, val, ptr, done)
	}
}

type oracleResult struct {
	OK       bool
	Key      string
	Msg      string
	Undecide bool
}

// judge checks all records. changes: the acknowledged change log; subs: the subscriptions.
func judge(changes []*change, subs []*subWindow, mode oracleMode) oracleResult {
	keys := map[string]bool{}
	for _, c := range changes {
		keys[c.Key] = true
	}
	for _, w := range subs {
		for _, e := range w.Events {
			keys[e.Key] = true
		}
	}
	var ks []string
	for k := range keys {
		ks = append(ks, k)
	}
	sort.Strings(ks)
	undecided := false
	for _, k := range ks {
		kc := &keyCheck{key: k, subs: subs, mode: mode, memo: map[string]bool{}, budget: 400000}
		wi := map[int]int{}
		var order []int
		for _, c := range changes {
			if c.Key != k {
				continue
			}
			if _, ok := wi[c.Writer]; !ok {
				wi[c.Writer] = len(order)
				order = append(order, c.Writer)
				kc.byW = append(kc.byW, nil)
			}
			kc.byW[wi[c.Writer]] = append(kc.byW[wi[c.Writer]], c)
		}
		for i := range kc.byW {
			sort.SliceStable(kc.byW[i], func(a, b int) bool { return kc.byW[i][a].Seq < kc.byW[i][b].Seq })
		}
		for _, w := range subs {
			var es []*recvEvent
			for _, e := range w.Events {
				if e.Key == k {
					es = append(es, e)
				}
			}
			kc.evs = append(kc.evs, es)
			kc.used = append(kc.used, make([]bool, len(es)))
		}
		ok := kc.search(make([]int, len(kc.byW)), false, value{}, make([]int, len(subs)))
		if kc.blown {
			undecided = true
			continue
		}
		if !ok {
			return oracleResult{OK: false, Key: k, Msg: kc.bestMsg + "\n" + dumpKey(kc)}
		}
	}
	return oracleResult{OK: true, Undecide: undecided}
}

func dumpKey(kc *keyCheck) string {
	var sb strings.Builder
	fmt.Fprintf(&sb, "record %q — acknowledged changes:\n", kc.key)
	var all []*change
	for _, l := range kc.byW {
		all = append(all, l...)
	}
	sort.SliceStable(all, func(a, b int) bool { return all[a].Call.Before(all[b].Call) })
	var t0 time.Time
	if len(all) > 0 {
		t0 = all[0].Call
	}
	for _, w := range kc.subs {
		if t0.IsZero() || w.Lo.Before(t0) {
			t0 = w.Lo
		}
	}
	us := func(t time.Time) int64 { return t.Sub(t0).Microseconds() }
	for _, c := range all {
		fmt.Fprintf(&sb, "  [%7d..%7dµs] %s\n", us(c.Call), us(c.Ret), c)
	}
	for s, w := range kc.subs {
		fmt.Fprintf(&sb, " subscriber %d (open %dµs, attached %dµs, fence called %dµs, returned %dµs) received:\n", w.ID, us(w.Lo), us(w.Attach), us(w.Detach), us(w.Hi))
		for _, e := range kc.evs[s] {
			fmt.Fprintf(&sb, "    %s\n", e)
		}
	}
	out := sb.String()
	if len(out) > 6000 {
		out = out[:6000] + "…"
	}
	return out
}
