package events

import (
	"context"
	"fmt"
	"os"
	"regexp"
	"sync"
	"sync/atomic"
	"time"

	hydrapb "github.com/hydraide/hydraide/sdk/go/hydraidego/v3/hydraidepbgo"
	"pgregory.net/rapid"

	"verifharness/internal/pbt"
	"verifharness/internal/rig"
)

// Witness machinery of the open finding concurrent-sendmsg.
//
// "burst": M subscribers are registered on a swamp (handlers parked, nothing sent yet), then W writers, released by a
// spin barrier, each Set one private record. Every subscriber must receive W events; a stream that ends with a gRPC error
// was damaged by the concurrent SendMsg calls of the writers' goroutines.
// "slow-reader": one subscriber does not read while W writers Set large values; the stack sample shows how many
// goroutines are inside grpc.(*serverStream).SendMsg of the same stream at the same time (gRPC allows one).

type C19SendScenario struct {
	Kind    string `json:"kind"`
	Subs    int    `json:"subs"`
	Writers int    `json:"writers"`
	SizeKiB int    `json:"size_kib,omitempty"`
}

func genC19Send(t *rapid.T) C19SendScenario {
	if rapid.IntRange(0, 24).Draw(t, "slow") == 0 {
		return C19SendScenario{Kind: "slow-reader", Subs: 1, Writers: rapid.IntRange(2, 4).Draw(t, "writers"), SizeKiB: rapid.SampledFrom([]int{100, 200, 400}).Draw(t, "kib")}
	}
	return C19SendScenario{Kind: "burst", Subs: rapid.IntRange(4, 8).Draw(t, "subs"), Writers: rapid.IntRange(4, 12).Draw(t, "writers")}
}

var sendMsgRe = regexp.MustCompile(`grpc\.\(\*serverStream\)\.SendMsg\((0x[0-9a-f]+)`)

func runC19Send(s C19SendScenario) pbt.Outcome {
	e := getEnv()
	n := caseCtr.Add(1)
	sw := fmt.Sprintf("c19m/p%d/snd%d", os.Getpid(), n)
	island := rig.Island(sw)
	if !waitHandlers(0, 10*time.Second) {
		return pbt.Outcome{Skip: true}
	}
	ctx, cancel := context.WithCancel(context.Background())
	defer cancel()
	defer func() {
		c2, cc := context.WithTimeout(context.Background(), rpcTimeout)
		defer cc()
		e.cl.Destroy(c2, &hydrapb.DestroyRequest{IslandID: island, SwampName: sw})
	}()
	set := func(key string, val []byte) error {
		c2, cc := context.WithTimeout(context.Background(), rpcTimeout)
		defer cc()
		_, err := e.cl.Set(c2, &hydrapb.SetRequest{Swamps: []*hydrapb.SwampRequest{{IslandID: island, SwampName: sw, CreateIfNotExist: true, Overwrite: true,
			KeyValues: []*hydrapb.KeyValuePair{{Key: key, BytesVal: val}}}}})
		return err
	}
	if set("~anchor", []byte{1}) != nil {
		return pbt.Outcome{Skip: true}
	}
	// prime the swamp name (see the finding concurrent-first-subscribe-lost): one subscription registered and cancelled
	{
		pctx, pcancel := context.WithCancel(context.Background())
		_, err := e.cl.SubscribeToEvents(pctx, &hydrapb.SubscribeToEventsRequest{IslandID: island, SwampName: sw})
		ok := err == nil && waitHandlers(1, 10*time.Second)
		pcancel()
		if !ok || !waitHandlers(0, 10*time.Second) {
			return pbt.Outcome{Skip: true}
		}
	}
	streams := make([]hydrapb.HydraideService_SubscribeToEventsClient, s.Subs)
	for i := range streams {
		st, err := e.cl.SubscribeToEvents(ctx, &hydrapb.SubscribeToEventsRequest{IslandID: island, SwampName: sw})
		if err != nil {
			return pbt.Outcome{Skip: true}
		}
		streams[i] = st
	}
	if !waitHandlers(s.Subs, 10*time.Second) {
		return pbt.Outcome{Skip: true}
	}
	var cancelled atomic.Bool
	switch s.Kind {
	case "slow-reader":
		big := make([]byte, s.SizeKiB<<10)
		var wg sync.WaitGroup
		for w := 0; w < s.Writers; w++ {
			wg.Add(1)
			go func(w int) {
				defer wg.Done()
				for i := 0; i < 3; i++ {
					set(fmt.Sprintf("w%d-%d", w, i), big)
				}
			}(w)
		}
		// sample until the writers are stuck behind the unread stream (or done)
		most := 0
		for i := 0; i < 100 && most < 2; i++ {
			time.Sleep(5 * time.Millisecond)
			per := map[string]int{}
			for _, g := range goroutineDump() {
				if m := sendMsgRe.FindStringSubmatch(g); m != nil {
					per[m[1]]++
				}
			}
			for _, c := range per {
				if c > most {
					most = c
				}
			}
		}
		// drain so that the writers can finish
		got := 0
		done := make(chan struct{})
		var rerr error
		go func() {
			defer close(done)
			for got < 3*s.Writers {
				if _, err := streams[0].Recv(); err != nil {
					rerr = err
					return
				}
				got++
			}
		}()
		wg.Wait()
		select {
		case <-done:
		case <-time.After(eventTimeout):
		}
		cancelled.Store(true)
		cancel()
		waitHandlers(0, 10*time.Second)
		if rerr != nil {
			return pbt.Failf("send-header-race", "slow reader: stream failed after %d of %d events: %v", got, 3*s.Writers, rerr)
		}
		if most >= 2 {
			return pbt.Failf("concurrent-send-in-flight", "%d goroutines (writers' request handlers) were inside grpc.(*serverStream).SendMsg of the same subscriber stream at the same time; grpc-go allows one sender per stream (all %d events still arrived)", most, got)
		}
		return pbt.Outcome{NonTrivial: true, Classes: []string{"slow-reader"}}
	default:
		errs := make([]error, s.Subs)
		var errMu sync.Mutex
		getErr := func(i int) error { errMu.Lock(); defer errMu.Unlock(); return errs[i] }
		got := make([]int32, s.Subs)
		var rwg sync.WaitGroup
		for i := range streams {
			rwg.Add(1)
			go func(i int) {
				defer rwg.Done()
				for {
					if _, err := streams[i].Recv(); err != nil {
						if !cancelled.Load() {
							errMu.Lock()
							errs[i] = err
							errMu.Unlock()
						}
						return
					}
					atomic.AddInt32(&got[i], 1)
				}
			}(i)
		}
		var flag atomic.Bool
		var wg sync.WaitGroup
		for w := 0; w < s.Writers; w++ {
			wg.Add(1)
			go func(w int) {
				defer wg.Done()
				for !flag.Load() {
				}
				set(fmt.Sprintf("k%d", w), []byte{byte(w)})
			}(w)
		}
		time.Sleep(200 * time.Microsecond)
		flag.Store(true)
		wg.Wait()
		// every event was handed to the transport before its Set returned; wait for the receivers
		deadline := time.Now().Add(eventTimeout)
		for time.Now().Before(deadline) {
			all := true
			for i := range got {
				if atomic.LoadInt32(&got[i]) < int32(s.Writers) && getErr(i) == nil {
					all = false
				}
			}
			if all {
				break
			}
			time.Sleep(100 * time.Microsecond)
		}
		cancelled.Store(true)
		cancel()
		rwg.Wait()
		waitHandlers(0, 10*time.Second)
		for i := range streams {
			if errs[i] != nil {
				return pbt.Failf("send-header-race", "subscriber %d of %d: %d writers Set one record each at the same moment; the stream delivered %d event(s) and then failed: %v", i, s.Subs, s.Writers, got[i], errs[i])
			}
		}
		for i := range streams {
			if got[i] != int32(s.Writers) {
				return pbt.Failf("lost-event", "subscriber %d received %d of %d events and no error", i, got[i], s.Writers)
			}
		}
		return pbt.Outcome{NonTrivial: true, Classes: []string{"burst"}}
	}
}
