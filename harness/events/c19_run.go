package events

import (
	"context"
	"fmt"
	"os"
	"strings"
	"sync"
	"sync/atomic"
	"time"

	hydrapb "github.com/hydraide/hydraide/sdk/go/hydraidego/v3/hydraidepbgo"
	"google.golang.org/grpc/codes"
	"google.golang.org/grpc/status"

	"verifharness/internal/pbt"
	"verifharness/internal/rig"
)

// ---------------------------------------------------------------------------
// scenario

type C19Op struct {
	Kind    string `json:"k"`            // set setint setnx setsame patch patchnew patchsame inc del shift get
	Keys    []int  `json:"keys"`         // record indices (del/shift may name two)
	Delta   int64  `json:"d,omitempty"`  // inc
	DelayUs int    `json:"us,omitempty"` // pause before the call
}

type C19Sub struct {
	OpenAfter  int  `json:"open_after"`     // open once this many writer calls have completed (0 = at the start)
	Gate       bool `json:"gate,omitempty"` // OpenAfter==0 only: writers start after this subscriber is attached
	CloseAfter int  `json:"close_after"`    // fence+cancel once this many writer calls have completed; <0 = after the writers finished
}

type PlanAction struct {
	Site      string `json:"site"`
	Hit       int    `json:"hit,omitempty"`
	Kind      string `json:"kind"`
	SleepUs   int    `json:"sleep_us,omitempty"`
	Until     string `json:"until,omitempty"`
	MaxWaitMs int    `json:"max_wait_ms,omitempty"`
}

type C19Scenario struct {
	// Prime: before the case starts, one subscription is opened, seen registered (handler parked) and cancelled again,
	// so that the subscribers of the case are not the first ones ever on this swamp name.
	Prime bool `json:"prime,omitempty"`
	// SoloAttach: while a subscriber opens its stream and waits for its first (sentinel) event, no other write is in flight
	// (writers and other subscribers' sentinel/fence writes are held back), so the first event of a stream is never sent concurrently.
	// "open": from before the stream is opened; "sentinel": only while the sentinel writes run (the open itself races with everything).
	SoloAttach string `json:"solo_attach,omitempty"`
	// Persisted: (persistent swamps) every record is written before the case and the case starts after the write interval
	// has passed, so the records have been flushed to the swamp file (delete and update take the on-disk branches).
	Persisted bool `json:"persisted,omitempty"`
	// Anchor: a record that is never deleted is written before the case starts (the swamp never becomes empty).
	Anchor bool `json:"anchor,omitempty"`
	InMem  bool `json:"in_mem,omitempty"`
	// Immediate: persistent swamp with write interval 0 (immediate-write mode: SaveFunction releases the record guard itself
	// and writes + fsyncs the swamp file before it returns). Ignored when InMem.
	Immediate bool         `json:"immediate,omitempty"`
	NKeys     int          `json:"nkeys"`
	Writers   [][]C19Op    `json:"writers"`
	Subs      []C19Sub     `json:"subs"`
	Plan      []PlanAction `json:"plan,omitempty"`
}

// ---------------------------------------------------------------------------
// rig (one per process)

type c19env struct {
	r  *rig.Rig
	cl hydrapb.HydraideServiceClient
}

var (
	envMu   sync.Mutex
	theEnv  *c19env
	caseCtr atomic.Int64
)

func getEnv() *c19env {
	envMu.Lock()
	defer envMu.Unlock()
	if theEnv == nil {
		r := rig.New(rig.Options{Patterns: []rig.Pattern{
			{Pattern: "c19p/*/*", CloseAfterIdleSec: 600, WriteIntervalSec: 1},
			{Pattern: "c19m/*/*", CloseAfterIdleSec: 600, InMemory: true},
			{Pattern: "c19z/*/*", CloseAfterIdleSec: 600, WriteIntervalSec: 0},
		}})
		theEnv = &c19env{r: r, cl: r.Serve()}
	}
	return theEnv
}

func resetEnv() {
	envMu.Lock()
	defer envMu.Unlock()
	if theEnv != nil {
		theEnv.r.Cleanup()
		theEnv = nil
	}
}

// ---------------------------------------------------------------------------
// execution

const (
	rpcTimeout   = 30 * time.Second
	eventTimeout = 20 * time.Second // how long a subscriber waits for the event of its own acknowledged fence write
)

type runOpts struct {
	Mode       oracleMode
	ID         string
	AttachWait time.Duration // how long a subscriber keeps writing sentinels before it is handed to confirmLost (default 3 s)
	ConfirmFor time.Duration // how long confirmLost waits for the event of its quiescent write (default 3 s)
}

type subRun struct {
	spec      C19Sub
	id        int
	win       subWindow
	mu        sync.Mutex
	events    []*recvEvent
	notify    chan struct{}
	streamErr error // Recv failed although the client had not cancelled
	badEvent  string
	cancelled atomic.Bool
	attached  bool
	fenceSeen bool
	recvDone  chan struct{}
	sentinels int
	nextSeq   int
	cancel    context.CancelFunc // kept open when the attachment could not be confirmed
}

type caseRun struct {
	e         *c19env
	sw        string
	island    uint64
	mu        sync.Mutex
	changes   []*change
	noops     int
	reads     int
	completed atomic.Int64
	total     int64
	wdone     atomic.Bool
	hang      atomic.Bool
	rpcErr    atomic.Value // string
	solo      string
	attachFor time.Duration
	confirm   time.Duration
	quiesce   sync.RWMutex // writes hold it shared; an attaching subscriber holds it exclusively when solo
}

func (cr *caseRun) addChange(c *change) {
	cr.mu.Lock()
	cr.changes = append(cr.changes, c)
	cr.mu.Unlock()
}

func (cr *caseRun) noop() {
	cr.mu.Lock()
	cr.noops++
	cr.mu.Unlock()
}

func (cr *caseRun) fail(op string, err error) {
	if status.Code(err) == codes.DeadlineExceeded {
		cr.hang.Store(true)
	}
	cr.rpcErr.CompareAndSwap(nil, fmt.Sprintf("%s: %v", op, err))
}

func keyName(i int) string { return fmt.Sprintf("k%d", i) }

func (cr *caseRun) setReq(key string, kv *hydrapb.KeyValuePair, overwrite bool) *hydrapb.SetRequest {
	kv.Key = key
	return &hydrapb.SetRequest{Swamps: []*hydrapb.SwampRequest{{IslandID: cr.island, SwampName: cr.sw, CreateIfNotExist: true, Overwrite: overwrite,
		KeyValues: []*hydrapb.KeyValuePair{kv}}}}
}

// doSet issues one Set and logs the acknowledged change.
func (cr *caseRun) doSet(writer, seq int, opName, key string, v value, overwrite bool) {
	kv := &hydrapb.KeyValuePair{}
	if v.Int {
		n := v.N
		kv.Int64Val = &n
	} else {
		kv.BytesVal = docBytes(v.T, v.U)
	}
	ctx, cancel := context.WithTimeout(context.Background(), pbt.Bound(rpcTimeout))
	defer cancel()
	call := time.Now()
	resp, err := cr.e.cl.Set(ctx, cr.setReq(key, kv, overwrite))
	ret := time.Now()
	if err != nil {
		cr.fail(opName, err)
		return
	}
	st := hydrapb.Status_Code(-1)
	if len(resp.GetSwamps()) == 1 && len(resp.GetSwamps()[0].GetKeysAndStatuses()) == 1 {
		st = resp.GetSwamps()[0].GetKeysAndStatuses()[0].GetStatus()
	}
	c := &change{Writer: writer, Seq: seq, Op: opName, Key: key, Val: v, Call: call, Ret: ret}
	switch st {
	case hydrapb.Status_NEW:
		c.Kind = chCreate
		cr.addChange(c)
	case hydrapb.Status_UPDATED:
		c.Kind = chUpdate
		cr.addChange(c)
	case hydrapb.Status_NOTHING_CHANGED:
		cr.noop()
	default:
		cr.rpcErr.CompareAndSwap(nil, fmt.Sprintf("%s: unexpected Set acknowledgement %v (%v)", opName, st, resp))
	}
}

func (cr *caseRun) writer(w int, prog []C19Op) {
	tagN := 0
	lastSet := map[string]value{}
	lastPatch := map[string]string{}
	newTag := func() string { tagN++; return fmt.Sprintf("w%d:%d", w, tagN) }
	for seq, op := range prog {
		if cr.hang.Load() {
			return
		}
		if op.DelayUs > 0 {
			time.Sleep(time.Duration(op.DelayUs) * time.Microsecond)
		}
		key := keyName(op.Keys[0])
		name := fmt.Sprintf("%s(%s)", op.Kind, key)
		if op.Kind != "get" {
			cr.quiesce.RLock()
		}
		switch op.Kind {
		case "set":
			t := newTag()
			v := value{T: t, U: t}
			lastSet[key] = v
			cr.doSet(w, seq, name, key, v, true)
		case "setint":
			tagN++
			v := value{Int: true, N: int64(w+1)*1_000_000 + int64(tagN)*1000}
			cr.doSet(w, seq, name, key, v, true)
		case "setnx":
			t := newTag()
			cr.doSet(w, seq, name, key, value{T: t, U: t}, false)
		case "setsame":
			v, ok := lastSet[key]
			if !ok {
				t := newTag()
				v = value{T: t, U: t}
				lastSet[key] = v
			}
			cr.doSet(w, seq, name, key, v, true)
		case "patch", "patchnew", "patchsame":
			tag := ""
			if op.Kind == "patchsame" {
				tag = lastPatch[key]
			}
			if tag == "" {
				tag = newTag()
			}
			lastPatch[key] = tag
			req := &hydrapb.PatchTreasuresRequest{IslandID: cr.island, SwampName: cr.sw,
				Patches: []*hydrapb.TreasurePatch{{Key: key, Ops: []*hydrapb.PatchOp{{Op: hydrapb.PatchOp_SET, Path: "u", Value: mpStr(tag)}}}}}
			if op.Kind == "patchnew" {
				req.CreateIfNotExist = true
				req.InitialMsgpackOnCreate = docBytes(tag, tag+"-seed")[2:]
			}
			ctx, cancel := context.WithTimeout(context.Background(), pbt.Bound(rpcTimeout))
			call := time.Now()
			resp, err := cr.e.cl.PatchTreasures(ctx, req)
			ret := time.Now()
			cancel()
			if err != nil {
				cr.fail(name, err)
				break
			}
			if len(resp.GetResults()) != 1 {
				cr.rpcErr.CompareAndSwap(nil, fmt.Sprintf("%s: unexpected PatchTreasures acknowledgement %v", name, resp))
				break
			}
			switch resp.GetResults()[0].GetStatus() {
			case hydrapb.PatchResult_PATCHED:
				cr.addChange(&change{Writer: w, Seq: seq, Op: name, Key: key, Kind: chPatch, PatchU: tag, Call: call, Ret: ret})
			case hydrapb.PatchResult_CREATED:
				cr.addChange(&change{Writer: w, Seq: seq, Op: name, Key: key, Kind: chCreate, Val: value{T: tag, U: tag}, Call: call, Ret: ret})
			case hydrapb.PatchResult_KEY_NOT_FOUND, hydrapb.PatchResult_TYPE_MISMATCH:
				cr.noop()
			default:
				cr.rpcErr.CompareAndSwap(nil, fmt.Sprintf("%s: unexpected PatchTreasures acknowledgement %v", name, resp))
			}
		case "inc":
			ctx, cancel := context.WithTimeout(context.Background(), pbt.Bound(rpcTimeout))
			call := time.Now()
			resp, err := cr.e.cl.IncrementInt64(ctx, &hydrapb.IncrementInt64Request{IslandID: cr.island, SwampName: cr.sw, Key: key, IncrementBy: op.Delta})
			ret := time.Now()
			cancel()
			if err != nil {
				if status.Code(err) == codes.InvalidArgument { // the record holds a document
					cr.noop()
					break
				}
				cr.fail(name, err)
				break
			}
			if !resp.GetIsIncremented() {
				cr.rpcErr.CompareAndSwap(nil, fmt.Sprintf("%s: unconditional increment acknowledged as not incremented: %v", name, resp))
				break
			}
			cr.addChange(&change{Writer: w, Seq: seq, Op: name, Key: key, Kind: chUpsert, Val: value{Int: true, N: resp.GetValue()}, Call: call, Ret: ret})
		case "del":
			var keys []string
			for _, k := range op.Keys {
				keys = append(keys, keyName(k))
			}
			name = fmt.Sprintf("del(%s)", strings.Join(keys, ","))
			ctx, cancel := context.WithTimeout(context.Background(), pbt.Bound(rpcTimeout))
			call := time.Now()
			resp, err := cr.e.cl.Delete(ctx, &hydrapb.DeleteRequest{Swamps: []*hydrapb.DeleteRequest_SwampKeys{{IslandID: cr.island, SwampName: cr.sw, Keys: keys}}})
			ret := time.Now()
			cancel()
			if err != nil {
				cr.fail(name, err)
				break
			}
			any := false
			for _, sr := range resp.GetResponses() {
				for _, ks := range sr.GetKeyStatuses() {
					if ks.GetStatus() == hydrapb.Status_DELETED {
						any = true
						cr.addChange(&change{Writer: w, Seq: seq, Op: name, Key: ks.GetKey(), Kind: chDelete, Call: call, Ret: ret})
					}
				}
			}
			if !any {
				cr.noop()
			}
		case "shift":
			var keys []string
			for _, k := range op.Keys {
				keys = append(keys, keyName(k))
			}
			name = fmt.Sprintf("shift(%s)", strings.Join(keys, ","))
			ctx, cancel := context.WithTimeout(context.Background(), pbt.Bound(rpcTimeout))
			call := time.Now()
			resp, err := cr.e.cl.ShiftByKeys(ctx, &hydrapb.ShiftByKeysRequest{IslandID: cr.island, SwampName: cr.sw, Keys: keys})
			ret := time.Now()
			cancel()
			if err != nil {
				if status.Code(err) == codes.FailedPrecondition { // swamp does not exist yet
					cr.noop()
					break
				}
				cr.fail(name, err)
				break
			}
			if len(resp.GetTreasures()) == 0 {
				cr.noop()
			}
			for _, t := range resp.GetTreasures() {
				cr.addChange(&change{Writer: w, Seq: seq, Op: name, Key: t.GetKey(), Kind: chDelete, Call: call, Ret: ret})
			}
		case "get":
			ctx, cancel := context.WithTimeout(context.Background(), pbt.Bound(rpcTimeout))
			_, err := cr.e.cl.Get(ctx, &hydrapb.GetRequest{Swamps: []*hydrapb.GetSwamp{{IslandID: cr.island, SwampName: cr.sw, Keys: []string{key}}}})
			cancel()
			if err != nil && status.Code(err) == codes.DeadlineExceeded {
				cr.fail(name, err)
			}
			cr.mu.Lock()
			cr.reads++
			cr.mu.Unlock()
		}
		if op.Kind != "get" {
			cr.quiesce.RUnlock()
		}
		cr.completed.Add(1)
	}
}

func canonTreasure(t *hydrapb.Treasure) (canon, key string) {
	if t == nil {
		return "", ""
	}
	key = t.GetKey()
	switch {
	case t.BytesVal != nil:
		v, err := parseDoc(t.BytesVal)
		if err != nil {
			return fmt.Sprintf("undecodable(%x: %v)", t.BytesVal, err), key
		}
		return v.String(), key
	case t.Int64Val != nil:
		return value{Int: true, N: t.GetInt64Val()}.String(), key
	}
	if key == "" && !t.GetIsExist() {
		return "", ""
	}
	return "other(" + strings.TrimSpace(t.String()) + ")", key
}

func (sr *subRun) receiver(st hydrapb.HydraideService_SubscribeToEventsClient, swCanon string) {
	defer close(sr.recvDone)
	for {
		ev, err := st.Recv()
		if err != nil {
			if !sr.cancelled.Load() {
				sr.mu.Lock()
				sr.streamErr = err
				sr.mu.Unlock()
			}
			select {
			case sr.notify <- struct{}{}:
			default:
			}
			return
		}
		re := &recvEvent{Time: ev.GetEventTime().AsTime(), Raw: strings.TrimSpace(ev.String())}
		var k1, k2, k3 string
		re.T, k1 = canonTreasure(ev.GetTreasure())
		re.Old, k2 = canonTreasure(ev.GetOldTreasure())
		re.Del, k3 = canonTreasure(ev.GetDeletedTreasure())
		bad := ""
		switch ev.GetStatus() {
		case hydrapb.Status_NEW:
			re.Status, re.Key = "NEW", k1
		case hydrapb.Status_UPDATED:
			re.Status, re.Key = "UPDATED", k1
			if k2 != "" && k2 != k1 {
				bad = "OldTreasure names another record"
			}
		case hydrapb.Status_DELETED:
			re.Status, re.Key = "DELETED", k3
		default:
			bad = "unexpected status"
		}
		if re.Key == "" && bad == "" {
			bad = "event does not name a record"
		}
		if ev.GetSwampName() != swCanon && bad == "" {
			bad = "event names swamp " + ev.GetSwampName()
		}
		if ev.GetEventTime() == nil && bad == "" {
			bad = "event without EventTime"
		}
		sr.mu.Lock()
		if bad != "" && sr.badEvent == "" {
			sr.badEvent = bad + ": " + re.Raw
		}
		sr.events = append(sr.events, re)
		sr.mu.Unlock()
		select {
		case sr.notify <- struct{}{}:
		default:
		}
	}
}

// waitEvent waits until an event with the given record and Treasure value has been received.
func (sr *subRun) waitEvent(key, t string, d time.Duration) bool {
	deadline := time.NewTimer(d)
	defer deadline.Stop()
	for {
		sr.mu.Lock()
		for _, e := range sr.events {
			if e.Key == key && e.T == t {
				sr.mu.Unlock()
				return true
			}
		}
		broken := sr.streamErr != nil
		sr.mu.Unlock()
		if broken {
			return false
		}
		select {
		case <-sr.notify:
		case <-deadline.C:
			return false
		}
	}
}

func (cr *caseRun) waitCompleted(n int) {
	if int64(n) > cr.total {
		n = int(cr.total)
	}
	for cr.completed.Load() < int64(n) && !cr.wdone.Load() && !cr.hang.Load() {
		time.Sleep(20 * time.Microsecond)
	}
}

func (cr *caseRun) subscriber(sr *subRun, attachedCh chan<- struct{}) {
	signalled := false
	signal := func() {
		if !signalled {
			signalled = true
			attachedCh <- struct{}{}
		}
	}
	defer signal()
	j := sr.id
	wid := 100 + j
	skey := fmt.Sprintf("~s%d", j)
	if sr.spec.OpenAfter > 0 {
		cr.waitCompleted(sr.spec.OpenAfter)
	}
	locked := false
	if cr.solo == "open" {
		cr.quiesce.Lock()
		locked = true
	}
	unlock := func() {
		if locked {
			locked = false
			cr.quiesce.Unlock()
		}
	}
	defer unlock()
	ctx, cancel := context.WithCancel(context.Background())
	sr.cancel = cancel
	sr.win.Lo = time.Now()
	st, err := cr.e.cl.SubscribeToEvents(ctx, &hydrapb.SubscribeToEventsRequest{IslandID: cr.island, SwampName: cr.sw})
	if err != nil {
		sr.streamErr = err
		close(sr.recvDone)
		cancel()
		return
	}
	go sr.receiver(st, cr.sw)
	if cr.solo == "sentinel" {
		cr.quiesce.Lock()
		locked = true
	}
	// attach: private sentinel writes until the event of one of them arrives
	seq := 0
	start := time.Now()
	for !sr.attached && time.Since(start) < cr.attachFor && !cr.hang.Load() {
		tag := fmt.Sprintf("s%d:%d", j, seq)
		if !locked {
			cr.quiesce.RLock()
		}
		cr.doSet(wid, seq, "sentinel", skey, value{T: tag, U: tag}, true)
		if !locked {
			cr.quiesce.RUnlock()
		}
		ret := time.Now()
		seq++
		sr.sentinels++
		wait := time.Duration(seq) * 2 * time.Millisecond
		if wait > 200*time.Millisecond {
			wait = 200 * time.Millisecond
		}
		if sr.waitEvent(skey, value{T: tag, U: tag}.String(), wait) {
			sr.attached = true
			sr.win.Attach = ret
		}
		sr.mu.Lock()
		broken := sr.streamErr != nil
		sr.mu.Unlock()
		if broken {
			break
		}
	}
	unlock()
	signal()
	sr.nextSeq = seq
	if !sr.attached {
		sr.mu.Lock()
		broken := sr.streamErr != nil
		sr.mu.Unlock()
		if !broken && !cr.hang.Load() {
			return // stays open: judged in quiescence at the end of the case (confirmLost)
		}
	}
	if sr.attached {
		if sr.spec.CloseAfter >= 0 {
			cr.waitCompleted(sr.spec.CloseAfter)
		} else {
			for !cr.wdone.Load() && !cr.hang.Load() {
				time.Sleep(50 * time.Microsecond)
			}
		}
		// fence: everything acknowledged before this call has been sent before the fence event
		tag := fmt.Sprintf("s%d:f", j)
		cr.quiesce.RLock()
		sr.win.Detach = time.Now()
		cr.doSet(wid, seq, "fence", skey, value{T: tag, U: tag}, true)
		sr.win.Hi = time.Now()
		cr.quiesce.RUnlock()
		sr.fenceSeen = sr.waitEvent(skey, value{T: tag, U: tag}.String(), eventTimeout)
	}
	sr.cancelled.Store(true)
	cancel()
	select {
	case <-sr.recvDone:
	case <-time.After(10 * time.Second):
	}
	if sr.fenceSeen {
		// cut the event list at the fence event (the receiver has stopped)
		ft := value{T: fmt.Sprintf("s%d:f", j), U: fmt.Sprintf("s%d:f", j)}.String()
		sr.mu.Lock()
		for i, e := range sr.events {
			if e.Key == skey && e.T == ft {
				sr.events = sr.events[:i+1]
				break
			}
		}
		sr.mu.Unlock()
	}
}

// waitHandlers waits until exactly n gateway SubscribeToEvents handlers exist and all of them are parked in their final select.
func waitHandlers(n int, d time.Duration) bool {
	for deadline := time.Now().Add(d); ; time.Sleep(200 * time.Microsecond) {
		if goroutinesIn("gateway.Gateway.SubscribeToEvents", "") == n && goroutinesIn("gateway.Gateway.SubscribeToEvents", "select") == n {
			return true
		}
		if time.Now().After(deadline) {
			return false
		}
	}
}

// confirmLost judges subscribers whose attachment could not be confirmed by a
// sentinel event. It is a witness, not a timeout guess: all writers have ended
// and every other subscription has been cancelled; once exactly as many gateway
// handlers are parked in the select at the end of SubscribeToEvents as there are
// unconfirmed subscriptions, each of them has returned from
// SubscribeToSwampEvents (is registered). A private write acknowledged after
// that observation must produce an event; none arriving on an intact stream
// means the subscriber was lost.
func (cr *caseRun) confirmLost(subs []*subRun) map[int]string {
	out := map[int]string{}
	var open []*subRun
	for _, sr := range subs {
		if !sr.attached && sr.streamErr == nil && sr.cancel != nil && !sr.cancelled.Load() {
			open = append(open, sr)
		}
	}
	if len(open) == 0 || cr.hang.Load() {
		return out
	}
	defer func() {
		for _, sr := range open {
			sr.cancelled.Store(true)
			sr.cancel()
			select {
			case <-sr.recvDone:
			case <-time.After(10 * time.Second):
			}
		}
	}()
	if !waitHandlers(len(open), 10*time.Second) {
		return out
	}
	for _, sr := range open {
		skey := fmt.Sprintf("~s%d", sr.id)
		tag := fmt.Sprintf("s%d:q", sr.id)
		cr.doSet(100+sr.id, sr.nextSeq, "sentinel", skey, value{T: tag, U: tag}, true)
		if msg, _ := cr.rpcErr.Load().(string); msg != "" {
			return out
		}
		if sr.waitEvent(skey, value{T: tag, U: tag}.String(), cr.confirm) {
			// late but alive: treat the case as unjudgeable rather than guessing
			continue
		}
		sr.mu.Lock()
		broken := sr.streamErr
		sr.mu.Unlock()
		if broken != nil {
			continue
		}
		out[sr.id] = fmt.Sprintf("its gateway handler is parked in the final select of SubscribeToEvents (so SubscribeToSwampEvents has returned), the stream is intact, "+
			"%d private writes to record %q were acknowledged (the last one after that observation, with no other activity), and no event for any of them arrived", sr.sentinels+1, skey)
		break // one proven loss decides the case
	}
	return out
}

func runC19(s C19Scenario, o runOpts) (out pbt.Outcome) {
	e := getEnv()
	n := caseCtr.Add(1)
	cr := &caseRun{e: e, solo: s.SoloAttach, attachFor: o.AttachWait}
	if cr.attachFor == 0 {
		cr.attachFor = 3 * time.Second
	}
	cr.confirm = o.ConfirmFor
	if cr.confirm == 0 {
		cr.confirm = 3 * time.Second
	}
	if s.InMem {
		cr.sw = fmt.Sprintf("c19m/p%d/c%d", os.Getpid(), n)
	} else if s.Immediate {
		cr.sw = fmt.Sprintf("c19z/p%d/c%d", os.Getpid(), n)
	} else {
		cr.sw = fmt.Sprintf("c19p/p%d/c%d", os.Getpid(), n)
	}
	cr.island = rig.Island(cr.sw)
	for _, p := range s.Writers {
		cr.total += int64(len(p))
	}
	panics0 := e.r.Logs.Panics()
	if !waitHandlers(0, 10*time.Second) {
		return pbt.Outcome{Skip: true} // handlers of an earlier case still winding down
	}
	if s.Prime {
		ctx, cancel := context.WithCancel(context.Background())
		_, err := e.cl.SubscribeToEvents(ctx, &hydrapb.SubscribeToEventsRequest{IslandID: cr.island, SwampName: cr.sw})
		ok := err == nil && waitHandlers(1, 10*time.Second)
		cancel()
		if !ok || !waitHandlers(0, 10*time.Second) {
			return pbt.Outcome{Skip: true}
		}
	}
	if s.Anchor {
		cr.doSet(99, 0, "anchor", "~anchor", value{T: "anchor", U: "anchor"}, true)
	}
	if s.Persisted && !s.InMem && !s.Immediate {
		for k := 0; k < s.NKeys; k++ {
			cr.doSet(98, k, "preload", keyName(k), value{T: "pre", U: fmt.Sprintf("pre%d", k)}, true)
		}
		time.Sleep(1200 * time.Millisecond) // write interval of the pattern: 1 s
	}
	planOn := activatePlan(s.Plan)

	subs := make([]*subRun, len(s.Subs))
	attachedCh := make(chan struct{}, len(s.Subs))
	var swg sync.WaitGroup
	gates := 0
	for j, sp := range s.Subs {
		subs[j] = &subRun{spec: sp, id: j, notify: make(chan struct{}, 1), recvDone: make(chan struct{})}
		subs[j].win.ID = j
		if sp.OpenAfter == 0 && sp.Gate {
			gates++
		}
	}
	// gated subscribers first, then everybody else together with the writers
	gateCh := make(chan struct{}, len(s.Subs))
	for j, sp := range s.Subs {
		if sp.OpenAfter == 0 && sp.Gate {
			swg.Add(1)
			go func(sr *subRun) { defer swg.Done(); cr.subscriber(sr, gateCh) }(subs[j])
		}
	}
	for i := 0; i < gates; i++ {
		<-gateCh
	}
	for j, sp := range s.Subs {
		if !(sp.OpenAfter == 0 && sp.Gate) {
			swg.Add(1)
			go func(sr *subRun) { defer swg.Done(); cr.subscriber(sr, attachedCh) }(subs[j])
		}
	}
	var wwg sync.WaitGroup
	for w, prog := range s.Writers {
		wwg.Add(1)
		go func(w int, prog []C19Op) { defer wwg.Done(); cr.writer(w, prog) }(w, prog)
	}
	wwg.Wait()
	cr.wdone.Store(true)
	swg.Wait()
	fired := deactivatePlan(planOn)
	lost := cr.confirmLost(subs)

	// clean up the swamp of this case
	func() {
		ctx, cancel := context.WithTimeout(context.Background(), pbt.Bound(rpcTimeout))
		defer cancel()
		e.cl.Destroy(ctx, &hydrapb.DestroyRequest{IslandID: cr.island, SwampName: cr.sw})
	}()

	if cr.hang.Load() {
		msg, _ := cr.rpcErr.Load().(string)
		resetEnv()
		return pbt.Failf("hang", "a call did not return within %s: %s", rpcTimeout, msg)
	}
	if p := e.r.Logs.Panics() - panics0; p > 0 {
		return pbt.Failf("server-panic", "%d handler panic(s) were recovered by the gateway during the case: %v", p, e.r.Logs.Recent(3))
	}
	if msg, _ := cr.rpcErr.Load().(string); msg != "" {
		// the acknowledged change log is incomplete: this case cannot be judged
		pbt.Note(o.ID, "unjudged case (write outcome unknown): %s", msg)
		return pbt.Outcome{Skip: true}
	}
	var wins []*subWindow
	for _, sr := range subs {
		if sr.streamErr != nil {
			shape := "stream-error"
			if strings.Contains(sr.streamErr.Error(), "SendHeader called multiple times") {
				shape = "send-header-race"
			}
			return pbt.Failf(shape, "subscriber %d: event stream failed while subscribed (after %d events): %v", sr.id, len(sr.events), sr.streamErr)
		}
		if sr.badEvent != "" {
			return pbt.Failf("bad-event", "subscriber %d received a malformed event: %s", sr.id, sr.badEvent)
		}
		if !sr.attached {
			if why := lost[sr.id]; why != "" {
				return pbt.Failf("attach-lost", "subscriber %d: %s", sr.id, why)
			}
			return pbt.Outcome{Skip: true} // could not be proven either way
		}
		if !sr.fenceSeen {
			return pbt.Failf("lost-event", "subscriber %d (attached): the event of its acknowledged fence write did not arrive within %s; %d events received", sr.id, eventTimeout, len(sr.events))
		}
		sr.win.Events = sr.events
		wins = append(wins, &sr.win)
	}

	res := judge(cr.changes, wins, o.Mode)
	if !res.OK {
		// classify: which single clause explains the failure?
		shape := "mismatch"
		if o.Mode.CheckTime {
			m := o.Mode
			m.CheckTime = false
			if judge(cr.changes, wins, m).OK {
				shape = "event-time"
			}
		}
		if shape == "mismatch" && o.Mode.CheckOld {
			m := o.Mode
			m.CheckOld = false
			if judge(cr.changes, wins, m).OK {
				shape = "old-payload"
			}
		}
		if shape == "mismatch" {
			m := o.Mode
			m.NoopEmits = true
			if judge(cr.changes, wins, m).OK {
				shape = "noop-save-event"
			}
		}
		if shape == "mismatch" {
			m := o.Mode
			m.DeleteOnAbsent = true
			if judge(cr.changes, wins, m).OK {
				shape = "delete-acked-twice"
			}
		}
		if shape == "mismatch" {
			m := o.Mode
			m.AnyOrder = true
			if r := judge(cr.changes, wins, m); r.OK && !r.Undecide {
				shape = "event-order"
			} else {
				m.DeleteOnAbsent = true
				if r := judge(cr.changes, wins, m); r.OK && !r.Undecide {
					shape = "event-order"
				}
			}
		}
		return pbt.Failf(shape, "record %q: no commit order of the acknowledged changes explains the received events [%s]: %s", res.Key, shape, res.Msg)
	}
	if res.Undecide {
		return pbt.Outcome{Skip: true}
	}

	// evidence
	out.Classes = classesOf(s, cr, wins, fired)
	out.NonTrivial = nonTrivial(cr, wins)
	return out
}

func nonTrivial(cr *caseRun, wins []*subWindow) bool {
	hasDel := false
	for _, c := range cr.changes {
		if c.Kind == chDelete && c.Writer < 100 {
			hasDel = true
		}
	}
	return hasDel && cr.noops > 0 && overlapWhileAttached(cr, wins, false)
}

func overlapWhileAttached(cr *caseRun, wins []*subWindow, sameKey bool) bool {
	for i, a := range cr.changes {
		if a.Writer >= 100 {
			continue
		}
		for _, b := range cr.changes[i+1:] {
			if b.Writer >= 100 || b.Writer == a.Writer || (sameKey && a.Key != b.Key) {
				continue
			}
			if a.Ret.Before(b.Call) || b.Ret.Before(a.Call) {
				continue
			}
			for _, w := range wins {
				if classify(a, w) == required && classify(b, w) == required {
					return true
				}
			}
		}
	}
	return false
}

func classesOf(s C19Scenario, cr *caseRun, wins []*subWindow, fired int) []string {
	var cl []string
	add := func(c string) { cl = append(cl, c) }
	kinds := map[string]bool{}
	for _, c := range cr.changes {
		if c.Writer < 100 {
			kinds[c.Kind.String()] = true
		}
	}
	for k := range map[string]bool{"create": true, "update": true, "patch": true, "upsert": true, "delete": true} {
		if kinds[k] {
			add("has-" + k)
		}
	}
	if cr.noops > 0 {
		add("has-noop-write")
	}
	if cr.reads > 0 {
		add("has-read")
	}
	if len(wins) > 1 {
		add("multi-subscriber")
	}
	if len(s.Writers) > 1 {
		add("multi-writer")
	}
	if overlapWhileAttached(cr, wins, false) {
		add("overlap-while-attached")
	}
	if overlapWhileAttached(cr, wins, true) {
		add("overlap-same-record-while-attached")
	}
	opt, req, forb := 0, 0, 0
	for _, c := range cr.changes {
		if c.Writer >= 100 {
			continue
		}
		for _, w := range wins {
			switch classify(c, w) {
			case optional:
				opt++
			case required:
				req++
			default:
				forb++
			}
		}
	}
	if opt > 0 {
		add("change-overlaps-attach-or-detach")
	}
	if forb > 0 {
		add("change-outside-subscription")
	}
	if req > 0 {
		add("change-inside-subscription")
	}
	for _, sp := range s.Subs {
		if sp.OpenAfter > 0 {
			add("subscriber-opened-mid-run")
			break
		}
	}
	for _, sp := range s.Subs {
		if sp.CloseAfter >= 0 {
			add("subscriber-closed-mid-run")
			break
		}
	}
	if s.Prime {
		add("swamp-name-had-a-subscriber-before")
	} else {
		add("first-subscribers-of-the-swamp-name")
	}
	if !s.Anchor {
		add("swamp-created-during-the-case")
	}
	if s.Persisted && !s.InMem {
		add("records-flushed-to-disk-before-the-case")
	}
	if s.SoloAttach == "" {
		add("attach-concurrent-with-writes")
	}
	switch {
	case s.InMem:
		add("in-memory-swamp")
	case s.Immediate:
		add("immediate-write-swamp")
	default:
		add("persistent-swamp")
	}
	if overlapWhileAttached(cr, wins, true) && s.Immediate && !s.InMem {
		add("overlap-same-record-while-attached-immediate-write")
	}
	if fired > 0 {
		add("perturbation-fired")
	}
	return cl
}
