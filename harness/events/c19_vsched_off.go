//go:build !verifvsched

package events

// Without the schedule-perturbation shim, plans are ignored (the generator draws none).

var c19Sites []string

func activatePlan(p []PlanAction) bool { return false }
func deactivatePlan(on bool) int       { return 0 }
