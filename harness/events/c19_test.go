package events

import (
	"testing"
	"time"

	"verifharness/internal/pbt"
)

// C19 — Subscribers get each committed change once, in order, with correct time.

const c19Rule = "real gRPC (bufconn) against the in-process server, fresh swamp per case (persistent or in-memory; 1 in ~30 persistent cases with all records flushed to disk beforehand): " +
	"1–4 writers × 1–8 (thorough 12) calls — Set new/changed document, Set int64, Set Overwrite=false, identical re-Set, PatchTreasures with/without CreateIfNotExist, identical re-patch, IncrementInt64, " +
	"Delete 1–2 keys, ShiftByKeys 1–2 keys, Get — on 1–4 records with write-tagged values and drawn pauses; 1–3 subscribers opened at the start (optionally gating the writers) or after a drawn number of " +
	"completed calls, fenced+cancelled after a drawn number of calls or at the end; drawn: swamp name primed by an earlier subscription or not, attach exclusive or concurrent with writes, anchor record or " +
	"swamp created during the case; instrumented build: 0–3 drawn perturbations (gosched / sleep 50µs–5ms / bounded pause-until-site) at 19 synchronisation sites of the subscribe / emit / delete paths. " +
	"Attachment = event of a private sentinel write received, detachment = private fence write called. Oracle per record, all subscribers at once: a commit order of the ACKNOWLEDGED changes consistent with " +
	"program order and real time must reproduce each subscriber's event list (required = called after attach and returned before detach, optional = overlapping a boundary, forbidden = outside); status and " +
	"Treasure/OldTreasure/DeletedTreasure = committed values; no event for reads, no-change acknowledgements and saves of an identical value; EventTime ∈ [call−1s, return+1s]; streams never fail, no malformed " +
	"event, every subscription attaches (lost attachment judged by a parked-handler witness). " +
	"non-trivial = changes of ≥2 writers overlap in time while both must be delivered to an attached subscriber AND the history has a delete AND a write acknowledged as no change"

func c19Mode() oracleMode {
	return oracleMode{
		CheckTime: !pbt.Open("C19", "event-time-as-seconds"),
		CheckOld:  !pbt.Open("C19", "old-treasure-equals-new"),
	}
}

func TestC19Main(t *testing.T) {
	cfg := c19Cfg()
	mode := c19Mode()
	if !cfg.allowSame {
		pbt.Excluded("C19", "main", "identical re-Set / identical re-patch of a record (open finding noop-save-emits-event)")
	}
	if cfg.prime {
		pbt.Excluded("C19", "main", "subscribers that are the first ever on their swamp name and open concurrently (open finding concurrent-first-subscribe-lost)")
	}
	if !cfg.sharedDeletes {
		pbt.Excluded("C19", "main", "Delete / ShiftByKeys of a record that other writers use too (open finding delete-not-atomic-per-key)")
	}
	if cfg.soloAttach {
		pbt.Excluded("C19", "main", "writes in flight while a subscriber opens its stream and receives its first event (open finding concurrent-sendmsg)")
	}
	if !mode.CheckTime {
		pbt.Excluded("C19", "main", "EventTime clause of the oracle (open finding event-time-as-seconds: every event carries the wrong time)")
	}
	if !mode.CheckOld {
		pbt.Excluded("C19", "main", "OldTreasure clause of the oracle (open finding old-treasure-equals-new: every UPDATED event carries the new value as OldTreasure)")
	}
	pbt.Main(t, pbt.Spec[C19Scenario]{
		ID: "C19", Facet: "main", Rule: c19Rule,
		Quick: 2000, Thorough: 48000,
		Gen: genC19(cfg), Run: func(s C19Scenario) pbt.Outcome { return runC19(s, runOpts{Mode: mode, ID: "C19"}) },
	})
}

func TestC19Hot(t *testing.T) {
	mode := c19Mode()
	pbt.Main(t, pbt.Spec[C19Scenario]{
		ID: "C19", Facet: "hot",
		Rule: "hot record: 2–6 writers × 3–16 calls on ONE record without pauses (2 in 3 cases IncrementInt64 +1..+3 only — the acknowledged values give the commit order exactly; otherwise mixed with Set document / Set int64 / PatchTreasures / Get), " +
			"1–2 subscribers attached before the writers start; write mode drawn: immediate-write (write interval 0, 3 in 5), write interval 1 s, in-memory; same oracle as the main facet; " +
			"non-trivial = changes of ≥2 writers to the record overlap in time while both must be delivered",
		Quick: 480, Thorough: 9600,
		Gen: genHot, Run: func(s C19Scenario) pbt.Outcome {
			o := runC19(s, runOpts{Mode: mode, ID: "C19"})
			if o.Fail == "" && !o.Skip {
				o.NonTrivial = hasClass(o.Classes, "overlap-same-record-while-attached")
			}
			return o
		},
	})
}

func hasClass(cl []string, c string) bool {
	for _, x := range cl {
		if x == c {
			return true
		}
	}
	return false
}

func TestC19WitnessEventTime(t *testing.T) {
	cfg := c19Cfg()
	mode := c19Mode()
	mode.CheckTime = true
	pbt.Witness(t, pbt.Spec[C19Scenario]{
		ID: "C19", Facet: "witness-event-time", Rule: "main generator, EventTime clause asserted",
		Quick: 40, Thorough: 400,
		Gen: genC19(cfg), Run: func(s C19Scenario) pbt.Outcome { return runC19(s, runOpts{Mode: mode, ID: "C19"}) },
	}, "event-time-as-seconds", "event-time")
}

func TestC19WitnessOldTreasure(t *testing.T) {
	cfg := c19Cfg()
	mode := c19Mode()
	mode.CheckOld = true
	pbt.Witness(t, pbt.Spec[C19Scenario]{
		ID: "C19", Facet: "witness-old-treasure", Rule: "main generator, OldTreasure clause asserted",
		Quick: 40, Thorough: 400,
		Gen: genC19(cfg), Run: func(s C19Scenario) pbt.Outcome { return runC19(s, runOpts{Mode: mode, ID: "C19"}) },
	}, "old-treasure-equals-new", "old-payload")
}

func TestC19WitnessNoopSave(t *testing.T) {
	cfg := c19Cfg()
	cfg.allowSame = true
	cfg.forceSame = true
	mode := c19Mode()
	pbt.Witness(t, pbt.Spec[C19Scenario]{
		ID: "C19", Facet: "witness-noop-save", Rule: "main generator with identical re-Set / re-patch enabled and one undisturbed Set+identical Set forced in under an attached subscriber",
		Quick: 40, Thorough: 400,
		Gen: genC19(cfg), Run: func(s C19Scenario) pbt.Outcome { return runC19(s, runOpts{Mode: mode, ID: "C19"}) },
	}, "noop-save-emits-event", "noop-save-event")
}

func TestC19WitnessDeleteNotAtomic(t *testing.T) {
	mode := c19Mode()
	pbt.Witness(t, pbt.Spec[C19Scenario]{
		ID: "C19", Facet: "witness-delete-not-atomic",
		Rule:  "3–4 writers × 4–10 calls (Set, Set int64, IncrementInt64, Delete, ShiftByKeys) on ONE shared record without pauses, one subscriber attached before the writers start; instrumented build: the DELETED emission is delayed by 50–1000 µs",
		Quick: 200, Thorough: 2000,
		Gen: genDeleteRace, Run: func(s C19Scenario) pbt.Outcome { return runC19(s, runOpts{Mode: mode, ID: "C19"}) },
	}, "delete-not-atomic-per-key", "event-order", "delete-acked-twice", "mismatch")
}

func TestC19WitnessConcurrentSend(t *testing.T) {
	pbt.Witness(t, pbt.Spec[C19SendScenario]{
		ID: "C19", Facet: "witness-concurrent-send",
		Rule:  "burst: 4–8 registered subscribers that have not received anything yet, 4–12 writers released by a spin barrier Set one record each — every stream must deliver all events without error; slow-reader: one subscriber that does not read, 2–4 writers Set 100–400 KiB values, stack sample counts goroutines inside SendMsg of that one stream",
		Quick: 320, Thorough: 3200,
		Gen: genC19Send, Run: runC19Send,
	}, "concurrent-sendmsg", "send-header-race", "concurrent-send-in-flight")
}

func TestC19WitnessFirstSubscribe(t *testing.T) {
	mode := c19Mode()
	pbt.Witness(t, pbt.Spec[C19Scenario]{
		ID: "C19", Facet: "witness-first-subscribe", Rule: "4–8 subscribers opened at once on a swamp name without earlier subscriptions (no priming), sentinel writes serialised, writers start after the attach phase",
		Quick: 64, Thorough: 640,
		Gen: genFirstSubscribe, Run: func(s C19Scenario) pbt.Outcome {
			return runC19(s, runOpts{Mode: mode, ID: "C19", AttachWait: 300 * time.Millisecond, ConfirmFor: time.Second})
		},
	}, "concurrent-first-subscribe-lost", "attach-lost", "lost-event")
}
