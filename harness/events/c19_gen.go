package events

import (
	"os"

	"pgregory.net/rapid"

	"verifharness/internal/pbt"
)

type genCfg struct {
	allowSame     bool // identical re-Set / identical re-patch (trigger of the open finding noop-save-emits-event)
	forceSame     bool // witness: make sure such a save exists and is not disturbed
	prime         bool // always prime the swamp name with an earlier subscription (open finding concurrent-first-subscribe-lost)
	sharedDeletes bool // Delete/ShiftByKeys of records that other writers use too (trigger of the open finding delete-not-atomic-per-key)
	soloAttach    bool // no write in flight while a subscriber attaches (open finding concurrent-sendmsg)
	fewKeys       bool // witness: concentrate on 1–2 records
	maxOps        int
}

func c19Cfg() genCfg {
	cfg := genCfg{
		allowSame:     !pbt.Open("C19", "noop-save-emits-event"),
		prime:         pbt.Open("C19", "concurrent-first-subscribe-lost"),
		sharedDeletes: !pbt.Open("C19", "delete-not-atomic-per-key"),
		soloAttach:    pbt.Open("C19", "concurrent-sendmsg"),
		maxOps:        8,
	}
	if pbt.GetEnv().Tier == "thorough" {
		cfg.maxOps = 12
	}
	return cfg
}

var baseKinds = []string{"set", "set", "set", "set", "setint", "setnx", "patch", "patch", "patchnew", "inc", "inc", "get"}

// genOp draws one call of writer w. owner[k] = -1: record k is shared by all writers; otherwise only that writer uses it.
func genOp(t *rapid.T, cfg genCfg, w int, owner []int, deletes bool) C19Op {
	kinds := append([]string(nil), baseKinds...)
	if deletes {
		kinds = append(kinds, "del", "del", "del", "shift")
	}
	if cfg.allowSame {
		kinds = append(kinds, "setsame", "setsame", "patchsame")
	}
	var usable, deletable []int
	for k, o := range owner {
		if o == -1 || o == w {
			usable = append(usable, k)
		}
		if o == w || (o == -1 && cfg.sharedDeletes) {
			deletable = append(deletable, k)
		}
	}
	if deletes && !cfg.sharedDeletes && len(deletable) > 0 {
		kinds = append(kinds, "del", "del", "del", "shift", "shift")
	}
	op := C19Op{Kind: rapid.SampledFrom(kinds).Draw(t, "kind")}
	pool := usable
	if op.Kind == "del" || op.Kind == "shift" {
		if len(deletable) == 0 {
			op.Kind = "set"
		} else {
			pool = deletable
		}
	}
	op.Keys = []int{rapid.SampledFrom(pool).Draw(t, "key")}
	switch op.Kind {
	case "inc":
		op.Delta = int64(rapid.IntRange(1, 9).Draw(t, "delta"))
	case "del", "shift":
		if len(pool) > 1 && rapid.IntRange(0, 3).Draw(t, "two") == 0 {
			k2 := rapid.SampledFrom(pool).Draw(t, "key2")
			if k2 != op.Keys[0] {
				op.Keys = append(op.Keys, k2)
			}
		}
	}
	op.DelayUs = rapid.SampledFrom([]int{0, 0, 0, 20, 100, 400, 1000}).Draw(t, "delay")
	return op
}

func genC19(cfg genCfg) func(t *rapid.T) C19Scenario {
	return func(t *rapid.T) C19Scenario {
		var s C19Scenario
		s.Prime = cfg.prime || rapid.IntRange(0, 2).Draw(t, "prime") == 0
		s.SoloAttach = rapid.SampledFrom([]string{"", "", "sentinel", "open"}).Draw(t, "solo")
		if cfg.soloAttach {
			s.SoloAttach = "open"
		}
		s.InMem = rapid.IntRange(0, 2).Draw(t, "inmem") == 0
		s.Immediate = !s.InMem && rapid.IntRange(0, 1).Draw(t, "immediate") == 0
		// Anchor: a record nobody deletes exists from the start, so that the swamp never becomes empty (deleting the last
		// record destroys the whole swamp — the lifecycle properties' business). Without anchor no deletes are generated.
		s.Anchor = rapid.IntRange(0, 5).Draw(t, "anchor") != 0
		if cfg.fewKeys {
			s.NKeys = rapid.SampledFrom([]int{1, 1, 2}).Draw(t, "nkeys")
			s.Anchor = true
		} else {
			s.NKeys = rapid.SampledFrom([]int{1, 2, 2, 3, 3, 4}).Draw(t, "nkeys")
			if !cfg.sharedDeletes && s.NKeys < 4 {
				s.NKeys++ // record 0 stays shared; deletes need an owned record
			}
		}
		nw := rapid.SampledFrom([]int{1, 2, 2, 3, 3, 4}).Draw(t, "nwriters")
		owner := make([]int, s.NKeys)
		for k := range owner {
			owner[k] = -1
			if !cfg.sharedDeletes && k > 0 && rapid.IntRange(0, 2).Draw(t, "owned") != 0 {
				owner[k] = rapid.IntRange(0, nw-1).Draw(t, "owner")
			}
		}
		if !cfg.sharedDeletes && nw == 1 {
			for k := range owner {
				owner[k] = 0
			}
		}
		total := 0
		for w := 0; w < nw; w++ {
			n := rapid.IntRange(1, cfg.maxOps).Draw(t, "nops")
			var prog []C19Op
			for i := 0; i < n; i++ {
				prog = append(prog, genOp(t, cfg, w, owner, s.Anchor))
			}
			s.Writers = append(s.Writers, prog)
			total += n
		}
		if cfg.forceSame {
			// writer 0 alone owns an extra record: Set it, then Set the identical value again
			k := s.NKeys
			s.NKeys++
			pre := []C19Op{{Kind: "set", Keys: []int{k}}, {Kind: "setsame", Keys: []int{k}}}
			s.Writers[0] = append(pre, s.Writers[0]...)
			total += 2
		}
		ns := rapid.SampledFrom([]int{1, 1, 2, 2, 3}).Draw(t, "nsubs")
		for j := 0; j < ns; j++ {
			var sp C19Sub
			if rapid.IntRange(0, 1).Draw(t, "open-at-start") == 0 {
				sp.Gate = rapid.IntRange(0, 2).Draw(t, "gate") != 0
			} else {
				sp.OpenAfter = rapid.IntRange(1, total).Draw(t, "open-after")
			}
			if rapid.IntRange(0, 1).Draw(t, "stay") == 0 {
				sp.CloseAfter = -1
			} else {
				sp.CloseAfter = rapid.IntRange(sp.OpenAfter, total).Draw(t, "close-after")
			}
			s.Subs = append(s.Subs, sp)
		}
		if cfg.forceSame {
			s.Subs[0] = C19Sub{Gate: true, CloseAfter: -1}
		}
		s.Persisted = !s.InMem && !s.Immediate && s.Anchor && (rapid.IntRange(0, 29).Draw(t, "persisted") == 0 || os.Getenv("C19_FORCE_PERSISTED") != "")
		s.Plan = genPlan(t)
		return s
	}
}

func genPlan(t *rapid.T) []PlanAction {
	if len(c19Sites) == 0 {
		return nil
	}
	var plan []PlanAction
	na := rapid.IntRange(0, 3).Draw(t, "nactions")
	for i := 0; i < na; i++ {
		a := PlanAction{Site: rapid.SampledFrom(c19Sites).Draw(t, "site"), Hit: rapid.IntRange(1, 5).Draw(t, "hit")}
		switch rapid.IntRange(0, 3).Draw(t, "akind") {
		case 0:
			a.Kind = "gosched"
			a.Hit = rapid.IntRange(0, 5).Draw(t, "hit0") // 0 = every passage
		case 1:
			a.Kind = "sleep"
			a.SleepUs = rapid.SampledFrom([]int{50, 300, 1500, 5000}).Draw(t, "us")
			if a.SleepUs <= 300 && rapid.IntRange(0, 2).Draw(t, "every") == 0 {
				a.Hit = 0
			}
		default:
			a.Kind = "pause"
			a.Until = "site:" + rapid.SampledFrom(c19Sites).Draw(t, "until")
			a.MaxWaitMs = rapid.SampledFrom([]int{2, 10, 40}).Draw(t, "maxwait")
		}
		plan = append(plan, a)
	}
	return plan
}

// genFirstSubscribe: witness neighbourhood of concurrent-first-subscribe-lost — 4–8 subscribers open at once on a swamp
// name nobody subscribed to before; the writers start after the attach phase, sentinel writes are serialised.
func genFirstSubscribe(t *rapid.T) C19Scenario {
	s := C19Scenario{Prime: false, Anchor: rapid.IntRange(0, 1).Draw(t, "anchor") == 0, NKeys: 2, SoloAttach: "sentinel"}
	s.InMem = rapid.IntRange(0, 1).Draw(t, "inmem") == 0
	for w := 0; w < 2; w++ {
		s.Writers = append(s.Writers, []C19Op{{Kind: "set", Keys: []int{w}}, {Kind: "set", Keys: []int{w}}})
	}
	ns := rapid.IntRange(4, 8).Draw(t, "nsubs")
	if len(c19Sites) > 0 {
		ns = rapid.IntRange(2, 3).Draw(t, "nsubs-instrumented")
	}
	for j := 0; j < ns; j++ {
		s.Subs = append(s.Subs, C19Sub{Gate: true, CloseAfter: -1})
	}
	if len(c19Sites) > 0 {
		// instrumented build: hold every subscriber for a moment between the Load that finds no subscriber map and the Store of its own map
		s.Plan = []PlanAction{{Site: "hydra:SubscribeToSwampEvents:Store:a25ce7", Hit: 0, Kind: "sleep", SleepUs: rapid.SampledFrom([]int{300, 1500}).Draw(t, "us")}}
	}
	return s
}

// genDeleteRace: witness neighbourhood of delete-not-atomic-per-key — 3–4 writers Set / Increment / Delete / ShiftByKeys ONE
// shared record without pauses under a subscriber that is attached from the start. In the instrumented build the DELETED
// event emission is delayed a little (a drawn sleep at the entry of sendDeletedEventToClient), which widens the window.
func genDeleteRace(t *rapid.T) C19Scenario {
	s := C19Scenario{Prime: true, Anchor: true, NKeys: 1, SoloAttach: "open"}
	s.InMem = rapid.IntRange(0, 1).Draw(t, "inmem") == 0
	nw := rapid.IntRange(3, 4).Draw(t, "nwriters")
	for w := 0; w < nw; w++ {
		n := rapid.IntRange(4, 10).Draw(t, "nops")
		var prog []C19Op
		for i := 0; i < n; i++ {
			op := C19Op{Kind: rapid.SampledFrom([]string{"set", "set", "setint", "inc", "del", "del", "shift"}).Draw(t, "kind"), Keys: []int{0}}
			if op.Kind == "inc" {
				op.Delta = int64(rapid.IntRange(1, 9).Draw(t, "delta"))
			}
			prog = append(prog, op)
		}
		s.Writers = append(s.Writers, prog)
	}
	s.Subs = []C19Sub{{Gate: true, CloseAfter: -1}}
	if len(c19Sites) > 0 {
		s.Plan = []PlanAction{{Site: "swamp:sendDeletedEventToClient:atomic.LoadInt32:9cc62d", Hit: 0, Kind: "sleep", SleepUs: rapid.SampledFrom([]int{50, 300, 1000}).Draw(t, "us")}}
	}
	return s
}

// genHot: "hot record" programs — 2–6 writers hammer ONE existing record without pauses (IncrementInt64 +1..+3 answers the
// committed value, so the commit order of the increments is known exactly; Set / Set int64 / PatchTreasures carry write tags),
// under 1–2 subscribers attached before the writers start; all three write modes, biased to immediate-write (write interval 0),
// where SaveFunction hands the record guard over before the file write. No deletes (their open finding stays excluded).
func genHot(t *rapid.T) C19Scenario {
	s := C19Scenario{Prime: rapid.IntRange(0, 1).Draw(t, "prime") == 0, Anchor: true, NKeys: 1, SoloAttach: rapid.SampledFrom([]string{"", "sentinel", "open"}).Draw(t, "solo")}
	switch rapid.IntRange(0, 4).Draw(t, "mode") {
	case 0:
		s.InMem = true
	case 1:
	default:
		s.Immediate = true
	}
	counter := rapid.IntRange(0, 2).Draw(t, "counter-only") != 0
	nw := rapid.IntRange(2, 6).Draw(t, "nwriters")
	for w := 0; w < nw; w++ {
		n := rapid.IntRange(3, 16).Draw(t, "nops")
		var prog []C19Op
		for i := 0; i < n; i++ {
			op := C19Op{Kind: "inc", Keys: []int{0}}
			if !counter {
				op.Kind = rapid.SampledFrom([]string{"inc", "inc", "set", "set", "setint", "patch", "patch", "get"}).Draw(t, "kind")
			}
			if op.Kind == "inc" {
				op.Delta = int64(rapid.IntRange(1, 3).Draw(t, "delta"))
			}
			prog = append(prog, op)
		}
		s.Writers = append(s.Writers, prog)
	}
	ns := rapid.IntRange(1, 2).Draw(t, "nsubs")
	for j := 0; j < ns; j++ {
		s.Subs = append(s.Subs, C19Sub{Gate: true, CloseAfter: -1})
	}
	s.Plan = genPlan(t)
	return s
}
