package events

import (
	"runtime"
	"strings"
	"sync"
)

var (
	dumpMu  sync.Mutex
	dumpBuf = make([]byte, 256<<10)
)

// goroutineDump returns the stacks of all goroutines, one string per goroutine.
func goroutineDump() []string {
	dumpMu.Lock()
	defer dumpMu.Unlock()
	for {
		n := runtime.Stack(dumpBuf, true)
		if n < len(dumpBuf) {
			return strings.Split(string(dumpBuf[:n]), "\n\n")
		}
		dumpBuf = make([]byte, 2*len(dumpBuf))
	}
}

// goroutinesIn returns how many goroutines currently have a frame whose
// function name contains fn and are in the given wait state ("" = any).
func goroutinesIn(fn, state string) int {
	c := 0
	for _, g := range goroutineDump() {
		if !strings.Contains(g, fn) {
			continue
		}
		hdr := g
		if i := strings.Index(g, "\n"); i >= 0 {
			hdr = g[:i]
		}
		if state == "" || strings.Contains(hdr, "["+state) {
			c++
		}
	}
	return c
}
