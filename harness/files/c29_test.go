package files

import (
	"context"
	"fmt"
	"os"
	"path/filepath"
	"strings"
	"testing"

	"github.com/hydraide/hydraide/app/core/hydra/swamp/beacon"
	"github.com/hydraide/hydraide/app/core/hydra/swamp/chronicler"
	v2 "github.com/hydraide/hydraide/app/core/hydra/swamp/chronicler/v2"
	"github.com/hydraide/hydraide/app/core/hydra/swamp/treasure"
	"github.com/hydraide/hydraide/app/core/hydra/swamp/treasure/guard"
	"github.com/hydraide/hydraide/app/name"
	"github.com/hydraide/hydraide/app/server/explorer"
	"pgregory.net/rapid"

	"verifharness/internal/hydfmt"
	"verifharness/internal/pbt"
)

// C29 — Fast swamp-name discovery agrees with the stored name.

const c29WitnessLongName = "name-longer-than-65535"

// NameSpec is sanctuary/realm/swamp; Pad copies of 'n' are appended to the
// swamp part (keeps 65 535-byte names out of the JSON).
type NameSpec struct {
	S   string `json:"s"`
	R   string `json:"r"`
	W   string `json:"w"`
	Pad int    `json:"pad,omitempty"`
}

func (n NameSpec) swampPart() string { return n.W + strings.Repeat("n", n.Pad) }
func (n NameSpec) String() string    { return n.S + "/" + n.R + "/" + n.swampPart() }

type C29KV struct {
	Del bool     `json:"del,omitempty"`
	Key int      `json:"key"`
	D   DataSpec `json:"d"`
}

// C29Stage is one step in the life of a file after its creation.
//
//	append-plain     v2.NewFileWriter on the existing file, entries, Close
//	append-named     v2.NewFileWriterWithName(existing, "other/name/ignored"), entries, Close
//	chron-write      chronicler.NewV2WithName(name).Write(treasures) + Close
//	compact          v2.NewCompactor(threshold 0.3).Compact()
//	force-compact    v2.NewCompactor(...).ForceCompact()
//	compact-if       v2.NewCompactor(...).CompactIfNeeded()
//	from-index       LoadIndex + v2.CompactFromIndex with the name LoadIndex returned
//	chron-force      chronicler.NewV2WithName(name).ForceCompaction()
//	chron-load-heal  >=100 dead entries appended, then chronicler.NewV2 (no name).Load => self-heal compaction
type C29Stage struct {
	K   string  `json:"k"`
	Ops []C29KV `json:"ops,omitempty"`
}

type C29File struct {
	Name      NameSpec   `json:"name"`
	Island    int        `json:"island"`
	Create    string     `json:"create"` // v3-writer | v3-chronicler | legacy
	BlockSize int        `json:"block_size"`
	Ops       []C29KV    `json:"ops"`
	Stages    []C29Stage `json:"stages,omitempty"`
}

type C29Distractor struct {
	Kind   string `json:"kind"` // see runC29
	Island int    `json:"island"`
	Near   int    `json:"near"` // index of a real file whose folder is used
	Seed   int    `json:"seed"`
}

type C29Scenario struct {
	Depth       int             `json:"depth"`
	PerLevel    int             `json:"per_level"`
	Files       []C29File       `json:"files"`
	Distractors []C29Distractor `json:"distractors,omitempty"`
}

func c29Key(i int) string { return fmt.Sprintf("key-%d", i%7) }

func c29Treasures(ops []C29KV) []treasure.Treasure {
	var out []treasure.Treasure
	for _, o := range ops {
		t := treasure.New(nil)
		g := t.StartTreasureGuard(true, guard.BodyAuthID)
		t.BodySetKey(g, c29Key(o.Key))
		t.SetContentString(g, o.D.Text())
		if o.Del {
			// a treasure that was persisted before and is now deleted
			t.BodySetFileName(g, "x")
			t.BodySetForDeletion(g, "harness", false)
		}
		t.ReleaseTreasureGuard(g)
		out = append(out, t)
	}
	return out
}

func c29Entries(ops []C29KV) []v2.Entry {
	var es []v2.Entry
	for _, o := range ops {
		if o.Del {
			es = append(es, v2.Entry{Operation: v2.OpDelete, Key: c29Key(o.Key)})
		} else {
			es = append(es, v2.Entry{Operation: v2.OpUpdate, Key: c29Key(o.Key), Data: stringTreasureBytes(c29Key(o.Key), o.D.Text())})
		}
	}
	return es
}

// c29CheckName is the per-stage oracle.
func c29CheckName(path, want, stage string) *pbt.Outcome {
	got, err := v2.ReadSwampName(path)
	if err != nil {
		o := pbt.Failf("read-error", "%s: ReadSwampName failed: %v (name %s)", stage, err, shortStr(want))
		return &o
	}
	if got != want {
		o := pbt.Failf("name", "%s: ReadSwampName returned %s (%d bytes), the swamp was written as %s (%d bytes)", stage, shortStr(got), len(got), shortStr(want), len(want))
		return &o
	}
	return nil
}

func hashPath(root string, n NameSpec, island, depth, perLevel int) (p string, ok bool) {
	defer func() {
		if recover() != nil {
			ok = false
		}
	}()
	nm := name.New().Sanctuary(n.S).Realm(n.R).Swamp(n.swampPart())
	return nm.GetFullHashPath(root, uint64(island), depth, perLevel), true
}

func runC29(s C29Scenario) pbt.Outcome {
	root := scratchDir()
	defer os.RemoveAll(root)
	var out pbt.Outcome
	classes := map[string]bool{}
	type placed struct {
		path   string
		name   string
		island string
	}
	var files []placed
	seenNames := map[string]bool{}
	nonTrivial := false

	for fi, f := range s.Files {
		want := f.Name.String()
		if seenNames[want] {
			continue
		}
		seenNames[want] = true
		folder, ok := hashPath(root, f.Name, f.Island, s.Depth, s.PerLevel)
		if !ok {
			return pbt.Outcome{Skip: true}
		}
		path := folder + ".hyd"
		if err := os.MkdirAll(filepath.Dir(path), 0o755); err != nil {
			return pbt.Outcome{Skip: true}
		}
		bs := f.BlockSize
		stage := func(i int, k string) string { return fmt.Sprintf("file %d (%s) stage %d %s", fi, f.Create, i, k) }

		// --- creation
		switch f.Create {
		case "legacy":
			var blocks [][]hydfmt.Entry
			var cur []hydfmt.Entry
			for _, o := range f.Ops {
				if o.Del {
					cur = append(cur, hydfmt.Entry{Op: hydfmt.OpDelete, Key: c29Key(o.Key)})
				} else {
					cur = append(cur, hydfmt.Entry{Op: hydfmt.OpInsert, Key: c29Key(o.Key), Data: stringTreasureBytes(c29Key(o.Key), o.D.Text())})
				}
				if len(cur) == 2 {
					blocks = append(blocks, cur)
					cur = nil
				}
			}
			if len(cur) > 0 {
				blocks = append(blocks, cur)
			}
			if err := os.WriteFile(path, hydfmt.LegacyV2File(want, uint32(bs), blocks), 0o644); err != nil {
				return pbt.Outcome{Skip: true}
			}
			classes["legacy-v2"] = true
			nonTrivial = true
		case "v3-chronicler":
			c := chronicler.NewV2WithName(folder, s.Depth, want)
			c.CreateDirectoryIfNotExists()
			ops := f.Ops
			if len(ops) == 0 {
				ops = []C29KV{{Key: 0, D: DataSpec{Len: 3, Seed: 1}}}
			}
			c.Write(c29Treasures(ops))
			if err := c.Close(); err != nil {
				return pbt.Failf("io-error", "%s: chronicler Close: %v", stage(0, "create"), err)
			}
			classes["created-by-chronicler"] = true
		default:
			w, err := v2.NewFileWriterWithName(path, bs, want)
			if err != nil {
				// rejection of a name is allowed; then there is no swamp on disk
				classes["create-rejected"] = true
				continue
			}
			if err := w.WriteEntries(c29Entries(f.Ops)); err != nil {
				w.Close()
				return pbt.Failf("io-error", "%s: WriteEntries: %v", stage(0, "create"), err)
			}
			if err := w.Close(); err != nil {
				return pbt.Failf("io-error", "%s: Close: %v", stage(0, "create"), err)
			}
			classes["created-by-writer"] = true
		}
		if _, err := os.Stat(path); err != nil {
			if len(want) > 65535 {
				// a name the header cannot describe may be refused; then there is no swamp on disk
				classes["create-rejected"] = true
				continue
			}
			return pbt.Failf("io-error", "%s: no file after creation: %v", stage(0, "create"), err)
		}
		if o := c29CheckName(path, want, stage(0, "create")); o != nil {
			return *o
		}

		// --- later life
		for si, st := range f.Stages {
			label := stage(si+1, st.K)
			switch st.K {
			case "append-plain", "append-named":
				var w *v2.FileWriter
				var err error
				if st.K == "append-plain" {
					w, err = v2.NewFileWriter(path, bs)
				} else {
					w, err = v2.NewFileWriterWithName(path, bs, "other/name/ignored")
				}
				if err != nil {
					return pbt.Failf("io-error", "%s: open: %v", label, err)
				}
				if err := w.WriteEntries(c29Entries(st.Ops)); err != nil {
					w.Close()
					return pbt.Failf("io-error", "%s: WriteEntries: %v", label, err)
				}
				if err := w.Close(); err != nil {
					return pbt.Failf("io-error", "%s: Close: %v", label, err)
				}
				classes["appended"] = true
			case "chron-write":
				c := chronicler.NewV2WithName(folder, s.Depth, want)
				c.CreateDirectoryIfNotExists()
				c.Write(c29Treasures(st.Ops))
				if err := c.Close(); err != nil {
					return pbt.Failf("io-error", "%s: Close: %v", label, err)
				}
				classes["appended"] = true
			case "compact", "force-compact", "compact-if":
				cp := v2.NewCompactor(path, bs, 0.3)
				var res *v2.CompactionResult
				var err error
				switch st.K {
				case "compact":
					res, err = cp.Compact()
				case "force-compact":
					res, err = cp.ForceCompact()
				default:
					res, err = cp.CompactIfNeeded()
				}
				if err != nil {
					if len(want) <= 65535 {
						return pbt.Failf("io-error", "%s: %v", label, err)
					}
					classes["compaction-rejected"] = true // the original file must stay readable
				}
				if res != nil && res.Compacted {
					classes["compacted"] = true
				}
			case "from-index":
				r, err := v2.NewFileReader(path)
				if err != nil {
					return pbt.Failf("read-error", "%s: NewFileReader: %v", label, err)
				}
				idx, nm, err := r.LoadIndex()
				r.Close()
				if err != nil {
					return pbt.Failf("read-error", "%s: LoadIndex: %v", label, err)
				}
				res, err := v2.CompactFromIndex(path, bs, nm, idx, len(idx)+3)
				if err != nil {
					if len(want) <= 65535 {
						return pbt.Failf("io-error", "%s: %v", label, err)
					}
					classes["compaction-rejected"] = true
				}
				if res != nil && res.Compacted {
					classes["compacted"] = true
				}
			case "chron-force":
				c := chronicler.NewV2WithName(folder, s.Depth, want)
				if err := c.ForceCompaction(); err != nil {
					if len(want) <= 65535 {
						return pbt.Failf("io-error", "%s: %v", label, err)
					}
					classes["compaction-rejected"] = true
				} else {
					classes["compacted"] = true
				}
			case "chron-load-heal":
				w, err := v2.NewFileWriter(path, bs)
				if err != nil {
					return pbt.Failf("io-error", "%s: open: %v", label, err)
				}
				var es []v2.Entry
				for i := 0; i < 110; i++ {
					es = append(es, v2.Entry{Operation: v2.OpUpdate, Key: c29Key(i % 2), Data: stringTreasureBytes(c29Key(i%2), fmt.Sprint(i))})
				}
				if err := w.WriteEntries(es); err != nil {
					w.Close()
					return pbt.Failf("io-error", "%s: WriteEntries: %v", label, err)
				}
				if err := w.Close(); err != nil {
					return pbt.Failf("io-error", "%s: Close: %v", label, err)
				}
				before, _ := os.Stat(path)
				c := chronicler.NewV2(folder, s.Depth) // no name given: the chronicler takes it from the file
				c.Load(beacon.New())
				c.Close()
				after, _ := os.Stat(path)
				if before != nil && after != nil && after.Size() < before.Size() {
					classes["compacted"] = true
					classes["self-heal-compaction"] = true
				}
			}
			nonTrivial = true
			if o := c29CheckName(path, want, label); o != nil {
				return *o
			}
		}
		files = append(files, placed{path: path, name: want, island: fmt.Sprint(f.Island)})
	}

	// --- distractors: none of them is a swamp
	validHyd := func(nm string) []byte {
		return hydfmt.V3File(nm, 16384, [][]hydfmt.Entry{{{Op: hydfmt.OpInsert, Key: "k", Data: []byte("v")}}})
	}
	for di, d := range s.Distractors {
		dir := filepath.Join(root, fmt.Sprint(d.Island), fmt.Sprintf("d%d", di))
		base := filepath.Join(dir, fmt.Sprintf("%x", d.Seed))
		if len(files) > 0 && d.Near >= 0 {
			p := files[d.Near%len(files)].path
			dir = filepath.Dir(p)
			base = strings.TrimSuffix(p, ".hyd")
		}
		os.MkdirAll(dir, 0o755)
		classes["distractor:"+d.Kind] = true
		switch d.Kind {
		case "non-hyd-file":
			os.WriteFile(base+fmt.Sprintf("-%d.txt", di), validHyd("not/a/swamp"), 0o644)
			os.WriteFile(filepath.Join(dir, "meta"), []byte("meta"), 0o644)
		case "leftover-compact":
			os.WriteFile(base+".hyd.compact", validHyd("left/over/compact"), 0o644)
		case "empty-hyd":
			os.WriteFile(base+fmt.Sprintf("-e%d.hyd", di), nil, 0o644)
		case "two-part-name":
			os.WriteFile(base+fmt.Sprintf("-t%d.hyd", di), validHyd("only/two"), 0o644)
		case "one-part-name":
			os.WriteFile(base+fmt.Sprintf("-o%d.hyd", di), validHyd("single"), 0o644)
		case "nameless-v3":
			os.WriteFile(base+fmt.Sprintf("-n%d.hyd", di), validHyd(""), 0o644)
		case "short-header":
			os.WriteFile(base+fmt.Sprintf("-s%d.hyd", di), validHyd("x/y/z")[:10+d.Seed%50], 0o644)
		case "garbage-hyd":
			os.WriteFile(base+fmt.Sprintf("-g%d.hyd", di), []byte(strings.Repeat("garbage!", 20)), 0o644)
		case "hyd-directory":
			os.MkdirAll(base+fmt.Sprintf("-dir%d.hyd", di), 0o755)
		case "legacy-without-meta":
			h := hydfmt.EncodeHeader(hydfmt.Header{Version: 2, BlockSize: 16384, EntryCount: 1, BlockCount: 1})
			os.WriteFile(base+fmt.Sprintf("-l%d.hyd", di), append(h, hydfmt.EncodeBlock([]hydfmt.Entry{{Op: hydfmt.OpInsert, Key: "k", Data: []byte("v")}})...), 0o644)
		}
	}

	// --- explorer listing == swamps on disk
	ex := explorer.New(root)
	if err := ex.Scan(context.Background()); err != nil {
		return pbt.Failf("scan-error", "explorer Scan: %v", err)
	}
	listed := map[string]*explorer.SwampDetail{}
	for _, sa := range ex.ListSanctuaries() {
		for _, re := range ex.ListRealms(sa.Name) {
			for _, sd := range ex.ListAllSwamps(sa.Name, re.Name) {
				full := sd.Sanctuary + "/" + sd.Realm + "/" + sd.Swamp
				if _, dup := listed[full]; dup {
					return pbt.Failf("listing", "explorer lists %s twice", shortStr(full))
				}
				listed[full] = sd
			}
		}
	}
	for _, f := range files {
		sd, ok := listed[f.name]
		if !ok {
			return pbt.Failf("listing", "explorer does not list swamp %s stored at %s (%d swamps on disk, %d listed)", shortStr(f.name), f.path, len(files), len(listed))
		}
		if sd.IslandID != f.island {
			return pbt.Failf("listing", "explorer reports island %q for swamp %s stored under island folder %s", sd.IslandID, shortStr(f.name), f.island)
		}
		if sd.FilePath != f.path {
			return pbt.Failf("listing", "explorer reports path %s for swamp %s stored at %s", sd.FilePath, shortStr(f.name), f.path)
		}
		delete(listed, f.name)
	}
	for full, sd := range listed {
		return pbt.Failf("listing", "explorer lists %s (file %s) although no such swamp was written", shortStr(full), sd.FilePath)
	}
	page := ex.ListSwamps(&explorer.SwampFilter{Limit: 1000})
	if int(page.Total) != len(files) || len(page.Swamps) != len(files) {
		return pbt.Failf("listing", "explorer ListSwamps reports total %d / %d rows, %d swamps are on disk", page.Total, len(page.Swamps), len(files))
	}
	for _, f := range files {
		parts := strings.SplitN(f.name, "/", 3)
		if _, err := ex.GetSwampDetail(parts[0], parts[1], parts[2]); err != nil {
			return pbt.Failf("listing", "explorer GetSwampDetail(%s): %v", shortStr(f.name), err)
		}
	}

	out.NonTrivial = nonTrivial && len(files) > 0
	for _, c := range sortedKeys(classes) {
		out.Classes = append(out.Classes, c)
	}
	if len(files) >= 10 {
		out.Classes = append(out.Classes, "root-with-10+-swamps")
	}
	for _, f := range files {
		if len(f.name) >= 65535 {
			out.Classes = append(out.Classes, "name-65535+-bytes")
			break
		}
	}
	return out
}

// ---------------------------------------------------------------------------
// generator

var c29Stages = []string{"append-plain", "append-named", "chron-write", "compact", "force-compact", "compact-if", "from-index", "chron-force", "chron-load-heal"}

func genC29KVs(t *rapid.T, label string, min, max int) []C29KV {
	n := rapid.IntRange(min, max).Draw(t, label+"n")
	var out []C29KV
	for i := 0; i < n; i++ {
		out = append(out, C29KV{
			Del: rapid.IntRange(0, 3).Draw(t, label+"del") == 0,
			Key: rapid.IntRange(0, 6).Draw(t, label+"key"),
			D:   DataSpec{Len: rapid.IntRange(0, 60).Draw(t, label+"len"), Seed: rapid.Byte().Draw(t, label+"seed"), Mode: uint8(rapid.IntRange(0, 2).Draw(t, label+"mode"))},
		})
	}
	return out
}

func genNamePart(t *rapid.T, label string) string {
	switch rapid.IntRange(0, 5).Draw(t, label+"cls") {
	case 0:
		// anything without '/', including spaces, dots, unicode
		return rapid.StringOfN(rapid.RuneFrom([]rune("abcXYZ019 ._-:*#@ÁéŐ日本🙂\\")), 1, 12, -1).Draw(t, label)
	default:
		return rapid.StringMatching(`[a-zA-Z0-9]{1,10}`).Draw(t, label)
	}
}

func genC29Name(t *rapid.T, label string, maxLen int) NameSpec {
	n := NameSpec{S: genNamePart(t, label+"s"), R: genNamePart(t, label+"r"), W: genNamePart(t, label+"w")}
	base := len(n.String())
	switch rapid.IntRange(0, 11).Draw(t, label+"len") {
	case 0: // 250..300 bytes
		tot := rapid.IntRange(250, 300).Draw(t, label+"tot")
		if tot > base {
			n.Pad = tot - base
		}
	case 1: // the 16-bit boundary of NameLength
		tot := rapid.SampledFrom([]int{65534, 65535, 65536, 65537, 70000, 131072 + 7}).Draw(t, label+"big")
		if tot > maxLen {
			tot = maxLen
		}
		if tot > base {
			n.Pad = tot - base
		}
	}
	return n
}

func genC29File(t *rapid.T, label string, maxLen int) C29File {
	f := C29File{
		Name:      genC29Name(t, label+"name", maxLen),
		Island:    rapid.IntRange(1, 1000).Draw(t, label+"island"),
		Create:    rapid.SampledFrom([]string{"v3-writer", "v3-writer", "v3-chronicler", "legacy", "legacy"}).Draw(t, label+"create"),
		BlockSize: rapid.SampledFrom([]int{1, 64, 4096, 16384}).Draw(t, label+"bs"),
		Ops:       genC29KVs(t, label+"ops", 0, 6),
	}
	ns := rapid.IntRange(0, 4).Draw(t, label+"nstages")
	for i := 0; i < ns; i++ {
		st := C29Stage{K: rapid.SampledFrom(c29Stages).Draw(t, fmt.Sprintf("%sst%d", label, i))}
		if strings.HasPrefix(st.K, "append") || st.K == "chron-write" {
			st.Ops = genC29KVs(t, fmt.Sprintf("%sst%dops", label, i), 1, 5)
		}
		f.Stages = append(f.Stages, st)
	}
	return f
}

var c29DistractorKinds = []string{"non-hyd-file", "leftover-compact", "empty-hyd", "two-part-name", "one-part-name", "nameless-v3", "short-header",
	"garbage-hyd", "hyd-directory", "legacy-without-meta"}

func genC29(maxLen int) func(t *rapid.T) C29Scenario {
	return func(t *rapid.T) C29Scenario {
		s := C29Scenario{
			Depth:    rapid.IntRange(1, 3).Draw(t, "depth"),
			PerLevel: rapid.SampledFrom([]int{16, 256, 1000, 4096}).Draw(t, "perlevel"),
		}
		var n int
		switch rapid.IntRange(0, 5).Draw(t, "rootsize") {
		case 0:
			n = rapid.IntRange(15, 40).Draw(t, "nfilesbig")
		default:
			n = rapid.IntRange(1, 8).Draw(t, "nfiles")
		}
		for i := 0; i < n; i++ {
			s.Files = append(s.Files, genC29File(t, fmt.Sprintf("f%d", i), maxLen))
		}
		nd := rapid.IntRange(0, 6).Draw(t, "ndistr")
		for i := 0; i < nd; i++ {
			s.Distractors = append(s.Distractors, C29Distractor{
				Kind:   rapid.SampledFrom(c29DistractorKinds).Draw(t, fmt.Sprintf("d%dkind", i)),
				Island: rapid.IntRange(1, 1000).Draw(t, fmt.Sprintf("d%disland", i)),
				Near:   rapid.IntRange(-1, 40).Draw(t, fmt.Sprintf("d%dnear", i)),
				Seed:   rapid.IntRange(0, 1<<16).Draw(t, fmt.Sprintf("d%dseed", i)),
			})
		}
		return s
	}
}

const c29Rule = "data roots with 1-40 swamp files placed by name.GetFullHashPath (depth 1-3, 16..4096 folders per level, islands 1..1000); names are " +
	"sanctuary/realm/swamp triples of 1..300 bytes (ASCII, punctuation, unicode) plus 65534..131079-byte names; each file is created as V3 by the " +
	"FileWriter, as V3 by the V2 chronicler, or as a hand-built legacy V2 file, then lives through 0-4 stages (plain/named append, chronicler write, " +
	"Compact / ForceCompact / CompactIfNeeded / CompactFromIndex / chronicler ForceCompaction / Load self-heal); ReadSwampName is compared with the " +
	"written name after every stage; 0-6 distractors (non-.hyd files, leftover .hyd.compact, empty/garbage/short .hyd, .hyd with 0/1/2-part names, " +
	"legacy file without metadata entry, directory named *.hyd); explorer Scan must list exactly the written swamps with the right island and path; " +
	"non-trivial = at least one file was appended/compacted after creation or is legacy V2"

func c29MaxLen() int {
	if pbt.Open("C29", c29WitnessLongName) {
		return 65535
	}
	return 1 << 20
}

func TestC29Main(t *testing.T) {
	if pbt.Open("C29", c29WitnessLongName) {
		pbt.Excluded("C29", "main", "swamp names longer than 65535 bytes (open finding "+c29WitnessLongName+")")
	}
	pbt.Main(t, pbt.Spec[C29Scenario]{
		ID: "C29", Facet: "main", Rule: c29Rule,
		Quick: 1500, Thorough: 60000,
		Gen: genC29(c29MaxLen()), Run: runC29,
	})
}

func TestC29WitnessLongName(t *testing.T) {
	gen := func(t *rapid.T) C29Scenario {
		s := genC29(65535)(t)
		if len(s.Files) > 3 {
			s.Files = s.Files[:3]
		}
		f := &s.Files[0]
		f.Name.Pad = 0
		f.Name.Pad = rapid.SampledFrom([]int{65536, 65537, 65600, 70000, 131072 + 7}).Draw(t, "wlen") - len(f.Name.String())
		if rapid.Bool().Draw(t, "wlegacy") {
			// a legacy file can hold such a name; compaction rewrites it as V3
			f.Create = "legacy"
			f.Stages = append([]C29Stage{{K: "force-compact"}}, f.Stages...)
		} else if f.Create == "legacy" {
			f.Create = "v3-writer"
		}
		return s
	}
	pbt.Witness(t, pbt.Spec[C29Scenario]{
		ID: "C29", Facet: "witness-longname", Rule: "main generator with one swamp name of 65536..131079 bytes forced in",
		Quick: 30, Thorough: 300, Gen: gen, Run: runC29,
	}, c29WitnessLongName, "name", "read-error", "listing", "io-error")
}
