package files

import (
	"bytes"
	"fmt"
	"io/fs"
	"math"
	"os"
	"path/filepath"
	"sort"
	"strings"
	"testing"
	"time"

	"github.com/golang/snappy"
	"github.com/hydraide/hydraide/app/core/filesystem"
	"github.com/hydraide/hydraide/app/core/hydra/swamp/beacon"
	"github.com/hydraide/hydraide/app/core/hydra/swamp/chronicler"
	v2 "github.com/hydraide/hydraide/app/core/hydra/swamp/chronicler/v2"
	"github.com/hydraide/hydraide/app/core/hydra/swamp/chronicler/v2/migrator"
	"github.com/hydraide/hydraide/app/core/hydra/swamp/metadata"
	"github.com/hydraide/hydraide/app/core/hydra/swamp/treasure"
	"github.com/hydraide/hydraide/app/core/hydra/swamp/treasure/guard"
	"github.com/hydraide/hydraide/app/name"
	"pgregory.net/rapid"

	"verifharness/internal/pbt"
)

// C23 — V1 to V2 migration preserves exactly the loadable data.

const (
	c23Depth       = 2
	c23WitnessPath = "datapath-is-swamp-folder-with-trailing-separator"
	c23WitnessMeta = "meta-read-error-empty-name"
)

var (
	c23Spells = []string{"trailing-slash", "double-slash", "dot-segment", "trailing-dot", "dotdot-segment", "relative", "relative-slash", "relative-dot",
		"symlink", "symlink-slash"}
	c23MetaReadFaults = []string{"meta-garbage", "meta-truncated", "meta-is-directory"}
)

// ValSpec describes the content of a treasure.
type ValSpec struct {
	Kind int      `json:"kind"` // 0 string, 1..4 uint8..64, 5..8 int8..64, 9 float32, 10 float64, 11 bool, 12 bytes, 13 uint32 slice, 14 void
	N    int64    `json:"n,omitempty"`
	F    float64  `json:"f,omitempty"`
	D    DataSpec `json:"d,omitempty"`
}

type MetaSpec struct {
	CreatedAt  int64  `json:"created_at,omitempty"`
	CreatedBy  string `json:"created_by,omitempty"`
	ModifiedAt int64  `json:"modified_at,omitempty"`
	ModifiedBy string `json:"modified_by,omitempty"`
	Expire     int64  `json:"expire,omitempty"`
}

// C23Op is one change of a swamp's content.
//
//	new     a treasure with a key that is not live
//	mod     new content/metadata for a live key (in place once it is persisted)
//	del     real delete of a live, persisted key
//	sdel    shadow delete of a live, persisted key
//	dupnew  a second "new" treasure for a key that is already persisted (what a race in the swamp can produce)
//	longkey a new treasure whose key is longer than 65535 bytes (V1 stores it, the .hyd format cannot)
type C23Op struct {
	K    string   `json:"k"`
	Key  int      `json:"key"`
	V    ValSpec  `json:"v"`
	Meta MetaSpec `json:"meta,omitempty"`
}

type C23Batch struct {
	Ops    []C23Op `json:"ops"`
	Reopen bool    `json:"reopen,omitempty"` // close and reload the V1 swamp after this batch
}

type C23Swamp struct {
	Name     NameSpec   `json:"name"`
	Island   int        `json:"island"`
	MaxChunk int        `json:"max_chunk"`
	Batches  []C23Batch `json:"batches"`
	// Fault applied to the finished legacy folder before migrating:
	//  "" | corrupt-chunk-garbage | corrupt-chunk-empty | corrupt-chunk-truncated-stream | chunk-is-directory |
	//  chunk-dangling-symlink | dir-at-hyd-path | meta-garbage | meta-truncated | meta-is-directory | meta-dangling-symlink | meta-missing
	Fault     string `json:"fault,omitempty"`
	FaultPick int    `json:"fault_pick,omitempty"`
}

type C23Scenario struct {
	Swamps    []C23Swamp `json:"swamps"`
	DryRun    bool       `json:"dry_run,omitempty"`
	Verify    bool       `json:"verify,omitempty"`
	DeleteOld bool       `json:"delete_old,omitempty"`
	Parallel  int        `json:"parallel"`
	StopOnErr bool       `json:"stop_on_error,omitempty"`
	Rerun     bool       `json:"rerun,omitempty"` // run the same migration a second time
	// How Config.DataPath is spelled and what it points at.
	//  Spell:  "" clean absolute | trailing-slash | double-slash | dot-segment | trailing-dot | dotdot-segment |
	//          relative | relative-slash | relative-dot (cwd = the directory itself) | symlink | symlink-slash
	//  Target: "" data root | island (the island directory of swamp TargetPick) | swamp (the legacy folder of swamp TargetPick itself)
	Spell      string `json:"spell,omitempty"`
	Target     string `json:"target,omitempty"`
	TargetPick int    `json:"target_pick,omitempty"`
}

// c23SpellsUnsafeForSwampTarget are the spellings for which the migrator, given
// the legacy folder itself as DataPath, derives "<spelling>.hyd" INSIDE the folder.
var c23SpellsUnsafeForSwampTarget = map[string]bool{"trailing-slash": true, "trailing-dot": true, "relative-slash": true, "relative-dot": true}

// spellPath returns the DataPath string for physical directory target and the
// directory the process must chdir to first ("" = none).
func spellPath(base, target, spell string) (path, cwd string) {
	dir, last := filepath.Dir(target), filepath.Base(target)
	switch spell {
	case "trailing-slash":
		return target + "/", ""
	case "double-slash":
		return dir + "//" + last, ""
	case "dot-segment":
		return dir + "/./" + last, ""
	case "trailing-dot":
		return target + "/.", ""
	case "dotdot-segment":
		return target + "/../" + last, ""
	case "relative":
		return "./" + last, dir
	case "relative-slash":
		return last + "/", dir
	case "relative-dot":
		return ".", target
	case "symlink", "symlink-slash":
		link := filepath.Join(base, "datalink")
		os.Remove(link)
		if os.Symlink(target, link) != nil {
			return target, ""
		}
		if spell == "symlink-slash" {
			return link + "/", ""
		}
		return link, ""
	}
	return target, ""
}

func c23Key(i int) string { return fmt.Sprintf("k%03d", i) }

func applyVal(t treasure.Treasure, g guard.ID, v ValSpec) {
	switch v.Kind % 15 {
	case 0:
		t.SetContentString(g, v.D.Text())
	case 1:
		t.SetContentUint8(g, uint8(v.N))
	case 2:
		t.SetContentUint16(g, uint16(v.N))
	case 3:
		t.SetContentUint32(g, uint32(v.N))
	case 4:
		t.SetContentUint64(g, uint64(v.N))
	case 5:
		t.SetContentInt8(g, int8(v.N))
	case 6:
		t.SetContentInt16(g, int16(v.N))
	case 7:
		t.SetContentInt32(g, int32(v.N))
	case 8:
		t.SetContentInt64(g, v.N)
	case 9:
		t.SetContentFloat32(g, float32(v.F))
	case 10:
		t.SetContentFloat64(g, v.F)
	case 11:
		t.SetContentBool(g, v.N%2 == 0)
	case 12:
		t.SetContentByteArray(g, v.D.Bytes())
	case 13:
		t.ResetContentUint32Slice(g)
		vals := make([]uint32, 0, v.D.Len%40)
		for i := 0; i < v.D.Len%40; i++ {
			vals = append(vals, uint32(v.N)+uint32(i)*7)
		}
		_ = t.Uint32SlicePush(vals)
	default:
		t.SetContentVoid(g)
	}
}

func applyMeta(t treasure.Treasure, g guard.ID, m MetaSpec) {
	if m.CreatedAt != 0 {
		t.SetCreatedAt(g, time.Unix(0, m.CreatedAt))
	}
	if m.CreatedBy != "" {
		t.SetCreatedBy(g, m.CreatedBy)
	}
	if m.ModifiedAt != 0 {
		t.SetModifiedAt(g, time.Unix(0, m.ModifiedAt))
	}
	if m.ModifiedBy != "" {
		t.SetModifiedBy(g, m.ModifiedBy)
	}
	if m.Expire != 0 {
		t.SetExpirationTime(g, time.Unix(0, m.Expire))
	}
}

// digest renders everything the treasure getters expose (file pointer excluded).
func digest(t treasure.Treasure) string {
	g := t.StartTreasureGuard(true, guard.BodyAuthID)
	c := t.CloneContent(g)
	t.ReleaseTreasureGuard(g)
	var sb strings.Builder
	fmt.Fprintf(&sb, "key=%q type=%v c=%d/%q m=%d/%q d=%d/%q exp=%d shadow=%v", t.GetKey(), t.GetContentType(), t.GetCreatedAt(), t.GetCreatedBy(),
		t.GetModifiedAt(), t.GetModifiedBy(), t.GetDeletedAt(), t.GetDeletedBy(), t.GetExpirationTime(), t.GetShadowDelete())
	switch {
	case c.String != nil:
		fmt.Fprintf(&sb, " string=%q", *c.String)
	case c.Uint8 != nil:
		fmt.Fprintf(&sb, " u8=%d", *c.Uint8)
	case c.Uint16 != nil:
		fmt.Fprintf(&sb, " u16=%d", *c.Uint16)
	case c.Uint32 != nil:
		fmt.Fprintf(&sb, " u32=%d", *c.Uint32)
	case c.Uint64 != nil:
		fmt.Fprintf(&sb, " u64=%d", *c.Uint64)
	case c.Int8 != nil:
		fmt.Fprintf(&sb, " i8=%d", *c.Int8)
	case c.Int16 != nil:
		fmt.Fprintf(&sb, " i16=%d", *c.Int16)
	case c.Int32 != nil:
		fmt.Fprintf(&sb, " i32=%d", *c.Int32)
	case c.Int64 != nil:
		fmt.Fprintf(&sb, " i64=%d", *c.Int64)
	case c.Float32 != nil:
		fmt.Fprintf(&sb, " f32=%x", math.Float32bits(*c.Float32))
	case c.Float64 != nil:
		fmt.Fprintf(&sb, " f64=%x", math.Float64bits(*c.Float64))
	case c.Boolean != nil:
		fmt.Fprintf(&sb, " bool=%v", *c.Boolean)
	case c.ByteArray != nil:
		fmt.Fprintf(&sb, " bytes=%x", c.ByteArray)
	case c.Uint32Slice != nil:
		fmt.Fprintf(&sb, " u32slice=%x", []byte(*c.Uint32Slice))
	case c.Void:
		sb.WriteString(" void")
	default:
		sb.WriteString(" nocontent")
	}
	if s, err := t.GetContentString(); err == nil {
		fmt.Fprintf(&sb, " getString=%q", s)
	}
	if b, err := t.GetContentByteArray(); err == nil {
		fmt.Fprintf(&sb, " getBytes=%x", b)
	}
	if u, err := t.Uint32SliceGetAll(); err == nil {
		fmt.Fprintf(&sb, " getSlice=%v", u)
	}
	return sb.String()
}

// ---------------------------------------------------------------------------
// driving the real V1 chronicler the way the swamp does

type v1Swamp struct {
	folder string
	fs     filesystem.Filesystem
	meta   metadata.Metadata
	chron  chronicler.Chronicler
	live   map[string]treasure.Treasure
	nm     name.Name
	max    int64
}

func openV1(folder string, nm name.Name, maxChunk int64, load bool) *v1Swamp {
	s := &v1Swamp{folder: folder, fs: filesystem.New(), nm: nm, max: maxChunk, live: map[string]treasure.Treasure{}}
	s.meta = metadata.New(folder)
	s.meta.LoadFromFile()
	s.meta.SetSwampName(nm)
	s.chron = chronicler.New(folder, maxChunk, c23Depth, s.fs, s.meta)
	s.chron.CreateDirectoryIfNotExists()
	s.chron.RegisterFilePointerFunction(func(events []*chronicler.FileNameEvent) error {
		for _, e := range events {
			if t, ok := s.live[e.TreasureKey]; ok {
				g := t.StartTreasureGuard(true, guard.BodyAuthID)
				t.BodySetFileName(g, e.FileName)
				t.ReleaseTreasureGuard(g)
			}
		}
		return nil
	})
	if load {
		b := beacon.New()
		s.chron.Load(b)
		for k, t := range b.GetAll() {
			s.live[k] = t
		}
	}
	return s
}

func (s *v1Swamp) close() {
	s.chron.Close()
	s.meta.SetUpdatedAt()
	s.meta.SaveToFile()
}

type c23Counts struct {
	news, mods, dels, sdels, dups, longkeys int
}

// applyBatch turns the ops into the treasure list one write tick of the swamp
// would hand to the chronicler.
func (s *v1Swamp) applyBatch(b C23Batch, cnt *c23Counts) {
	var list []treasure.Treasure
	inList := map[treasure.Treasure]bool{}
	add := func(t treasure.Treasure) {
		if !inList[t] {
			inList[t] = true
			list = append(list, t)
		}
	}
	liveKeys := func(persisted bool) []string {
		var ks []string
		for _, k := range sortedKeys(s.live) {
			if !persisted || s.live[k].GetFileName() != nil {
				ks = append(ks, k)
			}
		}
		return ks
	}
	for _, o := range b.Ops {
		switch o.K {
		case "new", "longkey":
			k := c23Key(o.Key)
			if o.K == "longkey" {
				k = c23Key(o.Key) + "-" + strings.Repeat("L", 65536+o.Key)
			}
			if _, ok := s.live[k]; ok {
				continue
			}
			t := treasure.New(nil)
			g := t.StartTreasureGuard(true, guard.BodyAuthID)
			t.BodySetKey(g, k)
			applyVal(t, g, o.V)
			applyMeta(t, g, o.Meta)
			t.ReleaseTreasureGuard(g)
			s.live[k] = t
			add(t)
			if o.K == "longkey" {
				cnt.longkeys++
			} else {
				cnt.news++
			}
		case "mod":
			ks := liveKeys(false)
			if len(ks) == 0 {
				continue
			}
			t := s.live[ks[o.Key%len(ks)]]
			if t.GetDeletedAt() != 0 {
				continue // a shadow-deleted record that was loaded back stays as it is
			}
			g := t.StartTreasureGuard(true, guard.BodyAuthID)
			applyVal(t, g, o.V)
			applyMeta(t, g, o.Meta)
			t.ReleaseTreasureGuard(g)
			add(t)
			if t.GetFileName() != nil {
				cnt.mods++
			}
		case "del", "sdel":
			ks := liveKeys(true)
			if len(ks) == 0 {
				continue
			}
			k := ks[o.Key%len(ks)]
			t := s.live[k]
			if t.GetDeletedAt() != 0 {
				continue
			}
			g := t.StartTreasureGuard(true, guard.BodyAuthID)
			t.BodySetForDeletion(g, "harness", o.K == "sdel")
			t.ReleaseTreasureGuard(g)
			delete(s.live, k)
			add(t)
			if o.K == "sdel" {
				cnt.sdels++
			} else {
				cnt.dels++
			}
		case "dupnew":
			ks := liveKeys(true)
			if len(ks) == 0 {
				continue
			}
			k := ks[o.Key%len(ks)]
			t := treasure.New(nil)
			g := t.StartTreasureGuard(true, guard.BodyAuthID)
			t.BodySetKey(g, k)
			applyVal(t, g, o.V)
			applyMeta(t, g, o.Meta)
			t.ReleaseTreasureGuard(g)
			s.live[k] = t
			add(t)
			cnt.dups++
		}
	}
	if len(list) > 0 {
		quietStdout(func() { s.chron.Write(list) })
	}
}

// ---------------------------------------------------------------------------
// folder helpers

// snapshot maps every path under dir (relative) to its content ("<dir>" for
// directories, "<symlink:target>" for symlinks).
func snapshot(dir string) map[string]string {
	out := map[string]string{}
	filepath.WalkDir(dir, func(p string, d fs.DirEntry, err error) error {
		if err != nil {
			return nil
		}
		rel, _ := filepath.Rel(dir, p)
		switch {
		case d.Type()&fs.ModeSymlink != 0:
			tgt, _ := os.Readlink(p)
			out[rel] = "<symlink:" + tgt + ">"
		case d.IsDir():
			out[rel] = "<dir>"
		default:
			b, _ := os.ReadFile(p)
			out[rel] = string(b)
		}
		return nil
	})
	return out
}

func diffSnapshots(a, b map[string]string) string {
	for _, k := range sortedKeys(a) {
		vb, ok := b[k]
		if !ok {
			return fmt.Sprintf("%s is gone", k)
		}
		if vb != a[k] {
			return fmt.Sprintf("%s changed (%d -> %d bytes)", k, len(a[k]), len(vb))
		}
	}
	for _, k := range sortedKeys(b) {
		if _, ok := a[k]; !ok {
			return fmt.Sprintf("%s appeared", k)
		}
	}
	return ""
}

func copyTree(src, dst string) error {
	return filepath.WalkDir(src, func(p string, d fs.DirEntry, err error) error {
		if err != nil {
			return err
		}
		rel, _ := filepath.Rel(src, p)
		to := filepath.Join(dst, rel)
		switch {
		case d.Type()&fs.ModeSymlink != 0:
			tgt, _ := os.Readlink(p)
			return os.Symlink(tgt, to)
		case d.IsDir():
			return os.MkdirAll(to, 0o755)
		default:
			b, err := os.ReadFile(p)
			if err != nil {
				return err
			}
			return os.WriteFile(to, b, 0o644)
		}
	})
}

// hasLegacyFiles reports whether the directory holds anything that makes it
// a V1 swamp folder: a (non-directory) entry named "meta" or a chunk file.
func hasLegacyFiles(folder string) bool {
	es, _ := os.ReadDir(folder)
	for _, e := range es {
		if !e.IsDir() {
			return true
		}
	}
	return false
}

func chunkFiles(folder string) []string {
	var out []string
	es, _ := os.ReadDir(folder)
	for _, e := range es {
		if e.Name() == metadata.MetaFile || e.IsDir() {
			continue
		}
		out = append(out, e.Name())
	}
	sort.Strings(out)
	return out
}

// v1Reference computes what the legacy engine loads from folder: the result of
// the real V1 Load, plus — for keys stored in more than one chunk file, where
// V1 Load's result depends on Go map iteration order — every version V1 Load
// may legitimately return (the last occurrence of the key in each file).
func v1Reference(folder string) (loaded map[string]string, acceptable map[string]map[string]bool) {
	fsys := filesystem.New()
	meta := metadata.New(folder)
	meta.LoadFromFile()
	c := chronicler.New(folder, 1<<20, c23Depth, fsys, meta)
	b := beacon.New()
	c.Load(b)
	loaded = map[string]string{}
	for k, t := range b.GetAll() {
		loaded[k] = digest(t)
	}
	acceptable = map[string]map[string]bool{}
	contents, err := fsys.GetAllFileContents(folder, metadata.MetaFile)
	if err != nil {
		return
	}
	for _, fn := range sortedKeys(contents) {
		last := map[string]string{}
		for _, seg := range contents[fn] {
			t := treasure.New(nil)
			g := t.StartTreasureGuard(true, guard.BodyAuthID)
			err := t.LoadFromByte(g, seg, fn)
			t.ReleaseTreasureGuard(g)
			if err != nil {
				continue
			}
			last[t.GetKey()] = digest(t)
		}
		for k, d := range last {
			if acceptable[k] == nil {
				acceptable[k] = map[string]bool{}
			}
			acceptable[k][d] = true
		}
	}
	return
}

func v2Load(folder, swampName string) map[string]string {
	c := chronicler.NewV2WithName(folder, c23Depth, swampName)
	b := beacon.New()
	c.Load(b)
	c.Close()
	out := map[string]string{}
	for k, t := range b.GetAll() {
		out[k] = digest(t)
	}
	return out
}

// ---------------------------------------------------------------------------

type c23Built struct {
	sw        C23Swamp
	name      string
	folder    string
	hyd       string
	copyDir   string
	before    map[string]string // legacy folder right before migration (after fault injection)
	ref       map[string]string
	accept    map[string]map[string]bool
	chunks    int
	expectErr bool // the oracle expects this swamp in FailedSwamps
	mayErr    bool // either outcome is acceptable (damaged chunk)
	cnt       c23Counts
}

func runC23(s C23Scenario) pbt.Outcome {
	base := scratchDir()
	defer os.RemoveAll(base)
	root := filepath.Join(base, "data")
	copies := filepath.Join(base, "copies")
	os.MkdirAll(root, 0o755)
	os.MkdirAll(copies, 0o755)
	classes := map[string]bool{}
	var built []*c23Built
	seen := map[string]bool{}

	for i, sw := range s.Swamps {
		full := sw.Name.String()
		if seen[full] {
			continue
		}
		seen[full] = true
		nm := name.New().Sanctuary(sw.Name.S).Realm(sw.Name.R).Swamp(sw.Name.swampPart())
		folder, ok := hashPath(root, sw.Name, sw.Island, c23Depth, 256)
		if !ok {
			return pbt.Outcome{Skip: true}
		}
		b := &c23Built{sw: sw, name: full, folder: folder, hyd: folder + ".hyd", copyDir: filepath.Join(copies, fmt.Sprint(i))}
		v1 := openV1(folder, nm, int64(sw.MaxChunk), false)
		for _, batch := range sw.Batches {
			v1.applyBatch(batch, &b.cnt)
			if batch.Reopen {
				v1.close()
				v1 = openV1(folder, nm, int64(sw.MaxChunk), true)
				classes["v1-reopened"] = true
			}
		}
		v1.close()
		if _, err := os.Stat(folder); err != nil {
			continue // nothing was ever written
		}

		// fault injection on the finished legacy folder
		chunks := chunkFiles(folder)
		b.chunks = len(chunks)
		switch sw.Fault {
		case "corrupt-chunk-garbage", "corrupt-chunk-empty", "corrupt-chunk-truncated-stream", "chunk-is-directory", "chunk-dangling-symlink":
			if len(chunks) == 0 {
				break
			}
			victim := filepath.Join(folder, chunks[sw.FaultPick%len(chunks)])
			switch sw.Fault {
			case "corrupt-chunk-garbage":
				os.WriteFile(victim, bytes.Repeat([]byte{0xfe, 0x13, 0x37, 0xff}, 16), 0o644)
			case "corrupt-chunk-empty":
				os.WriteFile(victim, nil, 0o644)
			case "corrupt-chunk-truncated-stream":
				raw, _ := os.ReadFile(victim)
				if dec, err := snappy.Decode(nil, raw); err == nil && len(dec) > 6 {
					os.WriteFile(victim, snappy.Encode(nil, dec[:len(dec)-3]), 0o644)
				}
			case "chunk-is-directory":
				os.Remove(victim)
				os.Mkdir(victim, 0o755)
			case "chunk-dangling-symlink":
				os.Remove(victim)
				os.Symlink(filepath.Join(base, "does-not-exist"), victim)
			}
			b.mayErr = true
			classes["fault:"+sw.Fault] = true
		case "dir-at-hyd-path":
			os.MkdirAll(b.hyd, 0o755)
			classes["fault:dir-at-hyd-path"] = true
		case "meta-garbage", "meta-truncated", "meta-is-directory", "meta-dangling-symlink", "meta-missing":
			mp := filepath.Join(folder, metadata.MetaFile)
			raw, _ := os.ReadFile(mp)
			switch sw.Fault {
			case "meta-garbage":
				os.WriteFile(mp, bytes.Repeat([]byte{0xff, 0x00, 0x7f}, 20), 0o644)
			case "meta-truncated":
				os.WriteFile(mp, raw[:len(raw)/3], 0o644)
			case "meta-is-directory":
				os.Remove(mp)
				os.Mkdir(mp, 0o755)
			case "meta-dangling-symlink":
				os.Remove(mp)
				os.Symlink(filepath.Join(base, "does-not-exist"), mp)
			case "meta-missing":
				os.Remove(mp)
			}
			b.mayErr = true
			classes["fault:"+sw.Fault] = true
		}
		if err := copyTree(folder, b.copyDir); err != nil {
			return pbt.Outcome{Skip: true}
		}
		b.before = snapshot(folder)
		b.ref, b.accept = v1Reference(b.copyDir)
		if sw.Fault == "dir-at-hyd-path" && len(b.ref) > 0 {
			b.expectErr = true
		}
		if b.cnt.longkeys > 0 {
			for k := range b.ref {
				if len(k) > 65535 {
					b.expectErr = true
					classes["fault:key-longer-than-65535"] = true
				}
			}
		}
		built = append(built, b)
	}
	if len(built) == 0 {
		return pbt.Outcome{Skip: true}
	}

	// what DataPath points at, and how it is spelled
	target := root
	pick := built[s.TargetPick%len(built)]
	switch s.Target {
	case "island":
		target = filepath.Join(root, fmt.Sprint(pick.sw.Island))
	case "swamp":
		target = pick.folder
	}
	spell := s.Spell
	if s.Target == "swamp" && strings.HasPrefix(spell, "symlink") {
		spell = ""
	}
	inScope := map[*c23Built]bool{}
	for _, b := range built {
		if b.folder == target || strings.HasPrefix(b.folder, target+string(filepath.Separator)) {
			// A directory that holds neither a meta file nor a chunk file is no
			// legacy swamp (e.g. its only record was deleted and the meta file is
			// gone): the migrator is entitled to ignore it — it must then stay untouched.
			if !hasLegacyFiles(b.folder) {
				if len(b.ref) > 0 {
					return pbt.Failf("harness", "folder without meta/chunk files from which V1 loads %d records", len(b.ref))
				}
				classes["folder-without-legacy-files-ignored"] = true
				continue
			}
			inScope[b] = true
		}
	}
	dataPath, cwd := spellPath(base, target, spell)
	if spell != "" {
		classes["datapath-spelling:"+spell] = true
	}
	if s.Target != "" {
		classes["datapath-target:"+s.Target] = true
	}
	if cwd != "" {
		orig, err := os.Getwd()
		if err != nil || os.Chdir(cwd) != nil {
			return pbt.Outcome{Skip: true}
		}
		defer os.Chdir(orig)
	}
	resolve := func(p string) string {
		if a, err := filepath.Abs(p); err == nil {
			p = a
		}
		if r, err := filepath.EvalSymlinks(p); err == nil {
			p = r
		}
		return p
	}

	cfg := migrator.Config{DataPath: dataPath, DryRun: s.DryRun, Verify: s.Verify, DeleteOld: s.DeleteOld, Parallel: s.Parallel, StopOnError: s.StopOnErr}
	runs := 1
	if s.Rerun && !s.DeleteOld {
		runs = 2
		classes["rerun"] = true
	}
	var res *migrator.Result
	failed := map[string]string{}
	for r := 0; r < runs; r++ {
		m, err := migrator.New(cfg)
		if err != nil {
			return pbt.Failf("migrator-error", "migrator.New: %v", err)
		}
		var rerr error
		cr := guardedCall(pbt.Bound(120*time.Second), func() { res, rerr = m.Run() })
		if cr.Hung {
			return pbt.Failf("hang", "migrator.Run did not return within 120 s")
		}
		if cr.Panic != "" {
			return pbt.Failf("panic", "migrator.Run panicked: %s", cr.Panic)
		}
		if rerr != nil {
			return pbt.Failf("migrator-error", "migrator.Run: %v", rerr)
		}
	}
	for _, f := range res.FailedSwamps {
		// reported paths are spelled like DataPath; map them to the physical folder
		failed[resolve(strings.TrimSuffix(f.Path, "/."))] = f.Phase + ": " + f.Error
	}
	if cwd != "" {
		os.Chdir(filepath.Dir(base)) // absolute paths from here on
	}
	if int(res.TotalSwamps) != len(inScope) {
		if spell == "symlink" && res.TotalSwamps == 0 {
			// the walk does not follow a symlinked root: nothing is migrated, nothing may change
			inScope = map[*c23Built]bool{}
			classes["symlinked-root-not-followed"] = true
		} else {
			return pbt.Failf("discovery", "migrator found %d V1 swamps under DataPath %q, %d legacy folders exist there", res.TotalSwamps, dataPath, len(inScope))
		}
	}

	nonTrivial := false
	for _, b := range built {
		why, isFailed := failed[resolve(b.folder)]
		after := snapshot(b.folder)
		if !inScope[b] {
			// not below DataPath, or no legacy swamp at all: must be untouched
			if d := diffSnapshots(b.before, after); d != "" {
				return pbt.Failf("legacy-damaged", "swamp %s is no legacy swamp below DataPath %q (outside it, or without meta/chunk files) but its folder changed: %s", shortStr(b.name), dataPath, d)
			}
			if _, err := os.Lstat(b.hyd); err == nil && b.sw.Fault != "dir-at-hyd-path" {
				return pbt.Failf("partial-hyd", "swamp %s is no legacy swamp below DataPath %q (outside it, or without meta/chunk files) but a .hyd appeared", shortStr(b.name), dataPath)
			}
			classes["swamp-outside-datapath-untouched"] = true
			continue
		}
		_, folderErr := os.Stat(b.folder)
		hydInfo, hydErr := os.Lstat(b.hyd)
		tag := fmt.Sprintf("swamp %s (%d chunk files, fault %q, DataPath %q [%s/%s], dryrun=%v verify=%v deleteold=%v parallel=%d)", shortStr(b.name), b.chunks, b.sw.Fault,
			dataPath, s.Target, spell, s.DryRun, s.Verify, s.DeleteOld, s.Parallel)

		if b.chunks >= 2 && b.cnt.mods >= 1 && b.cnt.dels+b.cnt.sdels >= 1 {
			nonTrivial = true
		}
		if b.chunks >= 2 {
			classes["multi-chunk"] = true
		}
		if b.chunks >= 8 {
			classes["8+-chunks"] = true
		}
		if b.cnt.mods > 0 {
			classes["has-in-place-modification"] = true
		}
		if b.cnt.dels > 0 {
			classes["has-real-delete"] = true
		}
		if b.cnt.sdels > 0 {
			classes["has-shadow-delete"] = true
		}
		if b.cnt.dups > 0 {
			classes["has-duplicate-key"] = true
		}

		if b.expectErr && !isFailed && !s.DryRun {
			return pbt.Failf("undetected-failure", "%s: the migration cannot have produced a loadable file but is not reported as failed", tag)
		}
		if isFailed && !b.expectErr && !b.mayErr {
			return pbt.Failf("migration-failed", "%s: migration of a healthy legacy folder failed: %s", tag, why)
		}

		if isFailed || s.DryRun {
			// legacy data intact, nothing half-written
			if d := diffSnapshots(b.before, after); d != "" {
				return pbt.Failf("legacy-damaged", "%s: legacy folder differs after a failed/dry-run migration: %s", tag, d)
			}
			switch {
			case b.sw.Fault == "dir-at-hyd-path":
				if hydErr != nil || !hydInfo.IsDir() {
					return pbt.Failf("partial-hyd", "%s: the directory at the .hyd path was replaced or removed", tag)
				}
				if es, _ := os.ReadDir(b.hyd); len(es) != 0 {
					return pbt.Failf("partial-hyd", "%s: files were left inside the directory at the .hyd path", tag)
				}
			case hydErr == nil:
				return pbt.Failf("partial-hyd", "%s: a .hyd file (%d bytes) remains after a failed/dry-run migration (%s)", tag, hydInfo.Size(), why)
			}
			if _, err := os.Stat(b.hyd + ".compact"); err == nil {
				return pbt.Failf("partial-hyd", "%s: a .hyd.compact file remains", tag)
			}
			if isFailed {
				classes["migration-failed-legacy-intact"] = true
			} else {
				classes["dry-run"] = true
			}
			continue
		}

		// --- successful migration
		if s.DeleteOld {
			if folderErr == nil {
				for _, rel := range sortedKeys(after) {
					if after[rel] != "<dir>" {
						return pbt.Failf("delete-old", "%s: DeleteOld was requested and the migration succeeded but legacy file %s is still there", tag, rel)
					}
				}
			}
			classes["delete-old-done"] = true
		} else if d := diffSnapshots(b.before, after); d != "" {
			return pbt.Failf("legacy-damaged", "%s: legacy folder changed although DeleteOld was not requested: %s", tag, d)
		}

		if len(b.ref) == 0 {
			// an empty swamp needs no file
			if hydErr == nil && !hydInfo.IsDir() {
				if got := v2Load(b.folder, b.name); len(got) != 0 {
					return pbt.Failf("mismatch", "%s: V1 loads nothing, the migrated file loads %d records", tag, len(got))
				}
			}
			classes["empty-swamp"] = true
			continue
		}
		if hydErr != nil {
			return pbt.Failf("no-hyd", "%s: migration reported success but there is no .hyd file (V1 loads %d records)", tag, len(b.ref))
		}
		got := v2Load(b.folder, b.name)
		for _, k := range sortedKeys(b.ref) {
			g, ok := got[k]
			if !ok {
				return pbt.Failf("mismatch", "%s: key %s is loaded by V1 but missing from the migrated file (V1 %d records, V2 %d)", tag, shortStr(k), len(b.ref), len(got))
			}
			if g == b.ref[k] {
				continue
			}
			if len(b.accept[k]) > 1 && b.accept[k][g] {
				classes["duplicate-across-chunks-any-version-accepted"] = true
				continue
			}
			return pbt.Failf("mismatch", "%s: key %s differs\n  V1: %s\n  V2: %s", tag, shortStr(k), clip(b.ref[k]), clip(g))
		}
		for _, k := range sortedKeys(got) {
			if _, ok := b.ref[k]; !ok {
				return pbt.Failf("mismatch", "%s: key %s is in the migrated file but V1 does not load it: %s", tag, shortStr(k), clip(got[k]))
			}
		}
		nm, err := v2.ReadSwampName(b.hyd)
		if err == nil && nm == "" && (b.sw.Fault == "meta-missing" || b.sw.Fault == "meta-dangling-symlink") {
			// the legacy folder holds no meta file (ENOENT): there is no name to preserve
			classes["no-meta-file-nameless-hyd"] = true
		} else if err != nil || nm != b.name {
			return pbt.Failf("name", "%s: the migration is reported successful but ReadSwampName of the migrated file = %s, %v", tag, shortStr(nm), err)
		}
		classes["migrated-and-compared"] = true
	}

	out := pbt.Outcome{NonTrivial: nonTrivial}
	if s.Verify {
		classes["verify-on"] = true
	}
	if s.DeleteOld {
		classes["delete-old-on"] = true
	}
	if len(built) > 1 {
		classes["multi-swamp-root"] = true
	}
	for _, c := range sortedKeys(classes) {
		out.Classes = append(out.Classes, c)
	}
	return out
}

func clip(s string) string {
	if len(s) > 400 {
		return s[:400] + "…"
	}
	return s
}

// ---------------------------------------------------------------------------
// generator

func genVal(t *rapid.T, label string) ValSpec {
	v := ValSpec{Kind: rapid.IntRange(0, 14).Draw(t, label+"kind")}
	switch rapid.IntRange(0, 3).Draw(t, label+"ncls") {
	case 0:
		v.N = 0
	case 1:
		v.N = rapid.SampledFrom([]int64{1, -1, 127, 128, 255, 256, 65535, 65536, math.MaxInt32, math.MinInt32, math.MaxInt64, math.MinInt64}).Draw(t, label+"nb")
	default:
		v.N = rapid.Int64().Draw(t, label+"n")
	}
	v.F = rapid.SampledFrom([]float64{0, 1.5, -2.25, math.MaxFloat32, math.SmallestNonzeroFloat64, math.Inf(1), 1e-300, 123456.789}).Draw(t, label+"f")
	if math.IsInf(v.F, 0) {
		v.F = math.MaxFloat64 // JSON cannot hold Inf
	}
	n := rapid.IntRange(0, 80).Draw(t, label+"len")
	if rapid.IntRange(0, 9).Draw(t, label+"bigv") == 0 {
		n = rapid.IntRange(300, 5000).Draw(t, label+"biglen")
	}
	v.D = DataSpec{Len: n, Seed: rapid.Byte().Draw(t, label+"seed"), Mode: uint8(rapid.IntRange(0, 2).Draw(t, label+"mode"))}
	return v
}

func genMeta(t *rapid.T, label string) MetaSpec {
	var m MetaSpec
	if rapid.Bool().Draw(t, label+"has") {
		m.CreatedAt = rapid.Int64Range(1, 1<<62).Draw(t, label+"cat")
		m.CreatedBy = rapid.StringMatching(`[a-zA-Z0-9_\-]{0,12}`).Draw(t, label+"cby")
		m.ModifiedAt = rapid.Int64Range(0, 1<<62).Draw(t, label+"mat")
		m.ModifiedBy = rapid.StringMatching(`[a-z]{0,6}`).Draw(t, label+"mby")
		if rapid.Bool().Draw(t, label+"hasexp") {
			m.Expire = rapid.Int64Range(1, 1<<62).Draw(t, label+"exp")
		}
	}
	return m
}

func genC23Swamp(t *rapid.T, label string, faults bool) C23Swamp {
	sw := C23Swamp{
		Name:     genC29Name(t, label+"name", 300),
		Island:   rapid.IntRange(1, 99).Draw(t, label+"island"),
		MaxChunk: rapid.SampledFrom([]int{64, 64, 256, 256, 1024, 4096, 65536}).Draw(t, label+"chunk"),
	}
	nb := rapid.IntRange(1, 6).Draw(t, label+"nb")
	nextKey := 0
	for b := 0; b < nb; b++ {
		var batch C23Batch
		nops := rapid.IntRange(1, 10).Draw(t, fmt.Sprintf("%sb%dn", label, b))
		for i := 0; i < nops; i++ {
			l := fmt.Sprintf("%sb%do%d", label, b, i)
			c := rapid.IntRange(0, 99).Draw(t, l+"c")
			var op C23Op
			switch {
			case c < 45 || b == 0:
				op = C23Op{K: "new", Key: nextKey}
				nextKey++
			case c < 68:
				op = C23Op{K: "mod", Key: rapid.IntRange(0, 50).Draw(t, l+"k")}
			case c < 80:
				op = C23Op{K: "del", Key: rapid.IntRange(0, 50).Draw(t, l+"k")}
			case c < 90:
				op = C23Op{K: "sdel", Key: rapid.IntRange(0, 50).Draw(t, l+"k")}
			case c < 97:
				op = C23Op{K: "dupnew", Key: rapid.IntRange(0, 50).Draw(t, l+"k")}
			default:
				if faults && c == 99 {
					op = C23Op{K: "longkey", Key: nextKey}
					nextKey++
				} else {
					op = C23Op{K: "new", Key: nextKey}
					nextKey++
				}
			}
			op.V = genVal(t, l+"v")
			op.Meta = genMeta(t, l+"m")
			batch.Ops = append(batch.Ops, op)
		}
		batch.Reopen = rapid.IntRange(0, 3).Draw(t, fmt.Sprintf("%sb%dreopen", label, b)) == 0
		sw.Batches = append(sw.Batches, batch)
	}
	if faults && rapid.IntRange(0, 2).Draw(t, label+"hasfault") == 0 {
		kinds := []string{"corrupt-chunk-garbage", "corrupt-chunk-empty", "corrupt-chunk-truncated-stream", "chunk-is-directory",
			"chunk-dangling-symlink", "dir-at-hyd-path", "dir-at-hyd-path", "meta-missing", "meta-dangling-symlink"}
		if !pbt.Open("C23", c23WitnessMeta) {
			kinds = append(kinds, c23MetaReadFaults...)
		}
		sw.Fault = rapid.SampledFrom(kinds).Draw(t, label+"fault")
		sw.FaultPick = rapid.IntRange(0, 30).Draw(t, label+"faultpick")
	}
	return sw
}

func genC23(faults bool) func(t *rapid.T) C23Scenario {
	return func(t *rapid.T) C23Scenario {
		s := C23Scenario{
			DryRun:    rapid.IntRange(0, 7).Draw(t, "dryrun") == 0,
			Verify:    rapid.Bool().Draw(t, "verify"),
			DeleteOld: rapid.Bool().Draw(t, "deleteold"),
			Parallel:  rapid.IntRange(1, 8).Draw(t, "parallel"),
			StopOnErr: rapid.Bool().Draw(t, "stoponerr"),
			Rerun:     rapid.IntRange(0, 5).Draw(t, "rerun") == 0,
		}
		n := rapid.IntRange(1, 4).Draw(t, "nswamps")
		for i := 0; i < n; i++ {
			s.Swamps = append(s.Swamps, genC23Swamp(t, fmt.Sprintf("s%d", i), faults))
		}
		if rapid.IntRange(0, 1).Draw(t, "respell") == 0 {
			s.Spell = rapid.SampledFrom(c23Spells).Draw(t, "spell")
		}
		s.Target = rapid.SampledFrom([]string{"", "", "", "island", "swamp", "swamp"}).Draw(t, "target")
		s.TargetPick = rapid.IntRange(0, 3).Draw(t, "targetpick")
		if s.Target == "swamp" && c23SpellsUnsafeForSwampTarget[s.Spell] && pbt.Open("C23", c23WitnessPath) {
			s.Spell = rapid.SampledFrom([]string{"", "double-slash", "dot-segment", "dotdot-segment", "relative"}).Draw(t, "safespell")
		}
		return s
	}
}

const c23Rule = "data roots with 1-4 legacy swamp folders produced by the real V1 chronicler (chronicler.New + filesystem.New + metadata.New, driven like " +
	"the swamp: file-pointer callback, modified treasures carry their chunk file) from 1-6 write batches of new / modify-in-place / real delete / " +
	"shadow delete / duplicate-key ops with optional close+reload between batches; max chunk size 64B..64KiB; all 15 content kinds incl. zero " +
	"values and metadata; then migrator.Run with DryRun / Verify / DeleteOld / Parallel 1-8 / optional second run; Config.DataPath points at the data root, an island directory or one legacy folder and is spelled clean, with trailing '/', '//', '/./', trailing '/.', 'x/../x', relative to a chdir'ed cwd ('./x', 'x/', '.'), or through a symlink (with and without trailing '/'); differential oracle: V1.Load on a " +
	"copy of the folder vs V2 chronicler Load of the migrated file compared through all treasure getters, ReadSwampName == name in the meta file, " +
	"legacy folder byte-identical unless DeleteOld after success; non-trivial = a swamp with >=2 chunk files, >=1 in-place modification and >=1 delete"

func TestC23Main(t *testing.T) {
	if pbt.Open("C23", c23WitnessPath) {
		pbt.Excluded("C23", "main", "DataPath = a legacy folder itself spelled with a trailing separator, '/.' or as '.' (open finding "+c23WitnessPath+")")
	}
	pbt.Main(t, pbt.Spec[C23Scenario]{
		ID: "C23", Facet: "main", Rule: c23Rule,
		Quick: 1200, Thorough: 40000,
		Gen: genC23(false), Run: runC23,
	})
}

func TestC23Faults(t *testing.T) {
	if pbt.Open("C23", c23WitnessMeta) {
		pbt.Excluded("C23", "faults", "undecodable / unreadable legacy meta file (open finding "+c23WitnessMeta+")")
	}
	if pbt.Open("C23", c23WitnessPath) {
		pbt.Excluded("C23", "faults", "DataPath = a legacy folder itself spelled with a trailing separator (open finding "+c23WitnessPath+")")
	}
	pbt.Main(t, pbt.Spec[C23Scenario]{
		ID: "C23", Facet: "faults",
		Rule: "main generator plus fault cases that need no instrumentation: a V1 chunk file replaced by garbage / an empty file / a truncated " +
			"segment stream / a directory / a dangling symlink, a directory pre-created at the .hyd path, a key longer than 65535 bytes; a swamp " +
			"reported as failed must leave the legacy folder byte-identical and no .hyd; a swamp reported as migrated must still load exactly what " +
			"V1 loads from the (damaged) folder",
		Quick: 500, Thorough: 12000,
		Gen: genC23(true), Run: runC23,
	})
}

// --- witnesses of open findings -------------------------------------------

func TestC23WitnessDataPath(t *testing.T) {
	gen := func(t *rapid.T) C23Scenario {
		s := genC23(false)(t)
		s.DryRun = false
		s.Target = "swamp"
		s.Spell = rapid.SampledFrom([]string{"trailing-slash", "trailing-dot", "relative-slash", "relative-dot"}).Draw(t, "wspell")
		return s
	}
	pbt.Witness(t, pbt.Spec[C23Scenario]{
		ID: "C23", Facet: "witness-datapath",
		Rule:  "main generator with Config.DataPath pointing at one legacy folder itself, spelled with a trailing '/' or '/.', or as '.' / 'name/' relative to the cwd",
		Quick: 40, Thorough: 400, Gen: gen, Run: runC23,
	}, c23WitnessPath, "no-hyd", "legacy-damaged")
}

func TestC23WitnessMetaReadError(t *testing.T) {
	gen := func(t *rapid.T) C23Scenario {
		s := genC23(false)(t)
		s.DryRun = false
		s.Target, s.Spell = "", ""
		s.Swamps[0].Fault = rapid.SampledFrom(c23MetaReadFaults).Draw(t, "wfault")
		return s
	}
	pbt.Witness(t, pbt.Spec[C23Scenario]{
		ID: "C23", Facet: "witness-meta-read-error",
		Rule:  "main generator with the meta file of the first legacy folder made undecodable / unreadable (garbage, truncated gob, a directory)",
		Quick: 40, Thorough: 400, Gen: gen, Run: runC23,
	}, c23WitnessMeta, "name")
}
