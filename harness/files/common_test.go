package files

import (
	"fmt"
	"io"
	"log/slog"
	"os"
	"runtime"
	"sort"
	"time"

	"github.com/hydraide/hydraide/app/core/hydra/swamp/treasure"
	"github.com/hydraide/hydraide/app/core/hydra/swamp/treasure/guard"
)

func init() {
	// hydraide logs every rejected file through slog; keep the test logs small.
	slog.SetDefault(slog.New(slog.NewTextHandler(io.Discard, nil)))
}

func scratchDir() string {
	base := "/dev/shm"
	if _, err := os.Stat(base); err != nil {
		base = os.TempDir()
	}
	d, err := os.MkdirTemp(base, "verif-fl-")
	if err != nil {
		panic(err)
	}
	return d
}

// DataSpec describes a payload: Len bytes derived deterministically from Seed.
// Mode 0 = incompressible pseudo-random, 1 = repetitive, 2 = all zero bytes.
type DataSpec struct {
	Len  int   `json:"len"`
	Seed uint8 `json:"seed"`
	Mode uint8 `json:"mode,omitempty"`
}

func (d DataSpec) Bytes() []byte {
	b := make([]byte, d.Len)
	switch d.Mode % 3 {
	case 0:
		x := uint32(d.Seed)*2654435761 + 12345
		for i := range b {
			x ^= x << 13
			x ^= x >> 17
			x ^= x << 5
			b[i] = byte(x)
		}
	case 1:
		for i := range b {
			b[i] = d.Seed + byte(i%7)
		}
	}
	if d.Len > 0 {
		b[0] = d.Seed
	}
	return b
}

// Text renders the payload as a printable string (treasure string content).
func (d DataSpec) Text() string {
	b := make([]byte, d.Len%400)
	for i := range b {
		b[i] = 'a' + byte((int(d.Seed)+i*int(d.Mode+1))%26)
	}
	return fmt.Sprintf("s%d-%d-%s", d.Seed, d.Len, b)
}

func shortStr(s string) string {
	if len(s) > 32 {
		return fmt.Sprintf("%q…(%d bytes)", s[:32], len(s))
	}
	return fmt.Sprintf("%q", s)
}

// stringTreasureBytes returns the serialised form (the bytes both chroniclers
// store) of a treasure with the given key and string content.
func stringTreasureBytes(key, content string) []byte {
	t := treasure.New(nil)
	g := t.StartTreasureGuard(true, guard.BodyAuthID)
	t.BodySetKey(g, key)
	t.SetContentString(g, content)
	b, err := t.ConvertToByte(g)
	t.ReleaseTreasureGuard(g)
	if err != nil {
		panic(err)
	}
	return b
}

// callResult is what guardedCall observed.
type callResult struct {
	Panic   string
	Hung    bool
	Alloc   uint64
	Elapsed time.Duration
}

// guardedCall runs f on its own goroutine: a panic is caught, a watchdog
// bounds the wait, and the bytes allocated by the process while f ran are
// measured (the harness runs nothing else concurrently).
func guardedCall(watchdog time.Duration, f func()) callResult {
	done := make(chan callResult, 1)
	go func() {
		var res callResult
		var m0, m1 runtime.MemStats
		runtime.ReadMemStats(&m0)
		t0 := time.Now()
		defer func() {
			if r := recover(); r != nil {
				buf := make([]byte, 2048)
				buf = buf[:runtime.Stack(buf, false)]
				res.Panic = fmt.Sprintf("%v\n%s", r, buf)
			}
			res.Elapsed = time.Since(t0)
			runtime.ReadMemStats(&m1)
			res.Alloc = m1.TotalAlloc - m0.TotalAlloc
			done <- res
		}()
		f()
	}()
	tm := time.NewTimer(watchdog)
	defer tm.Stop()
	select {
	case r := <-done:
		return r
	case <-tm.C:
		return callResult{Hung: true}
	}
}

func sortedKeys[V any](m map[string]V) []string {
	ks := make([]string, 0, len(m))
	for k := range m {
		ks = append(ks, k)
	}
	sort.Strings(ks)
	return ks
}

// quietStdout silences os.Stdout while f runs (the V1 chronicler prints debug
// lines with fmt.Println on every modification).
func quietStdout(f func()) {
	old := os.Stdout
	devnull, err := os.OpenFile(os.DevNull, os.O_WRONLY, 0)
	if err == nil {
		os.Stdout = devnull
		defer func() {
			os.Stdout = old
			devnull.Close()
		}()
	}
	f()
}
