package files

import (
	"bytes"
	"encoding/binary"
	"fmt"
	"hash/crc32"
	"os"
	"path/filepath"
	"runtime/debug"
	"testing"
	"time"

	"github.com/golang/snappy"
	"github.com/hydraide/hydraide/app/core/hydra/swamp/beacon"
	"github.com/hydraide/hydraide/app/core/hydra/swamp/chronicler"
	v2 "github.com/hydraide/hydraide/app/core/hydra/swamp/chronicler/v2"
	"pgregory.net/rapid"

	"verifharness/internal/hydfmt"
	"verifharness/internal/pbt"
)

// C04 — Corrupt storage files are detected, never misread or crash the server.

const (
	c04WitnessCS     = "forged-compressed-size"
	c04WitnessSnappy = "forged-snappy-length"
	c04Slack         = 4 << 20
	c04LoadSlack     = 32 << 20 // chronicler.Load decodes every record with a fresh gob decoder
	c04Watchdog      = 20 * time.Second
)

type C04Op struct {
	K   string   `json:"k"` // put | del | flush
	Ins bool     `json:"ins,omitempty"`
	Key int      `json:"key"`
	D   DataSpec `json:"d"`
}

type C04File struct {
	BlockSize int      `json:"block_size"`
	Name      string   `json:"name"`
	Legacy    bool     `json:"legacy,omitempty"`   // hand-built version-2 file
	Treasure  bool     `json:"treasure,omitempty"` // values are serialised treasures (string content)
	Keys      [][]byte `json:"keys"`
	Ops       []C04Op  `json:"ops"`
}

type C04Mut struct {
	Kind  string `json:"kind"`
	A     int    `json:"a,omitempty"`
	B     int    `json:"b,omitempty"`
	C     int    `json:"c,omitempty"`
	V     uint64 `json:"v,omitempty"`
	P     []int  `json:"p,omitempty"`
	Bytes []byte `json:"bytes,omitempty"`
}

type C04Scenario struct {
	Files []C04File `json:"files"`
	Muts  []C04Mut  `json:"muts"`
}

// ---------------------------------------------------------------------------
// building the valid source files

type c04Built struct {
	raw   []byte
	puts  map[string]map[string]bool // key -> set of values ever written
	dels  map[string]bool            // keys for which a delete record was written
	texts map[string]map[string]bool // treasure mode: key -> string contents ever written
	final map[string][]byte          // last-writer-wins state of the valid file
	name  string
}

func (f C04File) value(key string, d DataSpec) []byte {
	if f.Treasure {
		return stringTreasureBytes(key, d.Text())
	}
	return d.Bytes()
}

func c04Build(dir string, idx int, f C04File) (*c04Built, error) {
	b := &c04Built{puts: map[string]map[string]bool{}, dels: map[string]bool{}, texts: map[string]map[string]bool{},
		final: map[string][]byte{}, name: f.Name}
	note := func(op C04Op) (string, []byte) {
		k := string(f.Keys[op.Key%len(f.Keys)])
		if op.K == "del" {
			b.dels[k] = true
			delete(b.final, k)
			return k, nil
		}
		v := f.value(k, op.D)
		if b.puts[k] == nil {
			b.puts[k] = map[string]bool{}
		}
		b.puts[k][string(v)] = true
		if f.Treasure {
			if b.texts[k] == nil {
				b.texts[k] = map[string]bool{}
			}
			b.texts[k][op.D.Text()] = true
		}
		b.final[k] = v
		return k, v
	}
	if f.Legacy {
		var blocks [][]hydfmt.Entry
		var cur []hydfmt.Entry
		for _, op := range f.Ops {
			switch op.K {
			case "put":
				k, v := note(op)
				o := uint8(hydfmt.OpUpdate)
				if op.Ins {
					o = hydfmt.OpInsert
				}
				cur = append(cur, hydfmt.Entry{Op: o, Key: k, Data: v})
			case "del":
				k, _ := note(op)
				cur = append(cur, hydfmt.Entry{Op: hydfmt.OpDelete, Key: k})
			case "flush":
				if len(cur) > 0 {
					blocks = append(blocks, cur)
					cur = nil
				}
			}
		}
		if len(cur) > 0 {
			blocks = append(blocks, cur)
		}
		b.raw = hydfmt.LegacyV2File(f.Name, uint32(f.BlockSize), blocks)
		return b, nil
	}
	path := filepath.Join(dir, fmt.Sprintf("src%d.hyd", idx))
	w, err := v2.NewFileWriterWithName(path, f.BlockSize, f.Name)
	if err != nil {
		return nil, err
	}
	for _, op := range f.Ops {
		switch op.K {
		case "put":
			k, v := note(op)
			o := v2.OpUpdate
			if op.Ins {
				o = v2.OpInsert
			}
			if err := w.WriteEntry(v2.Entry{Operation: o, Key: k, Data: v}); err != nil {
				w.Close()
				return nil, err
			}
		case "del":
			k, _ := note(op)
			if err := w.WriteEntry(v2.Entry{Operation: v2.OpDelete, Key: k}); err != nil {
				w.Close()
				return nil, err
			}
		case "flush":
			if err := w.Flush(); err != nil {
				w.Close()
				return nil, err
			}
		}
	}
	if err := w.Close(); err != nil {
		return nil, err
	}
	b.raw, err = os.ReadFile(path)
	os.Remove(path)
	return b, err
}

// ---------------------------------------------------------------------------
// the reader's view of a byte string (which block headers it would follow)

type blkRef struct {
	off      int
	cs       uint32
	complete bool
}

// readerView mirrors how the reader walks a file: header check, data start
// (64 + NameLength for version 3), then the chain of block headers linked by
// CompressedSize. It decodes nothing.
func readerView(buf []byte) (ok bool, dataStart int, blocks []blkRef) {
	if len(buf) < hydfmt.HeaderSize || string(buf[0:4]) != "HYDR" {
		return false, 0, nil
	}
	ver := binary.LittleEndian.Uint16(buf[4:6])
	if ver != 2 && ver != 3 {
		return false, 0, nil
	}
	dataStart = hydfmt.HeaderSize
	if ver == 3 {
		dataStart += int(binary.LittleEndian.Uint16(buf[44:46]))
	}
	if dataStart > len(buf) {
		return ver == 2, dataStart, nil
	}
	off := dataStart
	for off+hydfmt.BlockHeaderSize <= len(buf) {
		cs := binary.LittleEndian.Uint32(buf[off:])
		end := off + hydfmt.BlockHeaderSize + int(cs)
		if end > len(buf) {
			blocks = append(blocks, blkRef{off: off, cs: cs})
			break
		}
		blocks = append(blocks, blkRef{off: off, cs: cs, complete: true})
		off = end
	}
	return true, dataStart, blocks
}

// repairForgedCS removes the trigger of the open finding forged-compressed-size:
// the first block header whose CompressedSize exceeds the rest of the file by
// more than 1 MiB is rewritten to exceed it by at most 64 KiB (still forged,
// still has to be rejected, but the up-front allocation stays proportional).
func repairForgedCS(buf []byte) ([]byte, bool) {
	ok, _, blocks := readerView(buf)
	if !ok || len(blocks) == 0 {
		return buf, false
	}
	last := blocks[len(blocks)-1]
	if last.complete {
		return buf, false
	}
	rem := len(buf) - (last.off + hydfmt.BlockHeaderSize)
	if int64(last.cs)-int64(rem) <= 1<<20 {
		return buf, false
	}
	binary.LittleEndian.PutUint32(buf[last.off:], uint32(rem+1+int(last.cs&0xffff)))
	return buf, true
}

// repairForgedSnappy removes the trigger of the open finding forged-snappy-length:
// a block with a valid checksum whose Snappy preamble announces more than
// 32 x its compressed size (+1 MiB) gets its stored checksum inverted.
func repairForgedSnappy(buf []byte) ([]byte, bool) {
	ok, _, blocks := readerView(buf)
	if !ok {
		return buf, false
	}
	changed := false
	for _, b := range blocks {
		if !b.complete {
			continue
		}
		comp := buf[b.off+hydfmt.BlockHeaderSize : b.off+hydfmt.BlockHeaderSize+int(b.cs)]
		if crc32.ChecksumIEEE(comp) != binary.LittleEndian.Uint32(buf[b.off+10:]) {
			continue
		}
		n, err := snappy.DecodedLen(comp)
		if err == nil && int64(n) > 32*int64(len(comp))+1<<20 {
			binary.LittleEndian.PutUint32(buf[b.off+10:], ^binary.LittleEndian.Uint32(buf[b.off+10:]))
			changed = true
		}
	}
	return buf, changed
}

// ---------------------------------------------------------------------------
// mutations

func pick64(sel int, vals ...uint64) uint64 { return vals[((sel%len(vals))+len(vals))%len(vals)] }

func mod(a, n int) int {
	if n <= 0 {
		return 0
	}
	a %= n
	if a < 0 {
		a += n
	}
	return a
}

// fixBlock rewrites the block at off with the given compressed payload and
// header fields and returns the new buffer.
func spliceBlock(buf []byte, off, oldEnd int, comp []byte, us uint32, ec uint16) []byte {
	h := make([]byte, hydfmt.BlockHeaderSize)
	binary.LittleEndian.PutUint32(h[0:], uint32(len(comp)))
	binary.LittleEndian.PutUint32(h[4:], us)
	binary.LittleEndian.PutUint16(h[8:], ec)
	binary.LittleEndian.PutUint32(h[10:], crc32.ChecksumIEEE(comp))
	out := append([]byte(nil), buf[:off]...)
	out = append(out, h...)
	out = append(out, comp...)
	out = append(out, buf[oldEnd:]...)
	return out
}

func c04Apply(buf []byte, m C04Mut, srcs []*c04Built) (out []byte, tainted bool, label string) {
	switch m.Kind {
	case "trunc":
		if ok, ds, _ := readerView(buf); ok && ds < len(buf) && m.B%4 != 0 {
			// mostly cut inside the block area
			return buf[:ds+mod(m.A, len(buf)-ds+1)], false, "trunc-in-blocks"
		}
		return buf[:mod(m.A, len(buf)+1)], false, "trunc"
	case "flip":
		if len(buf) == 0 {
			return buf, false, "flip"
		}
		for _, p := range m.P {
			bit := mod(p, len(buf)*8)
			buf[bit/8] ^= 1 << (bit % 8)
		}
		return buf, false, "flip"
	case "flipdata":
		// bit flips restricted to the block area
		ok, ds, _ := readerView(buf)
		if !ok || ds >= len(buf) {
			return buf, false, "flipdata"
		}
		for _, p := range m.P {
			bit := mod(p, (len(buf)-ds)*8)
			buf[ds+bit/8] ^= 1 << (bit % 8)
		}
		return buf, false, "flipdata"
	case "blkhdr":
		ok, _, blocks := readerView(buf)
		if !ok || len(blocks) == 0 {
			return buf, false, "blkhdr-none"
		}
		b := blocks[mod(m.A, len(blocks))]
		h := buf[b.off : b.off+hydfmt.BlockHeaderSize]
		rem := uint64(len(buf) - b.off - hydfmt.BlockHeaderSize)
		switch mod(m.B, 5) {
		case 0:
			cs := uint64(binary.LittleEndian.Uint32(h[0:]))
			// (sizes that make "position + header + size" wrap in 32-bit arithmetic: 2^32 minus the header sizes,
			// minus a small drawn k, minus the block's own position)
			hs := uint64(hydfmt.BlockHeaderSize)
			v := pick64(m.C, 0, 1, cs-1, cs+1, 1<<31, 1<<32-1, rem, rem+1, m.V,
				1<<32-hs, 1<<32-hs-1, 1<<32-hs+1, 1<<32-64, 1<<32-(m.V%33), 1<<32-uint64(b.off)-hs, 1<<32-uint64(b.off), 1<<32-hs-cs)
			binary.LittleEndian.PutUint32(h[0:], uint32(v))
			return buf, false, "blkhdr-compressedsize"
		case 1:
			us := uint64(binary.LittleEndian.Uint32(h[4:]))
			binary.LittleEndian.PutUint32(h[4:], uint32(pick64(m.C, 0, 1, us-1, us+1, 1<<31, 1<<32-1, m.V, 1<<32-uint64(hydfmt.BlockHeaderSize), 1<<32-(m.V%33))))
			return buf, false, "blkhdr-uncompressedsize"
		case 2:
			ec := uint64(binary.LittleEndian.Uint16(h[8:]))
			binary.LittleEndian.PutUint16(h[8:], uint16(pick64(m.C, 0, 1, ec-1, ec+1, 65535, m.V)))
			return buf, false, "blkhdr-entrycount"
		case 3:
			c := uint64(binary.LittleEndian.Uint32(h[10:]))
			binary.LittleEndian.PutUint32(h[10:], uint32(pick64(m.C, 0, ^c, c^1, m.V)))
			return buf, false, "blkhdr-checksum"
		default:
			binary.LittleEndian.PutUint16(h[14:], uint16(m.V))
			return buf, false, "blkhdr-flags"
		}
	case "filehdr":
		if len(buf) < hydfmt.HeaderSize {
			return buf, false, "filehdr-none"
		}
		switch mod(m.A, 6) {
		case 0:
			binary.LittleEndian.PutUint16(buf[4:], uint16(pick64(m.C, 0, 1, 2, 3, 4, 0xffff, m.V)))
			return buf, false, "filehdr-version"
		case 1:
			nl := uint64(binary.LittleEndian.Uint16(buf[44:]))
			first := uint64(0)
			if ok, _, blocks := readerView(buf); ok && len(blocks) > 0 {
				first = uint64(blocks[0].cs) + hydfmt.BlockHeaderSize
			}
			binary.LittleEndian.PutUint16(buf[44:], uint16(pick64(m.C, 0, 1, nl-1, nl+1, 65535, nl+first, nl+hydfmt.BlockHeaderSize, m.V)))
			return buf, false, "filehdr-namelength"
		case 2:
			binary.LittleEndian.PutUint32(buf[24:], uint32(pick64(m.C, 0, 1, 1<<32-1, m.V)))
			return buf, false, "filehdr-blocksize"
		case 3:
			binary.LittleEndian.PutUint64(buf[28:], pick64(m.C, 0, 1<<64-1, 100+m.V%1000, 1<<63, m.V))
			return buf, false, "filehdr-entrycount"
		case 4:
			binary.LittleEndian.PutUint64(buf[36:], pick64(m.C, 0, 1<<64-1, m.V))
			return buf, false, "filehdr-blockcount"
		default:
			copy(buf[0:4], [][]byte{[]byte("HYDQ"), {0, 0, 0, 0}, []byte("hydr"), []byte("RDYH")}[mod(m.C, 4)])
			return buf, false, "filehdr-magic"
		}
	case "splice":
		ok, ds, blocks := readerView(buf)
		if !ok {
			return buf, false, "splice-none"
		}
		bounds := []int{ds}
		for _, b := range blocks {
			if b.complete {
				bounds = append(bounds, b.off+hydfmt.BlockHeaderSize+int(b.cs))
			}
		}
		other := srcs[len(srcs)-1].raw // the second file when there is one, else the file itself
		ok2, ds2, blocks2 := readerView(other)
		if !ok2 || ds > len(buf) {
			return buf, false, "splice-none"
		}
		bounds2 := []int{ds2}
		for _, b := range blocks2 {
			if b.complete {
				bounds2 = append(bounds2, b.off+hydfmt.BlockHeaderSize+int(b.cs))
			}
		}
		cutA := bounds[mod(m.A, len(bounds))]
		switch mod(m.C, 3) {
		case 0: // head of this file + tail of the other
			cutB := bounds2[mod(m.B, len(bounds2))]
			out = append(append([]byte(nil), buf[:cutA]...), other[cutB:]...)
			return out, false, "splice-tail"
		case 1: // insert one whole block of the other file at a block boundary
			if len(bounds2) < 2 {
				return buf, false, "splice-none"
			}
			i := mod(m.B, len(bounds2)-1)
			blk := other[bounds2[i]:bounds2[i+1]]
			out = append(append(append([]byte(nil), buf[:cutA]...), blk...), buf[cutA:]...)
			return out, false, "splice-insert-block"
		default: // drop one whole block
			if len(bounds) < 2 {
				return buf, false, "splice-none"
			}
			i := mod(m.B, len(bounds)-1)
			out = append(append([]byte(nil), buf[:bounds[i]]...), buf[bounds[i+1]:]...)
			return out, false, "splice-drop-block"
		}
	case "random":
		switch mod(m.A, 4) {
		case 0:
			return append([]byte(nil), m.Bytes...), false, "random-pure"
		case 1:
			h := hydfmt.EncodeHeader(hydfmt.Header{Version: uint16(2 + mod(m.B, 2)), BlockSize: 16384, NameLength: uint16(mod(m.C, 12))})
			return append(h, m.Bytes...), false, "random-after-valid-header"
		case 2:
			_, ds, _ := readerView(buf)
			if ds > len(buf) || ds == 0 {
				ds = min(len(buf), hydfmt.HeaderSize)
			}
			return append(append([]byte(nil), buf[:ds]...), m.Bytes...), false, "random-after-own-header"
		default:
			return append(buf, m.Bytes...), false, "random-appended"
		}
	case "insert":
		at := mod(m.A, len(buf)+1)
		out = append(append(append([]byte(nil), buf[:at]...), m.Bytes...), buf[at:]...)
		return out, false, "insert-bytes"
	case "cut":
		if len(buf) == 0 {
			return buf, false, "cut-bytes"
		}
		at := mod(m.A, len(buf))
		n := 1 + mod(m.B, min(64, len(buf)-at))
		out = append(append([]byte(nil), buf[:at]...), buf[at+n:]...)
		return out, false, "cut-bytes"
	case "recrc":
		ok, _, blocks := readerView(buf)
		var full []blkRef
		for _, b := range blocks {
			if b.complete {
				full = append(full, b)
			}
		}
		if !ok || len(full) == 0 {
			return buf, false, "recrc-none"
		}
		b := full[mod(m.B, len(full))]
		end := b.off + hydfmt.BlockHeaderSize + int(b.cs)
		comp := append([]byte(nil), buf[b.off+hydfmt.BlockHeaderSize:end]...)
		us := binary.LittleEndian.Uint32(buf[b.off+4:])
		ec := binary.LittleEndian.Uint16(buf[b.off+8:])
		switch mod(m.A, 4) {
		case 0: // hostile Snappy preamble behind a valid checksum
			pre := binary.AppendUvarint(nil, pick64(m.C, 1<<32-1, 1<<31, 1<<28, 1<<24, m.V&0xffffffff))
			comp = append(pre, m.Bytes...)
			declared := uint32(pick64(m.C/8, uint64(us), 1<<32-1, m.V&0xffffffff))
			return spliceBlock(buf, b.off, end, comp, declared, ec), true, "recrc-snappy-preamble"
		case 1: // bit flips inside the compressed payload, checksum recomputed
			if len(comp) == 0 {
				return buf, false, "recrc-none"
			}
			for _, p := range m.P {
				bit := mod(p, len(comp)*8)
				comp[bit/8] ^= 1 << (bit % 8)
			}
			return spliceBlock(buf, b.off, end, comp, us, ec), true, "recrc-payload-flip"
		case 2: // entry stream edited (length fields), recompressed, checksum valid
			// (a preamble forged by an earlier mutation of the chain can declare gigabytes; snappy.Decode
			// allocates the declared length before it looks at the stream, and no valid stream expands
			// more than ~32x — do not let the HARNESS allocate that)
			if dl, derr := snappy.DecodedLen(comp); derr != nil || dl > 128*len(comp)+1024 {
				return buf, false, "recrc-none"
			}
			raw, err := snappy.Decode(nil, comp)
			if err != nil || len(raw) == 0 {
				return buf, false, "recrc-none"
			}
			at := 0
			if len(m.P) > 0 {
				at = mod(m.P[0], len(raw))
			}
			switch mod(m.C, 4) {
			case 0: // key length field of the first entry
				if len(raw) >= 3 {
					binary.LittleEndian.PutUint16(raw[1:], uint16(pick64(int(m.V), 0, 0xffff, uint64(len(raw)), uint64(len(raw))-3, uint64(len(raw))-7, m.V)))
				}
			case 1: // data length field of the first entry
				if len(raw) >= 7 {
					kl := int(binary.LittleEndian.Uint16(raw[1:]))
					if 3+kl+4 <= len(raw) {
						binary.LittleEndian.PutUint32(raw[3+kl:], uint32(pick64(int(m.V), 0xffffffff, 0x7fffffff, 0x80000000, uint64(len(raw)), uint64(len(raw)-3-kl-4)+1, m.V)))
					}
				}
			case 2:
				raw[at] = byte(m.V)
			default:
				raw = raw[:at]
			}
			newEC := ec
			if m.A/4%2 == 1 {
				newEC = uint16(pick64(int(m.V>>8), uint64(ec)+1, 65535, 0, uint64(ec)))
			}
			return spliceBlock(buf, b.off, end, snappy.Encode(nil, raw), uint32(len(raw)), newEC), true, "recrc-entry-stream"
		default: // a block built from arbitrary bytes as the entry stream
			raw := m.Bytes
			return spliceBlock(buf, b.off, end, snappy.Encode(nil, raw), uint32(len(raw)), uint16(1+mod(m.C, 5))), true, "recrc-random-entries"
		}
	}
	return buf, false, "noop"
}

// ---------------------------------------------------------------------------
// oracle

var (
	c04MaxAlloc     uint64
	c04MaxAllocAPI  string
	c04MaxAllocSize int
)

type c04Verdict struct {
	out     pbt.Outcome
	failed  bool
	classes map[string]bool
}

func (v *c04Verdict) class(c string) { v.classes[c] = true }

// judge turns a guarded call into an outcome; returns false when the case must stop.
func (v *c04Verdict) judge(api string, size int, slack uint64, retry func() callResult) bool {
	r := retry()
	if r.Hung {
		r2 := retry()
		if r2.Hung {
			v.out = pbt.Failf("hang", "%s did not return within %v (twice) on a %d-byte file", api, c04Watchdog, size)
			v.failed = true
			return false
		}
		v.out = pbt.Outcome{Skip: true}
		v.failed = true
		return false
	}
	if r.Panic != "" {
		v.out = pbt.Failf("panic", "%s panicked on a %d-byte file: %s", api, size, r.Panic)
		v.failed = true
		return false
	}
	limit := 64*uint64(size) + slack
	if r.Alloc > c04MaxAlloc {
		c04MaxAlloc, c04MaxAllocAPI, c04MaxAllocSize = r.Alloc, api, size
	}
	if r.Alloc > limit {
		v.out = pbt.Failf("alloc", "%s allocated %d bytes for a %d-byte file (bound 64 x size + %d MiB = %d)", api, r.Alloc, size, slack>>20, limit)
		v.failed = true
		if r.Alloc > 1<<30 {
			debug.FreeOSMemory()
		}
		return false
	}
	return true
}

func c04Member(srcs []*c04Built, key string, data []byte) bool {
	for _, s := range srcs {
		if s.puts[key][string(data)] {
			return true
		}
	}
	return false
}

func runC04(s C04Scenario) pbt.Outcome {
	if len(s.Files) == 0 {
		return pbt.Outcome{Skip: true}
	}
	dir := scratchDir()
	defer os.RemoveAll(dir)
	var srcs []*c04Built
	allTreasure := true
	for i, f := range s.Files {
		if len(f.Keys) == 0 {
			return pbt.Outcome{Skip: true}
		}
		b, err := c04Build(dir, i, f)
		if err != nil {
			return pbt.Outcome{Skip: true}
		}
		srcs = append(srcs, b)
		allTreasure = allTreasure && f.Treasure
	}
	orig := srcs[0].raw
	_, origDS, _ := readerView(orig)
	buf := append([]byte(nil), orig...)
	v := &c04Verdict{classes: map[string]bool{}}
	tainted := false
	for _, m := range s.Muts {
		var t bool
		var label string
		buf, t, label = c04Apply(buf, m, srcs)
		tainted = tainted || t
		v.class("mut:" + label)
	}
	if pbt.Open("C04", c04WitnessCS) && !s.keepTrigger() {
		var ch bool
		if buf, ch = repairForgedCS(buf); ch {
			v.class("trigger-removed:" + c04WitnessCS)
		}
	}
	if tainted && pbt.Open("C04", c04WitnessSnappy) && !s.keepTrigger() {
		var ch bool
		if buf, ch = repairForgedSnappy(buf); ch {
			v.class("trigger-removed:" + c04WitnessSnappy)
		}
	}
	validHdr, _, _ := readerView(buf)
	differs := !bytes.Equal(buf, orig)
	inBlockArea := len(buf) != len(orig)
	if !inBlockArea {
		for i := origDS; i < len(buf) && i < len(orig); i++ {
			if buf[i] != orig[i] {
				inBlockArea = true
				break
			}
		}
	}
	var legacy []bool
	for _, f := range s.Files {
		legacy = append(legacy, f.Legacy)
	}
	if s.Files[0].Legacy {
		v.class("source-legacy-v2")
	}
	if tainted {
		v.class("checksum-recomputed")
	}
	return c04Oracle(dir, buf, srcs, legacy, tainted, allTreasure, len(srcs) == 1, v, validHdr && differs && inBlockArea)
}

// c04Oracle presents buf as a .hyd file to every loading entry point and
// judges the outcome. srcs are the valid files buf was derived from (their
// write sets bound what may be returned when tainted is false).
func c04Oracle(dir string, buf []byte, srcs []*c04Built, legacy []bool, tainted, allTreasure, classifyDrops bool, v *c04Verdict, nonTrivial bool) pbt.Outcome {
	size := len(buf)
	path := filepath.Join(dir, "m.hyd")
	if err := os.WriteFile(path, buf, 0o644); err != nil {
		return pbt.Outcome{Skip: true}
	}
	finish := func() pbt.Outcome {
		if v.failed {
			return v.out
		}
		o := pbt.Outcome{NonTrivial: nonTrivial}
		for _, c := range sortedKeys(v.classes) {
			o.Classes = append(o.Classes, c)
		}
		return o
	}

	// 1. open
	var rd *v2.FileReader
	var openErr error
	if !v.judge("NewFileReader", size, c04Slack, func() callResult {
		return guardedCall(pbt.Bound(c04Watchdog), func() { rd, openErr = v2.NewFileReader(path) })
	}) {
		return finish()
	}
	if openErr != nil {
		v.class("rejected-at-open")
	} else {
		defer rd.Close()
		// 2. LoadIndex
		var idx map[string][]byte
		var err error
		if !v.judge("LoadIndex", size, c04Slack, func() callResult {
			return guardedCall(pbt.Bound(c04Watchdog), func() { idx, _, err = rd.LoadIndex() })
		}) {
			return finish()
		}
		if err != nil {
			v.class("rejected-at-load")
		} else {
			v.class("accepted")
			if !tainted {
				for _, k := range sortedKeys(idx) {
					if !c04Member(srcs, k, idx[k]) {
						return pbt.Failf("misread", "LoadIndex returned key %s with a %d-byte value %x… that was never written for that key (file %d bytes, no error)",
							shortStr(k), len(idx[k]), head(idx[k]), size)
					}
				}
				dropped := false
				for k := range srcs[0].final {
					if _, ok := idx[k]; !ok {
						dropped = true
					}
				}
				if dropped && classifyDrops {
					v.class("accepted-with-silently-dropped-records")
				}
			}
		}
		// 3. ReadAllBlocks
		var blocks []*v2.Block
		if !v.judge("ReadAllBlocks", size, c04Slack, func() callResult {
			return guardedCall(pbt.Bound(c04Watchdog), func() { blocks, err = rd.ReadAllBlocks() })
		}) {
			return finish()
		}
		if err == nil && !tainted {
			for _, b := range blocks {
				for _, e := range b.Entries {
					switch e.Operation {
					case v2.OpInsert, v2.OpUpdate:
						if !c04Member(srcs, e.Key, e.Data) {
							return pbt.Failf("misread", "ReadAllBlocks returned a put of key %s / %d-byte value that was never written", shortStr(e.Key), len(e.Data))
						}
					case v2.OpDelete:
						okd := false
						for _, src := range srcs {
							okd = okd || src.dels[e.Key]
						}
						if !okd {
							return pbt.Failf("misread", "ReadAllBlocks returned a delete of key %s that was never written", shortStr(e.Key))
						}
					case v2.OpMetadata:
						okm := false
						for i, src := range srcs {
							okm = okm || (legacy[i] && e.Key == v2.MetadataEntryKey && string(e.Data) == src.name)
						}
						if !okm {
							return pbt.Failf("misread", "ReadAllBlocks returned a metadata entry %s=%s that was never written", shortStr(e.Key), shortStr(string(e.Data)))
						}
					default:
						return pbt.Failf("misread", "ReadAllBlocks returned an entry with operation %d that was never written", e.Operation)
					}
				}
			}
		}
		// 4. ScanBlockHeaders
		if !v.judge("ScanBlockHeaders", size, c04Slack, func() callResult {
			return guardedCall(pbt.Bound(c04Watchdog), func() { _, _ = rd.ScanBlockHeaders() })
		}) {
			return finish()
		}
		// 5. CalculateFragmentation
		var frag float64
		if !v.judge("CalculateFragmentation", size, c04Slack, func() callResult {
			return guardedCall(pbt.Bound(c04Watchdog), func() { frag, _, _, err = rd.CalculateFragmentation() })
		}) {
			return finish()
		}
		if err == nil && !(frag >= 0 && frag <= 1) {
			return pbt.Failf("misread", "CalculateFragmentation returned %v without error", frag)
		}
	}
	// 6. ReadSwampName
	if !v.judge("ReadSwampName", size, c04Slack, func() callResult {
		return guardedCall(pbt.Bound(c04Watchdog), func() { _, _ = v2.ReadSwampName(path) })
	}) {
		return finish()
	}
	// 7. chronicler Load on its own copy (it may rewrite the file: self-heal compaction)
	cbase := filepath.Join(dir, "c")
	loadOnce := func() (callResult, beacon.Beacon) {
		os.WriteFile(cbase+".hyd", buf, 0o644)
		bc := beacon.New()
		r := guardedCall(pbt.Bound(c04Watchdog), func() {
			c := chronicler.NewV2WithName(cbase, 2, "")
			c.Load(bc)
			c.Close()
		})
		return r, bc
	}
	var bc beacon.Beacon
	if !v.judge("chronicler.Load", size, c04LoadSlack, func() callResult {
		var r callResult
		r, bc = loadOnce()
		return r
	}) {
		return finish()
	}
	if bc != nil && bc.Count() > 0 {
		v.class("chronicler-load-returned-records")
		if !tainted && allTreasure {
			all := bc.GetAll()
			for _, k := range sortedKeys(all) {
				t := all[k]
				txt, cerr := t.GetContentString()
				found := false
				if cerr == nil && t.GetKey() == k {
					for _, src := range srcs {
						found = found || src.texts[k][txt]
					}
				}
				if !found {
					return pbt.Failf("misread", "chronicler.Load returned treasure %s (inner key %s, content %s, err %v) that was never written",
						shortStr(k), shortStr(t.GetKey()), shortStr(txt), cerr)
				}
			}
		}
	}
	return finish()
}

func head(b []byte) []byte {
	if len(b) > 8 {
		return b[:8]
	}
	return b
}

// keepTrigger is true for witness scenarios (marked by a trailing mutation of
// kind "witness-…"): the repair of open findings is not applied to them.
func (s C04Scenario) keepTrigger() bool {
	for _, m := range s.Muts {
		if m.Kind == "keep-trigger" {
			return true
		}
	}
	return false
}

// ---------------------------------------------------------------------------
// generators

var c04BlockSizes = []int{1, 1, 64, 300, 4096, 16384}

func genC04File(t *rapid.T, label string) C04File {
	var f C04File
	f.BlockSize = rapid.SampledFrom(c04BlockSizes).Draw(t, label+"bs")
	f.Name = rapid.StringMatching(`[a-z]{1,6}/[a-z0-9]{1,6}/[a-zA-Z0-9_.\-]{1,12}`).Draw(t, label+"name")
	f.Legacy = rapid.IntRange(0, 4).Draw(t, label+"legacy") == 0
	f.Treasure = rapid.IntRange(0, 2).Draw(t, label+"treasure") == 0
	nk := rapid.IntRange(1, 5).Draw(t, label+"nkeys")
	seen := map[string]bool{}
	for i := 0; i < nk; i++ {
		var k []byte
		switch rapid.IntRange(0, 5).Draw(t, label+"kclass") {
		case 0:
			k = rapid.SliceOfN(rapid.Byte(), 1, 16).Draw(t, label+"bkey")
		case 1:
			k = bytes.Repeat([]byte{'K'}, rapid.SampledFrom([]int{255, 256, 300, 1000}).Draw(t, label+"klen"))
			k[0] = byte('0' + i)
		default:
			k = []byte(rapid.StringMatching(`[a-z0-9/_\-]{1,10}`).Draw(t, label+"key"))
		}
		if f.Treasure {
			// treasure keys are text
			k = []byte(fmt.Sprintf("t%d-%x", i, k))
			if len(k) > 40 {
				k = k[:40]
			}
		}
		if seen[string(k)] {
			continue
		}
		seen[string(k)] = true
		f.Keys = append(f.Keys, k)
	}
	nops := rapid.IntRange(1, 24).Draw(t, label+"nops")
	budget := 192 << 10 // total uncompressed payload per source file
	for i := 0; i < nops; i++ {
		c := rapid.IntRange(0, 9).Draw(t, label+"opc")
		switch {
		case c < 6:
			var n int
			switch rapid.IntRange(0, 7).Draw(t, label+"dclass") {
			case 0:
				n = 0
			case 1:
				n = f.BlockSize + rapid.IntRange(-9, 9).Draw(t, label+"around")
			case 2:
				n = rapid.IntRange(1000, 40000).Draw(t, label+"big")
			default:
				n = rapid.IntRange(0, 120).Draw(t, label+"small")
			}
			if n < 0 {
				n = 0
			}
			if n > budget {
				n = budget
			}
			budget -= n
			f.Ops = append(f.Ops, C04Op{K: "put", Ins: rapid.Bool().Draw(t, label+"ins"), Key: rapid.IntRange(0, len(f.Keys)-1).Draw(t, label+"k"),
				D: DataSpec{Len: n, Seed: rapid.Byte().Draw(t, label+"seed"), Mode: uint8(rapid.IntRange(0, 2).Draw(t, label+"mode"))}})
		case c < 8:
			f.Ops = append(f.Ops, C04Op{K: "del", Key: rapid.IntRange(0, len(f.Keys)-1).Draw(t, label+"k")})
		default:
			f.Ops = append(f.Ops, C04Op{K: "flush"})
		}
	}
	return f
}

var c04MutKinds = []string{"trunc", "trunc", "flip", "flipdata", "flipdata", "blkhdr", "blkhdr", "blkhdr", "filehdr", "filehdr", "splice", "splice",
	"random", "insert", "cut", "recrc", "recrc", "recrc"}

func genC04Mut(t *rapid.T, label string) C04Mut {
	m := C04Mut{Kind: rapid.SampledFrom(c04MutKinds).Draw(t, label+"kind")}
	m.A = rapid.IntRange(0, 1<<20).Draw(t, label+"a")
	m.B = rapid.IntRange(0, 1<<16).Draw(t, label+"b")
	m.C = rapid.IntRange(0, 63).Draw(t, label+"c")
	m.V = rapid.Uint64().Draw(t, label+"v")
	switch m.Kind {
	case "flip", "flipdata", "recrc":
		m.P = rapid.SliceOfN(rapid.IntRange(0, 1<<24), 1, 8).Draw(t, label+"p")
	}
	switch m.Kind {
	case "random", "insert", "recrc":
		m.Bytes = rapid.SliceOfN(rapid.Byte(), 0, 160).Draw(t, label+"bytes")
	}
	return m
}

func genC04(t *rapid.T) C04Scenario {
	var s C04Scenario
	s.Files = append(s.Files, genC04File(t, "f0"))
	if rapid.IntRange(0, 2).Draw(t, "two") == 0 {
		s.Files = append(s.Files, genC04File(t, "f1"))
	}
	n := rapid.IntRange(1, 4).Draw(t, "nmut")
	for i := 0; i < n; i++ {
		s.Muts = append(s.Muts, genC04Mut(t, fmt.Sprintf("m%d", i)))
	}
	return s
}

const c04Rule = "valid .hyd files written by the real v2.FileWriter (or hand-built legacy V2) from generated put/del/flush histories " +
	"(block sizes 1B..16KiB, raw or serialised-treasure values), then 1-4 mutations: truncate, bit flips, block-header field " +
	"boundary values (CompressedSize 0/1/size±1/2^31/2^32-1/remaining, UncompressedSize, EntryCount, Checksum), file-header " +
	"Version/NameLength/BlockSize/EntryCount/BlockCount/magic, block splices of two files, random bytes, byte insertion/removal, and " +
	"checksum-recomputed payload/entry-stream edits; oracle on NewFileReader, LoadIndex, ReadAllBlocks, ScanBlockHeaders, " +
	"CalculateFragmentation, ReadSwampName, chronicler.Load: no panic, returns within 20 s, TotalAlloc delta <= 64 x file size + 4 MiB " +
	"(+32 MiB for chronicler.Load), and without error every returned record is in the write set of the source files " +
	"(not applied to checksum-recomputed cases); non-trivial = mutated file keeps a valid magic/version and differs from the original in the block area"

func TestC04Main(t *testing.T) {
	if pbt.Open("C04", c04WitnessCS) {
		pbt.Excluded("C04", "main", "block header whose CompressedSize exceeds the rest of the file by > 1 MiB is clamped to <= 64 KiB over (open finding "+c04WitnessCS+")")
	}
	if pbt.Open("C04", c04WitnessSnappy) {
		pbt.Excluded("C04", "main", "checksum-valid block whose Snappy preamble announces > 32 x its size gets an invalid checksum (open finding "+c04WitnessSnappy+")")
	}
	pbt.Main(t, pbt.Spec[C04Scenario]{
		ID: "C04", Facet: "main", Rule: c04Rule,
		Quick: 12000, Thorough: 600000,
		Gen: genC04, Run: runC04,
	})
	pbt.Extra("C04", "largest_allocation_within_bound", fmt.Sprintf("%d bytes by %s on a %d-byte file", c04MaxAlloc, c04MaxAllocAPI, c04MaxAllocSize))
	pbt.Flush()
}

// --- witnesses --------------------------------------------------------------

func TestC04WitnessForgedCompressedSize(t *testing.T) {
	gen := func(t *rapid.T) C04Scenario {
		var s C04Scenario
		s.Files = append(s.Files, genC04File(t, "f0"))
		// make sure there is at least one block
		s.Files[0].Ops = append([]C04Op{{K: "put", Key: 0, D: DataSpec{Len: 5, Seed: 1}}}, s.Files[0].Ops...)
		v := rapid.SampledFrom([]uint64{1 << 26, 1<<26 + 12345, 1 << 27, 1 << 28, 1 << 28, 1 << 31, 1<<32 - 1}).Draw(t, "cs")
		s.Muts = []C04Mut{
			{Kind: "blkhdr", A: rapid.IntRange(0, 64).Draw(t, "blk"), B: 0, C: 8, V: v},
			{Kind: "keep-trigger"},
		}
		return s
	}
	pbt.Witness(t, pbt.Spec[C04Scenario]{
		ID: "C04", Facet: "witness-forged-compressed-size",
		Rule:  "valid file, CompressedSize of one block header overwritten with 64 MiB..4 GiB-1",
		Quick: 10, Thorough: 60, Gen: gen, Run: runC04,
	}, c04WitnessCS, "alloc", "hang")
}

func TestC04WitnessForgedSnappyLength(t *testing.T) {
	// zeroing a recycled multi-GiB span costs seconds: the quick tier stays at <= 256 MiB
	sizes := []uint64{1 << 26, 1 << 27, 1 << 28}
	if pbt.GetEnv().Tier == "thorough" {
		sizes = append(sizes, 1<<31, 1<<32-1)
	}
	gen := func(t *rapid.T) C04Scenario {
		var s C04Scenario
		s.Files = append(s.Files, genC04File(t, "f0"))
		s.Files[0].Ops = append([]C04Op{{K: "put", Key: 0, D: DataSpec{Len: 5, Seed: 1}}}, s.Files[0].Ops...)
		s.Muts = []C04Mut{
			{Kind: "recrc", A: 0, B: rapid.IntRange(0, 64).Draw(t, "blk"), C: 4, V: rapid.SampledFrom(sizes).Draw(t, "announced"),
				Bytes: rapid.SliceOfN(rapid.Byte(), 0, 8).Draw(t, "tail")},
			{Kind: "keep-trigger"},
		}
		return s
	}
	pbt.Witness(t, pbt.Spec[C04Scenario]{
		ID: "C04", Facet: "witness-forged-snappy-length",
		Rule:  "valid file, one block replaced by a checksum-valid block whose Snappy preamble announces 64..256 MiB (thorough: up to 4 GiB-1)",
		Quick: 10, Thorough: 60, Gen: gen, Run: runC04,
	}, c04WitnessSnappy, "alloc", "hang")
}
