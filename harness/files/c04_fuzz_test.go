package files

import (
	"bufio"
	"bytes"
	"crypto/sha1"
	"encoding/binary"
	"fmt"
	"hash/crc32"
	"os"
	"os/exec"
	"path/filepath"
	"regexp"
	"strconv"
	"strings"
	"sync"
	"testing"

	"pgregory.net/rapid"

	"verifharness/internal/hydfmt"
	"verifharness/internal/pbt"
)

// Raw-byte facet of C04 and the native fuzz target. Both present an arbitrary
// byte string as a .hyd file. The membership oracle needs a write set: every
// seed is derived from a fixed family of valid files whose records are known,
// and a byte string is only held to it when every checksum-valid block payload
// in it occurs in one of those files (otherwise the input is a legitimately
// different file, CRC32 being no authentication).

type C04Raw struct {
	Data []byte `json:"data"`
}

type c04SeedSet struct {
	srcs     []*c04Built
	legacy   []bool
	payloads map[[20]byte]bool
	seeds    [][]byte
}

var (
	c04SeedOnce sync.Once
	c04SeedVal  *c04SeedSet
)

// c04FixedFiles is the fixed family of valid source files.
func c04FixedFiles() []C04File {
	k := func(xs ...string) [][]byte {
		var out [][]byte
		for _, x := range xs {
			out = append(out, []byte(x))
		}
		return out
	}
	put := func(key, n int, seed uint8, mode uint8) C04Op {
		return C04Op{K: "put", Key: key, D: DataSpec{Len: n, Seed: seed, Mode: mode}}
	}
	return []C04File{
		{BlockSize: 16384, Name: "users/profiles/alice", Keys: k("a", "b", "c"), Ops: []C04Op{put(0, 5, 1, 0), put(1, 40, 2, 1), {K: "del", Key: 0}, put(2, 0, 3, 0)}},
		{BlockSize: 1, Name: "s/r/manyblocks", Keys: k("k1", "k2", "k3", "k4"), Ops: []C04Op{put(0, 9, 4, 0), put(1, 9, 5, 0), put(0, 12, 6, 1), {K: "del", Key: 1}, put(2, 300, 7, 2), put(3, 1, 8, 0), put(1, 17, 9, 0)}},
		{BlockSize: 64, Name: "a/b/c", Keys: k("x", "yy"), Ops: []C04Op{put(0, 70, 10, 0), {K: "flush"}, put(1, 3000, 11, 1), put(0, 64, 12, 2), {K: "del", Key: 1}}},
		{BlockSize: 16384, Name: "legacy/v2/file", Legacy: true, Keys: k("l1", "l2"), Ops: []C04Op{put(0, 20, 13, 0), {K: "flush"}, put(1, 33, 14, 1), {K: "del", Key: 0}, {K: "flush"}, put(0, 7, 15, 0)}},
		{BlockSize: 300, Name: "t/r/treasures", Treasure: true, Keys: k("t0", "t1", "t2"), Ops: []C04Op{put(0, 10, 16, 0), put(1, 200, 17, 1), put(0, 11, 18, 0), {K: "del", Key: 1}, {K: "flush"}, put(2, 0, 19, 2)}},
		{BlockSize: 4096, Name: "", Keys: k("noname"), Ops: []C04Op{put(0, 100, 20, 0)}},
		{BlockSize: 16384, Name: "empty/file/noblocks", Keys: k("z"), Ops: nil},
	}
}

func c04Seeds() *c04SeedSet {
	c04SeedOnce.Do(func() {
		ss := &c04SeedSet{payloads: map[[20]byte]bool{}}
		dir := scratchDir()
		defer os.RemoveAll(dir)
		for i, f := range c04FixedFiles() {
			b, err := c04Build(dir, i, f)
			if err != nil {
				panic(err)
			}
			ss.srcs = append(ss.srcs, b)
			ss.legacy = append(ss.legacy, f.Legacy)
			ss.seeds = append(ss.seeds, b.raw)
			_, _, blocks, _, _, derr := hydfmt.DecodeFile(b.raw)
			if derr != nil {
				panic(derr)
			}
			for _, blk := range blocks {
				ss.payloads[sha1.Sum(b.raw[blk.Start+hydfmt.BlockHeaderSize:blk.End])] = true
			}
		}
		// hostile variants of the valid files (constants from the format's field widths)
		snappyOpen := pbt.Open("C04", c04WitnessSnappy)
		csOpen := pbt.Open("C04", c04WitnessCS)
		for _, b := range ss.srcs[:5] {
			one := []*c04Built{b}
			for c := 0; c < 17; c++ { // every constant of the compressed-size list, incl. the 32-bit wrap-around sizes
				if csOpen && (c == 4 || c == 5) {
					continue
				}
				x, _, _ := c04Apply(append([]byte(nil), b.raw...), C04Mut{Kind: "blkhdr", A: 0, B: 0, C: c, V: 1 << 20}, one)
				ss.seeds = append(ss.seeds, x)
			}
			for fld := 1; fld < 4; fld++ {
				for c := 0; c < 6; c++ {
					x, _, _ := c04Apply(append([]byte(nil), b.raw...), C04Mut{Kind: "blkhdr", A: 1, B: fld, C: c, V: 7}, one)
					ss.seeds = append(ss.seeds, x)
				}
			}
			for fld := 0; fld < 5; fld++ {
				for c := 0; c < 7; c++ {
					x, _, _ := c04Apply(append([]byte(nil), b.raw...), C04Mut{Kind: "filehdr", A: fld, C: c, V: 5}, one)
					ss.seeds = append(ss.seeds, x)
				}
			}
			ss.seeds = append(ss.seeds, b.raw[:len(b.raw)/2], b.raw[:hydfmt.HeaderSize], b.raw[:len(b.raw)-1])
			if !snappyOpen {
				for c := 0; c < 4; c++ {
					x, _, _ := c04Apply(append([]byte(nil), b.raw...), C04Mut{Kind: "recrc", A: 0, B: 0, C: c + 8*(c%3), V: 1 << 30, Bytes: []byte{0}}, one)
					ss.seeds = append(ss.seeds, x)
				}
			}
			for c := 0; c < 4; c++ {
				x, _, _ := c04Apply(append([]byte(nil), b.raw...), C04Mut{Kind: "recrc", A: 2, B: 0, C: c, V: uint64(c), P: []int{3}}, one)
				ss.seeds = append(ss.seeds, x)
			}
		}
		ss.seeds = append(ss.seeds, nil, []byte("HYDR"), bytes.Repeat([]byte{0xff}, 80))
		c04SeedVal = ss
	})
	return c04SeedVal
}

// c04RawTainted reports whether data holds a checksum-valid block payload that
// is not a payload of one of the fixed files.
func c04RawTainted(ss *c04SeedSet, data []byte) bool {
	// Scan every offset the reader could be steered to: a forged NameLength or
	// CompressedSize chain can start a block anywhere.
	for off := hydfmt.HeaderSize; off+hydfmt.BlockHeaderSize <= len(data); off++ {
		cs := int(binary.LittleEndian.Uint32(data[off:]))
		end := off + hydfmt.BlockHeaderSize + cs
		if cs < 0 || end > len(data) || end < off {
			continue
		}
		p := data[off+hydfmt.BlockHeaderSize : end]
		if crc32.ChecksumIEEE(p) != binary.LittleEndian.Uint32(data[off+10:]) {
			continue
		}
		if !ss.payloads[sha1.Sum(p)] {
			return true
		}
	}
	return false
}

func runC04Raw(s C04Raw) pbt.Outcome {
	if len(s.Data) > 1<<20 {
		return pbt.Outcome{Skip: true}
	}
	ss := c04Seeds()
	buf := append([]byte(nil), s.Data...)
	v := &c04Verdict{classes: map[string]bool{}}
	if pbt.Open("C04", c04WitnessCS) {
		buf, _ = repairForgedCS(buf)
	}
	tainted := c04RawTainted(ss, buf)
	if tainted {
		v.class("checksum-valid-foreign-block")
		if pbt.Open("C04", c04WitnessSnappy) {
			buf, _ = repairForgedSnappy(buf)
		}
	}
	dir := scratchDir()
	defer os.RemoveAll(dir)
	valid, _, _ := readerView(buf)
	return c04Oracle(dir, buf, ss.srcs, ss.legacy, tainted, false, false, v, valid)
}

func genC04Raw(t *rapid.T) C04Raw {
	ss := c04Seeds()
	buf := append([]byte(nil), rapid.SampledFrom(ss.seeds).Draw(t, "seed")...)
	n := rapid.IntRange(0, 6).Draw(t, "nhavoc")
	for i := 0; i < n; i++ {
		switch rapid.IntRange(0, 5).Draw(t, "havoc") {
		case 0:
			if len(buf) > 0 {
				buf[rapid.IntRange(0, len(buf)-1).Draw(t, "at")] = rapid.Byte().Draw(t, "b")
			}
		case 1:
			if len(buf) > 0 {
				p := rapid.IntRange(0, len(buf)*8-1).Draw(t, "bit")
				buf[p/8] ^= 1 << (p % 8)
			}
		case 2:
			buf = buf[:rapid.IntRange(0, len(buf)).Draw(t, "cut")]
		case 3:
			at := rapid.IntRange(0, len(buf)).Draw(t, "at")
			ins := rapid.SliceOfN(rapid.Byte(), 1, 24).Draw(t, "ins")
			buf = append(append(append([]byte(nil), buf[:at]...), ins...), buf[at:]...)
		case 4:
			if len(buf) >= 4 {
				at := rapid.IntRange(0, len(buf)-4).Draw(t, "at")
				binary.LittleEndian.PutUint32(buf[at:], rapid.SampledFrom([]uint32{0, 1, 0x7fffffff, 0x80000000, 0xffffffff, 0xffff, 0x10000,
					0xfffffff0, 0xffffffef, 0xfffffff1, 0xffffffc0, uint32(0) - uint32(at), uint32(0) - uint32(at) - 16}).Draw(t, "u32"))
			}
		default:
			o := rapid.SampledFrom(ss.seeds).Draw(t, "other")
			if len(o) > 0 {
				from := rapid.IntRange(0, len(o)-1).Draw(t, "from")
				buf = append(buf, o[from:]...)
			}
		}
	}
	return C04Raw{Data: buf}
}

const c04RawRule = "byte strings derived from a fixed family of 7 valid files and ~300 hostile variants (block/file header boundary values, " +
	"truncations, checksum-recomputed entry-stream edits) by byte-level havoc; thorough tier adds the native fuzzer (FuzzC04HydFile) on the same " +
	"seeds; oracle as in the main facet, membership against the family's write set unless the input carries a checksum-valid block payload " +
	"foreign to the family; non-trivial = header accepted by the reader"

func TestC04RawBytes(t *testing.T) {
	if os.Getenv("VERIF_C04_FUZZ_ONLY") == "" { // debugging knob: go straight to the native fuzzer
		pbt.Main(t, pbt.Spec[C04Raw]{
			ID: "C04", Facet: "raw-bytes", Rule: c04RawRule,
			Quick: 3000, Thorough: 100000,
			Gen: genC04Raw, Run: runC04Raw,
		})
	}
	e := pbt.GetEnv()
	if e.Tier != "thorough" || e.Shard != 0 || e.Replay != "" || t.Failed() {
		return
	}
	c04NativeFuzz(t, e)
	pbt.Flush()
}

// FuzzC04HydFile is the native fuzz target (run by TestC04RawBytes in the
// thorough tier as a child process; never part of the quick tier).
func FuzzC04HydFile(f *testing.F) {
	for _, s := range c04Seeds().seeds {
		f.Add(s)
	}
	f.Fuzz(func(t *testing.T, data []byte) {
		o := runC04Raw(C04Raw{Data: data})
		if o.Fail != "" {
			t.Fatalf("[%s] %s", o.Shape, o.Fail)
		}
	})
}

var (
	c04ExecsRe   = regexp.MustCompile(`execs: (\d+)`)
	c04SeedIdxRe = regexp.MustCompile(`FuzzC04HydFile/seed#(\d+)`)
)

func c04NativeFuzz(t *testing.T, e pbt.Env) {
	bin := os.Getenv("VERIF_BIN")
	if bin == "" {
		bin = os.Args[0]
	}
	if p, err := filepath.Abs(bin); err == nil {
		bin = p
	}
	secs := int(180 * e.Scale)
	if secs < 10 {
		secs = 10
	}
	if secs > 180 {
		secs = 180
	}
	dir := scratchDir()
	defer os.RemoveAll(dir)
	cmd := exec.Command(bin, "-test.run=^$", "-test.fuzz=^FuzzC04HydFile$", fmt.Sprintf("-test.fuzztime=%ds", secs),
		"-test.fuzzcachedir="+filepath.Join(dir, "cache"), "-test.parallel=8", fmt.Sprintf("-test.timeout=%ds", secs+300))
	cmd.Dir = dir
	cmd.Env = append(os.Environ(), "VERIF_STATS_OUT=", "VERIF_REPLAY=")
	out, err := cmd.CombinedOutput()
	execs := 0
	for _, m := range c04ExecsRe.FindAllSubmatch(out, -1) {
		if n, _ := strconv.Atoi(string(m[1])); n > execs {
			execs = n
		}
	}
	pbt.Extra("C04", "native_fuzz_execs", execs)
	pbt.Extra("C04", "native_fuzz_seconds", secs)
	pbt.RecordCase("C04", "native-fuzz", "go native fuzzing of FuzzC04HydFile for a bounded time on the raw-bytes seeds (evaluations counted in extra.native_fuzz_execs)",
		fmt.Sprintf("fuzz-%d", execs), execs > 0, map[string]any{"execs": execs, "seconds": secs}, "native-fuzz-run")
	if err == nil {
		return
	}
	// a crasher was written to testdata/fuzz/FuzzC04HydFile/<hash> under dir
	files, _ := filepath.Glob(filepath.Join(dir, "testdata", "fuzz", "FuzzC04HydFile", "*"))
	tail := string(out)
	if len(tail) > 1500 {
		tail = tail[len(tail)-1500:]
	}
	var inputs [][]byte
	for _, fp := range files {
		if data, perr := parseGoFuzzCorpusFile(fp); perr == nil {
			inputs = append(inputs, data)
		}
	}
	// a failing f.Add seed is not written to testdata; it is named by index
	if m := c04SeedIdxRe.FindSubmatch(out); m != nil {
		if i, _ := strconv.Atoi(string(m[1])); i < len(c04Seeds().seeds) {
			inputs = append(inputs, c04Seeds().seeds[i])
		}
	}
	if len(inputs) == 0 {
		// the fuzz child failed without leaving an input (killed, out of time, worker crash under load):
		// nothing can be replayed, so this is inconclusive for the campaign, never a violation
		pbt.Counter("C04", "native_fuzz_child_failed_without_input", 1)
		pbt.Note("C04", "native fuzzing child failed without a saved input (inconclusive): %s", tail)
		return
	}
	for _, data := range inputs {
		// the saved input is the reproducible unit: it only counts if it fails again in-process
		// (the child's watchdog / allocation measurements are load sensitive)
		o := runC04Raw(C04Raw{Data: data})
		if o.Fail == "" {
			o = runC04Raw(C04Raw{Data: data})
		}
		if o.Fail == "" {
			pbt.Counter("C04", "native_fuzz_failure_not_reproduced", 1)
			pbt.Note("C04", "native fuzzing reported a failure that did not reproduce in-process (ignored): %s", tail)
			continue
		}
		rp := pbt.WriteReplayJSON("C04", "raw-bytes", C04Raw{Data: data})
		pbt.ReportViolation("C04", "raw-bytes", rp, o.Shape, o.Fail)
		t.Errorf("native fuzzing found a failing input (%s): %s", rp, o.Fail)
		return
	}
}

// parseGoFuzzCorpusFile reads a "go test fuzz v1" corpus file holding one []byte value.
func parseGoFuzzCorpusFile(path string) ([]byte, error) {
	f, err := os.Open(path)
	if err != nil {
		return nil, err
	}
	defer f.Close()
	sc := bufio.NewScanner(f)
	sc.Buffer(make([]byte, 1<<20), 64<<20)
	for sc.Scan() {
		ln := strings.TrimSpace(sc.Text())
		if strings.HasPrefix(ln, "[]byte(") && strings.HasSuffix(ln, ")") {
			q := ln[len("[]byte(") : len(ln)-1]
			s, err := strconv.Unquote(q)
			if err != nil {
				return nil, err
			}
			return []byte(s), nil
		}
	}
	return nil, fmt.Errorf("no []byte value in %s", path)
}
