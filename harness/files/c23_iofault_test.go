//go:build verifvfs

package files

import (
	"fmt"
	"os"
	"path/filepath"
	"strings"
	"testing"
	"time"

	v2 "github.com/hydraide/hydraide/app/core/hydra/swamp/chronicler/v2"
	"github.com/hydraide/hydraide/app/core/hydra/swamp/chronicler/v2/migrator"
	"github.com/hydraide/hydraide/app/name"
	"github.com/hydraide/hydraide/app/verifshim/vfs"
	"pgregory.net/rapid"

	"verifharness/internal/pbt"
)

// C23, I/O-fault unit — built with the vfs overlay (the migrator's and the v2
// writer's os calls are intercepted). A legacy root is produced by the real V1
// chronicler, migrated once without faults to record the migration's own file
// operations, restored, and migrated again while one or two of those
// operations fail (ENOSPC/EIO) or a write stores only a prefix; the faults are
// one-shot. Afterwards every swamp's records must be loadable from somewhere.

type IOFaultSpec struct {
	Pos   uint16 `json:"pos"`   // which faultable operation of the fault-free run (mod their number)
	Short uint16 `json:"short"` // 0 = fail without effect; else a write stores (Short mod len) bytes first
	Hyd   bool   `json:"hyd"`   // restrict the choice to operations on a .hyd file
}

type C23IOScenario struct {
	Swamps    []C23Swamp      `json:"swamps"`
	Verify    bool            `json:"verify,omitempty"`
	DeleteOld bool            `json:"delete_old,omitempty"`
	Parallel  int             `json:"parallel"`
	Plans     [][]IOFaultSpec `json:"plans"`
}

func ioFaultable(o vfs.Op) bool {
	switch o.Kind {
	case "create", "open", "write", "sync", "rename", "remove", "truncate":
		return true
	}
	return false
}

type c23IOSwamp struct {
	name, folder, hyd string
	before            map[string]string
	ref               map[string]string
	accept            map[string]map[string]bool
}

func runC23IO(s C23IOScenario) pbt.Outcome {
	base := scratchDir()
	defer os.RemoveAll(base)
	root := filepath.Join(base, "data")
	pristine := filepath.Join(base, "pristine")
	os.MkdirAll(root, 0o755)
	classes := map[string]bool{}
	var sws []*c23IOSwamp
	seen := map[string]bool{}
	for _, sw := range s.Swamps {
		full := sw.Name.String()
		if seen[full] {
			continue
		}
		seen[full] = true
		nm := name.New().Sanctuary(sw.Name.S).Realm(sw.Name.R).Swamp(sw.Name.swampPart())
		folder, ok := hashPath(root, sw.Name, sw.Island, c23Depth, 256)
		if !ok {
			return pbt.Outcome{Skip: true}
		}
		var cnt c23Counts
		v1 := openV1(folder, nm, int64(sw.MaxChunk), false)
		for _, b := range sw.Batches {
			v1.applyBatch(b, &cnt)
			if b.Reopen {
				v1.close()
				v1 = openV1(folder, nm, int64(sw.MaxChunk), true)
			}
		}
		v1.close()
		if _, err := os.Stat(folder); err != nil {
			continue
		}
		sws = append(sws, &c23IOSwamp{name: full, folder: folder, hyd: folder + ".hyd"})
	}
	if len(sws) == 0 {
		return pbt.Outcome{Skip: true}
	}
	if err := copyTree(root, pristine); err != nil {
		return pbt.Outcome{Skip: true}
	}
	for _, sw := range sws {
		rel, _ := filepath.Rel(root, sw.folder)
		sw.before = snapshot(sw.folder)
		sw.ref, sw.accept = v1Reference(filepath.Join(pristine, rel))
	}
	restore := func() bool {
		os.RemoveAll(root)
		return copyTree(pristine, root) == nil
	}
	cfg := migrator.Config{DataPath: root, Verify: s.Verify, DeleteOld: s.DeleteOld, Parallel: s.Parallel}
	migrate := func(faults map[int]vfs.Fault) (*migrator.Result, []vfs.Op, *pbt.Outcome) {
		m, err := migrator.New(cfg)
		if err != nil {
			o := pbt.Failf("migrator-error", "migrator.New: %v", err)
			return nil, nil, &o
		}
		var res *migrator.Result
		var rerr error
		vfs.Start(root, faults)
		cr := guardedCall(120*time.Second, func() { res, rerr = m.Run() })
		ops, _ := vfs.Stop()
		switch {
		case cr.Hung:
			o := pbt.Failf("hang", "migrator.Run did not return within 120 s")
			return nil, ops, &o
		case cr.Panic != "":
			o := pbt.Failf("panic", "migrator.Run panicked: %s", cr.Panic)
			return nil, ops, &o
		case rerr != nil:
			o := pbt.Failf("migrator-error", "migrator.Run: %v", rerr)
			return nil, ops, &o
		}
		return res, ops, nil
	}

	// hydGood: a .hyd exists that loads to exactly the legacy records (and keeps the name)
	hydGood := func(sw *c23IOSwamp) (bool, string) {
		st, err := os.Lstat(sw.hyd)
		if err != nil || st.IsDir() {
			return false, "there is no .hyd file"
		}
		got := v2Load(sw.folder, sw.name)
		for _, k := range sortedKeys(sw.ref) {
			g, ok := got[k]
			if !ok {
				return false, fmt.Sprintf("key %s is missing from the .hyd (V1 %d records, .hyd %d)", shortStr(k), len(sw.ref), len(got))
			}
			if g != sw.ref[k] && !(len(sw.accept[k]) > 1 && sw.accept[k][g]) {
				return false, fmt.Sprintf("key %s differs: V1 %s / V2 %s", shortStr(k), clip(sw.ref[k]), clip(g))
			}
		}
		for _, k := range sortedKeys(got) {
			if _, ok := sw.ref[k]; !ok {
				return false, fmt.Sprintf("key %s is in the .hyd but V1 does not load it", shortStr(k))
			}
		}
		if nm, err := v2.ReadSwampName(sw.hyd); err != nil || nm != sw.name {
			return false, fmt.Sprintf("ReadSwampName = %s, %v", shortStr(nm), err)
		}
		return true, ""
	}

	// 1. fault-free run: records the migration's own operations
	res, dry, fo := migrate(nil)
	if fo != nil {
		return *fo
	}
	if len(dry) == 0 {
		for _, sw := range sws {
			if len(sw.ref) > 0 {
				return pbt.Failf("harness", "no file operation was recorded although records were migrated — build with -tags verif,verifvfs and the vfs overlay")
			}
		}
		return pbt.Outcome{Skip: true}
	}
	if len(res.FailedSwamps) > 0 {
		return pbt.Failf("migration-failed", "fault-free migration failed: %s %s", res.FailedSwamps[0].Phase, res.FailedSwamps[0].Error)
	}
	var all, onHyd []int
	for i, o := range dry {
		if ioFaultable(o) {
			all = append(all, i)
			if strings.HasSuffix(o.Path, ".hyd") {
				onHyd = append(onHyd, i)
			}
		}
	}
	if len(all) == 0 {
		return pbt.Outcome{Skip: true}
	}

	firedOnHyd := false
	for pi, plan := range s.Plans {
		if !restore() {
			return pbt.Outcome{Skip: true}
		}
		faults := map[int]vfs.Fault{}
		for _, f := range plan {
			cand := all
			if f.Hyd && len(onHyd) > 0 {
				cand = onHyd
			}
			i := cand[int(f.Pos)%len(cand)]
			flt := vfs.Fault{}
			if f.Short > 0 && dry[i].Kind == "write" && len(dry[i].Data) > 1 {
				flt.Short = 1 + int(f.Short)%(len(dry[i].Data)-1)
			}
			faults[i] = flt
		}
		res, ops, fo := migrate(faults)
		if fo != nil {
			return *fo
		}
		var firedDesc []string
		for i, o := range ops {
			if o.Failed {
				firedDesc = append(firedDesc, fmt.Sprintf("op %d %s %s (%d bytes stored)", i, o.Kind, filepath.Base(o.Path), len(o.Data)))
				classes["fault-on-"+o.Kind] = true
				if strings.HasSuffix(o.Path, ".hyd") {
					firedOnHyd = true
					classes["fault-on-hyd-file"] = true
				} else {
					classes["fault-on-legacy-file"] = true
				}
			}
		}
		if len(firedDesc) == 0 {
			classes["plan-without-fired-fault"] = true
		}
		failed := map[string]string{}
		for _, f := range res.FailedSwamps {
			failed[f.Path] = f.Phase + ": " + f.Error
		}
		if int(res.SuccessfulSwamps)+len(res.FailedSwamps) != int(res.TotalSwamps) || int(res.TotalSwamps) != len(sws) {
			return pbt.Failf("counters", "plan %d: result counters inconsistent: total %d successful %d failed %d, %d legacy folders", pi,
				res.TotalSwamps, res.SuccessfulSwamps, len(res.FailedSwamps), len(sws))
		}
		for _, sw := range sws {
			tag := fmt.Sprintf("plan %d (faults: %s; verify=%v deleteold=%v parallel=%d) swamp %s", pi, strings.Join(firedDesc, ", "), s.Verify, s.DeleteOld, s.Parallel, shortStr(sw.name))
			why, isFailed := failed[sw.folder]
			legacyDiff := diffSnapshots(sw.before, snapshot(sw.folder))
			good, whyNot := true, ""
			if len(sw.ref) > 0 {
				good, whyNot = hydGood(sw)
			}
			switch {
			case isFailed:
				classes["reported-failed"] = true
				if legacyDiff != "" {
					return pbt.Failf("legacy-damaged", "%s: reported as failed (%s) but the legacy folder is not intact: %s", tag, why, legacyDiff)
				}
			default:
				classes["reported-successful"] = true
				if !good {
					if legacyDiff != "" {
						return pbt.Failf("data-lost", "%s: counted as successfully migrated, but %s, and the legacy folder is damaged too (%s): the records exist in neither format",
							tag, whyNot, legacyDiff)
					}
					return pbt.Failf("false-success", "%s: counted as successfully migrated, but %s", tag, whyNot)
				}
				if !s.DeleteOld && legacyDiff != "" {
					return pbt.Failf("legacy-damaged", "%s: the legacy folder changed although DeleteOld was not requested: %s", tag, legacyDiff)
				}
			}
			if !good && legacyDiff != "" {
				return pbt.Failf("data-lost", "%s: neither the legacy folder (%s) nor a .hyd (%s) holds the records", tag, legacyDiff, whyNot)
			}
		}
	}
	out := pbt.Outcome{NonTrivial: firedOnHyd}
	if s.Verify {
		classes["verify-on"] = true
	}
	if s.DeleteOld {
		classes["delete-old-on"] = true
	}
	for _, c := range sortedKeys(classes) {
		out.Classes = append(out.Classes, c)
	}
	return out
}

func genC23IO(t *rapid.T) C23IOScenario {
	s := C23IOScenario{
		Verify:    rapid.Bool().Draw(t, "verify"),
		DeleteOld: rapid.IntRange(0, 2).Draw(t, "deleteold") != 0,
		Parallel:  rapid.IntRange(1, 4).Draw(t, "parallel"),
	}
	n := rapid.IntRange(1, 3).Draw(t, "nswamps")
	for i := 0; i < n; i++ {
		s.Swamps = append(s.Swamps, genC23Swamp(t, fmt.Sprintf("s%d", i), false))
	}
	np := rapid.IntRange(2, 5).Draw(t, "nplans")
	for i := 0; i < np; i++ {
		nf := 1
		if rapid.IntRange(0, 3).Draw(t, fmt.Sprintf("p%ddouble", i)) == 0 {
			nf = 2
		}
		var p []IOFaultSpec
		for j := 0; j < nf; j++ {
			f := IOFaultSpec{Pos: rapid.Uint16().Draw(t, fmt.Sprintf("p%df%dpos", i, j)), Hyd: rapid.IntRange(0, 3).Draw(t, fmt.Sprintf("p%df%dhyd", i, j)) != 0}
			if rapid.IntRange(0, 2).Draw(t, fmt.Sprintf("p%df%dshort", i, j)) == 0 {
				f.Short = 1 + rapid.Uint16Max(20000).Draw(t, fmt.Sprintf("p%df%dn", i, j))
			}
			p = append(p, f)
		}
		s.Plans = append(s.Plans, p)
	}
	return s
}

func TestC23IOFault(t *testing.T) {
	pbt.Main(t, pbt.Spec[C23IOScenario]{
		ID: "C23", Facet: "io-fault",
		Rule: "1-3 legacy swamps from the real V1 chronicler (main generator), migrator options Verify/DeleteOld/Parallel 1-4 generated; a fault-free run " +
			"records the migration's own file operations (create, write, sync, remove ... through the vfs shim), the root is restored and migrated again " +
			"under 2-5 plans of one or two one-shot faults (error, or short write) at generated operations (3/4 on the .hyd file); oracle: a swamp reported " +
			"as failed keeps its legacy folder byte-identical; a swamp counted successful has a .hyd that loads to exactly the legacy records with the name " +
			"preserved (and an untouched legacy folder unless DeleteOld); never neither; counters add up; non-trivial = a fault fired on a .hyd operation",
		Quick: 250, Thorough: 8000,
		Gen: genC23IO, Run: runC23IO,
	})
}
