package sdkapi

import (
	"context"
	"encoding/json"
	"errors"
	"fmt"
	"io"
	"reflect"
	"sort"
	"strings"
	"sync"
	"time"

	hydrapb "github.com/hydraide/hydraide/sdk/go/hydraidego/v3/hydraidepbgo"
	"google.golang.org/grpc"
	"google.golang.org/grpc/codes"
	"google.golang.org/grpc/metadata"
	"google.golang.org/grpc/status"
	"google.golang.org/protobuf/proto"
	"google.golang.org/protobuf/reflect/protoreflect"
	"google.golang.org/protobuf/reflect/protoregistry"
	"google.golang.org/protobuf/types/known/timestamppb"

	"github.com/hydraide/hydraide/app/name"

	"verifharness/internal/pbt"
	"verifharness/internal/rig"
)

const (
	c26IslandAuto = uint64(0xC26C26C26) // placeholder: Run fills in the canonical island of the sibling SwampName
	c26Watchdog   = 10 * time.Second
)

func protoregistryFind(n protoreflect.FullName) (protoreflect.MessageType, error) {
	return protoregistry.GlobalTypes.FindMessageByName(n)
}

// C26Step is one request of a scenario.
type C26Step struct {
	RPC        string   `json:"rpc"`
	Req        []byte   `json:"req"`   // proto.Marshal of the request (case token not yet substituted)
	Route      string   `json:"route"` // direct | grpc
	EmptyAsNil bool     `json:"empty_as_nil,omitempty"`
	Desc       string   `json:"desc,omitempty"` // protojson, informational only
	Marks      []string `json:"marks,omitempty"`
}

type C26Scenario struct {
	Target  string    `json:"target"` // victim | fresh | sentinel
	Prefill bool      `json:"prefill"`
	Steps   []C26Step `json:"steps"`
}

// ---------------------------------------------------------------------------
// environment shared by the cases of one test function

type c26Env struct {
	r        *rig.Rig
	cli      hydrapb.HydraideServiceClient
	caseNo   int
	poisoned bool
	sentinel []*hydrapb.Treasure // expected contents, sorted by key
	ms       c26Methods
	tap      *panicTap
	watchdog time.Duration
	keep     bool       // batch mode: do not destroy the case's swamps
	allRefs  []swampRef // batch mode: every comparable swamp touched so far
}

var c26Patterns = []rig.Pattern{
	{Pattern: "sentinel/data/*", CloseAfterIdleSec: 600, WriteIntervalSec: 1},
	{Pattern: "c26/*/*", CloseAfterIdleSec: 600, WriteIntervalSec: 1},
}

func sptr(s string) *string { return &s }

func c26SentinelKVs() []*hydrapb.KeyValuePair {
	i64 := int64(-42)
	u8 := uint32(200)
	f := 2.5
	bt := hydrapb.Boolean_TRUE
	i8 := int32(-7)
	return []*hydrapb.KeyValuePair{
		{Key: "s-bytes", BytesVal: append([]byte{}, c26Body...), CreatedAt: timestamppb.New(time.Unix(1000000000, 5)), CreatedBy: sptr("creator")},
		{Key: "s-str", StringVal: sptr("hello"), UpdatedAt: timestamppb.New(time.Unix(1100000000, 0)), UpdatedBy: sptr("upd")},
		{Key: "s-i64", Int64Val: &i64, ExpiredAt: timestamppb.New(time.Unix(4000000000, 0))},
		{Key: "s-u8", Uint8Val: &u8, ExpiredAt: timestamppb.New(time.Unix(1000000001, 0))},
		{Key: "s-f64", Float64Val: &f},
		{Key: "s-bool", BoolVal: &bt},
		{Key: "s-i8", Int8Val: &i8},
		{Key: "s-slice", Uint32Slice: []uint32{3, 1, 2}},
		{Key: "s-vec", BytesVal: append([]byte{}, c26VecBody...)},
		{Key: "s-long-" + strings.Repeat("k", 300), StringVal: sptr("long")},
	}
}

func kvToTreasure(kv *hydrapb.KeyValuePair) *hydrapb.Treasure {
	return &hydrapb.Treasure{Key: kv.Key, IsExist: true, Int8Val: kv.Int8Val, Int16Val: kv.Int16Val, Int32Val: kv.Int32Val, Int64Val: kv.Int64Val,
		Uint8Val: kv.Uint8Val, Uint16Val: kv.Uint16Val, Uint32Val: kv.Uint32Val, Uint64Val: kv.Uint64Val, Float32Val: kv.Float32Val, Float64Val: kv.Float64Val,
		StringVal: kv.StringVal, BoolVal: kv.BoolVal, BytesVal: kv.BytesVal, Uint32Slice: kv.Uint32Slice,
		CreatedAt: kv.CreatedAt, CreatedBy: kv.CreatedBy, UpdatedAt: kv.UpdatedAt, UpdatedBy: kv.UpdatedBy, ExpiredAt: kv.ExpiredAt}
}

func newC26Env(root string) (*c26Env, error) { return newC26EnvAt(root, root == "") }

// newC26EnvAt starts a rig on root ("" = new temp dir); fresh = write the sentinel swamp.
func newC26EnvAt(root string, fresh bool) (*c26Env, error) {
	e := &c26Env{ms: c26AllMethods(), watchdog: c26Watchdog}
	e.r = rig.New(rig.Options{Root: root, Patterns: c26Patterns})
	e.tap = installPanicTap()
	e.cli = e.r.Serve()
	kvs := c26SentinelKVs()
	for _, kv := range kvs {
		e.sentinel = append(e.sentinel, kvToTreasure(kv))
	}
	sort.Slice(e.sentinel, func(i, j int) bool { return e.sentinel[i].Key < e.sentinel[j].Key })
	if fresh {
		resp, err := e.r.G.Set(context.Background(), &hydrapb.SetRequest{Swamps: []*hydrapb.SwampRequest{{IslandID: rig.Island(c26Sentinel), SwampName: c26Sentinel,
			CreateIfNotExist: true, Overwrite: true, KeyValues: kvs}}})
		if err != nil || resp == nil {
			return e, fmt.Errorf("cannot write the sentinel swamp: %v", err)
		}
		if !e.closeSwamp(c26Sentinel) {
			return e, errors.New("cannot close the sentinel swamp")
		}
	}
	return e, nil
}

func (e *c26Env) abandon() {
	if e == nil || e.r == nil {
		return
	}
	e.r.Stop(time.Second)
	e.r.Cleanup()
}

// closeSwamp = rig.CloseSwamp under a watchdog. Returns false when the close hung.
func (e *c26Env) closeSwamp(n string) bool {
	done := make(chan struct{})
	go func() {
		defer close(done)
		defer func() { recover() }()
		e.r.CloseSwamp(n)
	}()
	select {
	case <-done:
		return true
	case <-time.After(pbt.Bound(e.watchdog)):
		return false
	}
}

// ---------------------------------------------------------------------------
// message surgery

// walkStrings calls f for every string (singular / repeated) in the message tree and stores the result.
func walkStrings(m protoreflect.Message, f func(fd protoreflect.FieldDescriptor, s string) string) {
	m.Range(func(fd protoreflect.FieldDescriptor, v protoreflect.Value) bool {
		switch {
		case fd.IsMap():
		case fd.IsList():
			l := v.List()
			for i := 0; i < l.Len(); i++ {
				if fd.Kind() == protoreflect.StringKind {
					l.Set(i, protoreflect.ValueOfString(f(fd, l.Get(i).String())))
				} else if fd.Kind() == protoreflect.MessageKind {
					walkStrings(l.Get(i).Message(), f)
				}
			}
		case fd.Kind() == protoreflect.StringKind:
			m.Set(fd, protoreflect.ValueOfString(f(fd, v.String())))
		case fd.Kind() == protoreflect.MessageKind:
			walkStrings(v.Message(), f)
		}
		return true
	})
}

type swampRef struct {
	Island uint64
	Name   string // canonical 3-part form
	Canon  bool   // Island is the canonical island of Name
}

func canonName(s string) (string, bool) {
	p := strings.Split(s, "/")
	if len(p) < 3 {
		return "", false
	}
	return p[0] + "/" + p[1] + "/" + p[2], true
}

// fixIslands replaces the island placeholder by the canonical island of the
// sibling SwampName and collects the swamps the message refers to.
func fixIslands(m protoreflect.Message, refs *[]swampRef) {
	fs := m.Descriptor().Fields()
	nameFD, islFD := fs.ByName("SwampName"), fs.ByName("IslandID")
	if nameFD != nil && nameFD.Kind() == protoreflect.StringKind && !nameFD.IsList() {
		n := m.Get(nameFD).String()
		cn, ok := canonName(n)
		var isl uint64 = 1
		if ok {
			isl = rig.Island(cn)
		}
		used := isl
		if islFD != nil {
			if m.Get(islFD).Uint() == c26IslandAuto {
				m.Set(islFD, protoreflect.ValueOfUint64(isl))
			} else {
				used = m.Get(islFD).Uint()
			}
		}
		if ok {
			*refs = append(*refs, swampRef{Island: used, Name: cn, Canon: used == isl})
		}
	}
	m.Range(func(fd protoreflect.FieldDescriptor, v protoreflect.Value) bool {
		if fd.Kind() != protoreflect.MessageKind || fd.IsMap() {
			return true
		}
		if fd.IsList() {
			l := v.List()
			for i := 0; i < l.Len(); i++ {
				fixIslands(l.Get(i).Message(), refs)
			}
			return true
		}
		fixIslands(v.Message(), refs)
		return true
	})
}

func describe(m proto.Message) string {
	if m == nil || !m.ProtoReflect().IsValid() {
		return "<nil>"
	}
	o, _ := json.Marshal(msgToAny(m.ProtoReflect()))
	s := string(o)
	if len(s) > 900 {
		s = s[:900] + "…"
	}
	return s
}

func shortStr(x string) string {
	if len(x) > 48 {
		return fmt.Sprintf("%s…(%d bytes)", x[:20], len(x))
	}
	return x
}

func scalarToAny(fd protoreflect.FieldDescriptor, v protoreflect.Value) any {
	switch fd.Kind() {
	case protoreflect.MessageKind, protoreflect.GroupKind:
		return msgToAny(v.Message())
	case protoreflect.StringKind:
		return shortStr(v.String())
	case protoreflect.BytesKind:
		b := v.Bytes()
		if len(b) > 24 {
			return fmt.Sprintf("0x%x…(%d bytes)", b[:16], len(b))
		}
		return fmt.Sprintf("0x%x", b)
	case protoreflect.EnumKind:
		if ev := fd.Enum().Values().ByNumber(v.Enum()); ev != nil {
			return string(ev.Name())
		}
		return fmt.Sprintf("enum(%d)", v.Enum())
	case protoreflect.FloatKind, protoreflect.DoubleKind:
		return fmt.Sprint(v.Float())
	case protoreflect.Uint64Kind, protoreflect.Fixed64Kind:
		return fmt.Sprint(v.Uint())
	}
	return v.Interface()
}

// msgToAny renders a message as a JSON-able tree (long strings and lists are shortened; no validation).
func msgToAny(m protoreflect.Message) any {
	if m.Descriptor().FullName() == "google.protobuf.Timestamp" {
		fs := m.Descriptor().Fields()
		return fmt.Sprintf("ts(%d,%d)", m.Get(fs.ByName("seconds")).Int(), m.Get(fs.ByName("nanos")).Int())
	}
	out := map[string]any{}
	m.Range(func(fd protoreflect.FieldDescriptor, v protoreflect.Value) bool {
		n := string(fd.Name())
		switch {
		case fd.IsMap():
			out[n] = "<map>"
		case fd.IsList():
			l := v.List()
			var arr []any
			for i := 0; i < l.Len() && i < 5; i++ {
				arr = append(arr, scalarToAny(fd, l.Get(i)))
			}
			if l.Len() > 5 {
				arr = append(arr, fmt.Sprintf("…(%d elements)", l.Len()))
			}
			out[n] = arr
		default:
			out[n] = scalarToAny(fd, v)
		}
		return true
	})
	return out
}

// ---------------------------------------------------------------------------
// fake server streams for the in-process route

type fakeStream struct {
	ctx context.Context
	mu  sync.Mutex
	n   int
}

func (f *fakeStream) SetHeader(metadata.MD) error  { return nil }
func (f *fakeStream) SendHeader(metadata.MD) error { return nil }
func (f *fakeStream) SetTrailer(metadata.MD)       {}
func (f *fakeStream) Context() context.Context     { return f.ctx }
func (f *fakeStream) SendMsg(m any) error          { f.mu.Lock(); f.n++; f.mu.Unlock(); return nil }
func (f *fakeStream) RecvMsg(m any) error          { return io.EOF }
func (f *fakeStream) count() int                   { f.mu.Lock(); defer f.mu.Unlock(); return f.n }

type fakeSS[T any] struct{ *fakeStream }

func (f fakeSS[T]) Send(*T) error { f.mu.Lock(); f.n++; f.mu.Unlock(); return nil }

type fakeBidi struct {
	*fakeStream
	in []*hydrapb.DestroyBulkRequest
}

func (f *fakeBidi) Recv() (*hydrapb.DestroyBulkRequest, error) {
	f.mu.Lock()
	defer f.mu.Unlock()
	if len(f.in) == 0 {
		return nil, io.EOF
	}
	r := f.in[0]
	f.in = f.in[1:]
	return r, nil
}
func (f *fakeBidi) Send(*hydrapb.DestroyBulkResponse) error {
	f.mu.Lock()
	f.n++
	f.mu.Unlock()
	return nil
}

var _ grpc.BidiStreamingServer[hydrapb.DestroyBulkRequest, hydrapb.DestroyBulkResponse] = (*fakeBidi)(nil)

// blocking RPCs get a short context
func c26CallTimeout(rpc string) time.Duration {
	switch rpc {
	case "SubscribeToEvents", "SubscribeToInfo", "SubscribeToTelemetry":
		return 40 * time.Millisecond
	}
	return c26Watchdog + 5*time.Second
}

type callResult struct {
	respNil  bool // no response object / empty response / empty stream
	err      error
	panicVal any
	hung     bool
	msgs     int
}

func (e *c26Env) callDirect(rpc string, req proto.Message) callResult {
	ctx, cancel := context.WithTimeout(context.Background(), c26CallTimeout(rpc))
	defer cancel()
	g := reflect.ValueOf(e.r.G)
	meth := g.MethodByName(rpc)
	var res callResult
	switch e.ms.kind[rpc] {
	case "unary":
		out := meth.Call([]reflect.Value{reflect.ValueOf(ctx), reflect.ValueOf(req)})
		res.respNil = out[0].IsNil()
		if !out[1].IsNil() {
			res.err = out[1].Interface().(error)
		}
	case "sstream":
		fs := &fakeStream{ctx: ctx}
		var st any
		switch rpc {
		case "SubscribeToEvents":
			st = fakeSS[hydrapb.SubscribeToEventsResponse]{fs}
		case "SubscribeToInfo":
			st = fakeSS[hydrapb.SubscribeToInfoResponse]{fs}
		case "SubscribeToTelemetry":
			st = fakeSS[hydrapb.TelemetryEvent]{fs}
		case "GetByIndexStream":
			st = fakeSS[hydrapb.GetByIndexStreamResponse]{fs}
		case "GetByIndexStreamFromMany":
			st = fakeSS[hydrapb.GetByIndexStreamFromManyResponse]{fs}
		case "GetStream":
			st = fakeSS[hydrapb.GetStreamResponse]{fs}
		default:
			panic("no fake stream for " + rpc)
		}
		out := meth.Call([]reflect.Value{reflect.ValueOf(req), reflect.ValueOf(st)})
		if !out[0].IsNil() {
			res.err = out[0].Interface().(error)
		}
		res.msgs = fs.count()
		res.respNil = res.msgs == 0
	case "bidi":
		fb := &fakeBidi{fakeStream: &fakeStream{ctx: ctx}, in: []*hydrapb.DestroyBulkRequest{req.(*hydrapb.DestroyBulkRequest)}}
		out := meth.Call([]reflect.Value{reflect.ValueOf(fb)})
		if !out[0].IsNil() {
			res.err = out[0].Interface().(error)
		}
		res.msgs = fb.count()
		res.respNil = res.msgs == 0
	}
	return res
}

func (e *c26Env) callGRPC(rpc string, req proto.Message) callResult {
	ctx, cancel := context.WithTimeout(context.Background(), c26CallTimeout(rpc))
	defer cancel()
	c := reflect.ValueOf(e.cli)
	meth := c.MethodByName(rpc)
	var res callResult
	recvAll := func(stream reflect.Value) {
		recv := stream.MethodByName("Recv")
		for {
			out := recv.Call(nil)
			if !out[1].IsNil() {
				err := out[1].Interface().(error)
				if err != io.EOF {
					res.err = err
				}
				return
			}
			res.msgs++
		}
	}
	switch e.ms.kind[rpc] {
	case "unary":
		out := meth.Call([]reflect.Value{reflect.ValueOf(ctx), reflect.ValueOf(req)})
		if !out[1].IsNil() {
			res.err = out[1].Interface().(error)
			res.respNil = true
		} else {
			res.respNil = out[0].IsNil() || proto.Size(out[0].Interface().(proto.Message)) == 0
		}
	case "sstream":
		out := meth.Call([]reflect.Value{reflect.ValueOf(ctx), reflect.ValueOf(req)})
		if !out[1].IsNil() {
			res.err = out[1].Interface().(error)
			res.respNil = true
			return res
		}
		recvAll(out[0])
		res.respNil = res.msgs == 0
	case "bidi":
		out := meth.Call([]reflect.Value{reflect.ValueOf(ctx)})
		if !out[1].IsNil() {
			res.err = out[1].Interface().(error)
			res.respNil = true
			return res
		}
		st := out[0]
		so := st.MethodByName("Send").Call([]reflect.Value{reflect.ValueOf(req)})
		if !so[0].IsNil() {
			res.err = so[0].Interface().(error)
		}
		st.MethodByName("CloseSend").Call(nil)
		recvAll(st)
		res.respNil = res.msgs == 0
	}
	return res
}

// call runs one request under the watchdog.
func (e *c26Env) call(route, rpc string, req proto.Message) callResult {
	ch := make(chan callResult, 1)
	go func() {
		var res callResult
		defer func() {
			if r := recover(); r != nil {
				res.panicVal = r
			}
			ch <- res
		}()
		if route == "grpc" {
			res = e.callGRPC(rpc, req)
		} else {
			res = e.callDirect(rpc, req)
		}
	}()
	select {
	case res := <-ch:
		return res
	case <-time.After(pbt.Bound(e.watchdog)):
		return callResult{hung: true}
	}
}

// ---------------------------------------------------------------------------
// reading swamps for the oracle

// readAll returns the contents of a swamp (sorted by key); exists=false when the server says it does not exist.
func (e *c26Env) readAll(ref swampRef) (ts []*hydrapb.Treasure, exists bool, fail string) {
	type out struct {
		resp *hydrapb.GetAllResponse
		err  error
		pv   any
	}
	ch := make(chan out, 1)
	go func() {
		var o out
		defer func() {
			if r := recover(); r != nil {
				o.pv = r
			}
			ch <- o
		}()
		ctx, cancel := context.WithTimeout(context.Background(), pbt.Bound(e.watchdog))
		defer cancel()
		o.resp, o.err = e.r.G.GetAll(ctx, &hydrapb.GetAllRequest{IslandID: ref.Island, SwampName: ref.Name})
	}()
	var o out
	select {
	case o = <-ch:
	case <-time.After(pbt.Bound(e.watchdog) + time.Second):
		return nil, false, "hang"
	}
	if o.pv != nil {
		return nil, false, fmt.Sprintf("panic: %v", o.pv)
	}
	if o.err != nil {
		if status.Code(o.err) == codes.FailedPrecondition {
			return nil, false, ""
		}
		return nil, false, "error: " + o.err.Error()
	}
	if o.resp == nil {
		return nil, false, "nil response without error"
	}
	ts = o.resp.Treasures
	sort.Slice(ts, func(i, j int) bool { return ts[i].Key < ts[j].Key })
	return ts, true, ""
}

// normTreasure clears typed zero values (they are known to reload as void — that is C05's business, not C26's).
func normTreasure(t *hydrapb.Treasure) *hydrapb.Treasure {
	c := proto.Clone(t).(*hydrapb.Treasure)
	if c.Int8Val != nil && *c.Int8Val == 0 {
		c.Int8Val = nil
	}
	if c.Int16Val != nil && *c.Int16Val == 0 {
		c.Int16Val = nil
	}
	if c.Int32Val != nil && *c.Int32Val == 0 {
		c.Int32Val = nil
	}
	if c.Int64Val != nil && *c.Int64Val == 0 {
		c.Int64Val = nil
	}
	if c.Uint8Val != nil && *c.Uint8Val == 0 {
		c.Uint8Val = nil
	}
	if c.Uint16Val != nil && *c.Uint16Val == 0 {
		c.Uint16Val = nil
	}
	if c.Uint32Val != nil && *c.Uint32Val == 0 {
		c.Uint32Val = nil
	}
	if c.Uint64Val != nil && *c.Uint64Val == 0 {
		c.Uint64Val = nil
	}
	if c.Float32Val != nil && (*c.Float32Val == 0 || *c.Float32Val != *c.Float32Val) {
		c.Float32Val = nil
	}
	if c.Float64Val != nil && (*c.Float64Val == 0 || *c.Float64Val != *c.Float64Val) {
		c.Float64Val = nil
	}
	if c.StringVal != nil && *c.StringVal == "" {
		c.StringVal = nil
	}
	if c.BoolVal != nil && *c.BoolVal == hydrapb.Boolean_FALSE {
		c.BoolVal = nil
	}
	if len(c.BytesVal) == 0 {
		c.BytesVal = nil
	}
	if len(c.Uint32Slice) == 0 {
		c.Uint32Slice = nil
	}
	return c
}

func shortK(k string) string {
	if len(k) > 32 {
		return fmt.Sprintf("%q…(%d bytes)", k[:16], len(k))
	}
	return fmt.Sprintf("%q", k)
}

// diffTreasures compares two sorted treasure lists; "" = equal.
func diffTreasures(want, got []*hydrapb.Treasure, norm bool) string {
	wm := map[string]*hydrapb.Treasure{}
	for _, t := range want {
		wm[t.Key] = t
	}
	gm := map[string]*hydrapb.Treasure{}
	for _, t := range got {
		gm[t.Key] = t
	}
	for _, t := range want {
		g, ok := gm[t.Key]
		if !ok {
			return fmt.Sprintf("key %s is missing (had %d keys, now %d)", shortK(t.Key), len(want), len(got))
		}
		a, b := t, g
		if norm {
			a, b = normTreasure(t), normTreasure(g)
		}
		if !proto.Equal(a, b) {
			return fmt.Sprintf("key %s differs: want %s, got %s", shortK(t.Key), describe(a), describe(b))
		}
	}
	for _, t := range got {
		if _, ok := wm[t.Key]; !ok {
			return fmt.Sprintf("unexpected key %s appeared", shortK(t.Key))
		}
	}
	return ""
}

// ---------------------------------------------------------------------------
// running a scenario

func c26Prefill() []*hydrapb.KeyValuePair {
	i := int64(7)
	f := 1.5
	return []*hydrapb.KeyValuePair{
		{Key: "k1", StringVal: sptr("v1"), CreatedAt: timestamppb.New(time.Unix(978307200, 0)), CreatedBy: sptr("u")},
		{Key: "k2", Int64Val: &i},
		{Key: "k3", BytesVal: append([]byte{}, c26Body...), ExpiredAt: timestamppb.New(time.Unix(978307200, 0))},
		{Key: "k4", Uint32Slice: []uint32{1, 2, 3}},
		{Key: "k5", Float64Val: &f, ExpiredAt: timestamppb.New(time.Unix(4102444800, 0))},
		{Key: "k6", BytesVal: append([]byte{}, c26VecBody...), CreatedAt: timestamppb.New(time.Unix(978307201, 0)), ExpiredAt: timestamppb.New(time.Unix(978307202, 0))},
	}
}

type c26RunOpts struct {
	checkReload bool // close + reload every touched swamp after the steps
	cleanup     bool // destroy the case's swamps at the end
}

type c26Touched struct {
	refs  []swampRef
	inMem bool // a RegisterSwamp with IsInMemorySwamp was part of the case
}

// runSteps executes the steps of a scenario against env and applies the per-request oracle.
func (e *c26Env) runSteps(s C26Scenario, prefix string, touched *c26Touched, out *pbt.Outcome) *pbt.Outcome {
	fail := func(shape, f string, a ...any) *pbt.Outcome {
		o := pbt.Failf(shape, f, a...)
		return &o
	}
	victim := strings.ReplaceAll(c26Victim(), c26Tok, prefix)
	// Names that are not case-unique ("//", "*/*/*", random short names) are shared between cases:
	// destroy them first so that a case never depends on what earlier cases left behind.
	for _, st := range s.Steps {
		md, ok := e.ms.in[st.RPC]
		if !ok {
			continue
		}
		req := newRequest(md)
		if (proto.UnmarshalOptions{AllowPartial: true}).Unmarshal(st.Req, req) != nil {
			continue
		}
		var refs []swampRef
		fixIslands(req.ProtoReflect(), &refs)
		for _, r := range refs {
			if strings.Contains(r.Name, c26Tok) || r.Name == c26Sentinel {
				continue
			}
			for _, isl := range []uint64{r.Island, rig.Island(r.Name)} {
				if f := e.destroy(swampRef{Island: isl, Name: r.Name}); f != nil {
					return f
				}
			}
		}
	}
	if s.Prefill && s.Target == "victim" {
		resp, err := e.r.G.Set(context.Background(), &hydrapb.SetRequest{Swamps: []*hydrapb.SwampRequest{{IslandID: rig.Island(victim), SwampName: victim,
			CreateIfNotExist: true, Overwrite: true, KeyValues: c26Prefill()}}})
		if err != nil || resp == nil {
			return fail("harness", "cannot prefill the victim swamp: %v", err)
		}
		touched.refs = append(touched.refs, swampRef{Island: rig.Island(victim), Name: victim, Canon: true})
	}
	for i, st := range s.Steps {
		if i == 1 && s.Target == "reg" && s.Prefill {
			// the pattern registered by step 0 now governs this swamp: store known records in it
			reg := strings.ReplaceAll(c26Reg(), c26Tok, prefix)
			res := e.call("direct", "Set", &hydrapb.SetRequest{Swamps: []*hydrapb.SwampRequest{{IslandID: rig.Island(reg), SwampName: reg,
				CreateIfNotExist: true, Overwrite: true, KeyValues: c26Prefill()}}})
			if res.hung {
				e.poisoned = true
				return fail("hang", "a valid Set on %s (covered by the pattern registered in step 0: %s) did not return within %v", reg, s.Steps[0].Desc, pbt.Bound(e.watchdog))
			}
			if res.err != nil || res.respNil || res.panicVal != nil {
				return fail("reg-set-failed", "a valid Set on %s (covered by the pattern registered in step 0: %s) failed: err=%v panic=%v", reg, s.Steps[0].Desc, res.err, res.panicVal)
			}
			touched.refs = append(touched.refs, swampRef{Island: rig.Island(reg), Name: reg, Canon: true})
		}
		md, ok := e.ms.in[st.RPC]
		if !ok {
			return fail("harness", "unknown rpc %q", st.RPC)
		}
		req := newRequest(md)
		if err := (proto.UnmarshalOptions{AllowPartial: true}).Unmarshal(st.Req, req); err != nil {
			return fail("harness", "cannot decode step %d: %v", i, err)
		}
		walkStrings(req.ProtoReflect(), func(_ protoreflect.FieldDescriptor, v string) string {
			if strings.Contains(v, c26Tok) {
				return strings.ReplaceAll(v, c26Tok, prefix)
			}
			return v
		})
		var refs []swampRef
		fixIslands(req.ProtoReflect(), &refs)
		touched.refs = append(touched.refs, refs...)
		if rs, ok := req.(*hydrapb.RegisterSwampRequest); ok && rs.IsInMemorySwamp {
			touched.inMem = true
		}
		pBefore := e.r.Logs.Panics()
		e.tap.reset()
		res := e.call(st.Route, st.RPC, req)
		pAfter := e.r.Logs.Panics()
		what := fmt.Sprintf("step %d %s via %s %s", i, st.RPC, st.Route, describe(req))
		if res.hung {
			e.poisoned = true
			return fail("hang", "%s: did not return within %v", what, e.watchdog)
		}
		if res.panicVal != nil {
			return fail("panic-escaped", "%s: panic escaped the handler: %v", what, res.panicVal)
		}
		if pAfter > pBefore && res.err == nil && res.respNil {
			first := "?"
			if rec := e.tap.records(); len(rec) > 0 {
				first = panicSite(rec[0])
			}
			return fail("swallowed-panic", "recovered panic {%s} was reported as success (nil error, empty response): %s", first, what)
		}
		if e.r.Z.GetSafeops().SystemLocked() {
			// the counter is shared; give concurrent late goroutines a moment, then decide
			time.Sleep(20 * time.Millisecond)
			if e.r.Z.GetSafeops().SystemLocked() {
				e.poisoned = true
				return fail("system-locked", "%s: Safeops.SystemLocked() is still true after the call returned", what)
			}
		}
		switch {
		case res.err != nil:
			out.Classes = append(out.Classes, "result:error:"+status.Code(res.err).String())
		case pAfter > pBefore:
			out.Classes = append(out.Classes, "result:ok-with-recovered-panic")
		default:
			out.Classes = append(out.Classes, "result:ok")
		}
		out.Classes = append(out.Classes, "rpc:"+st.RPC, "route:"+st.Route)
		for _, m := range st.Marks {
			out.Classes = append(out.Classes, "field:"+m)
		}
	}
	return nil
}

func dedupRefs(in []swampRef) []swampRef {
	seen := map[string]bool{}
	var out []swampRef
	for _, r := range in {
		k := fmt.Sprintf("%d|%s", r.Island, r.Name)
		if seen[k] {
			continue
		}
		seen[k] = true
		out = append(out, r)
	}
	return out
}

// comparable says whether the contents of a touched swamp may be compared across a close/reload:
// the in-memory instance is keyed by name only while the files live under the island id, so a name
// that was addressed with two different island ids within one case is not self-consistent (the SDK
// always derives the island from the name; mixing them is a routing error of the caller, not a
// malformed request the server could detect).
func (t *c26Touched) comparable(r swampRef, prefix string) bool {
	if len(r.Name) > 4096 {
		return false
	}
	if t.inMem && strings.HasPrefix(r.Name, "c26/"+prefix+"p/") {
		return false
	}
	for _, o := range t.refs {
		if o.Name == r.Name && o.Island != r.Island {
			return false
		}
	}
	if r.Canon {
		return true
	}
	return strings.HasPrefix(r.Name, "c26/"+prefix) // shared names must use the canonical island
}

// checkNoVigil fails when an open swamp still has active vigils although no request is running.
func (e *c26Env) checkNoVigil(r swampRef) *pbt.Outcome {
	if len(r.Name) > 4096 || !e.r.IsOpen(r.Name) {
		return nil
	}
	ctx, cancel := context.WithTimeout(context.Background(), 2*time.Second)
	defer cancel()
	sw, err := e.r.Z.GetHydra().SummonSwamp(ctx, r.Island, name.Load(r.Name))
	if err != nil || sw == nil {
		return nil
	}
	deadline := time.Now().Add(300 * time.Millisecond)
	for sw.HasActiveVigils() {
		if time.Now().After(deadline) {
			e.poisoned = true
			o := pbt.Failf("vigil-leak", "swamp %s still has active vigils after every request returned (it can never be closed or destroyed)", shortK(r.Name))
			return &o
		}
		time.Sleep(5 * time.Millisecond)
	}
	return nil
}

// checkSentinel compares the sentinel swamp with what was written.
func (e *c26Env) checkSentinel(reload bool) *pbt.Outcome {
	if reload {
		if !e.closeSwamp(c26Sentinel) {
			e.poisoned = true
			o := pbt.Failf("hang", "the sentinel swamp could not be closed within %v", e.watchdog)
			return &o
		}
	}
	got, exists, f := e.readAll(swampRef{Island: rig.Island(c26Sentinel), Name: c26Sentinel, Canon: true})
	if f != "" {
		if f == "hang" {
			e.poisoned = true
		}
		o := pbt.Failf("sentinel", "reading the sentinel swamp failed: %s", f)
		return &o
	}
	if !exists {
		o := pbt.Failf("sentinel", "the sentinel swamp no longer exists")
		return &o
	}
	if d := diffTreasures(e.sentinel, got, false); d != "" {
		o := pbt.Failf("sentinel", "the sentinel swamp changed: %s", d)
		return &o
	}
	return nil
}

func (e *c26Env) runCase(s C26Scenario) pbt.Outcome {
	e.caseNo++
	prefix := fmt.Sprintf("n%dx", e.caseNo)
	var out pbt.Outcome
	out.Classes = append(out.Classes, "target:"+s.Target)
	touched := &c26Touched{}
	if f := e.runSteps(s, prefix, touched, &out); f != nil {
		if !e.keep {
			e.cleanupCase(touched, prefix)
		}
		return *f
	}
	refs := dedupRefs(touched.refs)
	past := len(refs) > 0
	// no request is in flight any more: no touched swamp may still be guarded by a vigil
	for _, r := range append([]swampRef{{Island: rig.Island(c26Sentinel), Name: c26Sentinel, Canon: true}}, refs...) {
		if f := e.checkNoVigil(r); f != nil {
			return *f
		}
	}
	// read-only requests leave the prefilled victim (or registered-pattern swamp) exactly as written
	if s.Prefill && (s.Target == "victim" || (s.Target == "reg" && len(s.Steps) >= 2 && !touched.inMem)) {
		ro := true
		for i, st := range s.Steps {
			if s.Target == "reg" && i == 0 {
				continue
			}
			ro = ro && c26ReadOnly[st.RPC]
		}
		victim := strings.ReplaceAll(c26Victim(), c26Tok, prefix)
		if s.Target == "reg" {
			victim = strings.ReplaceAll(c26Reg(), c26Tok, prefix)
		}
		vref := swampRef{Island: rig.Island(victim), Name: victim, Canon: true}
		if ro && touched.comparable(vref, prefix) {
			got, exists, f := e.readAll(vref)
			if f != "" {
				return pbt.Failf("touched-unreadable", "victim swamp cannot be read after read-only requests: %s", f)
			}
			var want []*hydrapb.Treasure
			for _, kv := range c26Prefill() {
				want = append(want, kvToTreasure(kv))
			}
			if !exists {
				return pbt.Failf("readonly-mutated", "the victim swamp vanished after read-only requests")
			}
			if d := diffTreasures(want, got, true); d != "" {
				return pbt.Failf("readonly-mutated", "read-only requests changed the victim swamp: %s", d)
			}
			out.Classes = append(out.Classes, "readonly-victim-compared")
		}
	}
	// reload check of every touched swamp
	for i, r := range refs {
		if i >= 6 {
			break
		}
		if r.Name == c26Sentinel {
			continue
		}
		before, exBefore, f := e.readAll(r)
		if f != "" {
			if f == "hang" {
				e.poisoned = true
			}
			return pbt.Failf("touched-unreadable", "swamp %s (island %d) cannot be read after the request: %s", shortK(r.Name), r.Island, f)
		}
		if !e.closeSwamp(r.Name) {
			e.poisoned = true
			return pbt.Failf("hang", "swamp %s could not be closed within %v after the request", shortK(r.Name), e.watchdog)
		}
		after, exAfter, f := e.readAll(r)
		if f != "" {
			if f == "hang" {
				e.poisoned = true
			}
			return pbt.Failf("touched-unreadable", "swamp %s (island %d) cannot be read after close+reload: %s", shortK(r.Name), r.Island, f)
		}
		if !touched.comparable(r, prefix) {
			continue
		}
		if exBefore && len(before) > 0 && !exAfter {
			return pbt.Failf("lost-on-reload", "swamp %s had %d records before close and does not exist after reload (first key %s)", shortK(r.Name), len(before), shortK(before[0].Key))
		}
		if d := diffTreasures(before, after, true); d != "" {
			return pbt.Failf("lost-on-reload", "swamp %s: contents differ between memory and reload: %s", shortK(r.Name), d)
		}
		out.Classes = append(out.Classes, "reload-compared")
	}
	if f := e.checkSentinel(e.caseNo%20 == 0 || s.Target == "sentinel"); f != nil {
		return *f
	}
	if e.keep {
		for _, r := range refs {
			if r.Name != c26Sentinel && touched.comparable(r, prefix) {
				e.allRefs = append(e.allRefs, r)
			}
		}
	} else if f := e.cleanupCase(touched, prefix); f != nil {
		return *f
	}
	nmarks := 0
	for _, st := range s.Steps {
		nmarks += len(st.Marks)
	}
	out.NonTrivial = nmarks > 0 && past
	return out
}

// destroy removes a swamp under the watchdog; a hang is a finding (the swamp cannot be closed any more).
func (e *c26Env) destroy(r swampRef) *pbt.Outcome {
	done := make(chan struct{})
	go func() {
		defer close(done)
		defer func() { recover() }()
		ctx, cancel := context.WithTimeout(context.Background(), pbt.Bound(e.watchdog))
		defer cancel()
		e.r.G.Destroy(ctx, &hydrapb.DestroyRequest{IslandID: r.Island, SwampName: r.Name})
	}()
	select {
	case <-done:
		return nil
	case <-time.After(pbt.Bound(e.watchdog)):
		e.poisoned = true
		o := pbt.Failf("hang", "swamp %s could not be destroyed within %v", shortK(r.Name), e.watchdog)
		return &o
	}
}

// cleanupCase destroys the swamps a case touched (bounds memory, isolates cases); never the sentinel.
func (e *c26Env) cleanupCase(t *c26Touched, prefix string) *pbt.Outcome {
	if e.poisoned {
		return nil
	}
	for _, r := range dedupRefs(t.refs) {
		if r.Name == c26Sentinel {
			continue
		}
		if f := e.destroy(r); f != nil {
			return f
		}
	}
	return nil
}
