package sdkapi

import (
	"context"
	"fmt"
	"sort"
	"strings"
	"testing"
	"time"

	hydraidego "github.com/hydraide/hydraide/sdk/go/hydraidego/v3"
	"github.com/hydraide/hydraide/sdk/go/hydraidego/v3/hydrex"
	"github.com/hydraide/hydraide/sdk/go/hydraidego/v3/name"
	"pgregory.net/rapid"

	"verifharness/internal/pbt"
	"verifharness/internal/rig"
)

// C27 — Hydrex reverse index stays consistent with core data.

type C27Item struct {
	Key int    `json:"key"` // index into Keys
	Val string `json:"val"`
}

type C27Action struct {
	Kind   string    `json:"kind"` // save | destroy | close-core | close-index
	Index  int       `json:"index"`
	Domain int       `json:"domain"`
	Key    int       `json:"key,omitempty"` // close-index
	Items  []C27Item `json:"items,omitempty"`
}

type C27Scenario struct {
	Indexes []string    `json:"indexes"`
	Domains []string    `json:"domains"`
	Keys    []string    `json:"keys"`
	Actions []C27Action `json:"actions"`
}

type c27Cfg struct {
	noValueChange bool // open finding: Save ignores a changed value of an existing key
	forceChange   bool // witness: make sure a value change happens
	noReAdd       bool // open finding: a record deleted, re-inserted and deleted again after a reload resurrects on the next reload
	forceReAdd    bool // witness of that finding
}

func genC27(cfg c27Cfg) func(t *rapid.T) C27Scenario {
	nameGen := rapid.StringMatching(`[a-zA-Z0-9][a-zA-Z0-9_.\-]{0,7}`)
	distinct := func(t *rapid.T, n int, label string) []string {
		seen := map[string]bool{}
		var out []string
		for i := 0; len(out) < n && i < 50; i++ {
			s := nameGen.Draw(t, fmt.Sprintf("%s%d", label, i))
			if !seen[strings.ToLower(s)] {
				seen[strings.ToLower(s)] = true
				out = append(out, s)
			}
		}
		return out
	}
	return func(t *rapid.T) C27Scenario {
		var s C27Scenario
		s.Indexes = distinct(t, rapid.IntRange(1, 2).Draw(t, "nidx"), "idx")
		s.Domains = distinct(t, rapid.IntRange(1, 4).Draw(t, "ndom"), "dom")
		s.Keys = distinct(t, rapid.IntRange(1, 6).Draw(t, "nkey"), "key")
		// model kept while generating, so that the value-change trigger can be excluded / forced by construction
		core := map[[2]int]map[int]string{}
		removed := map[[3]int]bool{} // (index, domain, key) was held once and removed since
		n := rapid.IntRange(1, 14).Draw(t, "nactions")
		if cfg.forceReAdd {
			// Save{k}; close; Save{}; Save{k}; Save{}; close — on the index swamp of k or the core swamp of the domain
			closeKind := rapid.SampledFrom([]string{"close-index", "close-core"}).Draw(t, "closeKind")
			keep := []C27Item{}
			if closeKind == "close-core" && len(s.Keys) > 1 {
				keep = []C27Item{{Key: 1, Val: "keep"}}
			}
			with := append([]C27Item{{Key: 0, Val: "v"}}, keep...)
			s.Actions = []C27Action{
				{Kind: "save", Items: with}, {Kind: closeKind},
				{Kind: "save", Items: keep}, {Kind: "save", Items: with}, {Kind: "save", Items: keep},
				{Kind: closeKind},
			}
			return s
		}
		for i := 0; i < n; i++ {
			a := C27Action{Index: rapid.IntRange(0, len(s.Indexes)-1).Draw(t, "i"), Domain: rapid.IntRange(0, len(s.Domains)-1).Draw(t, "d")}
			c := rapid.IntRange(0, 99).Draw(t, "kind")
			id := [2]int{a.Index, a.Domain}
			switch {
			case c < 66:
				a.Kind = "save"
				cur := core[id]
				next := map[int]string{}
				for k := range s.Keys {
					// keep / add a key with probability 1/2; an empty item set arises naturally
					if rapid.Bool().Draw(t, fmt.Sprintf("has%d", k)) {
						if cfg.noReAdd && removed[[3]int{a.Index, a.Domain, k}] {
							continue
						}
						v := rapid.SampledFrom([]string{"", "a", "b", "software", "AI", "é日本"}).Draw(t, fmt.Sprintf("val%d", k))
						if old, ok := cur[k]; ok && cfg.noValueChange {
							v = old
						}
						next[k] = v
					}
				}
				if cfg.forceChange && i == n-1 {
					for k, old := range cur {
						next[k] = old + "-changed"
					}
				}
				for k := range s.Keys {
					if v, ok := next[k]; ok {
						a.Items = append(a.Items, C27Item{Key: k, Val: v})
					}
				}
				for k := range cur {
					if _, ok := next[k]; !ok {
						removed[[3]int{a.Index, a.Domain, k}] = true
					}
				}
				core[id] = next
			case c < 80:
				a.Kind = "destroy"
				for k := range core[id] {
					removed[[3]int{a.Index, a.Domain, k}] = true
				}
				delete(core, id)
			case c < 90:
				a.Kind = "close-core"
			default:
				a.Kind = "close-index"
				a.Key = rapid.IntRange(0, len(s.Keys)-1).Draw(t, "ck")
			}
			s.Actions = append(s.Actions, a)
		}
		if cfg.forceChange {
			// first action: a save that stores at least one key in the domain changed by the last action
			last := s.Actions[len(s.Actions)-1]
			if last.Kind != "save" {
				last = C27Action{Kind: "save", Index: 0, Domain: 0}
			}
			first := C27Action{Kind: "save", Index: last.Index, Domain: last.Domain, Items: []C27Item{{Key: 0, Val: "first"}}}
			lastSave := C27Action{Kind: "save", Index: last.Index, Domain: last.Domain, Items: []C27Item{{Key: 0, Val: "second"}}}
			s.Actions = []C27Action{first, lastSave}
		}
		return s
	}
}

type c27Env struct {
	r      *rig.Rig
	h      hydraidego.Hydraidego
	hx     hydrex.Hydrex
	caseNo int
}

var c27Shared *c27Env

func c27GetEnv() *c27Env {
	if c27Shared != nil {
		return c27Shared
	}
	e := &c27Env{}
	e.r = rig.New(rig.Options{})
	e.h = hydraidego.New(rigClient{c: e.r.Serve()})
	e.hx = hydrex.New(e.h) // registers hydraideIndex/*/* and hydraideCoreData/*/* (close after 1 s idle)
	// Re-register the two patterns with a long idle time: closes of the underlying swamps are scenario
	// actions (rig.CloseSwamp = what the idle listener does), never a matter of wall-clock timing.
	ctx, cancel := context.WithTimeout(context.Background(), 10*time.Second)
	defer cancel()
	for _, sanc := range []string{"hydraideIndex", "hydraideCoreData"} {
		e.h.RegisterSwamp(ctx, &hydraidego.RegisterSwampRequest{SwampPattern: name.New().Sanctuary(sanc).Realm("*").Swamp("*"), CloseAfterIdle: 600 * time.Second,
			FilesystemSettings: &hydraidego.SwampFilesystemSettings{WriteInterval: time.Second, MaxFileSize: 8192}})
	}
	c27Shared = e
	return e
}

func c27Finish() {
	if c27Shared != nil {
		c27Shared.r.Cleanup()
		c27Shared = nil
	}
}

func sortedKeys[V any](m map[string]V) []string {
	var ks []string
	for k := range m {
		ks = append(ks, k)
	}
	sort.Strings(ks)
	return ks
}

func runC27(s C27Scenario) pbt.Outcome {
	e := c27GetEnv()
	e.caseNo++
	var out pbt.Outcome
	ctx, cancel := context.WithTimeout(context.Background(), 60*time.Second)
	defer cancel()
	idx := make([]string, len(s.Indexes))
	for i, n := range s.Indexes {
		idx[i] = fmt.Sprintf("n%dx%s", e.caseNo, n) // index names are a global namespace: make them unique per case
	}
	// model
	core := map[string]map[string]map[string]string{} // index -> domain -> key -> value
	for _, i := range idx {
		core[i] = map[string]map[string]string{}
	}
	defer func() {
		for _, i := range idx {
			for _, d := range s.Domains {
				e.hx.Destroy(ctx, i, d)
			}
		}
	}()
	check := func(step int, what string) *pbt.Outcome {
		for _, i := range idx {
			rev := map[string]map[string]bool{}
			for d, items := range core[i] {
				for k := range items {
					if rev[k] == nil {
						rev[k] = map[string]bool{}
					}
					rev[k][d] = true
				}
			}
			for _, d := range s.Domains {
				got := map[string]string{}
				dup := false
				for _, cd := range e.hx.GetCoreData(ctx, i, d) {
					if _, ok := got[cd.Key]; ok {
						dup = true
					}
					got[cd.Key] = cd.Value
				}
				want := core[i][d]
				if dup || len(got) != len(want) {
					o := pbt.Failf("core-mismatch", "after action %d (%s): GetCoreData(%q,%q) keys %v, last saved keys %v", step, what, i, d, sortedKeys(got), sortedKeys(want))
					return &o
				}
				for k, v := range want {
					g, ok := got[k]
					if !ok {
						o := pbt.Failf("core-mismatch", "after action %d (%s): GetCoreData(%q,%q) lacks key %q (has %v)", step, what, i, d, k, sortedKeys(got))
						return &o
					}
					if g != v {
						o := pbt.Failf("value-mismatch", "after action %d (%s): GetCoreData(%q,%q)[%q] = %q, last saved %q", step, what, i, d, k, g, v)
						return &o
					}
				}
			}
			for _, k := range s.Keys {
				got := map[string]bool{}
				for _, id := range e.hx.GetIndexData(ctx, i, k) {
					got[id.Domain] = true
				}
				want := rev[k]
				if len(got) != len(want) {
					o := pbt.Failf("index-mismatch", "after action %d (%s): GetIndexData(%q,%q) = %v, domains whose core data holds the key: %v", step, what, i, k, sortedKeys(got), sortedKeys(want))
					return &o
				}
				for d := range want {
					if !got[d] {
						o := pbt.Failf("index-mismatch", "after action %d (%s): GetIndexData(%q,%q) = %v, domains whose core data holds the key: %v", step, what, i, k, sortedKeys(got), sortedKeys(want))
						return &o
					}
				}
			}
		}
		return nil
	}
	sharedRemoved, destroyedWithShared, valueChanged, closes := false, false, false, 0
	holders := func(i, k string) int {
		n := 0
		for _, items := range core[i] {
			if _, ok := items[k]; ok {
				n++
			}
		}
		return n
	}
	for step, a := range s.Actions {
		if a.Index >= len(idx) || a.Domain >= len(s.Domains) {
			return pbt.Outcome{Skip: true}
		}
		i, d := idx[a.Index], s.Domains[a.Domain]
		what := fmt.Sprintf("%s %s/%s", a.Kind, i, d)
		switch a.Kind {
		case "save":
			items := map[string]*hydrex.CoreData{}
			next := map[string]string{}
			for _, it := range a.Items {
				if it.Key >= len(s.Keys) {
					return pbt.Outcome{Skip: true}
				}
				k := s.Keys[it.Key]
				items[k] = &hydrex.CoreData{Key: k, Value: it.Val, CreatedAt: time.Now()}
				next[k] = it.Val
			}
			for k, old := range core[i][d] {
				if nv, ok := next[k]; !ok {
					if holders(i, k) >= 2 {
						sharedRemoved = true
					}
				} else if nv != old {
					valueChanged = true
				}
			}
			what += fmt.Sprintf(" items=%v", next)
			e.hx.Save(ctx, i, d, items)
			core[i][d] = next
		case "destroy":
			for k := range core[i][d] {
				if holders(i, k) >= 2 {
					destroyedWithShared = true
				}
			}
			e.hx.Destroy(ctx, i, d)
			delete(core[i], d)
		case "close-core":
			if e.r.CloseSwamp("hydraideCoreData/" + i + "/" + d) {
				closes++
			}
		case "close-index":
			if a.Key < len(s.Keys) && e.r.CloseSwamp("hydraideIndex/"+i+"/"+s.Keys[a.Key]) {
				closes++
			}
		}
		if f := check(step, what); f != nil {
			return *f
		}
	}
	out.NonTrivial = sharedRemoved || destroyedWithShared
	if sharedRemoved {
		out.Classes = append(out.Classes, "shared-key-removed-from-one-domain")
	}
	if destroyedWithShared {
		out.Classes = append(out.Classes, "domain-destroyed-keys-remain-elsewhere")
	}
	if valueChanged {
		out.Classes = append(out.Classes, "value-changed")
	}
	if closes > 0 {
		out.Classes = append(out.Classes, "swamp-closed-between-actions")
	}
	return out
}

const c27Rule = "rapid-generated histories through the Go SDK + bufconn: <= 2 index names (made unique per case), <= 4 domains, <= 6 keys over [a-zA-Z0-9_.-]; " +
	"1..14 actions: Save(index, domain, items) with additions / removals / value changes / empty item sets, Destroy(index, domain), close of the underlying core or index swamp; " +
	"after EVERY action GetCoreData of every (index, domain) and GetIndexData of every (index, key) are compared with a map model (core) and the reverse index derived from it; " +
	"non-trivial = a key held by >= 2 domains is removed from one of them, or a domain is destroyed while one of its keys remains elsewhere; distinct = hash of the scenario"

func c27MainCfg(facet string) c27Cfg {
	var cfg c27Cfg
	if pbt.Open("C27", "value-change-ignored") {
		cfg.noValueChange = true
		pbt.Excluded("C27", facet, "Save with a changed value for a key the domain already holds (open finding)")
	}
	if pbt.Open("C27", "entry-resurrects-after-reload") {
		cfg.noReAdd = true
		pbt.Excluded("C27", facet, "re-adding a key to a domain that held and dropped it earlier in the history (open finding)")
	}
	return cfg
}

func TestC27Main(t *testing.T) {
	defer c27Finish()
	pbt.Main(t, pbt.Spec[C27Scenario]{
		ID: "C27", Facet: "main", Rule: c27Rule,
		Quick: 600, Thorough: 30000,
		Gen: genC27(c27MainCfg("main")), Run: runC27,
	})
}

func TestC27WitnessValueChange(t *testing.T) {
	defer c27Finish()
	pbt.Witness(t, pbt.Spec[C27Scenario]{
		ID: "C27", Facet: "witness-value-change", Rule: "Save(index, domain, {k: first}) followed by Save(index, domain, {k: second})",
		Quick: 30, Thorough: 300,
		Gen: genC27(c27Cfg{forceChange: true}), Run: runC27,
	}, "value-change-ignored", "value-mismatch")
}

func TestC27WitnessResurrect(t *testing.T) {
	defer c27Finish()
	pbt.Witness(t, pbt.Spec[C27Scenario]{
		ID: "C27", Facet: "witness-resurrect", Rule: "Save{k}; close swamp; Save without k; Save with k; Save without k; close swamp (index swamp of k, or core swamp of the domain)",
		Quick: 20, Thorough: 200,
		Gen: genC27(c27Cfg{forceReAdd: true}), Run: runC27,
	}, "entry-resurrects-after-reload", "index-mismatch", "core-mismatch")
}
