package sdkapi

import (
	"context"
	"encoding/json"
	"fmt"
	"sort"
	"strings"
	"testing"
	"time"
	"unicode/utf8"

	hydraidego "github.com/hydraide/hydraide/sdk/go/hydraidego/v3"
	"github.com/hydraide/hydraide/sdk/go/hydraidego/v3/hydrex"
	"github.com/hydraide/hydraide/sdk/go/hydraidego/v3/name"
	"pgregory.net/rapid"

	"verifharness/internal/pbt"
	"verifharness/internal/rig"
)

// C27 — Hydrex reverse index stays consistent with core data.

// C27Str is a string that survives JSON even when it is not valid UTF-8 (then it is written as {"b64": …}).
type C27Str string

func (x C27Str) MarshalJSON() ([]byte, error) {
	if utf8.ValidString(string(x)) {
		return json.Marshal(string(x))
	}
	return json.Marshal(map[string][]byte{"b64": []byte(x)})
}

func (x *C27Str) UnmarshalJSON(b []byte) error {
	var s string
	if json.Unmarshal(b, &s) == nil {
		*x = C27Str(s)
		return nil
	}
	var m map[string][]byte
	if err := json.Unmarshal(b, &m); err != nil {
		return err
	}
	*x = C27Str(m["b64"])
	return nil
}

type C27Item struct {
	Key int    `json:"key"` // index into Keys
	Val C27Str `json:"val"`
}

type C27Action struct {
	Kind   string    `json:"kind"` // save | destroy | close-core | close-index
	Index  int       `json:"index"`
	Domain int       `json:"domain"`
	Key    int       `json:"key,omitempty"` // close-index
	Items  []C27Item `json:"items,omitempty"`
}

type C27Scenario struct {
	Indexes []C27Str    `json:"indexes"`
	Domains []C27Str    `json:"domains"`
	Keys    []C27Str    `json:"keys"`
	Actions []C27Action `json:"actions"`
}

type c27Cfg struct {
	noValueChange bool // open finding: Save ignores a changed value of an existing key
	forceChange   bool // witness: make sure a value change happens
	noReAdd       bool // open finding: a record deleted, re-inserted and deleted again after a reload resurrects on the next reload
	forceReAdd    bool // witness of that finding
	// name classes left out of the generator (open findings) / the only special class used (witnesses, discovery)
	noClass   map[string]bool
	onlyClass string
}

// c27NameClasses: how index names, domains and keys are drawn beyond plain identifiers.
var c27NameClasses = []string{"unicode", "space-punct", "slash", "special", "dots", "long", "case-variant", "key-is-domain", "empty", "invalid-utf8"}

func c27SpecialName(t *rapid.T, class, label string, pool []C27Str) C27Str {
	switch class {
	case "unicode":
		return C27Str(rapid.StringOfN(rapid.RuneFrom([]rune("éÉßøñ日本語ΩжЖ🙂ǅ")), 1, 8, -1).Draw(t, label))
	case "space-punct":
		return C27Str(rapid.StringOfN(rapid.RuneFrom([]rune("ab1 ,;!'\"()[]{}<>|=+&@$^~`\t")), 1, 10, -1).Draw(t, label))
	case "slash":
		return C27Str(rapid.SampledFrom([]string{"a/b", "a/c", "a", "a/b/c", "/", "/a", "a/", "http://x.io/p", "http://x.io/q", "x/y"}).Draw(t, label))
	case "special":
		return C27Str(rapid.StringOfN(rapid.RuneFrom([]rune("ab\\:*?#%")), 1, 8, -1).Draw(t, label))
	case "dots":
		return C27Str(rapid.SampledFrom([]string{".", "..", ".a", "a.", "...", ".hidden.", "a..b"}).Draw(t, label))
	case "long":
		return C27Str(rapid.SampledFrom([]string{"L", "M", "長"}).Draw(t, label+"c") + strings.Repeat("x", rapid.SampledFrom([]int{100, 255, 256, 400}).Draw(t, label+"n")))
	case "case-variant":
		if len(pool) > 0 {
			b := string(rapid.SampledFrom(pool).Draw(t, label))
			if u := strings.ToUpper(b); u != b {
				return C27Str(u)
			}
			return C27Str(strings.ToLower(b))
		}
		return "Abc"
	case "empty":
		return ""
	case "invalid-utf8":
		return C27Str(rapid.SampledFrom([]string{"\xff", "a\xc3", "\xed\xa0\x80", "ok\xfe\xffok"}).Draw(t, label))
	}
	return "x"
}

func genC27(cfg c27Cfg) func(t *rapid.T) C27Scenario {
	nameGen := rapid.StringMatching(`[a-zA-Z0-9][a-zA-Z0-9_.\-]{0,7}`)
	var classes []string
	for _, c := range c27NameClasses {
		if !cfg.noClass[c] && c != "key-is-domain" && (cfg.onlyClass == "" || cfg.onlyClass == c) {
			classes = append(classes, c)
		}
	}
	distinct := func(t *rapid.T, n int, label string, others []C27Str) []C27Str {
		seen := map[C27Str]bool{}
		var out []C27Str
		for i := 0; len(out) < n && i < 50; i++ {
			var x C27Str
			l := fmt.Sprintf("%s%d", label, i)
			switch c := rapid.IntRange(0, 9).Draw(t, l+"class"); {
			case c < 3 && len(classes) > 0:
				x = c27SpecialName(t, rapid.SampledFrom(classes).Draw(t, l+"which"), l+"s", append(append([]C27Str{}, out...), others...))
			case c < 5 && label == "key" && len(others) > 0 && !cfg.noClass["key-is-domain"] && (cfg.onlyClass == "" || cfg.onlyClass == "key-is-domain"):
				x = rapid.SampledFrom(others).Draw(t, l+"dom") // a key whose text is also a domain name
			default:
				x = C27Str(nameGen.Draw(t, l))
			}
			if !seen[x] {
				seen[x] = true
				out = append(out, x)
			}
		}
		return out
	}
	return func(t *rapid.T) C27Scenario {
		var s C27Scenario
		s.Indexes = distinct(t, rapid.IntRange(1, 2).Draw(t, "nidx"), "idx", nil)
		s.Domains = distinct(t, rapid.IntRange(1, 4).Draw(t, "ndom"), "dom", nil)
		s.Keys = distinct(t, rapid.IntRange(1, 6).Draw(t, "nkey"), "key", s.Domains)
		// model kept while generating, so that the value-change trigger can be excluded / forced by construction
		core := map[[2]int]map[int]C27Str{}
		removed := map[[3]int]bool{} // (index, domain, key) was held once and removed since
		n := rapid.IntRange(1, 14).Draw(t, "nactions")
		if cfg.forceReAdd {
			// Save{k}; close; Save{}; Save{k}; Save{}; close — on the index swamp of k or the core swamp of the domain
			closeKind := rapid.SampledFrom([]string{"close-index", "close-core"}).Draw(t, "closeKind")
			keep := []C27Item{}
			if closeKind == "close-core" && len(s.Keys) > 1 {
				keep = []C27Item{{Key: 1, Val: "keep"}}
			}
			with := append([]C27Item{{Key: 0, Val: "v"}}, keep...)
			s.Actions = []C27Action{
				{Kind: "save", Items: with}, {Kind: closeKind},
				{Kind: "save", Items: keep}, {Kind: "save", Items: with}, {Kind: "save", Items: keep},
				{Kind: closeKind},
			}
			return s
		}
		for i := 0; i < n; i++ {
			a := C27Action{Index: rapid.IntRange(0, len(s.Indexes)-1).Draw(t, "i"), Domain: rapid.IntRange(0, len(s.Domains)-1).Draw(t, "d")}
			c := rapid.IntRange(0, 99).Draw(t, "kind")
			id := [2]int{a.Index, a.Domain}
			switch {
			case c < 66:
				a.Kind = "save"
				cur := core[id]
				next := map[int]C27Str{}
				for k := range s.Keys {
					// keep / add a key with probability 1/2; an empty item set arises naturally
					if rapid.Bool().Draw(t, fmt.Sprintf("has%d", k)) {
						if cfg.noReAdd && removed[[3]int{a.Index, a.Domain, k}] {
							continue
						}
						v := C27Str(rapid.SampledFrom([]string{"", "a", "b", "software", "AI", "é日本", "a/b", " ", strings.Repeat("v", 300)}).Draw(t, fmt.Sprintf("val%d", k)))
						if !cfg.noClass["invalid-utf8"] && (cfg.onlyClass == "" || cfg.onlyClass == "invalid-utf8") && rapid.IntRange(0, 19).Draw(t, fmt.Sprintf("badval%d", k)) == 0 {
							v = "bad\xff"
						}
						if old, ok := cur[k]; ok && cfg.noValueChange {
							v = old
						}
						next[k] = v
					}
				}
				if cfg.forceChange && i == n-1 {
					for k, old := range cur {
						next[k] = old + "-changed"
					}
				}
				for k := range s.Keys {
					if v, ok := next[k]; ok {
						a.Items = append(a.Items, C27Item{Key: k, Val: v})
					}
				}
				for k := range cur {
					if _, ok := next[k]; !ok {
						removed[[3]int{a.Index, a.Domain, k}] = true
					}
				}
				core[id] = next
			case c < 80:
				a.Kind = "destroy"
				for k := range core[id] {
					removed[[3]int{a.Index, a.Domain, k}] = true
				}
				delete(core, id)
			case c < 90:
				a.Kind = "close-core"
			default:
				a.Kind = "close-index"
				a.Key = rapid.IntRange(0, len(s.Keys)-1).Draw(t, "ck")
			}
			s.Actions = append(s.Actions, a)
		}
		if cfg.forceChange {
			// first action: a save that stores at least one key in the domain changed by the last action
			last := s.Actions[len(s.Actions)-1]
			if last.Kind != "save" {
				last = C27Action{Kind: "save", Index: 0, Domain: 0}
			}
			first := C27Action{Kind: "save", Index: last.Index, Domain: last.Domain, Items: []C27Item{{Key: 0, Val: "first"}}}
			lastSave := C27Action{Kind: "save", Index: last.Index, Domain: last.Domain, Items: []C27Item{{Key: 0, Val: "second"}}}
			s.Actions = []C27Action{first, lastSave}
		}
		return s
	}
}

type c27Env struct {
	r      *rig.Rig
	h      hydraidego.Hydraidego
	hx     hydrex.Hydrex
	caseNo int
}

var c27Shared *c27Env

func c27GetEnv() *c27Env {
	if c27Shared != nil {
		return c27Shared
	}
	e := &c27Env{}
	e.r = rig.New(rig.Options{})
	e.h = hydraidego.New(rigClient{c: e.r.Serve()})
	e.hx = hydrex.New(e.h) // registers hydraideIndex/*/* and hydraideCoreData/*/* (close after 1 s idle)
	// Re-register the two patterns with a long idle time: closes of the underlying swamps are scenario
	// actions (rig.CloseSwamp = what the idle listener does), never a matter of wall-clock timing.
	ctx, cancel := context.WithTimeout(context.Background(), 10*time.Second)
	defer cancel()
	for _, sanc := range []string{"hydraideIndex", "hydraideCoreData"} {
		e.h.RegisterSwamp(ctx, &hydraidego.RegisterSwampRequest{SwampPattern: name.New().Sanctuary(sanc).Realm("*").Swamp("*"), CloseAfterIdle: 600 * time.Second,
			FilesystemSettings: &hydraidego.SwampFilesystemSettings{WriteInterval: time.Second, MaxFileSize: 8192}})
	}
	c27Shared = e
	return e
}

func c27Finish() {
	if c27Shared != nil {
		c27Shared.r.Cleanup()
		c27Shared = nil
	}
}

func sortedKeys[V any](m map[string]V) []string {
	var ks []string
	for k := range m {
		ks = append(ks, k)
	}
	sort.Strings(ks)
	return ks
}

func runC27(s C27Scenario) pbt.Outcome {
	e := c27GetEnv()
	e.caseNo++
	var out pbt.Outcome
	ctx, cancel := context.WithTimeout(context.Background(), 60*time.Second)
	defer cancel()
	idx := make([]string, len(s.Indexes))
	doms := make([]string, len(s.Domains))
	keys := make([]string, len(s.Keys))
	for i, n := range s.Domains {
		doms[i] = string(n)
	}
	for i, n := range s.Keys {
		keys[i] = string(n)
	}
	for i, n := range s.Indexes {
		idx[i] = fmt.Sprintf("n%dx%s", e.caseNo, n) // index names are a global namespace: make them unique per case
		if n == "" {
			// the literally empty index name cannot be made unique: it is used as it is and cleaned before and after the case
			idx[i] = ""
			for _, d := range doms {
				e.hx.Destroy(ctx, "", d)
			}
		}
	}
	// model
	core := map[string]map[string]map[string]string{} // index -> domain -> key -> value
	for _, i := range idx {
		core[i] = map[string]map[string]string{}
	}
	defer func() {
		for _, i := range idx {
			for _, d := range doms {
				e.hx.Destroy(ctx, i, d)
			}
		}
	}()
	check := func(step int, what string) *pbt.Outcome {
		for _, i := range idx {
			rev := map[string]map[string]bool{}
			for d, items := range core[i] {
				for k := range items {
					if rev[k] == nil {
						rev[k] = map[string]bool{}
					}
					rev[k][d] = true
				}
			}
			for _, d := range doms {
				got := map[string]string{}
				dup := false
				for _, cd := range e.hx.GetCoreData(ctx, i, d) {
					if _, ok := got[cd.Key]; ok {
						dup = true
					}
					got[cd.Key] = cd.Value
				}
				want := core[i][d]
				if dup || len(got) != len(want) {
					o := pbt.Failf("core-mismatch", "after action %d (%s): GetCoreData(%q,%q) keys %v, last saved keys %v", step, what, i, d, sortedKeys(got), sortedKeys(want))
					return &o
				}
				for k, v := range want {
					g, ok := got[k]
					if !ok {
						o := pbt.Failf("core-mismatch", "after action %d (%s): GetCoreData(%q,%q) lacks key %q (has %v)", step, what, i, d, k, sortedKeys(got))
						return &o
					}
					if g != v {
						o := pbt.Failf("value-mismatch", "after action %d (%s): GetCoreData(%q,%q)[%q] = %q, last saved %q", step, what, i, d, k, g, v)
						return &o
					}
				}
			}
			for _, k := range keys {
				got := map[string]bool{}
				for _, id := range e.hx.GetIndexData(ctx, i, k) {
					got[id.Domain] = true
				}
				want := rev[k]
				if len(got) != len(want) {
					o := pbt.Failf("index-mismatch", "after action %d (%s): GetIndexData(%q,%q) = %v, domains whose core data holds the key: %v", step, what, i, k, sortedKeys(got), sortedKeys(want))
					return &o
				}
				for d := range want {
					if !got[d] {
						o := pbt.Failf("index-mismatch", "after action %d (%s): GetIndexData(%q,%q) = %v, domains whose core data holds the key: %v", step, what, i, k, sortedKeys(got), sortedKeys(want))
						return &o
					}
				}
			}
		}
		return nil
	}
	sharedRemoved, destroyedWithShared, valueChanged, closes := false, false, false, 0
	emptyKeyIgnored, refusedSaves := false, 0
	holders := func(i, k string) int {
		n := 0
		for _, items := range core[i] {
			if _, ok := items[k]; ok {
				n++
			}
		}
		return n
	}
	for step, a := range s.Actions {
		if a.Index >= len(idx) || a.Domain >= len(doms) {
			return pbt.Outcome{Skip: true}
		}
		i, d := idx[a.Index], doms[a.Domain]
		what := fmt.Sprintf("%s %q/%q", a.Kind, i, d)
		// Hydrex reports no errors; the repaired Save (5037ffc, efbd7ae) has these documented-by-code rules:
		//  - an empty index name or domain: the call is refused, nothing changes;
		//  - an item with an empty key is ignored, the other items are stored;
		//  - when the core write fails (text that is not valid UTF-8 cannot be sent at all) nothing changes.
		rejected := a.Kind == "save" && (i == "" || d == "" || !utf8.ValidString(i) || !utf8.ValidString(d))
		switch a.Kind {
		case "save":
			items := map[string]*hydrex.CoreData{}
			next := map[string]string{}
			for _, it := range a.Items {
				if it.Key >= len(keys) {
					return pbt.Outcome{Skip: true}
				}
				k := keys[it.Key]
				items[k] = &hydrex.CoreData{Key: k, Value: string(it.Val), CreatedAt: time.Now()}
				if k == "" {
					emptyKeyIgnored = true
					continue
				}
				next[k] = string(it.Val)
				rejected = rejected || !utf8.ValidString(k) || !utf8.ValidString(string(it.Val))
			}
			for k, old := range core[i][d] {
				if nv, ok := next[k]; !ok {
					if holders(i, k) >= 2 {
						sharedRemoved = true
					}
				} else if nv != old {
					valueChanged = true
				}
			}
			what += fmt.Sprintf(" items=%q", next)
			e.hx.Save(ctx, i, d, items)
			if rejected {
				what += " [must leave the previous state]"
				refusedSaves++
			} else {
				core[i][d] = next
			}
		case "destroy":
			for k := range core[i][d] {
				if holders(i, k) >= 2 {
					destroyedWithShared = true
				}
			}
			e.hx.Destroy(ctx, i, d)
			delete(core[i], d)
		case "close-core":
			if e.r.CloseSwamp("hydraideCoreData/" + i + "/" + d) {
				closes++
			}
		case "close-index":
			if a.Key < len(keys) && e.r.CloseSwamp("hydraideIndex/"+i+"/"+keys[a.Key]) {
				closes++
			}
		}
		f := check(step, what)
		if f != nil {
			return *f
		}
	}
	out.NonTrivial = sharedRemoved || destroyedWithShared
	if sharedRemoved {
		out.Classes = append(out.Classes, "shared-key-removed-from-one-domain")
	}
	if destroyedWithShared {
		out.Classes = append(out.Classes, "domain-destroyed-keys-remain-elsewhere")
	}
	if valueChanged {
		out.Classes = append(out.Classes, "value-changed")
	}
	if closes > 0 {
		out.Classes = append(out.Classes, "swamp-closed-between-actions")
	}
	if emptyKeyIgnored {
		out.Classes = append(out.Classes, "empty-key-item-ignored")
	}
	if refusedSaves > 0 {
		out.Classes = append(out.Classes, "save-refused-or-failed-state-unchanged")
	}
	return out
}

const c27Rule = "rapid-generated histories through the Go SDK + bufconn: <= 2 index names (made unique per case), <= 4 domains, <= 6 keys; names are plain identifiers (70%) or drawn from classes: unicode letters, spaces+punctuation, \\ : * ? # %, leading/trailing dots, 100..400-byte names, case variants of other names, keys equal to a domain name, " +
	"and (when the corresponding finding is closed) names containing '/', empty names (Save with an empty index name / domain is refused, an item with an empty key is ignored), " +
	"text that is not valid UTF-8 (the Save must leave the previous state exactly); " +
	"1..14 actions: Save(index, domain, items) with additions / removals / value changes / empty item sets, Destroy(index, domain), close of the underlying core or index swamp; " +
	"after EVERY action GetCoreData of every (index, domain) and GetIndexData of every (index, key) are compared with a map model (core) and the reverse index derived from it; " +
	"non-trivial = a key held by >= 2 domains is removed from one of them, or a domain is destroyed while one of its keys remains elsewhere; distinct = hash of the scenario"

// name classes on which the unchanged tree breaks the statement, and the witness that records each
var c27ClassWitness = map[string]string{
	"slash":        "slash-in-name-aliases-swamps",
	"empty":        "empty-key-or-domain-half-saved",
	"invalid-utf8": "failed-core-save-leaves-index-entry",
}

func c27MainCfg(facet string) c27Cfg {
	var cfg c27Cfg
	if pbt.Open("C27", "value-change-ignored") {
		cfg.noValueChange = true
		pbt.Excluded("C27", facet, "Save with a changed value for a key the domain already holds (open finding)")
	}
	cfg.noClass = map[string]bool{}
	for class, w := range c27ClassWitness {
		if pbt.Open("C27", w) {
			cfg.noClass[class] = true
			pbt.Excluded("C27", facet, "names of class "+class+" (open finding "+w+")")
		}
	}
	if pbt.Open("C27", "entry-resurrects-after-reload") {
		cfg.noReAdd = true
		pbt.Excluded("C27", facet, "re-adding a key to a domain that held and dropped it earlier in the history (open finding)")
	}
	return cfg
}

func TestC27Main(t *testing.T) {
	defer c27Finish()
	pbt.Main(t, pbt.Spec[C27Scenario]{
		ID: "C27", Facet: "main", Rule: c27Rule,
		Quick: 600, Thorough: 30000,
		Gen: genC27(c27MainCfg("main")), Run: runC27,
	})
}

func TestC27WitnessValueChange(t *testing.T) {
	defer c27Finish()
	pbt.Witness(t, pbt.Spec[C27Scenario]{
		ID: "C27", Facet: "witness-value-change", Rule: "Save(index, domain, {k: first}) followed by Save(index, domain, {k: second})",
		Quick: 30, Thorough: 300,
		Gen: genC27(c27Cfg{forceChange: true}), Run: runC27,
	}, "value-change-ignored", "value-mismatch")
}

func TestC27WitnessResurrect(t *testing.T) {
	defer c27Finish()
	pbt.Witness(t, pbt.Spec[C27Scenario]{
		ID: "C27", Facet: "witness-resurrect", Rule: "Save{k}; close swamp; Save without k; Save with k; Save without k; close swamp (index swamp of k, or core swamp of the domain)",
		Quick: 20, Thorough: 200,
		Gen: genC27(c27Cfg{forceReAdd: true}), Run: runC27,
	}, "entry-resurrects-after-reload", "index-mismatch", "core-mismatch")
}

func c27ClassWitnessFacet(t *testing.T, class, facet, rule string, shapes ...string) {
	defer c27Finish()
	pbt.Witness(t, pbt.Spec[C27Scenario]{
		ID: "C27", Facet: facet, Rule: rule,
		Quick: 60, Thorough: 600,
		Gen: genC27(c27Cfg{onlyClass: class}), Run: runC27,
	}, c27ClassWitness[class], shapes...)
}

func TestC27WitnessSlashNames(t *testing.T) {
	c27ClassWitnessFacet(t, "slash", "witness-slash-names", "main generator whose special names all contain '/' (a/b, a/c, a, a/b/c, /, URLs)", "core-mismatch", "index-mismatch", "value-mismatch")
}

func TestC27WitnessEmptyNames(t *testing.T) {
	c27ClassWitnessFacet(t, "empty", "witness-empty-names", "main generator with an empty key, domain or index name among the names", "core-mismatch", "index-mismatch", "value-mismatch")
}

func TestC27WitnessInvalidUTF8(t *testing.T) {
	c27ClassWitnessFacet(t, "invalid-utf8", "witness-invalid-utf8", "main generator with names and values that are not valid UTF-8 (the call may fail as a whole, but must not take partial effect)", "partial-effect")
}
