package sdkapi

import (
	"context"
	"fmt"
	"reflect"
	"strings"
	"testing"
	"time"

	hydraidego "github.com/hydraide/hydraide/sdk/go/hydraidego/v3"
	"github.com/hydraide/hydraide/sdk/go/hydraidego/v3/name"

	"pgregory.net/rapid"

	"verifharness/internal/pbt"
	"verifharness/internal/rig"
)

// C22 — SDK model save/read round-trips exactly.

type c22Env struct {
	r      *rig.Rig
	h      hydraidego.Hydraidego
	caseNo int
}

var c22Shared *c22Env

func c22GetEnv() (*c22Env, error) {
	if c22Shared != nil {
		return c22Shared, nil
	}
	e := &c22Env{}
	e.r = rig.New(rig.Options{Patterns: []rig.Pattern{{Pattern: "c22/*/*", CloseAfterIdleSec: 600, WriteIntervalSec: 1}}})
	e.h = hydraidego.New(rigClient{c: e.r.Serve()})
	ctx, cancel := context.WithTimeout(context.Background(), 10*time.Second)
	defer cancel()
	if errs := e.h.RegisterSwamp(ctx, &hydraidego.RegisterSwampRequest{
		SwampPattern:   name.New().Sanctuary("c22").Realm("mp").Swamp("*"),
		CloseAfterIdle: 600 * time.Second,
		FilesystemSettings: &hydraidego.SwampFilesystemSettings{WriteInterval: time.Second, MaxFileSize: 8 << 20,
			EncodingFormat: hydraidego.EncodingMsgPack},
	}); errs != nil {
		e.r.Cleanup()
		return nil, fmt.Errorf("RegisterSwamp: %v", errs)
	}
	c22Shared = e
	return e, nil
}

func c22Finish() {
	if c22Shared != nil {
		c22Shared.r.Cleanup()
		c22Shared = nil
	}
}

// c22RoundTrip saves and reads one model type; returns the read-back struct (pointer) or a failure.
func (e *c22Env) roundTrip(ctx context.Context, s C22Scenario, b c22Built, sw name.Name, key string, out *pbt.Outcome) (got reflect.Value, want reflect.Value, rejected bool, fail *pbt.Outcome) {
	f := func(shape, format string, a ...any) (reflect.Value, reflect.Value, bool, *pbt.Outcome) {
		o := pbt.Failf(shape, format, a...)
		return reflect.Value{}, reflect.Value{}, false, &o
	}
	s.Key = key
	m1 := c22Fill(s, b, false)
	m2 := c22Fill(s, b, true)
	want = m1
	isRejected := func(err error) bool {
		return err != nil && (hydraidego.IsInvalidModel(err) || hydraidego.IsInvalidArgument(err))
	}
	allSkipped := func(second bool) bool {
		for _, fl := range s.Fields {
			v := fl.V
			if second {
				v = fl.V2
			}
			if !(v.isEmpty(fl.Kind) && (fl.Omit || fl.Del)) {
				return false
			}
		}
		return true
	}
	if s.Shape == "profile" {
		if err := e.h.ProfileSave(ctx, sw, m1.Interface()); err != nil {
			if allSkipped(false) {
				return got, want, true, nil
			}
			return f("sdk-error", "ProfileSave failed: %v", err)
		}
		if s.Flow == "save-save" {
			if err := e.h.ProfileSave(ctx, sw, m2.Interface()); err != nil {
				if allSkipped(true) {
					return got, want, true, nil
				}
				return f("sdk-error", "second ProfileSave failed: %v", err)
			}
			// documented semantics: empty+deletable → key removed; empty+omitempty → skipped (old value stays)
			exp := reflect.New(b.typ)
			for i, fl := range s.Fields {
				idx := b.fieldIdx[i]
				v1, v2 := m1.Elem().Field(idx), m2.Elem().Field(idx)
				cur := reflect.Zero(v1.Type())
				if !(fl.V.isEmpty(fl.Kind) && (fl.Del || fl.Omit)) {
					cur = v1
				}
				switch {
				case fl.V2.isEmpty(fl.Kind) && fl.Del:
					cur = reflect.Zero(v1.Type())
				case fl.V2.isEmpty(fl.Kind) && fl.Omit:
				default:
					cur = v2
				}
				exp.Elem().Field(idx).Set(cur)
			}
			want = exp
		}
		if s.Reopen {
			e.r.CloseSwamp(sw.Get())
		}
		got = reflect.New(b.typ)
		if err := e.h.ProfileRead(ctx, sw, got.Interface()); err != nil {
			// a profile whose every field was skipped creates no swamp at all
			if hydraidego.IsSwampNotFound(err) || hydraidego.IsFailedPrecondition(err) {
				out.Classes = append(out.Classes, "profile-nothing-stored")
				return got, want, false, nil
			}
			return f("read-error", "ProfileRead failed: %v", err)
		}
		return got, want, false, nil
	}
	var err error
	switch s.Flow {
	case "create":
		err = e.h.CatalogCreate(ctx, sw, m1.Interface())
	default:
		_, err = e.h.CatalogSave(ctx, sw, m1.Interface())
	}
	if err != nil {
		if isRejected(err) {
			out.Classes = append(out.Classes, "reject-reason:"+err.Error())
			return got, want, true, nil
		}
		return f("sdk-error", "first write (%s) failed: %v", s.Flow, err)
	}
	switch s.Flow {
	case "save-save":
		_, err = e.h.CatalogSave(ctx, sw, m2.Interface())
		want = m2
	case "save-update":
		err = e.h.CatalogUpdate(ctx, sw, m2.Interface())
		want = m2
	}
	if err != nil {
		if isRejected(err) {
			return got, want, true, nil
		}
		return f("sdk-error", "second write (%s) failed: %v", s.Flow, err)
	}
	if s.Reopen {
		e.r.CloseSwamp(sw.Get())
	}
	got = reflect.New(b.typ)
	switch s.Read {
	case "read":
		if err := e.h.CatalogRead(ctx, sw, key, got.Interface()); err != nil {
			return f("read-error", "CatalogRead(%q) failed: %v", key, err)
		}
	case "readmany", "readbatch":
		found := 0
		it := func(m any) error {
			v := reflect.ValueOf(m)
			if v.Elem().Field(b.keyIdx).String() == key || found == 0 {
				got = v
			}
			found++
			return nil
		}
		if s.Read == "readmany" {
			err = e.h.CatalogReadMany(ctx, sw, &hydraidego.Index{IndexType: hydraidego.IndexKey, IndexOrder: hydraidego.IndexOrderAsc}, reflect.Zero(b.typ).Interface(), it)
		} else {
			err = e.h.CatalogReadBatch(ctx, sw, []string{key}, reflect.Zero(b.typ).Interface(), it)
		}
		if err != nil {
			return f("read-error", "%s failed: %v", s.Read, err)
		}
		if found != 1 {
			return f("read-error", "%s returned %d models, want 1", s.Read, found)
		}
	}
	return got, want, false, nil
}

// c22Compare checks got against want field by field under the normal form.
func c22Compare(s C22Scenario, b c22Built, want, got reflect.Value) string {
	w, g := want.Elem(), got.Elem()
	if b.keyIdx >= 0 && g.Field(b.keyIdx).String() != w.Field(b.keyIdx).String() {
		return fmt.Sprintf("key read back as %q, saved %q", g.Field(b.keyIdx).String(), w.Field(b.keyIdx).String())
	}
	for i, fl := range s.Fields {
		idx := b.fieldIdx[i]
		secOnly := fl.Kind == "time" && s.Shape != "mapbody"
		if !c22Equal(w.Field(idx), g.Field(idx), secOnly) {
			return fmt.Sprintf("field %s (kind %s, tag %q): saved %s, read back %s", fl.Name, fl.Kind, b.typ.Field(idx).Tag, c22Show(w.Field(idx)), c22Show(g.Field(idx)))
		}
	}
	for i, m := range s.Meta {
		idx := b.metaIdx[i]
		if !c22Equal(w.Field(idx), g.Field(idx), false) {
			return fmt.Sprintf("meta %s (tag %q): saved %s, read back %s", m.Which, b.typ.Field(idx).Tag, c22Show(w.Field(idx)), c22Show(g.Field(idx)))
		}
	}
	return ""
}

func runC22(s C22Scenario) pbt.Outcome {
	e, err := c22GetEnv()
	if err != nil {
		return pbt.Failf("harness", "%v", err)
	}
	e.caseNo++
	var out pbt.Outcome
	b, err := c22Build(s, false)
	if err != nil {
		return pbt.Outcome{Skip: true}
	}
	realm := "gob"
	if s.Encoding == "msgpack" {
		realm = "mp"
	}
	sw := name.New().Sanctuary("c22").Realm(realm).Swamp(fmt.Sprintf("n%d", e.caseNo))
	ctx, cancel := context.WithTimeout(context.Background(), 30*time.Second)
	defer cancel()
	defer e.h.Destroy(ctx, sw)
	out.Classes = append(out.Classes, "shape:"+s.Shape, "flow:"+s.Flow, "enc:"+s.Encoding)
	if s.Shape != "profile" {
		out.Classes = append(out.Classes, "read:"+s.Read)
	}
	got, want, rejected, fail := e.roundTrip(ctx, s, b, sw, s.Key, &out)
	if fail != nil {
		return *fail
	}
	if rejected {
		// Every generated catalog model follows the documented rules (non-empty string key, time.Time meta
		// fields that are zero only together with omitempty), so the SDK has no reason to refuse it. A profile
		// whose every field is skipped is the one documented-by-behaviour exception (nothing to store).
		if s.Shape != "profile" {
			return pbt.Failf("rejected", "%s model, flow %s, %s: the SDK refused a model that follows the documented rules", s.Shape, s.Flow, s.Encoding)
		}
		out.Classes = append(out.Classes, "profile-all-fields-skipped")
		return out
	}
	if d := c22Compare(s, b, want, got); d != "" {
		return pbt.Failf("mismatch", "%s model, flow %s, read %s, %s: %s", s.Shape, s.Flow, s.Read, s.Encoding, d)
	}
	if s.Shape == "mapbody" && s.Rename >= 0 && s.Rename < len(s.Fields) {
		b2, err := c22Build(s, true)
		if err == nil {
			sw2 := name.New().Sanctuary("c22").Realm(realm).Swamp(fmt.Sprintf("n%dr", e.caseNo))
			defer e.h.Destroy(ctx, sw2)
			got2, want2, rej2, fail2 := e.roundTrip(ctx, s, b2, sw2, s.Key, &out)
			if fail2 != nil {
				fail2.Fail = "after renaming tag " + s.Fields[s.Rename].Tag + "→" + s.NewTag + ": " + fail2.Fail
				return *fail2
			}
			if rej2 {
				return pbt.Failf("metamorphic", "renaming body tag %q to %q made the SDK reject the model", s.Fields[s.Rename].Tag, s.NewTag)
			}
			if d := c22Compare(s, b2, want2, got2); d != "" {
				return pbt.Failf("metamorphic", "renaming body tag %q to %q changed what is read back: %s", s.Fields[s.Rename].Tag, s.NewTag, d)
			}
			// every field (renamed one included) must read back the same as before the rename
			for i := range s.Fields {
				if !c22Equal(got.Elem().Field(b.fieldIdx[i]), got2.Elem().Field(b2.fieldIdx[i]), false) {
					return pbt.Failf("metamorphic", "renaming body tag %q to %q changed field %s: %s vs %s", s.Fields[s.Rename].Tag, s.NewTag,
						s.Fields[i].Name, c22Show(got.Elem().Field(b.fieldIdx[i])), c22Show(got2.Elem().Field(b2.fieldIdx[i])))
				}
			}
			out.Classes = append(out.Classes, "metamorphic-rename")
		}
	}
	empties := 0
	for _, f := range s.Fields {
		if f.V.isEmpty(f.Kind) {
			empties++
		}
		out.Classes = append(out.Classes, "kind:"+f.Kind)
		if s.Shape == "mapbody" && c22HasReserved(f.Tag) {
			out.Classes = append(out.Classes, "tag-with-reserved-substring")
		}
	}
	for _, m := range s.Meta {
		if (strings.HasSuffix(m.Which, "At") && m.V.ZeroT) || (!strings.HasSuffix(m.Which, "At") && m.V.S == "") {
			empties++
		}
		out.Classes = append(out.Classes, "meta:"+m.Which)
	}
	if s.Reopen {
		out.Classes = append(out.Classes, "reopen")
	}
	out.NonTrivial = len(s.Fields)+len(s.Meta) >= 2 && empties >= 1
	return out
}

const c22Rule = "struct types built with reflect.StructOf: key field + shape in {key-only, single `value` field, map-body with 1..6 tagged fields, profile with 1..6 fields}; " +
	"field kinds string/bool/int8..int64/int/uint8..uint64/uint/float32/float64/[]byte/time.Time/[]string/[]int64/[]uint32/map[string]string/map[string]int64/*struct, " +
	"and NAMED types over them: json.RawMessage, net.IP, local named []byte / string / int8 / float64 / bool / []string / map[string]int64, time.Duration, pointers to named string / int8 / Duration; " +
	"optional createdAt/createdBy/updatedAt/updatedBy/expireAt fields with/without omitempty; map-body tag names random identifiers (plus reserved-substring names when that finding is closed); " +
	"values incl. zero values, nil and empty containers, NaN/Inf, extreme ints; flows CatalogSave / Create / Save+Save / Save+Update (ProfileSave once or twice), " +
	"reads CatalogRead / ReadMany / ReadBatch (ProfileRead), GOB and MessagePack swamps, optional close+reload before the read, optional metamorphic tag rename; " +
	"non-trivial = >= 2 fields besides the key AND >= 1 zero/empty value; distinct = hash of the scenario"

func c22Cfg(facet string) c22GenCfg {
	cfg := c22GenCfg{trickyTags: true, kinds: append(append([]string{}, c22Kinds...), c22NamedKindList...), shapes: []string{"keyonly", "value", "value", "mapbody", "mapbody", "mapbody", "profile", "profile"}}
	note := func(open bool, what string) bool {
		if open && facet != "" {
			pbt.Excluded("C22", facet, what)
		}
		return open
	}
	if note(pbt.Open("C22", "reserved-tag-substring"), "map-body tag names containing a reserved word as a substring (open finding)") {
		cfg.trickyTags = false
	}
	cfg.avoidVoidOverValue = note(pbt.Open("C22", "void-write-keeps-old-value"), "second write with an empty (void) content over a stored value (open finding)")
	cfg.avoidNilBodyField = note(pbt.Open("C22", "mapbody-nil-field-unreadable"), "map-body field holding a nil slice/map/pointer/[]byte without omitempty (open finding)")
	if !note(pbt.Open("C22", "plain-struct-value-dropped"), "non-pointer struct fields in single-value and profile models (open finding)") {
		cfg.kinds = append(cfg.kinds, "struct")
	}
	return cfg
}

func TestC22Main(t *testing.T) {
	defer c22Finish()
	pbt.Main(t, pbt.Spec[C22Scenario]{
		ID: "C22", Facet: "main", Rule: c22Rule,
		Quick: 20000, Thorough: 600000,
		Gen: genC22(c22Cfg("main")), Run: runC22,
	})
}

// --- witnesses of open findings ---------------------------------------------

func c22WitnessCfg() c22GenCfg {
	cfg := c22Cfg("")
	return cfg
}

var c22EmptyVal = C22Val{Nil: true, ZeroT: true}

func TestC22WitnessReservedTag(t *testing.T) {
	defer c22Finish()
	cfg := c22WitnessCfg()
	base := genC22(cfg)
	gen := func(t *rapid.T) C22Scenario {
		s := base(t)
		s.Shape = "mapbody"
		if len(s.Fields) == 0 {
			s.Fields = []C22Field{{Name: "F0", Kind: "string", V: C22Val{S: "a"}, V2: C22Val{S: "b"}}}
		}
		for i := range s.Fields {
			s.Fields[i].Name = fmt.Sprintf("F%d", i)
			s.Fields[i].Del = false
			if s.Fields[i].Tag == "" {
				s.Fields[i].Tag = fmt.Sprintf("t%d", i)
			}
			if s.Fields[i].Kind == "struct" {
				s.Fields[i].Kind = "string"
			}
		}
		if s.Read == "" {
			s.Read = "read"
		}
		if s.Flow != "save" && s.Flow != "create" {
			s.Flow = "save"
		}
		j := rapid.IntRange(0, len(s.Fields)-1).Draw(t, "trickyField")
		s.Fields[j].Tag = rapid.SampledFrom(c22TrickyTags).Draw(t, "forcedTricky")
		if s.Rename == j {
			s.Rename = -1
		}
		return s
	}
	pbt.Witness(t, pbt.Spec[C22Scenario]{
		ID: "C22", Facet: "witness-reserved-tag", Rule: "map-body models with one body tag that contains a reserved word as a substring (keywords, values, monkey, createdAtX, …)",
		Quick: 400, Thorough: 4000, Gen: gen, Run: runC22,
	}, "reserved-tag-substring", "mismatch", "metamorphic", "panic", "read-error", "rejected")
}

func TestC22WitnessVoidWrite(t *testing.T) {
	defer c22Finish()
	cfg := c22WitnessCfg()
	cfg.avoidVoidOverValue = false
	base := genC22(cfg)
	gen := func(t *rapid.T) C22Scenario {
		s := base(t)
		if s.Shape == "keyonly" {
			s.Shape = "value"
			s.Fields = []C22Field{{Name: "F0", Kind: "string"}}
		}
		s.Flow = "save-save"
		if s.Shape != "profile" && rapid.Bool().Draw(t, "upd") {
			s.Flow = "save-update"
		}
		if s.Read == "" {
			s.Read = "read"
		}
		s.Rename = -1
		// first write stores a value in field 0, the second write sends nothing for it
		s.Fields[0].Kind = "string"
		s.Fields[0].Omit, s.Fields[0].Del = true, false
		s.Fields[0].V = C22Val{S: "first"}
		s.Fields[0].V2 = C22Val{}
		if s.Shape == "mapbody" {
			for i := range s.Fields {
				s.Fields[i].Omit = true
				s.Fields[i].V2 = c22EmptyVal
				if s.Fields[i].Kind == "bool" { // a bool is never "empty" for the SDK
					s.Fields[i].Kind = "string"
					s.Fields[i].V, s.Fields[i].V2 = C22Val{S: "x"}, C22Val{}
				}
			}
		}
		return s
	}
	pbt.Witness(t, pbt.Spec[C22Scenario]{
		ID: "C22", Facet: "witness-void-write", Rule: "Save then Save/Update where the second model's value is empty with omitempty (content sent as void) over a stored value",
		Quick: 200, Thorough: 2000, Gen: gen, Run: runC22,
	}, "void-write-keeps-old-value", "mismatch")
}

func TestC22WitnessNilBodyField(t *testing.T) {
	defer c22Finish()
	cfg := c22WitnessCfg()
	cfg.avoidNilBodyField = false
	base := genC22(cfg)
	gen := func(t *rapid.T) C22Scenario {
		s := base(t)
		s.Shape = "mapbody"
		if len(s.Fields) == 0 {
			s.Fields = []C22Field{{Name: "F0"}}
		}
		for i := range s.Fields {
			s.Fields[i].Name = fmt.Sprintf("F%d", i)
			s.Fields[i].Del = false
			if s.Fields[i].Tag == "" {
				s.Fields[i].Tag = fmt.Sprintf("t%d", i)
			}
			if s.Fields[i].Kind == "struct" {
				s.Fields[i].Kind = "string"
			}
		}
		s.Flow = "save"
		if s.Read == "" {
			s.Read = "read"
		}
		s.Rename = -1
		s.Fields[0].Kind = rapid.SampledFrom([]string{"bytes", "strslice", "i64slice", "u32slice", "strmap", "i64map", "ptrinner"}).Draw(t, "nilkind")
		s.Fields[0].Omit = false
		s.Fields[0].V = C22Val{Nil: true}
		s.Fields[0].V2 = C22Val{Nil: true}
		return s
	}
	pbt.Witness(t, pbt.Spec[C22Scenario]{
		ID: "C22", Facet: "witness-nil-body-field", Rule: "map-body models with a nil slice/map/pointer/[]byte field that has no omitempty",
		Quick: 200, Thorough: 2000, Gen: gen, Run: runC22,
	}, "mapbody-nil-field-unreadable", "read-error")
}

func TestC22WitnessPlainStruct(t *testing.T) {
	defer c22Finish()
	cfg := c22WitnessCfg()
	base := genC22(cfg)
	gen := func(t *rapid.T) C22Scenario {
		s := base(t)
		if s.Shape != "profile" {
			s.Shape = "value"
			s.Fields = []C22Field{{Name: "F0"}}
			s.Rename = -1
			if s.Read == "" {
				s.Read = "read"
			}
		}
		s.Flow = "save"
		s.Fields[0].Kind = "struct"
		s.Fields[0].Omit, s.Fields[0].Del = false, false
		s.Fields[0].V = C22Val{In: &C22Inner{A: rapid.StringN(1, 8, 20).Draw(t, "A"), B: rapid.Int64().Draw(t, "B")}}
		s.Fields[0].V2 = s.Fields[0].V
		return s
	}
	pbt.Witness(t, pbt.Spec[C22Scenario]{
		ID: "C22", Facet: "witness-plain-struct", Rule: "single-value and profile models with a non-pointer struct field",
		Quick: 200, Thorough: 2000, Gen: gen, Run: runC22,
	}, "plain-struct-value-dropped", "mismatch")
}
