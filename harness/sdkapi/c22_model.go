package sdkapi

import (
	"bytes"
	"encoding/json"
	"fmt"
	"math"
	"net"
	"reflect"
	"strings"
	"time"

	"pgregory.net/rapid"
)

// ---------------------------------------------------------------------------
// C22 scenario: a struct TYPE description + values, all JSON-serialisable.

// C22Inner is the named struct used behind pointer (and, for the witness, plain struct) fields.
type C22Inner struct {
	A string
	B int64
	C []string
}

// C22Val holds a value for any supported kind (only the member matching the kind is used).
type C22Val struct {
	S     string            `json:"s,omitempty"`
	I     int64             `json:"i,omitempty"`
	U     uint64            `json:"u,omitempty"`
	FBits uint64            `json:"fbits,omitempty"` // float64 bits (JSON cannot carry NaN/Inf)
	B     bool              `json:"b,omitempty"`
	Y     []byte            `json:"y,omitempty"`
	Sec   int64             `json:"sec,omitempty"` // time: unix seconds, 0 together with Nsec 0 and ZeroT = zero time
	Nsec  int64             `json:"nsec,omitempty"`
	ZeroT bool              `json:"zero_t,omitempty"`
	SS    []string          `json:"ss,omitempty"`
	IS    []int64           `json:"is,omitempty"`
	US    []uint32          `json:"us,omitempty"`
	SM    map[string]string `json:"sm,omitempty"`
	IM    map[string]int64  `json:"im,omitempty"`
	Nil   bool              `json:"nil,omitempty"`   // containers / pointers: nil
	Empty bool              `json:"empty,omitempty"` // containers: non-nil but empty
	In    *C22Inner         `json:"in,omitempty"`
}

type C22Field struct {
	Name string `json:"name"`           // Go field name (exported identifier); the record key in profile shape
	Tag  string `json:"tag,omitempty"`  // map-body wire name; "" otherwise
	Kind string `json:"kind"`           // see c22Kinds
	Omit bool   `json:"omit,omitempty"` // omitempty
	Del  bool   `json:"del,omitempty"`  // profile: deletable
	V    C22Val `json:"v"`
	V2   C22Val `json:"v2"` // second value (save-save / save-update flows)
}

type C22Meta struct {
	Which string `json:"which"` // createdAt | createdBy | updatedAt | updatedBy | expireAt
	Omit  bool   `json:"omit,omitempty"`
	V     C22Val `json:"v"`
	V2    C22Val `json:"v2"`
}

type C22Scenario struct {
	Shape    string     `json:"shape"` // keyonly | value | mapbody | profile
	Key      string     `json:"key"`
	Fields   []C22Field `json:"fields"`
	Meta     []C22Meta  `json:"meta,omitempty"`
	Flow     string     `json:"flow"`     // save | create | save-save | save-update
	Read     string     `json:"read"`     // read | readmany | readbatch
	Encoding string     `json:"encoding"` // gob | msgpack
	Reopen   bool       `json:"reopen,omitempty"`
	// metamorphic: rename the tag of body field Rename to NewTag (map-body only; -1 = off)
	Rename int    `json:"rename"`
	NewTag string `json:"new_tag,omitempty"`
}

var c22Kinds = []string{"string", "bool", "int8", "int16", "int32", "int64", "int", "uint8", "uint16", "uint32", "uint64", "uint",
	"float32", "float64", "bytes", "time", "strslice", "i64slice", "u32slice", "strmap", "i64map", "ptrinner"}

var timeType = reflect.TypeOf(time.Time{})

// Named types: the same underlying kinds under a defined type name (standard-library ones and local ones).
type (
	C22Blob  []byte
	C22Label string
	C22Level int8
	C22Score float64
	C22Flag  bool
	C22Tags  []string
	C22Attrs map[string]int64
)

type c22Named struct {
	base string // underlying kind of c22Kinds ("ptr:" + kind = pointer to the named type)
	typ  reflect.Type
}

var c22NamedKinds = map[string]c22Named{
	"n-rawmessage": {"bytes", reflect.TypeOf(json.RawMessage(nil))},
	"n-ip":         {"bytes", reflect.TypeOf(net.IP(nil))},
	"n-blob":       {"bytes", reflect.TypeOf(C22Blob(nil))},
	"n-label":      {"string", reflect.TypeOf(C22Label(""))},
	"n-level":      {"int8", reflect.TypeOf(C22Level(0))},
	"n-duration":   {"int64", reflect.TypeOf(time.Duration(0))},
	"n-score":      {"float64", reflect.TypeOf(C22Score(0))},
	"n-flag":       {"bool", reflect.TypeOf(C22Flag(false))},
	"n-tags":       {"strslice", reflect.TypeOf(C22Tags(nil))},
	"n-attrs":      {"i64map", reflect.TypeOf(C22Attrs(nil))},
	"p-label":      {"ptr:string", reflect.TypeOf((*C22Label)(nil))},
	"p-level":      {"ptr:int8", reflect.TypeOf((*C22Level)(nil))},
	"p-duration":   {"ptr:int64", reflect.TypeOf((*time.Duration)(nil))},
}

var c22NamedKindList = []string{"n-rawmessage", "n-ip", "n-blob", "n-label", "n-level", "n-duration", "n-score", "n-flag", "n-tags", "n-attrs", "p-label", "p-level", "p-duration"}

// c22Base returns the underlying kind used for value generation and for the emptiness / void rules
// ("ptrinner" stands for every pointer kind: nil or not).
func c22Base(kind string) string {
	if n, ok := c22NamedKinds[kind]; ok {
		if strings.HasPrefix(n.base, "ptr:") {
			return "ptrinner"
		}
		return n.base
	}
	return kind
}

func c22GoType(kind string) reflect.Type {
	if n, ok := c22NamedKinds[kind]; ok {
		return n.typ
	}
	switch kind {
	case "string":
		return reflect.TypeOf("")
	case "bool":
		return reflect.TypeOf(false)
	case "int8":
		return reflect.TypeOf(int8(0))
	case "int16":
		return reflect.TypeOf(int16(0))
	case "int32":
		return reflect.TypeOf(int32(0))
	case "int64":
		return reflect.TypeOf(int64(0))
	case "int":
		return reflect.TypeOf(int(0))
	case "uint8":
		return reflect.TypeOf(uint8(0))
	case "uint16":
		return reflect.TypeOf(uint16(0))
	case "uint32":
		return reflect.TypeOf(uint32(0))
	case "uint64":
		return reflect.TypeOf(uint64(0))
	case "uint":
		return reflect.TypeOf(uint(0))
	case "float32":
		return reflect.TypeOf(float32(0))
	case "float64":
		return reflect.TypeOf(float64(0))
	case "bytes":
		return reflect.TypeOf([]byte(nil))
	case "time":
		return timeType
	case "strslice":
		return reflect.TypeOf([]string(nil))
	case "i64slice":
		return reflect.TypeOf([]int64(nil))
	case "u32slice":
		return reflect.TypeOf([]uint32(nil))
	case "strmap":
		return reflect.TypeOf(map[string]string(nil))
	case "i64map":
		return reflect.TypeOf(map[string]int64(nil))
	case "ptrinner":
		return reflect.TypeOf((*C22Inner)(nil))
	case "struct":
		return reflect.TypeOf(C22Inner{})
	}
	panic("unknown kind " + kind)
}

func (v C22Val) time() time.Time {
	if v.ZeroT {
		return time.Time{}
	}
	return time.Unix(v.Sec, v.Nsec).UTC()
}

// c22GoValue builds the Go value of a kind.
func c22GoValue(kind string, v C22Val) reflect.Value {
	if n, ok := c22NamedKinds[kind]; ok {
		if strings.HasPrefix(n.base, "ptr:") {
			out := reflect.New(n.typ).Elem()
			if !v.Nil {
				p := reflect.New(n.typ.Elem())
				p.Elem().Set(c22GoValue(n.base[4:], v).Convert(n.typ.Elem()))
				out.Set(p)
			}
			return out
		}
		return c22GoValue(n.base, v).Convert(n.typ)
	}
	t := c22GoType(kind)
	out := reflect.New(t).Elem()
	switch kind {
	case "string":
		out.SetString(v.S)
	case "bool":
		out.SetBool(v.B)
	case "int8", "int16", "int32", "int64", "int":
		out.SetInt(v.I) // generator keeps I inside the kind's range
	case "uint8", "uint16", "uint32", "uint64", "uint":
		out.SetUint(v.U)
	case "float32":
		out.SetFloat(float64(float32(math.Float64frombits(v.FBits))))
	case "float64":
		out.SetFloat(math.Float64frombits(v.FBits))
	case "bytes":
		if !v.Nil {
			out.SetBytes(append([]byte{}, v.Y...))
		}
	case "time":
		out.Set(reflect.ValueOf(v.time()))
	case "strslice":
		if !v.Nil {
			out.Set(reflect.ValueOf(append([]string{}, v.SS...)))
		}
	case "i64slice":
		if !v.Nil {
			out.Set(reflect.ValueOf(append([]int64{}, v.IS...)))
		}
	case "u32slice":
		if !v.Nil {
			out.Set(reflect.ValueOf(append([]uint32{}, v.US...)))
		}
	case "strmap":
		if !v.Nil {
			m := map[string]string{}
			for k, x := range v.SM {
				m[k] = x
			}
			out.Set(reflect.ValueOf(m))
		}
	case "i64map":
		if !v.Nil {
			m := map[string]int64{}
			for k, x := range v.IM {
				m[k] = x
			}
			out.Set(reflect.ValueOf(m))
		}
	case "ptrinner":
		if !v.Nil && v.In != nil {
			c := *v.In
			c.C = append([]string(nil), v.In.C...)
			out.Set(reflect.ValueOf(&c))
		}
	case "struct":
		if v.In != nil {
			c := *v.In
			out.Set(reflect.ValueOf(c))
		}
	}
	return out
}

// ---------------------------------------------------------------------------
// struct type construction

type c22Built struct {
	typ      reflect.Type
	keyIdx   int
	fieldIdx []int // struct index of Fields[i]
	metaIdx  []int // struct index of Meta[i]
	tagOf    []string
}

func c22Tag(parts ...string) reflect.StructTag {
	var ps []string
	for _, p := range parts {
		if p != "" {
			ps = append(ps, p)
		}
	}
	return reflect.StructTag(`hydraide:"` + strings.Join(ps, ",") + `"`)
}

// c22Build builds the struct type for a scenario. rename applies the metamorphic tag rename.
func c22Build(s C22Scenario, rename bool) (c22Built, error) {
	var b c22Built
	var sf []reflect.StructField
	add := func(name string, t reflect.Type, tag reflect.StructTag) int {
		sf = append(sf, reflect.StructField{Name: name, Type: t, Tag: tag})
		return len(sf) - 1
	}
	b.keyIdx = -1
	if s.Shape != "profile" {
		b.keyIdx = add("K", reflect.TypeOf(""), c22Tag("key"))
	}
	for i, f := range s.Fields {
		var tag reflect.StructTag
		om := ""
		if f.Omit {
			om = "omitempty"
		}
		switch s.Shape {
		case "value":
			tag = c22Tag("value", om)
		case "mapbody":
			tn := f.Tag
			if rename && i == s.Rename {
				tn = s.NewTag
			}
			tag = c22Tag(tn, om)
		case "profile":
			del := ""
			if f.Del {
				del = "deletable"
			}
			if om != "" || del != "" {
				tag = c22Tag(om, del)
			}
		}
		b.fieldIdx = append(b.fieldIdx, add(f.Name, c22GoType(f.Kind), tag))
	}
	for _, m := range s.Meta {
		om := ""
		if m.Omit {
			om = "omitempty"
		}
		t := reflect.TypeOf("")
		if strings.HasSuffix(m.Which, "At") {
			t = timeType
		}
		b.metaIdx = append(b.metaIdx, add("M"+strings.ToUpper(m.Which[:1])+m.Which[1:], t, c22Tag(m.Which, om)))
	}
	var err error
	func() {
		defer func() {
			if r := recover(); r != nil {
				err = fmt.Errorf("reflect.StructOf: %v", r)
			}
		}()
		b.typ = reflect.StructOf(sf)
	}()
	return b, err
}

// c22Fill returns a pointer to a new struct holding the scenario's values (second=true: V2).
func c22Fill(s C22Scenario, b c22Built, second bool) reflect.Value {
	p := reflect.New(b.typ)
	e := p.Elem()
	if b.keyIdx >= 0 {
		e.Field(b.keyIdx).SetString(s.Key)
	}
	for i, f := range s.Fields {
		v := f.V
		if second {
			v = f.V2
		}
		e.Field(b.fieldIdx[i]).Set(c22GoValue(f.Kind, v))
	}
	for i, m := range s.Meta {
		v := m.V
		if second {
			v = m.V2
		}
		if strings.HasSuffix(m.Which, "At") {
			e.Field(b.metaIdx[i]).Set(reflect.ValueOf(v.time()))
		} else {
			e.Field(b.metaIdx[i]).SetString(v.S)
		}
	}
	return p
}

// ---------------------------------------------------------------------------
// normal form comparison

// c22Equal compares a saved and a read-back value of one field under the stated
// normal form: nil ≡ empty for slices, maps and bytes; NaN ≡ NaN; time.Time compared
// with Equal after truncating the SAVED value to secondsOnly resolution when the SDK
// documents a Unix-seconds representation (single-value / profile time fields).
func c22Equal(want, got reflect.Value, secondsOnly bool) bool {
	if want.Type() == timeType {
		w := want.Interface().(time.Time)
		g := got.Interface().(time.Time)
		if w.IsZero() {
			return g.IsZero()
		}
		if secondsOnly {
			w = time.Unix(w.Unix(), 0)
		}
		return w.Equal(g)
	}
	switch want.Kind() {
	case reflect.Float32, reflect.Float64:
		a, b := want.Float(), got.Float()
		if a != a {
			return b != b
		}
		return a == b // -0 ≡ +0: the SDK's omitempty treats both as the zero value
	case reflect.Slice:
		if want.Len() != got.Len() {
			return false
		}
		if want.Type().Elem().Kind() == reflect.Uint8 {
			return bytes.Equal(want.Bytes(), got.Bytes())
		}
		for i := 0; i < want.Len(); i++ {
			if !c22Equal(want.Index(i), got.Index(i), false) {
				return false
			}
		}
		return true
	case reflect.Map:
		if want.Len() != got.Len() {
			return false
		}
		for _, k := range want.MapKeys() {
			g := got.MapIndex(k)
			if !g.IsValid() || !c22Equal(want.MapIndex(k), g, false) {
				return false
			}
		}
		return true
	case reflect.Ptr:
		if want.IsNil() || got.IsNil() {
			return want.IsNil() == got.IsNil()
		}
		return c22Equal(want.Elem(), got.Elem(), false)
	case reflect.Struct:
		for i := 0; i < want.NumField(); i++ {
			if !c22Equal(want.Field(i), got.Field(i), false) {
				return false
			}
		}
		return true
	}
	return reflect.DeepEqual(want.Interface(), got.Interface())
}

func c22Show(v reflect.Value) string {
	if v.Type() == timeType {
		return v.Interface().(time.Time).UTC().Format(time.RFC3339Nano)
	}
	if v.Kind() == reflect.Ptr && !v.IsNil() {
		return "&" + c22Show(v.Elem())
	}
	s := fmt.Sprintf("%#v", v.Interface())
	if len(s) > 160 {
		s = s[:160] + "…"
	}
	return s
}

// ---------------------------------------------------------------------------
// generators

var c22ReservedWords = []string{"key", "value", "expireAt", "createdAt", "createdBy", "updatedAt", "updatedBy"}

// reserved-substring tag names: contain a reserved word without being one
var c22TrickyTags = []string{"keywords", "values", "createdAtX", "monkey", "expireAtLocal", "hotkey", "valueAdded", "xupdatedByy", "updatedAtMs", "createdByTeam", "turkey", "keyboard", "evaluated"}

func c22HasReserved(tag string) bool {
	for _, w := range c22ReservedWords {
		if strings.Contains(tag, w) {
			return true
		}
	}
	return strings.Contains(tag, "omitempty") || strings.Contains(tag, "deletable") || strings.Contains(tag, "searchMeta")
}

func c22GenTag(t *rapid.T, tricky bool, used map[string]bool, label string) string {
	for try := 0; ; try++ {
		var tag string
		if tricky && rapid.IntRange(0, 3).Draw(t, label+"tricky") == 0 {
			tag = rapid.SampledFrom(c22TrickyTags).Draw(t, label+"trickytag")
		} else {
			tag = rapid.StringMatching(`[A-Za-z][A-Za-z0-9_]{0,9}`).Draw(t, label+"tag")
			if c22HasReserved(tag) {
				tag = "f" + fmt.Sprint(len(used))
			}
		}
		if !used[tag] {
			used[tag] = true
			return tag
		}
		if try > 20 {
			tag = fmt.Sprintf("g%d", len(used))
			used[tag] = true
			return tag
		}
	}
}

func genC22Time(t *rapid.T, label string, allowZero bool) C22Val {
	c := rapid.IntRange(0, 9).Draw(t, label+"tclass")
	if c == 0 && allowZero {
		return C22Val{ZeroT: true}
	}
	// 1971 .. 2200, any nanosecond
	sec := rapid.Int64Range(31536000, 7258118400).Draw(t, label+"sec")
	nsec := rapid.SampledFrom([]int64{0, 0, 1, 999999999, 500000000, 123456789}).Draw(t, label+"nsec")
	return C22Val{Sec: sec, Nsec: nsec}
}

func genC22Str(t *rapid.T, label string) string {
	c := rapid.IntRange(0, 9).Draw(t, label+"sclass")
	switch {
	case c == 0:
		return ""
	case c < 7:
		return rapid.StringN(0, 12, 40).Draw(t, label+"str")
	case c < 8:
		return rapid.SampledFrom([]string{"\x00", " ", "é日本", "a,b", "omitempty", "key"}).Draw(t, label+"odd")
	default:
		return strings.Repeat("s", rapid.SampledFrom([]int{100, 1000, 5000}).Draw(t, label+"slen"))
	}
}

func genC22Val(t *rapid.T, kind, label string) C22Val {
	if n, ok := c22NamedKinds[kind]; ok {
		if strings.HasPrefix(n.base, "ptr:") {
			if rapid.IntRange(0, 3).Draw(t, label+"pnil") == 0 {
				return C22Val{Nil: true}
			}
			return genC22Val(t, n.base[4:], label)
		}
		v := genC22Val(t, n.base, label)
		if kind == "n-ip" && !v.Nil {
			// net.IP is a text marshaler (msgpack/gob store its textual form): use the 16-byte form of a
			// non-IPv4 address, which that form reproduces byte for byte
			ip := append([]byte{0x20, 0x01, 0x0d, 0xb8}, make([]byte, 12)...)
			copy(ip[4:], v.Y)
			v.Y, v.Empty = ip, false
		}
		return v
	}
	var v C22Val
	zero := rapid.IntRange(0, 4).Draw(t, label+"zero") == 0
	switch kind {
	case "string":
		if !zero {
			v.S = genC22Str(t, label)
		}
	case "bool":
		v.B = rapid.Bool().Draw(t, label+"b")
	case "int8", "int16", "int32", "int64", "int":
		if zero {
			break
		}
		bits := map[string]uint{"int8": 8, "int16": 16, "int32": 32, "int64": 64, "int": 64}[kind]
		min, max := -int64(1)<<(bits-1), int64(1)<<(bits-1)-1
		v.I = rapid.OneOf(rapid.Int64Range(min, max), rapid.SampledFrom([]int64{min, max, -1, 1})).Draw(t, label+"i")
	case "uint8", "uint16", "uint32", "uint64", "uint":
		if zero {
			break
		}
		bits := map[string]uint{"uint8": 8, "uint16": 16, "uint32": 32, "uint64": 64, "uint": 64}[kind]
		max := uint64(math.MaxUint64)
		if bits < 64 {
			max = uint64(1)<<bits - 1
		}
		v.U = rapid.OneOf(rapid.Uint64Range(0, max), rapid.SampledFrom([]uint64{max, 1, max / 2, max/2 + 1})).Draw(t, label+"u")
	case "float32", "float64":
		if zero {
			break
		}
		f := rapid.OneOf(rapid.Float64(), rapid.SampledFrom([]float64{math.NaN(), math.Inf(1), math.Inf(-1), math.Copysign(0, -1), math.MaxFloat32, math.SmallestNonzeroFloat64, 0.1})).Draw(t, label+"f")
		if kind == "float32" {
			f = float64(float32(f))
		}
		v.FBits = math.Float64bits(f)
	case "bytes":
		switch c := rapid.IntRange(0, 5).Draw(t, label+"yclass"); {
		case zero || c == 0:
			v.Nil = true
		case c == 1:
			v.Empty = true
			v.Y = []byte{}
		case c == 2:
			v.Y = append([]byte{0xC7, 0x00}, rapid.SliceOfN(rapid.Byte(), 0, 8).Draw(t, label+"ymagic")...) // looks like a wrapped msgpack blob
		default:
			v.Y = rapid.SliceOfN(rapid.Byte(), 1, 40).Draw(t, label+"y")
		}
	case "time":
		v = genC22Time(t, label, true)
		if zero {
			v = C22Val{ZeroT: true}
		}
	case "strslice", "i64slice", "u32slice", "strmap", "i64map":
		c := rapid.IntRange(0, 5).Draw(t, label+"cclass")
		if zero || c == 0 {
			v.Nil = true
			break
		}
		if c == 1 {
			v.Empty = true
		}
		n := 0
		if c > 1 {
			n = rapid.IntRange(1, 5).Draw(t, label+"n")
		}
		switch kind {
		case "strslice":
			v.SS = []string{}
			for i := 0; i < n; i++ {
				v.SS = append(v.SS, genC22Str(t, fmt.Sprintf("%s[%d]", label, i)))
			}
		case "i64slice":
			v.IS = []int64{}
			for i := 0; i < n; i++ {
				v.IS = append(v.IS, rapid.Int64().Draw(t, fmt.Sprintf("%s[%d]", label, i)))
			}
		case "u32slice":
			v.US = []uint32{}
			for i := 0; i < n; i++ {
				v.US = append(v.US, rapid.Uint32().Draw(t, fmt.Sprintf("%s[%d]", label, i)))
			}
		case "strmap":
			v.SM = map[string]string{}
			for i := 0; i < n; i++ {
				v.SM[genC22Str(t, fmt.Sprintf("%sk[%d]", label, i))] = genC22Str(t, fmt.Sprintf("%sv[%d]", label, i))
			}
		case "i64map":
			v.IM = map[string]int64{}
			for i := 0; i < n; i++ {
				v.IM[genC22Str(t, fmt.Sprintf("%sk[%d]", label, i))] = rapid.Int64().Draw(t, fmt.Sprintf("%sv[%d]", label, i))
			}
		}
	case "ptrinner", "struct":
		if (zero || rapid.IntRange(0, 3).Draw(t, label+"pnil") == 0) && kind == "ptrinner" {
			v.Nil = true
			break
		}
		in := &C22Inner{}
		if rapid.IntRange(0, 3).Draw(t, label+"pzero") != 0 {
			in.A = genC22Str(t, label+"A")
			in.B = rapid.Int64().Draw(t, label+"B")
			for i, n := 0, rapid.IntRange(0, 3).Draw(t, label+"Cn"); i < n; i++ {
				in.C = append(in.C, genC22Str(t, fmt.Sprintf("%sC[%d]", label, i)))
			}
		}
		v.In = in
	}
	return v
}

// isEmpty mirrors the SDK's documented notion of an empty field (isFieldEmpty): "", 0, nil pointer,
// nil/empty slice or map, zero time.Time. A bool is never empty; a plain struct is never empty.
func (v C22Val) isEmpty(kind string) bool {
	rv := c22GoValue(kind, v)
	if rv.Type() == timeType {
		return rv.Interface().(time.Time).IsZero()
	}
	switch rv.Kind() {
	case reflect.String:
		return rv.String() == ""
	case reflect.Int, reflect.Int8, reflect.Int16, reflect.Int32, reflect.Int64:
		return rv.Int() == 0
	case reflect.Uint, reflect.Uint8, reflect.Uint16, reflect.Uint32, reflect.Uint64:
		return rv.Uint() == 0
	case reflect.Float32, reflect.Float64:
		return rv.Float() == 0
	case reflect.Slice, reflect.Map:
		return rv.Len() == 0
	case reflect.Ptr:
		return rv.IsNil()
	}
	return false
}

// writesVoid says whether writing value v of a field leaves the record's content void
// (nothing typed is sent): skipped by omitempty, nil pointer, zero time, nil []byte.
func (f C22Field) writesVoid(second bool) bool {
	v := f.V
	if second {
		v = f.V2
	}
	if v.isEmpty(f.Kind) && (f.Omit || f.Del) {
		return true
	}
	if c22Base(f.Kind) == "ptrinner" && f.Kind != "ptrinner" {
		return v.Nil
	}
	switch c22Base(f.Kind) {
	case "ptrinner":
		return v.Nil || v.In == nil
	case "time":
		return v.ZeroT
	case "bytes":
		return v.Nil
	}
	return false
}

// c22VoidOverValue reports whether the second write of the scenario sends a void content for a
// record whose first write stored a value (profile: for any field).
func c22VoidOverValue(s C22Scenario) bool {
	if s.Flow != "save-save" && s.Flow != "save-update" {
		return false
	}
	switch s.Shape {
	case "value", "profile":
		for _, f := range s.Fields {
			if f.writesVoid(true) && !f.writesVoid(false) {
				return true
			}
		}
	case "mapbody":
		all := func(second bool) bool {
			for _, f := range s.Fields {
				v := f.V
				if second {
					v = f.V2
				}
				if !(v.isEmpty(f.Kind) && f.Omit) {
					return false
				}
			}
			return true
		}
		return all(true) && !all(false)
	}
	return false
}

// c22NilBodyField: a map-body field without omitempty whose (first or second) value is a nil
// slice / map / pointer / []byte — msgpack encodes it as nil.
func c22NilBodyField(f C22Field) bool {
	if f.Omit {
		return false
	}
	if c22Base(f.Kind) == "ptrinner" && f.Kind != "ptrinner" {
		return f.V.Nil || f.V2.Nil
	}
	switch c22Base(f.Kind) {
	case "bytes", "strslice", "i64slice", "u32slice", "strmap", "i64map":
		return f.V.Nil || f.V2.Nil
	case "ptrinner":
		return f.V.Nil || f.V.In == nil || f.V2.Nil || f.V2.In == nil
	}
	return false
}

type c22GenCfg struct {
	avoidVoidOverValue bool     // open finding: a void write does not clear an existing value
	avoidNilBodyField  bool     // open finding: a nil container/pointer body field (no omitempty) cannot be read back
	trickyTags         bool     // allow reserved-substring tag names
	kinds              []string // allowed kinds
	shapes             []string
}

var c22GoNames = []string{"Name", "Age", "Email", "Count", "Score", "Tags", "Data", "Active", "Level", "Notes", "Value", "Key", "CreatedAt", "Keywords", "X", "Y1"}

func genC22(cfg c22GenCfg) func(t *rapid.T) C22Scenario {
	return func(t *rapid.T) C22Scenario {
		var s C22Scenario
		s.Shape = rapid.SampledFrom(cfg.shapes).Draw(t, "shape")
		s.Key = rapid.OneOf(rapid.StringMatching(`[a-zA-Z0-9:_\-./]{1,24}`), rapid.SampledFrom([]string{"k", " ", "é日本", "key", strings.Repeat("k", 300)})).Draw(t, "key")
		s.Encoding = rapid.SampledFrom([]string{"gob", "msgpack"}).Draw(t, "enc")
		s.Flow = rapid.SampledFrom([]string{"save", "save", "create", "save-save", "save-update"}).Draw(t, "flow")
		s.Read = rapid.SampledFrom([]string{"read", "read", "readmany", "readbatch"}).Draw(t, "read")
		s.Reopen = rapid.IntRange(0, 3).Draw(t, "reopen") == 0
		s.Rename = -1
		nf := 0
		switch s.Shape {
		case "value":
			nf = 1
		case "mapbody", "profile":
			nf = rapid.IntRange(1, 6).Draw(t, "nfields")
		}
		usedTags := map[string]bool{}
		usedNames := map[string]bool{"K": true}
		for i := 0; i < nf; i++ {
			var f C22Field
			f.Kind = rapid.SampledFrom(cfg.kinds).Draw(t, fmt.Sprintf("kind%d", i))
			f.Omit = rapid.Bool().Draw(t, fmt.Sprintf("omit%d", i))
			f.Name = fmt.Sprintf("F%d", i)
			if s.Shape == "profile" {
				n := rapid.SampledFrom(c22GoNames).Draw(t, fmt.Sprintf("name%d", i))
				if usedNames[n] {
					n = fmt.Sprintf("%s%d", n, i)
				}
				f.Name = n
				f.Del = !f.Omit && rapid.IntRange(0, 3).Draw(t, fmt.Sprintf("del%d", i)) == 0
			}
			usedNames[f.Name] = true
			if s.Shape == "mapbody" {
				f.Tag = c22GenTag(t, cfg.trickyTags, usedTags, fmt.Sprintf("f%d", i))
			}
			f.V = genC22Val(t, f.Kind, fmt.Sprintf("v%d", i))
			f.V2 = genC22Val(t, f.Kind, fmt.Sprintf("w%d", i))
			s.Fields = append(s.Fields, f)
		}
		if s.Shape != "profile" {
			for _, which := range []string{"createdAt", "createdBy", "updatedAt", "updatedBy", "expireAt"} {
				if rapid.IntRange(0, 2).Draw(t, "has"+which) != 0 {
					continue
				}
				m := C22Meta{Which: which, Omit: rapid.Bool().Draw(t, "omit"+which)}
				if strings.HasSuffix(which, "At") {
					// without omitempty the SDK rejects a zero time: generate one only with omitempty
					m.V = genC22Time(t, which, m.Omit)
					m.V2 = genC22Time(t, which+"2", false)
				} else {
					m.V = C22Val{S: genC22Str(t, which)}
					m.V2 = C22Val{S: "second-" + which}
				}
				s.Meta = append(s.Meta, m)
			}
		}
		if s.Shape == "mapbody" && rapid.IntRange(0, 2).Draw(t, "doRename") == 0 {
			s.Rename = rapid.IntRange(0, len(s.Fields)-1).Draw(t, "rename")
			s.NewTag = c22GenTag(t, false, usedTags, "newtag")
		}
		if s.Shape == "profile" {
			s.Flow = rapid.SampledFrom([]string{"save", "save-save"}).Draw(t, "pflow")
			s.Read = "read"
		}
		if cfg.avoidNilBodyField && s.Shape == "mapbody" {
			for i := range s.Fields {
				if c22NilBodyField(s.Fields[i]) {
					s.Fields[i].Omit = true
				}
			}
		}
		if cfg.avoidVoidOverValue && c22VoidOverValue(s) {
			// swap the two value sets of the offending fields: value-over-void instead of void-over-value
			for i := range s.Fields {
				f := &s.Fields[i]
				if s.Shape == "mapbody" || (f.writesVoid(true) && !f.writesVoid(false)) {
					f.V, f.V2 = f.V2, f.V
				}
			}
		}
		return s
	}
}
