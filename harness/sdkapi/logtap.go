package sdkapi

import (
	"context"
	"log/slog"
	"regexp"
	"strings"
	"sync"
)

// panicTap sits in front of the rig's capturing slog handler and keeps the
// full text (error + stack) of "grpc gateway panic" records, so that failures
// can be grouped by the place that panicked.
type panicTap struct {
	inner slog.Handler
	mu    *sync.Mutex
	last  *[]string
}

func installPanicTap() *panicTap {
	t := &panicTap{inner: slog.Default().Handler(), mu: &sync.Mutex{}, last: &[]string{}}
	slog.SetDefault(slog.New(t))
	return t
}

func (p *panicTap) Enabled(ctx context.Context, l slog.Level) bool { return p.inner.Enabled(ctx, l) }
func (p *panicTap) Handle(ctx context.Context, r slog.Record) error {
	if strings.Contains(strings.ToLower(r.Message), "panic") {
		var sb strings.Builder
		sb.WriteString(r.Message)
		r.Attrs(func(a slog.Attr) bool {
			sb.WriteString(" " + a.Key + "=" + a.Value.String())
			return true
		})
		p.mu.Lock()
		if len(*p.last) < 50 {
			*p.last = append(*p.last, sb.String())
		}
		p.mu.Unlock()
	}
	return p.inner.Handle(ctx, r)
}
func (p *panicTap) WithAttrs([]slog.Attr) slog.Handler { return p }
func (p *panicTap) WithGroup(string) slog.Handler      { return p }

func (p *panicTap) reset() {
	p.mu.Lock()
	*p.last = (*p.last)[:0]
	p.mu.Unlock()
}

func (p *panicTap) records() []string {
	p.mu.Lock()
	defer p.mu.Unlock()
	return append([]string(nil), (*p.last)...)
}

var reFrame = regexp.MustCompile(`(?m)^\s+(/repo/[^\s]+:\d+)`)
var reFunc = regexp.MustCompile(`(?m)^(github\.com/hydraide/[^\s(]+)`)

// panicSite summarises a panic record as "<error> @ <first /repo frame below the panic>".
func panicSite(rec string) string {
	errPart := rec
	if i := strings.Index(rec, "error="); i >= 0 {
		errPart = rec[i+6:]
	}
	if i := strings.Index(errPart, " stack="); i >= 0 {
		errPart = errPart[:i]
	}
	stack := rec
	if i := strings.Index(rec, "\npanic("); i >= 0 {
		stack = rec[i+1:]
	}
	frames := reFrame.FindAllStringSubmatch(stack, 4)
	var fs []string
	for _, f := range frames {
		if strings.Contains(f[1], "gateway.go:29") && len(frames) > 1 { // handlePanic itself
			continue
		}
		fs = append(fs, strings.TrimPrefix(f[1], "/repo/"))
	}
	if len(fs) > 2 {
		fs = fs[:2]
	}
	if len(errPart) > 160 {
		errPart = errPart[:160] + "…"
	}
	return errPart + " @ " + strings.Join(fs, " <- ")
}
