package sdkapi

import (
	"bytes"
	"context"
	"encoding/json"
	"fmt"
	"os"
	"os/exec"
	"path/filepath"
	"sort"
	"strconv"
	"strings"
	"syscall"
	"testing"
	"time"

	hydrapb "github.com/hydraide/hydraide/sdk/go/hydraidego/v3/hydraidepbgo"
	"google.golang.org/protobuf/reflect/protoreflect"

	"google.golang.org/protobuf/proto"
	"pgregory.net/rapid"

	"verifharness/internal/pbt"
	"verifharness/internal/rig"
)

// C26 — Malformed requests fail cleanly without side effects.

// genC26 draws a scenario: 1..3 structurally generated requests aimed at the
// case's victim swamp (prefilled), a fresh name, or the sentinel swamp
// (read-only RPCs only).
func genC26(ex c26Excl, ms c26Methods, only []string) func(t *rapid.T) C26Scenario {
	all := ms.names
	if len(only) > 0 {
		all = only
	}
	var ro []string
	for _, n := range all {
		if c26ReadOnly[n] {
			ro = append(ro, n)
		}
	}
	var filterRPCs []string
	for _, n := range all {
		switch n {
		case "GetByIndexStream", "GetByIndexStreamFromMany", "ShiftMatchingTreasures", "ShiftMatchingTreasuresMany", "PatchExpiredTreasures", "PatchExpiredTreasuresMany":
			filterRPCs = append(filterRPCs, n)
		}
	}
	return func(t *rapid.T) C26Scenario {
		var s C26Scenario
		if len(filterRPCs) > 0 && rapid.IntRange(0, 7).Draw(t, "filtercase") == 0 {
			return genC26FilterCase(t, ex, ms, filterRPCs)
		}
		tc := rapid.IntRange(0, 9).Draw(t, "target")
		switch {
		case tc < 7 || len(ro) == 0:
			s.Target = "victim"
		case tc < 8:
			s.Target = "fresh"
		default:
			s.Target = "sentinel"
		}
		s.Prefill = rapid.IntRange(0, 7).Draw(t, "prefill") != 0
		n := 1
		switch c := rapid.IntRange(0, 9).Draw(t, "nsteps"); {
		case c >= 9:
			n = 3
		case c >= 7:
			n = 2
		}
		target := c26Victim()
		pool := all
		switch s.Target {
		case "fresh":
			target = c26Fresh()
		case "sentinel":
			target = c26Sentinel
			pool = ro
		}
		for i := 0; i < n; i++ {
			rpc := rapid.SampledFrom(pool).Draw(t, "rpc")
			msg, marks := genC26Request(t, ms, rpc, ex, target, itoa(i))
			b, err := proto.MarshalOptions{AllowPartial: true, Deterministic: true}.Marshal(msg)
			if err != nil {
				t.Fatalf("generator produced an unmarshalable %s: %v", rpc, err)
			}
			st := C26Step{RPC: rpc, Req: b, Route: rapid.SampledFrom([]string{"direct", "grpc"}).Draw(t, "route"), Desc: describe(msg)}
			for m := range marks {
				st.Marks = append(st.Marks, m)
			}
			sort.Strings(st.Marks)
			s.Steps = append(s.Steps, st)
		}
		return s
	}
}

// plainEnvelope keeps the generated filters of a filter-taking request but makes the rest of the request an
// ordinary whole-swamp query, so that the filter legs are actually evaluated against the stored records.
func plainEnvelope(m protoreflect.Message, t *rapid.T) {
	fs := m.Descriptor().Fields()
	for _, n := range []string{"IncludedKeys", "ExcludeKeys", "FromTime", "ToTime", "From", "Limit", "KeysOnly", "MaxResults", "HowMany", "Cap", "Condition"} {
		if fd := fs.ByName(protoreflect.Name(n)); fd != nil {
			m.Clear(fd)
		}
	}
	if fd := fs.ByName("SwampName"); fd != nil {
		m.Set(fd, protoreflect.ValueOfString(c26Victim()))
	}
	if fd := fs.ByName("IslandID"); fd != nil {
		m.Set(fd, protoreflect.ValueOfUint64(c26IslandAuto))
	}
	if fd := fs.ByName("IndexType"); fd != nil {
		m.Set(fd, protoreflect.ValueOfEnum(protoreflect.EnumNumber(rapid.SampledFrom([]int32{0, 2, 1}).Draw(t, "plainIndex")))) // KEY, CREATION_TIME, EXPIRATION_TIME
	}
	if fd := fs.ByName("OrderType"); fd != nil {
		m.Set(fd, protoreflect.ValueOfEnum(protoreflect.EnumNumber(rapid.IntRange(0, 1).Draw(t, "plainOrder"))))
	}
	for _, n := range []string{"Requests", "Queries"} {
		if fd := fs.ByName(protoreflect.Name(n)); fd != nil && fd.IsList() && fd.Kind() == protoreflect.MessageKind {
			l := m.Mutable(fd).List()
			if l.Len() == 0 {
				l.Append(protoreflect.ValueOfMessage(l.NewElement().Message()))
			}
			for i := 0; i < l.Len() && i < 3; i++ {
				plainEnvelope(l.Get(i).Message(), t)
			}
			if l.Len() > 3 {
				l.Truncate(3)
			}
		}
	}
}

// genC26FilterCase: a filter-taking RPC with structurally generated filters over a plain envelope on the
// prefilled victim swamp, followed by a valid write to the vector record the filters looked at.
func genC26FilterCase(t *rapid.T, ex c26Excl, ms c26Methods, rpcs []string) C26Scenario {
	s := C26Scenario{Target: "victim", Prefill: true}
	rpc := rapid.SampledFrom(rpcs).Draw(t, "filterrpc")
	msg, marks := genC26Request(t, ms, rpc, ex, c26Victim(), "0")
	plainEnvelope(msg.ProtoReflect(), t)
	marks["plain-envelope"] = true
	push := func(rpc string, m proto.Message, mk map[string]bool) {
		b, err := proto.MarshalOptions{AllowPartial: true, Deterministic: true}.Marshal(m)
		if err != nil {
			t.Fatalf("marshal %s: %v", rpc, err)
		}
		st := C26Step{RPC: rpc, Req: b, Route: rapid.SampledFrom([]string{"direct", "grpc"}).Draw(t, "route"), Desc: describe(m)}
		for k := range mk {
			st.Marks = append(st.Marks, k)
		}
		sort.Strings(st.Marks)
		s.Steps = append(s.Steps, st)
	}
	push(rpc, msg, marks)
	// a write to the examined record must still go through (a leaked record guard would block it for ever)
	v := c26Victim()
	switch rapid.IntRange(0, 3).Draw(t, "followwrite") {
	case 0:
		push("Set", &hydrapb.SetRequest{Swamps: []*hydrapb.SwampRequest{{IslandID: c26IslandAuto, SwampName: v, CreateIfNotExist: true, Overwrite: true,
			KeyValues: []*hydrapb.KeyValuePair{{Key: "k6", StringVal: sptr("rewritten")}}}}}, nil)
	case 1:
		push("Delete", &hydrapb.DeleteRequest{Swamps: []*hydrapb.DeleteRequest_SwampKeys{{IslandID: c26IslandAuto, SwampName: v, Keys: []string{"k6", "k3"}}}}, nil)
	case 2:
		push("PatchTreasures", &hydrapb.PatchTreasuresRequest{IslandID: c26IslandAuto, SwampName: v, Patches: []*hydrapb.TreasurePatch{{Key: "k6", Ops: []*hydrapb.PatchOp{{Op: hydrapb.PatchOp_SET, Path: "a", Value: []byte{0x05}}}}}}, nil)
	default:
		push("IncrementInt64", &hydrapb.IncrementInt64Request{IslandID: c26IslandAuto, SwampName: v, Key: "k6", IncrementBy: 1}, nil)
	}
	return s
}

func itoa(i int) string { return strconv.Itoa(i) }

const c26StopTimeout = 60 * time.Second

func c26Canon(s C26Scenario) string {
	out := s.Target
	if s.Prefill {
		out += "+"
	}
	for _, st := range s.Steps {
		out += "|" + st.RPC + ":" + st.Route + ":" + string(st.Req)
	}
	return out
}

func c26Sample(s C26Scenario) any {
	type step struct {
		RPC, Route, Desc string
		Marks            []string
	}
	var o struct {
		Target  string
		Prefill bool
		Steps   []step
	}
	o.Target, o.Prefill = s.Target, s.Prefill
	for _, st := range s.Steps {
		o.Steps = append(o.Steps, step{st.RPC, st.Route, st.Desc, st.Marks})
	}
	return o
}

const c26Rule = "1..3 requests per case, each generated structurally from the protobuf descriptor of a uniformly drawn RPC (all 55 RPCs of HydraideService, " +
	"streams included; Subscribe* with 40 ms contexts): per field valid / boundary / malformed values (swamp names with 0,1,2,3,4+ parts, empty/odd/70KiB names and keys, " +
	"unset and empty lists, nil/empty sub-messages, empty list elements, out-of-range enums, negative and extreme ints, NaN/Inf, 300..20000-element batches, invalid timestamps, " +
	"truncated / oversized-length / deeply nested msgpack bodies, odd field paths); every request is the proto.Unmarshal of wire bytes and is sent in-process or through bufconn " +
	"to a rig holding a sentinel swamp and a prefilled per-case victim swamp; non-trivial = at least one boundary/malformed field AND at least one SwampName with >= 3 parts " +
	"(handler gets past name validation); distinct = hash of (target, rpc, route, request bytes)"

// c26Exclusions turns the open findings into generator exclusions.
func c26Exclusions(facet string) c26Excl {
	var ex c26Excl
	note := func(open bool, what string) bool {
		if open && facet != "" {
			pbt.Excluded("C26", facet, what)
		}
		return open
	}
	ex.shortName = note(pbt.Open("C26", "short-swamp-name"), "swamp names / patterns with fewer than 3 parts (open finding)")
	ex.bulkShort = note(pbt.Open("C26", "destroybulk-short-name-crash"), "DestroyBulk targets with fewer than 3 name parts (open finding; kills the process)") || ex.shortName
	ex.negFrom = note(pbt.Open("C26", "negative-from-limit"), "negative From/Limit on index reads (open finding)")
	k := note(pbt.Open("C26", "unpersistable-key-accepted"), "writes with key \"\" or a key longer than 65535 bytes (open finding)")
	ex.emptyKey, ex.longKey = k, k
	ex.sliceDelete = note(pbt.Open("C26", "uint32slicedelete-deadlock"), "Uint32SliceDelete on an existing key (open finding)")
	ex.incrMeta = note(pbt.Open("C26", "increment-unmet-condition-memory-only"), "Increment* carrying both a Condition and SetIfExist/SetIfNotExist metadata (open finding)")
	ex.forgedCount = note(pbt.Open("C26", "msgpack-forged-count-oom"), "msgpack bodies whose map32/array32 header announces 2^32-1 entries (open finding; kills the process)")
	return ex
}

var c26Shared *c26Env

// c26RunShared runs a scenario on the test function's shared rig (a poisoned rig is replaced).
func c26RunSharedWD(wd time.Duration) func(s C26Scenario) pbt.Outcome {
	return func(s C26Scenario) pbt.Outcome {
		if c26Shared == nil || c26Shared.poisoned {
			if c26Shared != nil {
				c26Shared.abandon()
			}
			e, err := newC26Env("")
			if err != nil {
				e.abandon()
				c26Shared = nil
				return pbt.Failf("harness", "cannot start the rig: %v", err)
			}
			e.watchdog = wd
			c26Shared = e
		}
		t0 := time.Now()
		o := c26Shared.runCase(s)
		if d := time.Since(t0); d > 300*time.Millisecond && os.Getenv("VERIF_C26_SLOW") != "" {
			fmt.Fprintf(os.Stderr, "SLOW %v shape=%q %s %s\n", d, o.Shape, s.Steps[0].RPC, s.Steps[0].Desc)
		}
		return o
	}
}

func c26RunShared(s C26Scenario) pbt.Outcome { return c26RunSharedWD(c26Watchdog)(s) }

// c26FinishShared is the end-of-run check of a shared rig: the sentinel reloads intact and the rig stops.
func c26FinishShared(t *testing.T, facet string, report bool) {
	if c26Shared == nil {
		return
	}
	e := c26Shared
	c26Shared = nil
	if e.poisoned {
		e.abandon()
		return
	}
	defer e.r.Cleanup()
	if !report {
		return
	}
	if f := e.checkSentinel(true); f != nil {
		p := pbt.WriteReplayJSON("C26", facet+"-end", map[string]any{"cases": e.caseNo, "failure": f.Fail})
		pbt.ReportViolation("C26", facet, p, f.Shape, "after "+itoa(e.caseNo)+" cases: "+f.Fail)
		t.Errorf("end-of-run sentinel check failed: %s", f.Fail)
	}
	if !e.r.Stop(c26StopTimeout) {
		p := pbt.WriteReplayJSON("C26", facet+"-end", map[string]any{"cases": e.caseNo, "failure": "StopHydra did not finish"})
		pbt.ReportViolation("C26", facet, p, "stop-hang", "after "+itoa(e.caseNo)+" cases the graceful stop did not finish within the timeout")
		t.Errorf("graceful stop did not finish after %d cases", e.caseNo)
	}
}

func TestC26Main(t *testing.T) {
	ex := c26Exclusions("main")
	ms := c26AllMethods()
	defer c26FinishShared(t, "main", true)
	pbt.Main(t, pbt.Spec[C26Scenario]{
		ID: "C26", Facet: "main", Rule: c26Rule,
		Quick: 3000, Thorough: 300000,
		Gen: genC26(ex, ms, nil), Run: c26RunShared, Canon: c26Canon, Sample: c26Sample,
	})
}

// --- batch facet: N requests, graceful stop, restart on the same root ----------

type C26Batch struct {
	Cases []C26Scenario `json:"cases"`
}

func runC26Batch(b C26Batch) pbt.Outcome {
	e, err := newC26Env("")
	if err != nil {
		e.abandon()
		return pbt.Failf("harness", "cannot start the rig: %v", err)
	}
	e.keep = true
	root := e.r.Root
	e.r.DisownRoot()
	defer os.RemoveAll(root)
	var out pbt.Outcome
	nt := 0
	for i, c := range b.Cases {
		o := e.runCase(c)
		if o.Fail != "" {
			e.abandon()
			o.Fail = fmt.Sprintf("batch case %d: %s", i, o.Fail)
			return o
		}
		if o.NonTrivial {
			nt++
		}
		for _, cl := range o.Classes {
			if strings.HasPrefix(cl, "result:") {
				out.Classes = append(out.Classes, cl)
			}
		}
	}
	// snapshot of every comparable swamp still present
	type snap struct {
		ref swampRef
		ts  []*hydrapb.Treasure
		ex  bool
	}
	var snaps []snap
	for _, r := range dedupRefs(e.allRefs) {
		ts, ex, f := e.readAll(r)
		if f != "" {
			e.abandon()
			return pbt.Failf("touched-unreadable", "swamp %s cannot be read before the stop: %s", shortK(r.Name), f)
		}
		snaps = append(snaps, snap{r, ts, ex})
	}
	if !e.r.Stop(c26StopTimeout) {
		return pbt.Failf("stop-hang", "graceful stop did not finish within %v after %d requests", c26StopTimeout, len(b.Cases))
	}
	e2, err := newC26Env(root)
	if err != nil {
		e2.abandon()
		return pbt.Failf("harness", "cannot restart the rig: %v", err)
	}
	defer e2.r.Stop(c26StopTimeout)
	if f := e2.checkSentinel(false); f != nil {
		f.Fail = "after restart: " + f.Fail
		return *f
	}
	compared := 0
	for _, sn := range snaps {
		ts, ex, f := e2.readAll(sn.ref)
		if f != "" {
			return pbt.Failf("touched-unreadable", "after restart swamp %s cannot be read: %s", shortK(sn.ref.Name), f)
		}
		if sn.ex && len(sn.ts) > 0 && !ex {
			return pbt.Failf("lost-on-restart", "swamp %s had %d records before the stop and does not exist after restart", shortK(sn.ref.Name), len(sn.ts))
		}
		if d := diffTreasures(sn.ts, ts, true); d != "" {
			return pbt.Failf("lost-on-restart", "swamp %s: contents differ across stop/restart: %s", shortK(sn.ref.Name), d)
		}
		compared++
	}
	out.NonTrivial = nt >= 3 && compared >= 1
	out.Classes = append(out.Classes, "restart-compared-swamps:"+bucket(compared))
	return out
}

func bucket(n int) string {
	switch {
	case n == 0:
		return "0"
	case n < 5:
		return "1-4"
	case n < 20:
		return "5-19"
	}
	return "20+"
}

func TestC26Batch(t *testing.T) {
	ex := c26Exclusions("batch")
	ms := c26AllMethods()
	one := genC26(ex, ms, nil)
	gen := func(t *rapid.T) C26Batch {
		n := rapid.IntRange(8, 40).Draw(t, "ncases")
		var b C26Batch
		for i := 0; i < n; i++ {
			b.Cases = append(b.Cases, one(t))
		}
		return b
	}
	pbt.Main(t, pbt.Spec[C26Batch]{
		ID: "C26", Facet: "batch",
		Rule: "8..40 main-facet cases against a fresh rig whose swamps are kept; then snapshot of every touched swamp, graceful stop (must finish in 60 s), " +
			"restart on the same root: sentinel exactly as written, every touched swamp loads with the snapshot contents; non-trivial = >= 3 non-trivial cases and >= 1 swamp compared",
		Quick: 5, Thorough: 300,
		Gen: gen, Run: runC26Batch,
		Canon: func(b C26Batch) string {
			var sb strings.Builder
			for _, c := range b.Cases {
				sb.WriteString(c26Canon(c) + "#")
			}
			return sb.String()
		},
		Sample: func(b C26Batch) any { return map[string]any{"cases": len(b.Cases), "first": c26Sample(b.Cases[0])} },
	})
}

// --- register facet: pattern registration with extreme numbers, run in a child process ---
//
// RegisterSwamp stores seconds / bytes that the engine later turns into durations on goroutines of its
// own (write ticker, idle-close listener). A failure there is an unrecovered panic that kills the whole
// process, so these sequences run in a child process (this test binary re-executed): the parent
// classifies a death by the child's output and attributes it to the scenario that was running.

type C26RegBatch struct {
	Cases []C26Scenario `json:"cases"`
}

func genC26Reg(ex c26Excl, ms c26Methods) func(t *rapid.T) C26Scenario {
	return func(t *rapid.T) C26Scenario {
		s := C26Scenario{Target: "reg", Prefill: true}
		add := func(rpc string, i int, edit func(m protoreflect.Message)) {
			msg, marks := genC26Request(t, ms, rpc, ex, c26Reg(), itoa(i))
			if edit != nil {
				edit(msg.ProtoReflect())
			}
			b, err := proto.MarshalOptions{AllowPartial: true, Deterministic: true}.Marshal(msg)
			if err != nil {
				t.Fatalf("marshal %s: %v", rpc, err)
			}
			st := C26Step{RPC: rpc, Req: b, Route: rapid.SampledFrom([]string{"direct", "grpc"}).Draw(t, "route"), Desc: describe(msg)}
			for m := range marks {
				st.Marks = append(st.Marks, m)
			}
			sort.Strings(st.Marks)
			s.Steps = append(s.Steps, st)
		}
		inMem := rapid.IntRange(0, 5).Draw(t, "inmem") == 0
		add("RegisterSwamp", 0, func(m protoreflect.Message) {
			fs := m.Descriptor().Fields()
			m.Set(fs.ByName("IsInMemorySwamp"), protoreflect.ValueOfBool(inMem))
			if !m.Has(fs.ByName("SwampPattern")) {
				m.Set(fs.ByName("SwampPattern"), protoreflect.ValueOfString(cn("p", "*")))
			}
		})
		n := rapid.IntRange(1, 3).Draw(t, "nfollow")
		for i := 1; i <= n; i++ {
			c := rapid.IntRange(0, 9).Draw(t, "followclass")
			var rpc string
			switch {
			case c < 2:
				rpc = rapid.SampledFrom([]string{"RegisterSwamp", "DeRegisterSwamp"}).Draw(t, "rereg")
			case c < 6:
				rpc = rapid.SampledFrom([]string{"Get", "GetAll", "Count", "IsKeyExist", "GetByIndex", "CompactSwamp", "IsSwampExist"}).Draw(t, "ro")
			default:
				rpc = rapid.SampledFrom(ms.names).Draw(t, "any")
			}
			add(rpc, i, nil)
		}
		return s
	}
}

const c26RegChild = "register-batch"

// c26RegChildMain is the child side: phase 1 runs the cases and stops gracefully, phase 2 restarts on the
// same root (settings.json holds the registered patterns) and reads the sentinel and every case's swamp.
func c26RegChildMain() {
	var b C26RegBatch
	raw, err := os.ReadFile(os.Getenv("VERIF_C26_CHILD_FILE"))
	if err == nil {
		err = json.Unmarshal(raw, &b)
	}
	root := os.Getenv("VERIF_C26_CHILD_ROOT")
	phase := os.Getenv("VERIF_C26_CHILD_PHASE")
	if err != nil || root == "" {
		fmt.Println("CHILD-HARNESS-ERROR", err)
		os.Exit(3)
	}
	say := func(f string, a ...any) { fmt.Printf("@@C26 "+f+"\n", a...); os.Stdout.Sync() }
	e, err := newC26EnvAt(root, phase == "1")
	if err != nil {
		say("HARNESS-ERROR %v", err)
		os.Exit(3)
	}
	e.keep = true
	if phase == "1" {
		for i, c := range b.Cases {
			say("BEGIN %d", i)
			o := e.runCase(c)
			js, _ := json.Marshal(map[string]any{"fail": o.Fail, "shape": o.Shape, "nontrivial": o.NonTrivial, "classes": o.Classes})
			say("END %d %s", i, js)
			if o.Fail != "" {
				break
			}
		}
	} else {
		say("BEGIN -1")
		if f := e.checkSentinel(false); f != nil {
			js, _ := json.Marshal(map[string]any{"fail": "after restart: " + f.Fail, "shape": f.Shape})
			say("END -1 %s", js)
		} else {
			say("END -1 {}")
			for i := range b.Cases {
				say("BEGIN %d", i)
				reg := strings.ReplaceAll(c26Reg(), c26Tok, fmt.Sprintf("n%dx", i+1))
				_, _, f := e.readAll(swampRef{Island: rig.Island(reg), Name: reg, Canon: true})
				o := map[string]any{}
				if f != "" {
					o = map[string]any{"fail": fmt.Sprintf("after restart swamp %s (covered by the pattern registered in case %d) cannot be read: %s", reg, i, f), "shape": "touched-unreadable"}
				}
				js, _ := json.Marshal(o)
				say("END %d %s", i, js)
			}
		}
	}
	if e.r.Stop(pbt.Bound(c26StopTimeout)) {
		say("STOPPED")
	} else {
		say("STOP-HANG")
	}
}

type c26ChildReport struct {
	begun, ended int
	fails        map[int]map[string]any
	stopped      bool
	stopHang     bool
	died         bool
	timedOut     bool
	deathLine    string
	classes      []string
	nontrivial   int
}

func c26RunRegChild(file, root, phase string) c26ChildReport {
	rep := c26ChildReport{begun: -2, ended: -2, fails: map[int]map[string]any{}}
	ctx, cancel := context.WithTimeout(context.Background(), pbt.Bound(150*time.Second))
	defer cancel()
	cmd := exec.CommandContext(ctx, os.Args[0], "-test.run", "^TestC26Register$", "-test.count", "1")
	cmd.Env = append(os.Environ(), "VERIF_C26_CHILD="+c26RegChild, "VERIF_C26_CHILD_FILE="+file, "VERIF_C26_CHILD_ROOT="+root, "VERIF_C26_CHILD_PHASE="+phase, "VERIF_STATS_OUT=")
	var buf bytes.Buffer
	cmd.Stdout, cmd.Stderr = &buf, &buf
	err := cmd.Run()
	rep.timedOut = ctx.Err() != nil
	out := buf.String()
	for _, ln := range strings.Split(out, "\n") {
		i := strings.Index(ln, "@@C26 ")
		if i < 0 {
			continue
		}
		f := strings.SplitN(strings.TrimSpace(ln[i+6:]), " ", 3)
		switch f[0] {
		case "BEGIN":
			rep.begun, _ = strconv.Atoi(f[1])
		case "END":
			rep.ended, _ = strconv.Atoi(f[1])
			var o map[string]any
			if len(f) == 3 && json.Unmarshal([]byte(f[2]), &o) == nil {
				if s, _ := o["fail"].(string); s != "" {
					rep.fails[rep.ended] = o
				}
				if nt, _ := o["nontrivial"].(bool); nt {
					rep.nontrivial++
				}
				if cl, ok := o["classes"].([]any); ok {
					for _, c := range cl {
						if cs, _ := c.(string); strings.HasPrefix(cs, "field:register") || strings.HasPrefix(cs, "result:") || cs == "readonly-victim-compared" || cs == "reload-compared" {
							rep.classes = append(rep.classes, cs)
						}
					}
				}
			}
		case "STOPPED":
			rep.stopped = true
		case "STOP-HANG":
			rep.stopHang = true
		}
	}
	if !rep.stopped && !rep.stopHang && len(rep.fails) == 0 {
		rep.died = true
		for _, ln := range strings.Split(out, "\n") {
			if strings.HasPrefix(ln, "panic:") || strings.HasPrefix(ln, "fatal error:") {
				rep.deathLine = ln
				break
			}
		}
		if rep.deathLine == "" {
			rep.deathLine = fmt.Sprintf("exit: %v; last output: %s", err, tailStr(out, 300))
		}
		// the frame that identifies the goroutine
		if j := strings.Index(out, rep.deathLine); j >= 0 {
			for _, ln := range strings.Split(out[j:], "\n") {
				if strings.Contains(ln, "/repo/") {
					rep.deathLine += " @ " + strings.TrimSpace(ln)
					break
				}
			}
		}
	}
	return rep
}

func runC26RegBatch(b C26RegBatch) pbt.Outcome {
	root, err := os.MkdirTemp("/dev/shm", "verif-c26reg-")
	if err != nil {
		return pbt.Failf("harness", "%v", err)
	}
	defer os.RemoveAll(root)
	file := filepath.Join(root, "batch.json")
	js, _ := json.Marshal(b)
	if err := os.WriteFile(file, js, 0o644); err != nil {
		return pbt.Failf("harness", "%v", err)
	}
	data := filepath.Join(root, "data")
	os.MkdirAll(data, 0o755)
	var out pbt.Outcome
	for _, phase := range []string{"1", "2"} {
		rep := c26RunRegChild(file, data, phase)
		what := "while the cases ran"
		if phase == "2" {
			what = "after the restart on the same root (patterns reloaded from settings.json)"
		}
		cur := rep.begun
		desc := ""
		if cur >= 0 && cur < len(b.Cases) {
			for _, st := range b.Cases[cur].Steps {
				desc += " " + st.RPC + " " + st.Desc + ";"
			}
		}
		for i, f := range rep.fails {
			shape, _ := f["shape"].(string)
			msg, _ := f["fail"].(string)
			return pbt.Failf(shape, "register batch case %d %s: %s", i, what, msg)
		}
		if rep.timedOut {
			return pbt.Failf("hang", "the server process did not finish %s (case %d:%s)", what, cur, desc)
		}
		if rep.died {
			return pbt.Failf("process-crash", "the server process died %s, in case %d: %s — requests of that case:%s", what, cur, rep.deathLine, desc)
		}
		if rep.stopHang {
			return pbt.Failf("stop-hang", "graceful stop did not finish %s", what)
		}
		if phase == "1" {
			out.NonTrivial = rep.nontrivial >= 1
			out.Classes = append(out.Classes, rep.classes...)
		}
	}
	out.Classes = append(out.Classes, "restart-served")
	return out
}

func TestC26Register(t *testing.T) {
	if os.Getenv("VERIF_C26_CHILD") == c26RegChild {
		c26RegChildMain()
		return
	}
	ex := c26Exclusions("register")
	ms := c26AllMethods()
	one := genC26Reg(ex, ms)
	gen := func(t *rapid.T) C26RegBatch {
		n := rapid.IntRange(20, 40).Draw(t, "ncases")
		var b C26RegBatch
		for i := 0; i < n; i++ {
			b.Cases = append(b.Cases, one(t))
		}
		return b
	}
	pbt.Main(t, pbt.Spec[C26RegBatch]{
		ID: "C26", Facet: "register",
		Rule: "20..40 sequences per child process: RegisterSwamp (structurally generated; CloseAfterIdle / WriteInterval / MaxFileSize from {0,1,2,5,3600,-1,MinInt64,MaxInt64,MaxInt64-1," +
			"9223372036..9223372038 (seconds->ns overflow boundary), 18446744073/4 (wraps to a small positive), 13835058056, 2^62, 2^32, …}, in-memory 1/6) on a pattern covering a fresh swamp, " +
			"then a valid Set of known records into that swamp, then 1..3 further requests on it (read-only RPCs, any RPC, re-/de-registration); per-request and reload oracle of the main facet, " +
			"records of the Set must be intact after read-only follow-ups; the child then stops gracefully and a second child restarts on the same root (patterns come back from settings.json) and must " +
			"serve the sentinel and every case's swamp. A child that dies (unrecovered panic on an engine goroutine) = shape process-crash, attributed to the running case; " +
			"non-trivial = >= 1 case with a boundary field whose swamp was reached",
		Quick: 2, Thorough: 200,
		Gen: gen, Run: runC26RegBatch,
		Canon: func(b C26RegBatch) string {
			var sb strings.Builder
			for _, c := range b.Cases {
				sb.WriteString(c26Canon(c) + "#")
			}
			return sb.String()
		},
		Sample: func(b C26RegBatch) any { return map[string]any{"cases": len(b.Cases), "first": c26Sample(b.Cases[0])} },
	})
}

// --- witnesses of open findings ---------------------------------------------

// forceString sets the first string field with one of the given names (searching sub-messages, adding
// one element to empty repeated message fields) and reports whether it found one.
func forceString(m protoreflect.Message, val string, names ...string) bool {
	fs := m.Descriptor().Fields()
	for _, n := range names {
		if fd := fs.ByName(protoreflect.Name(n)); fd != nil && fd.Kind() == protoreflect.StringKind {
			if fd.IsList() {
				l := m.Mutable(fd).List()
				if l.Len() == 0 {
					l.Append(protoreflect.ValueOfString(val))
				} else {
					l.Set(0, protoreflect.ValueOfString(val))
				}
			} else {
				m.Set(fd, protoreflect.ValueOfString(val))
			}
			return true
		}
	}
	for i := 0; i < fs.Len(); i++ {
		fd := fs.Get(i)
		if fd.Kind() != protoreflect.MessageKind || fd.IsMap() || fd.Message().FullName() == tsFull {
			continue
		}
		if fd.IsList() {
			l := m.Mutable(fd).List()
			if l.Len() == 0 {
				l.Append(protoreflect.ValueOfMessage(l.NewElement().Message()))
			}
			if forceString(l.Get(0).Message(), val, names...) {
				return true
			}
			continue
		}
		if strings.Contains(string(fd.Name()), "Filter") || fd.Name() == "Cap" {
			continue
		}
		if forceString(m.Mutable(fd).Message(), val, names...) {
			return true
		}
	}
	return false
}

func forceInt32(m protoreflect.Message, val int32, name string) bool {
	fs := m.Descriptor().Fields()
	if fd := fs.ByName(protoreflect.Name(name)); fd != nil && fd.Kind() == protoreflect.Int32Kind && !fd.IsList() {
		m.Set(fd, protoreflect.ValueOfInt32(val))
		return true
	}
	for i := 0; i < fs.Len(); i++ {
		fd := fs.Get(i)
		if fd.Kind() == protoreflect.MessageKind && fd.IsList() && fd.Name() == "Queries" {
			l := m.Mutable(fd).List()
			if l.Len() == 0 {
				l.Append(protoreflect.ValueOfMessage(l.NewElement().Message()))
			}
			return forceInt32(l.Get(0).Message(), val, name)
		}
	}
	return false
}

// c26WitnessGen builds single-step scenarios for rpcs, lets force edit the generated request.
func c26WitnessGen(ms c26Methods, rpcs []string, ex c26Excl, force func(t *rapid.T, rpc string, m protoreflect.Message) []string) func(t *rapid.T) C26Scenario {
	return func(t *rapid.T) C26Scenario {
		s := C26Scenario{Target: "victim", Prefill: true}
		rpc := rapid.SampledFrom(rpcs).Draw(t, "rpc")
		msg, marks := genC26Request(t, ms, rpc, ex, c26Victim(), "")
		for _, m := range force(t, rpc, msg.ProtoReflect()) {
			marks[m] = true
		}
		b, err := proto.MarshalOptions{AllowPartial: true, Deterministic: true}.Marshal(msg)
		if err != nil {
			t.Fatalf("marshal: %v", err)
		}
		st := C26Step{RPC: rpc, Req: b, Route: rapid.SampledFrom([]string{"direct", "grpc"}).Draw(t, "route"), Desc: describe(msg)}
		for m := range marks {
			st.Marks = append(st.Marks, m)
		}
		sort.Strings(st.Marks)
		s.Steps = []C26Step{st}
		return s
	}
}

// all exclusions on (so that a witness shows exactly its own trigger)
func c26AllExcluded() c26Excl {
	return c26Excl{shortName: true, bulkShort: true, negFrom: true, emptyKey: true, longKey: true, sliceDelete: true, forgedCount: true, incrMeta: true}
}

func TestC26WitnessShortName(t *testing.T) {
	ms := c26AllMethods()
	var rpcs []string
	for _, n := range ms.names {
		if n == "DestroyBulk" {
			continue // kills the process: see TestC26WitnessDestroyBulkCrash
		}
		probe := newRequest(ms.in[n])
		if forceString(probe.ProtoReflect(), "x", "SwampName", "SwampPattern") {
			rpcs = append(rpcs, n)
		}
	}
	defer c26FinishShared(t, "witness-short-name", false)
	gen := c26WitnessGen(ms, rpcs, c26AllExcluded(), func(t *rapid.T, rpc string, m protoreflect.Message) []string {
		v := rapid.SampledFrom([]string{"a", "c26", "c26/" + c26Tok + "x", "a/b", "/", "sentinel/data", "*", "*/*"}).Draw(t, "short")
		forceString(m, v, "SwampName", "SwampPattern")
		return []string{"name-short"}
	})
	pbt.Witness(t, pbt.Spec[C26Scenario]{
		ID: "C26", Facet: "witness-short-name", Rule: "one request of any RPC carrying a swamp name / pattern, with the name forced to 1 or 2 parts",
		Quick: 300, Thorough: 3000, Gen: gen, Run: c26RunShared, Canon: c26Canon, Sample: c26Sample,
	}, "short-swamp-name", "swallowed-panic")
}

func TestC26WitnessNegativeFromLimit(t *testing.T) {
	ms := c26AllMethods()
	defer c26FinishShared(t, "witness-negative-from-limit", false)
	gen := c26WitnessGen(ms, []string{"GetByIndex", "GetByIndexStream", "GetByIndexStreamFromMany"}, c26AllExcluded(), func(t *rapid.T, rpc string, m protoreflect.Message) []string {
		forceString(m, c26Victim(), "SwampName")
		which := rapid.SampledFrom([]string{"From", "Limit"}).Draw(t, "which")
		// small magnitudes only: From=-2147483648 with a large Limit makes the beacon allocate a 2^31-element result first
		forceInt32(m, rapid.SampledFrom([]int32{-1, -2, -10}).Draw(t, "neg"), which)
		return []string{"negative-from-limit"}
	})
	pbt.Witness(t, pbt.Spec[C26Scenario]{
		ID: "C26", Facet: "witness-negative-from-limit", Rule: "GetByIndex / GetByIndexStream / GetByIndexStreamFromMany on the prefilled victim swamp with From or Limit forced negative",
		Quick: 200, Thorough: 2000, Gen: gen, Run: c26RunShared, Canon: c26Canon, Sample: c26Sample,
	}, "negative-from-limit", "swallowed-panic")
}

func TestC26WitnessUnpersistableKey(t *testing.T) {
	ms := c26AllMethods()
	rpcs := []string{"Set", "Uint32SlicePush", "PatchTreasures"}
	for _, n := range ms.names {
		if strings.HasPrefix(n, "Increment") {
			rpcs = append(rpcs, n)
		}
	}
	defer c26FinishShared(t, "witness-unpersistable-key", false)
	gen := c26WitnessGen(ms, rpcs, c26AllExcluded(), func(t *rapid.T, rpc string, m protoreflect.Message) []string {
		forceString(m, c26Victim(), "SwampName")
		k := rapid.SampledFrom([]string{"", strings.Repeat("K", 65536), strings.Repeat("K", 70*1024)}).Draw(t, "badkey")
		forceString(m, k, "Key")
		fs := m.Descriptor().Fields()
		for _, n := range []string{"CreateIfNotExist", "Overwrite"} {
			if fd := fs.ByName(protoreflect.Name(n)); fd != nil {
				m.Set(fd, protoreflect.ValueOfBool(true))
			}
			if sw := fs.ByName("Swamps"); sw != nil && sw.Kind() == protoreflect.MessageKind {
				e := m.Mutable(sw).List().Get(0).Message()
				if fd := e.Descriptor().Fields().ByName(protoreflect.Name(n)); fd != nil {
					e.Set(fd, protoreflect.ValueOfBool(true))
				}
			}
		}
		if k == "" {
			return []string{"key-empty"}
		}
		return []string{"key-70k"}
	})
	pbt.Witness(t, pbt.Spec[C26Scenario]{
		ID: "C26", Facet: "witness-unpersistable-key", Rule: "one write request (Set, Increment*, Uint32SlicePush, PatchTreasures) on the prefilled victim swamp whose record key is \"\" or longer than 65535 bytes",
		Quick: 200, Thorough: 2000, Gen: gen, Run: c26RunShared, Canon: c26Canon, Sample: c26Sample,
	}, "unpersistable-key-accepted", "lost-on-reload")
}

func TestC26WitnessIncrementUnmetCondition(t *testing.T) {
	defer c26FinishShared(t, "witness-increment-unmet-condition", false)
	gen := func(t *rapid.T) C26Scenario {
		who := rapid.StringMatching(`[a-z]{1,8}`).Draw(t, "who")
		// victim k2 holds int64 7: the condition "== 7+d" (d>0) is not met
		req := &hydrapb.IncrementInt64Request{IslandID: c26IslandAuto, SwampName: c26Victim(), Key: "k2", IncrementBy: rapid.Int64Range(1, 100).Draw(t, "by"),
			Condition:  &hydrapb.IncrementInt64Condition{RelationalOperator: hydrapb.Relational_EQUAL, Value: 7 + rapid.Int64Range(1, 1000).Draw(t, "d")},
			SetIfExist: &hydrapb.IncrementRequestMetadata{CreatedBy: sptr(who), UpdatedBy: sptr(who)}}
		b, _ := proto.Marshal(req)
		return C26Scenario{Target: "victim", Prefill: true, Steps: []C26Step{{RPC: "IncrementInt64", Req: b, Route: rapid.SampledFrom([]string{"direct", "grpc"}).Draw(t, "route"), Desc: describe(req)}}}
	}
	pbt.Witness(t, pbt.Spec[C26Scenario]{
		ID: "C26", Facet: "witness-increment-unmet-condition", Rule: "IncrementInt64 on an existing int64 key with a Condition that is not met and SetIfExist metadata",
		Quick: 50, Thorough: 500, Gen: gen, Run: c26RunShared, Canon: c26Canon, Sample: c26Sample,
	}, "increment-unmet-condition-memory-only", "lost-on-reload")
}

func TestC26WitnessSliceDeleteDeadlock(t *testing.T) {
	defer c26FinishShared(t, "witness-slicedelete-deadlock", false)
	gen := func(t *rapid.T) C26Scenario {
		key := rapid.SampledFrom([]string{"k4", "k2", "k1"}).Draw(t, "key") // k4: uint32 slice {1,2,3}; k2/k1: other types
		req := &hydrapb.Uint32SliceDeleteRequest{IslandID: c26IslandAuto, SwampName: c26Victim(), KeySlicePairs: []*hydrapb.KeySlicePair{{Key: key, Values: []uint32{1, 2, 3}}}}
		b, _ := proto.Marshal(req)
		return C26Scenario{Target: "victim", Prefill: true, Steps: []C26Step{{RPC: "Uint32SliceDelete", Req: b, Route: rapid.SampledFrom([]string{"direct", "grpc"}).Draw(t, "route"), Desc: describe(req)}}}
	}
	pbt.Witness(t, pbt.Spec[C26Scenario]{
		ID: "C26", Facet: "witness-slicedelete-deadlock", Rule: "Uint32SliceDelete that empties the slice of an existing key (or names a key of another type) — watchdog shortened to 3 s, a deadlock never returns",
		Quick: 1, Thorough: 4, Gen: gen, Run: c26RunSharedWD(3 * time.Second), Canon: c26Canon, Sample: c26Sample,
	}, "uint32slicedelete-deadlock", "hang", "system-locked")
}

// --- findings that kill the whole process: witnessed in a child process -------

type c26ChildVariant struct {
	Name  string
	Route string
	RPC   string
	Req   func() proto.Message
}

// c26ChildWitness runs every variant in a child process (this test binary re-executed with
// VERIF_C26_CHILD set); failing = the child dies and its output contains every string of match.
func c26ChildWitness(t *testing.T, testName, witness, facet, rule string, variants []c26ChildVariant, match ...string) {
	if os.Getenv("VERIF_C26_CHILD") == witness {
		idx, _ := strconv.Atoi(os.Getenv("VERIF_C26_CHILD_ARG"))
		v := variants[idx]
		// a bounded address space makes absurd allocations fail the same way on every machine
		var lim syscall.Rlimit
		if syscall.Getrlimit(syscall.RLIMIT_AS, &lim) == nil {
			lim.Cur = 48 << 30
			syscall.Setrlimit(syscall.RLIMIT_AS, &lim)
		}
		e, err := newC26Env("")
		if err != nil {
			fmt.Println("CHILD-HARNESS-ERROR", err)
			os.Exit(3)
		}
		res := e.call(v.Route, v.RPC, v.Req())
		fmt.Printf("CHILD-SURVIVED err=%v msgs=%d hung=%v\n", res.err, res.msgs, res.hung)
		e.r.Cleanup()
		return
	}
	if !pbt.Open("C26", witness) {
		t.Logf("witness C26/%s: not listed as known — skipped", witness)
		return
	}
	defer pbt.Flush()
	failing := 0
	detail := ""
	for i, v := range variants {
		ctx, cancel := context.WithTimeout(context.Background(), 90*time.Second)
		cmd := exec.CommandContext(ctx, os.Args[0], "-test.run", "^"+testName+"$", "-test.count", "1")
		cmd.Env = append(os.Environ(), "VERIF_C26_CHILD="+witness, "VERIF_C26_CHILD_ARG="+itoa(i), "VERIF_STATS_OUT=")
		var buf bytes.Buffer
		cmd.Stdout, cmd.Stderr = &buf, &buf
		err := cmd.Run()
		cancel()
		o := buf.String()
		crashed := err != nil && !strings.Contains(o, "CHILD-SURVIVED") && !strings.Contains(o, "CHILD-HARNESS-ERROR")
		for _, m := range match {
			crashed = crashed && strings.Contains(o, m)
		}
		pbt.RecordCase("C26", facet, rule, v.Name+"|"+v.Route, true, map[string]any{"variant": v.Name, "route": v.Route, "crashed": crashed}, "route:"+v.Route)
		if crashed {
			failing++
			if detail == "" {
				j := strings.Index(o, match[0])
				d := o[j:]
				if len(d) > 260 {
					d = d[:260]
				}
				detail = fmt.Sprintf("%s %s via %s killed the server process: %s", v.RPC, v.Name, v.Route, strings.ReplaceAll(d, "\n", " | "))
			}
		} else if !strings.Contains(o, "CHILD-SURVIVED") {
			t.Logf("child (%s,%s) ended unexpectedly: %v\n%s", v.Route, v.Name, err, tailStr(o, 800))
		}
	}
	pbt.ReportFinding("C26", witness, detail, len(variants), failing)
}

// DestroyBulk: unrecovered panic in a worker goroutine.
func TestC26WitnessDestroyBulkCrash(t *testing.T) {
	var vs []c26ChildVariant
	for _, route := range []string{"grpc", "direct"} {
		for _, name := range []string{"a", "a/b", ""} {
			name := name
			vs = append(vs, c26ChildVariant{Name: fmt.Sprintf("Targets:[{SwampName:%q}]", name), Route: route, RPC: "DestroyBulk", Req: func() proto.Message {
				return &hydrapb.DestroyBulkRequest{Targets: []*hydrapb.DestroyBulkTarget{{IslandID: 1, SwampName: name}}}
			}})
		}
	}
	c26ChildWitness(t, "TestC26WitnessDestroyBulkCrash", "destroybulk-short-name-crash", "witness-destroybulk-crash",
		"DestroyBulk with a 0/1/2-part target name, run in a child process; failing = the child process dies of an unrecovered panic in name.Load",
		vs, "panic:", "name.Load")
}

// PatchTreasures: a 5-byte msgpack body announcing 2^32-1 map entries makes msgpackpatch preallocate ~96 GiB.
func TestC26WitnessForgedMsgpackCount(t *testing.T) {
	var vs []c26ChildVariant
	for _, route := range []string{"grpc", "direct"} {
		for _, body := range [][]byte{{0xdf, 0xff, 0xff, 0xff, 0xff}, {0xC7, 0x00, 0xdf, 0xff, 0xff, 0xff, 0xff}, {0xdd, 0xff, 0xff, 0xff, 0xff}} {
			body := body
			vs = append(vs, c26ChildVariant{Name: fmt.Sprintf("InitialMsgpackOnCreate:%x", body), Route: route, RPC: "PatchTreasures", Req: func() proto.Message {
				sn := "c26/oom/main"
				return &hydrapb.PatchTreasuresRequest{IslandID: rig.Island(sn), SwampName: sn, CreateIfNotExist: true, InitialMsgpackOnCreate: body,
					Patches: []*hydrapb.TreasurePatch{{Key: "x", Ops: []*hydrapb.PatchOp{{Op: hydrapb.PatchOp_SET, Path: "a", Value: []byte{0x01}}}}}}
			}})
		}
	}
	c26ChildWitness(t, "TestC26WitnessForgedMsgpackCount", "msgpack-forged-count-oom", "witness-forged-msgpack-count",
		"PatchTreasures{CreateIfNotExist, InitialMsgpackOnCreate = map32/array32 header announcing 2^32-1 entries}, child process with a 48 GiB address-space limit; "+
			"failing = the child dies with 'fatal error: runtime: out of memory' inside msgpackpatch.parseMap/parseArray",
		vs, "out of memory", "msgpackpatch.parse")
}

func tailStr(s string, n int) string {
	if len(s) > n {
		return s[len(s)-n:]
	}
	return s
}
