package sdkapi

import (
	"github.com/hydraide/hydraide/sdk/go/hydraidego/v3/client"
	hydrapb "github.com/hydraide/hydraide/sdk/go/hydraidego/v3/hydraidepbgo"
	"github.com/hydraide/hydraide/sdk/go/hydraidego/v3/name"
)

// rigClient implements the SDK's client.Client on top of the rig's bufconn
// connection: one server owns all 1000 islands.
type rigClient struct {
	c hydrapb.HydraideServiceClient
}

var _ client.Client = rigClient{}

func (r rigClient) Connect(bool) error { return nil }
func (r rigClient) CloseConnection()   {}
func (r rigClient) GetServiceClient(name.Name) hydrapb.HydraideServiceClient {
	return r.c
}
func (r rigClient) GetServiceClientAndHost(name.Name) *client.ServiceClient {
	return &client.ServiceClient{GrpcClient: r.c, Host: "bufconn"}
}
func (r rigClient) GetUniqueServiceClients() []hydrapb.HydraideServiceClient {
	return []hydrapb.HydraideServiceClient{r.c}
}
func (r rigClient) GetAllIslands() uint64 { return 1000 }
