// Package pbt is the small runner every property check in this harness goes
// through. One check = a rapid generator producing a JSON-serialisable
// scenario value + a pure-ish Run function judging that scenario against an
// explicit oracle. The runner
//
//   - replays every saved scenario under /verif/replays/<ID>/<facet>/*.json
//     (plain regression tier, no rapid involved),
//   - runs the generator under rapid with a seed derived from VERIF_SEED and
//     a case count derived from VERIF_TIER,
//   - counts evaluations / distinct non-trivial cases / classes / samples and
//     writes them to VERIF_STATS_OUT (the driver turns that into evidence),
//   - on failure keeps the smallest failing scenario as a self-contained JSON
//     replay file and reports it (the driver prints the VIOLATION line),
//   - implements the known-finding protocol: witness facets are expected to
//     fail in a stated shape while KNOWN_FINDINGS.txt lists them as `known:`.
package pbt

import (
	"crypto/sha1"
	"encoding/hex"
	"encoding/json"
	"flag"
	"fmt"
	"os"
	"path/filepath"
	"runtime"
	"sort"
	"strconv"
	"strings"
	"sync"
	"sync/atomic"
	"testing"
	"time"

	"pgregory.net/rapid"
)

// Outcome is what Run reports for one scenario.
type Outcome struct {
	// Fail is empty when the property held on this scenario.
	Fail string
	// Shape is a short stable tag describing the kind of failure; witness
	// facets match on it.
	Shape string
	// NonTrivial says whether the scenario satisfies the property's stated
	// non-triviality rule.
	NonTrivial bool
	// Classes are labels counted in the evidence (distribution of cases).
	Classes []string
	// Skip marks a case that could not be judged (counted, never a failure).
	Skip bool
}

func Failf(shape, format string, a ...any) Outcome {
	return Outcome{Fail: fmt.Sprintf(format, a...), Shape: shape}
}

// Spec describes one facet of one property.
type Spec[S any] struct {
	ID    string // property id, e.g. "C01"
	Facet string // e.g. "main", "witness-longkey"
	Rule  string // generation + non-triviality rule, copied into the evidence
	// Case counts per tier (before sharding).
	Quick, Thorough int
	Gen             func(t *rapid.T) S
	Run             func(s S) Outcome
	// Canon returns the string hashed for distinctness; default = JSON of S.
	Canon func(s S) string
	// Sample renders a scenario for the evidence file; default = JSON of S
	// truncated.
	Sample func(s S) any
}

// ---------------------------------------------------------------------------
// environment

type Env struct {
	Tier      string
	Seed      uint64
	Shard     int
	Shards    int
	Scale     float64
	StatsOut  string
	Replay    string
	VerifRoot string
}

var (
	envOnce sync.Once
	env     Env
)

func GetEnv() Env {
	envOnce.Do(func() {
		env.Tier = os.Getenv("VERIF_TIER")
		if env.Tier != "thorough" {
			env.Tier = "quick"
		}
		s, _ := strconv.ParseInt(os.Getenv("VERIF_SEED"), 10, 64)
		env.Seed = uint64(s)
		env.Shard, _ = strconv.Atoi(os.Getenv("VERIF_SHARD"))
		env.Shards, _ = strconv.Atoi(os.Getenv("VERIF_SHARDS"))
		if env.Shards < 1 {
			env.Shards = 1
		}
		env.Scale, _ = strconv.ParseFloat(os.Getenv("VERIF_SCALE"), 64)
		if env.Scale <= 0 {
			env.Scale = 1
		}
		env.StatsOut = os.Getenv("VERIF_STATS_OUT")
		env.Replay = os.Getenv("VERIF_REPLAY")
		env.VerifRoot = os.Getenv("VERIF_ROOT")
		if env.VerifRoot == "" {
			env.VerifRoot = "/verif"
		}
	})
	return env
}

// RapidSeed maps (VERIF_SEED, shard, facet) to a non-zero rapid seed.
func RapidSeed(facet string) uint64 {
	e := GetEnv()
	h := sha1.Sum([]byte(facet))
	v := (e.Seed+1)*1000003 + uint64(e.Shard)*7919 + uint64(h[0])<<8 + uint64(h[1])
	if v == 0 {
		v = 1
	}
	return v
}

// Count returns the number of cases this process should run for a spec.
func Count(quick, thorough int) int {
	e := GetEnv()
	n := quick
	if e.Tier == "thorough" {
		n = thorough
	}
	n = int(float64(n) * e.Scale)
	n = (n + e.Shards - 1) / e.Shards
	if n < 1 {
		n = 1
	}
	return n
}

// ---------------------------------------------------------------------------
// known findings

type kfEntry struct {
	kind    string // known | fixed
	id      string
	witness string
	text    string
}

var (
	kfOnce sync.Once
	kfList []kfEntry
)

func loadKF() {
	kfOnce.Do(func() {
		p := os.Getenv("VERIF_KNOWN_FINDINGS")
		if p == "" {
			p = filepath.Join(GetEnv().VerifRoot, "KNOWN_FINDINGS.txt")
		}
		b, err := os.ReadFile(p)
		if err != nil {
			return
		}
		for _, ln := range strings.Split(string(b), "\n") {
			ln = strings.TrimSpace(ln)
			if ln == "" || strings.HasPrefix(ln, "#") {
				continue
			}
			var e kfEntry
			switch {
			case strings.HasPrefix(ln, "known:"):
				e.kind = "known"
				ln = strings.TrimSpace(ln[len("known:"):])
			case strings.HasPrefix(ln, "fixed:"):
				e.kind = "fixed"
				ln = strings.TrimSpace(ln[len("fixed:"):])
			default:
				continue
			}
			for _, f := range strings.Fields(ln) {
				if strings.HasPrefix(f, "property=") {
					e.id = f[len("property="):]
				}
				if strings.HasPrefix(f, "witness=") {
					e.witness = f[len("witness="):]
				}
			}
			if i := strings.Index(ln, "::"); i >= 0 {
				e.text = strings.TrimSpace(ln[i+2:])
			} else {
				e.text = ln
			}
			kfList = append(kfList, e)
		}
	})
}

// Open reports whether KNOWN_FINDINGS.txt lists witness w of property id as a
// known (unrepaired) finding. Main facets exclude the finding's trigger by
// construction exactly while Open is true; once the line becomes `fixed:` (or
// is removed) the trigger is generated again and a regression is a VIOLATION.
func Open(id, w string) bool {
	loadKF()
	for _, e := range kfList {
		if e.kind == "known" && e.id == id && e.witness == w {
			return true
		}
	}
	return false
}

func kfText(id, w string) string {
	loadKF()
	for _, e := range kfList {
		if e.kind == "known" && e.id == id && e.witness == w {
			return e.text
		}
	}
	return ""
}

// ---------------------------------------------------------------------------
// stats

type Violation struct {
	Property string `json:"property"`
	Facet    string `json:"facet"`
	Replay   string `json:"replay"`
	Msg      string `json:"msg"`
	Shape    string `json:"shape"`
}

type Finding struct {
	Property   string `json:"property"`
	Witness    string `json:"witness"`
	Reproduced bool   `json:"reproduced"`
	Text       string `json:"text"`
	Detail     string `json:"detail"`
	Cases      int    `json:"cases"`
	Failing    int    `json:"failing"`
}

type FacetStats struct {
	Facet       string         `json:"facet"`
	Rule        string         `json:"rule"`
	Evaluations int            `json:"evaluations"`
	Skipped     int            `json:"skipped"`
	NonTrivial  int            `json:"nontrivial"`
	Hashes      []string       `json:"hashes"` // distinct non-trivial case hashes
	Classes     map[string]int `json:"classes"`
	Samples     []any          `json:"samples"`
	Replayed    int            `json:"replayed"`
	Excluded    map[string]int `json:"excluded,omitempty"`
	Completed   bool           `json:"completed"`
	WallS       float64        `json:"wall_s"`
	hashSet     map[string]struct{}
}

type Stats struct {
	Property   string                 `json:"property"`
	Tier       string                 `json:"tier"`
	Seed       uint64                 `json:"seed"`
	Shard      int                    `json:"shard"`
	Facets     map[string]*FacetStats `json:"facets"`
	Violations []Violation            `json:"violations"`
	Findings   []Finding              `json:"findings"`
	Notes      []string               `json:"notes,omitempty"`
	Extra      map[string]any         `json:"extra,omitempty"`
	Counters   map[string]int         `json:"counters,omitempty"`
}

var (
	stMu sync.Mutex
	st   = map[string]*Stats{}
)

func statsFor(id string) *Stats {
	s, ok := st[id]
	if !ok {
		e := GetEnv()
		s = &Stats{Property: id, Tier: e.Tier, Seed: e.Seed, Shard: e.Shard, Facets: map[string]*FacetStats{}, Extra: map[string]any{}}
		st[id] = s
	}
	return s
}

func facetFor(id, facet, rule string) *FacetStats {
	s := statsFor(id)
	f, ok := s.Facets[facet]
	if !ok {
		f = &FacetStats{Facet: facet, Rule: rule, Classes: map[string]int{}, hashSet: map[string]struct{}{}, Excluded: map[string]int{}}
		s.Facets[facet] = f
	}
	return f
}

// Note attaches a free-text note to the property's stats.
func Note(id, format string, a ...any) {
	stMu.Lock()
	defer stMu.Unlock()
	s := statsFor(id)
	if len(s.Notes) < 50 {
		s.Notes = append(s.Notes, fmt.Sprintf(format, a...))
	}
}

// Extra stores an additional measured value in the property's stats.
func Extra(id, key string, v any) {
	stMu.Lock()
	defer stMu.Unlock()
	statsFor(id).Extra[key] = v
}

// Counter accumulates a named integer in the property's stats (summed over shards by the driver).
func Counter(id, key string, delta int) {
	stMu.Lock()
	defer stMu.Unlock()
	s := statsFor(id)
	if s.Counters == nil {
		s.Counters = map[string]int{}
	}
	s.Counters[key] += delta
}

// Excluded counts inputs that a main generator left out because of an open finding.
func Excluded(id, facet, what string) {
	stMu.Lock()
	defer stMu.Unlock()
	facetFor(id, facet, "").Excluded[what]++
}

// Flush writes the stats of all properties seen so far to VERIF_STATS_OUT.
func Flush() {
	stMu.Lock()
	defer stMu.Unlock()
	out := GetEnv().StatsOut
	if out == "" {
		return
	}
	all := []*Stats{}
	ids := []string{}
	for id := range st {
		ids = append(ids, id)
	}
	sort.Strings(ids)
	for _, id := range ids {
		s := st[id]
		for _, f := range s.Facets {
			f.Hashes = f.Hashes[:0]
			for h := range f.hashSet {
				f.Hashes = append(f.Hashes, h)
			}
			sort.Strings(f.Hashes)
		}
		all = append(all, s)
	}
	b, err := json.Marshal(all)
	if err != nil {
		fmt.Fprintf(os.Stderr, "pbt: cannot marshal stats: %v\n", err)
		return
	}
	tmp := out + ".tmp"
	if err := os.WriteFile(tmp, b, 0o644); err == nil {
		os.Rename(tmp, out)
	}
}

func hashOf(s string) string {
	h := sha1.Sum([]byte(s))
	return hex.EncodeToString(h[:8])
}

func toJSON(v any) string {
	b, err := json.Marshal(v)
	if err != nil {
		return fmt.Sprintf("%#v", v)
	}
	return string(b)
}

func sampleOf[S any](sp *Spec[S], s S) any {
	if sp.Sample != nil {
		return sp.Sample(s)
	}
	js := toJSON(s)
	if len(js) > 1500 {
		return js[:1500] + "…(truncated)"
	}
	var v any
	if json.Unmarshal([]byte(js), &v) == nil {
		return v
	}
	return js
}

func record[S any](sp *Spec[S], s S, o Outcome) {
	stMu.Lock()
	defer stMu.Unlock()
	f := facetFor(sp.ID, sp.Facet, sp.Rule)
	f.Evaluations++
	if o.Skip {
		f.Skipped++
		return
	}
	for _, c := range o.Classes {
		f.Classes[c]++
	}
	if o.NonTrivial {
		f.NonTrivial++
		var c string
		if sp.Canon != nil {
			c = sp.Canon(s)
		} else {
			c = toJSON(s)
		}
		h := hashOf(c)
		if _, ok := f.hashSet[h]; !ok {
			f.hashSet[h] = struct{}{}
			if len(f.Samples) < 3 {
				f.Samples = append(f.Samples, sampleOf(sp, s))
			}
		}
	}
}

// ---------------------------------------------------------------------------
// replay files

type ReplayFile struct {
	Property string          `json:"property"`
	Facet    string          `json:"facet"`
	Failure  string          `json:"failure,omitempty"`
	Shape    string          `json:"shape,omitempty"`
	Scenario json.RawMessage `json:"scenario"`
}

func replayDir(id, facet string) string {
	return filepath.Join(GetEnv().VerifRoot, "replays", id, facet)
}

func failDir(id string) string {
	if d := os.Getenv("VERIF_FAIL_DIR"); d != "" {
		return filepath.Join(d, id)
	}
	return filepath.Join(GetEnv().VerifRoot, ".work", "fail", id)
}

func writeReplay[S any](sp *Spec[S], s S, o Outcome) string {
	dir := failDir(sp.ID)
	os.MkdirAll(dir, 0o755)
	js, _ := json.Marshal(s)
	rf := ReplayFile{Property: sp.ID, Facet: sp.Facet, Failure: o.Fail, Shape: o.Shape, Scenario: js}
	b, _ := json.MarshalIndent(rf, "", " ")
	p := filepath.Join(dir, fmt.Sprintf("%s-%s-seed%d-shard%d.json", sp.Facet, hashOf(string(js)), GetEnv().Seed, GetEnv().Shard))
	os.WriteFile(p, b, 0o644)
	return p
}

// ---------------------------------------------------------------------------
// failures decided by a wall-clock bound
//
// A "hang" verdict that rests on a time bound only is not trustworthy on a machine that is badly
// overloaded (other checks, other jobs): a call that needs 50 ms can then need more than its
// 30 s bound. Such a failure is confirmed before it counts: the scenario is run again once the
// load has dropped (bounded wait) and with every bound multiplied (TimeScale); only if it fails
// again is it reported. On a machine that is not overloaded nothing changes.

var timeScale atomic.Int64

// TimeScale is the factor checks multiply their watchdog bounds with (1 except during a confirmation run).
func TimeScale() time.Duration {
	if v := timeScale.Load(); v > 1 {
		return time.Duration(v)
	}
	return 1
}

// Bound scales a watchdog bound.
func Bound(d time.Duration) time.Duration { return d * TimeScale() }

func load1() float64 {
	b, err := os.ReadFile("/proc/loadavg")
	if err != nil {
		return 0
	}
	f := strings.Fields(string(b))
	if len(f) == 0 {
		return 0
	}
	v, _ := strconv.ParseFloat(f[0], 64)
	return v
}

func overloaded() bool { return load1() > float64(runtime.NumCPU()) }

func timedShape(shape string) bool {
	return strings.Contains(shape, "hang") || strings.Contains(shape, "timeout") || strings.Contains(shape, "stuck")
}

var confirmMu sync.Mutex

// confirmTimed re-runs a scenario whose failure was decided by a time bound while the machine is overloaded.
func confirmTimed[S any](sp *Spec[S], s S, o Outcome) Outcome {
	if o.Fail == "" || !timedShape(o.Shape) || !overloaded() || os.Getenv("VERIF_NO_CONFIRM") != "" {
		return o
	}
	confirmMu.Lock()
	defer confirmMu.Unlock()
	l0 := load1()
	for waited := 0; overloaded() && waited < 90; waited += 3 {
		time.Sleep(3 * time.Second)
	}
	timeScale.Store(6)
	o2 := safeRun(sp, s)
	timeScale.Store(1)
	if o2.Fail != "" {
		return o2
	}
	Counter(sp.ID, "time_bound_failures_not_confirmed_on_rerun(machine_overloaded)", 1)
	Note(sp.ID, "facet %s: a [%s] verdict taken at load average %.0f on %d CPUs did not repeat when the scenario was run again with 6x bounds: not judged (%s)",
		sp.Facet, o.Shape, l0, runtime.NumCPU(), truncate(o.Fail, 200))
	return Outcome{Skip: true, Classes: []string{"time-bound-failure-not-confirmed"}}
}

func truncate(s string, n int) string {
	if len(s) <= n {
		return s
	}
	return s[:n] + "…"
}

func safeRun[S any](sp *Spec[S], s S) (o Outcome) {
	defer func() {
		if r := recover(); r != nil {
			o = Outcome{Fail: fmt.Sprintf("panic in check: %v", r), Shape: "panic"}
		}
	}()
	return sp.Run(s)
}

// runReplays executes the saved regression inputs of a facet. Returns false
// when a replay failed.
func runReplays[S any](t *testing.T, sp *Spec[S], expectFail bool) (failed []Outcome, n int) {
	e := GetEnv()
	var files []string
	if e.Replay != "" {
		files = []string{e.Replay}
	} else {
		files, _ = filepath.Glob(filepath.Join(replayDir(sp.ID, sp.Facet), "*.json"))
		sort.Strings(files)
	}
	for _, fp := range files {
		b, err := os.ReadFile(fp)
		if err != nil {
			continue
		}
		var rf ReplayFile
		if json.Unmarshal(b, &rf) != nil || rf.Property != sp.ID || rf.Facet != sp.Facet {
			continue
		}
		var s S
		if err := json.Unmarshal(rf.Scenario, &s); err != nil {
			t.Logf("replay %s: cannot decode scenario: %v", fp, err)
			continue
		}
		n++
		o := safeRun(sp, s)
		if !expectFail {
			o = confirmTimed(sp, s, o)
		}
		record(sp, s, o)
		stMu.Lock()
		facetFor(sp.ID, sp.Facet, sp.Rule).Replayed++
		stMu.Unlock()
		if o.Fail != "" {
			failed = append(failed, o)
			if !expectFail {
				stMu.Lock()
				stt := statsFor(sp.ID)
				stt.Violations = append(stt.Violations, Violation{Property: sp.ID, Facet: sp.Facet, Replay: fp, Msg: o.Fail, Shape: o.Shape})
				stMu.Unlock()
				t.Errorf("replay %s failed: %s", fp, o.Fail)
			}
		} else if e.Replay != "" {
			t.Logf("replay %s: property held", fp)
		}
	}
	return failed, n
}

func setRapid(seed uint64, checks int) {
	flag.Set("rapid.seed", strconv.FormatUint(seed, 10))
	flag.Set("rapid.checks", strconv.Itoa(checks))
	flag.Set("rapid.nofailfile", "true")
	if os.Getenv("VERIF_SHRINKTIME") != "" {
		flag.Set("rapid.shrinktime", os.Getenv("VERIF_SHRINKTIME"))
	} else {
		flag.Set("rapid.shrinktime", "20s")
	}
}

// Main runs a main facet: every failure is a violation.
func Main[S any](t *testing.T, sp Spec[S]) {
	t.Helper()
	defer Flush()
	start := time.Now()
	e := GetEnv()
	_, _ = runReplays(t, &sp, false)
	if e.Replay != "" {
		return
	}
	if t.Failed() {
		return
	}
	var (
		mu       sync.Mutex
		best     *S
		bestOut  Outcome
		bestSize int
	)
	n := Count(sp.Quick, sp.Thorough)
	setRapid(RapidSeed(sp.ID+"/"+sp.Facet), n)
	// rapid.Check reports through t; run it in a sub-test so that we can act
	// on the result afterwards.
	ok := t.Run("gen", func(t *testing.T) {
		rapid.Check(t, func(rt *rapid.T) {
			s := sp.Gen(rt)
			o := confirmTimed(&sp, s, safeRun(&sp, s))
			record(&sp, s, o)
			if o.Fail != "" {
				mu.Lock()
				sz := len(toJSON(s))
				if best == nil || sz <= bestSize {
					c := s
					best, bestOut, bestSize = &c, o, sz
				}
				mu.Unlock()
				rt.Fatalf("[%s] %s", o.Shape, o.Fail)
			}
		})
	})
	stMu.Lock()
	f := facetFor(sp.ID, sp.Facet, sp.Rule)
	f.WallS += time.Since(start).Seconds()
	f.Completed = ok
	stMu.Unlock()
	if !ok {
		stMu.Lock()
		stt := statsFor(sp.ID)
		v := Violation{Property: sp.ID, Facet: sp.Facet}
		stMu.Unlock()
		if best != nil {
			v.Replay = writeReplay(&sp, *best, bestOut)
			v.Msg = bestOut.Fail
			v.Shape = bestOut.Shape
		} else {
			v.Msg = "rapid reported a failure without a failing scenario (generator error?)"
			v.Shape = "harness"
		}
		stMu.Lock()
		stt.Violations = append(stt.Violations, v)
		stMu.Unlock()
	}
}

// Witness runs a witness facet of a recorded finding. It only runs while the
// finding is listed as `known:`; it is expected to fail with one of the given
// shapes. A failure of another shape is a violation; no failure at all is
// reported as "no longer reproduces" (silent for the exit code).
func Witness[S any](t *testing.T, sp Spec[S], witness string, shapes ...string) {
	t.Helper()
	defer Flush()
	if !Open(sp.ID, witness) {
		t.Logf("witness %s/%s: not listed as known — skipped (its trigger is part of the main facet)", sp.ID, witness)
		return
	}
	e := GetEnv()
	start := time.Now()
	fd := Finding{Property: sp.ID, Witness: witness, Text: kfText(sp.ID, witness)}
	okShape := func(s string) bool {
		for _, x := range shapes {
			if x == s {
				return true
			}
		}
		return false
	}
	var other []struct {
		s S
		o Outcome
	}
	handle := func(s S, o Outcome) {
		fd.Cases++
		if o.Fail == "" {
			return
		}
		if okShape(o.Shape) {
			fd.Failing++
			if fd.Detail == "" {
				d := o.Fail
				if len(d) > 300 {
					d = d[:300] + "…"
				}
				fd.Detail = d
			}
			return
		}
		other = append(other, struct {
			s S
			o Outcome
		}{s, o})
	}
	// saved reproductions first
	{
		var files []string
		if e.Replay != "" {
			files = []string{e.Replay}
		} else {
			files, _ = filepath.Glob(filepath.Join(replayDir(sp.ID, sp.Facet), "*.json"))
			sort.Strings(files)
		}
		for _, fp := range files {
			b, err := os.ReadFile(fp)
			if err != nil {
				continue
			}
			var rf ReplayFile
			if json.Unmarshal(b, &rf) != nil || rf.Property != sp.ID || rf.Facet != sp.Facet {
				continue
			}
			var s S
			if json.Unmarshal(rf.Scenario, &s) != nil {
				continue
			}
			o := safeRun(&sp, s)
			record(&sp, s, o)
			handle(s, o)
		}
	}
	if e.Replay == "" && sp.Gen != nil {
		n := Count(sp.Quick, sp.Thorough)
		// The witness neighbourhood is generated with rapid's generators but
		// without rapid's stop-at-first-failure: we want to see every failing
		// shape, so each case is drawn through rapid.MakeCheck-less Example
		// style: a Check whose property never fails, collecting outcomes.
		setRapid(RapidSeed(sp.ID+"/"+sp.Facet), n)
		t.Run("gen", func(t *testing.T) {
			rapid.Check(t, func(rt *rapid.T) {
				s := sp.Gen(rt)
				o := safeRun(&sp, s)
				record(&sp, s, o)
				handle(s, o)
			})
		})
	}
	fd.Reproduced = fd.Failing > 0
	stMu.Lock()
	stt := statsFor(sp.ID)
	stt.Findings = append(stt.Findings, fd)
	f := facetFor(sp.ID, sp.Facet, sp.Rule)
	f.WallS += time.Since(start).Seconds()
	f.Completed = true
	stMu.Unlock()
	if len(other) > 0 {
		// smallest unexpected failure
		sort.Slice(other, func(i, j int) bool { return len(toJSON(other[i].s)) < len(toJSON(other[j].s)) })
		p := writeReplay(&sp, other[0].s, other[0].o)
		stMu.Lock()
		stt.Violations = append(stt.Violations, Violation{Property: sp.ID, Facet: sp.Facet, Replay: p, Msg: other[0].o.Fail, Shape: other[0].o.Shape})
		stMu.Unlock()
		t.Errorf("witness %s failed in an unexpected shape [%s]: %s", witness, other[0].o.Shape, other[0].o.Fail)
	}
}

// ReportViolation lets checks that do not fit the Spec mould (e.g. child
// process campaigns) report a violation with their own replay file.
func ReportViolation(id, facet, replay, shape, msg string) {
	stMu.Lock()
	defer stMu.Unlock()
	stt := statsFor(id)
	stt.Violations = append(stt.Violations, Violation{Property: id, Facet: facet, Replay: replay, Msg: msg, Shape: shape})
}

// ReportFinding lets such checks report a reproduced known finding.
func ReportFinding(id, witness, detail string, cases, failing int) {
	stMu.Lock()
	defer stMu.Unlock()
	stt := statsFor(id)
	stt.Findings = append(stt.Findings, Finding{Property: id, Witness: witness, Reproduced: failing > 0, Text: kfText(id, witness), Detail: detail, Cases: cases, Failing: failing})
}

// RecordCase lets such checks feed the evidence counters directly.
func RecordCase(id, facet, rule, canon string, nontrivial bool, sample any, classes ...string) {
	stMu.Lock()
	defer stMu.Unlock()
	f := facetFor(id, facet, rule)
	f.Evaluations++
	for _, c := range classes {
		f.Classes[c]++
	}
	if nontrivial {
		f.NonTrivial++
		h := hashOf(canon)
		if _, ok := f.hashSet[h]; !ok {
			f.hashSet[h] = struct{}{}
			if len(f.Samples) < 3 && sample != nil {
				f.Samples = append(f.Samples, sample)
			}
		}
	}
	f.Completed = true
}

// WriteReplayJSON writes an arbitrary replay document for a property and returns its path.
func WriteReplayJSON(id, facet string, doc any) string {
	dir := failDir(id)
	os.MkdirAll(dir, 0o755)
	js, _ := json.Marshal(doc)
	rf := ReplayFile{Property: id, Facet: facet, Scenario: js}
	b, _ := json.MarshalIndent(rf, "", " ")
	p := filepath.Join(dir, fmt.Sprintf("%s-%s-seed%d-shard%d.json", facet, hashOf(string(js)), GetEnv().Seed, GetEnv().Shard))
	os.WriteFile(p, b, 0o644)
	return p
}
