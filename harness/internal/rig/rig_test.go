package rig

import (
	"context"
	"testing"
	"time"

	hydrapb "github.com/hydraide/hydraide/sdk/go/hydraidego/v3/hydraidepbgo"
)

func TestRigSmoke(t *testing.T) {
	r := New(Options{Patterns: []Pattern{{Pattern: "s/r/*", CloseAfterIdleSec: 600, WriteIntervalSec: 1}}})
	defer r.Cleanup()
	ctx := context.Background()
	sn := "s/r/a"
	v := "hello"
	t0 := time.Now()
	resp, err := r.G.Set(ctx, &hydrapb.SetRequest{Swamps: []*hydrapb.SwampRequest{{IslandID: Island(sn), SwampName: sn, CreateIfNotExist: true, Overwrite: true,
		KeyValues: []*hydrapb.KeyValuePair{{Key: "k1", StringVal: &v}}}}})
	if err != nil {
		t.Fatal(err)
	}
	t.Logf("set: %v (%v)", resp, time.Since(t0))
	t0 = time.Now()
	if !r.CloseSwamp(sn) {
		t.Fatal("not open")
	}
	t.Logf("close took %v", time.Since(t0))
	g, err := r.G.Get(ctx, &hydrapb.GetRequest{Swamps: []*hydrapb.GetSwamp{{IslandID: Island(sn), SwampName: sn, Keys: []string{"k1"}}}})
	if err != nil {
		t.Fatal(err)
	}
	t.Logf("get: %v", g)
	c := r.Serve()
	g2, err := c.Get(ctx, &hydrapb.GetRequest{Swamps: []*hydrapb.GetSwamp{{IslandID: Island(sn), SwampName: sn, Keys: []string{"k1"}}}})
	t.Logf("grpc get: %v %v", g2, err)
	t0 = time.Now()
	r.Stop(30 * time.Second)
	t.Logf("stop took %v; panics=%d errors=%d", time.Since(t0), r.Logs.Panics(), r.Logs.Errors())
}
