// Package rig runs the real hydraide server core in-process: settings + zeus
// (hydra, safeops, locker) + the gateway.Gateway RPC handlers, optionally
// behind a real gRPC server on an in-memory bufconn listener.
//
// Facts the rig encodes (measured / read from the code):
//   - the data root comes from env HYDRAIDE_ROOT_PATH, read by settings.New into
//     package-level variables: only ONE rig may be live per process at a time,
//     but rigs may follow each other (each New re-reads the env);
//   - the default engine is V1; the server switches to V2 via SetEngine — so do we;
//   - server wiring uses hash folder depth 1 and 1000 folders per level;
//   - Swamp.Close() is the function both the idle-close listener and
//     GracefulStop call (≈12 ms); StopHydra takes ≥ 1 s.
package rig

import (
	"context"
	"fmt"
	"log/slog"
	"net"
	"os"
	"strings"
	"sync"
	"time"

	"github.com/hydraide/hydraide/app/core/filesystem"
	"github.com/hydraide/hydraide/app/core/settings"
	"github.com/hydraide/hydraide/app/core/zeus"
	"github.com/hydraide/hydraide/app/name"
	"github.com/hydraide/hydraide/app/server/gateway"
	hydrapb "github.com/hydraide/hydraide/sdk/go/hydraidego/v3/hydraidepbgo"
	"google.golang.org/grpc"
	"google.golang.org/grpc/credentials/insecure"
	"google.golang.org/grpc/test/bufconn"
)

// Pattern is a swamp pattern registered directly with the settings (this is
// the only way to get write interval 0 = immediate-write mode; the
// RegisterSwamp RPC replaces 0 by the default).
type Pattern struct {
	Pattern           string
	InMemory          bool
	CloseAfterIdleSec int64
	WriteIntervalSec  int64
	MaxFileSize       int64
}

type Options struct {
	Root                  string // reuse an existing root (restart); empty = fresh temp dir under /dev/shm
	Depth, PerLevel       int    // hash folder config; 0 = server defaults (1, 1000)
	Patterns              []Pattern
	DefaultCloseAfterIdle int64 // gateway defaults (seconds); 0 = 600 / 1 / 8MiB
	DefaultWriteInterval  int64
	DefaultFileSize       int64
	Engine                settings.EngineVersion // "" = V2
}

type Rig struct {
	G    gateway.Gateway
	Z    zeus.Zeus
	S    settings.Settings
	Root string
	Logs *LogCapture

	ownRoot bool
	stopped bool
	mu      sync.Mutex
	srv     *grpc.Server
	conn    *grpc.ClientConn
	cancel  context.CancelFunc
}

var liveMu sync.Mutex // serialises rigs within one process

// New starts a rig. It blocks while another rig of this process is live.
func New(o Options) *Rig {
	liveMu.Lock()
	r := &Rig{Logs: Capture()}
	if o.Root == "" {
		base := "/dev/shm"
		if _, err := os.Stat(base); err != nil {
			base = os.TempDir()
		}
		d, err := os.MkdirTemp(base, "verif-rig-")
		if err != nil {
			liveMu.Unlock()
			panic(err)
		}
		r.Root = d
		r.ownRoot = true
	} else {
		r.Root = o.Root
	}
	os.Setenv("HYDRAIDE_ROOT_PATH", r.Root)
	depth, per := o.Depth, o.PerLevel
	if depth == 0 && per == 0 {
		depth, per = 1, 1000
	}
	s := settings.New(depth, per)
	eng := o.Engine
	if eng == "" {
		eng = settings.EngineV2
	}
	if err := s.SetEngine(eng); err != nil {
		liveMu.Unlock()
		panic(err)
	}
	for _, p := range o.Patterns {
		var fss *settings.FileSystemSettings
		if !p.InMemory {
			mfs := p.MaxFileSize
			if mfs == 0 {
				mfs = 8 << 20
			}
			fss = &settings.FileSystemSettings{WriteIntervalSec: p.WriteIntervalSec, MaxFileSizeByte: mfs}
		}
		s.RegisterPattern(name.Load(p.Pattern), p.InMemory, p.CloseAfterIdleSec, fss)
	}
	z := zeus.New(s, filesystem.New())
	z.StartHydra()
	ctx, cancel := context.WithCancel(context.Background())
	r.cancel = cancel
	dca, dwi, dfs := o.DefaultCloseAfterIdle, o.DefaultWriteInterval, o.DefaultFileSize
	if dca == 0 {
		dca = 600
	}
	if dwi == 0 {
		dwi = 1
	}
	if dfs == 0 {
		dfs = 8 << 20
	}
	r.S, r.Z = s, z
	r.G = gateway.Gateway{
		SettingsInterface:     s,
		ZeusInterface:         z,
		DefaultCloseAfterIdle: dca,
		DefaultWriteInterval:  dwi,
		DefaultFileSize:       dfs,
		ShutdownCtx:           ctx,
	}
	return r
}

// Island returns the island id the rig uses for a swamp name (any fixed
// function of the name works for a single server; this mirrors the SDK: 1000 islands).
func Island(swampName string) uint64 {
	parts := strings.Split(swampName, "/")
	if len(parts) != 3 {
		return 1
	}
	return uint64(name.Load(swampName).GetFolderNumber(1000))
}

// CloseSwamp closes the in-memory instance of a swamp if it is open, exactly
// like the idle-close listener / graceful stop do. Returns false when the
// swamp is not open.
func (r *Rig) CloseSwamp(swampName string) bool {
	h := r.Z.GetHydra()
	n := name.Load(swampName)
	open := false
	for _, a := range h.ListActiveSwamps() {
		if a == n.Get() {
			open = true
		}
	}
	if !open {
		return false
	}
	ctx, cancel := context.WithTimeout(context.Background(), 20*time.Second)
	defer cancel()
	sw, err := h.SummonSwamp(ctx, Island(swampName), n)
	if err != nil || sw == nil {
		return false
	}
	sw.Close()
	// wait until it left the active map
	deadline := time.Now().Add(20 * time.Second)
	for time.Now().Before(deadline) {
		still := false
		for _, a := range h.ListActiveSwamps() {
			if a == n.Get() {
				still = true
			}
		}
		if !still {
			return true
		}
		time.Sleep(time.Millisecond)
	}
	return true
}

// IsOpen reports whether the swamp currently has an in-memory instance.
func (r *Rig) IsOpen(swampName string) bool {
	n := name.Load(swampName).Get()
	for _, a := range r.Z.GetHydra().ListActiveSwamps() {
		if a == n {
			return true
		}
	}
	return false
}

// Stop shuts the engine down (graceful stop; ≥ 1 s when swamps are open).
// Returns false if it did not finish within the timeout.
func (r *Rig) Stop(timeout time.Duration) bool {
	r.mu.Lock()
	if r.stopped {
		r.mu.Unlock()
		return true
	}
	r.stopped = true
	r.mu.Unlock()
	if r.conn != nil {
		r.conn.Close()
	}
	if r.srv != nil {
		r.srv.Stop()
	}
	r.cancel()
	done := make(chan struct{})
	go func() {
		defer close(done)
		r.Z.StopHydra()
	}()
	ok := true
	select {
	case <-done:
	case <-time.After(timeout):
		ok = false
	}
	r.Logs.Release()
	liveMu.Unlock()
	return ok
}

// Cleanup stops the rig (if needed) and removes its root when the rig created it.
func (r *Rig) Cleanup() {
	r.Stop(60 * time.Second)
	if r.ownRoot {
		os.RemoveAll(r.Root)
	}
}

// DisownRoot makes Cleanup keep the data root (for restart scenarios).
func (r *Rig) DisownRoot() { r.ownRoot = false }

// Serve exposes the gateway through a real gRPC server on bufconn and returns a client.
func (r *Rig) Serve() hydrapb.HydraideServiceClient {
	lis := bufconn.Listen(1 << 20)
	r.srv = grpc.NewServer(grpc.MaxRecvMsgSize(64<<20), grpc.MaxSendMsgSize(64<<20))
	hydrapb.RegisterHydraideServiceServer(r.srv, r.G)
	go r.srv.Serve(lis)
	conn, err := grpc.NewClient("passthrough:///bufnet",
		grpc.WithContextDialer(func(ctx context.Context, _ string) (net.Conn, error) { return lis.DialContext(ctx) }),
		grpc.WithTransportCredentials(insecure.NewCredentials()),
		grpc.WithDefaultCallOptions(grpc.MaxCallRecvMsgSize(64<<20), grpc.MaxCallSendMsgSize(64<<20)))
	if err != nil {
		panic(err)
	}
	r.conn = conn
	return hydrapb.NewHydraideServiceClient(conn)
}

// ---------------------------------------------------------------------------
// slog capture

type LogCapture struct {
	mu      sync.Mutex
	panics  int
	errors  int
	recent  []string
	prev    *slog.Logger
	release sync.Once
}

type capHandler struct{ c *LogCapture }

func (h capHandler) Enabled(_ context.Context, l slog.Level) bool { return l >= slog.LevelWarn }
func (h capHandler) Handle(_ context.Context, r slog.Record) error {
	h.c.mu.Lock()
	defer h.c.mu.Unlock()
	if r.Level >= slog.LevelError {
		h.c.errors++
	}
	if strings.Contains(r.Message, "grpc gateway panic") || strings.Contains(strings.ToLower(r.Message), "panic") {
		h.c.panics++
	}
	if len(h.c.recent) < 200 {
		var sb strings.Builder
		sb.WriteString(r.Message)
		n := 0
		r.Attrs(func(a slog.Attr) bool {
			v := a.Value.String()
			if len(v) > 400 {
				v = v[:400] + "…"
			}
			fmt.Fprintf(&sb, " %s=%s", a.Key, v)
			n++
			return n < 6
		})
		h.c.recent = append(h.c.recent, sb.String())
	}
	return nil
}
func (h capHandler) WithAttrs([]slog.Attr) slog.Handler { return h }
func (h capHandler) WithGroup(string) slog.Handler      { return h }

// Capture redirects the default slog logger to a capturing handler (the
// server logs a lot at Info level; this also keeps the test output small).
func Capture() *LogCapture {
	c := &LogCapture{prev: slog.Default()}
	slog.SetDefault(slog.New(capHandler{c}))
	return c
}

func (c *LogCapture) Release() {
	c.release.Do(func() {
		// keep capturing: late goroutines of the engine may still log; restoring the
		// default logger would spam the test output. Nothing to do.
	})
}

// Panics returns how many "panic" records were logged so far.
func (c *LogCapture) Panics() int {
	c.mu.Lock()
	defer c.mu.Unlock()
	return c.panics
}

// Errors returns how many error-level records were logged so far.
func (c *LogCapture) Errors() int {
	c.mu.Lock()
	defer c.mu.Unlock()
	return c.errors
}

// Recent returns up to n captured warn/error records.
func (c *LogCapture) Recent(n int) []string {
	c.mu.Lock()
	defer c.mu.Unlock()
	if n > len(c.recent) {
		n = len(c.recent)
	}
	return append([]string(nil), c.recent[len(c.recent)-n:]...)
}

// Reset clears the recent buffer (counts are kept).
func (c *LogCapture) Reset() {
	c.mu.Lock()
	defer c.mu.Unlock()
	c.recent = c.recent[:0]
}
