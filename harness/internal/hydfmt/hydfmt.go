// Package hydfmt is an independent, deliberately small encoder/decoder of the
// documented .hyd layout (docs + types.go comments). It shares no code with
// the engine under test (it uses golang/snappy directly) and is used
//   - to hand-build legacy V2 files,
//   - as a differential decoder of files/blocks written by the engine
//     (C01 cross-check, C02 flush-boundary oracle).
package hydfmt

import (
	"encoding/binary"
	"errors"
	"hash/crc32"

	"github.com/golang/snappy"
)

const (
	HeaderSize      = 64
	BlockHeaderSize = 16
	OpInsert        = 1
	OpUpdate        = 2
	OpDelete        = 3
	OpMetadata      = 4
	MetaKey         = "__swamp_meta__"
)

type Entry struct {
	Op   uint8
	Key  string
	Data []byte
}

type Header struct {
	Version    uint16
	BlockSize  uint32
	EntryCount uint64
	BlockCount uint64
	NameLength uint16
}

func EncodeHeader(h Header) []byte {
	buf := make([]byte, HeaderSize)
	copy(buf[0:4], "HYDR")
	binary.LittleEndian.PutUint16(buf[4:6], h.Version)
	binary.LittleEndian.PutUint64(buf[8:16], 1)
	binary.LittleEndian.PutUint64(buf[16:24], 1)
	binary.LittleEndian.PutUint32(buf[24:28], h.BlockSize)
	binary.LittleEndian.PutUint64(buf[28:36], h.EntryCount)
	binary.LittleEndian.PutUint64(buf[36:44], h.BlockCount)
	if h.Version >= 3 {
		binary.LittleEndian.PutUint16(buf[44:46], h.NameLength)
	}
	return buf
}

func DecodeHeader(buf []byte) (Header, error) {
	var h Header
	if len(buf) < HeaderSize {
		return h, errors.New("short header")
	}
	if string(buf[0:4]) != "HYDR" {
		return h, errors.New("bad magic")
	}
	h.Version = binary.LittleEndian.Uint16(buf[4:6])
	if h.Version != 2 && h.Version != 3 {
		return h, errors.New("bad version")
	}
	h.BlockSize = binary.LittleEndian.Uint32(buf[24:28])
	h.EntryCount = binary.LittleEndian.Uint64(buf[28:36])
	h.BlockCount = binary.LittleEndian.Uint64(buf[36:44])
	if h.Version == 3 {
		h.NameLength = binary.LittleEndian.Uint16(buf[44:46])
	}
	return h, nil
}

func EncodeEntry(e Entry) []byte {
	b := make([]byte, 0, 7+len(e.Key)+len(e.Data))
	b = append(b, e.Op)
	b = binary.LittleEndian.AppendUint16(b, uint16(len(e.Key)))
	b = append(b, e.Key...)
	b = binary.LittleEndian.AppendUint32(b, uint32(len(e.Data)))
	b = append(b, e.Data...)
	return b
}

// EncodeBlock returns block header + compressed payload.
func EncodeBlock(entries []Entry) []byte {
	var raw []byte
	for _, e := range entries {
		raw = append(raw, EncodeEntry(e)...)
	}
	comp := snappy.Encode(nil, raw)
	hdr := make([]byte, BlockHeaderSize)
	binary.LittleEndian.PutUint32(hdr[0:4], uint32(len(comp)))
	binary.LittleEndian.PutUint32(hdr[4:8], uint32(len(raw)))
	binary.LittleEndian.PutUint16(hdr[8:10], uint16(len(entries)))
	binary.LittleEndian.PutUint32(hdr[10:14], crc32.ChecksumIEEE(comp))
	return append(hdr, comp...)
}

// LegacyV2File builds a version-2 file: no name area, the swamp name is an
// OpMetadata entry in the first block.
func LegacyV2File(name string, blockSize uint32, blocks [][]Entry) []byte {
	var body []byte
	var nEntries, nBlocks uint64
	first := []Entry{{Op: OpMetadata, Key: MetaKey, Data: []byte(name)}}
	if len(blocks) > 0 {
		first = append(first, blocks[0]...)
		blocks = blocks[1:]
	}
	body = append(body, EncodeBlock(first)...)
	nEntries += uint64(len(first))
	nBlocks++
	for _, b := range blocks {
		if len(b) == 0 {
			continue
		}
		body = append(body, EncodeBlock(b)...)
		nEntries += uint64(len(b))
		nBlocks++
	}
	h := EncodeHeader(Header{Version: 2, BlockSize: blockSize, EntryCount: nEntries, BlockCount: nBlocks})
	return append(h, body...)
}

// V3File builds a version-3 file from blocks.
func V3File(name string, blockSize uint32, blocks [][]Entry) []byte {
	var body []byte
	var nEntries, nBlocks uint64
	for _, b := range blocks {
		if len(b) == 0 {
			continue
		}
		body = append(body, EncodeBlock(b)...)
		nEntries += uint64(len(b))
		nBlocks++
	}
	h := EncodeHeader(Header{Version: 3, BlockSize: blockSize, EntryCount: nEntries, BlockCount: nBlocks, NameLength: uint16(len(name))})
	out := append(h, name...)
	return append(out, body...)
}

// Block is one decoded block with its byte extent in the file.
type Block struct {
	Start, End int64 // [Start, End) in the file
	Entries    []Entry
}

// DecodeBlockAt decodes the block starting at off. ok=false when the bytes do
// not form a complete valid block.
func DecodeBlockAt(file []byte, off int64) (Block, bool) {
	var b Block
	if off+BlockHeaderSize > int64(len(file)) {
		return b, false
	}
	h := file[off : off+BlockHeaderSize]
	cs := int64(binary.LittleEndian.Uint32(h[0:4]))
	us := binary.LittleEndian.Uint32(h[4:8])
	n := int(binary.LittleEndian.Uint16(h[8:10]))
	sum := binary.LittleEndian.Uint32(h[10:14])
	if off+BlockHeaderSize+cs > int64(len(file)) {
		return b, false
	}
	comp := file[off+BlockHeaderSize : off+BlockHeaderSize+cs]
	if crc32.ChecksumIEEE(comp) != sum {
		return b, false
	}
	// snappy.Decode allocates the length its preamble declares before it reads the stream; a stream cannot
	// expand more than ~32x, so a larger declaration is an invalid block (and must not cost the reference
	// decoder gigabytes on forged input)
	if dl, derr := snappy.DecodedLen(comp); derr != nil || dl > 128*len(comp)+1024 {
		return b, false
	}
	raw, err := snappy.Decode(nil, comp)
	if err != nil || uint32(len(raw)) != us {
		return b, false
	}
	p := 0
	for i := 0; i < n; i++ {
		if p+3 > len(raw) {
			return b, false
		}
		op := raw[p]
		kl := int(binary.LittleEndian.Uint16(raw[p+1 : p+3]))
		p += 3
		if p+kl+4 > len(raw) {
			return b, false
		}
		key := string(raw[p : p+kl])
		p += kl
		dl := int(binary.LittleEndian.Uint32(raw[p : p+4]))
		p += 4
		if p+dl > len(raw) {
			return b, false
		}
		data := append([]byte(nil), raw[p:p+dl]...)
		p += dl
		b.Entries = append(b.Entries, Entry{Op: op, Key: key, Data: data})
	}
	b.Start, b.End = off, off+BlockHeaderSize+cs
	return b, true
}

// DecodeFile decodes a whole file: header, name, all complete blocks. Returns
// the blocks decoded so far and the offset where decoding stopped; clean=true
// when it stopped exactly at end of file.
func DecodeFile(file []byte) (h Header, name string, blocks []Block, stop int64, clean bool, err error) {
	h, err = DecodeHeader(file)
	if err != nil {
		return
	}
	off := int64(HeaderSize)
	if h.Version == 3 {
		if off+int64(h.NameLength) > int64(len(file)) {
			err = errors.New("short name")
			return
		}
		name = string(file[off : off+int64(h.NameLength)])
		off += int64(h.NameLength)
	}
	for off < int64(len(file)) {
		b, ok := DecodeBlockAt(file, off)
		if !ok {
			break
		}
		blocks = append(blocks, b)
		off = b.End
	}
	stop = off
	clean = off == int64(len(file))
	return
}

// Replay folds blocks into the last-writer-wins map, and extracts the V2 name.
func Replay(blocks []Block) (map[string][]byte, string) {
	m := map[string][]byte{}
	name := ""
	for _, b := range blocks {
		for _, e := range b.Entries {
			switch e.Op {
			case OpInsert, OpUpdate:
				m[e.Key] = e.Data
			case OpDelete:
				delete(m, e.Key)
			case OpMetadata:
				if name == "" && e.Key == MetaKey && len(e.Data) > 0 {
					name = string(e.Data)
				}
			}
		}
	}
	return m, name
}
