module verifharness

go 1.26.2

require (
	github.com/anishathalye/porcupine v1.3.0
	github.com/golang/snappy v1.0.0
	github.com/hydraide/hydraide v0.0.0
	github.com/hydraide/hydraide/sdk/go/hydraidego/v3 v3.0.0-00010101000000-000000000000
	golang.org/x/tools v0.29.0
	pgregory.net/rapid v1.3.0
)

require (
	github.com/klauspost/compress v1.18.5 // indirect
	github.com/pierrec/lz4 v2.6.1+incompatible // indirect
)

replace github.com/hydraide/hydraide => /repo

replace github.com/hydraide/hydraide/sdk/go/hydraidego/v3 => /repo/sdk/go/hydraidego
