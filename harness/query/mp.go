// Package query holds the checks for C07 (ordered index reads) and C08
// (bucket-accelerated vs full-scan query routes).
package query

import (
	"encoding/binary"
	"math"
	"sort"
)

// A tiny, independent MessagePack encoder with exact control over the wire
// type of every scalar (the server's decoder maps each wire type to a distinct
// Go type, and both query routes branch on that type).

// Val is a JSON-serialisable description of one body value.
//
//	K: "missing" | "nil" | "bool" | "i8" "i16" "i32" "i64" | "u8" "u16" "u32" "u64" |
//	   "f32" "f64" | "str" | "time" | "arr" | "map"
type Val struct {
	K   string  `json:"k"`
	I   int64   `json:"i,omitempty"`   // signed ints, bool (0/1), time (unix seconds)
	U   uint64  `json:"u,omitempty"`   // unsigned ints
	F   float64 `json:"f,omitempty"`   // floats
	S   string  `json:"s,omitempty"`   // strings
	Arr []Val   `json:"arr,omitempty"` // arrays
	Map []KV    `json:"map,omitempty"` // maps (ordered for determinism)
}

type KV struct {
	K string `json:"k"`
	V Val    `json:"v"`
}

func mpStr(b []byte, s string) []byte {
	n := len(s)
	switch {
	case n < 32:
		b = append(b, 0xa0|byte(n))
	case n < 256:
		b = append(b, 0xd9, byte(n))
	default:
		b = append(b, 0xda, byte(n>>8), byte(n))
	}
	return append(b, s...)
}

// mpVal appends the encoding of v. "missing" must be handled by the caller.
func mpVal(b []byte, v Val) []byte {
	switch v.K {
	case "nil":
		return append(b, 0xc0)
	case "bool":
		if v.I != 0 {
			return append(b, 0xc3)
		}
		return append(b, 0xc2)
	case "i8":
		return append(b, 0xd0, byte(int8(v.I)))
	case "i16":
		return binary.BigEndian.AppendUint16(append(b, 0xd1), uint16(int16(v.I)))
	case "i32":
		return binary.BigEndian.AppendUint32(append(b, 0xd2), uint32(int32(v.I)))
	case "i64":
		return binary.BigEndian.AppendUint64(append(b, 0xd3), uint64(v.I))
	case "u8":
		return append(b, 0xcc, byte(v.U))
	case "u16":
		return binary.BigEndian.AppendUint16(append(b, 0xcd), uint16(v.U))
	case "u32":
		return binary.BigEndian.AppendUint32(append(b, 0xce), uint32(v.U))
	case "u64":
		return binary.BigEndian.AppendUint64(append(b, 0xcf), v.U)
	case "f32":
		return binary.BigEndian.AppendUint32(append(b, 0xca), math.Float32bits(float32(v.F)))
	case "f64":
		return binary.BigEndian.AppendUint64(append(b, 0xcb), math.Float64bits(v.F))
	case "str":
		return mpStr(b, v.S)
	case "time":
		// timestamp 32: fixext4, type -1, seconds as uint32
		return binary.BigEndian.AppendUint32(append(b, 0xd6, 0xff), uint32(v.I))
	case "arr":
		n := len(v.Arr)
		if n < 16 {
			b = append(b, 0x90|byte(n))
		} else {
			b = append(b, 0xdc, byte(n>>8), byte(n))
		}
		for _, e := range v.Arr {
			b = mpVal(b, e)
		}
		return b
	case "map":
		return mpMap(b, v.Map)
	}
	panic("mpVal: unknown kind " + v.K)
}

func mpMap(b []byte, kvs []KV) []byte {
	n := 0
	for _, kv := range kvs {
		if kv.V.K != "missing" {
			n++
		}
	}
	if n < 16 {
		b = append(b, 0x80|byte(n))
	} else {
		b = append(b, 0xde, byte(n>>8), byte(n))
	}
	for _, kv := range kvs {
		if kv.V.K == "missing" {
			continue
		}
		b = mpStr(b, kv.K)
		b = mpVal(b, kv.V)
	}
	return b
}

// wrapBody prepends HydrAIDE's 2-byte MessagePack magic (0xC7 0x00).
func wrapBody(raw []byte) []byte { return append([]byte{0xC7, 0x00}, raw...) }

// sortedStrings returns a sorted copy.
func sortedStrings(xs []string) []string {
	c := append([]string(nil), xs...)
	sort.Strings(c)
	return c
}
