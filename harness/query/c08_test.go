package query

import (
	"context"
	"fmt"
	"sort"
	"strings"
	"testing"
	"time"

	"github.com/hydraide/hydraide/app/server/gateway"
	hydrapb "github.com/hydraide/hydraide/sdk/go/hydraidego/v3/hydraidepbgo"
	"google.golang.org/protobuf/proto"
	"pgregory.net/rapid"

	"verifharness/internal/pbt"
	"verifharness/internal/rig"
)

// C08 — Accelerated (bucket) and full-scan query routes agree.
//
// Route forcing: the same GetByIndexStream request is sent with Filters = G and with
// Filters = OR{SubGroups:[G]}. The wrapper is semantically the identity (an OR over one branch, match labels of a
// matching sub-group are propagated), but planOr refuses groups with sub-groups, so it takes the beacon walk + full
// per-row predicate. gateway.PlanFilter (exported) is consulted for both to know which route each one took.

// ---------------------------------------------------------------------------
// generator

type c08Cfg struct {
	// triggers of open findings: true = may be generated
	fromLimit bool // From/Limit other than 0
	wildcard  bool // [*] / #len path on an EQUAL / *_IN leg
	floatInt  bool // float-valued field compared with an integer value (or the reverse) on an EQUAL / *_IN leg
	eqLabel   bool // label on an EQUAL / *_IN leg
	zeroTS    bool // record without the timestamp of the time index used
	keyWindow bool // FromTime/ToTime together with the KEY index
	timeField bool // time-valued body field compared with a float / unsigned value on an EQUAL leg
	noMagic   bool // body that is a msgpack map without the 2-byte magic prefix
	force     string
}

func c08MainCfg() c08Cfg {
	return c08Cfg{
		fromLimit: !pbt.Open("C08", "from-limit-stage"),
		wildcard:  !pbt.Open("C08", "wildcard-len-path-indexed"),
		floatInt:  !pbt.Open("C08", "float-int-equality"),
		eqLabel:   !pbt.Open("C08", "indexed-leg-label-dropped"),
		zeroTS:    !pbt.Open("C08", "zero-timestamp-on-time-index"),
		keyWindow: !pbt.Open("C08", "key-index-time-window"),
		timeField: !pbt.Open("C08", "time-field-cross-kind"),
		noMagic:   !pbt.Open("C08", "msgpack-without-magic"),
	}
}

var (
	c08Tenants = []string{"acme", "globex", "initech", ""}
	c08IntPool = []int64{1, 2, -1, 0, 1, 2, 3, 1000, 1 << 53, 1<<53 + 1}
	c08FltPool = []float64{1, 2, -1.5, 0, 0.5, 1, 1.5, 2, 1000, 9007199254740992}
	c08Labels  = []string{"L1", "L2", "L3"}
)

type c08Gen struct {
	t      *rapid.T
	cfg    c08Cfg
	nFloat bool // regime of field "n" while floatInt is excluded
	n      int  // label counter
}

func (g *c08Gen) l(s string) string { g.n++; return fmt.Sprintf("%s%d", s, g.n) }

// intVal draws an integer Val of a random kind that can hold v.
func (g *c08Gen) intVal(v int64) Val {
	var kinds []string
	switch {
	case v < 0 && v >= -128:
		kinds = []string{"i8", "i16", "i32", "i64"}
	case v >= 0 && v <= 127:
		kinds = []string{"i8", "i16", "i32", "i64", "u8", "u16", "u32", "u64"}
	case v >= 0 && v <= 32767:
		kinds = []string{"i16", "i32", "i64", "u16", "u32", "u64"}
	case v >= 0:
		kinds = []string{"i64", "u64"}
	default:
		kinds = []string{"i64"}
	}
	k := rapid.SampledFrom(kinds).Draw(g.t, g.l("ik"))
	if k[0] == 'u' {
		return Val{K: k, U: uint64(v)}
	}
	return Val{K: k, I: v}
}

func (g *c08Gen) fltVal(v float64) Val {
	k := "f64"
	if v != 9007199254740992 && rapid.Bool().Draw(g.t, g.l("f32")) {
		k = "f32"
	}
	return Val{K: k, F: v}
}

func (g *c08Gen) anyInt() Val { return g.intVal(rapid.SampledFrom(c08IntPool).Draw(g.t, g.l("iv"))) }
func (g *c08Gen) anyFlt() Val { return g.fltVal(rapid.SampledFrom(c08FltPool).Draw(g.t, g.l("fv"))) }
func (g *c08Gen) smallInt() Val {
	return g.intVal(rapid.SampledFrom([]int64{0, 1, 2, 3}).Draw(g.t, g.l("sv")))
}

// numFor draws a numeric value for field "n" / compare values on "n".
func (g *c08Gen) numFor(field string) Val {
	if g.cfg.floatInt {
		if rapid.Bool().Draw(g.t, g.l("nf")) {
			return g.anyFlt()
		}
		return g.anyInt()
	}
	if field == "f" || (field == "n" && g.nFloat) {
		return g.anyFlt()
	}
	return g.anyInt()
}

func (g *c08Gen) pick(n int) int { return rapid.IntRange(0, n-1).Draw(g.t, g.l("p")) }

func (g *c08Gen) fieldVal(field string) Val {
	c := g.pick(100)
	switch field {
	case "tenant":
		switch {
		case c < 75:
			return Val{K: "str", S: c08Tenants[g.pick(len(c08Tenants))]}
		case c < 85:
			return Val{K: "missing"}
		case c < 90:
			return Val{K: "nil"}
		case c < 95:
			return g.intVal(1)
		}
		return Val{K: "bool", I: 1}
	case "status":
		switch {
		case c < 45:
			return Val{K: "str", S: []string{"ready", "done", "1"}[g.pick(3)]}
		case c < 80:
			return g.intVal(int64(1 + g.pick(2)))
		}
		return Val{K: "missing"}
	case "n", "f":
		switch {
		case c < 80:
			return g.numFor(field)
		case c < 88:
			return Val{K: "missing"}
		case c < 93:
			return Val{K: "nil"}
		}
		return Val{K: "str", S: "1"}
	case "flag":
		switch {
		case c < 60:
			return Val{K: "bool", I: int64(g.pick(2))}
		case c < 70:
			return Val{K: "nil"}
		case c < 80:
			return Val{K: "missing"}
		}
		return g.intVal(int64(g.pick(2)))
	case "t":
		switch {
		case c < 45:
			return Val{K: "time", I: int64(1000 * (1 + g.pick(2)))}
		case c < 75:
			return g.intVal(int64(1000 * (1 + g.pick(2))))
		case c < 80 && g.cfg.floatInt:
			return g.fltVal(1000)
		}
		return Val{K: "missing"}
	case "tags":
		if c < 20 {
			return Val{K: "missing"}
		}
		n := g.pick(4)
		v := Val{K: "arr"}
		for i := 0; i < n; i++ {
			if g.pick(3) == 0 {
				v.Arr = append(v.Arr, g.intVal(int64(1+g.pick(2))))
			} else {
				v.Arr = append(v.Arr, Val{K: "str", S: []string{"x", "y"}[g.pick(2)]})
			}
		}
		return v
	case "nested":
		switch {
		case c < 60:
			x := g.smallInt()
			if g.pick(3) == 0 {
				x = Val{K: "str", S: c08Tenants[g.pick(3)]}
			}
			m := Val{K: "map", Map: []KV{{"x", x}}}
			if g.pick(3) == 0 {
				m.Map = append(m.Map, KV{"y", Val{K: "bool", I: 1}})
			}
			return m
		case c < 80:
			return Val{K: "missing"}
		case c < 90:
			return Val{K: "str", S: "acme"}
		}
		return Val{K: "map"}
	}
	return Val{K: "missing"}
}

var c08Fields = []string{"tenant", "status", "n", "f", "flag", "t", "tags", "nested"}

func (g *c08Gen) rec(key int, needTS map[string]bool) C08Rec {
	r := C08Rec{Key: key, Kind: "map"}
	c := g.pick(100)
	switch {
	case c < 84:
	case c < 89:
		r.Kind = "raw"
	case c < 93:
		r.Kind = "magicbad"
	case c < 96:
		r.Kind = "arr"
	default:
		if g.cfg.noMagic {
			r.Kind = "nomagic"
		}
	}
	if g.cfg.force == "nomagic" && g.pick(3) == 0 {
		r.Kind = "nomagic"
	}
	switch r.Kind {
	case "map", "nomagic":
		for _, f := range c08Fields {
			r.F = append(r.F, KV{f, g.fieldVal(f)})
		}
	case "raw", "magicbad":
		r.Raw = rapid.SliceOfN(rapid.Byte(), 1, 12).Draw(g.t, g.l("raw"))
	}
	ts := func(fam string) int {
		if needTS[fam] || g.pick(4) != 0 {
			return 1 + g.pick(14)
		}
		return 0
	}
	r.C, r.U, r.E = ts("c"), ts("u"), ts("e")
	return r
}

var (
	c08PlainPaths = []string{"tenant", "tenant", "tenant", "status", "status", "n", "n", "f", "flag", "flag", "t", "nested.x", "nested.x", "nested.y", "nosuch"}
	c08WildPaths  = []string{"tags[*]", "tags.#len", "nested.#len"}
)

// cvFor draws a compare value suited to the path (so that matches are frequent) under the active regimes.
func (g *c08Gen) cvFor(path string) Val {
	switch path {
	case "tenant":
		if g.pick(10) < 8 {
			return Val{K: "str", S: c08Tenants[g.pick(len(c08Tenants))]}
		}
		return g.intVal(1)
	case "status":
		if g.pick(2) == 0 {
			return Val{K: "str", S: []string{"ready", "done", "1"}[g.pick(3)]}
		}
		return g.intVal(int64(1 + g.pick(2)))
	case "n", "f":
		return g.numFor(path)
	case "flag":
		if g.pick(10) < 7 {
			return Val{K: "bool", I: int64(g.pick(2))}
		}
		return g.intVal(int64(g.pick(2)))
	case "t":
		v := int64(1000 * (1 + g.pick(2)))
		if g.cfg.timeField && g.pick(2) == 0 {
			if g.pick(2) == 0 {
				return Val{K: "f64", F: float64(v)}
			}
			return Val{K: "u32", U: uint64(v)}
		}
		if g.pick(2) == 0 {
			return Val{K: "i32", I: v}
		}
		return Val{K: "i64", I: v}
	case "tags[*]":
		if g.pick(2) == 0 {
			return Val{K: "str", S: []string{"x", "y"}[g.pick(2)]}
		}
		return Val{K: "i64", I: int64(1 + g.pick(2))}
	case "tags.#len", "nested.#len":
		return Val{K: "i64", I: int64(g.pick(4))}
	case "nested.x":
		if g.pick(3) == 0 {
			return Val{K: "str", S: c08Tenants[g.pick(3)]}
		}
		return g.smallInt()
	}
	return Val{K: "str", S: "acme"}
}

func (g *c08Gen) label(indexable bool) string {
	if indexable && !g.cfg.eqLabel {
		return ""
	}
	if g.pick(3) == 0 {
		return c08Labels[g.pick(len(c08Labels))]
	}
	return ""
}

// idxLeg draws an EQUAL / *_IN leg on a body path (what the planner calls indexable).
func (g *c08Gen) idxLeg() FLeg {
	paths := c08PlainPaths
	if g.cfg.wildcard && g.pick(4) == 0 {
		paths = c08WildPaths
	}
	return g.idxLegOn(paths[g.pick(len(paths))])
}

// idxLegOn draws an EQUAL / *_IN leg on the given body path.
func (g *c08Gen) idxLegOn(p string) FLeg {
	l := FLeg{Path: p, Label: g.label(true)}
	intIn := func() bool { // integer IN lists are integer compare values
		if g.cfg.floatInt {
			return true
		}
		return !(p == "f" || (p == "n" && g.nFloat))
	}
	switch c := g.pick(10); {
	case c < 6:
		l.Op = "eq"
		l.CV = g.cvFor(p)
	case c < 8:
		l.Op = "sin"
		for i, n := 0, 1+g.pick(3); i < n; i++ {
			l.SIn = append(l.SIn, []string{"acme", "globex", "ready", "1", "x", ""}[g.pick(6)])
		}
	default:
		if !intIn() {
			l.Op = "eq"
			l.CV = g.cvFor(p)
			break
		}
		l.Op = []string{"i32in", "i64in"}[g.pick(2)]
		for i, n := 0, 1+g.pick(3); i < n; i++ {
			l.IIn = append(l.IIn, []int64{0, 1, 2, 3, 1000, 2000}[g.pick(6)])
		}
	}
	return l
}

// resLeg draws a leg the planner never indexes: range / NOT_EQUAL / IS_EMPTY on a body path or a metadata timestamp leg.
func (g *c08Gen) resLeg() FLeg {
	if g.pick(4) == 0 {
		return FLeg{Meta: []string{"c", "u", "e"}[g.pick(3)], Op: []string{"gt", "ge", "lt", "le", "ne", "eq", "empty", "nempty"}[g.pick(8)],
			CV: Val{K: "ts", I: int64(1 + g.pick(14))}, Label: g.label(false)}
	}
	paths := c08PlainPaths
	if g.pick(5) == 0 {
		paths = c08WildPaths
	}
	p := paths[g.pick(len(paths))]
	l := FLeg{Path: p, Op: []string{"ne", "gt", "ge", "lt", "le", "empty", "nempty"}[g.pick(7)], Label: g.label(false)}
	l.CV = g.cvFor(p)
	return l
}

func (g *c08Gen) randGroup(depth int) FGroup {
	gr := FGroup{Or: g.pick(2) == 0}
	for i, n := 0, 1+g.pick(3); i < n; i++ {
		if g.pick(2) == 0 {
			gr.Legs = append(gr.Legs, g.idxLeg())
		} else {
			gr.Legs = append(gr.Legs, g.resLeg())
		}
	}
	if depth < 3 {
		for i, n := 0, g.pick(3); i < n; i++ {
			if g.pick(2) == 0 {
				gr.Subs = append(gr.Subs, g.randGroup(depth+1))
			}
		}
	}
	return gr
}

func (g *c08Gen) orUnion() FGroup {
	gr := FGroup{Or: true}
	for i, n := 0, 1+g.pick(3); i < n; i++ {
		gr.Legs = append(gr.Legs, g.idxLeg())
	}
	return gr
}

func (g *c08Gen) filter() FGroup {
	switch c := g.pick(100); {
	case c < 50: // AND with >= 1 indexable leg
		gr := FGroup{}
		gr.Legs = append(gr.Legs, g.idxLeg())
		for i, n := 0, g.pick(2)*g.pick(3); i < n; i++ {
			if g.pick(3) == 0 {
				gr.Legs = append(gr.Legs, g.idxLeg())
			} else {
				gr.Legs = append(gr.Legs, g.resLeg())
			}
		}
		// random leg order: the planner takes the first indexable one
		for i := len(gr.Legs) - 1; i > 0; i-- {
			j := g.pick(i + 1)
			gr.Legs[i], gr.Legs[j] = gr.Legs[j], gr.Legs[i]
		}
		if g.pick(3) == 0 {
			gr.Subs = append(gr.Subs, g.randGroup(2))
		}
		return gr
	case c < 75:
		return g.orUnion()
	case c < 90: // AND without indexable leaf, candidate set from an OR-union sub-group
		gr := FGroup{}
		for i, n := 0, g.pick(3); i < n; i++ {
			gr.Legs = append(gr.Legs, g.resLeg())
		}
		if g.pick(3) == 0 {
			gr.Subs = append(gr.Subs, FGroup{Legs: []FLeg{g.resLeg()}})
		}
		gr.Subs = append(gr.Subs, g.orUnion())
		if g.pick(3) == 0 {
			gr.Subs = append(gr.Subs, g.randGroup(2))
		}
		return gr
	}
	return g.randGroup(1)
}

func (g *c08Gen) query(nkeys int) C08Query {
	q := C08Query{Idx: []string{"key", "key", "c", "c", "u", "e"}[g.pick(6)], Desc: g.pick(2) == 0, KeysOnly: g.pick(4) == 0}
	if g.cfg.fromLimit {
		if g.pick(2) == 0 {
			q.From = g.pick(6)
		}
		if g.pick(2) == 0 {
			q.Limit = g.pick(8)
		}
	}
	if g.pick(3) == 0 {
		q.Max = 1 + g.pick(6)
	}
	if q.Idx != "key" || g.cfg.keyWindow {
		if g.pick(5) == 0 {
			q.FT, q.FTB = 1+g.pick(8), g.pick(3) == 0
		}
		if g.pick(5) == 0 {
			q.TT, q.TTB = 5+g.pick(10), g.pick(3) == 0
		}
	}
	if g.pick(8) == 0 {
		for i, n := 0, 1+g.pick(nkeys); i < n; i++ {
			q.Inc = append(q.Inc, g.pick(nkeys+1)) // nkeys = a key that does not exist
		}
	}
	if g.pick(6) == 0 {
		for i, n := 0, 1+g.pick(3); i < n; i++ {
			q.Exc = append(q.Exc, g.pick(nkeys+1))
		}
	}
	return q
}

// firstIndexedPath returns the body path of the leg(s) the planner will use for G (best effort, for biasing mutations).
func firstIndexedPath(gr FGroup) string {
	for _, l := range gr.Legs {
		if l.Meta == "" && (l.Op == "eq" || l.Op == "sin" || l.Op == "i32in" || l.Op == "i64in") {
			return l.Path
		}
	}
	for _, s := range gr.Subs {
		if p := firstIndexedPath(s); p != "" {
			return p
		}
	}
	return ""
}

func genC08(cfg c08Cfg) func(t *rapid.T) C08Scenario {
	return func(t *rapid.T) C08Scenario {
		g := &c08Gen{t: t, cfg: cfg}
		g.nFloat = g.pick(3) == 0
		var s C08Scenario
		nk := 2 + g.pick(28)
		for i := 0; i < nk; i++ {
			s.Keys = append(s.Keys, fmt.Sprintf("k%02d", i))
		}
		s.G = g.filter()
		s.Q1 = g.query(nk)
		s.Q2 = g.query(nk)
		switch cfg.force {
		case "fromlimit":
			s.Q1.From, s.Q1.Limit = g.pick(3), 1+g.pick(4)
			s.Q2.From, s.Q2.Limit = 1+g.pick(3), g.pick(4)
			s.Q1.Max, s.Q2.Max = 0, 0
		case "wildcard":
			l := FLeg{Op: "eq", Path: c08WildPaths[g.pick(2)]}
			l.CV = g.cvFor(l.Path)
			s.G = FGroup{Legs: []FLeg{l}}
			if g.pick(2) == 0 {
				s.G.Legs = append(s.G.Legs, g.resLeg())
			}
		case "floatint":
			if g.pick(2) == 0 {
				s.G = FGroup{Legs: []FLeg{{Op: "eq", Path: "n", CV: g.intVal([]int64{1, 2, 1 << 53}[g.pick(3)])}}}
			} else {
				s.G = FGroup{Legs: []FLeg{{Op: "i64in", Path: "f", IIn: []int64{0, 1, 2}}}}
			}
		case "label":
			l := g.idxLeg()
			l.Path, l.Op, l.CV, l.Label = "tenant", "eq", Val{K: "str", S: "acme"}, "L1"
			s.G = FGroup{Legs: []FLeg{l}}
			if g.pick(2) == 0 {
				s.G.Legs = append(s.G.Legs, g.resLeg())
			}
		case "zerots":
			s.Q1.Idx, s.Q2.Idx = "c", []string{"u", "e", "c"}[g.pick(3)]
		case "keywindow":
			s.Q1.Idx, s.Q2.Idx = "key", "key"
			s.Q1.FT, s.Q2.FT = 1+g.pick(14), 1+g.pick(14)
		case "timefield":
			cv := Val{K: "f64", F: 1000}
			if g.pick(2) == 0 {
				cv = Val{K: "u32", U: 1000}
			}
			s.G = FGroup{Legs: []FLeg{{Op: "eq", Path: "t", CV: cv}}}
		case "nomagic":
			s.G = FGroup{Legs: []FLeg{{Op: "eq", Path: "tenant", CV: Val{K: "str", S: "acme"}}}}
		}
		needTS := map[string]bool{}
		if !cfg.zeroTS {
			needTS[s.Q1.Idx], needTS[s.Q2.Idx] = true, true
		}
		exists := make([]bool, nk)
		dead := make([]bool, nk)
		n0 := nk - g.pick(4)
		if g.pick(12) == 0 {
			n0 = g.pick(3) // tiny / empty swamp
		}
		if n0 < 0 {
			n0 = 0
		}
		for i := 0; i < n0 && i < nk; i++ {
			s.Recs = append(s.Recs, g.rec(i, needTS))
			exists[i] = true
		}
		ipath := firstIndexedPath(s.G)
		// C07's open finding (CreatedAt/UpdatedAt of an existing record changed after that index was built leaves the
		// beacon unsorted) would show up here as a route difference: after query #1 built the beacon of its index, a Set
		// on an existing key does not resend that timestamp.
		c07Stale := pbt.Open("C07", "time-attr-change-after-build")
		post := false
		muts := func(n int) []C08Mut {
			var ms []C08Mut
			for i := 0; i < n; i++ {
				var live []int
				for k, e := range exists {
					if e {
						live = append(live, k)
					}
				}
				switch c := g.pick(10); {
				case c < 4: // set (replace or insert; a deleted key is never re-created, see C07)
					k := g.pick(nk)
					if dead[k] {
						continue
					}
					r := g.rec(k, needTS)
					if post && c07Stale && exists[k] {
						switch s.Q1.Idx {
						case "c":
							r.C = 0
						case "u":
							r.U = 0
						}
					}
					ms = append(ms, C08Mut{K: "set", Rec: r})
					exists[k] = true
				case c < 8: // patch, biased to the indexed path
					if len(live) == 0 {
						continue
					}
					k := live[g.pick(len(live))]
					p := []string{"tenant", "status", "n", "f", "flag", "t", "nested.x"}[g.pick(7)]
					if ipath != "" && !strings.ContainsAny(ipath, "[#") && g.pick(3) != 0 {
						p = ipath
					}
					var v Val
					if g.pick(2) == 0 {
						v = g.cvFor(p)
					} else if f := strings.SplitN(p, ".", 2); len(f) == 1 {
						v = g.fieldVal(p)
					} else {
						v = g.smallInt()
					}
					if v.K == "missing" || v.K == "ts" {
						v = Val{K: "nil"}
					}
					ms = append(ms, C08Mut{K: "patch", Key: k, Path: p, V: v})
				default:
					if len(live) < 2 {
						continue
					}
					k := live[g.pick(len(live))]
					exists[k], dead[k] = false, true
					ms = append(ms, C08Mut{K: "del", Key: k})
				}
			}
			return ms
		}
		s.Pre = muts(g.pick(4))
		post = true
		if g.pick(8) != 0 {
			s.Post = muts(1 + g.pick(6))
		}
		return s
	}
}

// ---------------------------------------------------------------------------
// runner

var c08Env *env

type c08Out struct {
	items []streamItem
	err   error
}

func (e *env) c08Stream(sn string, q C08Query, keys []string, fg *hydrapb.FilterGroup) c08Out {
	req := &hydrapb.GetByIndexStreamRequest{IslandID: rig.Island(sn), SwampName: sn, From: int32(q.From), Limit: int32(q.Limit),
		MaxResults: int32(q.Max), KeysOnly: q.KeysOnly, Filters: fg}
	switch q.Idx {
	case "key":
		req.IndexType = hydrapb.IndexType_KEY
	case "c":
		req.IndexType = hydrapb.IndexType_CREATION_TIME
	case "u":
		req.IndexType = hydrapb.IndexType_UPDATE_TIME
	case "e":
		req.IndexType = hydrapb.IndexType_EXPIRATION_TIME
	}
	if q.Desc {
		req.OrderType = hydrapb.OrderType_DESC
	}
	if q.FT != 0 {
		req.FromTime = nanosToTS(c08Bound(q.FT, q.FTB))
	}
	if q.TT != 0 {
		req.ToTime = nanosToTS(c08Bound(q.TT, q.TTB))
	}
	name := func(i int) string {
		if i < len(keys) {
			return keys[i]
		}
		return "no-such-key"
	}
	for _, i := range q.Inc {
		req.IncludedKeys = append(req.IncludedKeys, name(i))
	}
	for _, i := range q.Exc {
		req.ExcludeKeys = append(req.ExcludeKeys, name(i))
	}
	items, err := e.stream(req)
	return c08Out{items, err}
}

func c08Keys(o c08Out) []string {
	var ks []string
	for _, it := range o.items {
		ks = append(ks, it.tr.GetKey())
	}
	return ks
}

// c08Classes groups model keys (already restricted) into tie classes of the index order.
func c08Classes(model map[string]*c08Rec, keys []string, q C08Query) [][]string {
	less := func(a, b string) bool {
		if q.Idx == "key" {
			return a < b
		}
		return model[a].ts(q.Idx) < model[b].ts(q.Idx)
	}
	ks := append([]string(nil), keys...)
	sort.Slice(ks, func(i, j int) bool {
		if less(ks[i], ks[j]) {
			return true
		}
		if less(ks[j], ks[i]) {
			return false
		}
		return ks[i] < ks[j]
	})
	if q.Desc {
		for i, j := 0, len(ks)-1; i < j; i, j = i+1, j-1 {
			ks[i], ks[j] = ks[j], ks[i]
		}
	}
	var cls [][]string
	for i, k := range ks {
		if i > 0 && !less(ks[i-1], k) && !less(k, ks[i-1]) {
			cls[len(cls)-1] = append(cls[len(cls)-1], k)
		} else {
			cls = append(cls, []string{k})
		}
	}
	return cls
}

type c08PairInfo struct {
	bucketRouted bool
	matches      int
	base         int
	oracle2      bool
	skipped      bool
}

// c08Pair runs the query on both routes and judges it.
func c08Pair(e *env, sn string, s *C08Scenario, model map[string]*c08Rec, q C08Query, tag string) (*pbt.Outcome, c08PairInfo) {
	var info c08PairInfo
	fail := func(shape, f string, a ...any) (*pbt.Outcome, c08PairInfo) {
		o := pbt.Failf(shape, tag+" "+c08QueryString(q)+" filter "+c08GroupString(s.G)+": "+f, a...)
		return &o, info
	}
	G := s.G.proto()
	W := &hydrapb.FilterGroup{Logic: hydrapb.FilterLogic_OR, SubGroups: []*hydrapb.FilterGroup{G}}
	planG, planW := gateway.PlanFilter(G).Mode, gateway.PlanFilter(W).Mode
	if planW != gateway.PlanModeBypass {
		return fail("harness", "the OR{SubGroups:[G]} wrapper is no longer planned as bypass (mode %d): the route-forcing device is broken", planW)
	}
	info.bucketRouted = planG != gateway.PlanModeBypass
	p0 := e.r.Logs.Panics()
	A := e.c08Stream(sn, q, s.Keys, G) // bucket route when planG != bypass (all four index types used here are bucket-eligible)
	B := e.c08Stream(sn, q, s.Keys, W) // scan route
	if e.r.Logs.Panics() != p0 {
		return fail("panic", "the server logged a recovered panic: %v", e.r.Logs.Recent(2))
	}
	if (A.err != nil) != (B.err != nil) {
		return fail("route-mismatch", "one route failed: bucket-route err=%v, scan-route err=%v", A.err, B.err)
	}
	if A.err != nil {
		if len(model) == 0 {
			info.skipped = true
			return nil, info // swamp does not exist: both routes refuse
		}
		return fail("rpc-error", "both routes failed on an existing swamp: %v / %v", A.err, B.err)
	}

	// reference up to the paging step (documented: time window narrows the scan before any filter evaluation; From/Limit
	// are positions in the index order; MaxResults is the post-filter limit; Include/ExcludeKeys apply before the filters)
	var base []string
	for k, r := range model {
		if q.Idx != "key" {
			t := r.ts(q.Idx)
			if t == 0 {
				continue
			}
			if q.FT != 0 && t < c08Bound(q.FT, q.FTB) {
				continue
			}
			if q.TT != 0 && t >= c08Bound(q.TT, q.TTB) {
				continue
			}
		}
		base = append(base, k)
	}
	info.base = len(base)
	cls := c08Classes(model, base, q)
	if cutsInsideClass(cls, q.From, q.Limit) {
		info.skipped = true
		return nil, info // the page itself is not determined by the order; nothing can be compared soundly
	}

	attr := func(k string) string {
		if q.Idx == "key" {
			return k
		}
		return fmt.Sprint(model[k].ts(q.Idx))
	}
	// --- differential: bucket route vs scan route
	ka, kb := c08Keys(A), c08Keys(B)
	for _, o := range []struct {
		n  string
		ks []string
	}{{"bucket", ka}, {"scan", kb}} {
		seen := map[string]bool{}
		for _, k := range o.ks {
			if model[k] == nil {
				return fail("route-mismatch", "%s route returned key %q which does not exist; bucket=%v scan=%v", o.n, k, ka, kb)
			}
			if seen[k] {
				return fail("route-mismatch", "%s route returned key %q twice; bucket=%v scan=%v", o.n, k, ka, kb)
			}
			seen[k] = true
		}
	}
	if len(ka) != len(kb) {
		return fail("route-mismatch", "routes return %d vs %d records; bucket=%v scan=%v", len(ka), len(kb), ka, kb)
	}
	truncated := q.Max > 0 && len(ka) == q.Max
	for i := 0; i < len(ka); {
		j := i
		for j < len(ka) && attr(ka[j]) == attr(ka[i]) {
			j++
		}
		for x := i; x < j; x++ {
			if attr(kb[x]) != attr(ka[i]) {
				return fail("route-mismatch", "order differs at position %d (sort values %s vs %s); bucket=%v scan=%v", x, attr(ka[x]), attr(kb[x]), ka, kb)
			}
		}
		if j < len(kb) && attr(kb[j]) == attr(ka[i]) {
			return fail("route-mismatch", "order differs at position %d; bucket=%v scan=%v", j, ka, kb)
		}
		if !(truncated && j == len(ka)) {
			sa, sb := sortedStrings(ka[i:j]), sortedStrings(kb[i:j])
			if strings.Join(sa, "\x00") != strings.Join(sb, "\x00") {
				return fail("route-mismatch", "different records at positions %d..%d; bucket=%v scan=%v", i, j-1, ka, kb)
			}
		}
		i = j
	}
	bIdx := map[string]int{}
	for i, k := range kb {
		bIdx[k] = i
	}
	for i, k := range ka {
		j, ok := bIdx[k]
		if !ok {
			continue
		}
		la, lb := sortedStrings(A.items[i].labels), sortedStrings(B.items[j].labels)
		if strings.Join(la, ",") != strings.Join(lb, ",") {
			return fail("label-mismatch", "key %q: MatchedLabels %v on the bucket route, %v on the scan route", k, la, lb)
		}
		if !proto.Equal(A.items[i].tr, B.items[j].tr) {
			return fail("route-mismatch", "key %q: returned treasure differs between the routes: %v vs %v", k, A.items[i].tr, B.items[j].tr)
		}
	}
	info.matches = len(kb)

	// --- second oracle: independent evaluation of the documented rules
	flat := []string{}
	for _, c := range cls {
		flat = append(flat, c...)
	}
	lo := min(q.From, len(flat))
	hi := len(flat)
	if q.Limit > 0 && lo+q.Limit < hi {
		hi = lo + q.Limit
	}
	inPage := map[string]bool{}
	for _, k := range flat[lo:hi] {
		inPage[k] = true
	}
	var inc, exc map[string]bool
	if len(q.Inc) > 0 {
		inc = map[string]bool{}
		for _, i := range q.Inc {
			if i < len(s.Keys) {
				inc[s.Keys[i]] = true
			}
		}
	}
	if len(q.Exc) > 0 {
		exc = map[string]bool{}
		for _, i := range q.Exc {
			if i < len(s.Keys) {
				exc[s.Keys[i]] = true
			}
		}
	}
	var want [][]string
	undecided := ""
	for _, c := range cls {
		var m []string
		for _, k := range c {
			if !inPage[k] || (inc != nil && !inc[k]) || (exc != nil && exc[k]) {
				continue
			}
			switch evalGroup(model[k], s.G) {
			case triT:
				m = append(m, k)
			case triU:
				undecided = k
			}
		}
		if len(m) > 0 {
			want = append(want, m)
		}
	}
	if undecided != "" {
		return nil, info
	}
	info.oracle2 = true
	for _, o := range []struct {
		n  string
		ks []string
	}{{"scan", kb}, {"bucket", ka}} {
		if d := matchPage(o.ks, want, 0, q.Max); d != "" {
			return fail("oracle-mismatch", "%s route disagrees with the documented semantics: %s", o.n, d)
		}
	}
	return nil, info
}

func runC08(s C08Scenario) (out pbt.Outcome) {
	e := c08Env
	sn := fmt.Sprintf("c08/r%d/main", caseCounter.Add(1))
	defer e.destroy(sn)
	isl := rig.Island(sn)
	model := map[string]*c08Rec{}
	classes := map[string]bool{}
	ctxT := func() (context.Context, context.CancelFunc) { return context.WithTimeout(e.ctx, 20*time.Second) }

	kvOf := func(r C08Rec) *hydrapb.KeyValuePair {
		return &hydrapb.KeyValuePair{Key: s.Keys[r.Key%len(s.Keys)], BytesVal: c08Body(r),
			CreatedAt: nanosToTS(c08TS(r.C)), UpdatedAt: nanosToTS(c08TS(r.U)), ExpiredAt: nanosToTS(c08TS(r.E))}
	}
	applySet := func(r C08Rec) {
		key := s.Keys[r.Key%len(s.Keys)]
		nw := c08FromScenario(r)
		if old := model[key]; old != nil { // an absent timestamp leaves the stored one
			if nw.c == 0 {
				nw.c = old.c
			}
			if nw.u == 0 {
				nw.u = old.u
			}
			if nw.e == 0 {
				nw.e = old.e
			}
		}
		model[key] = nw
		classes["body-"+r.Kind] = true
	}
	if len(s.Recs) > 0 {
		var kvs []*hydrapb.KeyValuePair
		for _, r := range s.Recs {
			kvs = append(kvs, kvOf(r))
		}
		ctx, cancel := ctxT()
		resp, err := e.r.G.Set(ctx, &hydrapb.SetRequest{Swamps: []*hydrapb.SwampRequest{{IslandID: isl, SwampName: sn, CreateIfNotExist: true, Overwrite: true, KeyValues: kvs}}})
		cancel()
		if err != nil || resp == nil {
			return pbt.Failf("rpc-error", "initial Set: %v %v", resp, err)
		}
		for _, r := range s.Recs {
			applySet(r)
		}
	}
	mutate := func(ms []C08Mut, stage string) *pbt.Outcome {
		for i, m := range ms {
			switch m.K {
			case "set":
				ctx, cancel := ctxT()
				resp, err := e.r.G.Set(ctx, &hydrapb.SetRequest{Swamps: []*hydrapb.SwampRequest{{IslandID: isl, SwampName: sn, CreateIfNotExist: true, Overwrite: true, KeyValues: []*hydrapb.KeyValuePair{kvOf(m.Rec)}}}})
				cancel()
				if err != nil || resp == nil {
					o := pbt.Failf("rpc-error", "%s mutation %d Set: %v %v", stage, i, resp, err)
					return &o
				}
				applySet(m.Rec)
			case "patch":
				key := s.Keys[m.Key%len(s.Keys)]
				r := model[key]
				if r == nil {
					continue
				}
				ctx, cancel := ctxT()
				resp, err := e.r.G.PatchTreasures(ctx, &hydrapb.PatchTreasuresRequest{IslandID: isl, SwampName: sn,
					Patches: []*hydrapb.TreasurePatch{{Key: key, Ops: []*hydrapb.PatchOp{{Op: hydrapb.PatchOp_SET, Path: m.Path, Value: mpVal(nil, m.V)}}}}})
				cancel()
				if err != nil || resp == nil || len(resp.Results) != 1 {
					o := pbt.Failf("rpc-error", "%s mutation %d Patch: %v %v", stage, i, resp, err)
					return &o
				}
				if resp.Results[0].Status != hydrapb.PatchResult_PATCHED {
					classes["patch-refused"] = true
					continue // refused (non-msgpack body, non-map intermediate …): nothing changed
				}
				if !c08ModelPatch(r, m.Path, m.V) {
					o := pbt.Outcome{Skip: true} // the server accepted a SET the model cannot follow (non-map body / non-map intermediate)
					return &o
				}
				classes["has-patch"] = true
			case "del":
				key := s.Keys[m.Key%len(s.Keys)]
				if model[key] == nil || len(model) <= 1 {
					continue
				}
				ctx, cancel := ctxT()
				resp, err := e.r.G.Delete(ctx, &hydrapb.DeleteRequest{Swamps: []*hydrapb.DeleteRequest_SwampKeys{{IslandID: isl, SwampName: sn, Keys: []string{key}}}})
				cancel()
				if err != nil || resp == nil {
					o := pbt.Failf("rpc-error", "%s mutation %d Delete: %v %v", stage, i, resp, err)
					return &o
				}
				delete(model, key)
				classes["has-delete"] = true
			}
		}
		return nil
	}
	if f := mutate(s.Pre, "pre"); f != nil {
		return *f
	}
	f, i1 := c08Pair(e, sn, &s, model, s.Q1, "query#1")
	if f != nil {
		return *f
	}
	if f := mutate(s.Post, "post"); f != nil {
		return *f
	}
	f, i2 := c08Pair(e, sn, &s, model, s.Q2, "query#2 (after mutations)")
	if f != nil {
		return *f
	}
	if i1.bucketRouted {
		classes["bucket-routed"] = true
		switch gateway.PlanFilter(s.G.proto()).Mode {
		case gateway.PlanModeAnd:
			classes["plan-and"] = true
		case gateway.PlanModeOrUnion:
			classes["plan-or-union"] = true
		}
	} else {
		classes["bypass"] = true
	}
	if i1.oracle2 || i2.oracle2 {
		classes["oracle2-decided"] = true
	}
	if i1.skipped || i2.skipped {
		classes["pair-skipped"] = true
	}
	if s.Q2.Idx != "key" || s.Q1.Idx != "key" {
		classes["time-index"] = true
	}
	if s.Q1.FT != 0 || s.Q1.TT != 0 || s.Q2.FT != 0 || s.Q2.TT != 0 {
		classes["time-window"] = true
	}
	if i2.matches > 0 {
		classes["has-match"] = true
	}
	out.NonTrivial = i1.bucketRouted && !i2.skipped && len(s.Post) > 0 && i2.matches >= 1 && len(model) > i2.matches
	for c := range classes {
		out.Classes = append(out.Classes, c)
	}
	sort.Strings(out.Classes)
	return out
}

func c08LegString(l FLeg) string {
	var sb strings.Builder
	if l.Meta != "" {
		fmt.Fprintf(&sb, "meta.%s %s #%d", l.Meta, l.Op, l.CV.I)
	} else {
		fmt.Fprintf(&sb, "%s %s ", l.Path, l.Op)
		switch l.Op {
		case "sin":
			fmt.Fprintf(&sb, "%q", l.SIn)
		case "i32in", "i64in":
			fmt.Fprintf(&sb, "%v", l.IIn)
		case "empty", "nempty":
		default:
			switch {
			case l.CV.K == "str":
				fmt.Fprintf(&sb, "%s:%q", l.CV.K, l.CV.S)
			case isFloatKind(l.CV.K):
				fmt.Fprintf(&sb, "%s:%v", l.CV.K, l.CV.F)
			case len(l.CV.K) > 0 && l.CV.K[0] == 'u':
				fmt.Fprintf(&sb, "%s:%d", l.CV.K, l.CV.U)
			default:
				fmt.Fprintf(&sb, "%s:%d", l.CV.K, l.CV.I)
			}
		}
	}
	if l.Label != "" {
		fmt.Fprintf(&sb, " @%s", l.Label)
	}
	return sb.String()
}

func c08GroupString(g FGroup) string {
	var parts []string
	for _, l := range g.Legs {
		parts = append(parts, c08LegString(l))
	}
	for _, s := range g.Subs {
		parts = append(parts, c08GroupString(s))
	}
	op := " AND "
	if g.Or {
		op = " OR "
	}
	return "(" + strings.Join(parts, op) + ")"
}

func c08QueryString(q C08Query) string {
	s := fmt.Sprintf("[index=%s desc=%v from=%d limit=%d max=%d", q.Idx, q.Desc, q.From, q.Limit, q.Max)
	if q.FT != 0 {
		s += fmt.Sprintf(" fromTime=#%d+%v", q.FT, q.FTB)
	}
	if q.TT != 0 {
		s += fmt.Sprintf(" toTime=#%d+%v", q.TT, q.TTB)
	}
	if len(q.Inc) > 0 {
		s += fmt.Sprintf(" include=%v", q.Inc)
	}
	if len(q.Exc) > 0 {
		s += fmt.Sprintf(" exclude=%v", q.Exc)
	}
	if q.KeysOnly {
		s += " keysOnly"
	}
	return s + "]"
}

// ---------------------------------------------------------------------------
// tests

const c08Rule = "rapid-generated (contents, filter tree, request, mutations) tuples against one swamp through the in-process gateway over bufconn: " +
	"0..29 records, msgpack-map bodies from a field grammar (tenant,status,n,f,flag,t,tags[],nested.x; values of every msgpack int/uint width, float32/64 incl. integral and 2^53, bool, string, time, nil, missing, containers) " +
	"plus non-msgpack / magic+garbage / magic+array bodies, explicit timestamps from a 14-slot pool incl. zero; filter trees (AND with indexable leg, all-indexable OR, AND over an OR-union sub-group, random trees, depth<=3) " +
	"with EQUAL/STRING_IN/INT32_IN/INT64_IN legs and residual legs (ranges, NOT_EQUAL, IS_EMPTY, metadata timestamps, [*]/#len paths), labels; request = index KEY/CREATION/UPDATE/EXPIRATION, order, MaxResults, FromTime/ToTime, Include/ExcludeKeys, KeysOnly; " +
	"Set/Patch/Delete before the first query and between the first and the second query (bucket maintained incrementally). " +
	"Oracle 1: GetByIndexStream with Filters=G vs Filters=OR{SubGroups:[G]} (scan route; gateway.PlanFilter consulted for both) equal as sequences up to ties, same labels, same treasures. " +
	"Oracle 2: independent three-valued evaluator of the documented rules (canonical equality = exact numeric equality across kinds, never string/number) must agree with both routes whenever it decides every record. " +
	"non-trivial = G bucket-planned and wrapper bypass-planned, swamp mutated after the bucket was built, second query has >=1 match and >=1 non-match"

func c08Setup(t *testing.T) {
	if c08Env == nil {
		c08Env = newEnv("c08/*/*", false)
		t.Cleanup(func() { c08Env.close(); c08Env = nil })
	}
}

func TestC08Main(t *testing.T) {
	c08Setup(t)
	cfg := c08MainCfg()
	ex := func(open bool, what string) {
		if !open {
			pbt.Excluded("C08", "main", what)
		}
	}
	ex(cfg.fromLimit, "From/Limit other than 0 (open finding from-limit-stage)")
	ex(cfg.wildcard, "[*] / #len path on an EQUAL or *_IN leg (open finding wildcard-len-path-indexed)")
	ex(cfg.floatInt, "float-valued field vs integer compare value (and reverse) on EQUAL / *_IN legs: fields n, f, t are kept single-class per scenario (open finding float-int-equality)")
	ex(cfg.eqLabel, "label on an EQUAL or *_IN leg (open finding indexed-leg-label-dropped)")
	ex(cfg.zeroTS, "record lacking the timestamp of a queried time index (open finding zero-timestamp-on-time-index)")
	ex(cfg.keyWindow, "FromTime/ToTime with the KEY index (open finding key-index-time-window)")
	ex(cfg.timeField, "time-valued body field vs float / unsigned compare value (open finding time-field-cross-kind)")
	ex(cfg.noMagic, "msgpack map body without the 2-byte magic prefix (open finding msgpack-without-magic)")
	if pbt.Open("C07", "time-attr-change-after-build") {
		pbt.Excluded("C08", "main", "Set that changes CreatedAt/UpdatedAt of an existing record after query #1 built that time index (C07's open finding time-attr-change-after-build)")
	}
	pbt.Excluded("C08", "main", "negative From (panics on the scan route: C26's subject), re-creating a deleted key (C05/C06 defect), emptying the swamp (C16's subject), NaN/Inf")
	pbt.Main(t, pbt.Spec[C08Scenario]{
		ID: "C08", Facet: "main", Rule: c08Rule,
		Quick: 20000, Thorough: 800000,
		Gen: genC08(cfg), Run: runC08,
	})
}

func c08Witness(t *testing.T, facet, witness, force string, shapes ...string) {
	c08Setup(t)
	cfg := c08MainCfg()
	cfg.force = force
	switch force {
	case "fromlimit":
		cfg.fromLimit = true
	case "wildcard":
		cfg.wildcard = true
	case "floatint":
		cfg.floatInt = true
	case "label":
		cfg.eqLabel = true
	case "zerots":
		cfg.zeroTS = true
	case "keywindow":
		cfg.keyWindow = true
	case "timefield":
		cfg.timeField = true
	case "nomagic":
		cfg.noMagic = true
	}
	pbt.Witness(t, pbt.Spec[C08Scenario]{
		ID: "C08", Facet: facet, Rule: "main generator (other open triggers still excluded) with the " + force + " trigger enabled and forced into the filter / request / contents",
		Quick: 150, Thorough: 1500, Gen: genC08(cfg), Run: runC08,
	}, witness, shapes...)
}

func TestC08WitnessFromLimit(t *testing.T) {
	c08Witness(t, "witness-from-limit", "from-limit-stage", "fromlimit", "route-mismatch")
}
func TestC08WitnessWildcard(t *testing.T) {
	c08Witness(t, "witness-wildcard", "wildcard-len-path-indexed", "wildcard", "route-mismatch")
}
func TestC08WitnessFloatInt(t *testing.T) {
	c08Witness(t, "witness-float-int", "float-int-equality", "floatint", "route-mismatch", "oracle-mismatch")
}
func TestC08WitnessLabel(t *testing.T) {
	c08Witness(t, "witness-label", "indexed-leg-label-dropped", "label", "label-mismatch")
}
func TestC08WitnessZeroTS(t *testing.T) {
	c08Witness(t, "witness-zero-ts", "zero-timestamp-on-time-index", "zerots", "route-mismatch")
}
func TestC08WitnessKeyWindow(t *testing.T) {
	c08Witness(t, "witness-key-window", "key-index-time-window", "keywindow", "route-mismatch")
}
func TestC08WitnessTimeField(t *testing.T) {
	c08Witness(t, "witness-time-field", "time-field-cross-kind", "timefield", "route-mismatch")
}
func TestC08WitnessNoMagic(t *testing.T) {
	c08Witness(t, "witness-no-magic", "msgpack-without-magic", "nomagic", "route-mismatch")
}
