package query

import (
	"math/big"
	"strings"
	"time"

	hydrapb "github.com/hydraide/hydraide/sdk/go/hydraidego/v3/hydraidepbgo"
)

// ---------------------------------------------------------------------------
// C08 scenario types (JSON-serialisable)

type C08Rec struct {
	Key  int    `json:"key"`
	Kind string `json:"kind"` // map | raw (no magic, not msgpack) | magicbad (magic + garbage) | arr (magic + msgpack array) | nomagic (msgpack map without the magic)
	F    []KV   `json:"f,omitempty"`
	Raw  []byte `json:"raw,omitempty"`
	C    int    `json:"c,omitempty"` // timestamp pool index, 0 = absent
	U    int    `json:"u,omitempty"`
	E    int    `json:"e,omitempty"`
}

type C08Mut struct {
	K    string `json:"k"` // set | patch | del
	Rec  C08Rec `json:"rec,omitempty"`
	Key  int    `json:"key,omitempty"`
	Path string `json:"path,omitempty"`
	V    Val    `json:"v,omitempty"`
}

type FLeg struct {
	Op    string   `json:"op"` // eq ne gt ge lt le empty nempty sin i32in i64in
	Path  string   `json:"path,omitempty"`
	Meta  string   `json:"meta,omitempty"` // c | u | e : metadata timestamp leg (no path); CV.I = timestamp pool index
	CV    Val      `json:"cv,omitempty"`
	SIn   []string `json:"sin,omitempty"`
	IIn   []int64  `json:"iin,omitempty"`
	Label string   `json:"label,omitempty"`
}

type FGroup struct {
	Or   bool     `json:"or,omitempty"`
	Legs []FLeg   `json:"legs,omitempty"`
	Subs []FGroup `json:"subs,omitempty"`
}

type C08Query struct {
	Idx      string `json:"idx"` // key | c | u | e
	Desc     bool   `json:"desc,omitempty"`
	From     int    `json:"from,omitempty"`
	Limit    int    `json:"limit,omitempty"`
	Max      int    `json:"max,omitempty"`
	FT       int    `json:"ft,omitempty"`  // pool index, 0 = absent
	FTB      bool   `json:"ftb,omitempty"` // +5s (between two grid points)
	TT       int    `json:"tt,omitempty"`
	TTB      bool   `json:"ttb,omitempty"`
	Inc      []int  `json:"inc,omitempty"`
	Exc      []int  `json:"exc,omitempty"`
	KeysOnly bool   `json:"keysonly,omitempty"`
}

type C08Scenario struct {
	Keys []string `json:"keys"`
	Recs []C08Rec `json:"recs"`
	Pre  []C08Mut `json:"pre,omitempty"`
	G    FGroup   `json:"g"`
	Q1   C08Query `json:"q1"`
	Post []C08Mut `json:"post,omitempty"`
	Q2   C08Query `json:"q2"`
}

const c08Base = int64(1_600_000_000) * int64(time.Second)

func c08TS(k int) int64 {
	if k <= 0 {
		return 0
	}
	return c08Base + int64(k)*10*int64(time.Second)
}

func c08Bound(k int, between bool) int64 {
	v := c08TS(k)
	if between {
		v += 5 * int64(time.Second)
	}
	return v
}

// ---------------------------------------------------------------------------
// proto construction

func (l FLeg) proto() *hydrapb.TreasureFilter {
	f := &hydrapb.TreasureFilter{}
	switch l.Op {
	case "eq":
		f.Operator = hydrapb.Relational_EQUAL
	case "ne":
		f.Operator = hydrapb.Relational_NOT_EQUAL
	case "gt":
		f.Operator = hydrapb.Relational_GREATER_THAN
	case "ge":
		f.Operator = hydrapb.Relational_GREATER_THAN_OR_EQUAL
	case "lt":
		f.Operator = hydrapb.Relational_LESS_THAN
	case "le":
		f.Operator = hydrapb.Relational_LESS_THAN_OR_EQUAL
	case "empty":
		f.Operator = hydrapb.Relational_IS_EMPTY
	case "nempty":
		f.Operator = hydrapb.Relational_IS_NOT_EMPTY
	case "sin":
		f.Operator = hydrapb.Relational_STRING_IN
		f.StringInVals = l.SIn
	case "i32in":
		f.Operator = hydrapb.Relational_INT32_IN
		for _, v := range l.IIn {
			f.Int32InVals = append(f.Int32InVals, int32(v))
		}
	case "i64in":
		f.Operator = hydrapb.Relational_INT64_IN
		f.Int64InVals = l.IIn
	}
	if l.Label != "" {
		lb := l.Label
		f.Label = &lb
	}
	if l.Meta != "" {
		ts := nanosToTS(c08TS(int(l.CV.I)))
		switch l.Meta {
		case "c":
			f.CompareValue = &hydrapb.TreasureFilter_CreatedAtVal{CreatedAtVal: ts}
		case "u":
			f.CompareValue = &hydrapb.TreasureFilter_UpdatedAtVal{UpdatedAtVal: ts}
		default:
			f.CompareValue = &hydrapb.TreasureFilter_ExpiredAtVal{ExpiredAtVal: ts}
		}
		return f
	}
	p := l.Path
	f.BytesFieldPath = &p
	if l.Op == "sin" || l.Op == "i32in" || l.Op == "i64in" {
		return f
	}
	switch l.CV.K {
	case "i8":
		f.CompareValue = &hydrapb.TreasureFilter_Int8Val{Int8Val: int32(l.CV.I)}
	case "i16":
		f.CompareValue = &hydrapb.TreasureFilter_Int16Val{Int16Val: int32(l.CV.I)}
	case "i32":
		f.CompareValue = &hydrapb.TreasureFilter_Int32Val{Int32Val: int32(l.CV.I)}
	case "i64":
		f.CompareValue = &hydrapb.TreasureFilter_Int64Val{Int64Val: l.CV.I}
	case "u8":
		f.CompareValue = &hydrapb.TreasureFilter_Uint8Val{Uint8Val: uint32(l.CV.U)}
	case "u16":
		f.CompareValue = &hydrapb.TreasureFilter_Uint16Val{Uint16Val: uint32(l.CV.U)}
	case "u32":
		f.CompareValue = &hydrapb.TreasureFilter_Uint32Val{Uint32Val: uint32(l.CV.U)}
	case "u64":
		f.CompareValue = &hydrapb.TreasureFilter_Uint64Val{Uint64Val: l.CV.U}
	case "f32":
		f.CompareValue = &hydrapb.TreasureFilter_Float32Val{Float32Val: float32(l.CV.F)}
	case "f64":
		f.CompareValue = &hydrapb.TreasureFilter_Float64Val{Float64Val: l.CV.F}
	case "str":
		f.CompareValue = &hydrapb.TreasureFilter_StringVal{StringVal: l.CV.S}
	case "bool":
		b := hydrapb.Boolean_FALSE
		if l.CV.I != 0 {
			b = hydrapb.Boolean_TRUE
		}
		f.CompareValue = &hydrapb.TreasureFilter_BoolVal{BoolVal: b}
	}
	return f
}

func (g FGroup) proto() *hydrapb.FilterGroup {
	out := &hydrapb.FilterGroup{}
	if g.Or {
		out.Logic = hydrapb.FilterLogic_OR
	}
	for _, l := range g.Legs {
		out.Filters = append(out.Filters, l.proto())
	}
	for _, s := range g.Subs {
		out.SubGroups = append(out.SubGroups, s.proto())
	}
	return out
}

// ---------------------------------------------------------------------------
// model

type c08Rec struct {
	kind    string
	fields  map[string]Val // top-level fields of a map body
	raw     []byte
	c, u, e int64
}

func c08FromScenario(r C08Rec) *c08Rec {
	m := &c08Rec{kind: r.Kind, raw: r.Raw, c: c08TS(r.C), u: c08TS(r.U), e: c08TS(r.E)}
	if r.Kind == "map" || r.Kind == "nomagic" {
		m.fields = map[string]Val{}
		for _, kv := range r.F {
			if kv.V.K != "missing" {
				m.fields[kv.K] = kv.V
			}
		}
	}
	return m
}

// c08Body returns the BytesVal sent for a record.
func c08Body(r C08Rec) []byte {
	switch r.Kind {
	case "map":
		return wrapBody(mpMap(nil, r.F))
	case "nomagic":
		return mpMap(nil, r.F)
	case "arr":
		return wrapBody(mpVal(nil, Val{K: "arr", Arr: []Val{{K: "str", S: "acme"}, {K: "i8", I: 1}}}))
	case "magicbad":
		return wrapBody(append([]byte{0xc1}, r.Raw...)) // 0xc1 is never used by MessagePack
	}
	// raw: first byte is a positive fixint, so the blob can never decode as a map
	b := append([]byte{0x2a}, r.Raw...)
	return b
}

func (r *c08Rec) ts(idx string) int64 {
	switch idx {
	case "c":
		return r.c
	case "u":
		return r.u
	case "e":
		return r.e
	}
	return 0
}

// ---------------------------------------------------------------------------
// independent evaluator of the documented semantics (three-valued: T / F / U = the documents do not decide)

type tri int8

const (
	triF tri = iota
	triT
	triU
)

func triOf(b bool) tri {
	if b {
		return triT
	}
	return triF
}

func isIntKind(k string) bool {
	switch k {
	case "i8", "i16", "i32", "i64", "u8", "u16", "u32", "u64":
		return true
	}
	return false
}
func isFloatKind(k string) bool { return k == "f32" || k == "f64" }
func isNumKind(k string) bool   { return isIntKind(k) || isFloatKind(k) }

// numOf returns the exact mathematical value of a numeric Val.
func numOf(v Val) *big.Float {
	f := new(big.Float).SetPrec(200)
	switch v.K {
	case "i8", "i16", "i32", "i64":
		return f.SetInt64(v.I)
	case "u8", "u16", "u32", "u64":
		return f.SetUint64(v.U)
	case "f32":
		return f.SetFloat64(float64(float32(v.F)))
	}
	return f.SetFloat64(v.F)
}

// canonEqual is the documented canonical equality rule (docs/features/auto-field-bucket-indexes.md and the
// package comment of valuecanon): numeric kinds compare by value across signedness and across int/float when the
// conversion is lossless (= exact mathematical equality); string and bool only equal their own kind; nil/missing and
// containers never match a value. A time-valued field is left undecided (the feature document says it collapses to
// null, the valuecanon comment says Unix seconds).
func canonEqual(v Val, cv Val) tri {
	switch v.K {
	case "missing", "nil", "arr", "map":
		return triF
	case "time":
		if isNumKind(cv.K) {
			return triU
		}
		return triF
	case "bool":
		if cv.K == "bool" {
			return triOf((v.I != 0) == (cv.I != 0))
		}
		return triF
	case "str":
		if cv.K == "str" {
			return triOf(v.S == cv.S)
		}
		return triF
	}
	if !isNumKind(v.K) || !isNumKind(cv.K) {
		return triF
	}
	return triOf(numOf(v).Cmp(numOf(cv)) == 0)
}

// lookupPath resolves a plain or dotted path; ok=false for paths using [*] / #len (not modelled).
func lookupPath(fields map[string]Val, path string) (Val, bool) {
	if strings.Contains(path, "[*]") || strings.Contains(path, "#len") {
		return Val{}, false
	}
	parts := strings.Split(path, ".")
	cur, ok := fields[parts[0]]
	if !ok {
		return Val{K: "missing"}, true
	}
	for _, p := range parts[1:] {
		if cur.K != "map" {
			return Val{K: "missing"}, true
		}
		found := false
		for _, kv := range cur.Map {
			if kv.K == p && kv.V.K != "missing" {
				cur, found = kv.V, true
			}
		}
		if !found {
			return Val{K: "missing"}, true
		}
	}
	return cur, true
}

func cmpOp(op string, c int) bool {
	switch op {
	case "eq":
		return c == 0
	case "ne":
		return c != 0
	case "gt":
		return c > 0
	case "ge":
		return c >= 0
	case "lt":
		return c < 0
	case "le":
		return c <= 0
	}
	return false
}

func evalLeg(r *c08Rec, l FLeg) tri {
	if l.Meta != "" {
		ts := r.ts(l.Meta)
		switch l.Op {
		case "empty":
			return triOf(ts == 0)
		case "nempty":
			return triOf(ts != 0)
		}
		if ts == 0 {
			return triU
		}
		ref := c08TS(int(l.CV.I))
		c := 0
		if ts < ref {
			c = -1
		} else if ts > ref {
			c = 1
		}
		return triOf(cmpOp(l.Op, c))
	}
	if r.kind != "map" {
		// "If the BytesVal is GOB-encoded or the path doesn't exist, the filter returns false (no match)" —
		// except that the code answers IS_EMPTY with true; left undecided.
		if l.Op == "empty" {
			return triU
		}
		if r.kind == "nomagic" {
			return triU // a msgpack map without the magic prefix: the documents do not say which it is
		}
		return triF
	}
	v, ok := lookupPath(r.fields, l.Path)
	if !ok {
		return triU
	}
	switch l.Op {
	case "empty":
		return triOf(v.K == "missing" || v.K == "nil" || (v.K == "str" && v.S == ""))
	case "nempty":
		return triOf(!(v.K == "missing" || v.K == "nil" || (v.K == "str" && v.S == "")))
	case "eq":
		return canonEqual(v, l.CV)
	case "sin":
		if v.K != "str" {
			return triF
		}
		for _, s := range l.SIn {
			if s == v.S {
				return triT
			}
		}
		return triF
	case "i32in", "i64in":
		res := triF
		for _, n := range l.IIn {
			if l.Op == "i32in" {
				n = int64(int32(n))
			}
			switch canonEqual(v, Val{K: "i64", I: n}) {
			case triT:
				return triT
			case triU:
				res = triU
			}
		}
		return res
	}
	// ne / ranges
	if v.K == "missing" || v.K == "nil" {
		return triF
	}
	switch {
	case v.K == "str" && l.CV.K == "str":
		return triOf(cmpOp(l.Op, strings.Compare(v.S, l.CV.S)))
	case v.K == "bool" && l.CV.K == "bool" && l.Op == "ne":
		return triOf((v.I != 0) != (l.CV.I != 0))
	case isIntKind(v.K) && isIntKind(l.CV.K):
		// decided only where no conversion question arises: both values inside [0, MaxInt64] or both signed kinds
		a, b := numOf(v), numOf(l.CV)
		lim := new(big.Float).SetInt64(1<<63 - 1)
		signedBoth := v.K[0] == 'i' && l.CV.K[0] == 'i'
		nonneg := a.Sign() >= 0 && b.Sign() >= 0 && a.Cmp(lim) <= 0 && b.Cmp(lim) <= 0
		if signedBoth || nonneg {
			return triOf(cmpOp(l.Op, a.Cmp(b)))
		}
		return triU
	case isFloatKind(v.K) && isFloatKind(l.CV.K):
		return triOf(cmpOp(l.Op, numOf(v).Cmp(numOf(l.CV))))
	}
	return triU
}

func evalGroup(r *c08Rec, g FGroup) tri {
	if len(g.Legs) == 0 && len(g.Subs) == 0 {
		return triT // "Empty group: passes all Treasures"
	}
	var rs []tri
	for _, l := range g.Legs {
		rs = append(rs, evalLeg(r, l))
	}
	for _, s := range g.Subs {
		rs = append(rs, evalGroup(r, s))
	}
	anyU := false
	if g.Or {
		for _, x := range rs {
			if x == triT {
				return triT
			}
			if x == triU {
				anyU = true
			}
		}
		if anyU {
			return triU
		}
		return triF
	}
	for _, x := range rs {
		if x == triF {
			return triF
		}
		if x == triU {
			anyU = true
		}
	}
	if anyU {
		return triU
	}
	return triT
}

// c08ModelSet applies a Set of rec to the model (an absent timestamp leaves the stored one).
func c08ModelSet(model map[string]*c08Rec, key string, r C08Rec) {
	nw := c08FromScenario(r)
	if old := model[key]; old != nil {
		if nw.c == 0 {
			nw.c = old.c
		}
		if nw.u == 0 {
			nw.u = old.u
		}
		if nw.e == 0 {
			nw.e = old.e
		}
	}
	model[key] = nw
}

// c08ModelPatch applies an accepted PatchOp SET path=v to a map body; false = the model cannot follow it.
func c08ModelPatch(r *c08Rec, path string, v Val) bool {
	if r.kind != "map" {
		return false
	}
	parts := strings.Split(path, ".")
	if len(parts) == 1 {
		r.fields[parts[0]] = v
		return true
	}
	parent, ok := r.fields[parts[0]]
	if ok && parent.K != "map" {
		return false
	}
	nm := Val{K: "map"}
	done := false
	for _, kv := range parent.Map {
		if kv.K == parts[1] {
			kv.V, done = v, true
		}
		nm.Map = append(nm.Map, kv)
	}
	if !done {
		nm.Map = append(nm.Map, KV{parts[1], v})
	}
	r.fields[parts[0]] = nm
	return true
}
