package query

import (
	"context"
	"fmt"
	"math"
	"sort"
	"strings"
	"testing"
	"time"

	hydrapb "github.com/hydraide/hydraide/sdk/go/hydraidego/v3/hydraidepbgo"
	"google.golang.org/grpc/codes"
	"google.golang.org/grpc/status"
	"google.golang.org/protobuf/types/known/timestamppb"
	"pgregory.net/rapid"

	"verifharness/internal/pbt"
	"verifharness/internal/rig"
)

// C07 — Ordered index reads return the correctly sorted, ranged page.
//
// Documented semantics used by the oracle (proto/hydraide.proto, docs/features/query-engine.md,
// docs/bugs/2026-05-15-bucket-routed-totime-inclusive.md, sdk/go/hydraidego/hydraidego.go):
//   - From = zero-based starting index, Limit = how many items, 0 = all;
//   - FromTime inclusive, ToTime exclusive, applied on the time indexes before paging;
//   - a time index only contains the records that carry that timestamp (non-zero);
//   - the server never stamps CreatedAt/UpdatedAt/ExpiredAt itself on Set; an absent field leaves the stored one;
//   - KEY sorts alphabetically (keys here are lower-case letters only, so every reading of "alphabetical" agrees);
//   - a value index is only meaningful on a swamp whose treasures all have that value type (kept as a precondition).

type C07Read struct {
	Stream bool   `json:"stream,omitempty"`
	Fam    string `json:"fam"` // key | c | u | e | v
	Desc   bool   `json:"desc,omitempty"`
	From   int    `json:"from,omitempty"`
	Limit  int    `json:"limit,omitempty"`
	FM     string `json:"fm,omitempty"` // "" | eq | between | before | after
	FP     int    `json:"fp,omitempty"`
	TM     string `json:"tm,omitempty"`
	TP     int    `json:"tp,omitempty"`
}

type C07Op struct {
	K    string   `json:"k"` // set | inc | patch | pexp | del | reload | read
	Key  int      `json:"key,omitempty"`
	VI   int      `json:"vi,omitempty"`
	Keep bool     `json:"keep,omitempty"` // set on an existing key: resend its current value
	C    int      `json:"c,omitempty"`    // timestamp pool index, 0 = field absent
	U    int      `json:"u,omitempty"`
	E    int      `json:"e,omitempty"`
	ClrE bool     `json:"clre,omitempty"` // patch: ClearExpiredAt
	Now  bool     `json:"now,omitempty"`  // patch: SetUpdatedAt (server stamps its clock; read back through Get)
	R    *C07Read `json:"r,omitempty"`
	N    int      `json:"n,omitempty"` // pexp: HowMany (0 = all expired)
}

type C07Scenario struct {
	VT   string   `json:"vt"` // i8..i64 u8..u64 f32 f64 str bytes
	Keys []string `json:"keys"`
	Ops  []C07Op  `json:"ops"`
}

var c07VTs = []string{"i8", "i16", "i32", "i64", "u8", "u16", "u32", "u64", "f32", "f64", "str", "bytes"}

const c07Base = int64(1_600_000_000) * int64(time.Second)

// c07TS maps a pool index (1..14) to an explicit, distinct timestamp (nanoseconds; sub-second part on purpose).
func c07TS(k int) int64 {
	if k <= 0 {
		return 0
	}
	return c07Base + int64(k)*10*int64(time.Second) + int64(k%3)
}

type c07Val struct {
	I int64
	U uint64
	F float64
	S string
}

var (
	c07Signed = map[string][]int64{
		"i8":  {-9, -5, -2, -1, 1, 2, 3, 5, 7, 9},
		"i16": {-3000, -5, -2, -1, 1, 2, 3, 5, 7, 3000},
		"i32": {-(1 << 30), -5, -2, -1, 1, 2, 3, 5, 7, 1 << 30},
		"i64": {-(1 << 62), -5, -2, -1, 1, 2, 3, 5, 7, 1 << 62},
	}
	c07Unsigned = map[string][]uint64{
		"u8":  {1, 2, 3, 4, 5, 6, 7, 9, 11, 13},
		"u16": {1, 2, 3, 4, 5, 6, 7, 9, 11, 60000},
		"u32": {1, 2, 3, 4, 5, 6, 7, 9, 11, 4_000_000_000},
		"u64": {1, 2, 3, 5, 7, 9, 1 << 62, 1 << 63, 1<<63 + 5, math.MaxUint64},
	}
	c07Floats  = []float64{-9.5, -2.25, -1, -0.5, 0.5, 1, 1.5, 2.25, 7, 1e9}
	c07Strings = []string{"a", "aa", "ab", "b", "ba", "c", "d", "e", "zz", "m"}
)

func c07Value(vt string, vi int) c07Val {
	vi = ((vi % 10) + 10) % 10
	switch vt {
	case "i8", "i16", "i32", "i64":
		return c07Val{I: c07Signed[vt][vi]}
	case "u8", "u16", "u32", "u64":
		return c07Val{U: c07Unsigned[vt][vi]}
	case "f32", "f64":
		return c07Val{F: c07Floats[vi]}
	case "str":
		return c07Val{S: c07Strings[vi]}
	}
	return c07Val{I: int64(vi)} // bytes: body {"v": vi}
}

func c07Less(vt string, a, b c07Val) bool {
	switch vt {
	case "u8", "u16", "u32", "u64":
		return a.U < b.U
	case "f32", "f64":
		return a.F < b.F
	case "str":
		return a.S < b.S
	}
	return a.I < b.I
}

func c07IsZero(vt string, v c07Val) bool {
	switch vt {
	case "u8", "u16", "u32", "u64":
		return v.U == 0
	case "f32", "f64":
		return v.F == 0
	case "str":
		return v.S == ""
	case "bytes":
		return false
	}
	return v.I == 0
}

func c07SetKV(vt string, key string, v c07Val) *hydrapb.KeyValuePair {
	kv := &hydrapb.KeyValuePair{Key: key}
	switch vt {
	case "i8":
		x := int32(v.I)
		kv.Int8Val = &x
	case "i16":
		x := int32(v.I)
		kv.Int16Val = &x
	case "i32":
		x := int32(v.I)
		kv.Int32Val = &x
	case "i64":
		x := v.I
		kv.Int64Val = &x
	case "u8":
		x := uint32(v.U)
		kv.Uint8Val = &x
	case "u16":
		x := uint32(v.U)
		kv.Uint16Val = &x
	case "u32":
		x := uint32(v.U)
		kv.Uint32Val = &x
	case "u64":
		x := v.U
		kv.Uint64Val = &x
	case "f32":
		x := float32(v.F)
		kv.Float32Val = &x
	case "f64":
		x := v.F
		kv.Float64Val = &x
	case "str":
		x := v.S
		kv.StringVal = &x
	case "bytes":
		kv.BytesVal = wrapBody(mpMap(nil, []KV{{"v", Val{K: "i64", I: v.I}}, {"tenant", Val{K: "str", S: "acme"}}}))
	}
	return kv
}

// c07ValueOf extracts the typed value of a returned treasure; ok=false if the treasure does not carry that type.
func c07ValueOf(vt string, tr *hydrapb.Treasure) (c07Val, bool) {
	switch vt {
	case "i8":
		if tr.Int8Val != nil {
			return c07Val{I: int64(*tr.Int8Val)}, true
		}
	case "i16":
		if tr.Int16Val != nil {
			return c07Val{I: int64(*tr.Int16Val)}, true
		}
	case "i32":
		if tr.Int32Val != nil {
			return c07Val{I: int64(*tr.Int32Val)}, true
		}
	case "i64":
		if tr.Int64Val != nil {
			return c07Val{I: *tr.Int64Val}, true
		}
	case "u8":
		if tr.Uint8Val != nil {
			return c07Val{U: uint64(*tr.Uint8Val)}, true
		}
	case "u16":
		if tr.Uint16Val != nil {
			return c07Val{U: uint64(*tr.Uint16Val)}, true
		}
	case "u32":
		if tr.Uint32Val != nil {
			return c07Val{U: uint64(*tr.Uint32Val)}, true
		}
	case "u64":
		if tr.Uint64Val != nil {
			return c07Val{U: *tr.Uint64Val}, true
		}
	case "f32":
		if tr.Float32Val != nil {
			return c07Val{F: float64(*tr.Float32Val)}, true
		}
	case "f64":
		if tr.Float64Val != nil {
			return c07Val{F: *tr.Float64Val}, true
		}
	case "str":
		if tr.StringVal != nil {
			return c07Val{S: *tr.StringVal}, true
		}
	}
	return c07Val{}, false
}

type c07Rec struct {
	v       c07Val
	c, u, e int64
}

func (r *c07Rec) ts(fam string) int64 {
	switch fam {
	case "c":
		return r.c
	case "u":
		return r.u
	case "e":
		return r.e
	}
	return 0
}

func c07IndexType(fam, vt string) hydrapb.IndexType_Type {
	switch fam {
	case "key":
		return hydrapb.IndexType_KEY
	case "c":
		return hydrapb.IndexType_CREATION_TIME
	case "u":
		return hydrapb.IndexType_UPDATE_TIME
	case "e":
		return hydrapb.IndexType_EXPIRATION_TIME
	}
	switch vt {
	case "i8":
		return hydrapb.IndexType_VALUE_INT8
	case "i16":
		return hydrapb.IndexType_VALUE_INT16
	case "i32":
		return hydrapb.IndexType_VALUE_INT32
	case "i64":
		return hydrapb.IndexType_VALUE_INT64
	case "u8":
		return hydrapb.IndexType_VALUE_UINT8
	case "u16":
		return hydrapb.IndexType_VALUE_UINT16
	case "u32":
		return hydrapb.IndexType_VALUE_UINT32
	case "u64":
		return hydrapb.IndexType_VALUE_UINT64
	case "f32":
		return hydrapb.IndexType_VALUE_FLOAT32
	case "f64":
		return hydrapb.IndexType_VALUE_FLOAT64
	}
	return hydrapb.IndexType_VALUE_STRING
}

// c07Increment calls the Increment RPC of the swamp's value type and returns the new value + metadata.
func c07Increment(e *env, sn, vt, key string, exp *timestamppb.Timestamp) (c07Val, *hydrapb.IncrementResponseMetadata, error) {
	ctx, cancel := context.WithTimeout(e.ctx, 20*time.Second)
	defer cancel()
	isl := rig.Island(sn)
	var meta *hydrapb.IncrementRequestMetadata
	if exp != nil {
		meta = &hydrapb.IncrementRequestMetadata{ExpiredAt: exp}
	}
	fail := fmt.Errorf("nil response (handler panicked?)")
	switch vt {
	case "i8":
		r, err := e.r.G.IncrementInt8(ctx, &hydrapb.IncrementInt8Request{IslandID: isl, SwampName: sn, Key: key, IncrementBy: 100, SetIfNotExist: meta, SetIfExist: meta})
		if err != nil || r == nil {
			return c07Val{}, nil, orErr(err, fail)
		}
		return c07Val{I: int64(r.Value)}, r.Metadata, nil
	case "i16":
		r, err := e.r.G.IncrementInt16(ctx, &hydrapb.IncrementInt16Request{IslandID: isl, SwampName: sn, Key: key, IncrementBy: 100, SetIfNotExist: meta, SetIfExist: meta})
		if err != nil || r == nil {
			return c07Val{}, nil, orErr(err, fail)
		}
		return c07Val{I: int64(r.Value)}, r.Metadata, nil
	case "i32":
		r, err := e.r.G.IncrementInt32(ctx, &hydrapb.IncrementInt32Request{IslandID: isl, SwampName: sn, Key: key, IncrementBy: 100, SetIfNotExist: meta, SetIfExist: meta})
		if err != nil || r == nil {
			return c07Val{}, nil, orErr(err, fail)
		}
		return c07Val{I: int64(r.Value)}, r.Metadata, nil
	case "i64":
		r, err := e.r.G.IncrementInt64(ctx, &hydrapb.IncrementInt64Request{IslandID: isl, SwampName: sn, Key: key, IncrementBy: 100, SetIfNotExist: meta, SetIfExist: meta})
		if err != nil || r == nil {
			return c07Val{}, nil, orErr(err, fail)
		}
		return c07Val{I: r.Value}, r.Metadata, nil
	case "u8":
		r, err := e.r.G.IncrementUint8(ctx, &hydrapb.IncrementUint8Request{IslandID: isl, SwampName: sn, Key: key, IncrementBy: 100, SetIfNotExist: meta, SetIfExist: meta})
		if err != nil || r == nil {
			return c07Val{}, nil, orErr(err, fail)
		}
		return c07Val{U: uint64(r.Value)}, r.Metadata, nil
	case "u16":
		r, err := e.r.G.IncrementUint16(ctx, &hydrapb.IncrementUint16Request{IslandID: isl, SwampName: sn, Key: key, IncrementBy: 100, SetIfNotExist: meta, SetIfExist: meta})
		if err != nil || r == nil {
			return c07Val{}, nil, orErr(err, fail)
		}
		return c07Val{U: uint64(r.Value)}, r.Metadata, nil
	case "u32":
		r, err := e.r.G.IncrementUint32(ctx, &hydrapb.IncrementUint32Request{IslandID: isl, SwampName: sn, Key: key, IncrementBy: 100, SetIfNotExist: meta, SetIfExist: meta})
		if err != nil || r == nil {
			return c07Val{}, nil, orErr(err, fail)
		}
		return c07Val{U: uint64(r.Value)}, r.Metadata, nil
	case "u64":
		r, err := e.r.G.IncrementUint64(ctx, &hydrapb.IncrementUint64Request{IslandID: isl, SwampName: sn, Key: key, IncrementBy: 100, SetIfNotExist: meta, SetIfExist: meta})
		if err != nil || r == nil {
			return c07Val{}, nil, orErr(err, fail)
		}
		return c07Val{U: r.Value}, r.Metadata, nil
	case "f32":
		r, err := e.r.G.IncrementFloat32(ctx, &hydrapb.IncrementFloat32Request{IslandID: isl, SwampName: sn, Key: key, IncrementBy: 100.25, SetIfNotExist: meta, SetIfExist: meta})
		if err != nil || r == nil {
			return c07Val{}, nil, orErr(err, fail)
		}
		return c07Val{F: float64(r.Value)}, r.Metadata, nil
	case "f64":
		r, err := e.r.G.IncrementFloat64(ctx, &hydrapb.IncrementFloat64Request{IslandID: isl, SwampName: sn, Key: key, IncrementBy: 100.25, SetIfNotExist: meta, SetIfExist: meta})
		if err != nil || r == nil {
			return c07Val{}, nil, orErr(err, fail)
		}
		return c07Val{F: r.Value}, r.Metadata, nil
	}
	return c07Val{}, nil, fmt.Errorf("increment not applicable to %s", vt)
}

func orErr(a, b error) error {
	if a != nil {
		return a
	}
	return b
}

func c07Numeric(vt string) bool { return vt != "str" && vt != "bytes" }

// ---------------------------------------------------------------------------
// generator

type c07Cfg struct {
	// triggers of open findings (true = may be generated)
	timeAttrChange bool   // CreatedAt/UpdatedAt of an existing record changes (or appears) after that index was built
	valueChange    bool   // value of an existing record changes after the value index was built
	nonI64Insert   bool   // insert into an already built value index of a type other than int64
	force          string // "", "time", "value", "insert": append a forced witness tail
}

func c07MainCfg() c07Cfg {
	return c07Cfg{
		timeAttrChange: !pbt.Open("C07", "time-attr-change-after-build"),
		valueChange:    !pbt.Open("C07", "value-change-after-build"),
		nonI64Insert:   !pbt.Open("C07", "value-index-insert-not-int64"),
	}
}

func genC07(cfg c07Cfg) func(t *rapid.T) C07Scenario {
	return func(t *rapid.T) C07Scenario {
		var s C07Scenario
		s.VT = rapid.SampledFrom(c07VTs).Draw(t, "vt")
		if cfg.force == "value" && s.VT == "bytes" {
			s.VT = "i64"
		}
		if cfg.force == "insert" && (s.VT == "bytes" || s.VT == "i64") {
			s.VT = "i32"
		}
		nk := rapid.IntRange(3, 9).Draw(t, "nkeys")
		seen := map[string]bool{}
		for len(s.Keys) < nk {
			k := rapid.StringMatching(`[a-d]{1,3}`).Draw(t, "key")
			if !seen[k] {
				seen[k] = true
				s.Keys = append(s.Keys, k)
			}
		}
		fams := []string{"key", "c", "u", "e"}
		if s.VT != "bytes" {
			fams = append(fams, "v", "v") // value index twice as likely
		}
		focus := rapid.SampledFrom(fams).Draw(t, "focus")
		switch cfg.force {
		case "time":
			focus = rapid.SampledFrom([]string{"c", "u"}).Draw(t, "wfocus")
		case "value", "insert":
			focus = "v"
		}

		exists := make([]bool, nk)
		// tomb: deleted since the last reload. Such a key is not re-created before the next reload:
		// delete + re-create + delete inside one write interval resurrects the on-disk record (C05/C06's subject).
		tomb := make([]bool, nk)
		nExist := 0
		built := map[string]bool{}

		genRead := func(label string, fam string) C07Op {
			r := &C07Read{Fam: fam}
			r.Stream = rapid.Bool().Draw(t, label+"stream")
			r.Desc = rapid.Bool().Draw(t, label+"desc")
			n := nExist
			switch rapid.IntRange(0, 3).Draw(t, label+"fromcls") {
			case 0:
				r.From = 0
			default:
				r.From = rapid.IntRange(0, n+2).Draw(t, label+"from")
			}
			switch rapid.IntRange(0, 3).Draw(t, label+"limcls") {
			case 0:
				r.Limit = 0
			default:
				r.Limit = rapid.IntRange(0, n+2).Draw(t, label+"limit")
			}
			if fam == "c" || fam == "u" || fam == "e" {
				modes := []string{"", "", "eq", "eq", "between", "before", "after"}
				r.FM = rapid.SampledFrom(modes).Draw(t, label+"fm")
				r.TM = rapid.SampledFrom(modes).Draw(t, label+"tm")
				r.FP = rapid.IntRange(0, 13).Draw(t, label+"fp")
				r.TP = rapid.IntRange(0, 13).Draw(t, label+"tp")
			}
			built[fam] = true
			return C07Op{K: "read", R: r}
		}
		pickFam := func(label string) string {
			if rapid.IntRange(0, 9).Draw(t, label+"isfocus") < 6 {
				return focus
			}
			return rapid.SampledFrom(fams).Draw(t, label+"fam")
		}
		tsIdx := func(label string) int {
			if rapid.IntRange(0, 3).Draw(t, label+"has") == 0 {
				return 0
			}
			return rapid.IntRange(1, 14).Draw(t, label)
		}
		existingKey := func(label string) int {
			var xs []int
			for i, e := range exists {
				if e {
					xs = append(xs, i)
				}
			}
			if len(xs) == 0 {
				return -1
			}
			return xs[rapid.IntRange(0, len(xs)-1).Draw(t, label)]
		}
		genSet := func(label string, wantNew int) (C07Op, bool) {
			// wantNew: 1 = prefer a new key, 0 = any
			key := rapid.IntRange(0, nk-1).Draw(t, label+"key")
			if wantNew == 1 {
				for i := 0; i < nk; i++ {
					if !exists[(key+i)%nk] && !tomb[(key+i)%nk] {
						key = (key + i) % nk
						break
					}
				}
			}
			if tomb[key] {
				key = existingKey(label + "tk")
				if key < 0 {
					return C07Op{}, false
				}
			}
			insert := !exists[key]
			if insert && !cfg.nonI64Insert && built["v"] && s.VT != "i64" && s.VT != "bytes" {
				key = existingKey(label + "ex")
				if key < 0 {
					return C07Op{}, false
				}
				insert = false
			}
			op := C07Op{K: "set", Key: key, VI: rapid.IntRange(0, 9).Draw(t, label+"vi"),
				C: tsIdx(label + "c"), U: tsIdx(label + "u"), E: tsIdx(label + "e")}
			if !insert {
				if !cfg.timeAttrChange {
					if built["c"] {
						op.C = 0
					}
					if built["u"] {
						op.U = 0
					}
				}
				if !cfg.valueChange && built["v"] {
					op.Keep = true
				}
			}
			if insert {
				exists[key] = true
				nExist++
			}
			return op, true
		}

		// phase 1: a few inserts, then the first read of the focus index (lazy build happens here)
		n0 := rapid.IntRange(2, 5).Draw(t, "n0")
		for i := 0; i < n0; i++ {
			if op, ok := genSet(fmt.Sprintf("p1_%d_", i), 1); ok {
				s.Ops = append(s.Ops, op)
			}
		}
		s.Ops = append(s.Ops, genRead("r0_", focus))

		// phase 2: mixed history
		n := rapid.IntRange(4, 28).Draw(t, "nops")
		for i := 0; i < n; i++ {
			l := fmt.Sprintf("o%d_", i)
			c := rapid.IntRange(0, 99).Draw(t, l+"cls")
			switch {
			case c < 40:
				if op, ok := genSet(l, rapid.IntRange(0, 1).Draw(t, l+"new")); ok {
					s.Ops = append(s.Ops, op)
				}
			case c < 48 && c07Numeric(s.VT):
				key := rapid.IntRange(0, nk-1).Draw(t, l+"key")
				insert := !exists[key]
				if tomb[key] {
					continue
				}
				if built["v"] && ((insert && !cfg.nonI64Insert && s.VT != "i64") || (!insert && !cfg.valueChange)) {
					s.Ops = append(s.Ops, genRead(l, pickFam(l)))
					continue
				}
				s.Ops = append(s.Ops, C07Op{K: "inc", Key: key, E: tsIdx(l + "e")})
				if insert {
					exists[key] = true
					nExist++
				}
			case c < 48 && s.VT == "bytes":
				key := existingKey(l + "pk")
				if key < 0 {
					continue
				}
				op := C07Op{K: "patch", Key: key, VI: rapid.IntRange(0, 9).Draw(t, l+"vi")}
				switch rapid.IntRange(0, 3).Draw(t, l+"pm") {
				case 0:
					op.ClrE = true
				case 1, 2:
					op.E = rapid.IntRange(1, 14).Draw(t, l+"pe")
				}
				if rapid.IntRange(0, 2).Draw(t, l+"now") == 0 && (cfg.timeAttrChange || !built["u"]) {
					op.Now = true
				}
				s.Ops = append(s.Ops, op)
			case c < 60:
				key := existingKey(l + "dk")
				if key < 0 || nExist <= 1 { // never empty the swamp: an empty swamp destroys itself (C16's subject)
					continue
				}
				exists[key] = false
				tomb[key] = true
				nExist--
				s.Ops = append(s.Ops, C07Op{K: "del", Key: key})
			case c < 65:
				s.Ops = append(s.Ops, C07Op{K: "reload"})
				built = map[string]bool{}
				tomb = make([]bool, nk)
			case c < 72:
				// PatchExpiredTreasures: every timestamp of the pool lies in the past, so every record that carries an
				// ExpiredAt is a candidate. It takes the selected records out of the expiry index and re-inserts them
				// (with a lease: at another position) — another maintenance path of the same index.
				op := C07Op{K: "pexp", N: rapid.IntRange(0, 3).Draw(t, l+"n"), VI: rapid.IntRange(0, 9).Draw(t, l+"vi")}
				if rapid.IntRange(0, 2).Draw(t, l+"lease") > 0 {
					op.E = rapid.IntRange(1, 14).Draw(t, l+"pe")
				}
				s.Ops = append(s.Ops, op)
				built["e"] = true
			default:
				s.Ops = append(s.Ops, genRead(l, pickFam(l)))
			}
		}

		// forced witness tail: build, change the attribute of an existing record / insert, read again (whole index)
		if cfg.force != "" {
			s.Ops = append(s.Ops, C07Op{K: "read", R: &C07Read{Fam: focus}})
			key := existingKey("wkey")
			switch cfg.force {
			case "time":
				op := C07Op{K: "set", Key: key, Keep: true}
				p := rapid.IntRange(1, 14).Draw(t, "wts")
				if focus == "c" {
					op.C = p
				} else {
					op.U = p
				}
				s.Ops = append(s.Ops, op)
			case "value":
				s.Ops = append(s.Ops, C07Op{K: "set", Key: key, VI: rapid.IntRange(0, 9).Draw(t, "wvi")})
			case "insert":
				nkIdx := -1
				for i, e := range exists {
					if !e && !tomb[i] {
						nkIdx = i
						break
					}
				}
				if nkIdx < 0 {
					s.Keys = append(s.Keys, "zzzz")
					nkIdx = len(s.Keys) - 1
				}
				s.Ops = append(s.Ops, C07Op{K: "set", Key: nkIdx, VI: rapid.IntRange(0, 9).Draw(t, "wvi")})
			}
			s.Ops = append(s.Ops, C07Op{K: "read", R: &C07Read{Fam: focus}}, C07Op{K: "read", R: &C07Read{Fam: focus, Desc: true, Stream: true}})
			return s
		}
		s.Ops = append(s.Ops, genRead("rz_", focus))
		return s
	}
}

// ---------------------------------------------------------------------------
// runner

var c07Env *env

func runC07(s C07Scenario) (out pbt.Outcome) {
	e := c07Env
	sn := fmt.Sprintf("c07/r%d/main", caseCounter.Add(1))
	defer e.destroy(sn)
	isl := rig.Island(sn)
	model := map[string]*c07Rec{}
	panics0 := e.r.Logs.Panics()

	// non-triviality bookkeeping per index family
	type famState struct{ built, insertAfter, changeAfter bool }
	fs := map[string]*famState{"key": {}, "c": {}, "u": {}, "e": {}, "v": {}}
	qualified, paged := false, false
	classes := map[string]bool{"vt-" + s.VT: true}

	carries := func(r *c07Rec, fam string) bool {
		switch fam {
		case "c", "u", "e":
			return r.ts(fam) != 0
		}
		return true
	}
	noteInsert := func(r *c07Rec) {
		for fam, st := range fs {
			if st.built && carries(r, fam) {
				st.insertAfter = true
			}
		}
	}
	noteChange := func(old, nw *c07Rec) {
		for fam, st := range fs {
			if !st.built {
				continue
			}
			switch fam {
			case "c", "u", "e":
				if old.ts(fam) != nw.ts(fam) {
					st.changeAfter = true
					classes["attr-change-after-build-"+fam] = true
				}
			case "v":
				if s.VT != "bytes" && old.v != nw.v {
					st.changeAfter = true
					classes["attr-change-after-build-v"] = true
				}
			}
		}
	}
	noteDelete := func() {
		for _, st := range fs {
			if st.built {
				st.changeAfter = true
			}
		}
	}

	ctxT := func() (context.Context, context.CancelFunc) { return context.WithTimeout(e.ctx, 20*time.Second) }

	for i, op := range s.Ops {
		switch op.K {
		case "set":
			key := s.Keys[op.Key%len(s.Keys)]
			old := model[key]
			v := c07Value(s.VT, op.VI)
			if op.Keep && old != nil {
				v = old.v
			}
			if c07IsZero(s.VT, v) {
				return pbt.Outcome{Skip: true}
			}
			kv := c07SetKV(s.VT, key, v)
			kv.CreatedAt, kv.UpdatedAt, kv.ExpiredAt = nanosToTS(c07TS(op.C)), nanosToTS(c07TS(op.U)), nanosToTS(c07TS(op.E))
			ctx, cancel := ctxT()
			resp, err := e.r.G.Set(ctx, &hydrapb.SetRequest{Swamps: []*hydrapb.SwampRequest{{IslandID: isl, SwampName: sn, CreateIfNotExist: true, Overwrite: true, KeyValues: []*hydrapb.KeyValuePair{kv}}}})
			cancel()
			if err != nil || resp == nil {
				return pbt.Failf("rpc-error", "op %d Set(%s): resp=%v err=%v", i, key, resp, err)
			}
			nw := &c07Rec{v: v}
			if old != nil {
				*nw = *old
				nw.v = v
			}
			if op.C != 0 {
				nw.c = c07TS(op.C)
			}
			if op.U != 0 {
				nw.u = c07TS(op.U)
			}
			if op.E != 0 {
				nw.e = c07TS(op.E)
			}
			if old == nil {
				noteInsert(nw)
			} else {
				noteChange(old, nw)
			}
			model[key] = nw
		case "inc":
			key := s.Keys[op.Key%len(s.Keys)]
			old := model[key]
			v, meta, err := c07Increment(e, sn, s.VT, key, nanosToTS(c07TS(op.E)))
			if err != nil {
				return pbt.Failf("rpc-error", "op %d Increment(%s): %v", i, key, err)
			}
			if c07IsZero(s.VT, v) {
				return pbt.Outcome{Skip: true} // typed zero values are C05's subject
			}
			nw := &c07Rec{v: v, c: tsToNanos(meta.GetCreatedAt()), u: tsToNanos(meta.GetUpdatedAt()), e: tsToNanos(meta.GetExpiredAt())}
			if old == nil {
				noteInsert(nw)
			} else {
				noteChange(old, nw)
			}
			model[key] = nw
			classes["has-increment"] = true
		case "patch":
			key := s.Keys[op.Key%len(s.Keys)]
			old := model[key]
			if old == nil {
				continue
			}
			meta := &hydrapb.PatchMeta{ClearExpiredAt: op.ClrE, SetUpdatedAt: op.Now}
			if op.E != 0 && !op.ClrE {
				meta.SetExpiredAt = nanosToTS(c07TS(op.E))
			}
			t0 := time.Now().UnixNano()
			ctx, cancel := ctxT()
			resp, err := e.r.G.PatchTreasures(ctx, &hydrapb.PatchTreasuresRequest{IslandID: isl, SwampName: sn, Meta: meta,
				Patches: []*hydrapb.TreasurePatch{{Key: key, Ops: []*hydrapb.PatchOp{{Op: hydrapb.PatchOp_SET, Path: "p", Value: mpVal(nil, Val{K: "i8", I: int64(op.VI)})}}}}})
			cancel()
			t1 := time.Now().UnixNano()
			if err != nil || resp == nil || len(resp.Results) != 1 {
				return pbt.Failf("rpc-error", "op %d Patch(%s): resp=%v err=%v", i, key, resp, err)
			}
			if resp.Results[0].Status != hydrapb.PatchResult_PATCHED {
				return pbt.Failf("rpc-error", "op %d Patch(%s) on a msgpack body: status %v %s", i, key, resp.Results[0].Status, resp.Results[0].GetError())
			}
			nw := *old
			if op.ClrE {
				nw.e = 0
			} else if op.E != 0 {
				nw.e = c07TS(op.E)
			}
			if op.Now {
				ctx, cancel := ctxT()
				g, err := e.r.G.Get(ctx, &hydrapb.GetRequest{Swamps: []*hydrapb.GetSwamp{{IslandID: isl, SwampName: sn, Keys: []string{key}}}})
				cancel()
				if err != nil || g == nil || len(g.Swamps) != 1 || len(g.Swamps[0].Treasures) != 1 {
					return pbt.Failf("rpc-error", "op %d Get(%s) after patch: %v %v", i, key, g, err)
				}
				u := tsToNanos(g.Swamps[0].Treasures[0].UpdatedAt)
				if u < t0 || u > t1 {
					return pbt.Outcome{Skip: true} // cannot learn the stamped time; not this property's business
				}
				nw.u = u
			}
			noteChange(old, &nw)
			model[key] = &nw
			classes["has-patch"] = true
		case "pexp":
			if len(model) == 0 {
				continue
			}
			req := &hydrapb.PatchExpiredTreasuresRequest{IslandID: isl, SwampName: sn, HowMany: int32(op.N),
				Ops: []*hydrapb.PatchOp{{Op: hydrapb.PatchOp_SET, Path: "p", Value: mpVal(nil, Val{K: "i8", I: int64(op.VI)})}}}
			if op.E != 0 {
				req.Meta = &hydrapb.PatchMeta{SetExpiredAt: nanosToTS(c07TS(op.E))}
			}
			ctx, cancel := ctxT()
			resp, err := e.r.G.PatchExpiredTreasures(ctx, req)
			cancel()
			if err != nil || resp == nil {
				return pbt.Failf("rpc-error", "op %d PatchExpired(HowMany=%d): resp=%v err=%v", i, op.N, resp, err)
			}
			// The response is taken at its word for WHICH records were patched and what their ExpiredAt is now
			// (selection and patch semantics are C11's and C13's subject); the index reads are judged against that.
			for _, pe := range resp.Patched {
				old := model[pe.Key]
				if old == nil {
					return pbt.Failf("rpc-error", "op %d PatchExpired reported key %q which does not exist", i, pe.Key)
				}
				if pe.Status != hydrapb.PatchResult_PATCHED {
					continue
				}
				nw := *old
				nw.e = tsToNanos(pe.ExpiredAt)
				noteChange(old, &nw)
				model[pe.Key] = &nw
				classes["patch-expired-patched"] = true
			}
			if len(resp.Patched) > 0 {
				fs["e"].built = true
				classes["has-patch-expired"] = true
			}
		case "del":
			key := s.Keys[op.Key%len(s.Keys)]
			if model[key] == nil || len(model) <= 1 {
				continue
			}
			ctx, cancel := ctxT()
			resp, err := e.r.G.Delete(ctx, &hydrapb.DeleteRequest{Swamps: []*hydrapb.DeleteRequest_SwampKeys{{IslandID: isl, SwampName: sn, Keys: []string{key}}}})
			cancel()
			if err != nil || resp == nil {
				return pbt.Failf("rpc-error", "op %d Delete(%s): %v %v", i, key, resp, err)
			}
			delete(model, key)
			noteDelete()
			classes["has-delete"] = true
		case "reload":
			if len(model) == 0 {
				continue
			}
			e.r.CloseSwamp(sn)
			for _, st := range fs {
				*st = famState{}
			}
			classes["has-reload"] = true
		case "read":
			rd := op.R
			if rd == nil || len(model) == 0 {
				continue
			}
			if rd.Fam == "v" && s.VT == "bytes" {
				continue
			}
			if f := c07CheckRead(e, sn, s.VT, model, rd, i); f != nil {
				return *f
			}
			if e.r.Logs.Panics() != panics0 {
				return pbt.Failf("panic", "op %d read %+v: the server logged a recovered panic: %v", i, *rd, e.r.Logs.Recent(2))
			}
			st := fs[rd.Fam]
			if st.built && st.insertAfter && st.changeAfter {
				qualified = true
			}
			st.built = true
			n := 0
			for _, r := range model {
				if carries(r, rd.Fam) {
					n++
				}
			}
			if rd.From > 0 && rd.Limit > 0 && rd.Limit < n {
				paged = true
			}
			classes["read-"+rd.Fam] = true
			if rd.Stream {
				classes["read-stream"] = true
			}
			if rd.FM != "" || rd.TM != "" {
				classes["read-window"] = true
			}
		}
	}
	out.NonTrivial = qualified && paged
	if qualified {
		classes["incremental-maintenance-exercised"] = true
	}
	for c := range classes {
		out.Classes = append(out.Classes, c)
	}
	sort.Strings(out.Classes)
	return out
}

// c07ResolveWindow turns a symbolic bound into a timestamp using the model's current timestamps of that family.
func c07ResolveWindow(model map[string]*c07Rec, fam, mode string, p int) *int64 {
	if mode == "" {
		return nil
	}
	var ds []int64
	seen := map[int64]bool{}
	for _, r := range model {
		if t := r.ts(fam); t != 0 && !seen[t] {
			seen[t] = true
			ds = append(ds, t)
		}
	}
	sort.Slice(ds, func(i, j int) bool { return ds[i] < ds[j] })
	var v int64
	switch mode {
	case "before":
		v = c07Base - int64(time.Hour)
	case "after":
		v = int64(4_000_000_000) * int64(time.Second)
	case "eq":
		if len(ds) == 0 {
			v = c07TS(p + 1)
		} else {
			v = ds[p%len(ds)]
		}
	case "between":
		if len(ds) == 0 {
			v = c07TS(p+1) + 5*int64(time.Second)
		} else {
			v = ds[p%len(ds)] + 5*int64(time.Second)
		}
	}
	return &v
}

func c07CheckRead(e *env, sn, vt string, model map[string]*c07Rec, rd *C07Read, opIdx int) *pbt.Outcome {
	fail := func(shape, f string, a ...any) *pbt.Outcome {
		o := pbt.Failf(shape, "op %d read %s: "+f, append([]any{opIdx, c07ReadString(rd, vt)}, a...)...)
		return &o
	}
	var ft, tt *int64
	if rd.Fam == "c" || rd.Fam == "u" || rd.Fam == "e" {
		ft = c07ResolveWindow(model, rd.Fam, rd.FM, rd.FP)
		tt = c07ResolveWindow(model, rd.Fam, rd.TM, rd.TP)
	}
	// reference: records carrying the attribute, restricted to [from, to), sorted, grouped into tie classes
	type item struct {
		key string
		r   *c07Rec
	}
	var items []item
	for k, r := range model {
		switch rd.Fam {
		case "c", "u", "e":
			t := r.ts(rd.Fam)
			if t == 0 || (ft != nil && t < *ft) || (tt != nil && t >= *tt) {
				continue
			}
		}
		items = append(items, item{k, r})
	}
	less := func(a, b item) bool {
		switch rd.Fam {
		case "key":
			return a.key < b.key
		case "v":
			return c07Less(vt, a.r.v, b.r.v)
		}
		return a.r.ts(rd.Fam) < b.r.ts(rd.Fam)
	}
	sort.Slice(items, func(i, j int) bool {
		if less(items[i], items[j]) {
			return true
		}
		if less(items[j], items[i]) {
			return false
		}
		return items[i].key < items[j].key // deterministic listing only
	})
	if rd.Desc {
		for i, j := 0, len(items)-1; i < j; i, j = i+1, j-1 {
			items[i], items[j] = items[j], items[i]
		}
	}
	var cls [][]string
	for i, it := range items {
		if i > 0 && !less(items[i-1], it) && !less(it, items[i-1]) {
			cls[len(cls)-1] = append(cls[len(cls)-1], it.key)
		} else {
			cls = append(cls, []string{it.key})
		}
	}

	order := hydrapb.OrderType_ASC
	if rd.Desc {
		order = hydrapb.OrderType_DESC
	}
	it := c07IndexType(rd.Fam, vt)
	var got []*hydrapb.Treasure
	if rd.Stream {
		req := &hydrapb.GetByIndexStreamRequest{IslandID: rig.Island(sn), SwampName: sn, IndexType: it, OrderType: order, From: int32(rd.From), Limit: int32(rd.Limit)}
		if ft != nil {
			req.FromTime = timestamppb.New(time.Unix(0, *ft))
		}
		if tt != nil {
			req.ToTime = timestamppb.New(time.Unix(0, *tt))
		}
		items, err := e.stream(req)
		if err != nil {
			return fail("rpc-error", "stream error %v (code %v)", err, status.Code(err))
		}
		for _, x := range items {
			if len(x.labels) != 0 {
				return fail("mismatch", "labels %v on an unfiltered stream", x.labels)
			}
			got = append(got, x.tr)
		}
	} else {
		req := &hydrapb.GetByIndexRequest{IslandID: rig.Island(sn), SwampName: sn, IndexType: it, OrderType: order, From: int32(rd.From), Limit: int32(rd.Limit)}
		if ft != nil {
			req.FromTime = timestamppb.New(time.Unix(0, *ft))
		}
		if tt != nil {
			req.ToTime = timestamppb.New(time.Unix(0, *tt))
		}
		ctx, cancel := context.WithTimeout(e.ctx, 20*time.Second)
		resp, err := e.r.G.GetByIndex(ctx, req)
		cancel()
		if err != nil {
			if status.Code(err) == codes.Internal {
				return fail("index-error", "GetByIndex error: %v", err)
			}
			return fail("rpc-error", "GetByIndex error: %v", err)
		}
		if resp == nil {
			return fail("panic", "GetByIndex returned (nil, nil): handler panicked; %v", e.r.Logs.Recent(1))
		}
		got = resp.Treasures
	}
	var keys []string
	for _, tr := range got {
		if tr == nil || !tr.IsExist {
			return fail("mismatch", "a returned treasure is nil / IsExist=false")
		}
		m := model[tr.Key]
		if m == nil {
			return fail("mismatch", "returned key %q does not exist in the model (deleted or never written); returned=%v", tr.Key, c07Keys(got))
		}
		// the returned record must be the stored one (sort attribute + value as last written)
		if tsToNanos(tr.CreatedAt) != m.c || tsToNanos(tr.UpdatedAt) != m.u || tsToNanos(tr.ExpiredAt) != m.e {
			return fail("mismatch", "key %q returned with timestamps c=%d u=%d e=%d, stored c=%d u=%d e=%d", tr.Key, tsToNanos(tr.CreatedAt), tsToNanos(tr.UpdatedAt), tsToNanos(tr.ExpiredAt), m.c, m.u, m.e)
		}
		if vt != "bytes" {
			if v, ok := c07ValueOf(vt, tr); !ok || v != m.v {
				return fail("mismatch", "key %q returned with value %+v (typed ok=%v), stored %+v", tr.Key, v, ok, m.v)
			}
		}
		keys = append(keys, tr.Key)
	}
	if d := matchPage(keys, cls, rd.From, rd.Limit); d != "" {
		return fail("mismatch", "%s", d)
	}
	return nil
}

func c07Keys(ts []*hydrapb.Treasure) []string {
	var ks []string
	for _, t := range ts {
		ks = append(ks, t.GetKey())
	}
	return ks
}

func c07ReadString(rd *C07Read, vt string) string {
	var sb strings.Builder
	fmt.Fprintf(&sb, "%s", c07IndexType(rd.Fam, vt))
	if rd.Desc {
		sb.WriteString(" DESC")
	} else {
		sb.WriteString(" ASC")
	}
	fmt.Fprintf(&sb, " from=%d limit=%d", rd.From, rd.Limit)
	if rd.FM != "" {
		fmt.Fprintf(&sb, " fromTime=%s#%d", rd.FM, rd.FP)
	}
	if rd.TM != "" {
		fmt.Fprintf(&sb, " toTime=%s#%d", rd.TM, rd.TP)
	}
	if rd.Stream {
		sb.WriteString(" (stream)")
	}
	return sb.String()
}

// ---------------------------------------------------------------------------
// tests

const c07Rule = "rapid-generated single-swamp histories through the in-process gateway (Set with explicit CreatedAt/UpdatedAt/ExpiredAt from a 14-slot pool incl. ties and sub-second parts, " +
	"Increment of the swamp's numeric type, PatchTreasures with SetExpiredAt/ClearExpiredAt/SetUpdatedAt on msgpack bodies, Delete, close+reload); swamp value type homogeneous (12 kinds); " +
	"first read of an index at a random point, later inserts/updates/deletes hit incremental maintenance; reads = GetByIndex or GetByIndexStream (empty filter), all 15 index types over the run, ASC/DESC, " +
	"From,Limit in [0,n+2], FromTime/ToTime in {absent, equal to a record's time, +5s after a record's time, before all, after all}; oracle = model records carrying the attribute, from<=ts<to, sorted, " +
	"paged, compared as a sequence of tie classes (+ returned timestamps/value equal the stored ones); " +
	"non-trivial = some index family was read, then saw >=1 insert and >=1 attribute-changing update or delete, then was read again (no reload in between) AND >=1 read with 0<From, 0<Limit<n"

func c07Setup(t *testing.T) {
	if c07Env == nil {
		c07Env = newEnv("c07/*/*", false)
		t.Cleanup(func() { c07Env.close(); c07Env = nil })
	}
}

func TestC07Main(t *testing.T) {
	c07Setup(t)
	cfg := c07MainCfg()
	if !cfg.timeAttrChange {
		pbt.Excluded("C07", "main", "Set/Patch that changes (or first sets) CreatedAt/UpdatedAt of an existing record after that index was built (open finding time-attr-change-after-build)")
	}
	if !cfg.valueChange {
		pbt.Excluded("C07", "main", "Set/Increment that changes the value of an existing record after the value index was built (open finding value-change-after-build)")
	}
	if !cfg.nonI64Insert {
		pbt.Excluded("C07", "main", "insert of a new key into an already built value index of a type other than int64 (open finding value-index-insert-not-int64)")
	}
	pbt.Excluded("C07", "main", "typed zero values 0/\"\"/0.0 (they reload as void: C05's subject), negative From (panics: C26's subject), emptying the swamp (self-destroy: C16's subject)")
	pbt.Main(t, pbt.Spec[C07Scenario]{
		ID: "C07", Facet: "main", Rule: c07Rule,
		Quick: 12000, Thorough: 600000,
		Gen: genC07(cfg), Run: runC07,
	})
}

func c07Witness(t *testing.T, facet, witness, force string) {
	c07Setup(t)
	cfg := c07MainCfg()
	cfg.force = force
	switch force {
	case "time":
		cfg.timeAttrChange = true
	case "value":
		cfg.valueChange = true
	case "insert":
		cfg.nonI64Insert = true
	}
	pbt.Witness(t, pbt.Spec[C07Scenario]{
		ID: "C07", Facet: facet, Rule: "main generator (other open triggers still excluded) with a forced tail: read index X, " + force + "-trigger on X, read X again ASC and DESC",
		Quick: 60, Thorough: 600, Gen: genC07(cfg), Run: runC07,
	}, witness, "mismatch")
}

func TestC07WitnessTimeAttr(t *testing.T) {
	c07Witness(t, "witness-time-attr", "time-attr-change-after-build", "time")
}
func TestC07WitnessValueChange(t *testing.T) {
	c07Witness(t, "witness-value-change", "value-change-after-build", "value")
}
func TestC07WitnessValueInsert(t *testing.T) {
	c07Witness(t, "witness-value-insert", "value-index-insert-not-int64", "insert")
}
