package query

import (
	"context"
	"fmt"
	"io"
	"sync/atomic"
	"time"

	hydrapb "github.com/hydraide/hydraide/sdk/go/hydraidego/v3/hydraidepbgo"
	"google.golang.org/protobuf/types/known/timestamppb"

	"verifharness/internal/rig"
)

// One rig per test function; cases use unique swamp names and destroy them.

type env struct {
	r   *rig.Rig
	cl  hydrapb.HydraideServiceClient
	ctx context.Context
}

var caseCounter atomic.Int64

func newEnv(pattern string, inMemory bool) *env {
	p := rig.Pattern{Pattern: pattern, CloseAfterIdleSec: 600, WriteIntervalSec: 1, InMemory: inMemory}
	r := rig.New(rig.Options{Patterns: []rig.Pattern{p}})
	return &env{r: r, cl: r.Serve(), ctx: context.Background()}
}

func (e *env) close() { e.r.Cleanup() }

func (e *env) destroy(sn string) {
	ctx, cancel := context.WithTimeout(e.ctx, 20*time.Second)
	defer cancel()
	_, _ = e.r.G.Destroy(ctx, &hydrapb.DestroyRequest{IslandID: rig.Island(sn), SwampName: sn})
}

// nanosToTS converts unix nanoseconds to a protobuf timestamp (nil for 0).
func nanosToTS(n int64) *timestamppb.Timestamp {
	if n == 0 {
		return nil
	}
	return timestamppb.New(time.Unix(0, n))
}

func tsToNanos(t *timestamppb.Timestamp) int64 {
	if t == nil {
		return 0
	}
	return t.AsTime().UnixNano()
}

// streamItem is one received stream message.
type streamItem struct {
	tr     *hydrapb.Treasure
	labels []string
}

func (e *env) stream(req *hydrapb.GetByIndexStreamRequest) ([]streamItem, error) {
	ctx, cancel := context.WithTimeout(e.ctx, 30*time.Second)
	defer cancel()
	st, err := e.cl.GetByIndexStream(ctx, req)
	if err != nil {
		return nil, err
	}
	var out []streamItem
	for {
		m, err := st.Recv()
		if err == io.EOF {
			return out, nil
		}
		if err != nil {
			return out, err
		}
		it := streamItem{tr: m.GetTreasure()}
		if m.Meta != nil {
			it.labels = m.Meta.MatchedLabels
		}
		out = append(out, it)
	}
}

// matchPage checks that got is a legal answer for "classes, skip `from`
// positions, take `limit` positions (limit <= 0: all)". classes is the
// reference sequence of equivalence classes (records with equal sort value, in
// sort order); members of one class may appear in any order, so for a class
// only partially covered by the page any subset of the right size is legal.
// Returns "" when got is legal.
func matchPage(got []string, classes [][]string, from, limit int) string {
	total := 0
	for _, c := range classes {
		total += len(c)
	}
	lo := from
	if lo > total {
		lo = total
	}
	hi := total
	if limit > 0 && lo+limit < total {
		hi = lo + limit
	}
	want := hi - lo
	if len(got) != want {
		return fmt.Sprintf("returned %d records, want %d (reference has %d in range, from=%d limit=%d); got=%v reference classes=%v", len(got), want, total, from, limit, got, classes)
	}
	pos, gi := 0, 0
	seen := map[string]bool{}
	for ci, c := range classes {
		cs, ce := pos, pos+len(c)
		pos = ce
		os, oe := max(cs, lo), min(ce, hi)
		if oe <= os {
			continue
		}
		member := map[string]bool{}
		for _, k := range c {
			member[k] = true
		}
		for i := 0; i < oe-os; i++ {
			k := got[gi]
			gi++
			if seen[k] {
				return fmt.Sprintf("key %q returned twice; got=%v", k, got)
			}
			seen[k] = true
			if !member[k] {
				return fmt.Sprintf("position %d holds key %q which is not in reference class #%d %v; got=%v reference classes=%v (from=%d limit=%d)", gi-1, k, ci, c, got, classes, from, limit)
			}
		}
	}
	return ""
}

// cutsInsideClass reports whether the page [from, from+limit) starts or ends
// strictly inside a class with more than one member (the page content is then
// not determined by the sort order alone).
func cutsInsideClass(classes [][]string, from, limit int) bool {
	pos := 0
	for _, c := range classes {
		cs, ce := pos, pos+len(c)
		pos = ce
		if len(c) < 2 {
			continue
		}
		if from > cs && from < ce {
			return true
		}
		if limit > 0 {
			end := from + limit
			if end > cs && end < ce {
				return true
			}
		}
	}
	return false
}
