//go:build verifvsched

package query

import (
	"context"
	"fmt"
	"sort"
	"strings"
	"sync"
	"sync/atomic"
	"testing"
	"time"

	"github.com/hydraide/hydraide/app/server/gateway"
	"github.com/hydraide/hydraide/app/verifshim/vsched"
	hydrapb "github.com/hydraide/hydraide/sdk/go/hydraidego/v3/hydraidepbgo"
	"pgregory.net/rapid"

	"verifharness/internal/pbt"
	"verifharness/internal/rig"
)

// C08 build-race facet — "swamp contents mutated before and after the index was built" includes mutations that
// OVERLAP the first build of a field index. swamp.GetOrBuildBucket publishes the bucket with buildInFlight=1, snapshots
// the key beacon, runs BuildEquality over the snapshot and finally drains the mutations that were buffered meanwhile.
//
// A case: a swamp with 20..200 generated records and no index yet; one client issues the first filtered query on
// field F (the build) while 1..3 writers delete / replace / patch / insert / re-create records (every key is owned by
// exactly one writer, key 0 by nobody). A generated vsched plan holds the builder at the k-th body decode of
// BuildEquality (i.e. after the snapshot, before the index is declared initialised) until the writers have completed a
// generated number of operations, and optionally slows the drain loop.
//
// Oracle, at QUIESCENCE only (builder and writers returned, plan removed): for generated EQUAL / *_IN queries on F
// the bucket route and the forced scan route must agree (the sequential facet's comparator, which also checks that
// every returned key exists and that both routes return the same treasure), and both must agree with the independent
// evaluator over the model. The model is interleaving-independent because keys are partitioned among the writers.
// Nothing is asserted about the answer of the query that raced with the writers.

type C08RaceFinal struct {
	G FGroup   `json:"g"`
	Q C08Query `json:"q"`
}

type C08RaceScenario struct {
	NKeys        int            `json:"nkeys"`
	Recs         []C08Rec       `json:"recs"`
	F            string         `json:"f"`
	G0           FGroup         `json:"g0"`
	Q0           C08Query       `json:"q0"`
	Writers      [][]C08Mut     `json:"writers"`
	PauseSite    string         `json:"pause_site,omitempty"` // "" = treasure:GetContentByteArray:* (body decodes of BuildEquality)
	PauseHit     int            `json:"pause_hit"`            // builder is held at the k-th passage of that site (0 = not held)
	ReleaseAfter int            `json:"release_after"`        // … until the writers completed this many operations (>= total: until all returned)
	DrainSleepUs int            `json:"drain_sleep_us,omitempty"`
	Early        bool           `json:"early,omitempty"` // writers start together with the builder (overlaps the snapshot too)
	Finals       []C08RaceFinal `json:"finals"`
}

var c08RacePaths = []string{"tenant", "tenant", "status", "n", "flag", "nested.x"}

// c08ScanBuildOpen: a lazily built ORDER index (beacon) whose build races an insert stays incomplete (see the known: line).
// While open, the racing first query must be bucket-planned whenever the writers may overlap it from the start.
func c08ScanBuildOpen() bool { return pbt.Open("C08", "scan-index-build-vs-insert") }

func genC08Race(t *rapid.T) C08RaceScenario { return genC08RaceW(t, false) }

func genC08RaceW(t *rapid.T, witness bool) C08RaceScenario {
	cfg := c08MainCfg()
	g := &c08Gen{t: t, cfg: cfg}
	g.nFloat = g.pick(4) == 0
	var s C08RaceScenario
	s.F = c08RacePaths[g.pick(len(c08RacePaths))]
	n0 := 20 + g.pick(181)
	s.NKeys = n0 + 1 + g.pick(12)
	needTS := map[string]bool{}
	if !cfg.zeroTS || witness {
		needTS["c"], needTS["u"], needTS["e"] = true, true, true
	}
	for i := 0; i < n0; i++ {
		s.Recs = append(s.Recs, g.rec(i, needTS))
	}
	query := func() C08Query {
		q := g.query(s.NKeys)
		q.From, q.Limit = 0, 0
		if len(q.Inc) > 6 {
			q.Inc = q.Inc[:6]
		}
		return q
	}
	filter := func() FGroup {
		switch c := g.pick(10); {
		case c < 5:
			return FGroup{Legs: []FLeg{g.idxLegOn(s.F)}}
		case c < 7:
			return FGroup{Legs: []FLeg{g.idxLegOn(s.F), g.resLeg()}}
		case c < 9:
			gr := FGroup{Or: true}
			for i, n := 0, 1+g.pick(3); i < n; i++ {
				gr.Legs = append(gr.Legs, g.idxLegOn(s.F))
			}
			return gr
		}
		return FGroup{Legs: []FLeg{g.resLeg()}, Subs: []FGroup{{Or: true, Legs: []FLeg{g.idxLegOn(s.F), g.idxLegOn(s.F)}}}}
	}
	s.G0, s.Q0 = filter(), query()

	nw := 1 + g.pick(3)
	total := 0
	for w := 0; w < nw; w++ {
		// keys owned by writer w: k >= 1 with k % nw == w
		var own []int
		for k := 1; k < s.NKeys; k++ {
			if k%nw == w {
				own = append(own, k)
			}
		}
		var ops []C08Mut
		for i, n := 0, 1+g.pick(8); i < n && len(own) > 0; i++ {
			k := own[g.pick(len(own))]
			switch c := g.pick(10); {
			case c < 4:
				ops = append(ops, C08Mut{K: "del", Key: k})
			case c < 7:
				ops = append(ops, C08Mut{K: "set", Rec: g.rec(k, needTS)}) // replace / insert / re-create
			default:
				p := s.F
				if g.pick(3) == 0 {
					p = []string{"tenant", "status", "n", "flag"}[g.pick(4)]
				}
				var v Val
				if g.pick(2) == 0 {
					v = g.cvFor(p)
				} else if !strings.Contains(p, ".") {
					v = g.fieldVal(p)
				} else {
					v = g.smallInt()
				}
				if v.K == "missing" || v.K == "ts" {
					v = Val{K: "nil"}
				}
				ops = append(ops, C08Mut{K: "patch", Key: k, Path: p, V: v})
			}
		}
		total += len(ops)
		s.Writers = append(s.Writers, ops)
	}
	if g.pick(8) != 0 {
		s.PauseHit = 1 + g.pick(n0)
	}
	s.ReleaseAfter = total
	if g.pick(3) == 0 {
		s.ReleaseAfter = g.pick(total + 1)
	}
	if g.pick(3) == 0 {
		s.DrainSleepUs = []int{50, 500, 3000}[g.pick(3)]
	}
	// overlapping the snapshot itself can deadlock the unchanged tree (recorded under C11); generated again once repaired
	if !pbt.Open("C11", "bucket-build-vs-guard-holder-deadlock") {
		s.Early = g.pick(3) == 0
	}
	for i, n := 0, 2+g.pick(3); i < n; i++ {
		s.Finals = append(s.Finals, C08RaceFinal{G: filter(), Q: query()})
	}
	if witness {
		// the racing first query takes the SCAN route (labelled legs are never consumed by the bucket) and is held inside
		// swamp.buildBeacon, between SetInitialized(true) and PushManyFromMap of the ASC beacon, while a writer inserts a new key
		s.G0 = FGroup{Or: true, Legs: []FLeg{{Op: "eq", Path: "tenant", CV: Val{K: "str", S: "acme"}, Label: "L1"}}}
		s.Q0 = C08Query{Idx: []string{"key", "c", "u", "e"}[g.pick(4)], Desc: g.pick(2) == 0}
		s.PauseSite, s.PauseHit, s.Early, s.DrainSleepUs = "beacon:PushManyFromMap:*", 1, false, 0
		k := n0 + g.pick(s.NKeys-n0)
		w := k % len(s.Writers)
		s.Writers[w] = append(s.Writers[w], C08Mut{K: "set", Rec: g.rec(k, needTS)})
		s.ReleaseAfter = 1 << 30
		for i := range s.Finals {
			s.Finals[i].Q = C08Query{Idx: s.Q0.Idx, Desc: true}
		}
		return s
	}
	if s.Early && c08ScanBuildOpen() && gateway.PlanFilter(s.G0.proto()).Mode == gateway.PlanModeBypass {
		s.Early = false // a scan-route first query would build an order index while the writers insert
	}
	return s
}

var c08RaceEnv *env

func c08RaceKeys(n int) []string {
	ks := make([]string, n)
	for i := range ks {
		ks[i] = fmt.Sprintf("k%03d", i)
	}
	return ks
}

func runC08Race(s C08RaceScenario) (out pbt.Outcome) {
	e := c08RaceEnv
	sn := fmt.Sprintf("c08r/r%d/main", caseCounter.Add(1))
	defer e.destroy(sn)
	defer vsched.Deactivate()
	isl := rig.Island(sn)
	keys := c08RaceKeys(s.NKeys)
	model := map[string]*c08Rec{}
	classes := map[string]bool{}
	kvOf := func(r C08Rec) *hydrapb.KeyValuePair {
		return &hydrapb.KeyValuePair{Key: keys[r.Key%len(keys)], BytesVal: c08Body(r),
			CreatedAt: nanosToTS(c08TS(r.C)), UpdatedAt: nanosToTS(c08TS(r.U)), ExpiredAt: nanosToTS(c08TS(r.E))}
	}
	if len(s.Recs) == 0 {
		return pbt.Outcome{Skip: true}
	}
	if s.Early && c08ScanBuildOpen() && gateway.PlanFilter(s.G0.proto()).Mode == gateway.PlanModeBypass {
		s.Early = false // also for replayed scenarios: see genC08RaceW
	}
	if s.Early {
		classes["early-writers"] = true
	}
	var kvs []*hydrapb.KeyValuePair
	for _, r := range s.Recs {
		kvs = append(kvs, kvOf(r))
	}
	ctx, cancel := context.WithTimeout(e.ctx, pbt.Bound(30*time.Second))
	resp, err := e.r.G.Set(ctx, &hydrapb.SetRequest{Swamps: []*hydrapb.SwampRequest{{IslandID: isl, SwampName: sn, CreateIfNotExist: true, Overwrite: true, KeyValues: kvs}}})
	cancel()
	if err != nil || resp == nil {
		return pbt.Failf("rpc-error", "initial Set: %v %v", resp, err)
	}
	for _, r := range s.Recs {
		c08ModelSet(model, keys[r.Key%len(keys)], r)
	}

	// ---- the race
	total := 0
	for _, w := range s.Writers {
		total += len(w)
	}
	var plan []vsched.Action
	if s.PauseHit > 0 {
		site := s.PauseSite
		if site == "" {
			site = "treasure:GetContentByteArray:*"
		}
		plan = append(plan, vsched.Action{Site: site, Hit: s.PauseHit, Kind: "pause", Until: "release-builder", MaxWaitMs: int(pbt.Bound(5*time.Second) / time.Millisecond)})
	}
	if s.DrainSleepUs > 0 {
		plan = append(plan, vsched.Action{Site: "bucket:DrainPending:*", Hit: 0, Kind: "sleep", SleepUs: s.DrainSleepUs})
	}
	p0 := e.r.Logs.Panics()
	vsched.Activate(plan, false)
	sc0 := &C08Scenario{Keys: keys, G: s.G0}
	builderDone := make(chan struct{})
	go func() {
		defer close(builderDone)
		_ = e.c08Stream(sn, s.Q0, keys, sc0.G.proto()) // first index-accelerated query on F: builds the bucket; its answer is not judged
	}()
	if !s.Early && s.PauseHit > 0 {
		// writers start once the builder sits inside BuildEquality (snapshot taken), or has finished
		deadline := time.Now().Add(pbt.Bound(5 * time.Second))
		for vsched.PausedNow() == 0 && time.Now().Before(deadline) {
			select {
			case <-builderDone:
				deadline = time.Now()
			default:
				time.Sleep(50 * time.Microsecond)
			}
		}
		if vsched.PausedNow() > 0 {
			classes["writers-inside-build-window"] = true
		}
	} else if !s.Early {
		<-builderDone // no pause planned and the snapshot must not be overlapped: plain "mutate after the build"
	}
	type opRes struct{ patched bool }
	results := make([][]opRes, len(s.Writers))
	var done atomic.Int64
	release := func() {
		if int(done.Load()) >= s.ReleaseAfter {
			vsched.Signal("release-builder")
		}
	}
	release()
	var wg sync.WaitGroup
	errCh := make(chan string, len(s.Writers)+1)
	for w, ops := range s.Writers {
		results[w] = make([]opRes, len(ops))
		wg.Add(1)
		go func(w int, ops []C08Mut) {
			defer wg.Done()
			for i, m := range ops {
				ctx, cancel := context.WithTimeout(e.ctx, pbt.Bound(30*time.Second))
				switch m.K {
				case "set":
					r, err := e.r.G.Set(ctx, &hydrapb.SetRequest{Swamps: []*hydrapb.SwampRequest{{IslandID: isl, SwampName: sn, CreateIfNotExist: true, Overwrite: true, KeyValues: []*hydrapb.KeyValuePair{kvOf(m.Rec)}}}})
					if err != nil || r == nil {
						errCh <- fmt.Sprintf("writer %d op %d Set: %v %v", w, i, r, err)
					}
				case "del":
					r, err := e.r.G.Delete(ctx, &hydrapb.DeleteRequest{Swamps: []*hydrapb.DeleteRequest_SwampKeys{{IslandID: isl, SwampName: sn, Keys: []string{keys[m.Key]}}}})
					if err != nil || r == nil {
						errCh <- fmt.Sprintf("writer %d op %d Delete: %v %v", w, i, r, err)
					}
				case "patch":
					r, err := e.r.G.PatchTreasures(ctx, &hydrapb.PatchTreasuresRequest{IslandID: isl, SwampName: sn,
						Patches: []*hydrapb.TreasurePatch{{Key: keys[m.Key], Ops: []*hydrapb.PatchOp{{Op: hydrapb.PatchOp_SET, Path: m.Path, Value: mpVal(nil, m.V)}}}}})
					if err != nil || r == nil || len(r.Results) != 1 {
						errCh <- fmt.Sprintf("writer %d op %d Patch: %v %v", w, i, r, err)
					} else {
						results[w][i].patched = r.Results[0].Status == hydrapb.PatchResult_PATCHED
					}
				}
				cancel()
				done.Add(1)
				release()
			}
		}(w, ops)
	}
	allDone := make(chan struct{})
	go func() { wg.Wait(); <-builderDone; close(allDone) }()
	writersDone := make(chan struct{})
	go func() { wg.Wait(); close(writersDone) }()
	select {
	case <-writersDone:
	case <-time.After(pbt.Bound(40 * time.Second)):
		vsched.Signal("release-builder")
		vsched.Deactivate()
		select {
		case <-writersDone:
		case <-time.After(pbt.Bound(20 * time.Second)):
			return pbt.Failf("hang", "a writer did not return (%d of %d operations completed) although the builder was released", done.Load(), total)
		}
	}
	vsched.Signal("release-builder")
	select {
	case <-allDone:
	case <-time.After(pbt.Bound(40 * time.Second)):
		return pbt.Failf("hang", "the index-building query did not return after every writer had returned and the plan was released")
	}
	rep := vsched.Deactivate()
	select {
	case msg := <-errCh:
		return pbt.Failf("rpc-error", "%s", msg)
	default:
	}
	if e.r.Logs.Panics() != p0 {
		return pbt.Failf("panic", "the server logged a recovered panic during the race: %v", e.r.Logs.Recent(2))
	}
	for _, f := range rep.Fired {
		if strings.Contains(f, ":pause") {
			classes["builder-held"] = true
		}
	}

	// ---- quiescence: replay every writer's operations on the model (keys are partitioned, so the order across writers is irrelevant)
	deletedInWindow := false
	for w, ops := range s.Writers {
		for i, m := range ops {
			switch m.K {
			case "set":
				c08ModelSet(model, keys[m.Rec.Key%len(keys)], m.Rec)
			case "del":
				if model[keys[m.Key]] != nil {
					deletedInWindow = true
				}
				delete(model, keys[m.Key])
			case "patch":
				r := model[keys[m.Key]]
				if r == nil || !results[w][i].patched {
					continue
				}
				if !c08ModelPatch(r, m.Path, m.V) {
					return pbt.Outcome{Skip: true}
				}
			}
		}
	}
	if deletedInWindow {
		classes["delete-during-race"] = true
	}
	matched := 0
	for i, f := range s.Finals {
		sc := &C08Scenario{Keys: keys, G: f.G}
		fail, info := c08Pair(e, sn, sc, model, f.Q, fmt.Sprintf("after the build race (field %s, builder held at decode #%d until %d/%d writer ops, early=%v): final query #%d", s.F, s.PauseHit, s.ReleaseAfter, total, s.Early, i))
		if fail != nil {
			return *fail
		}
		if info.bucketRouted && !info.skipped {
			classes["final-bucket-routed"] = true
			matched += info.matches
		}
	}
	out.NonTrivial = classes["builder-held"] && classes["writers-inside-build-window"] && classes["final-bucket-routed"] && matched > 0 && total > 0
	for c := range classes {
		out.Classes = append(out.Classes, c)
	}
	sort.Strings(out.Classes)
	return out
}

const c08RaceRule = "in-memory swamp with 20..200 generated msgpack bodies and no field index; one client issues the first EQUAL/*_IN query on field F (bucket build) while 1..3 writers (disjoint key sets) " +
	"Delete / replace / Patch F or another field / insert / re-create records; a generated vsched plan holds the builder at the k-th body decode of BuildEquality (after the snapshot, before the index is declared built) " +
	"until the writers completed a generated number of operations and optionally slows the drain loop. Oracle at quiescence only: 2..4 generated EQUAL/*_IN queries on F (with/without residual legs, OR-unions, " +
	"time indexes, windows, MaxResults) answered by the bucket route and by the forced scan route must be equal (order up to ties, treasures) and equal to the independent evaluator over the interleaving-independent model. " +
	"non-trivial = the builder was actually held inside the build, the writers ran inside that window, a final query was bucket-routed and matched >= 1 record"

func TestC08BuildRace(t *testing.T) {
	if c08RaceEnv == nil {
		c08RaceEnv = newEnv("c08r/*/*", true)
		t.Cleanup(func() { c08RaceEnv.close(); c08RaceEnv = nil })
	}
	if pbt.Open("C11", "bucket-build-vs-guard-holder-deadlock") {
		pbt.Excluded("C08", "build-race", "writers overlapping the SNAPSHOT phase of the build (deadlocks the unchanged tree: C11's open finding bucket-build-vs-guard-holder-deadlock); writers start once the builder is inside BuildEquality")
	}
	if c08ScanBuildOpen() {
		pbt.Excluded("C08", "build-race", "writers started together with a SCAN-planned first query (its lazy order-index build racing an insert leaves the DESC index incomplete: open finding scan-index-build-vs-insert)")
	}
	pbt.Excluded("C08", "build-race", "two writers on one key (C19's open finding delete-not-atomic-per-key), deleting the last record (C16), and the open C08 triggers excluded from the main facet")
	pbt.Main(t, pbt.Spec[C08RaceScenario]{
		ID: "C08", Facet: "build-race", Rule: c08RaceRule,
		Quick: 400, Thorough: 12000,
		Gen: genC08Race, Run: runC08Race,
	})
}

// Witness of scan-index-build-vs-insert: same machinery, the first query is scan-planned and held inside buildBeacon.
func TestC08WitnessIndexBuildRace(t *testing.T) {
	if c08RaceEnv == nil {
		c08RaceEnv = newEnv("c08r/*/*", true)
		t.Cleanup(func() { c08RaceEnv.close(); c08RaceEnv = nil })
	}
	pbt.Witness(t, pbt.Spec[C08RaceScenario]{
		ID: "C08", Facet: "witness-index-build-race",
		Rule:  "build-race generator with the first query forced onto the scan route (labelled leg) and held between SetInitialized(true) and PushManyFromMap of the ASC order index while a writer inserts a new key; final queries read the same index DESC",
		Quick: 40, Thorough: 400,
		Gen: func(t *rapid.T) C08RaceScenario { return genC08RaceW(t, true) }, Run: runC08Race,
	}, "scan-index-build-vs-insert", "route-mismatch", "oracle-mismatch")
}
