// Package vfs is a pass-through replacement for the handful of package-os
// entry points the storage engine uses. The instrumenter (cmd/instrument)
// rewrites `os.Create`, `os.OpenFile`, `*os.File`, ... in the engine's sources
// to this package and injects it INTO the hydraide module through a go build
// overlay (as github.com/hydraide/hydraide/app/verifshim/vfs). Nothing of it is
// committed to hydraide.
//
// With no session active every call goes straight to package os. With a
// session active (Start), every mutating operation on a path below the session
// root is (a) appended to an operation log and (b) checked against a fault plan.
// Materialize replays a prefix of the log into a fresh directory = the file
// system image a crash at that point would leave behind (prefix persistence
// model, optionally with a torn last write).
package vfs

import (
	"errors"
	"io"
	"io/fs"
	"os"
	"path/filepath"
	"strings"
	"sync"
	"syscall"
	"time"
)

// Op is one logged mutating file operation.
type Op struct {
	Kind  string `json:"kind"` // create | open | write | truncate | sync | close | rename | remove | removeall | mkdir
	Path  string `json:"path"` // relative to the session root
	Path2 string `json:"path2,omitempty"`
	Off   int64  `json:"off,omitempty"`
	Data  []byte `json:"data,omitempty"`
	Size  int64  `json:"size,omitempty"` // truncate
	Flag  int    `json:"flag,omitempty"` // open
	// Failed is set when a fault was injected into this operation. For a write,
	// Data holds only the bytes that reached the file (short write).
	Failed bool `json:"failed,omitempty"`
}

// Fault describes what happens to the n-th mutating operation of a session.
type Fault struct {
	// Short > 0: a write stores only its first Short bytes, then fails.
	// Otherwise the operation fails without any effect.
	Short int
	// Sticky > 0: the fault persists — the next Sticky operations of the same kind (write,
	// rename, sync, …) fail too, without effect (a full disk or a failing device does not
	// recover between two attempts; this is what reaches retry paths).
	Sticky int
}

// ErrInjected is the error returned by faulted operations (wraps ENOSPC).
var ErrInjected = &os.PathError{Op: "verif-fault", Path: "", Err: syscall.ENOSPC}

type session struct {
	root   string
	ops    []Op
	faults map[int]Fault
	sticky map[string]int // kind -> number of further operations of that kind that fail
	// counts of faults actually injected
	injected int
}

var (
	mu  sync.Mutex
	cur *session
)

// Start begins a recording session for paths below root.
func Start(root string, faults map[int]Fault) {
	mu.Lock()
	defer mu.Unlock()
	cur = &session{root: filepath.Clean(root), faults: faults}
}

// SetFaults replaces the fault plan of the running session (indices are
// absolute operation indices of the session).
func SetFaults(faults map[int]Fault) {
	mu.Lock()
	defer mu.Unlock()
	if cur != nil {
		cur.sticky = nil
		cur.faults = faults
	}
}

// Len returns the number of operations logged so far.
func Len() int {
	mu.Lock()
	defer mu.Unlock()
	if cur == nil {
		return 0
	}
	return len(cur.ops)
}

// Stop ends the session and returns its log and the number of injected faults.
func Stop() ([]Op, int) {
	mu.Lock()
	defer mu.Unlock()
	if cur == nil {
		return nil, 0
	}
	ops, n := cur.ops, cur.injected
	cur = nil
	return ops, n
}

// Active reports whether the package was really linked into the engine and a
// session is running (used by the harness to refuse to run uninstrumented).
func Active() bool {
	mu.Lock()
	defer mu.Unlock()
	return cur != nil
}

func rel(path string) (string, bool) {
	if cur == nil {
		return "", false
	}
	p := filepath.Clean(path)
	if p == cur.root {
		return ".", true
	}
	if strings.HasPrefix(p, cur.root+string(filepath.Separator)) {
		return p[len(cur.root)+1:], true
	}
	return "", false
}

// begin registers an operation; returns its fault (if any).
// Caller holds mu.
func begin(op Op) (idx int, f Fault, faulted bool) {
	idx = len(cur.ops)
	cur.ops = append(cur.ops, op)
	f, faulted = cur.faults[idx]
	if !faulted && cur.sticky[op.Kind] > 0 {
		cur.sticky[op.Kind]--
		f, faulted = Fault{}, true
	}
	if faulted {
		cur.injected++
		cur.ops[idx].Failed = true
		if f.Sticky > 0 {
			if cur.sticky == nil {
				cur.sticky = map[string]int{}
			}
			cur.sticky[op.Kind] = f.Sticky
		}
	}
	return
}

// ---------------------------------------------------------------------------
// package-level functions

func Create(name string) (*File, error) {
	return OpenFile(name, os.O_RDWR|os.O_CREATE|os.O_TRUNC, 0666)
}

func Open(name string) (*File, error) {
	f, err := os.Open(name)
	if err != nil {
		return nil, err
	}
	return &File{f: f, path: name}, nil
}

func OpenFile(name string, flag int, perm os.FileMode) (*File, error) {
	mu.Lock()
	r, ok := rel(name)
	mutating := flag&(os.O_CREATE|os.O_TRUNC|os.O_WRONLY|os.O_RDWR|os.O_APPEND) != 0
	if ok && mutating {
		kind := "open"
		if flag&os.O_TRUNC != 0 {
			kind = "create"
		}
		_, _, faulted := begin(Op{Kind: kind, Path: r, Flag: flag})
		if faulted {
			mu.Unlock()
			return nil, &os.PathError{Op: "open", Path: name, Err: syscall.ENOSPC}
		}
	}
	mu.Unlock()
	f, err := os.OpenFile(name, flag, perm)
	if err != nil {
		return nil, err
	}
	vf := &File{f: f, path: name, rel: r, tracked: ok && mutating, appendMode: flag&os.O_APPEND != 0}
	if flag&(os.O_WRONLY|os.O_RDWR) != 0 {
		vf.writer, vf.wgen = writerOpened(name)
	}
	return vf, nil
}

// ---------------------------------------------------------------------------
// write-handle accounting (independent of sessions and op logs; off unless WatchWriters(true))
//
// Counts, per cleaned absolute path, the write handles (O_WRONLY / O_RDWR) that are open right now and the maximum seen
// since the last WatchWriters(true). Used by the C18 check: two write handles on one swamp file at the same time = two
// instances appending to the same storage file. SetCloseDelay keeps every write handle open a little longer (the delay is
// taken inside Close, before the descriptor is released) to widen windows; it never fails anything.

var (
	wmu          sync.Mutex
	watching     bool
	openWriters  map[string]int
	maxWriters   map[string]int
	pathGen      map[string]int // bumped when the file at a path is removed / replaced: older handles refer to another (unlinked) file
	closeDelayUs int
)

// WatchWriters switches the accounting on (and clears it) or off.
func WatchWriters(on bool) {
	wmu.Lock()
	defer wmu.Unlock()
	watching = on
	openWriters, maxWriters, pathGen = map[string]int{}, map[string]int{}, map[string]int{}
	if !on {
		closeDelayUs = 0
	}
}

// SetCloseDelay makes Close of every write handle sleep us microseconds first (0 = off).
func SetCloseDelay(us int) {
	wmu.Lock()
	closeDelayUs = us
	wmu.Unlock()
}

// OpenWriters returns the number of write handles currently open on path.
func OpenWriters(path string) int {
	wmu.Lock()
	defer wmu.Unlock()
	return openWriters[filepath.Clean(path)]
}

// MaxOpenWriters returns the largest number of simultaneously open write handles seen on path.
func MaxOpenWriters(path string) int {
	wmu.Lock()
	defer wmu.Unlock()
	return maxWriters[filepath.Clean(path)]
}

func writerOpened(path string) (bool, int) {
	wmu.Lock()
	defer wmu.Unlock()
	if !watching {
		return false, 0
	}
	p := filepath.Clean(path)
	openWriters[p]++
	if openWriters[p] > maxWriters[p] {
		maxWriters[p] = openWriters[p]
	}
	return true, pathGen[p]
}

// writerPathGone: the file at path was removed or replaced by a rename; handles that are still open on it write to an
// unlinked file and no longer count for the path.
func writerPathGone(path string) {
	wmu.Lock()
	defer wmu.Unlock()
	if !watching {
		return
	}
	p := filepath.Clean(path)
	pathGen[p]++
	openWriters[p] = 0
}

func (f *File) writerClosing() {
	if !f.writer {
		return
	}
	wmu.Lock()
	d := closeDelayUs
	wmu.Unlock()
	if d > 0 {
		time.Sleep(time.Duration(d) * time.Microsecond)
	}
	wmu.Lock()
	if watching {
		p := filepath.Clean(f.path)
		if f.wgen == pathGen[p] && openWriters[p] > 0 {
			openWriters[p]--
		}
	}
	f.writer = false
	wmu.Unlock()
}

func Rename(oldpath, newpath string) error {
	mu.Lock()
	r1, ok1 := rel(oldpath)
	r2, ok2 := rel(newpath)
	if ok1 && ok2 {
		_, _, faulted := begin(Op{Kind: "rename", Path: r1, Path2: r2})
		if faulted {
			mu.Unlock()
			return &os.LinkError{Op: "rename", Old: oldpath, New: newpath, Err: syscall.ENOSPC}
		}
	}
	mu.Unlock()
	err := os.Rename(oldpath, newpath)
	if err == nil {
		writerPathGone(newpath)
		writerPathGone(oldpath)
	}
	return err
}

func Remove(name string) error {
	mu.Lock()
	r, ok := rel(name)
	if ok {
		if _, err := os.Lstat(name); err == nil {
			_, _, faulted := begin(Op{Kind: "remove", Path: r})
			if faulted {
				mu.Unlock()
				return &os.PathError{Op: "remove", Path: name, Err: syscall.EIO}
			}
		}
	}
	mu.Unlock()
	err := os.Remove(name)
	if err == nil {
		writerPathGone(name)
	}
	return err
}

func RemoveAll(path string) error {
	mu.Lock()
	r, ok := rel(path)
	if ok {
		if _, err := os.Lstat(path); err == nil {
			_, _, faulted := begin(Op{Kind: "removeall", Path: r})
			if faulted {
				mu.Unlock()
				return &os.PathError{Op: "removeall", Path: path, Err: syscall.EIO}
			}
		}
	}
	mu.Unlock()
	return os.RemoveAll(path)
}

func MkdirAll(path string, perm os.FileMode) error {
	mu.Lock()
	r, ok := rel(path)
	if ok {
		if _, err := os.Stat(path); err != nil {
			begin(Op{Kind: "mkdir", Path: r}) // never faulted: not part of the data path
		}
	}
	mu.Unlock()
	return os.MkdirAll(path, perm)
}

func Mkdir(path string, perm os.FileMode) error { return MkdirAll(path, perm) }

func Stat(name string) (os.FileInfo, error)  { return os.Stat(name) }
func Lstat(name string) (os.FileInfo, error) { return os.Lstat(name) }
func ReadFile(name string) ([]byte, error)   { return os.ReadFile(name) }
func ReadDir(name string) ([]os.DirEntry, error) {
	return os.ReadDir(name)
}

func WriteFile(name string, data []byte, perm os.FileMode) error {
	f, err := OpenFile(name, os.O_WRONLY|os.O_CREATE|os.O_TRUNC, perm)
	if err != nil {
		return err
	}
	_, err = f.Write(data)
	if err1 := f.Close(); err1 != nil && err == nil {
		err = err1
	}
	return err
}

func Truncate(name string, size int64) error {
	mu.Lock()
	r, ok := rel(name)
	if ok {
		_, _, faulted := begin(Op{Kind: "truncate", Path: r, Size: size})
		if faulted {
			mu.Unlock()
			return &os.PathError{Op: "truncate", Path: name, Err: syscall.EIO}
		}
	}
	mu.Unlock()
	return os.Truncate(name, size)
}

// ---------------------------------------------------------------------------
// File

type File struct {
	f          *os.File
	path       string
	rel        string
	tracked    bool
	appendMode bool
	writer     bool // counted by the write-handle accounting
	wgen       int  // generation of the path when the handle was opened (see writerPathGone)
}

func (f *File) Name() string               { return f.f.Name() }
func (f *File) Fd() uintptr                { return f.f.Fd() }
func (f *File) Stat() (os.FileInfo, error) { return f.f.Stat() }
func (f *File) Read(b []byte) (int, error) { return f.f.Read(b) }
func (f *File) ReadAt(b []byte, off int64) (int, error) {
	return f.f.ReadAt(b, off)
}
func (f *File) Seek(offset int64, whence int) (int64, error) { return f.f.Seek(offset, whence) }
func (f *File) ReadDir(n int) ([]fs.DirEntry, error)         { return f.f.ReadDir(n) }

func (f *File) logging() bool {
	if !f.tracked || cur == nil {
		return false
	}
	_, ok := rel(f.path)
	return ok
}

func (f *File) Write(b []byte) (int, error) {
	mu.Lock()
	if !f.logging() {
		mu.Unlock()
		return f.f.Write(b)
	}
	var off int64
	if f.appendMode {
		off, _ = f.f.Seek(0, io.SeekEnd)
	} else {
		off, _ = f.f.Seek(0, io.SeekCurrent)
	}
	idx, flt, faulted := begin(Op{Kind: "write", Path: f.rel, Off: off})
	if faulted {
		n := flt.Short
		if n > len(b) {
			n = len(b)
		}
		if n > 0 {
			f.f.Write(b[:n])
		}
		cur.ops[idx].Data = append([]byte(nil), b[:n]...)
		mu.Unlock()
		return n, &os.PathError{Op: "write", Path: f.path, Err: syscall.ENOSPC}
	}
	cur.ops[idx].Data = append([]byte(nil), b...)
	mu.Unlock()
	return f.f.Write(b)
}

func (f *File) WriteAt(b []byte, off int64) (int, error) {
	mu.Lock()
	if !f.logging() {
		mu.Unlock()
		return f.f.WriteAt(b, off)
	}
	idx, flt, faulted := begin(Op{Kind: "write", Path: f.rel, Off: off})
	if faulted {
		n := flt.Short
		if n > len(b) {
			n = len(b)
		}
		if n > 0 {
			f.f.WriteAt(b[:n], off)
		}
		cur.ops[idx].Data = append([]byte(nil), b[:n]...)
		mu.Unlock()
		return n, &os.PathError{Op: "write", Path: f.path, Err: syscall.ENOSPC}
	}
	cur.ops[idx].Data = append([]byte(nil), b...)
	mu.Unlock()
	return f.f.WriteAt(b, off)
}

func (f *File) WriteString(s string) (int, error) { return f.Write([]byte(s)) }

func (f *File) Truncate(size int64) error {
	mu.Lock()
	if f.logging() {
		_, _, faulted := begin(Op{Kind: "truncate", Path: f.rel, Size: size})
		if faulted {
			mu.Unlock()
			return &os.PathError{Op: "truncate", Path: f.path, Err: syscall.EIO}
		}
	}
	mu.Unlock()
	return f.f.Truncate(size)
}

func (f *File) Sync() error {
	mu.Lock()
	if f.logging() {
		_, _, faulted := begin(Op{Kind: "sync", Path: f.rel})
		if faulted {
			mu.Unlock()
			return &os.PathError{Op: "sync", Path: f.path, Err: syscall.EIO}
		}
	}
	mu.Unlock()
	return f.f.Sync()
}

func (f *File) Close() error {
	mu.Lock()
	if f.logging() {
		begin(Op{Kind: "close", Path: f.rel}) // close itself is never faulted
	}
	mu.Unlock()
	f.writerClosing()
	return f.f.Close()
}

// ---------------------------------------------------------------------------
// crash images

// Image is an in-memory file tree.
type Image map[string][]byte

// Apply applies one logged operation to the image. torn >= 0 limits a write to
// its first torn bytes.
func (im Image) Apply(op Op, torn int) {
	if op.Failed && op.Kind != "write" {
		return // a faulted non-write operation had no effect
	}
	switch op.Kind {
	case "create":
		im[op.Path] = []byte{}
	case "open":
		if _, ok := im[op.Path]; !ok && op.Flag&os.O_CREATE != 0 {
			im[op.Path] = []byte{}
		}
	case "write":
		d := op.Data
		if torn >= 0 && torn < len(d) {
			d = d[:torn]
		}
		b := im[op.Path]
		end := op.Off + int64(len(d))
		if int64(len(b)) < end {
			nb := make([]byte, end)
			copy(nb, b)
			b = nb
		} else {
			b = append([]byte(nil), b...)
		}
		copy(b[op.Off:], d)
		im[op.Path] = b
	case "truncate":
		b := im[op.Path]
		if int64(len(b)) > op.Size {
			im[op.Path] = append([]byte(nil), b[:op.Size]...)
		} else if int64(len(b)) < op.Size {
			nb := make([]byte, op.Size)
			copy(nb, b)
			im[op.Path] = nb
		}
	case "rename":
		if b, ok := im[op.Path]; ok {
			im[op.Path2] = b
			delete(im, op.Path)
		}
	case "remove":
		delete(im, op.Path)
	case "removeall":
		for p := range im {
			if p == op.Path || strings.HasPrefix(p, op.Path+"/") {
				delete(im, p)
			}
		}
	}
}

// Clone copies the tree (file contents are shared; Apply never mutates in place).
func (im Image) Clone() Image {
	c := make(Image, len(im))
	for k, v := range im {
		c[k] = v
	}
	return c
}

// WriteTo materialises the image below dir.
func (im Image) WriteTo(dir string) error {
	for p, b := range im {
		fp := filepath.Join(dir, p)
		if err := os.MkdirAll(filepath.Dir(fp), 0o755); err != nil {
			return err
		}
		if err := os.WriteFile(fp, b, 0o644); err != nil {
			return err
		}
	}
	return nil
}

// LoadImage reads an existing directory tree into an Image (starting state of a session).
func LoadImage(dir string) (Image, error) {
	im := Image{}
	err := filepath.Walk(dir, func(p string, info os.FileInfo, err error) error {
		if err != nil {
			return err
		}
		if info.IsDir() {
			return nil
		}
		b, err := os.ReadFile(p)
		if err != nil {
			return err
		}
		r, _ := filepath.Rel(dir, p)
		im[r] = b
		return nil
	})
	if errors.Is(err, os.ErrNotExist) {
		return im, nil
	}
	return im, err
}
