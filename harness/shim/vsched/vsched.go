// Package vsched provides schedule perturbation points. The instrumenter
// (cmd/instrument -kind vsched) inserts `vsched.Point("<file>:<func>:<n>:<op>")`
// before statements of the engine that take or release locks, wait on or signal
// condition variables, touch atomics / sync.Map, or communicate over channels,
// and injects this package into the hydraide module through a go build overlay
// (as github.com/hydraide/hydraide/app/verifshim/vsched). Nothing of it is
// committed to hydraide.
//
// With no plan active a Point is one atomic load. With a plan, the n-th hit of
// a site can yield, sleep, or pause until a named event happened (another site
// was passed, or the harness called Signal) — bounded by a maximum wait, so a
// plan can never deadlock a run by itself. The Go scheduler is not owned: the
// plan widens windows and makes narrow interleavings reproducible with high
// probability; it does not enumerate schedules.
package vsched

import (
	"runtime"
	"sort"
	"sync"
	"sync/atomic"
	"time"
)

// Action is one perturbation: at the Hit-th passage (1-based; 0 = every
// passage) of Site do Kind.
//
// A Site that ends in '*' is a prefix pattern ("guard.go:*", "beacon.go:SortBy*"): it
// matches every site with that prefix, and Hit counts the passages of ALL matching
// sites together (in the order the goroutines reach them). Such an action does not
// depend on the exact statement a site name was derived from, so it also reaches
// sites that a changed source file introduces.
type Action struct {
	Site      string `json:"site"`
	Hit       int    `json:"hit"`
	Kind      string `json:"kind"` // gosched | sleep | pause
	SleepUs   int    `json:"sleep_us,omitempty"`
	Until     string `json:"until,omitempty"`       // pause: event name; "site:<site>" = that site was passed (after activation)
	MaxWaitMs int    `json:"max_wait_ms,omitempty"` // pause: upper bound (default 200)
}

type plan struct {
	mu      sync.Mutex
	hits    map[string]int
	order   []string // first-hit order of sites (record mode)
	record  bool
	actions map[string][]Action
	prefix  []*prefixAction
	events  map[string]chan struct{}
	fired   []string
	paused  int32
}

type prefixAction struct {
	Action
	pre  string
	seen int
}

var cur atomic.Pointer[plan]

// Activate installs a plan. record=true additionally remembers the order in
// which sites were first hit.
func Activate(actions []Action, record bool) {
	p := &plan{hits: map[string]int{}, record: record, actions: map[string][]Action{}, events: map[string]chan struct{}{}}
	for _, a := range actions {
		if n := len(a.Site); n > 0 && a.Site[n-1] == '*' {
			p.prefix = append(p.prefix, &prefixAction{Action: a, pre: a.Site[:n-1]})
			continue
		}
		p.actions[a.Site] = append(p.actions[a.Site], a)
	}
	cur.Store(p)
}

// Report is what Deactivate returns.
type Report struct {
	Hits  map[string]int `json:"hits"`
	Order []string       `json:"order"`
	Fired []string       `json:"fired"` // "<site>#<hit>:<kind>" of actions that were executed
}

// Deactivate removes the plan, releases every paused goroutine and reports.
func Deactivate() Report {
	p := cur.Swap(nil)
	if p == nil {
		return Report{}
	}
	p.mu.Lock()
	defer p.mu.Unlock()
	for _, ch := range p.events {
		select {
		case <-ch:
		default:
			close(ch)
		}
	}
	r := Report{Hits: map[string]int{}, Order: append([]string(nil), p.order...), Fired: append([]string(nil), p.fired...)}
	for k, v := range p.hits {
		r.Hits[k] = v
	}
	return r
}

// Active reports whether a plan is installed (and hence whether the engine was
// built with the instrumentation overlay can be tested by observing hits).
func Active() bool { return cur.Load() != nil }

func (p *plan) event(name string) chan struct{} {
	ch, ok := p.events[name]
	if !ok {
		ch = make(chan struct{})
		p.events[name] = ch
	}
	return ch
}

// Signal marks a named event as happened.
func Signal(name string) {
	p := cur.Load()
	if p == nil {
		return
	}
	p.mu.Lock()
	ch := p.event(name)
	select {
	case <-ch:
	default:
		close(ch)
	}
	p.mu.Unlock()
}

// Happened reports whether the event was signalled.
func Happened(name string) bool {
	p := cur.Load()
	if p == nil {
		return false
	}
	p.mu.Lock()
	ch := p.event(name)
	p.mu.Unlock()
	select {
	case <-ch:
		return true
	default:
		return false
	}
}

// PausedNow returns how many goroutines are currently held in a pause action.
func PausedNow() int {
	p := cur.Load()
	if p == nil {
		return 0
	}
	return int(atomic.LoadInt32(&p.paused))
}

// Point is the instrumented yield point.
func Point(site string) {
	p := cur.Load()
	if p == nil {
		return
	}
	p.mu.Lock()
	p.hits[site]++
	n := p.hits[site]
	if n == 1 && p.record {
		p.order = append(p.order, site)
	}
	var act *Action
	for i := range p.actions[site] {
		a := &p.actions[site][i]
		if a.Hit == 0 || a.Hit == n {
			act = a
			break
		}
	}
	for _, pa := range p.prefix {
		if len(site) >= len(pa.pre) && site[:len(pa.pre)] == pa.pre {
			pa.seen++
			if act == nil && (pa.Hit == 0 || pa.Hit == pa.seen) {
				act = &pa.Action
			}
		}
	}
	// passing a site is an event others can wait for
	ch := p.event("site:" + site)
	select {
	case <-ch:
	default:
		close(ch)
	}
	var wait chan struct{}
	if act != nil {
		p.fired = append(p.fired, site+"#"+itoa(n)+":"+act.Kind)
		if act.Kind == "pause" {
			wait = p.event(act.Until)
		}
	}
	p.mu.Unlock()
	if act == nil {
		return
	}
	switch act.Kind {
	case "gosched":
		runtime.Gosched()
	case "sleep":
		time.Sleep(time.Duration(act.SleepUs) * time.Microsecond)
	case "pause":
		mw := act.MaxWaitMs
		if mw <= 0 {
			mw = 200
		}
		atomic.AddInt32(&p.paused, 1)
		t := time.NewTimer(time.Duration(mw) * time.Millisecond)
		select {
		case <-wait:
		case <-t.C:
		}
		t.Stop()
		atomic.AddInt32(&p.paused, -1)
	}
}

func itoa(n int) string {
	if n == 0 {
		return "0"
	}
	var b [20]byte
	i := len(b)
	for n > 0 {
		i--
		b[i] = byte('0' + n%10)
		n /= 10
	}
	return string(b[i:])
}

// SortedSites returns the sites of a report ordered by name (stable input for generators).
func SortedSites(r Report) []string {
	s := make([]string, 0, len(r.Hits))
	for k := range r.Hits {
		s = append(s, k)
	}
	sort.Strings(s)
	return s
}
