package addr

import (
	"fmt"
	"math"
	"path/filepath"
	"strconv"
	"strings"
	"sync"
	"testing"
	"unicode/utf8"

	appname "github.com/hydraide/hydraide/app/name"
	sdkname "github.com/hydraide/hydraide/sdk/go/hydraidego/v3/name"
	"pgregory.net/rapid"

	"verifharness/internal/pbt"
)

// C20 — Swamp addressing is deterministic, in range and SDK/server-consistent.

const c20DeepWitness = "hash-path-deeper-than-hex-hash"

// NameSpec is one name triple.
type NameSpec struct {
	S string `json:"s"`
	R string `json:"r"`
	W string `json:"w"`
}

func (n NameSpec) get() string { return n.S + "/" + n.R + "/" + n.W }

// Family derives many names from one base name without costing generator
// draws: counters appended to one part, every 3-way re-split of the
// concatenated parts (same island hash input, different canonical name), and
// the permutations of the three parts.
type Family struct {
	Base  int    `json:"base"`
	Kind  string `json:"kind"` // counter-s | counter-r | counter-w | shift | perm
	Count int    `json:"count"`
	Omit  []int  `json:"omit,omitempty"` // member indexes left out (open finding)
}

type C20Scenario struct {
	N        uint64     `json:"n"`     // island count used with both implementations (1..65535)
	BigN     uint64     `json:"big_n"` // island count > 65535, SDK only
	Depth    int        `json:"depth"`
	PerLevel int        `json:"per_level"`
	Root     string     `json:"root"`
	Root2    string     `json:"root2"`
	Island2  uint64     `json:"island2"`
	Names    []NameSpec `json:"names"`
	Families []Family   `json:"families,omitempty"`
}

func canonicalPart(p string) bool {
	return p != "" && p != "*" && !strings.Contains(p, "/")
}

func canonical(n NameSpec) bool {
	return canonicalPart(n.S) && canonicalPart(n.R) && canonicalPart(n.W)
}

func expandFamily(base NameSpec, f Family) []NameSpec {
	var out []NameSpec
	switch f.Kind {
	case "counter-s", "counter-r", "counter-w":
		for i := 0; i < f.Count; i++ {
			n := base
			switch f.Kind {
			case "counter-s":
				n.S += strconv.Itoa(i)
			case "counter-r":
				n.R += strconv.Itoa(i)
			default:
				n.W += strconv.Itoa(i)
			}
			out = append(out, n)
		}
	case "shift":
		rs := []rune(base.S + base.R + base.W)
	outer:
		for a := 1; a < len(rs)-1; a++ {
			for b := a + 1; b < len(rs); b++ {
				if len(out) >= f.Count {
					break outer
				}
				n := NameSpec{S: string(rs[:a]), R: string(rs[a:b]), W: string(rs[b:])}
				out = append(out, n)
			}
		}
	case "perm":
		p := [3]string{base.S, base.R, base.W}
		for _, ix := range [][3]int{{0, 2, 1}, {1, 0, 2}, {1, 2, 0}, {2, 0, 1}, {2, 1, 0}} {
			out = append(out, NameSpec{S: p[ix[0]], R: p[ix[1]], W: p[ix[2]]})
		}
	}
	return out
}

// expand returns every name of the scenario (explicit names, then the family
// members that are not omitted). Non-canonical derived members are dropped.
func (s C20Scenario) expand() []NameSpec {
	out := append([]NameSpec(nil), s.Names...)
	for _, f := range s.Families {
		if f.Base < 0 || f.Base >= len(s.Names) {
			continue
		}
		omit := map[int]bool{}
		for _, i := range f.Omit {
			omit[i] = true
		}
		for i, n := range expandFamily(s.Names[f.Base], f) {
			if omit[i] || !canonical(n) {
				continue
			}
			out = append(out, n)
		}
	}
	return out
}

func charsPerLevel(perLevel int) int {
	c := len(strconv.FormatInt(int64(perLevel-1), 16))
	if c < 2 {
		c = 2
	}
	return c
}

// deepTrigger: the documented trigger of the open finding — a hash level would
// start beyond the end of the unpadded hex hash of the name.
func deepTrigger(depth, cpl, hexDigits int) bool {
	return depth >= 1 && (depth-1)*cpl > hexDigits
}

var (
	c20Ns        = []uint64{1, 2, 100, 1000, 65535}
	c20BigNs     = []uint64{65536, 70000, 1 << 32, 1 << 63, math.MaxUint64}
	c20PerLevels = []int{1, 2, 16, 255, 256, 1000, 2000, 4096, 65536}
	c20Roots     = []string{"/hydraide/data", "/d", "/", "rel/data", "/a/b/", "/data/with space", "/x/1", "/x/1/2"}
	c20Islands2  = []uint64{1, 2, 999, 65535, 65536, 1 << 40, math.MaxUint64}
	c20Special   = []string{"ünï", "日本語", "😀", "a\x00b", " ", ".", "..", "%2F", "\\", "a*b", "**", "~", "\t", "é", " ", "0"}
)

var (
	genAlnumShort = rapid.StringMatching(`[a-zA-Z0-9]{1,12}`)
	alnumRunes    = []rune("abcdefghijklmnopqrstuvwxyzABCDEFGHIJKLMNOPQRSTUVWXYZ0123456789")
)

func genPart(t *rapid.T) string {
	var p string
	switch rapid.IntRange(0, 9).Draw(t, "partclass") {
	case 0, 1, 2, 3:
		p = genAlnumShort.Draw(t, "alnum")
	case 4:
		n := rapid.SampledFrom([]int{1, 2, 16, 64, 199, 200}).Draw(t, "alen")
		p = rapid.StringOfN(rapid.RuneFrom(alnumRunes), n, n, -1).Draw(t, "along")
	case 5, 6, 7:
		p = rapid.StringOfN(rapid.Rune(), 1, 40, 200).Draw(t, "utf8")
		p = strings.ReplaceAll(p, "/", "÷")
	default:
		p = rapid.SampledFrom(c20Special).Draw(t, "special")
	}
	if !utf8.ValidString(p) {
		p = strings.ToValidUTF8(p, "?")
	}
	if !canonicalPart(p) {
		p = "p" + strings.ReplaceAll(p, "/", "_")
	}
	return p
}

type c20Cfg struct {
	excludeDeep bool // open finding: keep every hash level inside the hex hash
	forceDeep   bool // witness: force the trigger
	malformed   bool // malformed-name facet
	famCounts   []int
}

func genMalformedPart(t *rapid.T) string {
	return rapid.SampledFrom([]string{"", "*", "a/b", "/", "//", "a/", "/a", "*/*", "a", "zz", "ü/"}).Draw(t, "mpart")
}

func genC20(cfg c20Cfg) func(t *rapid.T) C20Scenario {
	return func(t *rapid.T) C20Scenario {
		var s C20Scenario
		s.N = rapid.SampledFrom(c20Ns).Draw(t, "n")
		s.BigN = rapid.SampledFrom(c20BigNs).Draw(t, "bign")
		s.Depth = rapid.IntRange(0, 8).Draw(t, "depth")
		s.PerLevel = rapid.SampledFrom(c20PerLevels).Draw(t, "perlevel")
		ri := rapid.IntRange(0, len(c20Roots)-1).Draw(t, "root")
		s.Root = c20Roots[ri]
		s.Root2 = c20Roots[(ri+1+rapid.IntRange(0, len(c20Roots)-2).Draw(t, "root2"))%len(c20Roots)]
		s.Island2 = rapid.SampledFrom(c20Islands2).Draw(t, "island2")
		cpl := charsPerLevel(s.PerLevel)
		if cfg.forceDeep {
			// configurations whose deepest level starts beyond 16 hex digits
			c := rapid.SampledFrom([][2]int{{7, 1000}, {8, 2000}, {7, 4096}, {6, 65536}, {8, 65536}, {8, 1000}}).Draw(t, "deepcfg")
			s.Depth, s.PerLevel = c[0], c[1]
			cpl = charsPerLevel(s.PerLevel)
		}
		if cfg.excludeDeep {
			for deepTrigger(s.Depth, cpl, 16) {
				s.Depth--
			}
		}
		nn := rapid.IntRange(1, 40).Draw(t, "nnames")
		for i := 0; i < nn; i++ {
			var n NameSpec
			if cfg.malformed {
				n = NameSpec{genAlnumShort.Draw(t, "ms"), genAlnumShort.Draw(t, "mr"), genAlnumShort.Draw(t, "mw")}
				bad := rapid.IntRange(1, 7).Draw(t, "badmask")
				if bad&1 != 0 {
					n.S = genMalformedPart(t)
				}
				if bad&2 != 0 {
					n.R = genMalformedPart(t)
				}
				if bad&4 != 0 {
					n.W = genMalformedPart(t)
				}
			} else {
				n = NameSpec{genPart(t), genPart(t), genPart(t)}
			}
			if cfg.excludeDeep && deepTrigger(s.Depth, cpl, hexLen(xxh64([]byte(n.get())))) {
				// replace by a neighbour whose hash is long enough (by construction, no rejection)
				for k := 0; ; k++ {
					m := n
					m.W += "-" + strconv.Itoa(k)
					if !deepTrigger(s.Depth, cpl, hexLen(xxh64([]byte(m.get())))) {
						n = m
						break
					}
				}
			}
			s.Names = append(s.Names, n)
		}
		if !cfg.malformed {
			nf := rapid.IntRange(0, 3).Draw(t, "nfam")
			for i := 0; i < nf; i++ {
				f := Family{
					Base:  rapid.IntRange(0, len(s.Names)-1).Draw(t, "fbase"),
					Kind:  rapid.SampledFrom([]string{"counter-s", "counter-r", "counter-w", "counter-w", "shift", "shift", "perm"}).Draw(t, "fkind"),
					Count: rapid.SampledFrom(cfg.famCounts).Draw(t, "fcount"),
				}
				if cfg.excludeDeep {
					for j, m := range expandFamily(s.Names[f.Base], f) {
						if deepTrigger(s.Depth, cpl, hexLen(xxh64([]byte(m.get())))) {
							f.Omit = append(f.Omit, j)
						}
					}
				}
				s.Families = append(s.Families, f)
			}
		}
		return s
	}
}

// --- oracle ---------------------------------------------------------------

var c20NamesMain, c20NamesMalformed int

func isLowerHex(s string) bool {
	if s == "" {
		return false
	}
	for _, c := range s {
		if !(c >= '0' && c <= '9' || c >= 'a' && c <= 'f') {
			return false
		}
	}
	return true
}

func q(s string) string {
	if len(s) > 60 {
		return fmt.Sprintf("%q…(%d bytes)", s[:60], len(s))
	}
	return fmt.Sprintf("%q", s)
}

// hashPath calls GetFullHashPath and turns a panic into an outcome.
func hashPath(n appname.Name, root string, island uint64, depth, per int) (p string, fail *pbt.Outcome) {
	defer func() {
		if r := recover(); r != nil {
			o := pbt.Failf("panic", "GetFullHashPath(root=%q, island=%d, depth=%d, maxFoldersPerLevel=%d) on name %s panicked: %v",
				root, island, depth, per, q(n.Get()), r)
			fail = &o
		}
	}()
	return n.GetFullHashPath(root, island, depth, per), nil
}

func runC20(malformed bool) func(s C20Scenario) pbt.Outcome {
	return func(s C20Scenario) pbt.Outcome {
		names := s.expand()
		cpl := charsPerLevel(s.PerLevel)
		var out pbt.Outcome
		relOf := map[string]string{} // canonical name -> location below root/<island>/
		nameOf := map[string]string{}
		srvSanct := map[string]appname.Name{}
		sdkSanct := map[string]sdkname.Name{}
		var nonASCII, shortHash, fewerLevels, sameConcat bool
		concatSeen := map[string]string{}
		type resolved struct {
			nm     NameSpec
			island uint64
			path   string
		}
		var seq []resolved // what the sequential pass resolved every name to

		for _, nm := range names {
			get := nm.get()
			// builders: reuse the Sanctuary step across names (each step must return a fresh value)
			sb, ok := srvSanct[nm.S]
			if !ok {
				sb = appname.New().Sanctuary(nm.S)
				srvSanct[nm.S] = sb
			}
			kb, ok := sdkSanct[nm.S]
			if !ok {
				kb = sdkname.New().Sanctuary(nm.S)
				sdkSanct[nm.S] = kb
			}
			a := sb.Realm(nm.R).Swamp(nm.W)
			k := kb.Realm(nm.R).Swamp(nm.W)
			if a.Get() != get || k.Get() != get {
				return pbt.Failf("get", "Get() of %s: server %s, SDK %s", q(get), q(a.Get()), q(k.Get()))
			}
			if a.GetSanctuaryID() != nm.S || a.GetRealmName() != nm.R || a.GetSwampName() != nm.W {
				return pbt.Failf("get", "parts of %s read back as %q/%q/%q", q(get), a.GetSanctuaryID(), a.GetRealmName(), a.GetSwampName())
			}

			// --- island: SDK == server, in [1,N], stable, same for fresh and loaded objects
			isk := k.GetIslandID(s.N)
			isv := uint64(a.GetFolderNumber(uint16(s.N)))
			if isk < 1 || isk > s.N {
				return pbt.Failf("range", "SDK GetIslandID(%d) of %s = %d, outside 1..%d", s.N, q(get), isk, s.N)
			}
			if isv < 1 || isv > s.N {
				return pbt.Failf("range", "server GetFolderNumber(%d) of %s = %d, outside 1..%d", s.N, q(get), isv, s.N)
			}
			if isk != isv {
				return pbt.Failf("sdk-server", "island of %s with N=%d: SDK %d, server %d", q(get), s.N, isk, isv)
			}
			if k.GetIslandID(s.N) != isk || uint64(a.GetFolderNumber(uint16(s.N))) != isv {
				return pbt.Failf("unstable", "second call on the same object gave another island for %s", q(get))
			}
			if !malformed {
				// Load(Get()) is only the same name for canonical parts (no '/' inside parts)
				if v := sdkname.Load(get).GetIslandID(s.N); v != isk {
					return pbt.Failf("unstable", "SDK island of %s: built %d, Load(Get()) %d (N=%d)", q(get), isk, v, s.N)
				}
				if v := uint64(appname.Load(get).GetFolderNumber(uint16(s.N))); v != isv {
					return pbt.Failf("unstable", "server island of %s: built %d, Load(Get()) %d (N=%d)", q(get), isv, v, s.N)
				}
			} else {
				// never-panics clause only
				sdkname.Load(get).GetIslandID(s.N)
				appname.Load(get).GetFolderNumber(uint16(s.N))
			}
			if v := sdkname.New().Sanctuary(nm.S).Realm(nm.R).Swamp(nm.W).GetIslandID(s.BigN); v < 1 || v > s.BigN {
				return pbt.Failf("range", "SDK GetIslandID(%d) of %s = %d, outside 1..N", s.BigN, q(get), v)
			}

			// --- location
			p, f := hashPath(a, s.Root, isk, s.Depth, s.PerLevel)
			if f != nil {
				return *f
			}
			if p2 := a.GetFullHashPath(s.Root, isk, s.Depth, s.PerLevel); p2 != p {
				return pbt.Failf("unstable", "second GetFullHashPath on the same object: %q then %q", p, p2)
			}
			prefix := filepath.Join(s.Root, strconv.FormatUint(isk, 10))
			if !strings.HasSuffix(prefix, "/") {
				prefix += "/"
			}
			if !strings.HasPrefix(p, prefix) {
				return pbt.Failf("outside-root", "path %q of %s is not below %q", p, q(get), prefix)
			}
			rel := p[len(prefix):]
			comps := strings.Split(rel, "/")
			for _, c := range comps {
				if !isLowerHex(c) {
					return pbt.Failf("shape", "path %q of %s: component %q below root/<island>/ is not a hash folder", p, q(get), c)
				}
			}
			seq = append(seq, resolved{nm, isk, p})
			final := comps[len(comps)-1]
			levels := len(comps) - 1
			if levels > s.Depth {
				return pbt.Failf("levels", "path %q of %s has %d hash levels, depth is %d", p, q(get), levels, s.Depth)
			}
			if s.Depth*cpl <= len(final) && levels != s.Depth {
				return pbt.Failf("levels", "path %q of %s has %d hash levels, want %d (depth=%d, maxFoldersPerLevel=%d)", p, q(get), levels, s.Depth, s.Depth, s.PerLevel)
			}
			if levels < s.Depth {
				fewerLevels = true
			}
			if len(final) < 16 {
				shortHash = true
			}
			if malformed {
				continue
			}

			// fresh object built by Load(Get()) gives the same location
			pl, f := hashPath(appname.Load(get), s.Root, isk, s.Depth, s.PerLevel)
			if f != nil {
				return *f
			}
			if pl != p {
				return pbt.Failf("unstable", "path of %s: built object %q, Load(Get()) object %q", q(get), p, pl)
			}
			// metamorphic: only the root / only the island changes
			pr, f := hashPath(appname.Load(get), s.Root2, isk, s.Depth, s.PerLevel)
			if f != nil {
				return *f
			}
			if want := filepath.Join(s.Root2, strconv.FormatUint(isk, 10), rel); pr != want {
				return pbt.Failf("metamorphic", "name %s: root %q gives %q; root %q gives %q, want %q", q(get), s.Root, p, s.Root2, pr, want)
			}
			pi, f := hashPath(appname.New().Sanctuary(nm.S).Realm(nm.R).Swamp(nm.W), s.Root, s.Island2, s.Depth, s.PerLevel)
			if f != nil {
				return *f
			}
			if want := filepath.Join(s.Root, strconv.FormatUint(s.Island2, 10), rel); pi != want {
				return pbt.Failf("metamorphic", "name %s: island %d gives %q; island %d gives %q, want %q", q(get), isk, p, s.Island2, pi, want)
			}

			// injectivity of the construction within the batch
			if prev, ok := relOf[get]; ok {
				if prev != rel {
					return pbt.Failf("unstable", "the same name %s resolved to %q and to %q", q(get), prev, rel)
				}
			} else {
				if other, ok := nameOf[rel]; ok {
					return pbt.Failf("collision", "different names %s and %s resolve to the same location <root>/<island>/%s (depth=%d, maxFoldersPerLevel=%d)",
						q(other), q(get), rel, s.Depth, s.PerLevel)
				}
				relOf[get] = rel
				nameOf[rel] = get
			}
			cc := nm.S + nm.R + nm.W
			if o, ok := concatSeen[cc]; ok && o != get {
				sameConcat = true
			}
			concatSeen[cc] = get
			if !nonASCII {
				for i := 0; i < len(get); i++ {
					if get[i] >= 0x80 {
						nonASCII = true
						break
					}
				}
			}
		}

		if malformed {
			c20NamesMalformed += len(names)
			pbt.Extra("C20", "names_evaluated_malformed", c20NamesMalformed)
			out.NonTrivial = len(names) > 0
			out.Classes = append(out.Classes, "malformed")
			return out
		}
		// "pure functions of the name": resolving many names at the same moment from several
		// goroutines (fresh objects, as every request of a client process builds them) gives what
		// the sequential pass gave. Each goroutine walks the batch from its own offset.
		if len(seq) >= 2 {
			const workers = 8
			rounds := 1 + 64/len(seq)
			type bad struct {
				r      resolved
				what   string
				gotIsl uint64
				gotP   string
			}
			bads := make([]*bad, workers)
			var start, done sync.WaitGroup
			start.Add(1)
			for w := 0; w < workers; w++ {
				done.Add(1)
				go func(w int) {
					defer done.Done()
					start.Wait()
					for r := 0; r < rounds && bads[w] == nil; r++ {
						for i := range seq {
							x := seq[(i+w*len(seq)/workers)%len(seq)]
							k := sdkname.New().Sanctuary(x.nm.S).Realm(x.nm.R).Swamp(x.nm.W)
							a := appname.New().Sanctuary(x.nm.S).Realm(x.nm.R).Swamp(x.nm.W)
							if v := k.GetIslandID(s.N); v != x.island {
								bads[w] = &bad{r: x, what: "SDK GetIslandID", gotIsl: v}
								break
							}
							if v := uint64(a.GetFolderNumber(uint16(s.N))); v != x.island {
								bads[w] = &bad{r: x, what: "server GetFolderNumber", gotIsl: v}
								break
							}
							if v := a.GetFullHashPath(s.Root, x.island, s.Depth, s.PerLevel); v != x.path {
								bads[w] = &bad{r: x, what: "GetFullHashPath", gotP: v}
								break
							}
						}
					}
				}(w)
			}
			start.Done()
			done.Wait()
			for _, b := range bads {
				if b == nil {
					continue
				}
				if b.gotP != "" {
					return pbt.Failf("concurrent", "%s of %s evaluated while other goroutines resolve other names: %q, alone %q", b.what, q(b.r.nm.get()), b.gotP, b.r.path)
				}
				return pbt.Failf("concurrent", "%s(%d) of %s evaluated while other goroutines resolve other names: %d, alone %d", b.what, s.N, q(b.r.nm.get()), b.gotIsl, b.r.island)
			}
			c20Concurrent += workers * rounds * len(seq)
			pbt.Extra("C20", "names_resolved_concurrently", c20Concurrent)
			out.Classes = append(out.Classes, "concurrent-resolution")
		}
		c20NamesMain += len(names)
		pbt.Extra("C20", "names_evaluated", c20NamesMain)
		out.NonTrivial = nonASCII || s.Depth*cpl >= 14
		if nonASCII {
			out.Classes = append(out.Classes, "has-non-ascii-name")
		}
		if s.Depth*cpl >= 14 {
			out.Classes = append(out.Classes, "depth*chars>=14")
		}
		if s.Depth*cpl > 16 {
			out.Classes = append(out.Classes, "depth*chars>16")
		}
		if s.Depth == 0 {
			out.Classes = append(out.Classes, "depth-0")
		}
		if shortHash {
			out.Classes = append(out.Classes, "has-name-with-short-hex-hash")
		}
		if fewerLevels {
			out.Classes = append(out.Classes, "has-path-with-fewer-levels-than-depth")
		}
		if sameConcat {
			out.Classes = append(out.Classes, "has-names-with-equal-concatenation")
		}
		if len(names) >= 1000 {
			out.Classes = append(out.Classes, "batch>=1000")
		}
		out.Classes = append(out.Classes, fmt.Sprintf("N=%d", s.N))
		return out
	}
}

var c20Concurrent int

func c20FamCounts() []int {
	if pbt.GetEnv().Tier == "thorough" {
		return []int{5, 50, 500, 2000, 10000}
	}
	return []int{5, 50, 500, 2000}
}

const c20Rule = "batches of 1..40 drawn name triples (parts: alnum 1..12, alnum up to 200 bytes, arbitrary UTF-8 without '/' up to 200 bytes, " +
	"special strings) plus 0..3 derived families (counter suffixes, every 3-way re-split of the concatenated parts, part permutations; 5..2000 members); " +
	"N in {1,2,100,1000,65535} for SDK+server and N>65535 for the SDK; depth 0..8 x maxFoldersPerLevel in {1,2,16,255,256,1000,2000,4096,65536}; " +
	"per name: SDK island == server island in 1..N, repeated calls / builder reuse / Load(Get()) agree, GetFullHashPath does not panic, stays below root/<island>/, " +
	"has exactly depth hash levels whenever the hash has enough hex digits (never more), distinct names => distinct locations, changing only root or island changes only that prefix; " +
	"non-trivial = a name with a non-ASCII part or depth x chars-per-level >= 14; distinct = hash of the scenario"

func TestC20Main(t *testing.T) {
	cfg := c20Cfg{famCounts: c20FamCounts()}
	if pbt.Open("C20", c20DeepWitness) {
		cfg.excludeDeep = true
		pbt.Excluded("C20", "main", "(depth-1) x chars-per-level > number of hex digits of the name's unpadded hash (open finding)")
	}
	pbt.Main(t, pbt.Spec[C20Scenario]{
		ID: "C20", Facet: "main", Rule: c20Rule,
		Quick: 1500, Thorough: 40000,
		Gen: genC20(cfg), Run: runC20(false),
		Sample: c20Sample,
	})
}

func c20Sample(s C20Scenario) any {
	c := s
	if len(c.Names) > 3 {
		c.Names = c.Names[:3]
	}
	for i := range c.Families {
		if len(c.Families[i].Omit) > 5 {
			c.Families[i].Omit = c.Families[i].Omit[:5]
		}
	}
	return c
}

// Malformed names (empty parts, '/' inside parts, "*"): the SDK docs forbid
// them, so only the total-function clauses are asserted: nothing panics, the
// island stays in 1..N and equal between SDK and server (same hash input), the
// path stays below root/<island>/.
func TestC20Malformed(t *testing.T) {
	cfg := c20Cfg{malformed: true, famCounts: []int{5}}
	if pbt.Open("C20", c20DeepWitness) {
		cfg.excludeDeep = true
		pbt.Excluded("C20", "malformed", "(depth-1) x chars-per-level > number of hex digits of the name's unpadded hash (open finding)")
	}
	pbt.Main(t, pbt.Spec[C20Scenario]{
		ID: "C20", Facet: "malformed",
		Rule: "names with at least one malformed part (empty, '*', '/' inside) over the same configuration space; asserted: no panic, island in 1..N and SDK == server, " +
			"path below root/<island>/ made of hash folders, at most depth levels; non-trivial = every case",
		Quick: 600, Thorough: 20000,
		Gen: genC20(cfg), Run: runC20(true),
	})
}

// Witness of the open finding: hash levels that start beyond the unpadded hex hash.
func TestC20WitnessDeepHashPath(t *testing.T) {
	cfg := c20Cfg{forceDeep: true, famCounts: []int{5, 50}}
	pbt.Witness(t, pbt.Spec[C20Scenario]{
		ID: "C20", Facet: "witness-deep-hash-path",
		Rule:  "main generator with (depth, maxFoldersPerLevel) forced to {(7,1000),(8,1000),(8,2000),(7,4096),(6,65536),(8,65536)}: (depth-1) x chars-per-level > 16",
		Quick: 60, Thorough: 600,
		Gen: genC20(cfg), Run: runC20(false),
		Sample: c20Sample,
	}, c20DeepWitness, "panic")
}

// Short-hash variant of the same finding: a supported-looking configuration
// (depth x chars <= 16) panics only for names whose hash has leading zero
// digits. The names are searched with the harness' own XXH64.
type C20ShortHash struct {
	Depth    int    `json:"depth"`
	PerLevel int    `json:"per_level"`
	Prefix   string `json:"prefix"`
}

func TestC20WitnessShortHash(t *testing.T) {
	gen := func(t *rapid.T) C20ShortHash {
		c := rapid.SampledFrom([][2]int{{5, 65536}, {6, 4096}, {6, 1000}}).Draw(t, "cfg")
		return C20ShortHash{Depth: c[0], PerLevel: c[1], Prefix: genAlnumShort.Draw(t, "prefix")}
	}
	run := func(s C20ShortHash) pbt.Outcome {
		cpl := charsPerLevel(s.PerLevel)
		for i := 0; i < 200000; i++ {
			nm := NameSpec{S: "sh", R: s.Prefix, W: strconv.Itoa(i)}
			if !deepTrigger(s.Depth, cpl, hexLen(xxh64([]byte(nm.get())))) {
				continue
			}
			n := appname.New().Sanctuary(nm.S).Realm(nm.R).Swamp(nm.W)
			if _, f := hashPath(n, "/d", 1, s.Depth, s.PerLevel); f != nil {
				return *f
			}
			return pbt.Outcome{NonTrivial: true, Classes: []string{"short-hash-name-found"}}
		}
		return pbt.Outcome{Skip: true}
	}
	pbt.Witness(t, pbt.Spec[C20ShortHash]{
		ID: "C20", Facet: "witness-short-hash",
		Rule:  "depth x chars-per-level <= 16+chars (5x4, 6x3) with a name searched (own XXH64) so that its unpadded hex hash is shorter than (depth-1) x chars",
		Quick: 12, Thorough: 60,
		Gen: gen, Run: run,
	}, c20DeepWitness, "panic")
}
