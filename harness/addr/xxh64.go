// Package addr holds the checks for C20 (swamp addressing) and C21 (pattern
// settings resolution).
package addr

import (
	"encoding/binary"
	"math/bits"
	"strconv"
)

// An independent XXH64 (seed 0) written from the algorithm description. The
// C20 generator uses it to know, without calling hydraide, how many hex digits
// the *unpadded* hash of a name has (the trigger of an open finding must be
// excluded by construction), and the oracle uses it as a third opinion on the
// island number.

var (
	xp1 uint64 = 11400714785074694791
	xp2 uint64 = 14029467366897019727
	xp3 uint64 = 1609587929392839161
	xp4 uint64 = 9650029242287828579
	xp5 uint64 = 2870177450012600261
)

func xround(acc, in uint64) uint64 {
	acc += in * xp2
	acc = bits.RotateLeft64(acc, 31)
	return acc * xp1
}

func xmerge(acc, v uint64) uint64 {
	v = xround(0, v)
	acc ^= v
	return acc*xp1 + xp4
}

func xxh64(b []byte) uint64 {
	n := len(b)
	var h uint64
	if n >= 32 {
		v1 := xp1 + xp2
		v2 := xp2
		v3 := uint64(0)
		v4 := -xp1
		for len(b) >= 32 {
			v1 = xround(v1, binary.LittleEndian.Uint64(b[0:8]))
			v2 = xround(v2, binary.LittleEndian.Uint64(b[8:16]))
			v3 = xround(v3, binary.LittleEndian.Uint64(b[16:24]))
			v4 = xround(v4, binary.LittleEndian.Uint64(b[24:32]))
			b = b[32:]
		}
		h = bits.RotateLeft64(v1, 1) + bits.RotateLeft64(v2, 7) + bits.RotateLeft64(v3, 12) + bits.RotateLeft64(v4, 18)
		h = xmerge(h, v1)
		h = xmerge(h, v2)
		h = xmerge(h, v3)
		h = xmerge(h, v4)
	} else {
		h = xp5
	}
	h += uint64(n)
	for len(b) >= 8 {
		k := xround(0, binary.LittleEndian.Uint64(b[:8]))
		h ^= k
		h = bits.RotateLeft64(h, 27)*xp1 + xp4
		b = b[8:]
	}
	if len(b) >= 4 {
		h ^= uint64(binary.LittleEndian.Uint32(b[:4])) * xp1
		h = bits.RotateLeft64(h, 23)*xp2 + xp3
		b = b[4:]
	}
	for _, c := range b {
		h ^= uint64(c) * xp5
		h = bits.RotateLeft64(h, 11) * xp1
	}
	h ^= h >> 33
	h *= xp2
	h ^= h >> 29
	h *= xp3
	h ^= h >> 32
	return h
}

// hexLen is the number of digits of the unpadded lower-case hex rendering.
func hexLen(v uint64) int { return len(strconv.FormatUint(v, 16)) }
