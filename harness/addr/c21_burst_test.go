package addr

import (
	"fmt"
	"os"
	"path/filepath"
	"sync"
	"testing"

	"pgregory.net/rapid"

	"verifharness/internal/pbt"
)

// C21 (burst facet) — "the same settings apply after a restart", when registrations overlap in time.
//
// The gateway does not serialise RegisterSwamp calls, so two clients can register the same pattern
// with different values at the same moment. Whatever order the engine gives them, the values it
// answers lookups with afterwards must be the values it has persisted: a restarted settings object
// on the same root answers every lookup the same way. And the surviving values must be those of ONE
// of the racing registrations (or "not registered", if a deregistration raced too), never a mix.
//
// The reference for "values of registration i" is the implementation itself, used sequentially on a
// scratch root (differential: concurrent vs sequential use).

type C21Round struct {
	Pat   int       `json:"p"`
	Sets  []SetSpec `json:"sets"`  // one registration per goroutine
	Dereg bool      `json:"dereg"` // one more goroutine deregisters the pattern
}

type C21Burst struct {
	Patterns []PatSpec  `json:"patterns"`
	Rounds   []C21Round `json:"rounds"`
	Depth    int        `json:"depth"`
	PerLevel int        `json:"per_level"`
}

func genC21Burst(t *rapid.T) C21Burst {
	var s C21Burst
	s.Depth = rapid.IntRange(1, 3).Draw(t, "depth")
	s.PerLevel = rapid.SampledFrom([]int{10, 100, 2000}).Draw(t, "per")
	// pairwise disjoint literal patterns (overlapping patterns are the subject of a recorded finding)
	seen := map[string]bool{}
	n := rapid.IntRange(1, 4).Draw(t, "npat")
	for len(s.Patterns) < n {
		p := PatSpec{rapid.SampledFrom([]string{"s", "t"}).Draw(t, "ps"), rapid.SampledFrom([]string{"r", "q", "p"}).Draw(t, "pr"), rapid.SampledFrom([]string{"x", "y", "z"}).Draw(t, "pw")}
		if !seen[p.get()] {
			seen[p.get()] = true
			s.Patterns = append(s.Patterns, p)
		}
	}
	nr := rapid.IntRange(4, 16).Draw(t, "rounds")
	for i := 0; i < nr; i++ {
		r := C21Round{Pat: rapid.IntRange(0, n-1).Draw(t, "pat"), Dereg: rapid.IntRange(0, 5).Draw(t, "dereg") == 0}
		k := rapid.IntRange(2, 8).Draw(t, "k")
		for j := 0; j < k; j++ {
			r.Sets = append(r.Sets, genSet(t))
		}
		s.Rounds = append(s.Rounds, r)
	}
	return s
}

func runC21Burst(s C21Burst) pbt.Outcome {
	quietLogs()
	base, err := os.MkdirTemp("/dev/shm", "verif-c21b-")
	if err != nil {
		base, err = os.MkdirTemp("", "verif-c21b-")
		if err != nil {
			return pbt.Outcome{Skip: true}
		}
	}
	defer os.RemoveAll(base)
	root := filepath.Join(base, "a")
	// settings keeps the folder it saves to in a package-level variable that every settings.New
	// overwrites (one settings object per process is the engine's design). All reference objects on
	// scratch roots are therefore built FIRST; from then on only objects on `root` are created.
	type roundRef struct {
		cands        []resolved
		unregistered resolved
		differ       bool
	}
	refs := make([]roundRef, len(s.Rounds))
	for ri, rd := range s.Rounds {
		if rd.Pat < 0 || rd.Pat >= len(s.Patterns) || len(rd.Sets) == 0 {
			continue
		}
		pat := s.Patterns[rd.Pat]
		// sequential reference: what a lookup of the pattern's own name answers after registering set i alone
		for i, set := range rd.Sets {
			sc, f := newSettings(filepath.Join(base, fmt.Sprintf("ref-%d-%d", ri, i)), s.Depth, s.PerLevel)
			if f != nil {
				return *f
			}
			register(sc, pat, set)
			refs[ri].cands = append(refs[ri].cands, lookup(sc, pat, false))
		}
		scd, f := newSettings(filepath.Join(base, fmt.Sprintf("ref-%d-none", ri)), s.Depth, s.PerLevel)
		if f != nil {
			return *f
		}
		refs[ri].unregistered = lookup(scd, pat, false)
		for _, c := range refs[ri].cands[1:] {
			if c != refs[ri].cands[0] {
				refs[ri].differ = true
			}
		}
	}
	st, f := newSettings(root, s.Depth, s.PerLevel)
	if f != nil {
		return *f
	}
	var out pbt.Outcome
	distinctRounds := 0
	for ri, rd := range s.Rounds {
		if rd.Pat < 0 || rd.Pat >= len(s.Patterns) || len(rd.Sets) == 0 {
			continue
		}
		pat := s.Patterns[rd.Pat]
		cands, unregistered := refs[ri].cands, refs[ri].unregistered
		if refs[ri].differ {
			distinctRounds++
		}

		var start, done sync.WaitGroup
		start.Add(1)
		for _, set := range rd.Sets {
			done.Add(1)
			go func(set SetSpec) {
				defer done.Done()
				start.Wait()
				register(st, pat, set)
			}(set)
		}
		if rd.Dereg {
			done.Add(1)
			go func() {
				defer done.Done()
				start.Wait()
				st.DeregisterPattern(pat.name())
			}()
		}
		start.Done()
		done.Wait()

		live := lookup(st, pat, false)
		okCand := false
		for _, c := range cands {
			if c == live {
				okCand = true
			}
		}
		if rd.Dereg && live == unregistered {
			okCand = true
		}
		if !okCand {
			return pbt.Failf("mixed", "round %d: after %d concurrent registrations of %s (deregistration racing: %v) a lookup answers %s, which is the value of none of them (candidates %v, unregistered %s)",
				ri, len(rd.Sets), pat.get(), rd.Dereg, live, cands, unregistered)
		}
		st2, f := newSettings(root, s.Depth, s.PerLevel)
		if f != nil {
			return *f
		}
		for _, p := range s.Patterns {
			a, b := lookup(st, p, false), lookup(st2, p, false)
			if a != b {
				return pbt.Failf("restart-differs", "round %d: after %d concurrent registrations of %s (deregistration racing: %v) the running object answers %s for %s, a restarted object on the same root answers %s",
					ri, len(rd.Sets), pat.get(), rd.Dereg, a, p.get(), b)
			}
		}
		// carry on with the restarted object now and then, as a server restart would
		if ri%3 == 2 {
			st = st2
		}
	}
	out.NonTrivial = distinctRounds >= 2
	if distinctRounds > 0 {
		out.Classes = append(out.Classes, "racing-registrations-with-different-values")
	}
	for _, rd := range s.Rounds {
		if rd.Dereg {
			out.Classes = append(out.Classes, "deregistration-racing")
			break
		}
	}
	return out
}

func TestC21Burst(t *testing.T) {
	pbt.Main(t, pbt.Spec[C21Burst]{
		ID: "C21", Facet: "burst",
		Rule: "1–4 pairwise disjoint literal patterns; 4–16 rounds, each: 2–8 goroutines leave a barrier together and register the SAME pattern with drawn values (1 in 6 rounds: one more goroutine " +
			"deregisters it); after every round the running object's answer for the pattern must equal the answer of ONE racing registration alone (computed with the implementation used " +
			"sequentially on a scratch root) or 'not registered' if a deregistration raced, and a restarted object on the same root must answer every pattern like the running one; " +
			"non-trivial = at least 2 rounds whose racing registrations resolve to different values",
		Quick: 300, Thorough: 12000,
		Gen: genC21Burst, Run: runC21Burst,
	})
}
