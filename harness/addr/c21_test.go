package addr

import (
	"fmt"
	"io"
	"log/slog"
	"os"
	"path/filepath"
	"sort"
	"strings"
	"sync"
	"testing"
	"time"

	"github.com/hydraide/hydraide/app/core/settings"
	"github.com/hydraide/hydraide/app/core/settings/setting"
	appname "github.com/hydraide/hydraide/app/name"
	"pgregory.net/rapid"

	"verifharness/internal/pbt"
)

// C21 — Swamp settings resolve deterministically from registered patterns.

const c21OverlapWitness = "overlapping-patterns-map-order"

// PatSpec is a pattern (R and/or W may be "*") or a concrete name.
type PatSpec struct {
	S string `json:"s"`
	R string `json:"r"`
	W string `json:"w"`
}

func (p PatSpec) get() string        { return p.S + "/" + p.R + "/" + p.W }
func (p PatSpec) name() appname.Name { return appname.New().Sanctuary(p.S).Realm(p.R).Swamp(p.W) }

// matches: the documented meaning of a pattern — "*" stands for any realm /
// any swamp; the sanctuary is always literal.
func (p PatSpec) matches(n PatSpec) bool {
	return p.S == n.S && (p.R == "*" || p.R == n.R) && (p.W == "*" || p.W == n.W)
}

// moreSpecific: p is strictly more specific than o (every part of p is at
// least as literal as o's, and the patterns differ). `s/r/*` and `s/*/x` are
// incomparable.
func (p PatSpec) moreSpecific(o PatSpec) bool {
	if p == o || p.S != o.S {
		return false
	}
	rOK := p.R == o.R || o.R == "*"
	wOK := p.W == o.W || o.W == "*"
	return rOK && wOK
}

func overlap(p, o PatSpec) bool {
	return p.S == o.S && (p.R == o.R || p.R == "*" || o.R == "*") && (p.W == o.W || p.W == "*" || o.W == "*")
}

// SetSpec are the values of one registration (domain of the gateway's
// RegisterSwamp: idle/write interval >= 1 s, file size >= 1 byte).
type SetSpec struct {
	InMem    bool  `json:"mem,omitempty"`
	Idle     int64 `json:"idle"`
	WriteInt int64 `json:"wi"`
	MaxSize  int64 `json:"max"`
	FSGiven  bool  `json:"fs_given,omitempty"` // in-memory registration that still passes filesystem settings (documented as ignored)
}

type C21Op struct {
	Kind string  `json:"k"` // reg | dereg | restart
	Pat  int     `json:"p"`
	Set  SetSpec `json:"set"`
}

type C21Scenario struct {
	Patterns []PatSpec `json:"patterns"`
	Ops      []C21Op   `json:"ops"`
	Orders   [][]int   `json:"orders"` // permutations of pattern indexes: the final set is registered in each order on a fresh root
	Depth    int       `json:"depth"`
	PerLevel int       `json:"per_level"`
}

var (
	c21S = []string{"s", "s", "t"}
	c21R = []string{"r", "q"}
	c21W = []string{"x", "y"}
)

// every concrete name over the alphabet plus one realm / swamp no pattern names literally
func c21Names() []PatSpec {
	var out []PatSpec
	for _, s := range []string{"s", "t"} {
		for _, r := range []string{"r", "q", "p"} {
			for _, w := range []string{"x", "y", "z"} {
				out = append(out, PatSpec{s, r, w})
			}
		}
	}
	return out
}

func genSet(t *rapid.T) SetSpec {
	s := SetSpec{
		InMem:    rapid.IntRange(0, 9).Draw(t, "mem") < 4,
		Idle:     int64(rapid.IntRange(1, 4).Draw(t, "idle")),
		WriteInt: int64(rapid.IntRange(1, 3).Draw(t, "wi")),
		MaxSize:  rapid.SampledFrom([]int64{1, 4096, 65536, 1 << 30}).Draw(t, "max"),
	}
	if s.InMem {
		s.FSGiven = rapid.IntRange(0, 3).Draw(t, "fsgiven") == 0
	}
	return s
}

type c21Cfg struct {
	noOverlap    bool // open finding: the pattern universe of a scenario is pairwise disjoint
	forceOverlap bool // witness
}

func genC21(cfg c21Cfg) func(t *rapid.T) C21Scenario {
	return func(t *rapid.T) C21Scenario {
		var s C21Scenario
		s.Depth = rapid.SampledFrom([]int{1, 3}).Draw(t, "depth")
		s.PerLevel = rapid.SampledFrom([]int{1000, 2000}).Draw(t, "perlevel")
		want := rapid.IntRange(1, 8).Draw(t, "npatterns")
		seen := map[PatSpec]bool{}
		attempts, forms := want, 3
		if cfg.noOverlap {
			// disjoint universes: more candidates, biased to exact names, so that sets of 3+ patterns stay common
			attempts, forms = want*3, 7
		}
		for i := 0; i < attempts && len(s.Patterns) < want; i++ {
			p := PatSpec{S: rapid.SampledFrom(c21S).Draw(t, "ps")}
			switch rapid.IntRange(0, forms).Draw(t, "form") {
			case 0, 4, 5, 6, 7: // exact
				p.R, p.W = rapid.SampledFrom(c21R).Draw(t, "pr"), rapid.SampledFrom(c21W).Draw(t, "pw")
			case 1: // swamp wildcard
				p.R, p.W = rapid.SampledFrom(c21R).Draw(t, "pr"), "*"
			case 2: // realm wildcard
				p.R, p.W = "*", rapid.SampledFrom(c21W).Draw(t, "pw")
			default:
				p.R, p.W = "*", "*"
			}
			if seen[p] {
				continue
			}
			if cfg.noOverlap {
				clash := false
				for o := range seen {
					if overlap(p, o) {
						clash = true
					}
				}
				if clash {
					continue
				}
			}
			seen[p] = true
			s.Patterns = append(s.Patterns, p)
		}
		if cfg.forceOverlap {
			// make sure two different patterns match s/r/x
			for _, p := range []PatSpec{{"s", "r", "x"}, {"s", "*", "*"}} {
				if !seen[p] {
					seen[p] = true
					s.Patterns = append(s.Patterns, p)
				}
			}
		}
		np := len(s.Patterns)
		idx := make([]int, np)
		for i := range idx {
			idx[i] = i
		}
		// history: every pattern once in a drawn order, then re-registrations
		// (changed / unchanged), deregistrations and restarts
		last := map[int]SetSpec{}
		for _, i := range rapid.Permutation(idx).Draw(t, "order0") {
			set := genSet(t)
			if cfg.forceOverlap && s.Patterns[i] == (PatSpec{"s", "*", "*"}) {
				set.InMem = true
			}
			if cfg.forceOverlap && s.Patterns[i] == (PatSpec{"s", "r", "x"}) {
				set.InMem = false
			}
			last[i] = set
			s.Ops = append(s.Ops, C21Op{Kind: "reg", Pat: i, Set: set})
			if rapid.IntRange(0, 7).Draw(t, "earlyrestart") == 0 {
				s.Ops = append(s.Ops, C21Op{Kind: "restart"})
			}
		}
		extra := rapid.IntRange(0, 12).Draw(t, "nextra")
		for k := 0; k < extra; k++ {
			c := rapid.IntRange(0, 99).Draw(t, "opclass")
			switch {
			case c < 55:
				i := rapid.IntRange(0, np-1).Draw(t, "regpat")
				var set SetSpec
				if prev, ok := last[i]; ok && rapid.IntRange(0, 3).Draw(t, "unchanged") == 0 {
					set = prev
				} else {
					set = genSet(t)
				}
				last[i] = set
				s.Ops = append(s.Ops, C21Op{Kind: "reg", Pat: i, Set: set})
			case c < 72:
				if cfg.forceOverlap {
					s.Ops = append(s.Ops, C21Op{Kind: "restart"})
					continue
				}
				i := rapid.IntRange(0, np-1).Draw(t, "deregpat")
				delete(last, i)
				s.Ops = append(s.Ops, C21Op{Kind: "dereg", Pat: i})
			default:
				s.Ops = append(s.Ops, C21Op{Kind: "restart"})
			}
		}
		no := rapid.IntRange(1, 3).Draw(t, "norders")
		for k := 0; k < no; k++ {
			s.Orders = append(s.Orders, rapid.Permutation(idx).Draw(t, "order"))
		}
		return s
	}
}

// --- execution and oracle --------------------------------------------------

var quietOnce sync.Once

func quietLogs() {
	quietOnce.Do(func() {
		slog.SetDefault(slog.New(slog.NewTextHandler(io.Discard, &slog.HandlerOptions{Level: slog.Level(100)})))
	})
}

// resolved is what one lookup answered.
type resolved struct {
	Pattern string
	Type    setting.SwampType
	Idle    time.Duration
	WriteIn time.Duration
	MaxSize int64
}

func (r resolved) String() string {
	return fmt.Sprintf("{pattern %s %s idle=%s write=%s max=%d}", r.Pattern, r.Type, r.Idle, r.WriteIn, r.MaxSize)
}

func lookup(st settings.Settings, n PatSpec, viaLoad bool) resolved {
	var nm appname.Name
	if viaLoad {
		nm = appname.Load(n.get())
	} else {
		nm = n.name()
	}
	g := st.GetBySwampName(nm)
	return resolved{Pattern: g.GetPattern().Get(), Type: g.GetSwampType(), Idle: g.GetCloseAfterIdle(), WriteIn: g.GetWriteInterval(), MaxSize: g.GetMaxFileSizeByte()}
}

func register(st settings.Settings, p PatSpec, set SetSpec) {
	var fs *settings.FileSystemSettings
	if !set.InMem || set.FSGiven {
		fs = &settings.FileSystemSettings{WriteIntervalSec: set.WriteInt, MaxFileSizeByte: set.MaxSize}
	}
	st.RegisterPattern(p.name(), set.InMem, set.Idle, fs)
}

const c21Lookups = 64

type c21Run struct {
	patterns []PatSpec
	names    []PatSpec
	// evidence
	defaults    map[string]resolved // answers of an object with nothing registered
	overlapDiff bool                // some name matched by >= 2 registered patterns with different settings
	incomparble bool
}

// check resolves every concrete name against one settings object and judges
// the answers with the model (pattern index -> last registered values).
// It returns the answers for cross-object comparisons.
func (r *c21Run) check(stage string, st settings.Settings, model map[int]SetSpec) (map[string]resolved, *pbt.Outcome) {
	res := map[string]resolved{}
	registered := map[string]int{}
	for i := range model {
		registered[r.patterns[i].get()] = i
	}
	for _, n := range r.names {
		first := lookup(st, n, false)
		for k := 1; k < c21Lookups; k++ {
			g := lookup(st, n, k%2 == 1)
			if g != first {
				o := pbt.Failf("nondeterministic", "%s: GetBySwampName(%s) answered %v and then %v with no registration in between (call %d of %d)",
					stage, n.get(), first, g, k+1, c21Lookups)
				return nil, &o
			}
		}
		res[n.get()] = first
		// matching registered patterns and the maximal (most specific) ones among them
		var match []int
		for i := range model {
			if r.patterns[i].matches(n) {
				match = append(match, i)
			}
		}
		sort.Ints(match)
		if len(match) == 0 {
			// no pattern applies: the answer must be what an object with nothing registered gives
			if d, ok := r.defaults[n.get()]; ok && first != d {
				o := pbt.Failf("wrong-pattern", "%s: no registered pattern matches %s, yet the lookup answered %v (with nothing registered: %v)", stage, n.get(), first, d)
				return nil, &o
			}
			continue
		}
		wi, isReg := registered[first.Pattern]
		if !isReg || !r.patterns[wi].matches(n) {
			o := pbt.Failf("wrong-pattern", "%s: %s is matched by registered pattern(s) %s, but the lookup answered %v", stage, n.get(), r.patNames(match), first)
			return nil, &o
		}
		var maximal []int
		for _, i := range match {
			dominated := false
			for _, j := range match {
				if r.patterns[j].moreSpecific(r.patterns[i]) {
					dominated = true
				}
			}
			if !dominated {
				maximal = append(maximal, i)
			}
		}
		isMax := false
		for _, i := range maximal {
			if i == wi {
				isMax = true
			}
		}
		if !isMax {
			o := pbt.Failf("not-most-specific", "%s: %s is matched by %s; most specific: %s; the lookup answered the less specific %v",
				stage, n.get(), r.patNames(match), r.patNames(maximal), first)
			return nil, &o
		}
		// values = last registration of the winning pattern
		want := model[wi]
		bad := ""
		switch {
		case want.InMem && first.Type != setting.InMemorySwamp:
			bad = "type"
		case !want.InMem && first.Type != setting.PermanentSwamp:
			bad = "type"
		case first.Idle != time.Duration(want.Idle)*time.Second:
			bad = "close-after-idle"
		case !want.InMem && first.WriteIn != time.Duration(want.WriteInt)*time.Second:
			bad = "write interval"
		case !want.InMem && first.MaxSize != want.MaxSize:
			bad = "max file size"
		}
		if bad != "" {
			o := pbt.Failf("last-registration", "%s: %s resolved to %v, but the last registration of %s was %+v (%s differs)", stage, n.get(), first, first.Pattern, want, bad)
			return nil, &o
		}
		if len(match) >= 2 {
			for _, i := range match[1:] {
				if model[i] != model[match[0]] {
					r.overlapDiff = true
				}
			}
			if len(maximal) >= 2 {
				r.incomparble = true
			}
		}
	}
	return res, nil
}

func (r *c21Run) patNames(ix []int) string {
	var s []string
	for _, i := range ix {
		s = append(s, r.patterns[i].get())
	}
	return "[" + strings.Join(s, " ") + "]"
}

func diffResolved(a, b map[string]resolved) string {
	keys := make([]string, 0, len(a))
	for k := range a {
		keys = append(keys, k)
	}
	sort.Strings(keys)
	for _, k := range keys {
		if a[k] != b[k] {
			return fmt.Sprintf("%s: %v vs %v", k, a[k], b[k])
		}
	}
	return ""
}

func newSettings(root string, depth, per int) (st settings.Settings, fail *pbt.Outcome) {
	defer func() {
		if r := recover(); r != nil {
			o := pbt.Failf("panic", "settings.New on root %s panicked: %v", root, r)
			fail = &o
		}
	}()
	if err := os.MkdirAll(root, 0o755); err != nil {
		panic(err)
	}
	// settings.New reads the root from the environment on every call
	os.Setenv("HYDRAIDE_ROOT_PATH", root)
	return settings.New(depth, per), nil
}

func runC21(open bool) func(s C21Scenario) pbt.Outcome {
	return func(s C21Scenario) pbt.Outcome {
		quietLogs()
		base, err := os.MkdirTemp("/dev/shm", "verif-c21-")
		if err != nil {
			base, err = os.MkdirTemp("", "verif-c21-")
			if err != nil {
				return pbt.Outcome{Skip: true}
			}
		}
		defer os.RemoveAll(base)
		r := &c21Run{patterns: s.Patterns, names: c21Names()}
		rootA := filepath.Join(base, "a")
		st, f := newSettings(rootA, s.Depth, s.PerLevel)
		if f != nil {
			return *f
		}
		model := map[int]SetSpec{}
		var restarts, changedRereg, sameRereg, deregs int
		cur, f := r.check("nothing registered", st, model)
		if f != nil {
			return *f
		}
		r.defaults = cur
		for i, op := range s.Ops {
			stage := fmt.Sprintf("after op %d (%s)", i, op.Kind)
			switch op.Kind {
			case "reg":
				if op.Pat < 0 || op.Pat >= len(s.Patterns) {
					continue
				}
				if prev, ok := model[op.Pat]; ok {
					if prev == op.Set {
						sameRereg++
					} else {
						changedRereg++
					}
				}
				register(st, s.Patterns[op.Pat], op.Set)
				model[op.Pat] = op.Set
				stage = fmt.Sprintf("after op %d (register %s %+v)", i, s.Patterns[op.Pat].get(), op.Set)
			case "dereg":
				if op.Pat < 0 || op.Pat >= len(s.Patterns) {
					continue
				}
				if _, ok := model[op.Pat]; ok {
					deregs++
				}
				st.DeregisterPattern(s.Patterns[op.Pat].name())
				delete(model, op.Pat)
				stage = fmt.Sprintf("after op %d (deregister %s)", i, s.Patterns[op.Pat].get())
			case "restart":
				st, f = newSettings(rootA, s.Depth, s.PerLevel)
				if f != nil {
					return *f
				}
				restarts++
			}
			res, f := r.check(stage, st, model)
			if f != nil {
				if op.Kind == "restart" && f.Shape != "nondeterministic" {
					f.Fail = "restart (settings.New on the same root): " + f.Fail
				}
				return *f
			}
			if op.Kind == "restart" && cur != nil {
				if d := diffResolved(cur, res); d != "" {
					return pbt.Failf("restart-differs", "%s: resolution changed across a restart: %s", stage, d)
				}
			}
			cur = res
		}
		// the same final set registered in other orders on fresh roots
		for k, ord := range s.Orders {
			root := filepath.Join(base, fmt.Sprintf("o%d", k))
			so, f := newSettings(root, s.Depth, s.PerLevel)
			if f != nil {
				return *f
			}
			var regd []string
			for _, i := range ord {
				if set, ok := model[i]; ok && i >= 0 && i < len(s.Patterns) {
					register(so, s.Patterns[i], set)
					regd = append(regd, s.Patterns[i].get())
				}
			}
			stage := fmt.Sprintf("final set registered in order %v on a fresh root", regd)
			res, f := r.check(stage, so, model)
			if f != nil {
				return *f
			}
			if cur != nil {
				if d := diffResolved(cur, res); d != "" {
					return pbt.Failf("order-dependent", "%s: resolution differs from the history-built object: %s", stage, d)
				}
			}
			// and once more after a restart of that root
			so2, f := newSettings(root, s.Depth, s.PerLevel)
			if f != nil {
				return *f
			}
			res2, f := r.check(stage+" + restart", so2, model)
			if f != nil {
				return *f
			}
			if d := diffResolved(res, res2); d != "" {
				return pbt.Failf("restart-differs", "%s: resolution changed across a restart: %s", stage, d)
			}
		}

		var out pbt.Outcome
		distinctSets := map[SetSpec]bool{}
		for _, v := range model {
			distinctSets[v] = true
		}
		if open {
			out.NonTrivial = len(model) >= 2 && len(distinctSets) >= 2 && changedRereg >= 1 && restarts >= 1
		} else {
			out.NonTrivial = r.overlapDiff
		}
		if r.overlapDiff {
			out.Classes = append(out.Classes, "name-matched-by>=2-patterns-with-different-settings")
		}
		if r.incomparble {
			out.Classes = append(out.Classes, "incomparable-most-specific-pair")
		}
		if restarts > 0 {
			out.Classes = append(out.Classes, "has-restart")
		}
		if changedRereg > 0 {
			out.Classes = append(out.Classes, "has-changed-reregistration")
		}
		if sameRereg > 0 {
			out.Classes = append(out.Classes, "has-unchanged-reregistration")
		}
		if deregs > 0 {
			out.Classes = append(out.Classes, "has-deregistration")
		}
		mem, per := false, false
		for _, v := range model {
			if v.InMem {
				mem = true
			} else {
				per = true
			}
		}
		if mem && per {
			out.Classes = append(out.Classes, "final-set-mixes-in-memory-and-persistent")
		}
		out.Classes = append(out.Classes, fmt.Sprintf("final-patterns=%d", len(model)))
		return out
	}
}

const c21RuleCommon = "1..8 patterns over sanctuaries {s,t}, realms {r,q,*}, swamps {x,y,*} (exact, s/r/*, s/*/x, s/*/*), each with drawn " +
	"(in-memory|persistent, idle 1..4 s, write interval 1..3 s, max file size); history = every pattern registered once in a drawn order, then 0..12 " +
	"re-registrations (changed/unchanged), deregistrations and restarts (settings.New on the same root); after EVERY step all 18 concrete names " +
	"({s,t}x{r,q,p}x{x,y,z}) are resolved 64 times: answers identical, the winner is a registered matching pattern that no other matching pattern is more specific than, " +
	"values = last registration of the winner, unchanged across restarts; finally the surviving set is registered in 1..3 other orders on fresh roots (+restart) " +
	"and must resolve identically; "

func TestC21Main(t *testing.T) {
	open := pbt.Open("C21", c21OverlapWitness)
	cfg := c21Cfg{noOverlap: open}
	rule := c21RuleCommon + "non-trivial = some name is matched by >= 2 registered patterns with different settings; distinct = hash of the scenario"
	if open {
		pbt.Excluded("C21", "main", "two registered patterns that can match the same swamp name (open finding: winner depends on map iteration order)")
		rule = c21RuleCommon + "WHILE the overlap finding is open the pattern universe of a scenario is pairwise disjoint and non-trivial = >= 2 registered patterns " +
			"with different settings AND >= 1 re-registration with changed values AND >= 1 restart; distinct = hash of the scenario"
	}
	pbt.Main(t, pbt.Spec[C21Scenario]{
		ID: "C21", Facet: "main", Rule: rule,
		Quick: 2500, Thorough: 150000,
		Gen: genC21(cfg), Run: runC21(open),
	})
}

// Witness of the open finding: overlapping patterns.
func TestC21WitnessOverlap(t *testing.T) {
	pbt.Witness(t, pbt.Spec[C21Scenario]{
		ID: "C21", Facet: "witness-overlap",
		Rule: "main generator without the disjointness restriction, with s/r/x (persistent) and s/*/* (in-memory) forced into the set and never deregistered; " +
			"expected: the winner flips between calls / orders / restarts or is not the most specific pattern",
		Quick: 150, Thorough: 3000,
		Gen: genC21(c21Cfg{forceOverlap: true}), Run: runC21(false),
	}, c21OverlapWitness, "nondeterministic", "not-most-specific", "order-dependent", "restart-differs")
}
