package probe

import (
	"context"
	"testing"

	hydrapb "github.com/hydraide/hydraide/sdk/go/hydraidego/v3/hydraidepbgo"
	"google.golang.org/protobuf/proto"
	"verifharness/internal/rig"
)

func TestProbe(t *testing.T) {
	r := rig.New(rig.Options{Patterns: []rig.Pattern{{Pattern: "p/w0/*", CloseAfterIdleSec: 600, WriteIntervalSec: 0}}})
	defer r.Cleanup()
	ctx := context.Background()
	sn := "p/w0/a"
	isl := rig.Island(sn)
	set := func(k, v string) {
		resp, err := r.G.Set(ctx, &hydrapb.SetRequest{Swamps: []*hydrapb.SwampRequest{{IslandID: isl, SwampName: sn, CreateIfNotExist: true, Overwrite: true,
			KeyValues: []*hydrapb.KeyValuePair{{Key: k, StringVal: proto.String(v)}}}}})
		t.Logf("set %s=%s: %v %v", k, v, resp.GetSwamps()[0].GetKeysAndStatuses(), err)
	}
	del := func(k string) {
		resp, err := r.G.Delete(ctx, &hydrapb.DeleteRequest{Swamps: []*hydrapb.DeleteRequest_SwampKeys{{IslandID: isl, SwampName: sn, Keys: []string{k}}}})
		t.Logf("del %s: %v %v", k, resp, err)
	}
	get := func() {
		resp, err := r.G.GetAll(ctx, &hydrapb.GetAllRequest{IslandID: isl, SwampName: sn})
		t.Logf("getall: %v %v", resp.GetTreasures(), err)
	}
	set("pin", "x")
	set("k1", "a")
	del("k1")
	set("k1", "b")
	get()
	r.CloseSwamp(sn)
	get()
	set("k1", "c")
	r.CloseSwamp(sn)
	get()
}
