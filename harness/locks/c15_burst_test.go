package locks

import (
	"fmt"
	"runtime"
	"sync"
	"sync/atomic"
	"testing"
	"time"

	"github.com/hydraide/hydraide/app/core/hydra/swamp/treasure"
	"github.com/hydraide/hydraide/app/core/hydra/swamp/treasure/guard"
	"pgregory.net/rapid"

	"verifharness/internal/pbt"
)

// C15 facet "burst": REAL concurrency between acquirers.
//
// A program is a list of rounds on one guard. In every round k goroutines
// (2..8, generated mix of waiting / non-waiting acquirers, generated stagger)
// leave a barrier together while the guard is free or held (generated). Every
// acquirer that is told it holds the guard (non-zero id) enters a harness
// critical section, checks CanExecute(id), holds for a generated tiny time and
// releases. A generated vsched plan (prefix actions on the instrumented sites
// of guard.go) delays chosen passages so that narrow windows inside
// StartTreasureGuard / ReleaseTreasureGuard are actually interleaved.
//
// Oracle (all sound under arbitrary scheduling delays):
//   - between StartTreasureGuard returning a non-zero id and the start of that
//     caller's ReleaseTreasureGuard the caller is the holder: the per-guard
//     counter of such callers never exceeds 1, and CanExecute(id) is nil;
//   - every waiting acquirer returns (bounded: curHangBound);
//   - a non-waiting acquire may return 0 only if some other caller's
//     acquire-to-release interval overlaps the call; a 0 with no overlap at all
//     means the guard was not free although nobody held or waited;
//   - after the round (everybody released) a fresh non-waiting acquire succeeds.

type C15PlanAct struct {
	Site    string `json:"site"`
	Hit     int    `json:"hit"`
	Kind    string `json:"kind"` // gosched | sleep
	SleepUs int    `json:"sleep_us,omitempty"`
}

type C15BurstActor struct {
	Wait      bool `json:"wait,omitempty"`
	StaggerUs int  `json:"stagger_us,omitempty"`
	HoldUs    int  `json:"hold_us,omitempty"` // 0 = runtime.Gosched only
}

type C15Round struct {
	Held         bool            `json:"held,omitempty"` // the guard is held by a separate holder when the barrier opens
	HolderHoldUs int             `json:"holder_hold_us,omitempty"`
	Actors       []C15BurstActor `json:"actors"`
}

type C15Burst struct {
	ViaTreasure bool         `json:"via_treasure,omitempty"`
	Rounds      []C15Round   `json:"rounds"`
	Plan        []C15PlanAct `json:"plan,omitempty"`
}

type burstRec struct {
	wait          bool
	t0, t1        time.Duration // StartTreasureGuard call interval
	id            int64
	relEnd        time.Duration // ReleaseTreasureGuard returned
	insideAtEntry int32
	canExec       string // "" = nil
	returned      bool
}

func spinFor(d time.Duration) {
	if d <= 0 {
		return
	}
	t := time.Now()
	for time.Since(t) < d {
	}
}

func runC15Burst(s C15Burst) pbt.Outcome {
	if len(s.Rounds) == 0 || len(s.Rounds) > 16 {
		return pbt.Outcome{Skip: true}
	}
	var g guard.Guard
	if s.ViaTreasure {
		g = treasure.New(nil)
	} else {
		g = guard.New()
	}
	base := time.Now()
	now := func() time.Duration { return time.Since(base) }
	canExec := func(id int64) (msg string) {
		defer func() {
			if r := recover(); r != nil {
				msg = fmt.Sprintf("panic: %v", r)
			}
		}()
		if err := g.CanExecute(guard.ID(id)); err != nil {
			return err.Error()
		}
		return ""
	}
	// bounded call helper: runs f in a goroutine, false when it does not return
	bounded := func(f func()) bool {
		done := make(chan struct{})
		go func() { f(); close(done) }()
		select {
		case <-done:
			return true
		case <-time.After(curHangBound()):
			hangSeen.Store(true)
			return false
		}
	}

	var racedFree, racedHeld, nTryZero, nGranted, totalFired int
	for ri, rd := range s.Rounds {
		k := len(rd.Actors)
		if k < 1 || k > 16 {
			return pbt.Outcome{Skip: true}
		}
		var inside atomic.Int32
		recs := make([]burstRec, k)
		var holder burstRec
		if rd.Held {
			var id int64
			holder.t0 = now()
			if !bounded(func() { id = int64(g.StartTreasureGuard(true)) }) {
				return pbt.Failf("hang", "round %d: StartTreasureGuard(true) on a guard nobody holds does not return", ri)
			}
			holder.t1, holder.id = now(), id
			if id == 0 {
				return pbt.Failf("zero-id", "round %d: StartTreasureGuard(true) returned 0", ri)
			}
			inside.Add(1)
		}
		planActivate(s.Plan)
		var ready, fin sync.WaitGroup
		gate := make(chan struct{})
		ready.Add(k)
		fin.Add(k)
		for i := range rd.Actors {
			go func(i int) {
				defer fin.Done()
				a := rd.Actors[i]
				r := &recs[i]
				r.wait = a.Wait
				ready.Done()
				<-gate
				spinFor(time.Duration(a.StaggerUs) * time.Microsecond)
				r.t0 = now()
				id := int64(g.StartTreasureGuard(a.Wait))
				r.t1 = now()
				r.id = id
				if id != 0 {
					r.insideAtEntry = inside.Add(1)
					r.canExec = canExec(id)
					if a.HoldUs > 0 {
						time.Sleep(time.Duration(a.HoldUs) * time.Microsecond)
					} else {
						runtime.Gosched()
					}
					inside.Add(-1)
					g.ReleaseTreasureGuard(guard.ID(id))
					r.relEnd = now()
				}
				r.returned = true
			}(i)
		}
		ready.Wait()
		close(gate)
		if rd.Held {
			spinFor(time.Duration(rd.HolderHoldUs) * time.Microsecond)
			inside.Add(-1)
			g.ReleaseTreasureGuard(guard.ID(holder.id))
			holder.relEnd = now()
		}
		joined := bounded(fin.Wait)
		_, fired := planDeactivate()
		totalFired += fired
		if !joined {
			var stuck []int
			for i := range recs {
				// racy read is fine: the goroutine is blocked or done
				if !recs[i].returned {
					stuck = append(stuck, i)
				}
			}
			return pbt.Failf("hang", "round %d: acquirers %v have not returned %v after the barrier although every holder released (guard held at barrier: %v)", ri, stuck, curHangBound(), rd.Held)
		}
		// --- oracle for the round
		for i := range recs {
			r := &recs[i]
			if r.id != 0 {
				nGranted++
				if r.insideAtEntry != 1 {
					return pbt.Failf("two-holders", "round %d: acquirer %d (waiting=%v) was handed the guard (id %d) while %d other caller(s) that had been handed it had not yet released", ri, i, r.wait, r.id, r.insideAtEntry-1)
				}
				if r.canExec != "" {
					return pbt.Failf("holder-lost", "round %d: acquirer %d (waiting=%v) was handed the guard (id %d) but CanExecute(%d) says: %s", ri, i, r.wait, r.id, r.id, r.canExec)
				}
				continue
			}
			if r.wait {
				return pbt.Failf("zero-id", "round %d: waiting acquirer %d returned id 0", ri, i)
			}
			nTryZero++
			overlap := rd.Held && holder.t0 <= r.t1 && holder.relEnd >= r.t0
			for j := range recs {
				o := &recs[j]
				if j != i && o.id != 0 && o.t0 <= r.t1 && o.relEnd >= r.t0 {
					overlap = true
				}
			}
			if !overlap {
				return pbt.Failf("try-refused", "round %d: non-waiting acquirer %d got 0 during [%v,%v] although no other caller was acquiring, holding or waiting at any instant of that interval", ri, i, r.t0, r.t1)
			}
		}
		// the guard must be free again
		var id int64
		if !bounded(func() { id = int64(g.StartTreasureGuard(false)) }) {
			return pbt.Failf("hang", "round %d: StartTreasureGuard(false) after the round does not return", ri)
		}
		if id == 0 {
			return pbt.Failf("not-free-after-round", "round %d: every acquirer has released, yet a fresh non-waiting acquire is refused (a ticket was left in the queue)", ri)
		}
		if m := canExec(id); m != "" {
			return pbt.Failf("holder-lost", "round %d: fresh non-waiting acquire after the round got id %d but CanExecute says: %s", ri, id, m)
		}
		g.ReleaseTreasureGuard(guard.ID(id))

		tries := 0
		for _, a := range rd.Actors {
			if !a.Wait {
				tries++
			}
		}
		if k >= 2 && tries >= 1 {
			if rd.Held {
				racedHeld++
			} else {
				racedFree++
			}
		}
	}
	out := pbt.Outcome{NonTrivial: racedFree > 0}
	cls := func(c bool, n string) {
		if c {
			out.Classes = append(out.Classes, n)
		}
	}
	cls(racedFree > 0, "race-on-free-guard-with-non-waiting")
	cls(racedHeld > 0, "race-on-held-guard-with-non-waiting")
	cls(nTryZero > 0, "non-waiting-refused")
	cls(totalFired > 0, "vsched-action-fired")
	cls(!vschedBuilt, "built-without-vsched")
	cls(s.ViaTreasure, "via-treasure")
	_ = nGranted
	return out
}

var c15BurstSites = []string{"guard:*", "guard:StartTreasureGuard:*", "guard:StartTreasureGuard:*", "guard:ReleaseTreasureGuard:*"}

func genC15Burst(t *rapid.T) C15Burst {
	var s C15Burst
	s.ViaTreasure = rapid.IntRange(0, 3).Draw(t, "via") == 0
	nr := rapid.IntRange(1, 4).Draw(t, "rounds")
	for r := 0; r < nr; r++ {
		var rd C15Round
		rd.Held = rapid.IntRange(0, 3).Draw(t, "held") == 0
		if rd.Held {
			rd.HolderHoldUs = rapid.IntRange(0, 300).Draw(t, "holderhold")
		}
		k := rapid.IntRange(2, 8).Draw(t, "k")
		mix := rapid.IntRange(0, 3).Draw(t, "mix") // 0 = all non-waiting, 1 = mostly non-waiting, 2 = half, 3 = mostly waiting
		for i := 0; i < k; i++ {
			var a C15BurstActor
			switch mix {
			case 0:
				a.Wait = false
			case 1:
				a.Wait = rapid.IntRange(0, 3).Draw(t, "w") == 0
			case 2:
				a.Wait = rapid.Bool().Draw(t, "w")
			default:
				a.Wait = rapid.IntRange(0, 3).Draw(t, "w") != 0
			}
			if rapid.IntRange(0, 2).Draw(t, "stag") == 0 {
				a.StaggerUs = rapid.IntRange(1, 100).Draw(t, "stagger")
			}
			if rapid.IntRange(0, 3).Draw(t, "holdk") != 0 {
				a.HoldUs = rapid.IntRange(50, 1000).Draw(t, "hold")
			}
			rd.Actors = append(rd.Actors, a)
		}
		s.Rounds = append(s.Rounds, rd)
	}
	np := rapid.IntRange(0, 4).Draw(t, "nplan")
	for i := 0; i < np; i++ {
		a := C15PlanAct{Site: rapid.SampledFrom(c15BurstSites).Draw(t, "site")}
		if rapid.IntRange(0, 3).Draw(t, "pk") == 0 {
			a.Kind, a.Hit = "gosched", rapid.IntRange(0, 12).Draw(t, "hit")
		} else {
			a.Kind, a.Hit = "sleep", rapid.IntRange(1, 12).Draw(t, "hit")
			a.SleepUs = rapid.IntRange(50, 500).Draw(t, "us")
		}
		s.Plan = append(s.Plan, a)
	}
	return s
}

const c15BurstRule = "rapid-generated programs of 1..4 rounds on one guard (guard.New() or treasure.New(nil)): per round 2..8 goroutines (generated mix of waiting / non-waiting acquirers, " +
	"stagger 0..100 us, hold Gosched or 50..1000 us) leave a barrier together on a free or held guard; 0..4 rapid-drawn vsched prefix actions (gosched / sleep 50..500 us at the n-th passage of " +
	"guard:*, guard:StartTreasureGuard:*, guard:ReleaseTreasureGuard:*), re-armed every round; oracle: never two callers between a non-zero StartTreasureGuard return and their release, " +
	"CanExecute(id) nil for them, every waiting acquirer returns, a non-waiting 0 only with an overlapping acquire/hold, guard free after the round; " +
	"non-trivial = at least one round in which >= 2 acquirers including a non-waiting one race for a free guard"

func TestC15Burst(t *testing.T) {
	if vschedBuilt {
		// harness self-check: the engine must really carry the instrumentation
		planActivate(nil)
		g := guard.New()
		g.ReleaseTreasureGuard(g.StartTreasureGuard(true))
		if hits, _ := planDeactivate(); hits == 0 {
			t.Fatalf("harness: built with -tags verifvsched but no vsched site in guard.go was hit — the vsched overlay is missing")
		}
	}
	pbt.Main(t, pbt.Spec[C15Burst]{
		ID: "C15", Facet: "burst", Rule: c15BurstRule,
		Quick: 3000, Thorough: 150000,
		Gen: genC15Burst, Run: runC15Burst,
	})
}
