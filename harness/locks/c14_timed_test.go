package locks

import (
	"context"
	"fmt"
	"runtime"
	"sort"
	"sync/atomic"
	"testing"
	"time"

	"github.com/hydraide/hydraide/app/core/hydra/lock"
	"pgregory.net/rapid"

	"verifharness/internal/pbt"
)

// C14 facet "timed": actors run their scripts concurrently with real TTLs,
// holds and context deadlines, so that Unlock races the TTL watchdog and
// cancellation races the hand-over. The controller only serialises the
// *arrival* of the first Lock call of every actor (next actor starts after the
// previous one is parked in lock.Lock's select or has returned).
//
// All assertions are one-sided inequalities between instants read from one
// monotonic clock; none of them can be broken by a scheduling delay:
//
//	grant(x)   <= ret(x)                       (Lock returns after the grant)
//	grant(x)   >= callStart(x)
//	release(x) >= min(start of the Unlock(key,id_x) call that returned nil,
//	                  grant(x) + ttl_x)        (timer is created after the grant)
//
// p "arrived before" a when p was observed parked, or had returned, before a's
// Lock call started. For such a pair (both granted) exclusivity + FIFO demand
// grant(a) >= release(p), hence ret(a) >= relLB(p). For pairs with unknown
// arrival order only overlap of the two *known-held* intervals is a violation.

type C14TActor struct {
	Key    int    `json:"key"`
	TTL    int    `json:"ttl"`            // ms
	Ctx    int    `json:"ctx,omitempty"`  // ms; 0 = no deadline
	Hold   int    `json:"hold,omitempty"` // ms
	End    string `json:"end"`            // unlock | abandon | twice | wrongkey | unknown | other
	Other  int    `json:"other,omitempty"`
	Rounds int    `json:"rounds,omitempty"` // 0/1 = one Lock, 2 = lock again afterwards and try the stale id
}

type C14Timed struct {
	Keys   int         `json:"keys"`
	Actors []C14TActor `json:"actors"`
}

type tLockEv struct {
	actor, round, key int
	ttl               time.Duration
	ctxMs             int
	tCtx              time.Duration
	callStart, ret    time.Duration
	arrivedBy         time.Duration // instant by which it is known to be enqueued (parked observed / returned)
	id                string
	err               error
	// derived
	lb, relLB, relLB0 time.Duration
}

type tUnlockEv struct {
	actor      int
	key        int
	id         string
	start, ret time.Duration
	err        error
	kind       string // own | again | wrongkey | unknown | other | stale
}

type boardEntry struct {
	key int
	id  string
}

func runC14Timed(s C14Timed) pbt.Outcome {
	n := len(s.Actors)
	if n < 1 || n > 16 || s.Keys < 1 || s.Keys > 8 {
		return pbt.Outcome{Skip: true}
	}
	l := lock.New()
	base := time.Now()
	now := func() time.Duration { return time.Since(base) }

	locks := make([][]*tLockEv, n)
	unlocks := make([][]tUnlockEv, n)
	board := make([]atomic.Pointer[boardEntry], n)
	done := make([]chan struct{}, n)
	first := make([]chan struct{}, n) // closed when the actor's first Lock has returned
	gids := make([]int64, n)
	parkedAt := make([]time.Duration, n)

	var totalBudget time.Duration
	for _, a := range s.Actors {
		r := a.Rounds
		if r < 1 {
			r = 1
		}
		totalBudget += time.Duration(r) * time.Duration(a.TTL+a.Hold+a.Ctx) * time.Millisecond
	}

	actor := func(i int) {
		defer close(done[i])
		a := s.Actors[i]
		key := a.Key % s.Keys
		rounds := a.Rounds
		if rounds < 1 {
			rounds = 1
		}
		if rounds > 2 {
			rounds = 2
		}
		var prevID string
		for rd := 0; rd < rounds; rd++ {
			ev := &tLockEv{actor: i, round: rd, key: key, ttl: time.Duration(a.TTL) * time.Millisecond, ctxMs: a.Ctx}
			ctx := context.Background()
			cancel := func() {}
			ev.tCtx = now()
			if a.Ctx > 0 {
				ctx, cancel = context.WithTimeout(ctx, time.Duration(a.Ctx)*time.Millisecond)
			}
			ev.callStart = now()
			id, err := l.Lock(ctx, keyName(key), ev.ttl)
			ev.ret = now()
			ev.id, ev.err = id, err
			ev.arrivedBy = ev.ret
			locks[i] = append(locks[i], ev)
			if rd == 0 {
				close(first[i])
			}
			if err != nil {
				cancel()
				continue
			}
			board[i].Store(&boardEntry{key, id})
			un := func(k int, id, kind string) error {
				u := tUnlockEv{actor: i, key: k, id: id, kind: kind, start: now()}
				u.err = l.Unlock(keyName(k), id)
				u.ret = now()
				unlocks[i] = append(unlocks[i], u)
				return u.err
			}
			if rd == 1 && prevID != "" {
				un(key, prevID, "stale")
			}
			if a.Hold > 0 {
				time.Sleep(time.Duration(a.Hold) * time.Millisecond)
			}
			switch a.End {
			case "unlock":
				un(key, id, "own")
			case "twice":
				un(key, id, "own")
				un(key, id, "again")
			case "wrongkey":
				un((key+1)%(s.Keys+1), id, "wrongkey") // key index s.Keys is never locked by anybody
				un(key, id, "own")
			case "unknown":
				un(key, fmt.Sprintf("00000000-0000-4000-8000-%012d", i), "unknown")
			case "other":
				if n > 1 {
					o := (i + 1 + a.Other%(n-1)) % n
					if b := board[o].Load(); b != nil {
						un(b.key, b.id, "other")
					}
				}
				un(key, id, "own")
			default: // abandon
			}
			cancel()
			prevID = id
		}
	}

	// serialised arrival
	for i := 0; i < n; i++ {
		done[i] = make(chan struct{})
		first[i] = make(chan struct{})
		gidc := make(chan int64, 1)
		go func(i int) {
			gidc <- goid()
			actor(i)
		}(i)
		gids[i] = <-gidc
		bo := newBackoff()
	wait:
		for {
			select {
			case <-first[i]:
				break wait
			default:
			}
			if parkedIn(gids[i], "select", lockFn) {
				parkedAt[i] = now() // read after the observation: the actor is enqueued by this instant
				break wait
			}
			if bo.elapsed() > curHangBound() {
				hangSeen.Store(true)
				return pbt.Failf("hang", "actor %d: first Lock call neither parked nor returned", i)
			}
			bo.wait()
		}
	}
	// join
	deadline := time.After(totalBudget + curHangBound())
	for i := 0; i < n; i++ {
		select {
		case <-done[i]:
		case <-deadline:
			hangSeen.Store(true)
			st := "?"
			if g, ok := snapshot(gids[i])[gids[i]]; ok {
				st = g.state
			}
			return pbt.Failf("hang", "actor %d (key k%d, ttl %dms, ctx %dms) has not finished %v after every TTL/hold/deadline of the scenario elapsed; goroutine state %q",
				i, s.Actors[i].Key%s.Keys, s.Actors[i].TTL, s.Actors[i].Ctx, curHangBound(), st)
		}
	}

	// ---- oracle ----
	var grants []*tLockEv
	var nCancel, nParked int
	for i := range locks {
		for _, ev := range locks[i] {
			if ev.round == 0 && parkedAt[i] > 0 {
				// observed parked at parkedAt (it may have returned since): enqueued by then
				if parkedAt[i] < ev.arrivedBy {
					ev.arrivedBy = parkedAt[i]
				}
			}
			if ev.err != nil {
				nCancel++
				if ev.ctxMs == 0 {
					return pbt.Failf("spurious-error", "actor %d: Lock(k%d) failed (%v) without any context deadline", i, ev.key, ev.err)
				}
				if ev.ret < ev.tCtx+time.Duration(ev.ctxMs)*time.Millisecond {
					return pbt.Failf("spurious-error", "actor %d: Lock(k%d) failed (%v) at %v, before its %dms context deadline (context created at %v)", i, ev.key, ev.err, ev.ret, ev.ctxMs, ev.tCtx)
				}
				continue
			}
			grants = append(grants, ev)
		}
		if parkedAt[i] > 0 {
			nParked++
		}
	}
	// successful unlocks per (key,id)
	type kid struct {
		key int
		id  string
	}
	nilUnlock := map[kid]tUnlockEv{}
	issued := map[kid]*tLockEv{}
	for _, g := range grants {
		issued[kid{g.key, g.id}] = g
	}
	var allUnlocks []tUnlockEv
	for i := range unlocks {
		allUnlocks = append(allUnlocks, unlocks[i]...)
	}
	for _, u := range allUnlocks {
		if u.err != nil {
			continue
		}
		k := kid{u.key, u.id}
		if _, ok := issued[k]; !ok {
			return pbt.Failf("bad-unlock-accepted", "actor %d: Unlock(k%d, %s) [%s] returned nil although that id was never granted for that key", u.actor, u.key, short(u.id), u.kind)
		}
		if prev, dup := nilUnlock[k]; dup {
			return pbt.Failf("bad-unlock-accepted", "Unlock(k%d, %s) returned nil twice (actor %d [%s] and actor %d [%s])", u.key, short(u.id), prev.actor, prev.kind, u.actor, u.kind)
		}
		nilUnlock[k] = u
	}
	sort.Slice(grants, func(i, j int) bool { return grants[i].callStart < grants[j].callStart })
	rel := func(g *tLockEv, lb time.Duration) time.Duration {
		r := lb + g.ttl
		if u, ok := nilUnlock[kid{g.key, g.id}]; ok && u.start < r {
			r = u.start
		}
		return r
	}
	var nExpired int
	for ai, a := range grants {
		a.lb = a.callStart
		for _, p := range grants[:ai] {
			if p.key == a.key && p.arrivedBy <= a.callStart && p.relLB > a.lb {
				a.lb = p.relLB
			}
		}
		a.relLB = rel(a, a.lb)
		a.relLB0 = rel(a, a.callStart)
		if _, ok := nilUnlock[kid{a.key, a.id}]; !ok {
			nExpired++
		}
		for _, p := range grants[:ai] {
			if p.key != a.key {
				continue
			}
			if p.arrivedBy <= a.callStart {
				if a.ret < p.relLB {
					return pbt.Failf("two-holders", "k%d: actor %d (arrived at >= %v) returned from Lock at %v, but actor %d, which arrived earlier (by %v) and was granted, cannot have released before %v (granted not before %v, ttl %v, successful Unlock started: %s)",
						a.key, a.actor, a.callStart, a.ret, p.actor, p.arrivedBy, p.relLB, p.lb, p.ttl, unlockStartStr(nilUnlock, p.key, p.id))
				}
			} else if a.ret < p.relLB0 && p.ret < a.relLB0 {
				return pbt.Failf("two-holders", "k%d: actor %d holds during [%v,%v) and actor %d holds during [%v,%v): the known tenures overlap",
					a.key, p.actor, p.ret, p.relLB0, a.actor, a.ret, a.relLB0)
			}
		}
	}
	// unlock results
	for _, u := range allUnlocks {
		switch u.kind {
		case "wrongkey", "unknown", "again":
			if u.err == nil {
				return pbt.Failf("bad-unlock-accepted", "actor %d: Unlock(k%d, %s) [%s] returned nil", u.actor, u.key, short(u.id), u.kind)
			}
		case "stale":
			// the actor's second grant on the same key arrived after the first one: the first id must be gone
			if u.err == nil {
				return pbt.Failf("bad-unlock-accepted", "actor %d: Unlock(k%d, id of its previous grant %s) returned nil after the actor had been granted the same key again", u.actor, u.key, short(u.id))
			}
		case "own":
			if u.err != nil {
				g := issued[kid{u.key, u.id}]
				if g == nil {
					continue
				}
				if u.ret >= g.lb+g.ttl {
					continue // may have expired
				}
				if o, ok := nilUnlock[kid{u.key, u.id}]; ok && o.start < u.ret {
					continue // somebody else unlocked it with the real id
				}
				return pbt.Failf("unlock-rejected", "actor %d: Unlock(k%d, own live id) returned %q at %v although the lock (granted not before %v, ttl %v) cannot have expired and nobody else unlocked it",
					u.actor, u.key, u.err, u.ret, g.lb, g.ttl)
			}
		}
	}

	out := pbt.Outcome{NonTrivial: maxParkedOnKey(s, parkedAt) >= 2 && (nExpired > 0 || nCancel > 0)}
	cls := func(c bool, n string) {
		if c {
			out.Classes = append(out.Classes, n)
		}
	}
	cls(maxParkedOnKey(s, parkedAt) >= 2, "three-or-more-queued-on-a-key")
	cls(nExpired > 0, "grant-ended-by-ttl")
	cls(nCancel > 0, "lock-timeout")
	cls(len(nilUnlock) > 0, "grant-ended-by-unlock")
	cls(len(grants) >= 3, "three-or-more-grants")
	return out
}

func unlockStartStr[K comparable](m map[K]tUnlockEv, key int, id string) string {
	for _, u := range m {
		if u.key == key && u.id == id {
			return u.start.String()
		}
	}
	return "none"
}

// maxParkedOnKey: largest number of actors observed parked (queued behind a
// holder) on one key at arrival time.
func maxParkedOnKey(s C14Timed, parkedAt []time.Duration) int {
	cnt := map[int]int{}
	m := 0
	for i, a := range s.Actors {
		if parkedAt[i] > 0 {
			cnt[a.Key%s.Keys]++
			if cnt[a.Key%s.Keys] > m {
				m = cnt[a.Key%s.Keys]
			}
		}
	}
	return m
}

func genC14Timed(t *rapid.T) C14Timed {
	var s C14Timed
	s.Keys = rapid.IntRange(1, 3).Draw(t, "keys")
	n := rapid.IntRange(2, 8).Draw(t, "actors")
	ends := []string{"unlock", "unlock", "abandon", "abandon", "twice", "wrongkey", "unknown", "other"}
	for i := 0; i < n; i++ {
		a := C14TActor{
			Key:  rapid.IntRange(0, s.Keys-1).Draw(t, "key"),
			TTL:  rapid.IntRange(5, 80).Draw(t, "ttl"),
			Hold: rapid.IntRange(0, 40).Draw(t, "hold"),
			End:  rapid.SampledFrom(ends).Draw(t, "end"),
		}
		if rapid.IntRange(0, 2).Draw(t, "hasctx") == 0 {
			a.Ctx = rapid.IntRange(1, 120).Draw(t, "ctx")
		}
		if a.End == "other" {
			a.Other = rapid.IntRange(0, 7).Draw(t, "other")
		}
		if rapid.IntRange(0, 3).Draw(t, "again") == 0 {
			a.Rounds = 2
		}
		// bias: holds around the TTL so that Unlock races the watchdog
		if rapid.IntRange(0, 3).Draw(t, "align") == 0 {
			a.Hold = a.TTL
		}
		s.Actors = append(s.Actors, a)
	}
	return s
}

const c14TimedRule = "rapid-generated concurrent scripts on lock.New(): 2..8 actors, 1..3 keys, each Lock(key, ttl 5..80 ms, optional ctx deadline 1..120 ms), hold 0..40 ms (often == ttl), " +
	"then unlock / abandon / unlock twice / unlock on the wrong key / unknown id / another actor's id, optionally a second round that first tries the stale id; " +
	"first Lock calls arrive in a known order (previous actor observed parked in lock.Lock's select or returned); one-sided timing oracle on one monotonic clock; " +
	"non-trivial = >= 2 actors observed queued behind a holder on one key and >= 1 grant ended by TTL or >= 1 lock timeout"

func TestC14Main(t *testing.T) {
	pbt.Main(t, pbt.Spec[C14Timed]{
		ID: "C14", Facet: "main", Rule: c14TimedRule,
		Quick: 250, Thorough: 12000,
		Gen: genC14Timed, Run: runC14Timed,
	})
}

// --- facet "churn": plain mutual exclusion under free concurrency -----------
//
// Workers lock/unlock a key in a tight loop with a non-expiring TTL, so the
// key's queue keeps becoming empty and non-empty again. Between Lock's return
// and the start of Unlock a worker is certainly the holder, so a per-key
// counter incremented/decremented inside that window must never exceed 1.

type C14Churn struct {
	Workers int  `json:"workers"`
	Keys    int  `json:"keys"`
	Iters   int  `json:"iters"`
	Yield   bool `json:"yield,omitempty"` // runtime.Gosched inside the critical section
}

func runC14Churn(s C14Churn) pbt.Outcome {
	if s.Workers < 1 || s.Workers > 32 || s.Keys < 1 || s.Keys > 8 || s.Iters < 1 || s.Iters > 100000 {
		return pbt.Outcome{Skip: true}
	}
	l := lock.New()
	inside := make([]atomic.Int32, s.Keys)
	var bad atomic.Pointer[string]
	done := make(chan struct{}, s.Workers)
	ctx, cancel := context.WithCancel(context.Background())
	defer cancel()
	for w := 0; w < s.Workers; w++ {
		go func(w int) {
			defer func() { done <- struct{}{} }()
			for i := 0; i < s.Iters && bad.Load() == nil; i++ {
				k := (w + i) % s.Keys
				id, err := l.Lock(ctx, keyName(k), c14Forever)
				if err != nil {
					if ctx.Err() == nil {
						m := fmt.Sprintf("worker %d: Lock(k%d) failed without cancellation: %v", w, k, err)
						bad.CompareAndSwap(nil, &m)
					}
					return
				}
				if n := inside[k].Add(1); n != 1 {
					m := fmt.Sprintf("worker %d iteration %d: %d workers are inside the critical section of k%d at once (non-expiring locks, nobody unlocked)", w, i, n, k)
					bad.CompareAndSwap(nil, &m)
				}
				if s.Yield {
					runtime.Gosched()
				}
				inside[k].Add(-1)
				if err := l.Unlock(keyName(k), id); err != nil {
					m := fmt.Sprintf("worker %d iteration %d: Unlock(k%d, own live id) failed: %v", w, i, k, err)
					bad.CompareAndSwap(nil, &m)
					return
				}
			}
		}(w)
	}
	deadline := time.After(curHangBound() + time.Duration(s.Workers*s.Iters)*50*time.Microsecond)
	for w := 0; w < s.Workers; w++ {
		select {
		case <-done:
		case <-deadline:
			hangSeen.Store(true)
			cancel()
			return pbt.Failf("hang", "churn: %d workers x %d iterations did not finish; a worker is blocked in Lock although every holder unlocks", s.Workers, s.Iters)
		}
	}
	if m := bad.Load(); m != nil {
		return pbt.Failf("two-holders", "%s", *m)
	}
	return pbt.Outcome{NonTrivial: s.Workers >= 3 && s.Iters >= 50, Classes: []string{fmt.Sprintf("keys-%d", s.Keys)}}
}

func TestC14Churn(t *testing.T) {
	pbt.Main(t, pbt.Spec[C14Churn]{
		ID: "C14", Facet: "churn",
		Rule: "2..8 workers x 20..400 iterations of Lock(non-expiring)/Unlock over 1..2 keys in free concurrency; a per-key counter held between Lock's return and Unlock's start must never exceed 1, " +
			"every Lock/Unlock must succeed and all workers must finish; non-trivial = >= 3 workers and >= 50 iterations",
		Quick: 150, Thorough: 6000,
		Gen: func(t *rapid.T) C14Churn {
			return C14Churn{
				Workers: rapid.IntRange(2, 8).Draw(t, "workers"),
				Keys:    rapid.IntRange(1, 2).Draw(t, "keys"),
				Iters:   rapid.IntRange(20, 400).Draw(t, "iters"),
				Yield:   rapid.Bool().Draw(t, "yield"),
			}
		},
		Run: runC14Churn,
	})
}
