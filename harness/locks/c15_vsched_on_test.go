//go:build verifvsched

package locks

import "github.com/hydraide/hydraide/app/verifshim/vsched"

// Built with the vsched overlay: guard.go carries vsched.Point calls before its
// lock / unlock / cond / atomic statements, and a plan can delay chosen passages.
const vschedBuilt = true

func planActivate(p []C15PlanAct) {
	acts := make([]vsched.Action, 0, len(p))
	for _, a := range p {
		acts = append(acts, vsched.Action{Site: a.Site, Hit: a.Hit, Kind: a.Kind, SleepUs: a.SleepUs})
	}
	vsched.Activate(acts, false)
}

// planDeactivate returns the number of site passages seen and actions fired.
func planDeactivate() (hits, fired int) {
	r := vsched.Deactivate()
	for _, n := range r.Hits {
		hits += n
	}
	return hits, len(r.Fired)
}
