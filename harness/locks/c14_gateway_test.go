package locks

import (
	"context"
	"fmt"
	"math"
	"os"
	"sync"
	"sync/atomic"
	"testing"
	"time"

	hydrapb "github.com/hydraide/hydraide/sdk/go/hydraidego/v3/hydraidepbgo"
	"pgregory.net/rapid"

	"verifharness/internal/pbt"
	"verifharness/internal/rig"
)

// C14 facet "gateway": the Lock / Unlock RPC handlers (in-process rig) with TTL
// boundary values. The handler raises every TTL <= 1000 ms to 1000 ms and
// ignores the cancellation of the request context while queued.
//
// A scenario is a chain: actor 0 locks a fresh key with TTL t0, actors 1..k
// queue behind it with TTLs t1..tk (each observed parked in lock.Lock's select
// before the next step). Then, holder after holder: nobody behind the holder
// may have been granted while the holder's lock is neither unlocked nor older
// than its effective TTL (one-sided: a lock granted not before lb cannot expire
// before lb+ttl); the holder's Unlock succeeds; the next actor is granted.
// Finally a fresh Lock on the key is granted at once.

const (
	c14GwOverflowFrom = int64(math.MaxInt64/int64(time.Millisecond)) + 1 // 9223372036855: first TTL (ms) whose conversion to time.Duration overflows
	c14GwWitness      = "gateway-ttl-overflow"
)

type C14GwActor struct {
	TTL   int64 `json:"ttl"`              // LockRequest.TTL in ms, any int64
	CtxMs int   `json:"ctx_ms,omitempty"` // request context deadline for a queued actor (0 = none); the handler is documented to ignore it
}

type C14Gateway struct {
	Actors []C14GwActor `json:"actors"`
}

// effective TTL the handler must apply, saturated at MaxInt64 ns ("never within any scenario").
func c14GwEff(ttl int64) time.Duration {
	if ttl <= 1000 {
		return time.Second
	}
	if ttl >= c14GwOverflowFrom {
		return time.Duration(math.MaxInt64)
	}
	return time.Duration(ttl) * time.Millisecond
}

func satAdd(a, b time.Duration) time.Duration {
	if b > time.Duration(math.MaxInt64)-a {
		return time.Duration(math.MaxInt64)
	}
	return a + b
}

var (
	c14GwRig    *rig.Rig
	c14GwOnce   sync.Once
	c14GwKeySeq atomic.Int64
)

type gwRes struct {
	id  string
	err error
	t   time.Duration
}

func runC14Gateway(s C14Gateway) pbt.Outcome {
	if len(s.Actors) < 1 || len(s.Actors) > 8 {
		return pbt.Outcome{Skip: true}
	}
	c14GwOnce.Do(func() { c14GwRig = rig.New(rig.Options{}) })
	g := c14GwRig.G
	key := fmt.Sprintf("c14-gw-%d-%d", os.Getpid(), c14GwKeySeq.Add(1))
	base := time.Now()
	now := func() time.Duration { return time.Since(base) }
	bg := context.Background()

	type actor struct {
		spec      C14GwActor
		res       chan gwRes
		gid       int64
		got       bool
		r         gwRes
		callStart time.Duration
		deadline  time.Duration // ctx deadline instant (0 = none)
		cancel    context.CancelFunc
		lb        time.Duration
		out       bool // left the chain (error return)
	}
	as := make([]*actor, len(s.Actors))
	poll := func(a *actor) {
		if a.got {
			return
		}
		select {
		case x := <-a.res:
			a.got, a.r = true, x
		default:
		}
	}
	unlock := func(id string) error {
		_, err := g.Unlock(bg, &hydrapb.UnlockRequest{Key: key, LockID: id})
		return err
	}
	defer func() {
		// best effort: let everybody through and release everything
		for round := 0; round < len(as)+1; round++ {
			for _, a := range as {
				if a == nil {
					continue
				}
				poll(a)
				if a.got && a.r.err == nil {
					_ = unlock(a.r.id)
				}
			}
			time.Sleep(time.Millisecond)
		}
		for _, a := range as {
			if a != nil && a.cancel != nil {
				a.cancel()
			}
		}
	}()
	start := func(i int) *actor {
		a := &actor{spec: s.Actors[i], res: make(chan gwRes, 1)}
		ctx := bg
		if a.spec.CtxMs > 0 && i > 0 {
			a.deadline = now() + time.Duration(a.spec.CtxMs)*time.Millisecond
			ctx, a.cancel = context.WithTimeout(bg, time.Duration(a.spec.CtxMs)*time.Millisecond)
		}
		gidc := make(chan int64, 1)
		a.callStart = now()
		go func() {
			gidc <- goid()
			resp, err := g.Lock(ctx, &hydrapb.LockRequest{Key: key, TTL: a.spec.TTL})
			r := gwRes{err: err, t: now()}
			if err == nil && resp != nil {
				r.id = resp.GetLockID()
			} else if err == nil {
				r.err = fmt.Errorf("nil response without error")
			}
			a.res <- r
		}()
		a.gid = <-gidc
		as[i] = a
		return a
	}
	// waits until a has returned or is parked in the select of lock.Lock
	settle := func(a *actor) bool {
		bo := newBackoff()
		for {
			poll(a)
			if a.got || parkedIn(a.gid, "select", lockFn) {
				poll(a)
				return true
			}
			if bo.elapsed() > curHangBound() {
				hangSeen.Store(true)
				return false
			}
			bo.wait()
		}
	}
	await := func(a *actor) bool {
		bo := newBackoff()
		for {
			poll(a)
			if a.got {
				return true
			}
			if bo.elapsed() > curHangBound() {
				hangSeen.Store(true)
				return false
			}
			bo.wait()
		}
	}
	desc := func(i int) string {
		return fmt.Sprintf("actor %d (LockRequest.TTL=%d ms, must be honoured as %v)", i, as[i].spec.TTL, c14GwEff(as[i].spec.TTL))
	}

	// arrival
	a0 := start(0)
	if !await(a0) {
		return pbt.Failf("hang", "Lock on a never used key does not return (TTL=%d)", a0.spec.TTL)
	}
	if a0.r.err != nil {
		return pbt.Failf("spurious-error", "Lock(TTL=%d) on a never used key failed: %v", a0.spec.TTL, a0.r.err)
	}
	a0.lb = a0.callStart
	for i := 1; i < len(s.Actors); i++ {
		a := start(i)
		if !settle(a) {
			return pbt.Failf("hang", "queued Lock call of actor %d neither parked nor returned", i)
		}
	}
	// the chain
	h := 0
	var overflowHolders, ctxIgnored int
	for h < len(as) {
		holder := as[h]
		// nobody behind the holder may have been granted
		next := -1
		for j := h + 1; j < len(as); j++ {
			a := as[j]
			if a.out {
				continue
			}
			poll(a)
			if a.got && a.r.err != nil {
				if a.deadline == 0 || a.r.t < a.deadline {
					return pbt.Failf("spurious-error", "queued Lock of actor %d failed (%v) without an elapsed request deadline", j, a.r.err)
				}
				a.out = true
				continue
			}
			if a.got {
				// granted while the holder has not unlocked: only legitimate after the holder's TTL
				if exp := satAdd(holder.lb, c14GwEff(holder.spec.TTL)); a.r.t < exp {
					return pbt.Failf("two-holders", "key %q: %s holds the lock (granted not before %v, not unlocked), yet actor %d was granted it at %v",
						key, desc(h), holder.lb, j, a.r.t)
				}
				// the holder expired: j is the new holder (anybody between must be out or granted+expired; not expected within a scenario)
				a.lb = satAdd(holder.lb, c14GwEff(holder.spec.TTL))
				next = j
				break
			}
			if next == -1 {
				next = -(j + 2) // first live waiter, not granted yet
			}
		}
		if next >= 0 {
			h = next
			continue
		}
		if holder.spec.TTL >= c14GwOverflowFrom {
			overflowHolders++
		}
		t0 := now()
		err := unlock(holder.r.id)
		t1 := now()
		if err != nil {
			if exp := satAdd(holder.lb, c14GwEff(holder.spec.TTL)); t1 < exp {
				return pbt.Failf("unlock-rejected", "key %q: Unlock of %s returned %q at %v although the lock (granted not before %v) cannot have expired",
					key, desc(h), err, t1, holder.lb)
			}
		}
		if next == -1 {
			break // nobody left behind
		}
		w := as[-next-2]
		if !await(w) {
			return pbt.Failf("hang", "key %q: %s was unlocked but the first waiter (actor %d) is still blocked in Lock", key, desc(h), -next-2)
		}
		if w.r.err != nil {
			if w.deadline == 0 || w.r.t < w.deadline {
				return pbt.Failf("spurious-error", "queued Lock of actor %d failed (%v) without an elapsed request deadline", -next-2, w.r.err)
			}
			w.out = true
			continue // same holder index is gone; find the next live waiter
		}
		if w.deadline != 0 && w.r.t >= w.deadline {
			ctxIgnored++
		}
		if err == nil {
			w.lb = t0
		} else {
			w.lb = satAdd(holder.lb, c14GwEff(holder.spec.TTL))
		}
		h = -next - 2
	}
	// the key must be free now
	probe := make(chan gwRes, 1)
	go func() {
		resp, err := g.Lock(bg, &hydrapb.LockRequest{Key: key, TTL: 1000})
		r := gwRes{err: err}
		if err == nil && resp != nil {
			r.id = resp.GetLockID()
		}
		probe <- r
	}()
	select {
	case r := <-probe:
		if r.err != nil {
			return pbt.Failf("spurious-error", "key %q: Lock after the chain failed: %v", key, r.err)
		}
		if err := unlock(r.id); err != nil {
			return pbt.Failf("unlock-rejected", "key %q: Unlock of the probe lock (1 s TTL, just granted) failed: %v", key, err)
		}
	case <-time.After(curHangBound()):
		hangSeen.Store(true)
		return pbt.Failf("hang", "key %q: every holder unlocked, yet a fresh Lock blocks", key)
	}

	out := pbt.Outcome{NonTrivial: len(as) >= 2}
	var floor, big bool
	for _, a := range s.Actors {
		if a.TTL <= 1000 {
			floor = true
		}
		if a.TTL > 1000000000 {
			big = true
		}
	}
	cls := func(c bool, n string) {
		if c {
			out.Classes = append(out.Classes, n)
		}
	}
	cls(floor, "ttl-at-or-below-floor")
	cls(big, "ttl-above-1e9-ms")
	cls(overflowHolders > 0, "holder-with-overflowing-ttl")
	cls(ctxIgnored > 0, "waiter-granted-after-its-request-deadline")
	return out
}

var c14GwBoundary = []int64{0, 1, 999, 1000, 1001, 2000, 60000, 9223372036854, 9223372036853, -1, -1000, math.MinInt64}
var c14GwOverflow = []int64{9223372036855, 9223372036856, math.MaxInt64 - 1, math.MaxInt64, 18446744073710 /* wraps to +0.45 ms */, 18446744073709 /* wraps to just below 0 */}

func genC14Gateway(overflow bool, forceOverflow bool) func(t *rapid.T) C14Gateway {
	return func(t *rapid.T) C14Gateway {
		var s C14Gateway
		n := rapid.IntRange(1, 4).Draw(t, "actors")
		for i := 0; i < n; i++ {
			var a C14GwActor
			switch c := rapid.IntRange(0, 9).Draw(t, "ttlclass"); {
			case c < 5:
				a.TTL = rapid.SampledFrom(c14GwBoundary).Draw(t, "ttl")
			case c < 7:
				a.TTL = rapid.Int64Range(1001, 10000000).Draw(t, "ttl")
			case c < 8:
				a.TTL = rapid.Int64Range(math.MinInt64, c14GwOverflowFrom-1).Draw(t, "ttl")
			default:
				if overflow {
					if rapid.Bool().Draw(t, "ovb") {
						a.TTL = rapid.SampledFrom(c14GwOverflow).Draw(t, "ttl")
					} else {
						a.TTL = rapid.Int64Range(c14GwOverflowFrom, math.MaxInt64).Draw(t, "ttl")
					}
				} else {
					a.TTL = rapid.Int64Range(c14GwOverflowFrom-1000, c14GwOverflowFrom-1).Draw(t, "ttl")
				}
			}
			if i > 0 && rapid.IntRange(0, 2).Draw(t, "hasctx") == 0 {
				a.CtxMs = rapid.IntRange(1, 30).Draw(t, "ctx")
			}
			s.Actors = append(s.Actors, a)
		}
		if forceOverflow {
			i := rapid.IntRange(0, n-1).Draw(t, "ovat")
			s.Actors[i].TTL = rapid.SampledFrom(c14GwOverflow).Draw(t, "ovttl")
		}
		return s
	}
}

const c14GwRule = "Gateway.Lock / Gateway.Unlock of the in-process rig on a fresh key per case: chain of 1..4 actors with LockRequest.TTL from boundary values " +
	"(0, 1, 999, 1000, 1001, 9223372036853/4 [largest values whose conversion to time.Duration does not overflow], negative, MinInt64) and random int64 values, " +
	"queued actors optionally with a 1..30 ms request deadline (documented to be ignored while queued); each queued call observed parked in lock.Lock's select; " +
	"holder after holder: nobody behind it is granted before lb+max(ttl,1000 ms), its Unlock succeeds, the next actor is granted, finally a fresh Lock succeeds at once; " +
	"non-trivial = at least one actor queued behind the first holder"

func c14GwStop(t *testing.T) {
	if c14GwRig != nil {
		c14GwRig.Stop(30 * time.Second)
	}
}

func TestC14Gateway(t *testing.T) {
	overflow := true
	if pbt.Open("C14", c14GwWitness) {
		overflow = false
		pbt.Excluded("C14", "gateway", fmt.Sprintf("LockRequest.TTL >= %d ms (duration conversion overflows; open finding)", c14GwOverflowFrom))
	}
	pbt.Main(t, pbt.Spec[C14Gateway]{
		ID: "C14", Facet: "gateway", Rule: c14GwRule,
		Quick: 400, Thorough: 20000,
		Gen: genC14Gateway(overflow, false), Run: runC14Gateway,
	})
}

func TestC14WitnessGatewayTTLOverflow(t *testing.T) {
	pbt.Witness(t, pbt.Spec[C14Gateway]{
		ID: "C14", Facet: "witness-gateway-ttl-overflow",
		Rule:  "gateway facet generator with one actor's LockRequest.TTL forced to a value >= 9223372036855 ms",
		Quick: 60, Thorough: 600,
		Gen: genC14Gateway(true, true), Run: runC14Gateway,
	}, c14GwWitness, "two-holders", "unlock-rejected")
}

// the rig is stopped once, after the last gateway test of the binary
func TestC14ZGatewayStop(t *testing.T) { c14GwStop(t) }
