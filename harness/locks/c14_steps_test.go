package locks

import (
	"bytes"
	"context"
	"fmt"
	"testing"
	"time"

	"github.com/hydraide/hydraide/app/core/hydra/lock"
	"pgregory.net/rapid"

	"verifharness/internal/pbt"
)

// C14 — Business lock: exclusive, FIFO, TTL-released, deadlock-free.
//
// Facet "steps": a single controller issues steps on behalf of logical actors
// against one lock.New(). A Lock call runs in its own goroutine; the controller
// continues only after that goroutine has returned or is observed parked in the
// select inside lock.(*lock).Lock (runtime.Stack), so arrival order is known
// without sleeping. TTL expiry is the only spontaneous transition; the model
// is therefore observational: it advances only on observed events and every
// observed grant must be *explainable*:
//
//   - an actor's Lock may return successfully only when every entry ahead of
//     it in arrival order is gone: unlocked by a call that already started, or
//     expired — and an entry granted not before instant lb cannot expire before
//     lb+ttl (the TTL timer is created after the grant, on the same monotonic
//     clock the harness reads);
//   - after a successful Unlock of the holder (or a cancellation of a waiter
//     that had become head) the first remaining waiter must return from Lock;
//   - Unlock with an ID that is not in the key's queue returns an error and
//     changes nothing; Unlock of a live own lock returns nil.

const c14Forever = 10 * time.Minute

type C14Step struct {
	K   string `json:"k"` // lock | unlock | bad | cancel | race | sleep | await
	A   int    `json:"a,omitempty"`
	Key int    `json:"key,omitempty"`
	TTL int    `json:"ttl,omitempty"` // lock: ms; 0 = does not expire during the scenario
	Pre bool   `json:"pre,omitempty"` // lock: context already cancelled at call time
	P   int    `json:"p,omitempty"`   // bad: which wrong (key,id); sleep: ms
}

type C14Steps struct {
	Actors int       `json:"actors"`
	Keys   int       `json:"keys"`
	Steps  []C14Step `json:"steps"`
}

type lockRes struct {
	id  string
	err error
	t   time.Duration
}

type c14Ent struct {
	actor, key   int
	ttl          time.Duration // 0 = c14Forever
	lb           time.Duration // lower bound of the instant it became head (valid for the head)
	callStart    time.Duration
	res          chan lockRes
	got          bool
	r            lockRes
	gid          int64
	cancel       context.CancelFunc
	cancelIssued bool
}

type staleID struct {
	key int
	id  string
}

type c14Actor struct {
	state int // stIdle / stWaiting / stHolding
	cur   *c14Ent
	stale []staleID
}

type c14Run struct {
	l      lock.Lock
	base   time.Time
	q      [][]*c14Ent
	actors []c14Actor
	all    []*c14Ent
	// evidence
	maxQueue                                  int
	nExpiry, nCancel, nRace, nBad, nRaceErr   int
	nPreGrant, nPreErr, nHolderCancel, nAwait int
}

func (r *c14Run) now() time.Duration { return time.Since(r.base) }

func keyName(k int) string { return fmt.Sprintf("k%d", k) }

const lockFn = "lock.(*lock).Lock"

func (e *c14Ent) poll() {
	if e.got {
		return
	}
	select {
	case x := <-e.res:
		e.got, e.r = true, x
	default:
	}
}

func (r *c14Run) await(e *c14Ent, bound time.Duration) bool {
	bo := newBackoff()
	for {
		e.poll()
		if e.got {
			return true
		}
		if bo.elapsed() > bound {
			hangSeen.Store(true)
			return false
		}
		bo.wait()
	}
}

func (e *c14Ent) ttlEff() time.Duration {
	if e.ttl == 0 {
		return c14Forever
	}
	return e.ttl
}

func (r *c14Run) retire(e *c14Ent) {
	a := &r.actors[e.actor]
	a.state, a.cur = stIdle, nil
	if e.got && e.r.err == nil {
		a.stale = append(a.stale, staleID{e.key, e.r.id})
	}
}

func (r *c14Run) removeAt(k, j int) {
	q := r.q[k]
	r.q[k] = append(q[:j:j], q[j+1:]...)
}

func fail(shape, f string, a ...any) *pbt.Outcome {
	o := pbt.Failf(shape, f, a...)
	return &o
}

// settleAll waits until every entry that has not returned is parked in the
// select of lock.Lock (or returns meanwhile).
func (r *c14Run) settleAll(where string) *pbt.Outcome {
	bo := newBackoff()
	for {
		var ids []int64
		for _, q := range r.q {
			for _, e := range q {
				e.poll()
				if !e.got {
					ids = append(ids, e.gid)
				}
			}
		}
		if len(ids) == 0 {
			return nil
		}
		snap := snapshot(ids...)
		ok := true
		for _, id := range ids {
			g, found := snap[id]
			if !found || g.state != "select" || !bytes.Contains(g.stack, []byte(lockFn)) {
				ok = false
			}
		}
		if ok {
			return nil
		}
		if bo.elapsed() > curHangBound() {
			hangSeen.Store(true)
			return fail("hang", "%s: a Lock call is neither parked in its select nor returned", where)
		}
		bo.wait()
	}
}

// reconcile explains every observed return among the entries of key k.
func (r *c14Run) reconcile(k int, where string) *pbt.Outcome {
	for {
		q := r.q[k]
		for _, e := range q {
			e.poll()
		}
		progressed := false
		for j := 1; j < len(q); j++ {
			e := q[j]
			if e.got && e.r.err != nil {
				if !e.cancelIssued {
					return fail("spurious-error", "%s: Lock(%s) of actor %d failed (%v) although its context was never cancelled", where, keyName(k), e.actor, e.r.err)
				}
				r.removeAt(k, j)
				r.retire(e)
				progressed = true
				break
			}
		}
		if progressed {
			continue
		}
		for j := 1; j < len(q); j++ {
			e := q[j]
			if !e.got {
				continue
			}
			// e returned successfully: everything ahead of it must have expired.
			lb := q[0].lb
			for i := 0; i < j; i++ {
				p := q[i]
				if p.ttl == 0 {
					role := "holds the lock"
					if i > 0 {
						role = "waits ahead of it"
					}
					return fail("two-holders", "%s: Lock(%s) of actor %d returned id %s at %v although actor %d %s (no expiry, not unlocked, not cancelled)",
						where, keyName(k), e.actor, short(e.r.id), e.r.t, p.actor, role)
				}
				if i > 0 {
					// p arrived earlier, so it must have been granted (and expired) first
					if !r.await(p, curHangBound()) {
						return fail("fifo", "%s: Lock(%s) of actor %d was granted although actor %d, which arrived earlier, still waits", where, keyName(k), e.actor, p.actor)
					}
					if p.r.err != nil {
						if !p.cancelIssued {
							return fail("spurious-error", "%s: Lock(%s) of actor %d failed (%v) although its context was never cancelled", where, keyName(k), p.actor, p.r.err)
						}
						continue // contributed no tenure
					}
				}
				lb += p.ttl
			}
			if e.r.t < lb {
				return fail("ttl-early", "%s: Lock(%s) of actor %d returned at %v, but the %d holder(s) ahead of it cannot all have expired before %v (head granted not before %v, ttl %v)",
					where, keyName(k), e.actor, e.r.t, j, lb, q[0].lb, q[0].ttl)
			}
			for i := 0; i < j; i++ {
				r.retire(q[i])
				r.nExpiry++
			}
			r.q[k] = append([]*c14Ent(nil), q[j:]...)
			e.lb = lb
			r.actors[e.actor].state = stHolding
			progressed = true
			break
		}
		if !progressed {
			return nil
		}
	}
}

// advance is called after the head of key k was removed by an observed event
// at an instant not before lb: the first remaining entry must be granted.
func (r *c14Run) advance(k int, lb time.Duration, bound time.Duration, where string) *pbt.Outcome {
	for len(r.q[k]) > 0 {
		h := r.q[k][0]
		if !r.await(h, bound) {
			// who got it instead?
			for _, o := range r.q[k][1:] {
				o.poll()
				if o.got && o.r.err == nil {
					return fail("fifo", "%s: after the holder of %s left, actor %d was granted before actor %d which arrived earlier", where, keyName(k), o.actor, h.actor)
				}
			}
			return fail("hang", "%s: the holder of %s is gone but the first waiter (actor %d) is still blocked in Lock", where, keyName(k), h.actor)
		}
		if h.r.err != nil {
			if !h.cancelIssued {
				return fail("spurious-error", "%s: Lock(%s) of actor %d failed (%v) although its context was never cancelled", where, keyName(k), h.actor, h.r.err)
			}
			r.removeAt(k, 0)
			r.retire(h)
			continue
		}
		if h.r.t < lb {
			return fail("ttl-early", "%s: Lock(%s) of actor %d returned at %v, before its predecessor can have left (%v)", where, keyName(k), h.actor, h.r.t, lb)
		}
		h.lb = lb
		r.actors[h.actor].state = stHolding
		return nil
	}
	return nil
}

// unlockHead unlocks the current head of key k with its own id.
func (r *c14Run) unlockHead(k int, tStart time.Duration, where string) *pbt.Outcome {
	h := r.q[k][0]
	err := r.l.Unlock(keyName(k), h.r.id)
	t1 := r.now()
	if err == nil {
		r.removeAt(k, 0)
		r.retire(h)
		return r.advance(k, tStart, curHangBound(), where)
	}
	if h.ttl == 0 || t1 < h.lb+h.ttl {
		return fail("unlock-rejected", "%s: Unlock(%s, own live id) of actor %d returned %q at %v although the lock (granted not before %v, ttl %v) cannot have expired",
			where, keyName(k), h.actor, err, t1, h.lb, h.ttlEff())
	}
	// expired before the unlock: the next waiter is granted by the expiry
	r.nExpiry++
	r.removeAt(k, 0)
	r.retire(h)
	return r.advance(k, h.lb+h.ttl, curHangBound(), where)
}

func short(id string) string {
	if len(id) > 8 {
		return id[:8]
	}
	return id
}

func runC14Steps(s C14Steps) pbt.Outcome {
	if s.Actors < 1 || s.Actors > 16 || s.Keys < 1 || s.Keys > 8 {
		return pbt.Outcome{Skip: true}
	}
	r := &c14Run{l: lock.New(), base: time.Now(), q: make([][]*c14Ent, s.Keys), actors: make([]c14Actor, s.Actors)}
	defer func() {
		// cleanup: wake every waiter, stop every watchdog
		for _, e := range r.all {
			e.cancel()
		}
		for _, e := range r.all {
			if !e.got {
				r.await(e, 2*time.Second)
			}
			if e.got && e.r.err == nil {
				_ = r.l.Unlock(keyName(e.key), e.r.id)
			}
		}
	}()

	for i, st := range s.Steps {
		where := fmt.Sprintf("step %d %+v", i, st)
		for k := range r.q {
			if f := r.reconcile(k, where+" (before)"); f != nil {
				return *f
			}
		}
		if st.A < 0 || st.A >= s.Actors || st.Key < 0 || st.Key >= s.Keys {
			continue
		}
		switch st.K {
		case "lock":
			a := &r.actors[st.A]
			if a.state != stIdle || st.TTL < 0 {
				continue
			}
			k := st.Key
			ctx, cancel := context.WithCancel(context.Background())
			e := &c14Ent{actor: st.A, key: k, ttl: time.Duration(st.TTL) * time.Millisecond, res: make(chan lockRes, 1), cancel: cancel}
			if st.Pre {
				cancel()
				e.cancelIssued = true
			}
			r.all = append(r.all, e)
			wasEmpty := len(r.q[k]) == 0
			r.q[k] = append(r.q[k], e)
			if len(r.q[k]) > r.maxQueue {
				r.maxQueue = len(r.q[k])
			}
			a.state, a.cur = stWaiting, e
			gidc := make(chan int64, 1)
			ttl := e.ttlEff()
			e.callStart = r.now()
			go func() {
				gidc <- goid()
				id, err := r.l.Lock(ctx, keyName(k), ttl)
				e.res <- lockRes{id, err, r.now()}
			}()
			e.gid = <-gidc
			if f := r.settleAll(where); f != nil {
				return *f
			}
			if wasEmpty {
				if !e.got {
					return pbt.Failf("blocked-on-free-lock", "%s: Lock(%s) blocks although nobody holds or waits for the key", where, keyName(k))
				}
				if e.r.err != nil {
					if !st.Pre {
						return pbt.Failf("spurious-error", "%s: Lock(%s) on a free key failed: %v", where, keyName(k), e.r.err)
					}
					r.nPreErr++
					r.removeAt(k, 0)
					r.retire(e)
					// somebody may have queued behind it? impossible: the controller is sequential
				} else {
					if st.Pre {
						r.nPreGrant++
					}
					e.lb = e.callStart
					a.state = stHolding
				}
			}
		case "unlock":
			a := &r.actors[st.A]
			if a.state != stHolding {
				continue
			}
			if f := r.unlockHead(a.cur.key, r.now(), where); f != nil {
				return *f
			}
		case "race":
			// cancel the first waiter and unlock the holder back to back
			k := st.Key
			if len(r.q[k]) < 2 {
				continue
			}
			w := r.q[k][1]
			t0 := r.now()
			w.cancelIssued = true
			w.cancel()
			r.nRace++
			if f := r.unlockHead(k, t0, where); f != nil {
				return *f
			}
			// the cancelled waiter must come back in any case
			if !r.await(w, curHangBound()) {
				return pbt.Failf("hang", "%s: cancelled waiter (actor %d) does not return from Lock", where, w.actor)
			}
			if w.r.err != nil {
				r.nRaceErr++
			}
		case "cancel":
			a := &r.actors[st.A]
			switch a.state {
			case stWaiting:
				e := a.cur
				e.cancelIssued = true
				e.cancel()
				r.nCancel++
				if !r.await(e, curHangBound()) {
					return pbt.Failf("hang", "%s: cancelled waiter (actor %d) does not return from Lock", where, e.actor)
				}
			case stHolding:
				// cancelling the context after the grant must not release the lock
				a.cur.cancel()
				r.nHolderCancel++
			default:
				continue
			}
		case "bad":
			a := &r.actors[st.A]
			if a.state == stWaiting {
				continue
			}
			type cand struct {
				key  int
				id   string
				what string
			}
			var cs []cand
			for k := 0; k < s.Keys; k++ {
				cs = append(cs, cand{k, fmt.Sprintf("00000000-0000-4000-8000-%012d", st.P), "never issued id"})
			}
			for _, sid := range a.stale {
				cs = append(cs, cand{sid.key, sid.id, "own id already released/expired"})
				if s.Keys > 1 {
					cs = append(cs, cand{(sid.key + 1) % s.Keys, sid.id, "own old id on another key"})
				}
			}
			for b := range r.actors {
				if b == st.A {
					continue
				}
				for _, sid := range r.actors[b].stale {
					cs = append(cs, cand{sid.key, sid.id, "another actor's id already released/expired"})
				}
			}
			for k := range r.q {
				if len(r.q[k]) > 0 && s.Keys > 1 {
					h := r.q[k][0]
					what := "another holder's live id on the wrong key"
					if h.actor == st.A {
						what = "own live id on the wrong key"
					}
					cs = append(cs, cand{(k + 1 + st.P%(s.Keys-1)) % s.Keys, h.r.id, what})
				}
			}
			p := st.P
			if p < 0 {
				p = -p
			}
			// prefer the later (more interesting) candidates: index from the end
			c := cs[len(cs)-1-p%len(cs)]
			r.nBad++
			if err := r.l.Unlock(keyName(c.key), c.id); err == nil {
				return pbt.Failf("bad-unlock-accepted", "%s: Unlock(%s, %s = %s) by actor %d returned nil", where, keyName(c.key), short(c.id), c.what, st.A)
			}
			where += " [" + c.what + "]"
		case "sleep":
			d := st.P
			if d < 0 {
				d = 0
			}
			if d > 200 {
				d = 200
			}
			time.Sleep(time.Duration(d) * time.Millisecond)
		case "await":
			k := st.Key
			if len(r.q[k]) < 2 || r.q[k][0].ttl == 0 {
				continue
			}
			r.nAwait++
			w := r.q[k][1]
			if !r.await(w, r.q[k][0].ttl+curHangBound()) {
				return pbt.Failf("hang", "%s: the holder's TTL (%v) elapsed long ago but the first waiter (actor %d) is still blocked", where, r.q[k][0].ttl, w.actor)
			}
		default:
			continue
		}
		if f := r.settleAll(where); f != nil {
			return *f
		}
		for k := range r.q {
			if f := r.reconcile(k, where); f != nil {
				return *f
			}
		}
	}

	// drain: every remaining holder unlocks; every waiter must get its turn in arrival order
	for k := range r.q {
		for len(r.q[k]) > 0 {
			if f := r.reconcile(k, "drain"); f != nil {
				return *f
			}
			if f := r.unlockHead(k, r.now(), "drain"); f != nil {
				return *f
			}
		}
	}
	for _, e := range r.all {
		if !e.got {
			return pbt.Failf("hang", "drain: actor %d never returned from Lock(%s)", e.actor, keyName(e.key))
		}
	}

	out := pbt.Outcome{NonTrivial: r.maxQueue >= 3 && (r.nExpiry+r.nCancel+r.nRace) > 0}
	cls := func(c bool, n string) {
		if c {
			out.Classes = append(out.Classes, n)
		}
	}
	cls(r.maxQueue >= 3, "three-or-more-queued-on-a-key")
	cls(r.nExpiry > 0, "ttl-expiry-observed")
	cls(r.nCancel > 0, "queued-waiter-cancelled")
	cls(r.nRace > 0, "cancel-vs-unlock-race")
	cls(r.nRaceErr > 0, "race-waiter-left-as-head-or-queued")
	cls(r.nBad > 0, "wrong-id-unlock")
	cls(r.nPreGrant > 0, "precancelled-ctx-granted")
	cls(r.nPreErr > 0, "precancelled-ctx-refused-on-free-key")
	cls(r.nHolderCancel > 0, "ctx-cancelled-after-grant")
	cls(r.nAwait > 0, "awaited-ttl-handover")
	return out
}

// --- generator ---------------------------------------------------------------

// The generator keeps a rough simulation (expiry only assumed at "await" and
// after long sleeps) so that most steps are applicable; Run ignores steps that
// are not.
func genC14Steps(t *rapid.T) C14Steps {
	var s C14Steps
	s.Actors = rapid.IntRange(2, 8).Draw(t, "actors")
	s.Keys = rapid.IntRange(1, 3).Draw(t, "keys")
	n := rapid.IntRange(1, 30).Draw(t, "nsteps")
	type sent struct{ actor, ttl, age int }
	q := make([][]sent, s.Keys)
	state := make([]int, s.Actors)
	akey := make([]int, s.Actors)
	pop := func(k int) {
		state[q[k][0].actor] = stIdle
		q[k] = q[k][1:]
		if len(q[k]) > 0 {
			state[q[k][0].actor] = stHolding
			q[k][0].age = 0
		}
	}
	for i := 0; i < n; i++ {
		var idle, waiting, holding []int
		for a := range state {
			switch state[a] {
			case stIdle:
				idle = append(idle, a)
			case stWaiting:
				waiting = append(waiting, a)
			case stHolding:
				holding = append(holding, a)
			}
		}
		pick := func(xs []int, label string) int { return xs[rapid.IntRange(0, len(xs)-1).Draw(t, label)] }
		c := rapid.IntRange(0, 99).Draw(t, "kind")
		switch {
		case c < 36 && len(idle) > 0:
			a := pick(idle, "idle")
			k := rapid.IntRange(0, s.Keys-1).Draw(t, "key")
			ttl := 0
			if rapid.IntRange(0, 1).Draw(t, "finite") == 0 {
				ttl = rapid.IntRange(5, 80).Draw(t, "ttl")
			}
			pre := rapid.IntRange(0, 9).Draw(t, "pre") == 0
			s.Steps = append(s.Steps, C14Step{K: "lock", A: a, Key: k, TTL: ttl, Pre: pre})
			if pre {
				continue // rough: assume it is refused
			}
			q[k] = append(q[k], sent{actor: a, ttl: ttl})
			akey[a] = k
			if len(q[k]) == 1 {
				state[a] = stHolding
			} else {
				state[a] = stWaiting
			}
		case c < 52 && len(holding) > 0:
			a := pick(holding, "holder")
			s.Steps = append(s.Steps, C14Step{K: "unlock", A: a})
			pop(akey[a])
		case c < 61:
			a := rapid.IntRange(0, s.Actors-1).Draw(t, "bada")
			s.Steps = append(s.Steps, C14Step{K: "bad", A: a, P: rapid.IntRange(0, 11).Draw(t, "badp")})
		case c < 69 && len(waiting) > 0:
			a := pick(waiting, "waiter")
			s.Steps = append(s.Steps, C14Step{K: "cancel", A: a})
			k := akey[a]
			for j := range q[k] {
				if q[k][j].actor == a {
					q[k] = append(q[k][:j:j], q[k][j+1:]...)
					break
				}
			}
			state[a] = stIdle
		case c < 72 && len(holding) > 0:
			s.Steps = append(s.Steps, C14Step{K: "cancel", A: pick(holding, "hcancel")})
		case c < 81:
			var ks []int
			for k := range q {
				if len(q[k]) >= 2 {
					ks = append(ks, k)
				}
			}
			if len(ks) == 0 {
				continue
			}
			k := pick(ks, "racekey")
			s.Steps = append(s.Steps, C14Step{K: "race", Key: k})
			w := q[k][1].actor
			q[k] = append(q[k][:1:1], q[k][2:]...)
			state[w] = stIdle
			pop(k)
		case c < 93:
			var ks []int
			for k := range q {
				if len(q[k]) >= 2 && q[k][0].ttl > 0 {
					ks = append(ks, k)
				}
			}
			if len(ks) == 0 {
				continue
			}
			k := pick(ks, "awaitkey")
			s.Steps = append(s.Steps, C14Step{K: "await", Key: k})
			pop(k)
		default:
			d := rapid.IntRange(1, 40).Draw(t, "sleep")
			s.Steps = append(s.Steps, C14Step{K: "sleep", P: d})
			for k := range q {
				for len(q[k]) > 0 && q[k][0].ttl > 0 {
					q[k][0].age += d
					if q[k][0].age < q[k][0].ttl {
						break
					}
					pop(k)
				}
			}
		}
	}
	return s
}

const c14StepsRule = "rapid-generated step lists (1..30 steps, 2..8 actors, 1..3 keys) on lock.New(): Lock(key, ttl 5..80 ms or non-expiring, optionally with an already cancelled ctx), " +
	"Unlock(own), Unlock with a wrong id (never issued / own or foreign id already released or expired / a live id on the wrong key), cancel of a queued waiter, cancel after grant, " +
	"cancel-first-waiter-then-unlock-holder back to back, sleep, await TTL hand-over; each Lock call runs in a goroutine observed parked (select inside lock.Lock) before the next step; " +
	"every observed return must be explainable by the arrival-order model with one-sided TTL bounds; non-trivial = >= 3 actors in one key's queue and >= 1 TTL expiry or cancellation"

func TestC14Steps(t *testing.T) {
	pbt.Main(t, pbt.Spec[C14Steps]{
		ID: "C14", Facet: "steps", Rule: c14StepsRule,
		Quick: 1500, Thorough: 60000,
		Gen: genC14Steps, Run: runC14Steps,
	})
}
