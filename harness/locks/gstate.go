// Package locks holds the checks for the business lock (C14), the record
// guard (C15) and the lock bookkeeping bound (C28).
package locks

import (
	"bytes"
	"runtime"
	"strconv"
	"time"
)

// goid returns the id of the calling goroutine (parsed from its own stack
// header "goroutine N [running]:"). Used only to find the goroutine again in
// a full stack dump.
func goid() int64 {
	var buf [64]byte
	n := runtime.Stack(buf[:], false)
	b := buf[:n]
	b = bytes.TrimPrefix(b, []byte("goroutine "))
	i := bytes.IndexByte(b, ' ')
	if i < 0 {
		return -1
	}
	id, err := strconv.ParseInt(string(b[:i]), 10, 64)
	if err != nil {
		return -1
	}
	return id
}

type ginfo struct {
	state string // wait reason / status: "select", "sync.Cond.Wait", "runnable", "running", ...
	stack []byte // the stack text of that goroutine
}

var dumpBuf = make([]byte, 1<<16)

// snapshot returns the state of the goroutines whose ids are listed. A
// goroutine that no longer exists is absent from the result. Must only be
// called from one goroutine at a time (the scenario controller).
func snapshot(ids ...int64) map[int64]ginfo {
	for {
		n := runtime.Stack(dumpBuf, true)
		if n < len(dumpBuf) {
			return parseDump(dumpBuf[:n], ids)
		}
		dumpBuf = make([]byte, 2*len(dumpBuf))
	}
}

func parseDump(b []byte, ids []int64) map[int64]ginfo {
	want := make(map[int64]bool, len(ids))
	for _, id := range ids {
		want[id] = true
	}
	out := make(map[int64]ginfo, len(ids))
	for len(b) > 0 {
		var blk []byte
		if i := bytes.Index(b, []byte("\n\n")); i >= 0 {
			blk, b = b[:i], b[i+2:]
		} else {
			blk, b = b, nil
		}
		if !bytes.HasPrefix(blk, []byte("goroutine ")) {
			continue
		}
		rest := blk[len("goroutine "):]
		sp := bytes.IndexByte(rest, ' ')
		if sp < 0 {
			continue
		}
		id, err := strconv.ParseInt(string(rest[:sp]), 10, 64)
		if err != nil || !want[id] {
			continue
		}
		rest = rest[sp+1:]
		state := ""
		if len(rest) > 0 && rest[0] == '[' {
			end := bytes.IndexByte(rest, ']')
			if end > 0 {
				state = string(rest[1:end])
				if c := bytes.IndexByte([]byte(state), ','); c >= 0 {
					state = state[:c]
				}
			}
		}
		out[id] = ginfo{state: state, stack: blk}
	}
	return out
}

// parkedIn reports whether goroutine id is blocked with the given wait reason
// and has a frame containing fn on its stack.
func parkedIn(id int64, state, fn string) bool {
	g, ok := snapshot(id)[id]
	return ok && g.state == state && bytes.Contains(g.stack, []byte(fn))
}

// backoff is a polling helper: first yields, then sleeps with growing pauses.
type backoff struct {
	n     int
	start time.Time
}

func newBackoff() *backoff { return &backoff{start: time.Now()} }

func (b *backoff) wait() {
	b.n++
	switch {
	case b.n < 20:
		runtime.Gosched()
	case b.n < 60:
		time.Sleep(20 * time.Microsecond)
	case b.n < 200:
		time.Sleep(200 * time.Microsecond)
	default:
		time.Sleep(2 * time.Millisecond)
	}
}

func (b *backoff) elapsed() time.Duration { return time.Since(b.start) }

// hangBound is the generous bound after which an expected progress step is
// declared missing. It is only ever waited out in a failing scenario.
const hangBound = 20 * time.Second
